/-
Invariants of one handler that are about the wrappers' own fields (not the byte logs), proved
directly on the code model and lifted to every reachable world by `flow_invariant`:

* `SE`: an error recorded on the socket wrapper (`exc`) means the wrapper is shut both ways, and
  a wrapper with `shut_write` has really shut its socket down;
* `Dead`: a handler whose `ok` is False is completely finished — all four shut flags set, both
  buffers empty, hence unregistered from the Mux (its identifier is free) — and stays so.

No hypothesis on the schedule is needed for these.
-/
import SshuttleModel.Lemmas.FlowEv
import SshuttleModel.Lemmas.Faults

namespace Sshuttle.Tunnel
open Sshuttle.Mux (Frame)
open Sshuttle.Wrap

/-- Socket-wrapper / socket consistency. -/
def SE (s : SockW) (e : ESock) : Prop :=
  (s.exc = true → s.shutR = true ∧ s.shutW = true) ∧ (s.shutW = true ↔ e.sawShut = true)

theorem SE.nowrite {s : SockW} {e : ESock} (h : SE s e) (se : Bool) : SE (s.nowrite e se).1 (s.nowrite e se).2 := by
  obtain ⟨h1, h2⟩ := h
  unfold SockW.nowrite
  by_cases hw : s.shutW = true
  · simp only [hw, ↓reduceIte]; exact ⟨h1, h2⟩
  · have hw' : s.shutW = false := by simpa using hw
    simp only [hw', Bool.false_eq_true, ↓reduceIte]
    cases se
    · simp only [Bool.false_eq_true, ↓reduceIte]
      exact ⟨fun hx => ⟨(h1 hx).1, rfl⟩, ⟨fun _ => rfl, fun _ => rfl⟩⟩
    · simp only [↓reduceIte]
      exact ⟨fun _ => ⟨rfl, rfl⟩, ⟨fun _ => rfl, fun _ => rfl⟩⟩

theorem SE.noread {s : SockW} {e : ESock} (h : SE s e) : SE s.noread e :=
  ⟨fun hx => ⟨rfl, (h.1 hx).2⟩, h.2⟩

theorem SE.seterr (s : SockW) (e : ESock) (se : Bool) (h2 : s.shutW = true ↔ e.sawShut = true) :
    SE (s.seterr e se).1 (s.seterr e se).2 := by
  unfold SockW.seterr SockW.nowrite SockW.noread
  by_cases hw : s.shutW = true
  · simp only [hw, ↓reduceIte]
    exact ⟨fun _ => ⟨rfl, rfl⟩, ⟨fun _ => h2.mp hw, fun _ => rfl⟩⟩
  · have hw' : s.shutW = false := by simpa using hw
    simp only [hw', Bool.false_eq_true, ↓reduceIte]
    cases se
    · simp only [Bool.false_eq_true, ↓reduceIte]
      exact ⟨fun _ => ⟨rfl, rfl⟩, ⟨fun _ => rfl, fun _ => rfl⟩⟩
    · simp only [↓reduceIte]
      exact ⟨fun _ => ⟨rfl, rfl⟩, ⟨fun _ => rfl, fun _ => rfl⟩⟩

theorem SE.setBuf {s : SockW} {e : ESock} (h : SE s e) (b : List Bytes) : SE { s with buf := b } e := h

theorem SE.env {s : SockW} {e e' : ESock} (h : SE s e) (hs : e'.sawShut = e.sawShut) : SE s e' :=
  ⟨h.1, by rw [hs]; exact h.2⟩

theorem SE.tryConnect {s : SockW} {e : ESock} (h : SE s e) (c : ConnRes) (se : Bool) (s' : SockW) (e' : ESock)
    (ht : s.tryConnect e c se = .ok s' e') : SE s' e' := by
  unfold SockW.tryConnect at ht
  have h0 : SE (if s.connecting && s.shutW then { s.noread with connecting := false } else s) e := by
    split
    · exact ⟨fun hx => ⟨rfl, (h.1 hx).2⟩, h.2⟩
    · exact h
  generalize (if s.connecting && s.shutW then { s.noread with connecting := false } else s) = t at ht h0
  simp only at ht
  split at ht
  · injection ht with a b; subst a; subst b; exact h0
  · cases c with
    | ok =>
      simp only at ht
      injection ht with a b; subst a; subst b; exact h0
    | errno en so =>
      simp only at ht
      generalize (if en = Generated.EINVAL then so else en) = en' at ht
      by_cases c1 : en' = Generated.EINPROGRESS ∨ en' = Generated.EALREADY
      · rw [if_pos c1] at ht
        injection ht with a b; subst a; subst b; exact h0
      · rw [if_neg c1] at ht
        by_cases c2 : en' = 0
        · rw [if_pos c2] at ht
          injection ht with a b; subst a; subst b; exact h0
        · rw [if_neg c2] at ht
          by_cases c3 : en' = Generated.EISCONN
          · rw [if_pos c3] at ht
            injection ht with a b; subst a; subst b; exact h0
          · rw [if_neg c3] at ht
            by_cases c4 : en' ∈ Generated.NET_ERRS ++ Generated.CONNECT_EXTRA_ERRS
            · rw [if_pos c4] at ht
              injection ht with a b; subst a; subst b
              exact SE.seterr { t with connecting := false } e se h0.2
            · rw [if_neg c4] at ht; cases ht

theorem recv_sawShut (e : ESock) (r : RecvRes) : (e.recv r).2.2.sawShut = e.sawShut := by
  unfold ESock.recv
  cases r with
  | err => rfl
  | eagain => rfl
  | data n =>
    simp only
    split
    · split <;> rfl
    · rfl

theorem SE.fill {s : SockW} {e : ESock} (h : SE s e) (r : RecvRes) (se : Bool) :
    SE (s.fill e r se).1 (s.fill e r se).2 := by
  unfold SockW.fill
  split
  · exact h
  · split
    · exact h
    · split
      · exact h
      · have hs := recv_sawShut e r
        generalize e.recv r = x at hs
        obtain ⟨ob, isErr, e1⟩ := x
        simp only at hs
        have h1 : SE s e1 := h.env hs
        cases isErr with
        | true => simp only; exact (SE.seterr s e1 se h1.2).noread
        | false =>
          cases ob with
          | none => exact h1
          | some rb =>
            simp only
            split
            · exact h1.noread
            · exact h1

theorem SE.uwrite {s : SockW} {e : ESock} (h : SE s e) (b : Bytes) (r : SendRes) (se : Bool) :
    SE (s.uwrite e b r se).2.1 (s.uwrite e b r se).2.2 := by
  unfold SockW.uwrite
  split
  · exact h
  · simp only
    split
    · exact h.env rfl
    · exact h
    · exact h.nowrite se
    · exact SE.seterr s e se h.2

theorem SE.copyMS {s : SockW} {e : ESock} (h : SE s e) (w : MuxW) (r : SendRes) (se : Bool) :
    SE (muxCopyToSock w s e r se).2.1 (muxCopyToSock w s e r se).2.2 := by
  unfold muxCopyToSock
  have stage : ∀ x : MuxW × SockW × ESock, SE x.2.1 x.2.2 →
      SE (if ({ x.1 with buf := popEmpty x.1.buf } : MuxW).buf.isEmpty && ({ x.1 with buf := popEmpty x.1.buf } : MuxW).shutR then
            (({ x.1 with buf := popEmpty x.1.buf } : MuxW), (x.2.1.nowrite x.2.2 se).1, (x.2.1.nowrite x.2.2 se).2)
          else (({ x.1 with buf := popEmpty x.1.buf } : MuxW), x.2.1, x.2.2)).2.1
         (if ({ x.1 with buf := popEmpty x.1.buf } : MuxW).buf.isEmpty && ({ x.1 with buf := popEmpty x.1.buf } : MuxW).shutR then
            (({ x.1 with buf := popEmpty x.1.buf } : MuxW), (x.2.1.nowrite x.2.2 se).1, (x.2.1.nowrite x.2.2 se).2)
          else (({ x.1 with buf := popEmpty x.1.buf } : MuxW), x.2.1, x.2.2)).2.2 := by
    intro x hx
    split
    · exact hx.nowrite se
    · exact hx
  cases hb : w.buf with
  | nil => exact stage (w, s, e) h
  | cons b rest =>
    simp only
    by_cases hbe : b.isEmpty = true
    · simp only [hbe, ↓reduceIte]; exact stage (w, s, e) h
    · simp only [hbe, Bool.false_eq_true, ↓reduceIte]
      have hu := h.uwrite b r se
      generalize s.uwrite e b r se = u at hu
      obtain ⟨on, s1, e1⟩ := u
      cases on with
      | none => exact stage (w, s1, e1) hu
      | some n => exact stage ({ w with buf := b.drop n :: rest }, s1, e1) hu

theorem sockCopyToMux_sw (s : SockW) (w : MuxW) (m : MuxL) :
    (sockCopyToMux s w m).1.shutR = s.shutR ∧ (sockCopyToMux s w m).1.shutW = s.shutW ∧
    (sockCopyToMux s w m).1.exc = s.exc ∧ (sockCopyToMux s w m).1.connecting = s.connecting := by
  unfold sockCopyToMux
  cases hb : s.buf with
  | nil => simp only; split <;> exact ⟨rfl, rfl, rfl, rfl⟩
  | cons b rest =>
    simp only
    by_cases hbe : b.isEmpty = true
    · simp only [hbe, ↓reduceIte]; split <;> exact ⟨rfl, rfl, rfl, rfl⟩
    · simp only [hbe, Bool.false_eq_true, ↓reduceIte]; split <;> exact ⟨rfl, rfl, rfl, rfl⟩

theorem SE.copySM {s : SockW} {e : ESock} (h : SE s e) (w : MuxW) (m : MuxL) :
    SE (sockCopyToMux s w m).1 e := by
  obtain ⟨a, b, c, _⟩ := sockCopyToMux_sw s w m
  unfold SE
  rw [a, b, c]
  exact h

theorem SE.dropSock {p : ProxyS} {e : ESock} (h : SE p.sw e) : SE p.dropSock.sw e := by
  unfold ProxyS.dropSock
  split
  · exact (h.setBuf []).noread
  · exact h

theorem dropMux_sw (p : ProxyS) (m : MuxL) : (p.dropMux m).1.sw = p.sw := by
  unfold ProxyS.dropMux; split <;> rfl

theorem SE.finish {p : ProxyS} {e : ESock} (h : SE p.sw e) (m : MuxL) (se : Bool) :
    SE (p.finish m e se).1.sw (p.finish m e se).2.2 := by
  unfold ProxyS.finish
  split
  · split <;> exact h.nowrite se
  · exact h

theorem SE.preSelect {p : ProxyS} {e : ESock} (h : SE p.sw e) (m : MuxL) : SE (p.preSelectFlags m).1.sw e := by
  unfold ProxyS.preSelectFlags
  by_cases hf : p.sockFirst = true
  · simp only [hf, ↓reduceIte]
    generalize (if p.sw.shutW = true then p.mw.noread m else (p.mw, m)) = x
    by_cases hx : x.1.shutW = true
    · rw [if_pos hx]; exact h.noread
    · rw [if_neg hx]; exact h
  · simp only [hf, Bool.false_eq_true, ↓reduceIte]
    by_cases hx : p.mw.shutW = true
    · rw [if_pos hx]; exact h.noread
    · rw [if_neg hx]; exact h

/-- The flag propagation only sets `shut_read` flags (and queues STOP_SENDING). -/
theorem preSelect_fields (p : ProxyS) (m : MuxL) :
    (p.preSelectFlags m).1.sw.exc = p.sw.exc ∧ (p.preSelectFlags m).1.sw.shutW = p.sw.shutW ∧
    (p.preSelectFlags m).1.sw.buf = p.sw.buf ∧ (p.preSelectFlags m).1.sw.connecting = p.sw.connecting ∧
    (p.preSelectFlags m).1.mw.buf = p.mw.buf ∧ (p.preSelectFlags m).1.mw.shutW = p.mw.shutW ∧
    (p.preSelectFlags m).1.sockFirst = p.sockFirst := by
  obtain ⟨⟨sb, sr, sw, sc, sx⟩, ⟨wc, wb, wr, ww⟩, pok, sf⟩ := p
  cases sf <;> cases sw <;> cases ww <;> cases wr <;>
    simp [ProxyS.preSelectFlags, MuxW.noread, SockW.noread]

theorem SE.cleanup {p : ProxyS} {e : ESock} (h : SE p.sw e) (m : MuxL) (se : Bool) :
    SE (p.cleanup m e se).1.sw (p.cleanup m e se).2.2 := by
  unfold ProxyS.cleanup
  by_cases hf : p.sockFirst = true
  · simp only [hf, ↓reduceIte]
    apply SE.finish
    apply SE.preSelect
    rw [dropMux_sw]; exact h.dropSock
  · simp only [hf, Bool.false_eq_true, ↓reduceIte]
    apply SE.finish
    apply SE.preSelect
    apply SE.dropSock
    rw [dropMux_sw]; exact h

theorem SE.callback {p : ProxyS} {e : ESock} (h : SE p.sw e) (m : MuxL) (io : CbIo) (p' : ProxyS) (m' : MuxL)
    (e' : ESock) (hc : p.callback m e io = .ok p' m' e') : SE p'.sw e' := by
  obtain ⟨psw, pmw, pok, sf⟩ := p
  unfold ProxyS.callback at hc
  simp only at hc h
  cases htc : psw.tryConnect e io.conn io.shutErr with
  | died => rw [htc] at hc; cases hc
  | ok s0 e0 =>
    rw [htc] at hc
    simp only at hc
    have g0 := h.tryConnect io.conn io.shutErr s0 e0 htc
    have g1 := g0.fill io.recv io.shutErr
    generalize s0.fill e0 io.recv io.shutErr = f at hc g1
    obtain ⟨s1, e1⟩ := f
    simp only at hc g1
    cases sf
    case true =>
      simp only [↓reduceIte] at hc
      have g2 := g1.copySM pmw m
      generalize sockCopyToMux s1 pmw m = g at hc g2
      obtain ⟨s2, w2, m2⟩ := g
      simp only at hc g2
      have g3 := g2.copyMS w2 io.send io.shutErr
      generalize muxCopyToSock w2 s2 e1 io.send io.shutErr = k at hc g3
      obtain ⟨w3, s3, e3⟩ := k
      simp only at hc g3
      have g4 := SE.cleanup (p := { sw := s3, mw := w3, ok := pok, sockFirst := true }) g3 m2 io.shutErr
      injection hc with hp _ he
      subst hp; subst he
      exact g4
    case false =>
      simp only [Bool.false_eq_true, ↓reduceIte] at hc
      have g2 := g1.copyMS pmw io.send io.shutErr
      generalize muxCopyToSock pmw s1 e1 io.send io.shutErr = k at hc g2
      obtain ⟨w2, s2, e2⟩ := k
      simp only at hc g2
      have g3 := g2.copySM w2 m
      generalize sockCopyToMux s2 w2 m = g at hc g3
      obtain ⟨s3, w3, m3⟩ := g
      simp only at hc g3
      have g4 := SE.cleanup (p := { sw := s3, mw := w3, ok := pok, sockFirst := false }) g3 m3 io.shutErr
      injection hc with hp _ he
      subst hp; subst he
      exact g4

/-! ### a finished handler stays finished -/

/-- All four shut flags set and both buffers empty. -/
def Dead (p : ProxyS) : Prop :=
  p.sw.shutR = true ∧ p.sw.shutW = true ∧ p.mw.shutR = true ∧ p.mw.shutW = true ∧
  p.sw.buf.flatten = [] ∧ p.mw.buf.flatten = []

theorem Dead.unregistered {p : ProxyS} (h : Dead p) : p.mw.registered = false := by
  simp [MuxW.registered, h.2.2.1, h.2.2.2.1]

theorem srcStar_bufEmpty {c : Nat} {k : Bool} {a a' : SrcV} (h : Star (SrcStep c k) a a') (hev : a.ever = true)
    (hr : a.shutR = true) (hb : a.buf = []) : a'.ever = true ∧ a'.shutR = true ∧ a'.buf = [] := by
  induction h with
  | refl => exact ⟨hev, hr, hb⟩
  | tail _ st ih =>
    obtain ⟨i0, i1, i2⟩ := ih
    cases st with
    | consume x hp hr' => rw [i1] at hr'; cases hr'
    | send moved rest hb' hne hp =>
      rw [i2] at hb'
      have := (List.append_eq_nil_iff.mp hb'.symm)
      exact ⟨i0, i1, this.2⟩
    | eof hp hb' hr' hw => exact ⟨i0, i1, i2⟩
    | stopFrame hp hs => exact ⟨i0, i1, i2⟩
    | foreign fr hf => exact ⟨i0, i1, i2⟩
    | discard hp hw' => exact ⟨i0, rfl, rfl⟩
    | flags r w os hr' hw hos hk => exact ⟨i0, hr' i1, i2⟩
    | remove hp hb' => exact ⟨i0, i1, rfl⟩
    | create he r os hos => rw [i0] at he; cases he

theorem sinkStar_bufEmpty {b b' : SinkV} (h : Star SinkStep b b') (hb : b.buf = []) : b'.buf = [] := by
  induction h with
  | refl => exact hb
  | tail _ st ih =>
    cases st with
    | deliver moved rest hb' hs =>
      rw [ih] at hb'
      exact (List.append_eq_nil_iff.mp hb'.symm).2
    | discard hw => rfl
    | flags r w saw ok h1 h2 h3 h4 h5 h6 => exact ih
    | remove hok hp => rfl

theorem Dead.pok {p p' : ProxyS} {m m' : MuxL} {e e' : ESock} (h : Dead p) (hk : POk p m e p' m' e') : Dead p' := by
  obtain ⟨d1, d2, d3, d4, d5, d6⟩ := h
  obtain ⟨k1, _, k3⟩ := sinkStar_mono hk.1.sink
  obtain ⟨_, s1, s2⟩ := srcStar_mono hk.1.src rfl
  obtain ⟨_, _, b1⟩ := srcStar_bufEmpty hk.1.src rfl d1 d5
  have b2 := sinkStar_bufEmpty hk.1.sink d6
  exact ⟨s1 d1, k1 d2, k3 d3, s2 d4, b1, b2⟩

theorem nowrite_fields (s : SockW) (e : ESock) (se : Bool) :
    (s.nowrite e se).1.shutW = true ∧ (s.shutR = true → (s.nowrite e se).1.shutR = true) ∧
    (s.nowrite e se).1.buf = s.buf := by
  unfold SockW.nowrite
  by_cases hw : s.shutW = true
  · simp [hw]
  · have hw' : s.shutW = false := by simpa using hw
    cases se <;> simp [hw']

theorem mwNowrite_fields (w : MuxW) (m : MuxL) :
    (w.nowrite m).1.shutW = true ∧ (w.nowrite m).1.shutR = w.shutR ∧ (w.nowrite m).1.buf = w.buf := by
  unfold MuxW.nowrite
  by_cases hw : w.shutW = true
  · simp [hw]
  · have hw' : w.shutW = false := by simpa using hw
    simp [hw']

/-- `ok` goes False only in the final clean-up, and only in a completely finished state. -/
theorem finish_dead (p : ProxyS) (m : MuxL) (e : ESock) (se : Bool) (hok : p.ok = true)
    (h : (p.finish m e se).1.ok = false) : Dead (p.finish m e se).1 := by
  unfold ProxyS.finish at h ⊢
  by_cases hc : (p.sw.shutR && p.mw.shutR && p.sw.buf.isEmpty && p.mw.buf.isEmpty) = true
  · rw [if_pos hc]
    simp only [Bool.and_eq_true, List.isEmpty_iff] at hc
    obtain ⟨⟨⟨c1, c2⟩, c3⟩, c4⟩ := hc
    obtain ⟨n1, n2, n3⟩ := nowrite_fields p.sw e se
    obtain ⟨w1, w2, w3⟩ := mwNowrite_fields p.mw m
    split
    · exact ⟨n2 c1, n1, by rw [w2]; exact c2, w1, by rw [n3, c3]; rfl, by rw [w3, c4]; rfl⟩
    · exact ⟨n2 c1, n1, by rw [w2]; exact c2, w1, by rw [n3, c3]; rfl, by rw [w3, c4]; rfl⟩
  · rw [if_neg hc] at h
    simp only at h
    rw [hok] at h; cases h

theorem dropSock_okflag (p : ProxyS) : p.dropSock.ok = p.ok := by
  unfold ProxyS.dropSock; split <;> rfl

theorem dropMux_okflag (p : ProxyS) (m : MuxL) : (p.dropMux m).1.ok = p.ok := by
  unfold ProxyS.dropMux; split <;> rfl

theorem preSelect_okflag (p : ProxyS) (m : MuxL) : (p.preSelectFlags m).1.ok = p.ok := by
  unfold ProxyS.preSelectFlags
  split <;> rfl

theorem cleanup_dead (p : ProxyS) (m : MuxL) (e : ESock) (se : Bool) (hok : p.ok = true)
    (h : (p.cleanup m e se).1.ok = false) : Dead (p.cleanup m e se).1 := by
  unfold ProxyS.cleanup at h ⊢
  by_cases hf : p.sockFirst = true
  · simp only [hf, ↓reduceIte] at h ⊢
    exact finish_dead _ _ e se (by rw [preSelect_okflag, dropMux_okflag, dropSock_okflag]; exact hok) h
  · simp only [hf, Bool.false_eq_true, ↓reduceIte] at h ⊢
    exact finish_dead _ _ e se (by rw [preSelect_okflag, dropSock_okflag, dropMux_okflag]; exact hok) h

/-- The `ok` flag of the handler after a callback is the one its final clean-up computed from a
handler whose `ok` was the old one. -/
theorem callback_cleanup (p : ProxyS) (m : MuxL) (e : ESock) (io : CbIo) (p' : ProxyS) (m' : MuxL) (e' : ESock)
    (h : p.callback m e io = .ok p' m' e') :
    ∃ (q : ProxyS) (m1 : MuxL) (e1 : ESock), q.ok = p.ok ∧ p' = (q.cleanup m1 e1 io.shutErr).1 := by
  obtain ⟨psw, pmw, pok, sf⟩ := p
  unfold ProxyS.callback at h
  simp only at h
  cases htc : psw.tryConnect e io.conn io.shutErr with
  | died => rw [htc] at h; cases h
  | ok s0 e0 =>
    rw [htc] at h
    simp only at h
    generalize s0.fill e0 io.recv io.shutErr = f at h
    obtain ⟨s1, e1⟩ := f
    simp only at h
    cases sf
    case true =>
      simp only [↓reduceIte] at h
      generalize sockCopyToMux s1 pmw m = g at h
      obtain ⟨s2, w2, m2⟩ := g
      simp only at h
      generalize muxCopyToSock w2 s2 e1 io.send io.shutErr = k at h
      obtain ⟨w3, s3, e3⟩ := k
      simp only at h
      injection h with hp _ _
      exact ⟨{ sw := s3, mw := w3, ok := pok, sockFirst := true }, m2, e3, rfl, hp.symm⟩
    case false =>
      simp only [Bool.false_eq_true, ↓reduceIte] at h
      generalize muxCopyToSock pmw s1 e1 io.send io.shutErr = k at h
      obtain ⟨w2, s2, e2⟩ := k
      simp only at h
      generalize sockCopyToMux s2 w2 m = g at h
      obtain ⟨s3, w3, m3⟩ := g
      simp only at h
      injection h with hp _ _
      exact ⟨{ sw := s3, mw := w3, ok := pok, sockFirst := false }, m3, e2, rfl, hp.symm⟩

/-- `ok = False` implies completely finished: preserved by a callback. -/
theorem deadOK_callback (p : ProxyS) (m : MuxL) (e : ESock) (io : CbIo) (p' : ProxyS) (m' : MuxL) (e' : ESock)
    (h : p.callback m e io = .ok p' m' e') (hd : p.ok = false → Dead p) : p'.ok = false → Dead p' := by
  intro hok'
  cases hok : p.ok with
  | false => exact (hd hok).pok (callback_ok p m e io p' m' e' h)
  | true =>
    obtain ⟨q, m1, e1, hq, hp'⟩ := callback_cleanup p m e io p' m' e' h
    rw [hp'] at hok' ⊢
    exact cleanup_dead q m1 e1 io.shutErr (by rw [hq]; exact hok) hok'

/-! ### the per-flow invariant, for every reachable world -/

/-- Per-flow code-level invariant: on both ends, socket wrapper and socket agree, recorded errors
mean closed, and a handler with `ok = False` is completely finished. -/
def FlowSock (f : Flow) : Prop :=
  (∀ p, f.c = some p → SE p.sw f.app ∧ (p.ok = false → Dead p)) ∧
  (∀ p, f.s = some p → SE p.sw f.dst ∧ (p.ok = false → Dead p)) ∧
  (∀ p, f.s = some p → f.sEver = true) ∧ (f.sEver = false → f.dst.sawShut = false)

theorem flowSock_new (c : Nat) : FlowSock (newFlow c) := by
  refine ⟨?_, ?_, ?_, ?_⟩
  · intro p hp
    simp only [newFlow, Option.some.injEq] at hp
    subst hp
    exact ⟨⟨fun h => (by cases h), ⟨fun h => (by cases h), fun h => (by cases h)⟩⟩, fun h => (by cases h)⟩
  · intro p hp; cases hp
  · intro p hp; cases hp
  · intro _; rfl

theorem flowSock_ev (f f' : Flow) (ev : FlowEv f f') (h : FlowSock f) : FlowSock f' := by
  obtain ⟨hc, hs, hA, hB⟩ := h
  cases ev with
  | same => exact ⟨hc, hs, hA, hB⟩
  | cbC _ p m io p' m' e' hcp hcb =>
    refine ⟨?_, hs, hA, hB⟩
    intro q hq
    simp only [Option.some.injEq] at hq
    subst hq
    exact ⟨(hc p hcp).1.callback m io _ m' e' hcb, deadOK_callback p m f.app io _ m' e' hcb (hc p hcp).2⟩
  | cbS _ p m io p' m' e' hcp hcb =>
    have hev := hA p hcp
    refine ⟨hc, ?_, fun _ _ => hev, fun h0 => by rw [hev] at h0; cases h0⟩
    intro q hq
    simp only [Option.some.injEq] at hq
    subst hq
    exact ⟨(hs p hcp).1.callback m io _ m' e' hcb, deadOK_callback p m f.dst io _ m' e' hcb (hs p hcp).2⟩
  | preC _ p m hcp =>
    refine ⟨?_, hs, hA, hB⟩
    intro q hq
    simp only [Option.some.injEq] at hq
    subst hq
    refine ⟨(hc p hcp).1.preSelect m, fun hok => ?_⟩
    rw [preSelect_okflag] at hok
    exact ((hc p hcp).2 hok).pok (preSelect_ok p m f.app)
  | preS _ p m hcp =>
    have hev := hA p hcp
    refine ⟨hc, ?_, fun _ _ => hev, hB⟩
    intro q hq
    simp only [Option.some.injEq] at hq
    subst hq
    refine ⟨(hs p hcp).1.preSelect m, fun hok => ?_⟩
    rw [preSelect_okflag] at hok
    exact ((hs p hcp).2 hok).pok (preSelect_ok p m f.dst)
  | got e _ p cmd data w' hcp hreg hg =>
    -- only a registered wrapper receives frames; a finished one is unregistered
    cases e with
    | client =>
      simp only [handlerAt] at hcp
      refine ⟨?_, hs, hA, hB⟩
      intro q hq
      simp only [setHandler, Option.some.injEq] at hq
      subst hq
      refine ⟨(hc p hcp).1, fun hok => ?_⟩
      have := ((hc p hcp).2 hok).unregistered
      rw [this] at hreg; cases hreg
    | server =>
      simp only [handlerAt] at hcp
      have hev := hA p hcp
      refine ⟨hc, ?_, fun _ _ => hev, hB⟩
      intro q hq
      simp only [setHandler, Option.some.injEq] at hq
      subst hq
      refine ⟨(hs p hcp).1, fun hok => ?_⟩
      have := ((hs p hcp).2 hok).unregistered
      rw [this] at hreg; cases hreg
  | connect _ conn s e c hev htc =>
    refine ⟨hc, ?_, fun _ _ => rfl, fun h0 => (by cases h0)⟩
    intro q hq
    simp only [Option.some.injEq] at hq
    subst hq
    refine ⟨?_, fun h => (by cases h)⟩
    have hsaw := hB hev
    have h0 : SE ({ connecting := true } : SockW) f.dst :=
      ⟨fun h => (by cases h), ⟨fun h => (by cases h), fun h => (by rw [hsaw] at h; cases h)⟩⟩
    exact h0.tryConnect conn false s e htc
  | rmC _ p hcp hok => exact ⟨fun q hq => (by cases hq), hs, hA, hB⟩
  | rmS _ p hcp hok =>
    have hev := hA p hcp
    exact ⟨hc, fun q hq => (by cases hq), fun q hq => (by cases hq), fun h0 => by rw [hev] at h0; cases h0⟩
  | appWrite _ b hb => exact ⟨fun p hp => ⟨(hc p hp).1.env rfl, (hc p hp).2⟩, hs, hA, hB⟩
  | appEof => exact ⟨fun p hp => ⟨(hc p hp).1.env rfl, (hc p hp).2⟩, hs, hA, hB⟩
  | dstWrite _ b hb => exact ⟨hc, fun p hp => ⟨(hs p hp).1.env rfl, (hs p hp).2⟩, hA, hB⟩
  | dstEof => exact ⟨hc, fun p hp => ⟨(hs p hp).1.env rfl, (hs p hp).2⟩, hA, hB⟩

/-- Every flow of every world reachable from one without flows, under ANY schedule. -/
theorem reach_flowSock (w0 : World) (h0 : w0.flows = []) (steps : List Step) :
    ∀ f ∈ (w0.run steps).flows, FlowSock f :=
  flow_invariant FlowSock flowSock_new flowSock_ev w0 (by rw [h0]; intro f hf; cases hf) steps

end Sshuttle.Tunnel
