/-
C12 helper lemmas, part 5: ssh reported dead; the start-up checks.
-/
import SshuttleModel.Lemmas.ClientMainOrder

namespace Sshuttle.ClientMain
open Sshuttle.ClientTrace

/-- The liveness call of an iteration in which ssh is reported dead: it is made, and raises; the
only further trace entry is the model's `sshDead` marker (absent when the call itself was faulted). -/
theorem checkAlive_dead (sc : Script) (s : Step) (h : s.alive.isSome) (w : World) :
    ∃ x w' l, checkAlive sc (some s) w = (.error x, w') ∧
      w'.trace = w.trace ++ (if sc.cfg.daemon then Ev.kill else Ev.poll) :: l ∧
      (l = [] ∨ l = [Ev.sshDead]) := by
  obtain ⟨rv, hrv⟩ := Option.isSome_iff_exists.1 h
  unfold checkAlive
  cases hd : sc.cfg.daemon <;>
    simp only [mapExc, bind_apply, act, mark, modifyW, raise, hrv, Bool.false_eq_true, ↓reduceIte] <;>
    cases sc.faults w.calls <;> simp only [push, deliver]
  · exact ⟨_, _, [Ev.sshDead], rfl, by simp, Or.inr rfl⟩
  · exact ⟨_, _, [], rfl, by simp, Or.inl rfl⟩
  · exact ⟨_, _, [Ev.sshDead], rfl, by simp, Or.inr rfl⟩
  · exact ⟨_, _, [], rfl, by simp, Or.inl rfl⟩

theorem mainLoop_dead (sc : Script) (i : Nat) (s : Step) (rest : List Step) (h : s.alive.isSome)
    (w : World) : mainLoop sc i (s :: rest) w = checkAlive sc (some s) w := by
  obtain ⟨x, w', l, hc, _⟩ := checkAlive_dead sc s h w
  unfold mainLoop
  simp only [bind_apply, hc]

/-- Nothing that is scripted after the iteration that reports ssh dead is ever looked at. -/
theorem mainLoop_truncate (sc : Script) (pre : List Step) (s : Step) (rest : List Step)
    (h : s.alive.isSome) (i : Nat) :
    mainLoop sc i (pre ++ s :: rest) = mainLoop sc i (pre ++ [s]) := by
  induction pre generalizing i with
  | nil =>
    funext w
    simp only [List.nil_append]
    rw [mainLoop_dead sc i s rest h, mainLoop_dead sc i s [] h]
  | cons p pre ih =>
    simp only [List.cons_append]
    unfold mainLoop
    rw [ih]

/-! ### start-up emits only `connect`, `hsread`, `poll` -/

def StartupEv (e : Ev) : Prop := e = .connect ∨ e = .hsRead ∨ e = .poll

def Only (t0 : List Ev) (w : World) : Prop := ∃ l, w.trace = t0 ++ l ∧ ∀ x ∈ l, StartupEv x

theorem Only.step {t0 : List Ev} {e : Ev} (he : StartupEv e) : ∀ w, Only t0 w → Only t0 (actW e w) := by
  rintro w ⟨l, h1, h2⟩
  refine ⟨l ++ [e], by simp [h1], ?_⟩
  intro x hx
  rcases List.mem_append.1 hx with h | h
  · exact h2 x h
  · simp at h; subst h; exact he

theorem only_hsRead (sc : Script) (t0 : List Ev) (n : Nat) : Pres (Only t0) (hsRead sc n) := by
  unfold hsRead
  refine Pres.bind (Pres.act (Only.step (Or.inr (Or.inl rfl)))) fun _ => ?_
  refine Pres.bind Pres.getW fun w => ?_
  exact Pres.bind (Pres.modifyW fun w h => h) fun _ => Pres.pure _

theorem only_skipToNul (sc : Script) (t0 : List Ev) (fuel : Nat) : Pres (Only t0) (skipToNul sc fuel) := by
  induction fuel with
  | zero => exact Pres.pure _
  | succ n ih =>
    unfold skipToNul
    refine Pres.bind (only_hsRead sc t0 1) fun v => ?_
    split
    · exact Pres.pure _
    · exact Pres.ite (Pres.pure _) ih

theorem only_readExactly (sc : Script) (t0 : List Ev) (fuel n : Nat) (acc : Bytes) :
    Pres (Only t0) (readExactly sc fuel n acc) := by
  induction fuel generalizing acc with
  | zero => exact Pres.pure _
  | succ k ih =>
    unfold readExactly
    refine Pres.ite (Pres.pure _) ?_
    refine Pres.bind (only_hsRead sc t0 _) fun v => ?_
    exact Pres.ite (Pres.pure _) (ih _)

theorem only_startupChecks (sc : Script) (t0 : List Ev) : Pres (Only t0) (startupChecks sc) := by
  unfold startupChecks
  refine Pres.bind (Pres.mapExc (Pres.act (Only.step (Or.inl rfl)))) fun _ => ?_
  refine Pres.bind (Pres.modifyW fun w h => h) fun _ => ?_
  refine Pres.bind Pres.getW fun w => ?_
  refine Pres.bind (Pres.mapExc ?_) fun init => ?_
  · unfold readInit
    refine Pres.bind (only_skipToNul sc t0 _) fun _ => ?_
    refine Pres.bind (only_skipToNul sc t0 _) fun _ => ?_
    exact only_readExactly sc t0 _ _ _
  refine Pres.bind (Pres.act (Only.step (Or.inr (Or.inr rfl)))) fun _ => ?_
  refine Pres.bind (Pres.ite (Pres.raise _) (Pres.pure _)) fun _ => ?_
  exact Pres.bind (Pres.ite (Pres.raise _) (Pres.pure _)) fun _ => Pres.pure _

theorem Triple.trivial {α} (m : M α) :
    Triple (fun _ => True) m (fun _ _ => True) (fun _ => True) := by
  intro w _
  rcases m w with ⟨r, w'⟩
  cases r <;> trivial

/-- With ssh already dead at the first `poll()`, the start-up checks never succeed. -/
theorem startupChecks_dead (sc : Script) (h : sc.cfg.poll0.isSome) :
    Triple (fun _ => True) (startupChecks sc) (fun _ _ => False) (fun _ => True) := by
  unfold startupChecks
  refine Triple.bind (R := fun _ _ => True) (Triple.trivial _) fun _ => ?_
  refine Triple.bind (R := fun _ _ => True) (Triple.modifyW fun _ _ => trivial) fun _ => ?_
  refine Triple.bind (R := fun _ _ => True) (Triple.getW fun _ _ => trivial) fun w => ?_
  refine Triple.bind (R := fun _ _ => True) (Triple.trivial _) fun init => ?_
  refine Triple.bind (R := fun _ _ => True) (Triple.act fun _ _ => ⟨trivial, trivial⟩) fun _ => ?_
  refine Triple.bind (R := fun _ _ => False) ?_ fun _ => ?_
  · simp only [h, ↓reduceIte]
    exact Triple.raise _ fun _ _ => trivial
  · exact fun w hw => hw.elim

end Sshuttle.ClientMain
