/-
The helper's host map after a history of `HOST` updates: last writer wins.
-/
import SshuttleModel.Spec.FwDialogue

namespace Sshuttle.FwDialogue

theorem mapLookup_cons (e : Str × Str) (m : List (Str × Str)) (n : Str) :
    mapLookup (e :: m) n = if e.1 = n then some e.2 else mapLookup m n := by
  unfold mapLookup
  by_cases h : e.1 = n
  · simp [List.find?, h]
  · have hb : (e.1 == n) = false := by simpa using h
    simp [List.find?, hb, h]

theorem mapLookup_nil (n : Str) : mapLookup [] n = none := rfl

theorem mapLookup_append_single (m : List (Str × Str)) (e : Str × Str) (n : Str) :
    mapLookup (m ++ [e]) n = (mapLookup m n).or (if e.1 = n then some e.2 else none) := by
  induction m with
  | nil => simp [mapLookup_cons, mapLookup_nil]
  | cons x m ih =>
    simp only [List.cons_append, mapLookup_cons, ih]
    by_cases h : x.1 = n <;> simp [h]

theorem mapLookup_none_of_not_any (m : List (Str × Str)) (a : Str) (h : m.any (·.1 == a) = false) :
    mapLookup m a = none := by
  induction m with
  | nil => rfl
  | cons x m ih =>
    simp only [List.any_cons, Bool.or_eq_false_iff] at h
    have hx : x.1 ≠ a := by simpa using h.1
    simp [mapLookup_cons, hx, ih h.2]

theorem mapLookup_map_set (a b : Str) (n : Str) : ∀ (m : List (Str × Str)),
    mapLookup (m.map (fun e => if e.1 == a then (a, b) else e)) n =
      if a = n then (if m.any (·.1 == a) then some b else none) else mapLookup m n
  | [] => by simp [mapLookup_nil]
  | x :: m => by
    simp only [List.map_cons, mapLookup_cons, mapLookup_map_set a b n m]
    by_cases hxa : x.1 = a
    · have hc : (x :: m).any (·.1 == a) = true := by simp [hxa]
      rw [hc]
      by_cases han : a = n
      · simp [hxa, han]
      · have : x.1 ≠ n := by rw [hxa]; exact han
        simp [hxa, han]
    · have hb : (x.1 == a) = false := by simpa using hxa
      have hc : (x :: m).any (·.1 == a) = m.any (·.1 == a) := by simp [List.any_cons, hb]
      rw [hc]
      by_cases han : a = n
      · have : x.1 ≠ n := by rw [← han]; exact hxa
        simp [hb, han, this]
      · simp [hb, han]

/-- `hostmap[name] = ip` -/
theorem mapLookup_set (m : List (Str × Str)) (a b n : Str) :
    mapLookup (hostmapSet m a b) n = if a = n then some b else mapLookup m n := by
  unfold hostmapSet
  by_cases hany : m.any (·.1 == a) = true
  · simp only [hany, if_true, mapLookup_map_set]
  · have hf : m.any (·.1 == a) = false := by
      cases hb : m.any (·.1 == a) with
      | false => rfl
      | true => exact absurd hb hany
    simp only [hf, Bool.false_eq_true, if_false, mapLookup_append_single]
    by_cases han : a = n
    · subst han; simp [mapLookup_none_of_not_any m a hf]
    · simp [han]

theorem mapLookup_fold (n : Str) : ∀ (us m : List (Str × Str)),
    mapLookup (us.foldl (fun m e => hostmapSet m e.1 e.2) m) n = (lastFor us n).or (mapLookup m n)
  | [], m => by simp [lastFor, mapLookup_nil]
  | e :: us, m => by
    simp only [List.foldl_cons, mapLookup_fold n us, mapLookup_set]
    simp only [lastFor, List.reverse_cons, mapLookup_append_single]
    cases mapLookup us.reverse n <;> by_cases h : e.1 = n <;> simp [h]

end Sshuttle.FwDialogue
