/-
C12 helper lemmas, part 3: invariants carried through the whole program.

`Chain I` says that `I` survives every "plain" event and every state change that leaves the
trace alone and does not set `mux.got_routes`.  The lemmas `pres_*` push such an `I` through
every function of the model below `onroutes` once and for all; the two users are the monitor
invariant `Inv` (ordering rules) and `NoRun k` ("no `runonce` number k").
-/
import SshuttleModel.Lemmas.ClientMainFin
import SshuttleModel.Lemmas.ClientMainSpec

namespace Sshuttle.ClientMain
open Sshuttle.ClientTrace

/-- Events with no role in the ordering rules and no iteration number. -/
def Plain (e : Ev) : Prop :=
  e ≠ .fw .routes ∧ e ≠ .ready ∧ e ≠ .close ∧ e ≠ .sshDead ∧ (∀ b, e ≠ .hsOk b) ∧ ∀ i, e ≠ .run i

/-- State changes that keep the trace and do not install the ROUTES callback. -/
def Frame (f : World → World) : Prop :=
  ∀ w, (f w).trace = w.trace ∧ ((f w).routesCb = w.routesCb ∨ (f w).routesCb = false)

structure Chain (I : World → Prop) : Prop where
  act : ∀ e w, Plain e → I w → I (actW e w)
  push : ∀ e w, Plain e → I w → I (push e w)
  frame : ∀ f, Frame f → ∀ w, I w → I (f w)

/-- Discharges `Frame f` for a record update that leaves `trace` and `routesCb` alone. -/
macro "by_frame" : tactic =>
  `(tactic| (intro w; first | exact ⟨rfl, Or.inl rfl⟩ | (dsimp only; split <;> exact ⟨rfl, Or.inl rfl⟩)))

theorem M.bind_assoc {α β γ} (m : M α) (f : α → M β) (g : β → M γ) :
    (m >>= f) >>= g = m >>= fun a => f a >>= g := by
  funext w
  simp only [bind_apply]
  rcases m w with ⟨r, w'⟩
  cases r <;> rfl

theorem M.pure_bind {α β} (a : α) (f : α → M β) : (pure a : M α) >>= f = f a := by
  funext w; rfl

section chain
variable {I : World → Prop} (h : Chain I) (sc : Script)
include h

theorem pres_act {e : Ev} (he : Plain e) : Pres I (act sc e) := Pres.act fun w => h.act e w he
theorem pres_mark {e : Ev} (he : Plain e) : Pres I (mark e) := Pres.mark fun w => h.push e w he
theorem pres_frame {f : World → World} (hf : Frame f) : Pres I (modifyW f) := Pres.modifyW (h.frame f hf)

theorem pres_muxSend (c : Option Nat) (cmd : Nat) (d : Bytes) : Pres I (muxSend c cmd d) := by
  intro w hw
  unfold muxSend
  cases Mux.send w.tx c cmd d with
  | ok tx => exact h.frame (fun w => { w with tx := tx }) (by by_frame) w hw
  | assertLen => exact hw
  | structError => exact hw

theorem pres_fwCheck : Pres I (fwCheck sc) := by
  unfold fwCheck
  refine Pres.bind (pres_act h sc (by simp [Plain])) fun _ => ?_
  exact Pres.ite (Pres.raise _) (Pres.pure _)

theorem pres_fwSethostip (name ip : Bytes) : Pres I (fwSethostip sc name ip) := by
  unfold fwSethostip
  refine Pres.bind (Pres.ite (Pres.raise _) (Pres.pure _)) fun _ => ?_
  refine Pres.bind (Pres.ite (Pres.raise _) (Pres.pure _)) fun _ => ?_
  refine Pres.bind (pres_act h sc (by simp [Plain])) fun _ => ?_
  exact pres_act h sc (by simp [Plain])

theorem pres_onhostlistLoop (ls : List Bytes) : Pres I (onhostlistLoop sc ls) := by
  induction ls with
  | nil => exact Pres.pure _
  | cons l rest ih =>
    unfold onhostlistLoop
    refine Pres.bind ?_ fun _ => ih
    split
    · exact Pres.pure _
    · exact Pres.ite (pres_fwSethostip h sc _ _) (Pres.pure _)

theorem pres_onhostlist (d : Bytes) : Pres I (onhostlist sc d) := pres_onhostlistLoop h sc _

theorem pres_checkFullness : Pres I checkFullness := by
  unfold checkFullness
  refine Pres.bind Pres.getW fun w => ?_
  refine Pres.ite ?_ (Pres.pure _)
  refine Pres.bind (Pres.ite (pres_muxSend h _ _ _) (Pres.pure _)) fun _ => ?_
  exact pres_frame h (by by_frame)

theorem pres_onacceptTcp : Pres I (onacceptTcp sc) := by
  unfold onacceptTcp
  refine Pres.bind (pres_act h sc (by simp [Plain])) fun _ => ?_
  refine Pres.bind Pres.getW fun w => ?_
  refine Pres.bind (pres_frame h (by by_frame)) fun _ => ?_
  split
  · exact Pres.pure _
  · refine Pres.bind (pres_muxSend h _ _ _) fun _ => ?_
    exact pres_frame h (by by_frame)

theorem pres_muxFlush : Pres I (muxFlush sc) := by
  unfold muxFlush
  refine Pres.bind Pres.getW fun w => ?_
  split
  · exact Pres.pure _
  · refine Pres.ite (pres_frame h (by by_frame)) ?_
    refine Pres.bind (Pres.nbClean (pres_act h sc (by simp [Plain]))) fun _ => ?_
    exact pres_frame h (by by_frame)

theorem pres_hsRead (n : Nat) : Pres I (hsRead sc n) := by
  unfold hsRead
  refine Pres.bind (pres_act h sc (by simp [Plain])) fun _ => ?_
  refine Pres.bind Pres.getW fun w => ?_
  exact Pres.bind (pres_frame h (by by_frame)) fun _ => Pres.pure _

theorem pres_skipToNul (fuel : Nat) : Pres I (skipToNul sc fuel) := by
  induction fuel with
  | zero => exact Pres.pure _
  | succ n ih =>
    unfold skipToNul
    refine Pres.bind (pres_hsRead h sc 1) fun v => ?_
    split
    · exact Pres.pure _
    · exact Pres.ite (Pres.pure _) ih

theorem pres_readExactly (fuel n : Nat) (acc : Bytes) : Pres I (readExactly sc fuel n acc) := by
  induction fuel generalizing acc with
  | zero => exact Pres.pure _
  | succ k ih =>
    unfold readExactly
    refine Pres.ite (Pres.pure _) ?_
    refine Pres.bind (pres_hsRead h sc _) fun v => ?_
    exact Pres.ite (Pres.pure _) (ih _)

theorem pres_readInit (fuel : Nat) : Pres I (readInit sc fuel) := by
  unfold readInit
  refine Pres.bind (pres_skipToNul h sc fuel) fun _ => ?_
  refine Pres.bind (pres_skipToNul h sc fuel) fun _ => ?_
  exact pres_readExactly h sc _ _ _

/-- Everything of `startup` before the final `mark .hsOk`. -/
def startupChecks (sc : Script) : M Bytes := do
  mapExc connectExc (act sc .connect)
  modifyW fun w => { w with tx := initTx }
  let w ← getW
  let init ← mapExc hsExc (readInit sc (Handshake.total w.reader + 1))
  act sc .poll
  (if sc.cfg.poll0.isSome then raise .fatal else pure ())
  (if init ≠ Handshake.expected then raise .fatal else pure ())
  pure init

omit h in
theorem startup_eq : startup sc = (do let init ← startupChecks sc; mark (.hsOk init)) := by
  unfold startup startupChecks
  simp only [M.bind_assoc]
  rfl

theorem pres_startupChecks : Pres I (startupChecks sc) := by
  unfold startupChecks
  refine Pres.bind (Pres.mapExc (pres_act h sc (by simp [Plain]))) fun _ => ?_
  refine Pres.bind (pres_frame h (by by_frame)) fun _ => ?_
  refine Pres.bind Pres.getW fun w => ?_
  refine Pres.bind (Pres.mapExc (pres_readInit h sc _)) fun init => ?_
  refine Pres.bind (pres_act h sc (by simp [Plain])) fun _ => ?_
  refine Pres.bind (Pres.ite (Pres.raise _) (Pres.pure _)) fun _ => ?_
  exact Pres.bind (Pres.ite (Pres.raise _) (Pres.pure _)) fun _ => Pres.pure _

/-- `register` after `mux.got_routes = onroutes`. -/
def registerRest (sc : Script) : M Unit := do
  act sc (.addHandler 0)
  (if sc.cfg.udp then act sc (.addHandler 1) else pure ())
  (if sc.cfg.nNs > 0 then act sc (.addHandler 2) else pure ())
  match sc.cfg.seed with
  | some n => muxSend (some 0) Generated.CMD_HOST_REQ (List.replicate n 0)
  | none => pure ()

theorem pres_registerRest : Pres I (registerRest sc) := by
  unfold registerRest
  refine Pres.bind (pres_act h sc (by simp [Plain])) fun _ => ?_
  refine Pres.bind (Pres.ite (pres_act h sc (by simp [Plain])) (Pres.pure _)) fun _ => ?_
  refine Pres.bind (Pres.ite (pres_act h sc (by simp [Plain])) (Pres.pure _)) fun _ => ?_
  split
  · exact pres_muxSend h _ _ _
  · exact Pres.pure _

/-- `register` before `mux.got_routes = onroutes`. -/
def registerHead (sc : Script) : M Unit := do
  act sc .outFlush
  (if sc.cfg.daemon then act sc .daemonize else pure ())

theorem pres_registerHead : Pres I (registerHead sc) := by
  unfold registerHead
  refine Pres.bind (pres_act h sc (by simp [Plain])) fun _ => ?_
  exact Pres.ite (pres_act h sc (by simp [Plain])) (Pres.pure _)

omit h in
theorem register_eq : register sc =
    (do registerHead sc; modifyW (fun w => { w with routesCb := true }); registerRest sc) := by
  unfold register registerHead registerRest
  simp only [M.bind_assoc]
  rfl

/-- What the ROUTES branch of `got_packet` needs from the invariant. -/
def RoutesOk (I : World → Prop) (sc : Script) : Prop :=
  ∀ data w, I w → w.routesCb = true → I (onroutes sc data (push .routes w)).2

variable (hr : RoutesOk I sc)
include hr

theorem pres_gotPacket (f : Mux.Frame) : Pres I (gotPacket sc f) := by
  intro w hw
  unfold gotPacket
  simp only [bind_apply, getW]
  split
  · exact pres_muxSend h _ _ _ w hw
  · split
    · exact pres_frame h (by by_frame) w hw
    · split
      · exact pres_frame h (by by_frame) w hw
      · split
        · split
          · exact hw
          · exact hw
        · split
          · -- ROUTES
            simp only [bind_apply, mark]
            split
            · rename_i hcb; exact hr f.data w hw hcb
            · exact h.push _ w (by simp [Plain]) hw
          · split
            · exact hw
            · split
              · exact pres_onhostlist h sc _ w hw
              · split
                · split
                  · exact hw
                  · split
                    · exact pres_frame h (by by_frame) w hw
                    · exact hw
                · exact hw

theorem pres_dispatch (fs : List Mux.Frame) : Pres I (dispatch sc fs) := by
  induction fs with
  | nil => exact Pres.pure _
  | cons f rest ih => unfold dispatch; exact Pres.bind (pres_gotPacket h sc hr f) fun _ => ih

theorem pres_muxHandle : Pres I (muxHandle sc) := by
  unfold muxHandle
  refine Pres.bind (Pres.mapExc (Pres.nbClean (pres_act h sc (by simp [Plain])))) fun r => ?_
  split
  · exact Pres.raise _
  · refine Pres.bind Pres.getW fun w => ?_
    refine Pres.bind (pres_frame h (by by_frame)) fun _ => ?_
    dsimp only
    split
    · exact Pres.bind (pres_frame h (by by_frame)) fun _ => pres_dispatch h sc hr _
    · refine Pres.bind (pres_frame h (by by_frame)) fun _ => ?_
      exact Pres.bind (pres_dispatch h sc hr _) fun _ => Pres.raise _
    · refine Pres.bind (pres_frame h (by by_frame)) fun _ => ?_
      exact Pres.bind (pres_dispatch h sc hr _) fun _ => Pres.raise _
    · exact Pres.raise _

theorem pres_muxCallback : Pres I (muxCallback sc) := by
  unfold muxCallback
  refine Pres.bind (pres_act h sc (by simp [Plain])) fun _ => ?_
  refine Pres.bind Pres.getW fun w => ?_
  refine Pres.bind (Pres.ite (pres_muxHandle h sc hr) (Pres.pure _)) fun _ => ?_
  refine Pres.bind Pres.getW fun w' => ?_
  exact Pres.ite (pres_muxFlush h sc) (Pres.pure _)

theorem pres_runonceBody : Pres I (runonceBody sc) := by
  unfold runonceBody
  refine Pres.bind (pres_frame h (by by_frame)) fun _ => ?_
  refine Pres.bind (pres_act h sc (by simp [Plain])) fun _ => ?_
  refine Pres.bind Pres.getW fun w => ?_
  refine Pres.bind (Pres.ite (pres_muxCallback h sc hr) (Pres.pure _)) fun _ => ?_
  refine Pres.bind (Pres.ite (pres_muxCallback h sc hr) (Pres.pure _)) fun _ => ?_
  exact Pres.ite (pres_onacceptTcp h sc) (Pres.pure _)

theorem pres_runonce (i : Nat) (hrun : ∀ w, I w → I (push (.run i) w)) : Pres I (runonce sc i) := by
  unfold runonce
  exact Pres.bind (Pres.mark hrun) fun _ => pres_runonceBody h sc hr

omit hr in
theorem pres_checkAlive (hdead : ∀ w, I w → I (push .sshDead w)) (st : Option Step) :
    Pres I (checkAlive sc st) := by
  unfold checkAlive
  have hb : Pres I (do
      act sc (if sc.cfg.daemon then Ev.kill else Ev.poll)
      match st with
      | none => raise sc.cfg.endExc
      | some s =>
        modifyW (deliver s)
        match s.alive with
        | some _ => do
          mark .sshDead
          raise (if sc.cfg.daemon then Exc.oserr Gen.C12.ESRCH else Exc.fatal)
        | none => pure ()) := by
    refine Pres.bind (pres_act h sc ?_) fun _ => ?_
    · split <;> simp [Plain]
    · split
      · exact Pres.raise _
      · refine Pres.bind (pres_frame h (by by_frame)) fun _ => ?_
        · split
          · exact Pres.bind (Pres.mark hdead) fun _ => Pres.raise _
          · exact Pres.pure _
  exact Pres.ite (Pres.mapExc hb) hb

theorem pres_mainLoop (steps : List Step) (i : Nat)
    (hrun : ∀ j, i ≤ j → ∀ w, I w → I (push (.run j) w))
    (hdead : ∀ w, I w → I (push .sshDead w)) : Pres I (mainLoop sc i steps) := by
  induction steps generalizing i with
  | nil => unfold mainLoop; exact pres_checkAlive h sc hdead none
  | cons s rest ih =>
    unfold mainLoop
    refine Pres.bind (pres_checkAlive h sc hdead _) fun _ => ?_
    refine Pres.bind (pres_runonce h sc hr i (hrun i (Nat.le_refl _))) fun _ => ?_
    refine Pres.bind (Pres.ite (pres_checkFullness h) (Pres.pure _)) fun _ => ?_
    exact ih (i + 1) fun j hj => hrun j (by omega)

end chain

end Sshuttle.ClientMain
