/-
How one flow's record can change in one world step, as a relation `FlowEv`, and the resulting
induction principle for per-flow invariants of the code model (`flow_invariant`): a predicate on
`Flow` that holds for a freshly accepted flow and is preserved by every `FlowEv` holds for every
flow of every reachable world.  Used by Props/C08 and Props/C02 for facts that are about the
wrappers' own fields rather than about the byte logs.
-/
import SshuttleModel.Lemmas.TunnelInv

namespace Sshuttle.Tunnel
open Sshuttle.Mux (Frame)
open Sshuttle.Wrap

inductive FlowEv : Flow → Flow → Prop
  | same (f : Flow) : FlowEv f f
  | cbC (f : Flow) (p : ProxyS) (m : MuxL) (io : CbIo) (p' : ProxyS) (m' : MuxL) (e' : ESock)
      (hc : f.c = some p) (h : p.callback m f.app io = .ok p' m' e') :
      FlowEv f { f with c := some p', app := e' }
  | cbS (f : Flow) (p : ProxyS) (m : MuxL) (io : CbIo) (p' : ProxyS) (m' : MuxL) (e' : ESock)
      (hc : f.s = some p) (h : p.callback m f.dst io = .ok p' m' e') :
      FlowEv f { f with s := some p', dst := e' }
  | preC (f : Flow) (p : ProxyS) (m : MuxL) (hc : f.c = some p) :
      FlowEv f { f with c := some (p.preSelectFlags m).1 }
  | preS (f : Flow) (p : ProxyS) (m : MuxL) (hc : f.s = some p) :
      FlowEv f { f with s := some (p.preSelectFlags m).1 }
  | got (e : End) (f : Flow) (p : ProxyS) (cmd : Nat) (data : Bytes) (w' : MuxW)
      (hc : handlerAt e f = some p) (hreg : p.mw.registered = true)
      (h : p.mw.gotPacket cmd data = .ok w') : FlowEv f (setHandler e f { p with mw := w' })
  | connect (f : Flow) (conn : ConnRes) (s : SockW) (e : ESock) (c : Nat) (hev : f.sEver = false)
      (h : SockW.tryConnect { connecting := true } f.dst conn false = .ok s e) :
      FlowEv f { f with s := some { sw := s, mw := { chan := c }, sockFirst := false }, sEver := true, dst := e }
  | rmC (f : Flow) (p : ProxyS) (hc : f.c = some p) (hok : p.ok = false) : FlowEv f { f with c := none }
  | rmS (f : Flow) (p : ProxyS) (hc : f.s = some p) (hok : p.ok = false) : FlowEv f { f with s := none }
  | appWrite (f : Flow) (b : Bytes) (h : f.app.eofIn = false) :
      FlowEv f { f with app := { f.app with pending := f.app.pending ++ b } }
  | appEof (f : Flow) : FlowEv f { f with app := { f.app with eofIn := true } }
  | dstWrite (f : Flow) (b : Bytes) (h : f.dst.eofIn = false) :
      FlowEv f { f with dst := { f.dst with pending := f.dst.pending ++ b } }
  | dstEof (f : Flow) : FlowEv f { f with dst := { f.dst with eofIn := true } }

/-- The record of a connection just accepted by the client. -/
def newFlow (c : Nat) : Flow := { chan := c, c := some { sw := {}, mw := { chan := c }, sockFirst := true } }

/-- Position-wise: every flow of the next world is a flow of this world after one `FlowEv`, or
the newly accepted flow at the end of the list. -/
def FlowsEv (l l' : List Flow) : Prop :=
  ∀ (j : Nat) (f' : Flow), l'[j]? = some f' →
    (∃ f, l[j]? = some f ∧ FlowEv f f') ∨ (l[j]? = none ∧ ∃ c, f' = newFlow c)

theorem FlowsEv.refl (l : List Flow) : FlowsEv l l :=
  fun _ f' h => Or.inl ⟨f', h, FlowEv.same f'⟩

theorem flowsEv_modifyAt (l : List Flow) (i : Nat) (g : Flow → Flow)
    (hg : ∀ f, l[i]? = some f → FlowEv f (g f)) : FlowsEv l (modifyAt l i g) := by
  intro j f' hj
  rw [modifyAt_getElem?] at hj
  left
  by_cases hji : j = i
  · subst hji
    simp only [↓reduceIte] at hj
    cases hl : l[j]? with
    | none => rw [hl] at hj; cases hj
    | some f =>
      rw [hl] at hj
      simp only [Option.map_some, Option.some.injEq] at hj
      subst hj
      exact ⟨f, rfl, hg f hl⟩
  · rw [if_neg hji] at hj
    exact ⟨f', hj, FlowEv.same f'⟩

theorem flowsEv_map (l : List Flow) (g : Flow → Flow) (hg : ∀ f, FlowEv f (g f)) : FlowsEv l (l.map g) := by
  intro j f' hj
  left
  rw [List.getElem?_map] at hj
  cases hl : l[j]? with
  | none => rw [hl] at hj; cases hj
  | some f =>
    rw [hl] at hj
    simp only [Option.map_some, Option.some.injEq] at hj
    subst hj
    exact ⟨f, rfl, hg f⟩

theorem flowsEv_dispatchAt (w : World) (e : End) (fr : Frame) : FlowsEv w.flows (w.dispatchAt e fr).flows := by
  unfold World.dispatchAt
  split
  · exact FlowsEv.refl _
  · simp only
    rcases dispatch_spec e w.flows fr with ⟨_, h2⟩ | ⟨_, h2, _⟩ | ⟨_, i, f, p, w', h1, _, h3, h4, h5, h7⟩
    · rw [h2]; exact FlowsEv.refl _
    · rw [h2]; exact FlowsEv.refl _
    · rw [h7]
      apply flowsEv_modifyAt
      intro g hg
      rw [h1] at hg
      simp only [Option.some.injEq] at hg
      subst hg
      exact FlowEv.got e f p fr.cmd fr.data w' h3 h4 h5

theorem flowsEv_connectS (w : World) (fr : Frame) (conn : ConnRes) : FlowsEv w.flows (w.connectS fr conn).flows := by
  unfold World.connectS
  split
  · exact FlowsEv.refl _
  · split
    · exact FlowsEv.refl _
    next i hi =>
      split
      · exact FlowsEv.refl _
      next f hf =>
        split
        · exact FlowsEv.refl _
        next s e htc =>
          simp only
          apply flowsEv_modifyAt
          intro g hg
          have hp := List.findIdx?_eq_some_iff_getElem.mp hi
          obtain ⟨hlt, hpi, _⟩ := hp
          have : w.flows[i]? = some w.flows[i] := List.getElem?_eq_getElem hlt
          rw [this] at hg hf
          simp only [Option.some.injEq] at hg hf
          subst hg
          simp only [Bool.and_eq_true, beq_iff_eq, Bool.not_eq_eq_eq_not, Bool.not_true] at hpi
          subst hf
          exact FlowEv.connect _ conn s e fr.chan hpi.2 htc

theorem stepRaw_flowsEv (w : World) (st : Step) : FlowsEv w.flows (w.stepRaw st).flows := by
  unfold World.stepRaw
  cases st with
  | accept =>
    simp only [World.accept]
    split
    · exact FlowsEv.refl _
    next c ch _ =>
      intro j f' hj
      simp only at hj
      by_cases hlt : j < w.flows.length
      · rw [List.getElem?_append_left hlt] at hj
        exact Or.inl ⟨f', hj, FlowEv.same f'⟩
      · rw [List.getElem?_append_right (by omega)] at hj
        right
        refine ⟨List.getElem?_eq_none (by omega), c, ?_⟩
        cases hk : j - w.flows.length with
        | zero => rw [hk] at hj; simp only [List.getElem?_cons_zero, Option.some.injEq] at hj; exact hj.symm
        | succ k => rw [hk] at hj; simp at hj
  | cb e i io =>
    cases e
    · simp only [World.cbC]
      split
      next f hf =>
        split
        next p hp =>
          split
          next p' m' e' hcb =>
            apply flowsEv_modifyAt
            intro g hg
            rw [hf] at hg; simp only [Option.some.injEq] at hg; subst hg
            exact FlowEv.cbC _ p w.cm io p' m' e' hp hcb
          · exact FlowsEv.refl _
        · exact FlowsEv.refl _
      · exact FlowsEv.refl _
    · simp only [World.cbS]
      split
      next f hf =>
        split
        next p hp =>
          split
          next p' m' e' hcb =>
            apply flowsEv_modifyAt
            intro g hg
            rw [hf] at hg; simp only [Option.some.injEq] at hg; subst hg
            exact FlowEv.cbS _ p w.sm io p' m' e' hp hcb
          · exact FlowsEv.refl _
        · exact FlowsEv.refl _
      · exact FlowsEv.refl _
  | pre e i =>
    cases e
    · simp only [World.preC]
      split
      next f hf =>
        split
        next p hp =>
          apply flowsEv_modifyAt
          intro g hg
          rw [hf] at hg; simp only [Option.some.injEq] at hg; subst hg
          exact FlowEv.preC _ p w.cm hp
        · exact FlowsEv.refl _
      · exact FlowsEv.refl _
    · simp only [World.preS]
      split
      next f hf =>
        split
        next p hp =>
          apply flowsEv_modifyAt
          intro g hg
          rw [hf] at hg; simp only [Option.some.injEq] at hg; subst hg
          exact FlowEv.preS _ p w.sm hp
        · exact FlowsEv.refl _
      · exact FlowsEv.refl _
  | deliver e conn =>
    cases e
    · simp only [World.deliverC]
      split
      · exact FlowsEv.refl _
      · split
        · exact FlowsEv.refl _
        · split
          · exact FlowsEv.refl _
          · split
            · split <;> exact FlowsEv.refl _
            · split
              · exact FlowsEv.refl _
              · exact flowsEv_dispatchAt _ .client _
    · simp only [World.deliverS]
      split
      · exact FlowsEv.refl _
      · split
        · exact FlowsEv.refl _
        · split
          · exact FlowsEv.refl _
          · split
            · exact flowsEv_connectS _ _ _
            · split
              · exact FlowsEv.refl _
              · exact flowsEv_dispatchAt _ .server _
  | removeDead e =>
    cases e
    · simp only [World.rmC]
      apply flowsEv_map
      intro f
      split
      next p hp =>
        split
        · exact FlowEv.same f
        next hok => exact FlowEv.rmC f p hp (by simpa using hok)
      · exact FlowEv.same f
    · simp only [World.rmS]
      apply flowsEv_map
      intro f
      split
      next p hp =>
        split
        · exact FlowEv.same f
        next hok => exact FlowEv.rmS f p hp (by simpa using hok)
      · exact FlowEv.same f
  | checkFull e => cases e <;> exact FlowsEv.refl _
  | foreign e fr => cases e <;> exact FlowsEv.refl _
  | appWrite i b =>
    apply flowsEv_modifyAt
    intro f _
    split
    · exact FlowEv.same f
    next h => exact FlowEv.appWrite f b (by simpa using h)
  | appEof i => exact flowsEv_modifyAt _ _ _ (fun f _ => FlowEv.appEof f)
  | dstWrite i b =>
    apply flowsEv_modifyAt
    intro f _
    split
    · exact FlowEv.same f
    next h => exact FlowEv.dstWrite f b (by simpa using h)
  | dstEof i => exact flowsEv_modifyAt _ _ _ (fun f _ => FlowEv.dstEof f)

theorem step_flowsEv (w : World) (st : Step) : FlowsEv w.flows (w.step st).flows := by
  unfold World.step
  split
  · exact FlowsEv.refl _
  · split
    · exact FlowsEv.refl _
    · exact stepRaw_flowsEv w st

theorem flow_invariant_step (I : Flow → Prop) (hnew : ∀ c, I (newFlow c))
    (hev : ∀ f f', FlowEv f f' → I f → I f') (w : World) (h : ∀ f ∈ w.flows, I f) (st : Step) :
    ∀ f ∈ (w.step st).flows, I f := by
  intro f' hf'
  obtain ⟨j, hj⟩ := List.getElem?_of_mem hf'
  rcases step_flowsEv w st j f' hj with ⟨f, hf, hfe⟩ | ⟨_, c, hc⟩
  · exact hev f f' hfe (h f (List.mem_of_getElem? hf))
  · rw [hc]; exact hnew c

/-- **Induction principle for per-flow invariants.**  No hypothesis on the schedule at all. -/
theorem flow_invariant (I : Flow → Prop) (hnew : ∀ c, I (newFlow c))
    (hev : ∀ f f', FlowEv f f' → I f → I f') (w : World) (h : ∀ f ∈ w.flows, I f) (steps : List Step) :
    ∀ f ∈ (w.run steps).flows, I f := by
  induction steps generalizing w with
  | nil => exact h
  | cons st rest ih =>
    simp only [World.run, List.foldl_cons]
    exact ih _ (flow_invariant_step I hnew hev w h st)

end Sshuttle.Tunnel
