/-
C12 helper lemmas, part 1: a small invariant logic for the exception/trace monad of
`Code/ClientMain.lean`, the `finally` rule, and the shape of the `finally` part of `client.main`.
-/
import SshuttleModel.Spec.ClientTrace

namespace Sshuttle.ClientMain
open Sshuttle.ClientTrace

@[simp] theorem bind_apply {α β} (m : M α) (f : α → M β) (w : World) :
    (m >>= f) w = match m w with
      | (.ok a, w') => f a w'
      | (.error x, w') => (.error x, w') := rfl

@[simp] theorem pure_apply {α} (a : α) (w : World) : (pure a : M α) w = (.ok a, w) := rfl

/-- The world after a boundary call, whether or not the call raised. -/
def actW (e : Ev) (w : World) : World := { push e w with calls := w.calls + 1 }

theorem act_world (sc : Script) (e : Ev) (w : World) : (act sc e w).2 = actW e w := by
  unfold act; split <;> rfl

@[simp] theorem actW_trace (e : Ev) (w : World) : (actW e w).trace = w.trace ++ [e] := rfl
@[simp] theorem push_trace (e : Ev) (w : World) : (push e w).trace = w.trace ++ [e] := rfl
@[simp] theorem actW_routesCb (e : Ev) (w : World) : (actW e w).routesCb = w.routesCb := rfl
@[simp] theorem push_routesCb (e : Ev) (w : World) : (push e w).routesCb = w.routesCb := rfl

/-- `m` preserves `I`, however it ends (normally or with an exception). -/
def Pres {α} (I : World → Prop) (m : M α) : Prop := ∀ w, I w → I (m w).2

namespace Pres
variable {I : World → Prop}

theorem pure {α} (a : α) : Pres I (pure a : M α) := fun _ h => h
theorem raise {α} (x : Exc) : Pres I (raise x : M α) := fun _ h => h
theorem getW : Pres I getW := fun _ h => h
theorem modifyW {f : World → World} (h : ∀ w, I w → I (f w)) : Pres I (modifyW f) := h

theorem act {sc : Script} {e : Ev} (h : ∀ w, I w → I (actW e w)) : Pres I (act sc e) := by
  intro w hw; rw [act_world]; exact h w hw

theorem mark {e : Ev} (h : ∀ w, I w → I (push e w)) : Pres I (mark e) := h

theorem bind {α β} {m : M α} {f : α → M β} (h1 : Pres I m) (h2 : ∀ a, Pres I (f a)) :
    Pres I (m >>= f) := by
  intro w hw
  have := h1 w hw
  simp only [bind_apply]
  rcases hm : m w with ⟨r, w'⟩
  rw [hm] at this
  cases r with
  | ok a => exact h2 a w' this
  | error x => exact this

theorem mapExc {α} {m : M α} {f : Exc → Exc} (h : Pres I m) : Pres I (mapExc f m) := by
  intro w hw
  have := h w hw
  unfold ClientMain.mapExc
  rcases hm : m w with ⟨r, w'⟩
  rw [hm] at this
  cases r <;> exact this

theorem nbClean {α} {m : M α} (h : Pres I m) : Pres I (nbClean m) := by
  intro w hw
  have := h w hw
  unfold ClientMain.nbClean
  rcases hm : m w with ⟨r, w'⟩
  rw [hm] at this
  cases r with
  | ok a => exact this
  | error x =>
    cases x <;> try exact this
    simp only; split <;> exact this

theorem tryFinally {α} {m : M α} {fin : M Unit} (h1 : Pres I m) (h2 : Pres I fin) :
    Pres I (tryFinally m fin) := by
  intro w hw
  have := h2 _ (h1 w hw)
  unfold ClientMain.tryFinally
  rcases hm : m w with ⟨r, w1⟩
  rw [hm] at this
  simp only
  rcases hf : fin w1 with ⟨r2, w2⟩
  rw [hf] at this
  cases r2 <;> exact this

theorem ite {α} {c : Prop} [Decidable c] {a b : M α} (ha : Pres I a) (hb : Pres I b) :
    Pres I (if c then a else b) := by
  split <;> assumption

theorem repeatAct {sc : Script} {e : Ev} (h : ∀ w, I w → I (actW e w)) (n : Nat) :
    Pres I (repeatAct sc n e) := by
  induction n with
  | zero => exact Pres.pure _
  | succ n ih => unfold ClientMain.repeatAct; exact Pres.bind (Pres.act h) fun _ => ih

end Pres

/-- The `finally` rule: whatever the body did, the final world is the one the `finally`
part produces from the world the body left. -/
theorem tryFinally_world {α} (m : M α) (fin : M Unit) (w : World) :
    (tryFinally m fin w).2 = (fin (m w).2).2 := by
  unfold tryFinally
  rcases m w with ⟨r, w1⟩
  simp only
  rcases fin w1 with ⟨r2, w2⟩
  cases r2 <;> rfl

/-- Events of the `finally` part after `close`. -/
def afterClose (e : Ev) : Prop := e = .wait ∨ e = .stop ∨ e = .cleanup

/-- "The trace is `base ++ close :: post` with `post ⊆ {wait, stop, cleanup}`." -/
def ClosedAt (base : List Ev) (w : World) : Prop :=
  ∃ post, w.trace = base ++ Ev.close :: post ∧ ∀ x ∈ post, afterClose x

theorem ClosedAt.step {base : List Ev} {e : Ev} (he : afterClose e) :
    ∀ w, ClosedAt base w → ClosedAt base (actW e w) := by
  rintro w ⟨post, h1, h2⟩
  refine ⟨post ++ [e], ?_, ?_⟩
  · simp [h1]
  · intro x hx
    rcases List.mem_append.1 hx with h | h
    · exact h2 x h
    · simp at h; subst h; exact he

/-- Hoare triple with a normal and an exceptional postcondition. -/
def Triple {α} (P : World → Prop) (m : M α) (Q : α → World → Prop) (E : World → Prop) : Prop :=
  ∀ w, P w → match m w with
    | (.ok a, w') => Q a w'
    | (.error _, w') => E w'

namespace Triple
variable {P : World → Prop} {E : World → Prop}

theorem pure {α} {Q : α → World → Prop} (a : α) (h : ∀ w, P w → Q a w) :
    Triple P (pure a : M α) Q E := fun w hw => h w hw

theorem raise {α} {Q : α → World → Prop} (x : Exc) (h : ∀ w, P w → E w) :
    Triple P (raise x : M α) Q E := fun w hw => h w hw

theorem getW {Q : World → World → Prop} (h : ∀ w, P w → Q w w) : Triple P getW Q E :=
  fun w hw => h w hw

theorem modifyW {Q : Unit → World → Prop} {f : World → World} (h : ∀ w, P w → Q () (f w)) :
    Triple P (modifyW f) Q E := fun w hw => h w hw

theorem mark {Q : Unit → World → Prop} {e : Ev} (h : ∀ w, P w → Q () (push e w)) :
    Triple P (mark e) Q E := fun w hw => h w hw

theorem act {sc : Script} {Q : Unit → World → Prop} {e : Ev}
    (h : ∀ w, P w → Q () (actW e w) ∧ E (actW e w)) : Triple P (act sc e) Q E := by
  intro w hw
  have := h w hw
  unfold ClientMain.act
  cases hf : sc.faults w.calls with
  | none => exact this.1
  | some x => exact this.2

theorem bind {α β} {m : M α} {f : α → M β} {R : α → World → Prop} {Q : β → World → Prop}
    (h1 : Triple P m R E) (h2 : ∀ a, Triple (R a) (f a) Q E) : Triple P (m >>= f) Q E := by
  intro w hw
  have := h1 w hw
  simp only [bind_apply]
  rcases hm : m w with ⟨r, w'⟩
  rw [hm] at this
  cases r with
  | ok a => exact h2 a w' this
  | error x => exact this

theorem mapExc {α} {m : M α} {f : Exc → Exc} {Q : α → World → Prop} (h : Triple P m Q E) :
    Triple P (mapExc f m) Q E := by
  intro w hw
  have := h w hw
  unfold ClientMain.mapExc
  rcases hm : m w with ⟨r, w'⟩
  rw [hm] at this
  cases r <;> exact this

theorem ite {α} {c : Prop} [Decidable c] {a b : M α} {Q : α → World → Prop}
    (ha : Triple P a Q E) (hb : Triple P b Q E) : Triple P (if c then a else b) Q E := by
  split <;> assumption

theorem conseq {α} {m : M α} {P' : World → Prop} {Q Q' : α → World → Prop} {E' : World → Prop}
    (h : Triple P' m Q' E') (hp : ∀ w, P w → P' w) (hq : ∀ a w, Q' a w → Q a w)
    (he : ∀ w, E' w → E w) : Triple P m Q E := by
  intro w hw
  have := h w (hp w hw)
  rcases hm : m w with ⟨r, w'⟩
  rw [hm] at this
  cases r with
  | ok a => exact hq a w' this
  | error x => exact he w' this

theorem ofPres {α} {I : World → Prop} {m : M α} (h : Pres I m) : Triple I m (fun _ => I) I := by
  intro w hw
  have := h w hw
  rcases hm : m w with ⟨r, w'⟩
  rw [hm] at this
  cases r <;> exact this

/-- Both postconditions imply `I`: `I` holds of the final world. -/
theorem world {α} {m : M α} {Q : α → World → Prop} {I : World → Prop} (h : Triple P m Q E)
    (hq : ∀ a w, Q a w → I w) (he : ∀ w, E w → I w) (w : World) (hw : P w) : I (m w).2 := by
  have := h w hw
  rcases hm : m w with ⟨r, w'⟩
  rw [hm] at this
  cases r with
  | ok a => exact hq a w' this
  | error x => exact he w' this

end Triple

/-- `fw.done(); sdnotify.send(stop)`, whatever raises: the trace gets `close` and then only
`wait`/`stop`. -/
theorem finBody_closed (sc : Script) (t0 : List Ev) :
    Triple (fun w => w.trace = t0) (finBody sc)
      (fun _ => ClosedAt (t0 ++ (if sc.cfg.daemon then [Ev.rc0] else [])))
      (ClosedAt (t0 ++ (if sc.cfg.daemon then [Ev.rc0] else []))) := by
  unfold finBody fwDone
  refine Triple.bind (R := fun _ w => w.trace = t0 ++ (if sc.cfg.daemon then [Ev.rc0] else [])) ?_ fun _ => ?_
  · by_cases hd : sc.cfg.daemon = true
    · simp only [hd, if_true]; exact Triple.mark fun w hw => by simp [hw]
    · simp only [hd]; exact Triple.pure _ fun w hw => by simp [hw]
  · refine Triple.bind (R := fun _ => ClosedAt (t0 ++ (if sc.cfg.daemon then [Ev.rc0] else []))) ?_ fun _ => ?_
    · refine Triple.bind (R := fun _ => ClosedAt (t0 ++ (if sc.cfg.daemon then [Ev.rc0] else []))) ?_ fun _ => ?_
      · exact Triple.act fun w hw => ⟨⟨[], by simp [hw], by simp⟩, ⟨[], by simp [hw], by simp⟩⟩
      · refine Triple.bind (R := fun _ => ClosedAt (t0 ++ (if sc.cfg.daemon then [Ev.rc0] else []))) ?_ fun _ => ?_
        · exact Triple.ofPres (Pres.act (ClosedAt.step (Or.inl rfl)))
        · refine Triple.ite ?_ ?_
          · exact Triple.raise _ fun w hw => hw
          · exact Triple.pure _ fun w hw => hw
    · exact Triple.ofPres (Pres.act (ClosedAt.step (Or.inr (Or.inl rfl))))

/-- Whatever the fault map and the world, the `finally` part appends `[rc0]? ++ close :: post`
with `post ⊆ {wait, stop, cleanup}`. -/
theorem finPart_closed (sc : Script) (w : World) :
    ClosedAt (w.trace ++ (if sc.cfg.daemon then [Ev.rc0] else [])) (finPart sc w).2 := by
  unfold finPart
  rw [tryFinally_world]
  have h1 := (finBody_closed sc w.trace).world (fun _ _ h => h) (fun _ h => h) w rfl
  have h2 : Pres (ClosedAt (w.trace ++ (if sc.cfg.daemon then [Ev.rc0] else [])))
      (if sc.cfg.daemon then act sc .cleanup else Pure.pure ()) := by
    refine Pres.ite ?_ ?_
    · exact Pres.act (ClosedAt.step (Or.inr (Or.inr rfl)))
    · exact Pres.pure _
  exact h2 _ h1

end Sshuttle.ClientMain
