/-
firewall.main for any method whose set-up / tear-down per family can be described by *layers*:
`L6 v6 s` (resp. `L4 v4 s`) is configuration `s` with the IPv6 (IPv4) view `v6` (`v4`) of the session
laid over it.  Given, per family,
  * set-up under any fault schedule ends (normally or not) in a layer with an `ok` view,
  * tear-down with naturally behaving commands removes the layer of every `ok` view,
the `try` body leaves `L4 v4 (L6 v6 s0)` and the `finally` block returns to `s0`.
The nat proof (FwSessionMain) has this shape; tproxy and nft instantiate it.
-/
import SshuttleModel.Lemmas.FwSessionMain

namespace Sshuttle.Fw

/-- What a method has to provide (see the file comment). -/
structure Layers (c : Config) (h : Hdr) (s0 : FwState) where
  S : FamPlan → Opts → Proc
  R : FamPlan → Opts → Proc
  hS : ∀ p o, setupFw c.method p o = liftProc (S p o)
  hR : ∀ p o, restoreFw c.method p o = liftProc (R p o)
  V6 : Type
  V4 : Type
  L6 : V6 → FwState → FwState
  L4 : V4 → FwState → FwState
  e6 : V6
  e4 : V4
  ok6 : V6 → Prop
  ok4 : V4 → Prop
  L6e : ∀ s, L6 e6 s = s
  L4e : ∀ s, L4 e4 s = s
  ok6e : ok6 e6
  ok4e : ok4 e4
  setup6 : h.has6 = true →
    Hoare (fun st => st = s0) (S (c.plan6 h) h.opts)
      (fun st => ∃ v, ok6 v ∧ st = L6 v s0) (fun st => ∃ v, ok6 v ∧ st = L6 v s0)
  setup4 : h.has4 = true → ∀ v6, ok6 v6 →
    Hoare (fun st => st = L6 v6 s0) (S (c.plan4 h) h.opts)
      (fun st => ∃ v, ok4 v ∧ st = L4 v (L6 v6 s0)) (fun st => ∃ v, ok4 v ∧ st = L4 v (L6 v6 s0))
  restore6 : h.has6 = true → ∀ v6 v4 e, ok6 v6 → ok4 v4 → NoFault e → e.st = L4 v4 (L6 v6 s0) →
    (R (c.plan6 h) h.opts e).2.st = L4 v4 s0 ∧ NoFault (R (c.plan6 h) h.opts e).2
  restore4 : h.has4 = true → ∀ v4 e, ok4 v4 → NoFault e → e.st = L4 v4 s0 →
    (R (c.plan4 h) h.opts e).2.st = s0 ∧ NoFault (R (c.plan4 h) h.opts e).2

/-- What the `try` body can leave behind: one `ok` view per family over the initial configuration. -/
def GenMid {c : Config} {h : Hdr} {s0 : FwState} (Y : Layers c h s0) (st : FwState) : Prop :=
  ∃ v6 v4, Y.ok6 v6 ∧ Y.ok4 v4 ∧ (h.has6 = false → v6 = Y.e6) ∧ (h.has4 = false → v4 = Y.e4) ∧
    st = Y.L4 v4 (Y.L6 v6 s0)

section
variable {c : Config} {h : Hdr} {s0 : FwState} (Y : Layers c h s0)

theorem tryBody_gen (rest : List Line) (l : Locals) (e : Env) (he : e.st = s0) :
    GenMid Y (tryBody c h rest l e).2.2.st ∧ SameSched e (tryBody c h rest l e).2.2 := by
  unfold tryBody SProc.seq
  have step6 : ∃ v6, Y.ok6 v6 ∧ (h.has6 = false → v6 = Y.e6) ∧
      ((SProc.when h.has6 (setupFw c.method (c.plan6 h) h.opts)) l e).2.2.st = Y.L6 v6 s0 ∧
      SameSched e ((SProc.when h.has6 (setupFw c.method (c.plan6 h) h.opts)) l e).2.2 := by
    unfold SProc.when
    cases hh : h.has6 with
    | false =>
      exact ⟨Y.e6, Y.ok6e, fun _ => rfl, by simp [he, Y.L6e], SameSched.refl e⟩
    | true =>
      simp only [if_true, Y.hS, liftProc]
      obtain ⟨hs, hpost⟩ := Y.setup6 hh e he
      have hinv : ∃ v, Y.ok6 v ∧ (Y.S (c.plan6 h) h.opts e).2.st = Y.L6 v s0 := by
        cases hr : (Y.S (c.plan6 h) h.opts e).1 <;> rw [hr] at hpost <;> exact hpost
      obtain ⟨v6, hp, hst⟩ := hinv
      exact ⟨v6, hp, (fun hf => Bool.noConfusion hf), hst, hs.sched⟩
  obtain ⟨v6, hp6, hv6, hst6, hs6⟩ := step6
  cases hr6 : (SProc.when h.has6 (setupFw c.method (c.plan6 h) h.opts)) l e with
  | mk r6 le6 =>
    obtain ⟨l6, e6⟩ := le6
    rw [hr6] at hst6 hs6
    simp only at hst6 hs6
    have mid6 : GenMid Y e6.st :=
      ⟨v6, Y.e4, hp6, Y.ok4e, hv6, fun _ => rfl, by rw [Y.L4e]; exact hst6⟩
    cases r6 with
    | some x => exact ⟨mid6, hs6⟩
    | none =>
      simp only
      have step4 : ∃ v4, Y.ok4 v4 ∧ (h.has4 = false → v4 = Y.e4) ∧
          ((SProc.when h.has4 (setupFw c.method (c.plan4 h) h.opts)) l6 e6).2.2.st =
            Y.L4 v4 (Y.L6 v6 s0) ∧
          SameSched e6 ((SProc.when h.has4 (setupFw c.method (c.plan4 h) h.opts)) l6 e6).2.2 := by
        unfold SProc.when
        cases hh : h.has4 with
        | false =>
          exact ⟨Y.e4, Y.ok4e, fun _ => rfl, by simp [hst6, Y.L4e], SameSched.refl e6⟩
        | true =>
          simp only [if_true, Y.hS, liftProc]
          obtain ⟨hs, hpost⟩ := Y.setup4 hh v6 hp6 e6 hst6
          have hinv : ∃ v, Y.ok4 v ∧ (Y.S (c.plan4 h) h.opts e6).2.st = Y.L4 v (Y.L6 v6 s0) := by
            cases hr : (Y.S (c.plan4 h) h.opts e6).1 <;> rw [hr] at hpost <;> exact hpost
          obtain ⟨v4, hp, hst⟩ := hinv
          exact ⟨v4, hp, (fun hf => Bool.noConfusion hf), hst, hs.sched⟩
      obtain ⟨v4, hp4, hv4, hst4, hs4⟩ := step4
      cases hr4 : (SProc.when h.has4 (setupFw c.method (c.plan4 h) h.opts)) l6 e6 with
      | mk r4 le4 =>
        obtain ⟨l4, e4⟩ := le4
        rw [hr4] at hst4 hs4
        simp only at hst4 hs4
        have mid4 : GenMid Y e4.st := ⟨v6, v4, hp6, hp4, hv6, hv4, hst4⟩
        cases r4 with
        | some x => exact ⟨mid4, hs6.trans hs4⟩
        | none =>
          simp only [liftProc]
          obtain ⟨f1, f2, f3⟩ := flushDns_st c e4
          rw [f1]
          simp only
          split
          · exact ⟨by rw [f2]; exact mid4, (hs6.trans hs4).trans f3.sched⟩
          · obtain ⟨w1, w2⟩ := waitLoop_st rest l4 (flushDns c e4).2
            exact ⟨by rw [w1, f2]; exact mid4, ((hs6.trans hs4).trans f3.sched).trans w2⟩

theorem finallyBody_gen (l : Locals) (e : Env) (hN : NoFault e) (hmid : GenMid Y e.st) :
    (finallyBody c h l e).2.st = s0 := by
  obtain ⟨v6, v4, hp6, hp4, hv6, hv4, hst⟩ := hmid
  unfold finallyBody guarded
  have step6 : ((SProc.when h.has6 (restoreFw c.method (c.plan6 h) h.opts)) l e).2.2.st = Y.L4 v4 s0 ∧
      NoFault ((SProc.when h.has6 (restoreFw c.method (c.plan6 h) h.opts)) l e).2.2 := by
    unfold SProc.when
    cases hh : h.has6 with
    | false =>
      have := hv6 hh
      subst this
      simp only [Bool.false_eq_true, if_false]
      exact ⟨by rw [hst, Y.L6e], hN⟩
    | true =>
      simp only [if_true, Y.hR, liftProc]
      exact Y.restore6 hh v6 v4 e hp6 hp4 hN hst
  obtain ⟨hst6, hN6⟩ := step6
  cases hr6 : (SProc.when h.has6 (restoreFw c.method (c.plan6 h) h.opts)) l e with
  | mk r6 le6 =>
    obtain ⟨l6, e6⟩ := le6
    rw [hr6] at hst6 hN6
    simp only at hst6 hN6 ⊢
    have step4 : ((SProc.when h.has4 (restoreFw c.method (c.plan4 h) h.opts)) l6 e6).2.2.st = s0 ∧
        NoFault ((SProc.when h.has4 (restoreFw c.method (c.plan4 h) h.opts)) l6 e6).2.2 := by
      unfold SProc.when
      cases hh : h.has4 with
      | false =>
        have := hv4 hh
        subst this
        simp only [Bool.false_eq_true, if_false]
        exact ⟨by rw [hst6, Y.L4e], hN6⟩
      | true =>
        simp only [if_true, Y.hR, liftProc]
        exact Y.restore4 hh v4 e6 hp4 hN6 hst6
    obtain ⟨hst4, hN4⟩ := step4
    cases hr4 : (SProc.when h.has4 (restoreFw c.method (c.plan4 h) h.opts)) l6 e6 with
    | mk r4 le4 =>
      obtain ⟨l4, e4⟩ := le4
      rw [hr4] at hst4 hN4
      simp only at hst4 hN4 ⊢
      have hh : (restoreHosts l4 e4).2.2.st = e4.st := by
        unfold restoreHosts; split <;> rfl
      simp only [liftProc]
      rw [(flushDns_st c _).2.1, hh, hst4]

include Y in
/-- The whole session: any faults before the `finally` block, none in it ⇒ back to `s0`. -/
theorem session_gen (d : List Line) (e0 : Env) (rest : List Line) (hp : parseDialogue d = .go h rest)
    (he : e0.st = s0)
    (hnat : ∀ i, (tryBody c h rest {} e0).2.2.count ≤ i → e0.fail i = false) :
    (session c d e0).2.st = s0 := by
  unfold session
  rw [hp]
  simp only
  obtain ⟨hmid, hs⟩ := tryBody_gen Y rest {} e0 he
  cases hr : tryBody c h rest {} e0 with
  | mk r le =>
    obtain ⟨l1, e1⟩ := le
    rw [hr] at hmid hs hnat
    simp only at hmid hs hnat ⊢
    have hN : NoFault e1 := by
      intro i hi
      rw [hs.fail]
      exact hnat i hi
    have := finallyBody_gen Y l1 e1 hN hmid
    cases hf : finallyBody c h l1 e1 with
    | mk l2 e2 => rw [hf] at this; exact this

end

end Sshuttle.Fw
