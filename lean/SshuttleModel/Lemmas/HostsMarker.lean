/-
The marker `# sshuttle-firewall-<port> AUTOCREATED` and host lines: a host line is own to
exactly the port it was written for (decimal rendering is injective and `#` occurs once).
-/
import SshuttleModel.Lemmas.HostsLines

namespace Sshuttle.Hosts

/-! ### facts about the regenerated marker text (re-checked by `decide` on every build) -/

abbrev preTail : Text := Gen.C14.MARK_PRE.tail
abbrev sufTail : Text := Gen.C14.MARK_SUF.tail
abbrev sufInit : Text := Gen.C14.MARK_SUF.dropLast

theorem pre_eq : Gen.C14.MARK_PRE = 35 :: preTail := by decide
theorem suf_eq : Gen.C14.MARK_SUF = 32 :: sufTail := by decide
theorem suf_last : Gen.C14.MARK_SUF = sufInit ++ [68] := by decide
theorem hash_notin_preTail : 35 ∉ preTail := by decide
theorem hash_notin_suf : 35 ∉ Gen.C14.MARK_SUF := by decide
theorem nl_notin_pre : 10 ∉ Gen.C14.MARK_PRE ∧ 13 ∉ Gen.C14.MARK_PRE := by decide
theorem nl_notin_suf : 10 ∉ Gen.C14.MARK_SUF ∧ 13 ∉ Gen.C14.MARK_SUF := by decide
theorem isSpace_D : isSpace 68 = false := by decide

theorem notin_decimal {c n : Nat} (h : c < 48 ∨ 57 < c) : c ∉ decimal n := by
  intro hc
  have := decimal_digits hc
  omega

/-- a character that occurs in neither prefix pins down where the two sides split -/
theorem uniq_split {c : Nat} {x a r t : Text} (hx : c ∉ x) (hr : c ∉ r)
    (h : x ++ c :: r = a ++ c :: t) : a = x ∧ t = r := by
  induction x generalizing a with
  | nil =>
    cases a with
    | nil => simp at h; exact ⟨rfl, h.symm⟩
    | cons y a' =>
      simp only [List.nil_append, List.cons_append, List.cons.injEq] at h
      exact absurd (h.2 ▸ (by simp : c ∈ a' ++ c :: t)) hr
  | cons y x' ih =>
    cases a with
    | nil =>
      simp only [List.cons_append, List.nil_append, List.cons.injEq] at h
      exact absurd (by simp [h.1]) hx
    | cons z a' =>
      simp only [List.cons_append, List.cons.injEq] at h
      obtain ⟨h1, h2⟩ := ih (fun e => hx (by simp [e])) h.2
      exact ⟨by rw [h1, h.1], h2⟩

/-- the part of a host line before its marker -/
def hostHead (e : Text × Text) : Text := ljust Gen.C14.PAD_WIDTH (e.2 ++ [32] ++ e.1) ++ [32]

theorem hostLine_eq (p : Nat) (e : Text × Text) :
    hostLine p e = hostHead e ++ 35 :: (preTail ++ decimal p ++ Gen.C14.MARK_SUF) := by
  simp [hostLine, hostHead, marker, pre_eq]

theorem marker_eq (p : Nat) : marker p = 35 :: (preTail ++ decimal p ++ Gen.C14.MARK_SUF) := by
  simp [marker, pre_eq]

theorem notin_hostHead {c : Nat} {e : Text × Text} (hc : c ≠ 32) (h1 : c ∉ e.1) (h2 : c ∉ e.2) :
    c ∉ hostHead e := by
  simp only [hostHead, ljust, List.mem_append, List.mem_singleton, List.mem_replicate, not_or]
  refine ⟨⟨⟨⟨h2, hc⟩, h1⟩, ?_⟩, hc⟩
  intro h; exact hc h.2

theorem hostLine_own (p : Nat) (e : Text × Text) : ownB p (hostLine p e) = true := by
  rw [ownB_iff]
  exact ⟨hostHead e, [], by simp [hostLine, hostHead]⟩

/-- **A line written for port `q` is not own to any other port `p`.** -/
theorem hostLine_not_own {p q : Nat} (hpq : p ≠ q) {e : Text × Text} (h1 : 35 ∉ e.1) (h2 : 35 ∉ e.2) :
    ownB p (hostLine q e) = false := by
  cases hb : ownB p (hostLine q e) with
  | false => rfl
  | true =>
    exfalso
    obtain ⟨a, b, h⟩ := (ownB_iff _ _).mp hb
    rw [hostLine_eq, marker_eq] at h
    have hx : 35 ∉ hostHead e := notin_hostHead (by decide) h1 h2
    have hr : 35 ∉ preTail ++ decimal q ++ Gen.C14.MARK_SUF := by
      simp only [List.mem_append, not_or]
      exact ⟨⟨hash_notin_preTail, notin_decimal (by omega)⟩, hash_notin_suf⟩
    have h' : hostHead e ++ 35 :: (preTail ++ decimal q ++ Gen.C14.MARK_SUF) =
        a ++ 35 :: ((preTail ++ decimal p ++ Gen.C14.MARK_SUF) ++ b) := by
      rw [h]; simp
    obtain ⟨_, ht⟩ := uniq_split hx hr h'
    simp only [List.append_assoc] at ht
    have ht2 := List.append_cancel_left ht
    rw [suf_eq] at ht2
    have ht3 : decimal q ++ 32 :: sufTail = decimal p ++ 32 :: (sufTail ++ b) := by
      rw [← ht2]; simp
    obtain ⟨hd, _⟩ := uniq_split (notin_decimal (by omega)) (r := sufTail)
      (by decide : (32 : Nat) ∉ sufTail) ht3
    exact hpq (decimal_inj hd)

/-- host names and addresses free of line breaks -/
def LineText (t : Text) : Prop := 10 ∉ t ∧ 13 ∉ t
instance (t : Text) : Decidable (LineText t) := by unfold LineText; infer_instance
def LineMap (hm : HostMap) : Prop := ∀ e ∈ hm, LineText e.1 ∧ LineText e.2

theorem SaneMap.lineMap {hm : HostMap} (h : SaneMap hm) : LineMap hm :=
  fun e he => ⟨⟨(h e he).1.1, (h e he).1.2.1⟩, ⟨(h e he).2.1, (h e he).2.2.1⟩⟩

theorem hostLine_shape (p : Nat) {e : Text × Text} (h1 : LineText e.1) (h2 : LineText e.2) :
    (10 ∉ hostLine p e ∧ 13 ∉ hostLine p e) ∧
      ∃ body c, hostLine p e = body ++ [c] ∧ isSpace c = false := by
  refine ⟨⟨?_, ?_⟩, ?_⟩
  · simp only [hostLine, marker, List.mem_append, not_or, List.mem_singleton]
    exact ⟨⟨notin_hostHead (e := e) (by decide) h1.1 h2.1 |> fun h => by
              simpa [hostHead, List.mem_append, not_or] using h, by decide⟩,
            ⟨⟨nl_notin_pre.1, notin_decimal (by omega)⟩, nl_notin_suf.1⟩⟩
  · simp only [hostLine, marker, List.mem_append, not_or, List.mem_singleton]
    exact ⟨⟨notin_hostHead (e := e) (by decide) h1.2 h2.2 |> fun h => by
              simpa [hostHead, List.mem_append, not_or] using h, by decide⟩,
            ⟨⟨nl_notin_pre.2, notin_decimal (by omega)⟩, nl_notin_suf.2⟩⟩
  · refine ⟨ljust Gen.C14.PAD_WIDTH (e.2 ++ [32] ++ e.1) ++ [32] ++ Gen.C14.MARK_PRE ++ decimal p ++ sufInit,
      68, ?_, isSpace_D⟩
    simp only [hostLine, marker]
    rw [suf_last]
    simp

/-! ### sorting keeps the entries -/

theorem mem_insertHost {x e : Text × Text} {l : HostMap} : x ∈ insertHost e l ↔ x = e ∨ x ∈ l := by
  induction l with
  | nil => simp [insertHost]
  | cons y ys ih =>
    unfold insertHost
    split
    · simp
    · simp only [List.mem_cons, ih]
      constructor
      · rintro (h | h | h)
        · exact Or.inr (Or.inl h)
        · exact Or.inl h
        · exact Or.inr (Or.inr h)
      · rintro (h | h | h)
        · exact Or.inr (Or.inl h)
        · exact Or.inl h
        · exact Or.inr (Or.inr h)

theorem mem_sortHosts {x : Text × Text} {hm : HostMap} : x ∈ sortHosts hm ↔ x ∈ hm := by
  induction hm with
  | nil => simp [sortHosts]
  | cons e es ih => simp [sortHosts, mem_insertHost, ih]

theorem sortHosts_ne_nil {hm : HostMap} (h : hm ≠ []) : sortHosts hm ≠ [] := by
  cases hm with
  | nil => exact absurd rfl h
  | cons e es =>
    intro hs
    have : e ∈ sortHosts (e :: es) := mem_sortHosts.mpr (by simp)
    rw [hs] at this
    simp at this

theorem hostLines_ne_nil (p : Nat) {hm : HostMap} (h : hm ≠ []) : hostLines p hm ≠ [] := by
  simp [hostLines, sortHosts_ne_nil h]

theorem hostLines_nil (p : Nat) : hostLines p [] = [] := rfl

theorem mem_hostLines {p : Nat} {hm : HostMap} {l : Text} (h : l ∈ hostLines p hm) :
    ∃ e ∈ hm, l = hostLine p e := by
  simp only [hostLines, List.mem_map] at h
  obtain ⟨e, he, rfl⟩ := h
  exact ⟨e, mem_sortHosts.mp he, rfl⟩

/-! ### filtering blocks -/

theorem foreign_append (p : Nat) (a b : List Text) : foreign p (a ++ b) = foreign p a ++ foreign p b := by
  simp [foreign]

theorem foreign_idem (p : Nat) (a : List Text) : foreign p (foreign p a) = foreign p a := by
  simp [foreign, List.filter_filter]

theorem foreign_hostLines (p : Nat) (hm : HostMap) : foreign p (hostLines p hm) = [] := by
  simp only [foreign, List.filter_eq_nil_iff]
  intro l hl
  obtain ⟨e, _, rfl⟩ := mem_hostLines hl
  simp [hostLine_own]

theorem block_hostLines (p : Nat) (hm : HostMap) : block p (hostLines p hm) = hostLines p hm := by
  simp only [block, List.filter_eq_self]
  intro l hl
  obtain ⟨e, _, rfl⟩ := mem_hostLines hl
  exact hostLine_own p e

theorem block_foreign_self (p : Nat) (a : List Text) : block p (foreign p a) = [] := by
  simp only [block, foreign, List.filter_filter, List.filter_eq_nil_iff]
  intro l _
  cases ownB p l <;> simp

end Sshuttle.Hosts
