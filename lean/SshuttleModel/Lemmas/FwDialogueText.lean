/-
Helper lemmas about the text primitives of `Code/FwDialogue.lean`: one-character splitting,
decimal rendering and `int()`, `strip`, and the line reader (`readline(max)` pieces re-joined).
-/
import SshuttleModel.Code.FwDialogue

namespace Sshuttle.FwDialogue

/-! ### splitting -/

theorem splitOnce_append (sep : Nat) (a b : Str) (h : sep ∉ a) :
    splitOnce sep (a ++ sep :: b) = some (a, b) := by
  induction a with
  | nil => simp [splitOnce]
  | cons c r ih =>
    have hc : c ≠ sep := fun e => h (by simp [e])
    have hr : sep ∉ r := fun e => h (by simp [e])
    simp [splitOnce, hc, ih hr]

theorem splitOnce_none (sep : Nat) (a : Str) (h : sep ∉ a) : splitOnce sep a = none := by
  induction a with
  | nil => simp [splitOnce]
  | cons c r ih =>
    have hc : c ≠ sep := fun e => h (by simp [e])
    have hr : sep ∉ r := fun e => h (by simp [e])
    simp [splitOnce, hc, ih hr]

theorem splitMax_cons (sep n : Nat) (a b : Str) (h : sep ∉ a) :
    splitMax sep (n + 1) (a ++ sep :: b) = a :: splitMax sep n b := by
  simp [splitMax, splitOnce_append sep a b h]

theorem splitMax_last (sep n : Nat) (a : Str) (h : sep ∉ a) : splitMax sep n a = [a] := by
  cases n with
  | zero => rfl
  | succ n => simp [splitMax, splitOnce_none sep a h]

theorem afterFirst_append (sep : Nat) (a b : Str) (h : sep ∉ a) :
    afterFirst sep (a ++ sep :: b) = b := by
  simp [afterFirst, splitOnce_append sep a b h]

theorem startsWith_append (p s : Str) : startsWith (p ++ s) p = true := by
  induction p with
  | nil => cases s <;> rfl
  | cons c r ih => simp [startsWith, ih]

theorem startsWith_head_ne (c d : Nat) (s p : Str) (h : c ≠ d) : startsWith (c :: s) (d :: p) = false := by
  simp [startsWith, h]

/-! ### decimal rendering -/

theorem decRev_digits : ∀ (f n : Nat), ∀ c ∈ decRev f n, isDigit c = true
  | 0, _, c, h => by simp [decRev] at h
  | f + 1, n, c, h => by
    unfold decRev at h
    split at h
    · simp at h; subst h; simp [isDigit]; omega
    · simp at h
      rcases h with h | h
      · subst h; simp [isDigit]; omega
      · exact decRev_digits f (n / 10) c h

theorem decRev_ne_nil (f n : Nat) : decRev (f + 1) n ≠ [] := by
  unfold decRev; split <;> simp

theorem decRev_value : ∀ (f n : Nat), n < f →
    (decRev f n).foldr (fun c a => a * 10 + (c - 48)) 0 = n
  | 0, _, h => by omega
  | f + 1, n, h => by
    unfold decRev
    split
    · simp
    · simp only [List.foldr_cons]
      rw [decRev_value f (n / 10) (by omega)]
      omega

theorem decRev_length : ∀ (f n k : Nat), n < 10 ^ (k + 1) → (decRev f n).length ≤ k + 1
  | 0, _, _, _ => by simp [decRev]
  | f + 1, n, k, h => by
    unfold decRev
    split
    · simp
    · next hn =>
      cases k with
      | zero => simp at h; omega
      | succ k =>
        have : n / 10 < 10 ^ (k + 1) := by
          rw [Nat.pow_succ] at h; omega
        have := decRev_length f (n / 10) k this
        simp; omega

theorem dec_digits (n : Nat) : ∀ c ∈ dec n, isDigit c = true := by
  intro c h
  exact decRev_digits _ _ c (by simpa [dec] using h)

theorem dec_ne_nil (n : Nat) : dec n ≠ [] := by
  simp [dec, decRev_ne_nil]

theorem digitsValue_dec (n : Nat) : digitsValue (dec n) = n := by
  unfold digitsValue dec
  rw [List.foldl_reverse]
  exact decRev_value (n + 1) n (by omega)

theorem dec_length (n k : Nat) (h : n < 10 ^ (k + 1)) : (dec n).length ≤ k + 1 := by
  simpa [dec] using decRev_length (n + 1) n k h

theorem isDigit_not_space {c : Nat} (h : isDigit c = true) : isSpace c = false := by
  simp [isDigit] at h; simp [isSpace]; omega

/-! ### strip -/

/-- Non-empty text whose first and last characters are not white space. -/
def Trimmed (a : Str) : Prop :=
  ∃ x m y, (a = x :: m ++ [y] ∨ (a = [x] ∧ y = x ∧ m = [])) ∧ isSpace x = false ∧ isSpace y = false

theorem trimmed_of (a : Str) (hne : a ≠ []) (hh : ∀ x, a.head? = some x → isSpace x = false)
    (hl : ∀ y, a.getLast? = some y → isSpace y = false) : Trimmed a := by
  match a, hne with
  | [x], _ => exact ⟨x, [], x, Or.inr ⟨rfl, rfl, rfl⟩, hh x rfl, hh x rfl⟩
  | x :: z :: r, _ =>
    rcases List.eq_nil_or_concat (z :: r) with h | ⟨m, y, h⟩
    · cases h
    · rw [List.concat_eq_append] at h
      refine ⟨x, m, y, Or.inl (by rw [h]; simp), hh x rfl, hl y ?_⟩
      rw [List.getLast?_cons_cons, h, List.getLast?_concat]

theorem lstrip_cons (x : Nat) (r : Str) (h : isSpace x = false) : lstrip (x :: r) = x :: r := by
  simp [lstrip, List.dropWhile, h]

theorem rstrip_concat (m ws : Str) (y : Nat) (h : isSpace y = false) (hws : ∀ c ∈ ws, isSpace c = true) :
    rstrip (m ++ [y] ++ ws) = m ++ [y] := by
  unfold rstrip
  have e : (m ++ [y] ++ ws).reverse = ws.reverse ++ (y :: m.reverse) := by simp
  rw [e, List.dropWhile_append_of_pos (by intro a ha; exact hws a (by simpa using ha))]
  simp [List.dropWhile, h]

theorem strip_trimmed_ws (a ws : Str) (h : Trimmed a) (hws : ∀ c ∈ ws, isSpace c = true) :
    strip (a ++ ws) = a := by
  obtain ⟨x, m, y, hshape, hx, hy⟩ := h
  rcases hshape with rfl | ⟨rfl, rfl, rfl⟩
  · unfold strip
    rw [show x :: m ++ [y] ++ ws = x :: (m ++ [y] ++ ws) by simp, lstrip_cons _ _ hx]
    have := rstrip_concat (x :: m) ws y hy hws
    simpa using this
  · unfold strip
    rw [show [y] ++ ws = y :: ws by simp, lstrip_cons _ _ hx]
    have := rstrip_concat [] ws y hy hws
    simpa using this

theorem strip_trimmed_nl (a : Str) (h : Trimmed a) : strip (a ++ [10]) = a :=
  strip_trimmed_ws a [10] h (by simp [isSpace])

theorem strip_trimmed (a : Str) (h : Trimmed a) : strip a = a := by
  simpa using strip_trimmed_ws a [] h (by simp)

/-! ### `int()` -/

theorem validBody_digits : ∀ (d : Str) (p : Bool), (∀ c ∈ d, isDigit c = true) → d ≠ [] →
    validBody p d = true
  | [], _, _, h => absurd rfl h
  | [c], p, hd, _ => by simp [validBody, hd c (by simp)]
  | c :: e :: r, p, hd, _ => by
    simp only [validBody, hd c (by simp), if_true]
    exact validBody_digits (e :: r) true (fun x hx => hd x (by simp [hx])) (by simp)

theorem filter_digits (d : Str) (hd : ∀ c ∈ d, isDigit c = true) : d.filter (· != 95) = d := by
  rw [List.filter_eq_self]
  intro c hc
  have := hd c hc
  simp [isDigit] at this
  simp; omega

theorem pyInt_digits (d : Str) (hne : d ≠ []) (hd : ∀ c ∈ d, isDigit c = true) :
    pyInt d = some (Int.ofNat (digitsValue d)) := by
  have htr : Trimmed d := by
    apply trimmed_of d hne
    · intro x hx; exact isDigit_not_space (hd x (List.mem_of_mem_head? hx))
    · intro y hy; exact isDigit_not_space (hd y (List.mem_of_getLast? hy))
  unfold pyInt
  simp only [strip_trimmed d htr]
  match d, hne, hd with
  | x :: r, _, hd =>
    have hx := hd x (by simp)
    have hm : signSplit (x :: r) = (false, x :: r) := by
      unfold signSplit
      split
      · next h => simp at h; simp [isDigit, h.1] at hx
      · next h => simp at h; simp [isDigit, h.1] at hx
      · rfl
    rw [hm]
    simp only [validBody_digits (x :: r) false hd (by simp), filter_digits (x :: r) hd, if_true]
    simp

theorem pyInt_dec (n : Nat) : pyInt (dec n) = some (Int.ofNat n) := by
  rw [pyInt_digits (dec n) (dec_ne_nil n) (dec_digits n), digitsValue_dec]

theorem dec_not_mem (n c : Nat) (h : isDigit c = false) : c ∉ dec n := by
  intro hc
  have := dec_digits n c hc
  simp [h] at this

/-! ### the line reader -/

theorem readPiece_line : ∀ (max : Nat) (body rest : Bytes), 10 ∉ body →
    readPiece max (body ++ 10 :: rest) =
      if body.length < max then (body ++ [10], rest) else (body.take max, body.drop max ++ 10 :: rest)
  | 0, body, rest, _ => by simp [readPiece]
  | m + 1, [], rest, _ => by simp [readPiece]
  | m + 1, c :: r, rest, h => by
    have hc : c ≠ 10 := fun e => h (by simp [e])
    have hr : 10 ∉ r := fun e => h (by simp [e])
    simp only [List.cons_append, readPiece, hc, if_false, readPiece_line m r rest hr]
    by_cases hl : r.length < m
    · simp [hl]
    · simp [hl]

theorem readPiece_tail : ∀ (max : Nat) (body : Bytes), 10 ∉ body →
    readPiece max body = (body.take max, body.drop max)
  | 0, body, _ => by simp [readPiece]
  | m + 1, [], _ => by simp [readPiece]
  | m + 1, c :: r, h => by
    have hc : c ≠ 10 := fun e => h (by simp [e])
    have hr : 10 ∉ r := fun e => h (by simp [e])
    simp [readPiece, hc, readPiece_tail m r hr]

theorem joinPieces_done (max : Nat) (drops : Bool) (f : Nat) (line s : Bytes) (h : line.getLast? = some 10) :
    joinPieces max drops f line s = (line, s) := by
  cases f <;> simp [joinPieces, h]

theorem getLast?_append_ne (line piece : Bytes) (hp : piece ≠ []) (h : 10 ∉ piece) :
    (line ++ piece).getLast? ≠ some 10 := by
  intro e
  rw [List.getLast?_append] at e
  cases hg : piece.getLast? with
  | none => exact hp (List.getLast?_eq_none_iff.mp hg)
  | some z =>
    rw [hg] at e
    simp at e
    subst e
    exact h (List.mem_of_getLast? hg)

theorem joinPieces_line (max : Nat) (drops : Bool) (hmax : 0 < max) : ∀ (f : Nat) (line body rest : Bytes),
    10 ∉ body → line.getLast? ≠ some 10 → body.length + 1 ≤ f →
    joinPieces max drops f line (body ++ 10 :: rest) = (line ++ body ++ [10], rest)
  | 0, _, _, _, _, _, hf => by omega
  | f + 1, line, body, rest, hb, hl, hf => by
    unfold joinPieces
    simp only [hl, ne_eq, not_false_eq_true, if_true, readPiece_line max body rest hb]
    by_cases hlen : body.length < max
    · simp only [hlen, if_true]
      have : body ++ [10] ≠ [] := by simp
      simp only [this, if_false]
      rw [joinPieces_done]
      · simp
      · simp
    · simp only [hlen, if_false]
      have hbne : body ≠ [] := by intro e; subst e; simp at hlen; omega
      have htk : body.take max ≠ [] := by
        intro e; rw [List.take_eq_nil_iff] at e; rcases e with e | e
        · omega
        · exact hbne e
      simp only [htk, if_false]
      have hb' : 10 ∉ body.drop max := fun e => hb (List.mem_of_mem_drop e)
      have hl' : (line ++ body.take max).getLast? ≠ some 10 :=
        getLast?_append_ne _ _ htk (fun e => hb (List.mem_of_mem_take e))
      have hf' : (body.drop max).length + 1 ≤ f := by simp; omega
      rw [joinPieces_line max drops hmax f _ _ rest hb' hl' hf']
      simp [List.append_assoc]

/-- End of input inside a line: the unfinished text is kept (`drops = false`) or given up. -/
theorem joinPieces_tail (max : Nat) (drops : Bool) (hmax : 0 < max) : ∀ (f : Nat) (line body : Bytes),
    10 ∉ body → line.getLast? ≠ some 10 → body.length + 1 ≤ f →
    joinPieces max drops f line body = (if drops then [] else line ++ body, [])
  | 0, _, _, _, _, hf => by omega
  | f + 1, line, body, hb, hl, hf => by
    unfold joinPieces
    simp only [hl, ne_eq, not_false_eq_true, if_true, readPiece_tail max body hb]
    by_cases hbne : body = []
    · subst hbne; simp
    · have htk : body.take max ≠ [] := by
        intro e; rw [List.take_eq_nil_iff] at e; rcases e with e | e
        · omega
        · exact hbne e
      simp only [htk, if_false]
      have hb' : 10 ∉ body.drop max := fun e => hb (List.mem_of_mem_drop e)
      have hl' : (line ++ body.take max).getLast? ≠ some 10 :=
        getLast?_append_ne _ _ htk (fun e => hb (List.mem_of_mem_take e))
      have hpos : 0 < body.length := List.length_pos_iff.mpr hbne
      have hf' : (body.drop max).length + 1 ≤ f := by simp; omega
      rw [joinPieces_tail max drops hmax f _ _ hb' hl' hf']
      simp [List.append_assoc]

theorem readLine_line (max : Nat) (drops : Bool) (hmax : 0 < max) (body rest : Bytes) (hb : 10 ∉ body) :
    readLine max drops (body ++ 10 :: rest) = (body ++ [10], rest) := by
  unfold readLine
  rw [joinPieces_line max drops hmax _ [] body rest hb (by simp) (by simp)]
  simp

theorem readLine_tail (max : Nat) (drops : Bool) (hmax : 0 < max) (body : Bytes) (hb : 10 ∉ body) :
    readLine max drops body = (if drops then [] else body, []) := by
  unfold readLine
  rw [joinPieces_tail max drops hmax _ [] body hb (by simp) (by omega)]
  simp

/-- A well-formed line: a body without newline, then the newline. -/
def IsLine (l : Bytes) : Prop := ∃ b, l = b ++ [10] ∧ 10 ∉ b

/-- What the helper reads from complete lines followed by an unterminated tail: the lines, and
the tail as one more "line" unless it is empty or the helper gives unfinished lines up. -/
theorem rawLinesAux_lines (max : Nat) (drops : Bool) (hmax : 0 < max) : ∀ (ls : List Bytes) (f : Nat) (tail : Bytes),
    (∀ l ∈ ls, IsLine l) → 10 ∉ tail → ls.length + 1 ≤ f →
    rawLinesAux max drops f (ls.flatten ++ tail) = ls ++ (if tail = [] ∨ drops = true then [] else [tail])
  | [], f, tail, _, ht, hf => by
    cases f with
    | zero => omega
    | succ f =>
      simp only [List.flatten_nil, List.nil_append, rawLinesAux, readLine_tail max drops hmax tail ht]
      by_cases h : tail = []
      · subst h; cases drops <;> simp
      · cases drops
        · simp only [Bool.false_eq_true, if_false, h, or_self, List.nil_append]
          cases f <;> simp [rawLinesAux, readLine_tail max false hmax [] (by simp)]
        · simp
  | l :: ls, f, tail, hl, ht, hf => by
    obtain ⟨b, rfl, hb⟩ := hl l (by simp)
    cases f with
    | zero => simp at hf
    | succ f =>
      have hs : ((b ++ [10]) :: ls).flatten ++ tail = b ++ 10 :: (ls.flatten ++ tail) := by simp
      rw [hs]
      simp only [rawLinesAux, readLine_line max drops hmax b _ hb]
      have : b ++ [10] ≠ [] := by simp
      simp only [this, if_false]
      rw [rawLinesAux_lines max drops hmax ls f tail (fun l h => hl l (by simp [h])) ht (by simp at hf; omega)]
      simp

theorem rawLines_lines (max : Nat) (drops : Bool) (hmax : 0 < max) (ls : List Bytes) (tail : Bytes)
    (hl : ∀ l ∈ ls, IsLine l) (ht : 10 ∉ tail) :
    rawLines max drops (ls.flatten ++ tail) = ls ++ (if tail = [] ∨ drops = true then [] else [tail]) := by
  unfold rawLines
  apply rawLinesAux_lines max drops hmax ls _ tail hl ht
  have h1 : ls.length ≤ ls.flatten.length := by
    clear ht
    induction ls with
    | nil => simp
    | cons l ls ih =>
      obtain ⟨b, rfl, _⟩ := hl l (by simp)
      have := ih (fun l h => hl l (by simp [h]))
      simp only [List.flatten_cons, List.length_append, List.length_cons, List.length_nil]
      omega
  simp only [List.length_append]; omega

/-- Complete lines are read back as they are, whatever the helper does with an unfinished one. -/
theorem helperLines_lines (ls : List Bytes) (hl : ∀ l ∈ ls, IsLine l) : helperLines ls.flatten = ls := by
  have := rawLines_lines Gen.C13.READLINE_MAX Gen.C13.HELPER_DROPS_UNFINISHED_LINE (by decide) ls [] hl (by simp)
  simpa [helperLines] using this

end Sshuttle.FwDialogue
