/-
The `ipaddress` module as modelled in `Code/Args.lean` (`ip_address`, `IPv4Address`,
`IPv6Address._ip_int_from_string`) on dotted quads and on every IPv6 spelling of
`Spec/Args.lean`; texts it rejects (`host:port`, `[v6]…`).
-/
import SshuttleModel.Lemmas.ArgsV6Sub

namespace Sshuttle.ArgsSpec
open Sshuttle.Inet Sshuttle.Args

/-! ### IPv4Address -/

theorem parseOctet_render (o : Nat) (ho : o ≤ 255) : parseOctet (render 10 o) = some o := by
  unfold parseOctet
  have hall : (render 10 o).all (fun c => decide (c.toNat < 128) && isDigit c) = true := by
    rw [List.all_eq_true]
    intro c hc
    obtain ⟨d, hd, rfl⟩ := renderWith_mem digitChar 10 (by omega) o c hc
    simp [isDigit_digitChar d hd, digitChar_toNat d hd]; omega
  have hlen := render10_octet_len o ho
  have hlz : (decide (render 10 o ≠ ['0']) && decide ((render 10 o).head? = some '0')) = false := by
    by_cases h0 : o = 0
    · subst h0
      have : render 10 0 = ['0'] := by rw [render10_1 0 (by omega)]; rfl
      simp [this]
    · obtain ⟨d, t, hd0, hdb, he⟩ := renderWith_head digitChar 10 (by omega) o (by omega)
      have hne := digitChar_ne_zero d hd0 hdb
      have : render 10 o = digitChar d :: t := he
      simp [this, hne]
  have hnum : (numRun 10 decVal? 0 (render 10 o)).1 = o := by
    have := numRun_render_stop digitChar decVal? 10 (by omega) decVal_digitChar o [] (Or.inl rfl)
    rw [List.append_nil] at this
    show (numRun 10 decVal? 0 (renderWith digitChar 10 o)).1 = o
    rw [this]
  have hle : ¬ (render 10 o).length > 3 := by omega
  have hv : ¬ o > 255 := by omega
  simp only [render10_isEmpty, Bool.false_eq_true, ↓reduceIte, hall, Bool.not_true, hle, hlz, hnum, hv]

theorem slash_not_in_dotted (v : Nat) : '/' ∉ dotted v := by
  intro h
  exact v6c_ne '/' (dotted_chars v '/' h) '/' (by decide) rfl

/-- `IPv4Address(dotted v) = v` -/
theorem ipv4Address_dotted (v : Nat) (hv : v < 2 ^ 32) : ipv4Address (dotted v) = some v := by
  unfold ipv4Address
  have h1 : (dotted v).contains '/' = false := contains_false_of_not_mem _ _ (slash_not_in_dotted v)
  have hne : (dotted v).isEmpty = false := by
    rw [dotted_shape]
    cases hr : render 10 (v / 2 ^ 24 % 256) with
    | nil => exact absurd hr (render10_ne_nil _)
    | cons _ _ => rfl
  have hsplit : splitOn '.' (dotted v) = [render 10 (v / 2 ^ 24 % 256), render 10 (v / 2 ^ 16 % 256),
      render 10 (v / 2 ^ 8 % 256), render 10 (v % 256)] := by
    rw [dotted_shape, splitOn_app _ _ _ (dot_not_in_render10 _), splitOn_app _ _ _ (dot_not_in_render10 _),
      splitOn_app _ _ _ (dot_not_in_render10 _), splitOn_no_sep _ _ (dot_not_in_render10 _)]
  simp only [h1, Bool.false_eq_true, ↓reduceIte, hne, hsplit, List.map_cons, List.map_nil,
    parseOctet_render _ (by omega : v / 2 ^ 24 % 256 ≤ 255), parseOctet_render _ (by omega : v / 2 ^ 16 % 256 ≤ 255),
    parseOctet_render _ (by omega : v / 2 ^ 8 % 256 ≤ 255), parseOctet_render _ (by omega : v % 256 ≤ 255)]
  congr 1
  omega

theorem splitOn_mem_of_mem (sep c : Char) (hcs : c ≠ sep) (s : Str) (h : c ∈ s) :
    ∃ part ∈ splitOn sep s, c ∈ part := by
  induction s with
  | nil => cases h
  | cons x t ih =>
    rw [splitOn]
    cases hs : splitOn sep t with
    | nil => exact absurd hs (splitOn_ne_nil sep t)
    | cons y ys =>
      simp only
      simp only [List.mem_cons] at h
      by_cases hx : x = sep
      · simp only [hx, ↓reduceIte]
        rcases h with rfl | h
        · exact absurd hx hcs
        · obtain ⟨p, hp, hcp⟩ := ih h
          rw [hs] at hp
          exact ⟨p, by simp only [List.mem_cons] at hp ⊢; exact Or.inr hp, hcp⟩
      · simp only [hx, ↓reduceIte]
        rcases h with rfl | h
        · exact ⟨c :: y, by simp, by simp⟩
        · obtain ⟨p, hp, hcp⟩ := ih h
          rw [hs] at hp
          simp only [List.mem_cons] at hp
          rcases hp with rfl | hp
          · exact ⟨x :: p, by simp, by simp [hcp]⟩
          · exact ⟨p, by simp [hp], hcp⟩

theorem parseOctet_none_of_colon (o : Str) (h : ':' ∈ o) : parseOctet o = none := by
  unfold parseOctet
  have : o.all (fun c => decide (c.toNat < 128) && isDigit c) = false := by
    rw [Bool.eq_false_iff]
    intro hall
    rw [List.all_eq_true] at hall
    have := hall ':' h
    revert this; decide
  by_cases he : o.isEmpty = true
  · simp [he]
  · simp [he, this]

/-- a text with a colon is never an `IPv4Address` -/
theorem ipv4Address_none_of_colon (s : Str) (h : ':' ∈ s) : ipv4Address s = none := by
  unfold ipv4Address
  split
  · rfl
  · split
    · rfl
    · obtain ⟨p, hp, hcp⟩ := splitOn_mem_of_mem '.' ':' (by decide) s h
      have hnone : none ∈ (splitOn '.' s).map parseOctet := by
        rw [List.mem_map]
        exact ⟨p, hp, parseOctet_none_of_colon p hcp⟩
      split
      · next a b c d heq =>
        rw [heq] at hnone
        simp at hnone
      · rfl


/-! ### IPv6Address: hextets -/

theorem colon_not_in_hextet (g : Hextet) (hg : g.Valid) : ':' ∉ hextetText g := by
  intro h
  have := hextetText_chars g hg ':' h
  rw [hexVal_colon] at this; cases this

theorem splitOn_sepG (gs : List Hextet) (hgs : ∀ g ∈ gs, g.Valid) (rest : Str) :
    splitOn ':' (sepG gs ++ rest) = gs.map hextetText ++ splitOn ':' rest := by
  induction gs with
  | nil => simp [sepG]
  | cons g r ih =>
    simp only [sepG, List.append_assoc, List.cons_append, List.map_cons]
    rw [splitOn_app _ _ _ (colon_not_in_hextet g (hgs g (by simp))), ih (fun x hx => hgs x (by simp [hx]))]

theorem numRun_hextet (g : Hextet) (hg : ∀ h ∈ g, h.d < 16) :
    ∀ acc, numRun 16 hexVal? acc (g.map HexDigit.char) = (g.foldl (fun a h => a * 16 + h.d) acc, []) := by
  induction g with
  | nil => intro acc; rfl
  | cons a r ih =>
    intro acc
    simp only [List.map_cons, numRun, hexVal_char a (hg a (by simp)), List.foldl_cons]
    exact ih (fun x hx => hg x (by simp [hx])) _

theorem parseHextet_text (g : Hextet) (hg : g.Valid) : parseHextet (hextetText g) = some (hextetVal g) := by
  unfold parseHextet
  have hall : (hextetText g).all (fun c => (hexVal? c).isSome) = true := by
    rw [List.all_eq_true]; exact hextetText_chars g hg
  have hlen : ¬ (hextetText g).length > 4 := by have := hextetText_len g hg; omega
  obtain ⟨c, t, hct, _⟩ := hextetText_head g hg
  have hne : (hextetText g).isEmpty = false := by rw [hct]; rfl
  have hnum := numRun_hextet g hg.2.2 0
  simp only [hall, Bool.not_true, Bool.false_eq_true, ↓reduceIte, hlen, hne]
  show some (numRun 16 hexVal? 0 (g.map HexDigit.char)).1 = _
  rw [hnum]; rfl

theorem render16_hex (x : Nat) : ∀ c ∈ render 16 x, (hexVal? c).isSome = true := by
  intro c hc
  obtain ⟨d, hd, rfl⟩ := renderWith_mem digitChar 16 (by omega) x c hc
  rw [hexVal_digitChar d hd]; rfl

theorem parseHextet_render16 (x : Nat) (hx : x < 65536) : parseHextet (render 16 x) = some x := by
  unfold parseHextet
  have hall : (render 16 x).all (fun c => (hexVal? c).isSome) = true := by
    rw [List.all_eq_true]; exact render16_hex x
  have hlen : ¬ (render 16 x).length > 4 := by
    have := renderWith_length_le digitChar 16 (by omega) 3 x (by omega)
    show ¬ (renderWith digitChar 16 x).length > 4
    omega
  have hne : (render 16 x).isEmpty = false := by
    cases h : render 16 x with
    | nil => exact absurd h (renderWith_ne_nil _ _ _)
    | cons _ _ => rfl
  have hnum := numRun_render_stop digitChar hexVal? 16 (by omega) hexVal_digitChar x [] (Or.inl rfl)
  rw [List.append_nil] at hnum
  simp only [hall, Bool.not_true, Bool.false_eq_true, ↓reduceIte, hlen, hne]
  show some (numRun 16 hexVal? 0 (renderWith digitChar 16 x)).1 = _
  rw [hnum]

theorem wordsVal_append (a b : List Nat) :
    wordsVal (a ++ b) = wordsVal a * 2 ^ (16 * b.length) + wordsVal b := by
  induction a with
  | nil => simp [wordsVal]
  | cons x r ih =>
    simp only [List.cons_append, wordsVal, List.length_append, ih]
    rw [Nat.add_mul, Nat.mul_assoc, ← Nat.pow_add, Nat.mul_add, Nat.add_assoc]

theorem wordsVal_zeros (k : Nat) : wordsVal (List.replicate k 0) = 0 := by
  induction k with
  | zero => rfl
  | succ n ih => simp [List.replicate_succ, wordsVal, ih]

/-- the texts `ts` are hextets with the values `vs` -/
def Parsed : List Str → List Nat → Prop
  | [], [] => True
  | t :: ts, v :: vs => parseHextet t = some v ∧ Parsed ts vs
  | _, _ => False

theorem parsed_len : ∀ (ts : List Str) (vs : List Nat), Parsed ts vs → ts.length = vs.length
  | [], [], _ => rfl
  | t :: ts, v :: vs, h => by simp [parsed_len ts vs h.2]
  | [], _ :: _, h => by cases h
  | _ :: _, [], h => by cases h

theorem hextetsVal_parsed : ∀ (ts : List Str) (vs : List Nat), Parsed ts vs →
    hextetsVal ts = some (wordsVal vs)
  | [], [], _ => rfl
  | t :: ts, v :: vs, h => by
    simp [hextetsVal, h.1, hextetsVal_parsed ts vs h.2, wordsVal, parsed_len ts vs h.2]
  | [], _ :: _, h => by cases h
  | _ :: _, [], h => by cases h

theorem parsed_groups (gs : List Hextet) (hgs : ∀ g ∈ gs, g.Valid) :
    Parsed (gs.map hextetText) (gs.map hextetVal) := by
  induction gs with
  | nil => trivial
  | cons g r ih =>
    exact ⟨parseHextet_text g (hgs g (by simp)), ih (fun x hx => hgs x (by simp [hx]))⟩

theorem parsed_append : ∀ (t1 : List Str) (v1 : List Nat) (t2 : List Str) (v2 : List Nat),
    Parsed t1 v1 → Parsed t2 v2 → Parsed (t1 ++ t2) (v1 ++ v2)
  | [], [], _, _, _, h2 => h2
  | t :: ts, v :: vs, t2, v2, h1, h2 => ⟨h1.1, parsed_append ts vs t2 v2 h1.2 h2⟩
  | [], _ :: _, _, _, h1, _ => by cases h1
  | _ :: _, [], _, _, h1, _ => by cases h1

theorem parsed_nonempty : ∀ (ts : List Str) (vs : List Nat), Parsed ts vs → ∀ t ∈ ts, t ≠ []
  | [], [], _ => by intro t ht; cases ht
  | t :: ts, v :: vs, h => by
    intro x hx
    simp only [List.mem_cons] at hx
    rcases hx with rfl | hx
    · intro e
      have h1 := h.1
      rw [e] at h1
      simp [parseHextet] at h1
    · exact parsed_nonempty ts vs h.2 x hx
  | [], _ :: _, h => by cases h
  | _ :: _, [], h => by cases h

/-- the parts that come from what follows the last colon, after the dotted quad has been
turned into two hextets -/
def endParts : End6 → List Str
  | .nothing => [[]]
  | .group g => [hextetText g]
  | .quad v => [render 16 (v / 65536 % 65536), render 16 (v % 65536)]

theorem parsed_end (e : End6) (he : e.Valid) (hn : e.isNothing = false) : Parsed (endParts e) e.words := by
  cases e with
  | nothing => cases hn
  | group g => exact ⟨parseHextet_text g he, trivial⟩
  | quad v =>
    simp only [End6.Valid] at he
    have h1 : v / 65536 % 65536 = v / 65536 := Nat.mod_eq_of_lt (by omega)
    refine ⟨?_, ?_, trivial⟩
    · rw [h1]; exact parseHextet_render16 _ (by omega)
    · exact parseHextet_render16 _ (by omega)

/-! ### IPv6Address: the parts of a spelling -/

theorem innerEmptyFrom_none : ∀ (l : List Str) (i : Nat), (∀ x ∈ l.dropLast, x ≠ []) →
    innerEmptyFrom i l = []
  | [], _, _ => rfl
  | [_], _, _ => rfl
  | p :: q :: rest, i, h => by
    have hp : p ≠ [] := h p (by simp [List.dropLast])
    have hpe : p.isEmpty = false := by cases p with
      | nil => exact absurd rfl hp
      | cons _ _ => rfl
    simp only [innerEmptyFrom, hpe, Bool.false_eq_true, ↓reduceIte, List.nil_append]
    exact innerEmptyFrom_none (q :: rest) (i + 1) (fun x hx => h x (by simp [List.dropLast, hx]))

theorem innerEmptyFrom_one : ∀ (a : List Str) (b : List Str) (i : Nat), (∀ x ∈ a, x ≠ []) → b ≠ [] →
    (∀ x ∈ b.dropLast, x ≠ []) → innerEmptyFrom i (a ++ [] :: b) = [i + a.length]
  | [], b, i, _, hb, hbd => by
    cases b with
    | nil => exact absurd rfl hb
    | cons q rest =>
      simp only [List.nil_append, innerEmptyFrom, List.isEmpty_nil, ↓reduceIte, List.length_nil, Nat.add_zero]
      rw [innerEmptyFrom_none (q :: rest) (i + 1) hbd]; rfl
  | p :: r, b, i, ha, hb, hbd => by
    have hp : p ≠ [] := ha p (by simp)
    have hpe : p.isEmpty = false := by cases p with
      | nil => exact absurd rfl hp
      | cons _ _ => rfl
    have ih := innerEmptyFrom_one r b (i + 1) (fun x hx => ha x (by simp [hx])) hb hbd
    cases hr : r ++ [] :: b with
    | nil => simp at hr
    | cons q rest =>
      rw [hr] at ih
      simp only [List.cons_append, hr, innerEmptyFrom, hpe, Bool.false_eq_true, ↓reduceIte, List.nil_append, ih,
        List.length_cons]
      congr 1; omega


theorem isEmpty_false_of_ne (s : Str) (h : s ≠ []) : s.isEmpty = false := by
  cases s with
  | nil => exact absurd rfl h
  | cons _ _ => rfl

theorem getLast?_append_cons {α : Type} (xs : List α) (y : α) (ys : List α) :
    (xs ++ y :: ys).getLast? = (y :: ys).getLast? := by
  induction xs with
  | nil => rfl
  | cons x r ih =>
    cases hr : r ++ y :: ys with
    | nil => simp at hr
    | cons z zs =>
      rw [hr] at ih
      simp only [List.cons_append, hr, List.getLast?_cons_cons, ih]

theorem lastD_mem (l : List Str) (h : l ≠ []) : l.getLast?.getD [] ∈ l := by
  rw [List.getLast?_eq_some_getLast h]
  exact List.getLast_mem _

/-- eight hextets, no `::` -/
theorem ipv6FromParts_full (ts : List Str) (vs : List Nat) (h : Parsed ts vs) (hlen : ts.length = 8) :
    ipv6FromParts ts = some (wordsVal vs) := by
  unfold ipv6FromParts
  have hne := parsed_nonempty ts vs h
  have hinner : innerEmptyFrom 1 ts.tail = [] :=
    innerEmptyFrom_none ts.tail 1 (fun x hx => hne x (List.mem_of_mem_tail ((List.dropLast_subset _) hx)))
  have h9 : ¬ ts.length > 9 := by omega
  simp only [h9, ↓reduceIte, hinner]
  cases ts with
  | nil => simp at hlen
  | cons t0 r =>
    have h0 : (t0 :: r).head?.getD [] = t0 := rfl
    have hl : ((t0 :: r).getLast?.getD []) ≠ [] := hne _ (lastD_mem _ (by simp))
    simp only [hlen, ne_eq, not_true_eq_false, ↓reduceIte, h0, isEmpty_false_of_ne t0 (hne t0 (by simp)),
      Bool.false_eq_true, isEmpty_false_of_ne _ hl]
    exact hextetsVal_parsed _ _ h

/-- `A :: [] :: B…` shapes: what is written left and right of the `::` -/
theorem ipv6FromParts_mid (a0 : Str) (A' : List Str) (va : List Nat) (b0 : Str) (B' : List Str) (vb : List Nat)
    (hA : Parsed (a0 :: A') va) (hB : Parsed (b0 :: B') vb) (hlen : (a0 :: A').length + (b0 :: B').length ≤ 7) :
    ipv6FromParts ((a0 :: A') ++ [] :: (b0 :: B')) =
      some (wordsVal va * 2 ^ (16 * (8 - (a0 :: A').length)) + wordsVal vb) := by
  unfold ipv6FromParts
  have hneA := parsed_nonempty _ _ hA
  have hneB := parsed_nonempty _ _ hB
  have hinner : innerEmptyFrom 1 ((a0 :: A') ++ [] :: (b0 :: B')).tail = [1 + A'.length] := by
    simp only [List.cons_append, List.tail_cons]
    exact innerEmptyFrom_one A' (b0 :: B') 1 (fun x hx => hneA x (by simp [hx])) (by simp)
      (fun x hx => hneB x ((List.dropLast_subset _) hx))
  have h9 : ¬ ((a0 :: A') ++ [] :: (b0 :: B')).length > 9 := by simp at hlen ⊢; omega
  have hlast : (((a0 :: A') ++ [] :: (b0 :: B')).getLast?.getD []) ≠ [] := by
    have e : (a0 :: A') ++ [] :: (b0 :: B') = ((a0 :: A') ++ [[]]) ++ b0 :: B' := by simp
    rw [e, getLast?_append_cons]
    exact hneB _ (lastD_mem _ (by simp))
  simp only [h9, ↓reduceIte, hinner]
  have hfirst : ((a0 :: A') ++ [] :: (b0 :: B')).head?.getD [] = a0 := rfl
  simp only [hfirst, isEmpty_false_of_ne a0 (hneA a0 (by simp)), Bool.false_eq_true, ↓reduceIte,
    isEmpty_false_of_ne _ hlast]
  have hlen2 : ((a0 :: A') ++ [] :: (b0 :: B')).length = A'.length + B'.length + 3 := by simp; omega
  have h7 : ¬ (1 + A'.length + (((a0 :: A') ++ [] :: (b0 :: B')).length - (1 + A'.length) - 1) > 7) := by
    rw [hlen2]; simp at hlen; omega
  simp only [h7, ↓reduceIte]
  have htake : ((a0 :: A') ++ [] :: (b0 :: B')).take (1 + A'.length) = a0 :: A' := by
    have : 1 + A'.length = (a0 :: A').length := by simp; omega
    rw [this, List.take_left']
    rfl
  have hdrop : ((a0 :: A') ++ [] :: (b0 :: B')).drop
      (((a0 :: A') ++ [] :: (b0 :: B')).length - (((a0 :: A') ++ [] :: (b0 :: B')).length - (1 + A'.length) - 1)) =
      b0 :: B' := by
    have : ((a0 :: A') ++ [] :: (b0 :: B')).length -
        (((a0 :: A') ++ [] :: (b0 :: B')).length - (1 + A'.length) - 1) = ((a0 :: A') ++ [[]]).length := by
      rw [hlen2]; simp; omega
    rw [this]
    have e : (a0 :: A') ++ [] :: (b0 :: B') = ((a0 :: A') ++ [[]]) ++ (b0 :: B') := by simp
    rw [e, List.drop_left']
    rfl
  rw [htake, hdrop, hextetsVal_parsed _ _ hA, hextetsVal_parsed _ _ hB]
  have hl1 : (a0 :: A').length = 1 + A'.length := by simp; omega
  rw [hl1]


/-- text starts with `::` and something follows -/
theorem ipv6FromParts_lead (b0 : Str) (B' : List Str) (vb : List Nat)
    (hB : Parsed (b0 :: B') vb) (hlen : (b0 :: B').length ≤ 7) :
    ipv6FromParts ([] :: [] :: (b0 :: B')) = some (wordsVal vb) := by
  unfold ipv6FromParts
  have hneB := parsed_nonempty _ _ hB
  have hinner : innerEmptyFrom 1 ([] :: [] :: (b0 :: B')).tail = [1] := by
    have := innerEmptyFrom_one [] (b0 :: B') 1 (by intro x hx; cases hx) (by simp)
      (fun x hx => hneB x ((List.dropLast_subset _) hx))
    simpa using this
  have h9 : ¬ ([] :: [] :: (b0 :: B')).length > 9 := by simp at hlen ⊢; omega
  have hlast : (([] :: [] :: (b0 :: B')).getLast?.getD []) ≠ [] := by
    have e : ([] : Str) :: [] :: (b0 :: B') = [[], []] ++ b0 :: B' := rfl
    rw [e, getLast?_append_cons]
    exact hneB _ (lastD_mem _ (by simp))
  simp only [h9, ↓reduceIte, hinner]
  have hfirst : ([] :: [] :: (b0 :: B')).head?.getD [] = ([] : Str) := rfl
  simp only [hfirst, List.isEmpty_nil, ↓reduceIte, isEmpty_false_of_ne _ hlast, Bool.false_eq_true]
  have hlen2 : ([] :: [] :: (b0 :: B') : List Str).length = B'.length + 3 := by simp
  have h7 : ¬ (1 - 1 + (([] :: [] :: (b0 :: B') : List Str).length - 1 - 1) > 7) := by
    rw [hlen2]; simp at hlen; omega
  simp only [Nat.sub_self, ne_eq, not_true_eq_false, ↓reduceIte] at h7 ⊢
  simp only [h7, ↓reduceIte, List.take_zero]
  have hdrop : ([] :: [] :: (b0 :: B') : List Str).drop
      (([] :: [] :: (b0 :: B') : List Str).length - (([] :: [] :: (b0 :: B') : List Str).length - 1 - 1)) = b0 :: B' := by
    have : ([] :: [] :: (b0 :: B') : List Str).length - (([] :: [] :: (b0 :: B') : List Str).length - 1 - 1) = 2 := by
      rw [hlen2]; omega
    rw [this]; rfl
  rw [hdrop, hextetsVal_parsed _ _ hB]
  simp [hextetsVal]

/-- text ends with `::` and something precedes -/
theorem ipv6FromParts_trail (a0 : Str) (A' : List Str) (va : List Nat)
    (hA : Parsed (a0 :: A') va) (hlen : (a0 :: A').length ≤ 7) :
    ipv6FromParts ((a0 :: A') ++ [[], []]) = some (wordsVal va * 2 ^ (16 * (8 - (a0 :: A').length))) := by
  unfold ipv6FromParts
  have hneA := parsed_nonempty _ _ hA
  have hinner : innerEmptyFrom 1 ((a0 :: A') ++ [[], []]).tail = [1 + A'.length] := by
    simp only [List.cons_append, List.tail_cons]
    exact innerEmptyFrom_one A' [[]] 1 (fun x hx => hneA x (by simp [hx])) (by simp)
      (by intro x hx; simp [List.dropLast] at hx)
  have h9 : ¬ ((a0 :: A') ++ [[], []]).length > 9 := by simp at hlen ⊢; omega
  have hlast : (((a0 :: A') ++ [[], []]).getLast?.getD []) = [] := by
    have e : (a0 :: A') ++ [[], []] = ((a0 :: A') ++ [[]]) ++ [] :: [] := by simp
    rw [e, getLast?_append_cons]; rfl
  simp only [h9, ↓reduceIte, hinner]
  have hfirst : ((a0 :: A') ++ [[], []]).head?.getD [] = a0 := rfl
  simp only [hfirst, isEmpty_false_of_ne a0 (hneA a0 (by simp)), Bool.false_eq_true, ↓reduceIte, hlast,
    List.isEmpty_nil]
  have hlen2 : ((a0 :: A') ++ [[], []]).length = A'.length + 3 := by simp
  have hlo : ((a0 :: A') ++ [[], []]).length - (1 + A'.length) - 1 - 1 = 0 := by rw [hlen2]; omega
  simp only [hlo, ne_eq, not_true_eq_false, ↓reduceIte, Nat.add_zero, Nat.sub_zero]
  have h7 : ¬ (1 + A'.length > 7) := by simp at hlen; omega
  simp only [h7, ↓reduceIte]
  have htake : ((a0 :: A') ++ [[], []]).take (1 + A'.length) = a0 :: A' := by
    have : 1 + A'.length = (a0 :: A').length := by simp; omega
    rw [this, List.take_left']
    rfl
  rw [htake, List.drop_length, hextetsVal_parsed _ _ hA]
  have hl1 : (a0 :: A').length = 1 + A'.length := by simp; omega
  simp [hextetsVal, hl1]

/-- the text `::` -/
theorem ipv6FromParts_only : ipv6FromParts [[], [], []] = some 0 := by decide


/-! ### IPv6Address on a spelling -/

theorem wordsVal_expand (lv rv : List Nat) (k : Nat) :
    wordsVal (lv ++ (List.replicate k 0 ++ rv)) = wordsVal lv * 2 ^ (16 * (k + rv.length)) + wordsVal rv := by
  rw [wordsVal_append, wordsVal_append, wordsVal_zeros]
  simp

theorem colon_not_in_end (e : End6) (he : e.Valid) : ':' ∉ e.text := by
  intro h
  cases e with
  | nothing => cases h
  | group g => exact colon_not_in_hextet g he h
  | quad v =>
    simp only [End6.text, dotted_shape, List.mem_append, List.mem_cons] at h
    rcases h with h | h | h | h | h | h | h
    · exact colon_not_in_render10 _ h
    · revert h; decide
    · exact colon_not_in_render10 _ h
    · revert h; decide
    · exact colon_not_in_render10 _ h
    · revert h; decide
    · exact colon_not_in_render10 _ h

/-- the parts before the last one -/
def Spell6.parts0 : Spell6 → List Str
  | .full gs _ => gs.map hextetText
  | .compressed l r _ => (if l.isEmpty then [[]] else []) ++ (l.map hextetText ++ [] :: r.map hextetText)

theorem splitOn_text (sp : Spell6) (h : sp.Valid) :
    splitOn ':' sp.text = sp.parts0 ++ [sp.end6.text] := by
  cases sp with
  | full gs e =>
    simp only [Spell6.text, Spell6.parts0, Spell6.end6]
    rw [splitOn_sepG gs h.1, splitOn_no_sep _ _ (colon_not_in_end e h.2.1)]
  | compressed l r e =>
    obtain ⟨hl, hr, he, _, _⟩ := h
    have hR : splitOn ':' (sepG r ++ e.text) = r.map hextetText ++ [e.text] := by
      rw [splitOn_sepG r hr, splitOn_no_sep _ _ (colon_not_in_end e he)]
    have h0 : ∀ rest, splitOn ':' (':' :: rest) = [] :: splitOn ':' rest := by
      intro rest
      have := splitOn_app ':' [] rest (by simp)
      simpa using this
    cases l with
    | nil =>
      simp only [Spell6.text, Spell6.parts0, Spell6.end6, List.isEmpty_nil, ↓reduceIte, sepG, List.nil_append,
        List.cons_append, List.map_nil]
      rw [h0, h0, hR]
    | cons g l' =>
      simp only [Spell6.text, Spell6.parts0, Spell6.end6, List.isEmpty_cons, Bool.false_eq_true, ↓reduceIte,
        List.nil_append]
      rw [splitOn_sepG _ hl, h0, hR]
      simp

theorem parts0_len (sp : Spell6) (h : sp.Valid) : 2 ≤ sp.parts0.length := by
  cases sp with
  | full gs e =>
    obtain ⟨_, _, _, hlen⟩ := h
    have hwl : e.words.length ≤ 2 := by cases e <;> simp [End6.words]
    simp only [Spell6.parts0, List.length_map]; omega
  | compressed l r e =>
    cases l with
    | nil => simp [Spell6.parts0]
    | cons g l' => simp [Spell6.parts0]; omega

theorem wordsVal_right0 (lv : List Nat) (k : Nat) :
    wordsVal (lv ++ List.replicate k 0) = wordsVal lv * 2 ^ (16 * k) := by
  rw [wordsVal_append, wordsVal_zeros]; simp

theorem wordsVal_left0 (rv : List Nat) (k : Nat) : wordsVal (List.replicate k 0 ++ rv) = wordsVal rv := by
  rw [wordsVal_append, wordsVal_zeros]; simp

theorem group_no_dot (g : Hextet) (hg : g.Valid) : (hextetText g).contains '.' = false := by
  apply contains_false_of_not_mem
  intro h
  have := hextetText_chars g hg '.' h
  rw [hexVal_dot] at this; cases this

/-- `_ip_int_from_string` up to the conversion of a dotted-quad tail -/
theorem ipv6FromString_parts (sp : Spell6) (h : sp.Valid) :
    ipv6FromString sp.text = ipv6FromParts (sp.parts0 ++ endParts sp.end6) := by
  have hsplit := splitOn_text sp h
  have hev := end6_valid sp h
  have hlen := parts0_len sp h
  have hlt : ∀ x : Str, ¬ (sp.parts0 ++ [x]).length < 3 := by intro x; simp; omega
  have hlast : ∀ x : Str, (sp.parts0 ++ [x]).getLast?.getD [] = x := by intro x; simp
  unfold ipv6FromString
  simp only [text_isEmpty sp h, Bool.false_eq_true, ↓reduceIte, hsplit]
  cases hend : sp.end6 with
  | nothing =>
    have hc : ([] : Str).contains '.' = false := rfl
    simp only [End6.text, hlt, ↓reduceIte, hlast, hc, Bool.false_eq_true, endParts]
  | group g =>
    rw [hend] at hev
    simp only [End6.text, hlt, ↓reduceIte, hlast, group_no_dot g hev, Bool.false_eq_true, endParts]
  | quad v =>
    rw [hend] at hev
    have hc : (dotted v).contains '.' = true := contains_true_of_mem _ _ (dot_mem_dotted v)
    simp only [End6.text, hlt, ↓reduceIte, hlast, hc, ipv4Address_dotted v hev, List.dropLast_concat, endParts]

/-- **`IPv6Address` reads every spelling as the address it denotes.** -/
theorem ipv6FromString_spell (sp : Spell6) (h : sp.Valid) : ipv6FromString sp.text = some sp.denotes := by
  rw [ipv6FromString_parts sp h]
  cases sp with
  | full gs e =>
    obtain ⟨hgs, he, hn, hlen⟩ := h
    simp only [Spell6.parts0, Spell6.end6, Spell6.denotes]
    have hp := parsed_append _ _ _ _ (parsed_groups gs hgs) (parsed_end e he hn)
    exact ipv6FromParts_full _ _ hp (by rw [parsed_len _ _ hp]; simp; exact hlen)
  | compressed l r e =>
    obtain ⟨hl, hr, he, hlen, hnr⟩ := h
    simp only [Spell6.parts0, Spell6.end6, Spell6.denotes]
    cases hn : e.isNothing with
    | true =>
      have hr0 := hnr hn
      subst hr0
      have he0 : e = .nothing := by cases e <;> simp_all [End6.isNothing]
      subst he0
      cases l with
      | nil =>
        simp only [List.isEmpty_nil, ↓reduceIte, List.map_nil, endParts, End6.words]
        have : ([[]] ++ ([] ++ [[]]) ++ [[]] : List Str) = [[], [], []] := rfl
        rw [this, ipv6FromParts_only]
        simp [wordsVal]
      | cons g l' =>
        simp only [List.isEmpty_cons, Bool.false_eq_true, ↓reduceIte, List.nil_append, List.map_nil, endParts,
          End6.words, List.append_nil]
        have hA := parsed_groups (g :: l') hl
        have e1 : (g :: l').map hextetText ++ [[]] ++ [[]] = (hextetText g :: l'.map hextetText) ++ [[], []] := by simp
        rw [e1]
        have := ipv6FromParts_trail (hextetText g) (l'.map hextetText) _ hA (by simp at hlen ⊢; omega)
        rw [this, wordsVal_right0]
        simp
    | false =>
      have hB := parsed_append _ _ _ _ (parsed_groups r hr) (parsed_end e he hn)
      have hBlen := parsed_len _ _ hB
      cases hb : r.map hextetText ++ endParts e with
      | nil =>
        cases e <;> simp [endParts] at hb
      | cons b0 B' =>
        rw [hb] at hB hBlen
        cases l with
        | nil =>
          simp only [List.isEmpty_nil, ↓reduceIte, List.map_nil, List.nil_append, List.cons_append,
            List.append_assoc, hb]
          have := ipv6FromParts_lead b0 B' _ hB (by rw [hBlen]; simp at hlen ⊢; omega)
          rw [this, wordsVal_left0]
        | cons g l' =>
          simp only [List.isEmpty_cons, Bool.false_eq_true, ↓reduceIte, List.nil_append, List.append_assoc,
            List.cons_append, hb]
          have hA := parsed_groups (g :: l') hl
          have := ipv6FromParts_mid (hextetText g) (l'.map hextetText) _ b0 B' _ hA hB
            (by rw [hBlen]; simp at hlen ⊢; omega)
          simp only [List.map_cons, List.cons_append] at this ⊢
          have hx := wordsVal_expand (hextetVal g :: l'.map hextetVal) (r.map hextetVal ++ e.words)
            (8 - ((g :: l').length + r.length + e.words.length))
          simp only [List.cons_append] at hx
          have hexp : 8 - (hextetText g :: l'.map hextetText).length =
              8 - ((g :: l').length + r.length + e.words.length) + (r.map hextetVal ++ e.words).length := by
            simp at hlen ⊢; omega
          rw [this, hx, hexp]


/-! ### `ip_address` -/

theorem takeWhile_id (p : Char → Bool) (s : Str) (h : ∀ c ∈ s, p c = true) : s.takeWhile p = s := by
  have := span_app p s [] h (Or.inl rfl)
  rw [List.append_nil] at this
  exact this.1

theorem dropWhile_nil_of_all (p : Char → Bool) (s : Str) (h : ∀ c ∈ s, p c = true) : s.dropWhile p = [] := by
  have := span_app p s [] h (Or.inl rfl)
  rw [List.append_nil] at this
  exact this.2

/-- `IPv6Address(s)` for a text without `/` and `%` is `_ip_int_from_string(s)` -/
theorem ipv6Address_plain (s : Str) (hs : '/' ∉ s) (hp : '%' ∉ s) :
    ipv6Address s = (ipv6FromString s).map fun a => (a, none) := by
  unfold ipv6Address
  have h1 : s.contains '/' = false := contains_false_of_not_mem _ _ hs
  have hall : ∀ c ∈ s, (fun c => decide (c ≠ '%')) c = true := all_ne_of_not_mem '%' s hp
  simp only [h1, Bool.false_eq_true, ↓reduceIte, takeWhile_id _ s hall, dropWhile_nil_of_all _ s hall]

theorem ipAddress_spell6 (sp : Spell6) (h : sp.Valid) : ipAddress sp.text = some (.v6 sp.denotes none) := by
  unfold ipAddress
  have hs : '/' ∉ sp.text := fun hm => v6c_ne '/' (text_chars sp h '/' hm) '/' (by decide) rfl
  have hp : '%' ∉ sp.text := fun hm => v6c_ne '%' (text_chars sp h '%' hm) '%' (by decide) rfl
  rw [ipv4Address_none_of_colon _ (colon_mem_text sp h), ipv6Address_plain _ hs hp, ipv6FromString_spell sp h]
  rfl

theorem ipAddress_dotted (v : Nat) (hv : v < 2 ^ 32) : ipAddress (dotted v) = some (.v4 v) := by
  unfold ipAddress
  rw [ipv4Address_dotted v hv]

/-- fewer than two colons: never an `IPv6Address` -/
theorem ipv6FromString_two_parts (x p : Str) (hx : ':' ∉ x) (hp : ':' ∉ p) :
    ipv6FromString (x ++ ':' :: p) = none := by
  unfold ipv6FromString
  split
  · rfl
  · rw [splitOn_app _ _ _ hx, splitOn_no_sep _ _ hp]
    simp

theorem ipv6FromString_one_part (x : Str) (hx : ':' ∉ x) : ipv6FromString x = none := by
  unfold ipv6FromString
  split
  · rfl
  · rw [splitOn_no_sep _ _ hx]
    simp

/-! texts that start with `[` -/

theorem innerEmptyFrom_ge : ∀ (l : List Str) (i : Nat), ∀ x ∈ innerEmptyFrom i l, i ≤ x
  | [], _ => by intro x hx; cases hx
  | [_], _ => by intro x hx; cases hx
  | p :: q :: rest, i => by
    intro x hx
    simp only [innerEmptyFrom, List.mem_append] at hx
    rcases hx with hx | hx
    · split at hx
      · simp only [List.mem_singleton] at hx; omega
      · cases hx
    · have := innerEmptyFrom_ge (q :: rest) (i + 1) x hx
      omega

theorem parseHextet_bracket (t : Str) : parseHextet ('[' :: t) = none := by
  unfold parseHextet
  have : ('[' :: t).all (fun c => (hexVal? c).isSome) = false := by
    have : (hexVal? '[').isSome = false := by decide
    simp [this]
  simp [this]

theorem hextetsVal_bracket (t : Str) (rest : List Str) : hextetsVal (('[' :: t) :: rest) = none := by
  simp [hextetsVal, parseHextet_bracket]

theorem ipv6FromParts_bracket (t : Str) (rest : List Str) : ipv6FromParts (('[' :: t) :: rest) = none := by
  unfold ipv6FromParts
  split
  · rfl
  · simp only [List.tail_cons]
    split
    · rfl
    · next skip heq =>
      have hge : 1 ≤ skip := innerEmptyFrom_ge rest 1 skip (by rw [heq]; simp)
      simp only [List.head?_cons, Option.getD_some, List.isEmpty_cons, Bool.false_eq_true, ↓reduceIte]
      split
      · rfl
      · next lo hlo =>
        split
        · rfl
        · have : (('[' :: t) :: rest).take skip = ('[' :: t) :: rest.take (skip - 1) := by
            cases skip with
            | zero => omega
            | succ n => simp
          rw [this, hextetsVal_bracket]
    · simp only [List.head?_cons, Option.getD_some, List.isEmpty_cons, Bool.false_eq_true, ↓reduceIte]
      split
      · rfl
      · split
        · rfl
        · exact hextetsVal_bracket t rest

theorem splitOn_head_bracket (t : Str) : ∃ t' rest, splitOn ':' ('[' :: t) = ('[' :: t') :: rest := by
  rw [splitOn]
  cases hs : splitOn ':' t with
  | nil => exact absurd hs (splitOn_ne_nil ':' t)
  | cons x xs =>
    have : ('[' : Char) ≠ ':' := by decide
    exact ⟨x, xs, by simp [this]⟩

/-- a text that starts with `[` is never an `IPv6Address` -/
theorem ipv6FromString_bracket (t : Str) : ipv6FromString ('[' :: t) = none := by
  unfold ipv6FromString
  obtain ⟨t', rest, hs⟩ := splitOn_head_bracket t
  simp only [List.isEmpty_cons, Bool.false_eq_true, ↓reduceIte, hs]
  split
  · rfl
  · next hlen =>
    split
    · rfl
    · next parts hp =>
      split at hp
      · split at hp
        · cases hp
        · next v _ =>
          injection hp with hp
          subst hp
          cases rest with
          | nil => simp at hlen
          | cons r0 rr =>
            have : (('[' :: t') :: r0 :: rr).dropLast = ('[' :: t') :: (r0 :: rr).dropLast := by
              simp [List.dropLast]
            rw [this]
            exact ipv6FromParts_bracket t' _
      · injection hp with hp
        subst hp
        exact ipv6FromParts_bracket t' rest

theorem ipAddress_bracket (t : Str) (hc : ':' ∈ t) (hs : '/' ∉ t) (hp : '%' ∉ t) :
    ipAddress ('[' :: t) = none := by
  unfold ipAddress
  have hs' : '/' ∉ '[' :: t := by
    intro h; simp only [List.mem_cons] at h
    rcases h with h | h
    · revert h; decide
    · exact hs h
  have hp' : '%' ∉ '[' :: t := by
    intro h; simp only [List.mem_cons] at h
    rcases h with h | h
    · revert h; decide
    · exact hp h
  rw [ipv4Address_none_of_colon _ (by simp [hc]), ipv6Address_plain _ hs' hp', ipv6FromString_bracket]
  rfl

end Sshuttle.ArgsSpec
