/-
Every step of the world preserves `WInv` (as long as no process has died).
-/
import SshuttleModel.Lemmas.SockInv

namespace Sshuttle.Tunnel
open Sshuttle.Mux (Frame)
open Sshuttle.Wrap

/-! ### callbacks and pre_select -/

theorem WInv.cbC {w : World} (hw : WInv w) (hn : (chans w).Nodup) (i : Nat) (io : CbIo)
    (hd : (w.cbC i io).died = none) (hd0 : w.died = none) : WInv (w.cbC i io) := by
  unfold World.cbC at hd ⊢
  cases hi : w.flows[i]? with
  | none => simpa [hi] using hw
  | some f =>
    simp only [hi] at hd ⊢
    cases hc : f.c with
    | none => simpa [hc] using hw
    | some p =>
      simp only [hc] at hd ⊢
      cases hcb : p.callback w.cm f.app io with
      | died => simp [hcb] at hd
      | ok p' m' e' =>
        simp only [hcb]
        exact hw.actC hn i f p p' m' e' hi hc (callback_ok p w.cm f.app io p' m' e' hcb)
          (callback_grows p w.cm f.app io p' m' e' hcb)

theorem WInv.cbS {w : World} (hw : WInv w) (hn : (chans w).Nodup) (i : Nat) (io : CbIo)
    (hd : (w.cbS i io).died = none) : WInv (w.cbS i io) := by
  unfold World.cbS at hd ⊢
  cases hi : w.flows[i]? with
  | none => simpa [hi] using hw
  | some f =>
    simp only [hi] at hd ⊢
    cases hc : f.s with
    | none => simpa [hc] using hw
    | some p =>
      simp only [hc] at hd ⊢
      cases hcb : p.callback w.sm f.dst io with
      | died => simp [hcb] at hd
      | ok p' m' e' =>
        simp only [hcb]
        exact hw.actS hn i f p p' m' e' hi hc (callback_ok p w.sm f.dst io p' m' e' hcb)
          (callback_grows p w.sm f.dst io p' m' e' hcb)

theorem eta_app (f : Flow) (p : ProxyS) :
    ({ f with c := some p } : Flow) = { f with c := some p, app := f.app } := rfl

theorem WInv.preC {w : World} (hw : WInv w) (hn : (chans w).Nodup) (i : Nat) : WInv (w.preC i) := by
  unfold World.preC
  cases hi : w.flows[i]? with
  | none => simpa [hi] using hw
  | some f =>
    simp only [hi]
    cases hc : f.c with
    | none => simpa [hc] using hw
    | some p =>
      simp only [hc]
      have := hw.actC hn i f p (p.preSelectFlags w.cm).1 (p.preSelectFlags w.cm).2 f.app hi hc
        (preSelect_ok p w.cm f.app) (preSelect_grows p w.cm)
      have hm : (modifyAt w.flows i fun f => { f with c := some (p.preSelectFlags w.cm).1 }) =
          (modifyAt w.flows i fun g => { g with c := some (p.preSelectFlags w.cm).1, app := f.app }) := by
        apply List.ext_getElem?
        intro j
        simp only [modifyAt_getElem?]
        by_cases hj : j = i
        · subst hj; simp [hi]
        · simp [hj]
      rw [hm]; exact this

theorem WInv.preS {w : World} (hw : WInv w) (hn : (chans w).Nodup) (i : Nat) : WInv (w.preS i) := by
  unfold World.preS
  cases hi : w.flows[i]? with
  | none => simpa [hi] using hw
  | some f =>
    simp only [hi]
    cases hc : f.s with
    | none => simpa [hc] using hw
    | some p =>
      simp only [hc]
      have := hw.actS hn i f p (p.preSelectFlags w.sm).1 (p.preSelectFlags w.sm).2 f.dst hi hc
        (preSelect_ok p w.sm f.dst) (preSelect_grows p w.sm)
      have hm : (modifyAt w.flows i fun f => { f with s := some (p.preSelectFlags w.sm).1 }) =
          (modifyAt w.flows i fun g => { g with s := some (p.preSelectFlags w.sm).1, dst := f.dst }) := by
        apply List.ext_getElem?
        intro j
        simp only [modifyAt_getElem?]
        by_cases hj : j = i
        · subst hj; simp [hi]
        · simp [hj]
      rw [hm]; exact this

/-! ### endpoint events, foreign frames, check_fullness -/

theorem WInv.envStep {w : World} (hw : WInv w) (i : Nat) (g : Flow → Flow)
    (hg : ∀ f, (g f).chan = f.chan)
    (hok : ∀ f, FlowOK w.cm w.sm f → FlowOK w.cm w.sm (g f)) :
    WInv { w with flows := modifyAt w.flows i g } := by
  have hchans : chans { w with flows := modifyAt w.flows i g } = chans w := by
    unfold chans; exact modifyAt_map_chan _ _ _ hg
  refine ⟨?_, by rw [hchans]; exact hw.ownedC, by rw [hchans]; exact hw.ownedS⟩
  intro j f hj
  simp only [modifyAt_getElem?] at hj
  by_cases hji : j = i
  · rw [if_pos hji] at hj
    cases hf : w.flows[j]? with
    | none => rw [hf] at hj; cases hj
    | some f0 =>
      rw [hf] at hj
      simp only [Option.map_some, Option.some.injEq] at hj
      subst hj
      exact hok f0 (hw.flows j f0 hf)
  · rw [if_neg hji] at hj
    exact hw.flows j f hj

theorem WInv.queueC {w : World} (hw : WInv w) (m' : MuxL) (extra : List Frame)
    (he : m'.out = w.cm.out ++ extra) (hf : ∀ fr ∈ extra, isStreamCmd fr.cmd = false) :
    WInv { w with cm := m' } := by
  refine ⟨?_, ?_, hw.ownedS⟩
  · intro j f hj
    exact (hw.flows j f hj).appendC extra he (fun fr hfr => foreign_of_cmd (hf fr hfr))
  · show Owned (chans w) m'.out
    rw [he]
    exact hw.ownedC.append (fun fr hfr hs => by rw [hf fr hfr] at hs; cases hs)

theorem WInv.queueS {w : World} (hw : WInv w) (m' : MuxL) (extra : List Frame)
    (he : m'.out = w.sm.out ++ extra) (hf : ∀ fr ∈ extra, isStreamCmd fr.cmd = false) :
    WInv { w with sm := m' } := by
  refine ⟨?_, hw.ownedC, ?_⟩
  · intro j f hj
    exact (hw.flows j f hj).appendS extra he (fun fr hfr => foreign_of_cmd (hf fr hfr))
  · show Owned (chans w) m'.out
    rw [he]
    exact hw.ownedS.append (fun fr hfr hs => by rw [hf fr hfr] at hs; cases hs)

theorem ping_not_stream : isStreamCmd Generated.CMD_PING = false := by decide
theorem pong_not_stream : isStreamCmd Generated.CMD_PONG = false := by decide

theorem checkFullness_out (m : MuxL) (b : Nat) :
    ∃ extra, (m.checkFullness b).out = m.out ++ extra ∧ ∀ fr ∈ extra, isStreamCmd fr.cmd = false := by
  unfold MuxL.checkFullness
  split
  · split
    · exact ⟨[], by simp, by simp⟩
    · refine ⟨[⟨0, Generated.CMD_PING, bytesOfStr Generated.PING_RTT_PAYLOAD⟩], by simp [MuxL.send], ?_⟩
      intro fr hfr
      simp only [List.mem_singleton] at hfr
      rw [hfr]; exact ping_not_stream
  · exact ⟨[], by simp, by simp⟩

/-! ### runonce's removal of dead handlers -/

theorem WInv.ofFlows (w w' : World) (hcm : w'.cm = w.cm) (hsm : w'.sm = w.sm) (hch : chans w' = chans w)
    (hf : ∀ (j : Nat) (f : Flow), w'.flows[j]? = some f → FlowOK w.cm w.sm f) (hw : WInv w) : WInv w' := by
  refine ⟨?_, ?_, ?_⟩
  · intro j f hj; rw [hcm, hsm]; exact hf j f hj
  · rw [hch, hcm]; exact hw.ownedC
  · rw [hch, hsm]; exact hw.ownedS

theorem WInv.rmC {w : World} (hw : WInv w) (hsock : ∀ (j : Nat) (f : Flow), w.flows[j]? = some f → FlowSock f) : WInv w.rmC := by
  unfold World.rmC
  have hchans : chans { w with flows := w.flows.map fun f =>
      match f.c with
      | some p => if p.ok then f else { f with c := none }
      | none => f } = chans w := by
    unfold chans
    simp only [List.map_map]
    apply List.map_congr_left
    intro f _
    simp only [Function.comp]
    split
    · split <;> rfl
    · rfl
  refine WInv.ofFlows w _ rfl rfl hchans ?_ hw
  intro j f hj
  simp only [List.getElem?_map] at hj
  cases hf : w.flows[j]? with
  | none => rw [hf] at hj; cases hj
  | some f0 =>
    rw [hf] at hj
    simp only [Option.map_some, Option.some.injEq] at hj
    have h0 := hw.flows j f0 hf
    cases hc : f0.c with
    | none => rw [hc] at hj; subst hj; exact h0
    | some p =>
      rw [hc] at hj
      simp only at hj
      by_cases hok : p.ok = true
      · rw [if_pos hok] at hj; subst hj; exact h0
      · rw [if_neg hok] at hj
        subst hj
        have hok' : p.ok = false := by simpa using hok
        refine ⟨?_, ?_, (fun q hq => by cases hq), h0.schan⟩
        · -- up: the source handler disappears
          have hu := h0.up
          simp only [upSrc, hc] at hu
          have hdead := ((hsock j f0 hf).1 p hc).2 hok'
          have h1 := hu.srcStep (SrcStep.remove _ rfl (Or.inl hdead.2.2.2.2.1) (Or.inl ⟨hdead.2.2.2.1, hdead.1⟩))
          have h2 := h1.srcStep (SrcStep.flags _ true true true (fun _ => rfl) (fun _ => rfl) (fun _ => rfl)
            (fun _ => Or.inl hdead.2.2.2.1))
          simpa [upSrc, upSink, goneSrc, SV] using h2
        · -- down: the sink handler disappears
          have hd := h0.down
          simp only [downSink, hc] at hd
          have hsw : p.sw.shutW = true := hd.dead rfl hok'
          have h1 := hd.sinkStep (SinkStep.remove _ hok' rfl)
          have h2 := h1.sinkStep (SinkStep.flags _ true true f0.app.sawShut false
            (fun _ => rfl) (fun h => h) (fun _ => rfl) (fun _ => Or.inl hsw) (fun _ => Or.inr rfl)
            (fun _ => Or.inl hok'))
          simpa [downSrc, downSink, goneSink, KV] using h2

theorem WInv.rmS {w : World} (hw : WInv w) (hsock : ∀ (j : Nat) (f : Flow), w.flows[j]? = some f → FlowSock f) : WInv w.rmS := by
  unfold World.rmS
  have hchans : chans { w with flows := w.flows.map fun f =>
      match f.s with
      | some p => if p.ok then f else { f with s := none }
      | none => f } = chans w := by
    unfold chans
    simp only [List.map_map]
    apply List.map_congr_left
    intro f _
    simp only [Function.comp]
    split
    · split <;> rfl
    · rfl
  refine WInv.ofFlows w _ rfl rfl hchans ?_ hw
  intro j f hj
  simp only [List.getElem?_map] at hj
  cases hf : w.flows[j]? with
  | none => rw [hf] at hj; cases hj
  | some f0 =>
    rw [hf] at hj
    simp only [Option.map_some, Option.some.injEq] at hj
    have h0 := hw.flows j f0 hf
    cases hc : f0.s with
    | none => rw [hc] at hj; subst hj; exact h0
    | some p =>
      rw [hc] at hj
      simp only at hj
      by_cases hok : p.ok = true
      · rw [if_pos hok] at hj; subst hj; exact h0
      · rw [if_neg hok] at hj
        subst hj
        have hok' : p.ok = false := by simpa using hok
        have hev : f0.sEver = true := (h0.schan p hc).2.2
        refine ⟨?_, ?_, h0.cchan, (fun q hq => by cases hq)⟩
        · have hu := h0.up
          simp only [upSink, hc] at hu
          have hsw : p.sw.shutW = true := hu.dead rfl hok'
          have h1 := hu.sinkStep (SinkStep.remove _ hok' rfl)
          have h2 := h1.sinkStep (SinkStep.flags _ true true f0.dst.sawShut false
            (fun _ => rfl) (fun h => h) (fun _ => rfl) (fun _ => Or.inl hsw) (fun _ => Or.inr rfl)
            (fun _ => Or.inl hok'))
          simpa [upSrc, upSink, goneSink, KV, hev] using h2
        · have hd := h0.down
          simp only [downSrc, hc] at hd
          have hdead := ((hsock j f0 hf).2.1 p hc).2 hok'
          have h1 := hd.srcStep (SrcStep.remove _ rfl (Or.inl hdead.2.2.2.2.1) (Or.inl ⟨hdead.2.2.2.1, hdead.1⟩))
          have h2 := h1.srcStep (SrcStep.flags _ true true true (fun _ => rfl) (fun _ => rfl) (fun _ => rfl)
            (fun _ => Or.inl hdead.2.2.2.1))
          simpa [downSrc, downSink, goneSrc, SV, hev] using h2

/-! ### accept -/

theorem connect_is_stream : isStreamCmd Generated.CMD_TCP_CONNECT = true := by decide

theorem WInv.accept {w : World} (hw : WInv w) (hn : (chans w.accept).Nodup) : WInv w.accept := by
  unfold World.accept at hn ⊢
  cases hnc : Alloc.nextChannel w.maxChan w.cOcc Generated.ALLOC_PROBES w.chani with
  | mk r ch =>
    cases r with
    | none => exact ⟨hw.flows, hw.ownedC, hw.ownedS⟩
    | some c =>
      rw [hnc] at hn
      simp only at hn ⊢
      have hn : (chans w ++ [c]).Nodup := by simpa [chans] using hn
      have hnotin : c ∉ chans w := by
        intro hin
        have := (List.nodup_append.mp hn).2.2 c hin c (by simp)
        exact this rfl
      have hsub : ∀ x ∈ chans w, x ∈ chans w ++ [c] := fun x hx => by simp [hx]
      refine ⟨?_, ?_, ?_⟩
      · intro j f hj
        simp only at hj
        by_cases hlt : j < w.flows.length
        · rw [List.getElem?_append_left hlt] at hj
          have hne : f.chan ≠ c := fun h => hnotin (h ▸ getElem?_chan_mem hj)
          exact (hw.flows j f hj).appendC [⟨c, CONNECT, []⟩] (by simp [MuxL.send, CONNECT])
            (fun fr hfr => by
              simp only [List.mem_singleton] at hfr
              rw [hfr]
              exact foreign_of_chan_ne (fun h => hne h.symm))
        · rw [List.getElem?_append_right (by omega)] at hj
          have hj0 : j - w.flows.length = 0 := by
            cases hk : j - w.flows.length with
            | zero => rfl
            | succ k => rw [hk] at hj; simp at hj
          rw [hj0] at hj
          simp only [List.getElem?_cons_zero, Option.some.injEq] at hj
          subst hj
          exact FlowOK.fresh w.cm w.sm _ c _ rfl (by simp [MuxL.send, CONNECT])
            (noStream_of_owned hw.ownedC hnotin) (noStream_of_owned hw.ownedS hnotin)
            (nConnect_of_owned hw.ownedC hnotin) (nConnect_of_owned hw.ownedS hnotin)
      · simp only [chans, List.map_append, List.map_cons, List.map_nil]
        show Owned (chans w ++ [c]) (w.cm.send c Generated.CMD_TCP_CONNECT []).out
        simp only [MuxL.send]
        exact (hw.ownedC.mono hsub).append (fun fr hfr _ => by
          simp only [List.mem_singleton] at hfr
          rw [hfr]; simp)
      · simp only [chans, List.map_append, List.map_cons, List.map_nil]
        exact hw.ownedS.mono hsub

/-! ### frame delivery -/

theorem upSink_ever {f : Flow} (h : f.sEver = true) (hs : ∀ p, f.s = some p → f.sEver = true) :
    (upSink f).ever = true := by
  unfold upSink; split
  · rfl
  · exact h

theorem downSink_ever (f : Flow) : (downSink f).ever = true := by
  unfold downSink; split <;> rfl

theorem FlowOK.popC' {cm sm cm' : MuxL} {f : Flow} (h : FlowOK cm sm f) (fr : Frame)
    (he : cm.out = fr :: cm'.out) (hd : isData f.chan fr = false)
    (hc : isConnect f.chan fr = true → f.sEver = true)
    (hE : isEof f.chan fr = true → ((upSink f).ever = true ∧ (upSink f).mwShutR = true) ∨ (upSink f).sawShut = true) :
    FlowOK cm' sm f := by
  refine ⟨?_, h.down, h.cchan, h.schan⟩
  rw [upSrc_setOut cm cm']
  exact h.up.pop fr cm'.out (by rw [upSrc_out]; exact he) hd
    (fun hcc => upSink_ever (hc hcc) (fun p hp => (h.schan p hp).2.2)) hE

theorem FlowOK.popS' {cm sm sm' : MuxL} {f : Flow} (h : FlowOK cm sm f) (fr : Frame)
    (he : sm.out = fr :: sm'.out) (hd : isData f.chan fr = false)
    (hE : isEof f.chan fr = true → ((downSink f).ever = true ∧ (downSink f).mwShutR = true) ∨ (downSink f).sawShut = true) :
    FlowOK cm sm' f := by
  refine ⟨h.up, ?_, h.cchan, h.schan⟩
  rw [downSrc_setOut sm sm']
  exact h.down.pop fr sm'.out (by rw [downSrc_out]; exact he) hd (fun _ => downSink_ever f) hE

/-- An EOF of a flow that nobody takes at the server: the flow's wrapper there is unregistered (it has
`shut_read`), or gone (then its socket was shut), and it cannot be that it never existed. -/
theorem FlowOK.eofDropC {cm sm : MuxL} {g : Flow} (hg : FlowOK cm sm g) (fr : Frame) (rest : List Frame)
    (ho : cm.out = fr :: rest) (hE : isEof g.chan fr = true)
    (hun : ∀ q, g.s = some q → q.mw.shutR = true) :
    ((upSink g).ever = true ∧ (upSink g).mwShutR = true) ∨ (upSink g).sawShut = true := by
  cases hs : g.s with
  | some q => left; simp only [upSink, hs, KV]; exact ⟨trivial, hun q hs⟩
  | none =>
    cases hev : g.sEver with
    | true => left; simp [upSink, hs, goneSink, hev]
    | false =>
      exfalso
      have hc := (hg.up.conn (by simp [upSink, hs, goneSink, hev])).2
      rw [upSrc_out, ho] at hc
      have h1 : isStream g.chan fr = true := isEof_stream hE
      have h2 : isConnect g.chan fr = false := by
        simp only [isEof, Bool.and_eq_true, beq_iff_eq] at hE
        simp only [isConnect, hE.2]
        have := cmds_distinct.2.2.2.2.1
        simp [this]
      simp only [connectAhead, h1, h2] at hc
      rcases hc with hc | ⟨hc, _⟩ <;> cases hc

theorem FlowOK.eofDropS {g : Flow} (fr : Frame) (hun : ∀ q, g.c = some q → q.mw.shutR = true) :
    ((downSink g).ever = true ∧ (downSink g).mwShutR = true) ∨ (downSink g).sawShut = true := by
  cases hs : g.c with
  | some q => left; simp only [downSink, hs, KV]; exact ⟨trivial, hun q hs⟩
  | none => left; simp [downSink, hs, goneSink]

theorem notEof_of_cmd {c : Nat} {fr : Frame} (h : fr.cmd ≠ EOF) : isEof c fr = false := by
  simp [isEof, h]

/-- Popping the head of the client → server queue when no flow's wrapper accepts it. -/
theorem WInv.popAllC {w : World} (hw : WInv w) (fr : Frame) (rest : List Frame) (ho : w.cm.out = fr :: rest)
    (hok : ∀ (j : Nat) (g : Flow), w.flows[j]? = some g → FlowOK w.cm w.sm g →
        FlowOK { w.cm with out := rest } w.sm g) :
    WInv { w with cm := { w.cm with out := rest } } := by
  refine ⟨fun j g hj => hok j g hj (hw.flows j g hj), ?_, hw.ownedS⟩
  have := hw.ownedC
  rw [ho] at this
  exact this.tail

theorem WInv.popAllS {w : World} (hw : WInv w) (fr : Frame) (rest : List Frame) (ho : w.sm.out = fr :: rest)
    (hok : ∀ (j : Nat) (g : Flow), w.flows[j]? = some g → FlowOK w.cm w.sm g →
        FlowOK w.cm { w.sm with out := rest } g) :
    WInv { w with sm := { w.sm with out := rest } } := by
  refine ⟨fun j g hj => hok j g hj (hw.flows j g hj), hw.ownedC, ?_⟩
  have := hw.ownedS
  rw [ho] at this
  exact this.tail

theorem control_not_stream (cmd : Nat) (h : isControl cmd = true) : isStreamCmd cmd = false := by
  simp only [isControl, Bool.or_eq_true, beq_iff_eq] at h
  rcases h with ((((h | h) | h) | h) | h) | h <;> (subst h; decide)

theorem notData_of_cmd {c : Nat} {fr : Frame} (h : fr.cmd ≠ DATA) : isData c fr = false := by
  simp [isData, h]

theorem notConnect_of_cmd {c : Nat} {fr : Frame} (h : fr.cmd ≠ CONNECT) : isConnect c fr = false := by
  simp [isConnect, h]

theorem gotPacket_cases (w : MuxW) (cmd : Nat) (data : Bytes) (w' : MuxW) (h : w.gotPacket cmd data = .ok w') :
    (cmd = EOF ∧ w' = { w with shutR := true }) ∨ (cmd = STOP ∧ w' = { w with shutW := true }) ∨
    (cmd = DATA ∧ w' = { w with buf := w.buf ++ [data] }) := by
  unfold MuxW.gotPacket at h
  split at h
  next hc => injection h with h; exact Or.inl ⟨hc, h.symm⟩
  · split at h
    next hc => injection h with h; exact Or.inr (Or.inl ⟨hc, h.symm⟩)
    · split at h
      next hc => injection h with h; exact Or.inr (Or.inr ⟨hc, h.symm⟩)
      · cases h

theorem not_registered {w : MuxW} (h : w.registered = false) : w.shutR = true ∧ w.shutW = true := by
  simp only [MuxW.registered, Bool.not_eq_eq_eq_not, Bool.not_false, Bool.and_eq_true] at h
  exact h

/-! #### the server's wrapper takes a frame of its channel -/

theorem FlowOK.dropC {cm sm cm' : MuxL} {f : Flow} (h : FlowOK cm sm f) (fr : Frame)
    (he : cm.out = fr :: cm'.out) (hd : isData f.chan fr = true)
    (hg : (upSink f).present = false ∨ (upSink f).mwShutR = true) : FlowOK cm' sm f := by
  refine ⟨?_, h.down, h.cchan, h.schan⟩
  rw [upSrc_setOut cm cm']
  exact h.up.dataDropped fr cm'.out (by rw [upSrc_out]; exact he) hd hg

theorem FlowOK.dropS {cm sm sm' : MuxL} {f : Flow} (h : FlowOK cm sm f) (fr : Frame)
    (he : sm.out = fr :: sm'.out) (hd : isData f.chan fr = true)
    (hg : (downSink f).present = false ∨ (downSink f).mwShutR = true) : FlowOK cm sm' f := by
  refine ⟨h.up, ?_, h.cchan, h.schan⟩
  rw [downSrc_setOut sm sm']
  exact h.down.dataDropped fr sm'.out (by rw [downSrc_out]; exact he) hd hg

theorem upSrc_congr (cm : MuxL) (f' f : Flow) (hc : f'.c = f.c) (ha : f'.app = f.app) :
    upSrc cm f' = upSrc cm f := by unfold upSrc; rw [hc, ha]

theorem downSink_congr (f' f : Flow) (hc : f'.c = f.c) (ha : f'.app = f.app) :
    downSink f' = downSink f := by unfold downSink; rw [hc, ha]

theorem upSink_congr (f' f : Flow) (hc : f'.s = f.s) (ha : f'.dst = f.dst) (he : f'.sEver = f.sEver) :
    upSink f' = upSink f := by unfold upSink; rw [hc, ha, he]

theorem downSrc_congr (sm : MuxL) (f' f : Flow) (hc : f'.s = f.s) (ha : f'.dst = f.dst)
    (he : f'.sEver = f.sEver) : downSrc sm f' = downSrc sm f := by unfold downSrc; rw [hc, ha, he]

theorem FlowOK.acceptS {cm sm cm' : MuxL} {f : Flow} {p : ProxyS} (h : FlowOK cm sm f) (hs : f.s = some p)
    (fr : Frame) (he : cm.out = fr :: cm'.out) (hch : fr.chan = f.chan) (w' : MuxW)
    (hg : p.mw.gotPacket fr.cmd fr.data = .ok w') :
    FlowOK cm' sm { f with s := some { p with mw := w' } } := by
  have hup := h.up
  have hdn := h.down
  have eU : ∀ w'' : MuxW, upSrc cm' { f with s := some { p with mw := w'' } } = { upSrc cm f with out := cm'.out } := by
    intro w''; exact (upSrc_congr cm' _ f rfl rfl).trans (upSrc_setOut cm cm' f)
  have eD : ∀ w'' : MuxW, downSink { f with s := some { p with mw := w'' } } = downSink f :=
    fun w'' => downSink_congr _ f rfl rfl
  rcases gotPacket_cases p.mw fr.cmd fr.data w' hg with ⟨hc, hw⟩ | ⟨hc, hw⟩ | ⟨hc, hw⟩
  · -- EOF
    subst hw
    have hEof : isEof f.chan fr = true := by simp [isEof, hch, hc]
    have h1 := hup.eofAccepted fr cm'.out (by rw [upSrc_out]; exact he) hEof
    refine ⟨?_, ?_, h.cchan, ?_⟩
    · show DirInv f.chan (upSrc cm' _) (upSink _)
      rw [eU]
      simp only [upSink, hs, KV] at h1 ⊢
      simpa using h1
    · show DirInv f.chan (downSrc sm _) (downSink _)
      rw [eD]
      simp only [downSrc, hs, SV] at hdn ⊢
      simpa using hdn
    · intro q hq
      simp only [Option.some.injEq] at hq; subst hq
      exact h.schan p hs
  · -- STOP_SENDING
    subst hw
    have hnd : isData f.chan fr = false := notData_of_cmd (by rw [hc]; exact Ne.symm cmds_distinct.2.1)
    have hncn : isConnect f.chan fr = false := notConnect_of_cmd (by rw [hc]; exact cmds_distinct.2.2.2.2.2)
    have h1 := hup.pop fr cm'.out (by rw [upSrc_out]; exact he) hnd (fun hcc => by rw [hncn] at hcc; cases hcc)
      (fun hh => by rw [notEof_of_cmd (by rw [hc]; exact Ne.symm cmds_distinct.2.2.2.1)] at hh; cases hh)
    refine ⟨?_, ?_, h.cchan, ?_⟩
    · show DirInv f.chan (upSrc cm' _) (upSink _)
      rw [eU]
      simp only [upSink, hs, KV] at h1 ⊢
      simpa using h1
    · show DirInv f.chan (downSrc sm _) (downSink _)
      rw [eD]
      have hstop : hasStop f.chan cm.out = true := by rw [he]; simp [hasStop, isStop, hch, hc]
      have hown := hup.stopOk (by rw [upSrc_out]; exact hstop)
      have hk : (downSink f).sawShut = true := by
        cases hcc : f.c with
        | none => exact hdn.goneShut (by simp [downSink, hcc, goneSink]) (by simp [downSink, hcc, goneSink])
        | some q =>
          simp only [upSrc, hcc, SV] at hown
          exact hdn.shutOk (by simp [downSink, hcc, KV]) (by simp [downSink, hcc, KV]; exact hown)
      simp only [downSrc, hs] at hdn
      have h2 := hdn.srcStep (SrcStep.flags _ p.sw.shutR true p.sw.shutW id (fun _ => rfl) id (fun _ => Or.inr hk))
      simp only [downSrc, SV] at h2 ⊢
      simpa using h2
    · intro q hq
      simp only [Option.some.injEq] at hq; subst hq
      exact h.schan p hs
  · -- DATA
    subst hw
    have hData : isData f.chan fr = true := by simp [isData, hch, hc]
    have h1 := hup.dataAccepted fr cm'.out (by rw [upSrc_out]; exact he) hData (by simp [upSink, hs, KV])
    refine ⟨?_, ?_, h.cchan, ?_⟩
    · show DirInv f.chan (upSrc cm' _) (upSink _)
      rw [eU]
      simp only [upSink, hs, KV] at h1 ⊢
      simpa using h1
    · show DirInv f.chan (downSrc sm _) (downSink _)
      rw [eD]
      simp only [downSrc, hs, SV] at hdn ⊢
      simpa using hdn
    · intro q hq
      simp only [Option.some.injEq] at hq; subst hq
      exact h.schan p hs

theorem FlowOK.acceptC {cm sm sm' : MuxL} {f : Flow} {p : ProxyS} (h : FlowOK cm sm f) (hs : f.c = some p)
    (fr : Frame) (he : sm.out = fr :: sm'.out) (hch : fr.chan = f.chan) (w' : MuxW)
    (hg : p.mw.gotPacket fr.cmd fr.data = .ok w') :
    FlowOK cm sm' { f with c := some { p with mw := w' } } := by
  have hup := h.up
  have hdn := h.down
  have eD : ∀ w'' : MuxW, downSrc sm' { f with c := some { p with mw := w'' } } = { downSrc sm f with out := sm'.out } := by
    intro w''; exact (downSrc_congr sm' _ f rfl rfl rfl).trans (downSrc_setOut sm sm' f)
  have eU : ∀ w'' : MuxW, upSink { f with c := some { p with mw := w'' } } = upSink f :=
    fun w'' => upSink_congr _ f rfl rfl rfl
  rcases gotPacket_cases p.mw fr.cmd fr.data w' hg with ⟨hc, hw⟩ | ⟨hc, hw⟩ | ⟨hc, hw⟩
  · subst hw
    have hEof : isEof f.chan fr = true := by simp [isEof, hch, hc]
    have h1 := hdn.eofAccepted fr sm'.out (by rw [downSrc_out]; exact he) hEof
    refine ⟨?_, ?_, ?_, h.schan⟩
    · show DirInv f.chan (upSrc cm _) (upSink _)
      rw [eU]
      simp only [upSrc, hs, SV] at hup ⊢
      simpa using hup
    · show DirInv f.chan (downSrc sm' _) (downSink _)
      rw [eD]
      simp only [downSink, hs, KV] at h1 ⊢
      simpa using h1
    · intro q hq
      simp only [Option.some.injEq] at hq; subst hq
      exact h.cchan p hs
  · subst hw
    have hnd : isData f.chan fr = false := notData_of_cmd (by rw [hc]; exact Ne.symm cmds_distinct.2.1)
    have hncn : isConnect f.chan fr = false := notConnect_of_cmd (by rw [hc]; exact cmds_distinct.2.2.2.2.2)
    have h1 := hdn.pop fr sm'.out (by rw [downSrc_out]; exact he) hnd (fun hcc => by rw [hncn] at hcc; cases hcc)
      (fun hh => by rw [notEof_of_cmd (by rw [hc]; exact Ne.symm cmds_distinct.2.2.2.1)] at hh; cases hh)
    refine ⟨?_, ?_, ?_, h.schan⟩
    · show DirInv f.chan (upSrc cm _) (upSink _)
      rw [eU]
      have hstop : hasStop f.chan sm.out = true := by rw [he]; simp [hasStop, isStop, hch, hc]
      have hown := hdn.stopOk (by rw [downSrc_out]; exact hstop)
      have hk : (upSink f).sawShut = true := by
        cases hcc : f.s with
        | none =>
          cases hev : f.sEver with
          | true => exact hup.goneShut (by simp [upSink, hcc, goneSink, hev]) (by simp [upSink, hcc, goneSink])
          | false =>
            simp only [downSrc, hcc, goneSrc, hev] at hown
            cases hown
        | some q =>
          simp only [downSrc, hcc, SV] at hown
          exact hup.shutOk (by simp [upSink, hcc, KV]) (by simp [upSink, hcc, KV]; exact hown)
      simp only [upSrc, hs] at hup
      have h2 := hup.srcStep (SrcStep.flags _ p.sw.shutR true p.sw.shutW id (fun _ => rfl) id (fun _ => Or.inr hk))
      simp only [upSrc, SV] at h2 ⊢
      simpa using h2
    · show DirInv f.chan (downSrc sm' _) (downSink _)
      rw [eD]
      simp only [downSink, hs, KV] at h1 ⊢
      simpa using h1
    · intro q hq
      simp only [Option.some.injEq] at hq; subst hq
      exact h.cchan p hs
  · subst hw
    have hData : isData f.chan fr = true := by simp [isData, hch, hc]
    have h1 := hdn.dataAccepted fr sm'.out (by rw [downSrc_out]; exact he) hData (by simp [downSink, hs, KV])
    refine ⟨?_, ?_, ?_, h.schan⟩
    · show DirInv f.chan (upSrc cm _) (upSink _)
      rw [eU]
      simp only [upSrc, hs, SV] at hup ⊢
      simpa using hup
    · show DirInv f.chan (downSrc sm' _) (downSink _)
      rw [eD]
      simp only [downSink, hs, KV] at h1 ⊢
      simpa using h1
    · intro q hq
      simp only [Option.some.injEq] at hq; subst hq
      exact h.cchan p hs

/-! #### dispatch at world level -/

theorem WInv.dispatchS {w : World} (hw : WInv w) (hn : (chans w).Nodup) (fr : Frame) (rest : List Frame)
    (ho : w.cm.out = fr :: rest) (hnc : fr.cmd ≠ CONNECT)
    (hd : (World.dispatchAt { w with cm := { w.cm with out := rest } } .server fr).died = none) :
    WInv (World.dispatchAt { w with cm := { w.cm with out := rest } } .server fr) := by
  unfold World.dispatchAt at hd ⊢
  simp only at hd ⊢
  rcases dispatch_spec .server w.flows fr with ⟨h1, _⟩ | ⟨h1, h2, h3⟩ | ⟨h1, i, f, p, w', hi, hch, hh, hreg, hgot, hfl⟩
  · rw [h1] at hd; simp at hd
  · -- nobody takes it
    rw [h1]; simp only [Bool.false_eq_true, ↓reduceIte]; rw [h2]
    refine hw.popAllC fr rest ho ?_
    intro j g hj hg
    by_cases hc : g.chan = fr.chan
    · by_cases hdat : isData g.chan fr = true
      · refine hg.dropC fr ho hdat ?_
        unfold upSink
        cases hs : g.s with
        | none => left; rfl
        | some q =>
          right
          have := h3 j g hj hc q (by simp [handlerAt, hs])
          exact (not_registered this).1
      · exact hg.popC' fr ho (by simpa using hdat)
          (fun hcc => by rw [notConnect_of_cmd hnc] at hcc; cases hcc)
          (fun hE => hg.eofDropC fr rest ho hE (fun q hq =>
            (not_registered (h3 j g hj hc q (by simp [handlerAt, hq]))).1))
    · exact hg.popC fr ho (foreign_of_chan_ne (fun h => hc h.symm))
  · -- flow i takes it
    rw [h1]; simp only [Bool.false_eq_true, ↓reduceIte]; rw [hfl]
    have hs : f.s = some p := by simpa [handlerAt] using hh
    have hchans : (modifyAt w.flows i fun f => setHandler .server f { p with mw := w' }).map (·.chan)
        = chans w := modifyAt_map_chan _ _ _ (fun g => by simp [setHandler])
    refine ⟨?_, ?_, ?_⟩
    · intro j g hj
      simp only [modifyAt_getElem?] at hj
      by_cases hji : j = i
      · subst hji
        rw [if_pos rfl, hi] at hj
        simp only [Option.map_some, Option.some.injEq, setHandler] at hj
        subst hj
        exact (hw.flows j f hi).acceptS hs fr ho hch.symm w' hgot
      · rw [if_neg hji] at hj
        have hne : g.chan ≠ f.chan := nodup_chan_ne hn hj hi hji
        exact (hw.flows j g hj).popC fr ho (foreign_of_chan_ne (fun h => hne (by rw [← h, hch])))
    · show Owned (List.map (·.chan) (modifyAt w.flows i _)) rest
      rw [hchans]
      have := hw.ownedC; rw [ho] at this; exact this.tail
    · show Owned (List.map (·.chan) (modifyAt w.flows i _)) w.sm.out
      rw [hchans]; exact hw.ownedS

theorem WInv.dispatchC {w : World} (hw : WInv w) (hn : (chans w).Nodup) (fr : Frame) (rest : List Frame)
    (ho : w.sm.out = fr :: rest)
    (hd : (World.dispatchAt { w with sm := { w.sm with out := rest } } .client fr).died = none) :
    WInv (World.dispatchAt { w with sm := { w.sm with out := rest } } .client fr) := by
  unfold World.dispatchAt at hd ⊢
  simp only at hd ⊢
  rcases dispatch_spec .client w.flows fr with ⟨h1, _⟩ | ⟨h1, h2, h3⟩ | ⟨h1, i, f, p, w', hi, hch, hh, hreg, hgot, hfl⟩
  · rw [h1] at hd; simp at hd
  · rw [h1]; simp only [Bool.false_eq_true, ↓reduceIte]; rw [h2]
    refine hw.popAllS fr rest ho ?_
    intro j g hj hg
    by_cases hc : g.chan = fr.chan
    · by_cases hdat : isData g.chan fr = true
      · refine hg.dropS fr ho hdat ?_
        unfold downSink
        cases hs : g.c with
        | none => left; rfl
        | some q =>
          right
          have := h3 j g hj hc q (by simp [handlerAt, hs])
          exact (not_registered this).1
      · exact hg.popS' fr ho (by simpa using hdat)
          (fun _ => FlowOK.eofDropS fr (fun q hq =>
            (not_registered (h3 j g hj hc q (by simp [handlerAt, hq]))).1))
    · exact hg.popS fr ho (foreign_of_chan_ne (fun h => hc h.symm))
  · rw [h1]; simp only [Bool.false_eq_true, ↓reduceIte]; rw [hfl]
    have hs : f.c = some p := by simpa [handlerAt] using hh
    have hchans : (modifyAt w.flows i fun f => setHandler .client f { p with mw := w' }).map (·.chan)
        = chans w := modifyAt_map_chan _ _ _ (fun g => by simp [setHandler])
    refine ⟨?_, ?_, ?_⟩
    · intro j g hj
      simp only [modifyAt_getElem?] at hj
      by_cases hji : j = i
      · subst hji
        rw [if_pos rfl, hi] at hj
        simp only [Option.map_some, Option.some.injEq, setHandler] at hj
        subst hj
        exact (hw.flows j f hi).acceptC hs fr ho hch.symm w' hgot
      · rw [if_neg hji] at hj
        have hne : g.chan ≠ f.chan := nodup_chan_ne hn hj hi hji
        exact (hw.flows j g hj).popS fr ho (foreign_of_chan_ne (fun h => hne (by rw [← h, hch])))
    · show Owned (List.map (·.chan) (modifyAt w.flows i _)) w.cm.out
      rw [hchans]; exact hw.ownedC
    · show Owned (List.map (·.chan) (modifyAt w.flows i _)) rest
      rw [hchans]
      have := hw.ownedS; rw [ho] at this; exact this.tail

/-! #### the server handles a CONNECT -/

theorem FlowOK.connectS {cm sm cm' : MuxL} {f : Flow} (h : FlowOK cm sm f) (fr : Frame)
    (he : cm.out = fr :: cm'.out) (hch : fr.chan = f.chan) (hc : fr.cmd = CONNECT) (hev : f.sEver = false)
    (s : SockW) (e : ESock) (conn : ConnRes)
    (htc : SockW.tryConnect { connecting := true } f.dst conn false = .ok s e) :
    FlowOK cm' sm { f with s := some { sw := s, mw := { chan := fr.chan }, sockFirst := false },
                           sEver := true, dst := e } := by
  obtain ⟨f1, f2, f3, f4, f5, f6, f7, f8, f9⟩ := tryConnect_facts _ f.dst false conn s e htc
  have hsn : f.s = none := by
    cases hs : f.s with
    | none => rfl
    | some q => have := (h.schan q hs).2.2; rw [hev] at this; cases this
  have hIsC : isConnect f.chan fr = true := by simp [isConnect, hch, hc]
  refine ⟨?_, ?_, h.cchan, ?_⟩
  · have hu := h.up
    have hbe : (upSink f).ever = false := by simp [upSink, hsn, goneSink, hev]
    have h1 := hu.connectCreates fr cm'.out (by rw [upSrc_out]; exact he) hIsC hbe s.shutW e.sawShut
      (fun hs => by
        rcases f9 hs with h0 | h0
        · cases h0
        · exact h0)
      (fun hs => by
        have : f.dst.sawShut = true := by simpa [upSink, hsn, goneSink] using hs
        exact f8 this)
    have e1 := (upSrc_congr cm' { f with s := some { sw := s, mw := { chan := fr.chan }, sockFirst := false }, sEver := true, dst := e } f rfl rfl).trans (upSrc_setOut cm cm' f)
    show DirInv f.chan (upSrc cm' _) (upSink _)
    rw [e1]
    simp only [upSink, hsn, goneSink, KV] at h1 ⊢
    simpa [f4] using h1
  · have hd := h.down
    simp only [downSrc, hsn, hev] at hd
    have h1 := hd.srcStep (SrcStep.create _ rfl s.shutR s.shutW (fun h0 => by cases h0))
    have e2 := downSink_congr { f with s := some { sw := s, mw := { chan := fr.chan }, sockFirst := false }, sEver := true, dst := e } f rfl rfl
    show DirInv f.chan (downSrc sm _) (downSink _)
    rw [e2]
    simp only [downSrc, SV, goneSrc] at h1 ⊢
    simpa [f1, f2] using h1
  · intro q hq
    simp only [Option.some.injEq] at hq
    subst hq
    exact ⟨hch, rfl, rfl⟩

theorem WInv.connectS {w : World} (hw : WInv w) (hn : (chans w).Nodup) (fr : Frame) (rest : List Frame)
    (ho : w.cm.out = fr :: rest) (hc : fr.cmd = CONNECT) (conn : ConnRes)
    (hd : (World.connectS { w with cm := { w.cm with out := rest } } fr conn).died = none) :
    WInv (World.connectS { w with cm := { w.cm with out := rest } } fr conn) := by
  have hnd : ∀ c, isData c fr = false := fun c => notData_of_cmd (by rw [hc]; exact Ne.symm cmds_distinct.2.2.1)
  unfold World.connectS at hd ⊢
  split at hd
  · simp at hd
  · next hocc =>
    rw [if_neg hocc]
    simp only at hd ⊢
    cases hfi : w.flows.findIdx? (fun f => f.chan == fr.chan && !f.sEver) with
    | none =>
      simp only [hfi]
      rw [List.findIdx?_eq_none_iff] at hfi
      refine hw.popAllC fr rest ho ?_
      intro j g hj hg
      refine hg.popC' fr ho (hnd _) ?_
        (fun hh => by rw [notEof_of_cmd (by rw [hc]; exact Ne.symm cmds_distinct.2.2.2.2.1)] at hh; cases hh)
      intro hcc
      have hm := hfi g (List.mem_of_getElem? hj)
      simp only [isConnect, Bool.and_eq_true, beq_iff_eq] at hcc
      simp only [Bool.and_eq_false_iff, beq_eq_false_iff_ne, Bool.not_eq_false'] at hm
      rcases hm with hm | hm
      · exact absurd hcc.1.symm hm
      · cases hse : g.sEver with
        | true => rfl
        | false => rw [hse] at hm; cases hm
    | some i =>
      simp only [hfi] at hd ⊢
      rw [List.findIdx?_eq_some_iff_getElem] at hfi
      obtain ⟨hlt, hp, _⟩ := hfi
      have hi : w.flows[i]? = some w.flows[i] := List.getElem?_eq_getElem hlt
      simp only [hi] at hd ⊢
      generalize w.flows[i] = f at hi hp hd ⊢
      simp only [Bool.and_eq_true, beq_iff_eq, Bool.not_eq_eq_eq_not, Bool.not_true] at hp
      cases htc : SockW.tryConnect { connecting := true } f.dst conn false with
      | died => simp [htc] at hd
      | ok s e =>
        simp only [htc]
        have hchans : (modifyAt w.flows i fun f =>
            { f with s := some { sw := s, mw := { chan := fr.chan }, sockFirst := false }, sEver := true, dst := e }).map
            (·.chan) = chans w := modifyAt_map_chan _ _ _ (fun _ => rfl)
        refine ⟨?_, ?_, ?_⟩
        · intro j g hj
          simp only [modifyAt_getElem?] at hj
          by_cases hji : j = i
          · subst hji
            rw [if_pos rfl, hi] at hj
            simp only [Option.map_some, Option.some.injEq] at hj
            subst hj
            exact (hw.flows j f hi).connectS fr ho hp.1.symm hc hp.2 s e conn htc
          · rw [if_neg hji] at hj
            have hne : g.chan ≠ f.chan := nodup_chan_ne hn hj hi hji
            exact (hw.flows j g hj).popC fr ho (foreign_of_chan_ne (fun h => hne (by rw [← h, hp.1])))
        · show Owned (List.map (·.chan) (modifyAt w.flows i _)) rest
          rw [hchans]
          have := hw.ownedC; rw [ho] at this; exact this.tail
        · show Owned (List.map (·.chan) (modifyAt w.flows i _)) w.sm.out
          rw [hchans]; exact hw.ownedS

/-! #### one frame arrives -/

theorem WInv.deliverS {w : World} (hw : WInv w) (hn : (chans w).Nodup) (conn : ConnRes)
    (hd : (w.deliverS conn).died = none) : WInv (w.deliverS conn) := by
  unfold World.deliverS at hd ⊢
  cases ho : w.cm.out with
  | nil => simpa [ho] using hw
  | cons fr rest =>
    simp only [ho] at hd ⊢
    have hpopF : isStreamCmd fr.cmd = false → WInv { w with cm := { w.cm with out := rest } } := by
      intro hns
      exact hw.popAllC fr rest ho (fun j g _ hg => hg.popC fr ho (foreign_of_cmd hns))
    by_cases h1 : (fr.cmd == Generated.CMD_PING) = true
    · simp only [h1, ↓reduceIte]
      have hcmd : fr.cmd = Generated.CMD_PING := by simpa using h1
      have hw1 := hpopF (by rw [hcmd]; exact ping_not_stream)
      exact hw1.queueS _ [⟨0, Generated.CMD_PONG, fr.data⟩] (by simp [MuxL.send])
        (fun x hx => by simp only [List.mem_singleton] at hx; rw [hx]; exact pong_not_stream)
    · simp only [h1, Bool.false_eq_true, ↓reduceIte] at hd ⊢
      by_cases h2 : (fr.cmd == Generated.CMD_PONG) = true
      · simp only [h2, ↓reduceIte]
        have hcmd : fr.cmd = Generated.CMD_PONG := by simpa using h2
        have hw1 := hpopF (by rw [hcmd]; exact pong_not_stream)
        exact hw1.queueS _ [] (by simp) (by simp)
      · simp only [h2, Bool.false_eq_true, ↓reduceIte] at hd ⊢
        by_cases h3 : (fr.cmd == Generated.CMD_TCP_CONNECT) = true
        · simp only [h3, ↓reduceIte] at hd ⊢
          exact hw.connectS hn fr rest ho (by simpa using h3) conn hd
        · simp only [h3, Bool.false_eq_true, ↓reduceIte] at hd ⊢
          by_cases h4 : isControl fr.cmd = true
          · simp only [h4, ↓reduceIte]
            exact hpopF (control_not_stream _ h4)
          · simp only [h4, Bool.false_eq_true, ↓reduceIte] at hd ⊢
            exact hw.dispatchS hn fr rest ho (by simpa using h3) hd

theorem WInv.deliverC {w : World} (hw : WInv w) (hn : (chans w).Nodup)
    (hd : w.deliverC.died = none) : WInv w.deliverC := by
  unfold World.deliverC at hd ⊢
  cases ho : w.sm.out with
  | nil => simpa [ho] using hw
  | cons fr rest =>
    simp only [ho] at hd ⊢
    have hpopF : isStreamCmd fr.cmd = false → WInv { w with sm := { w.sm with out := rest } } := by
      intro hns
      exact hw.popAllS fr rest ho (fun j g _ hg => hg.popS fr ho (foreign_of_cmd hns))
    by_cases h1 : (fr.cmd == Generated.CMD_PING) = true
    · simp only [h1, ↓reduceIte]
      have hcmd : fr.cmd = Generated.CMD_PING := by simpa using h1
      have hw1 := hpopF (by rw [hcmd]; exact ping_not_stream)
      exact hw1.queueC _ [⟨0, Generated.CMD_PONG, fr.data⟩] (by simp [MuxL.send])
        (fun x hx => by simp only [List.mem_singleton] at hx; rw [hx]; exact pong_not_stream)
    · simp only [h1, Bool.false_eq_true, ↓reduceIte] at hd ⊢
      by_cases h2 : (fr.cmd == Generated.CMD_PONG) = true
      · simp only [h2, ↓reduceIte]
        have hcmd : fr.cmd = Generated.CMD_PONG := by simpa using h2
        have hw1 := hpopF (by rw [hcmd]; exact pong_not_stream)
        exact hw1.queueC _ [] (by simp) (by simp)
      · simp only [h2, Bool.false_eq_true, ↓reduceIte] at hd ⊢
        by_cases h3 : (fr.cmd == Generated.CMD_TCP_CONNECT) = true
        · simp only [h3, ↓reduceIte] at hd ⊢
          have hcmd : fr.cmd = CONNECT := by simpa using h3
          have hpop : WInv { w with sm := { w.sm with out := rest } } :=
            hw.popAllS fr rest ho (fun j g _ hg => hg.popS' fr ho
              (notData_of_cmd (by rw [hcmd]; exact Ne.symm cmds_distinct.2.2.1))
              (fun hh => by rw [notEof_of_cmd (by rw [hcmd]; exact Ne.symm cmds_distinct.2.2.2.2.1)] at hh; cases hh))
          split at hd
          · simp at hd
          · next hocc => rw [if_neg hocc]; exact hpop
        · simp only [h3, Bool.false_eq_true, ↓reduceIte] at hd ⊢
          by_cases h4 : isControl fr.cmd = true
          · simp only [h4, ↓reduceIte]
            exact hpopF (control_not_stream _ h4)
          · simp only [h4, Bool.false_eq_true, ↓reduceIte] at hd ⊢
            exact hw.dispatchC hn fr rest ho hd

/-! ### every step -/

/-- Frames injected on behalf of other flow kinds (DNS, UDP, host lists, routes) are never
TCP stream frames or CONNECTs. -/
def GoodStep : Step → Prop
  | .foreign _ fr => isStreamCmd fr.cmd = false
  | _ => True

theorem prefix_modifyAt (l : List Flow) (i : Nat) (g : Flow → Flow) (hg : ∀ f, (g f).chan = f.chan) :
    l.map (·.chan) <+: (modifyAt l i g).map (·.chan) := by
  rw [modifyAt_map_chan _ _ _ hg]; exact List.prefix_refl _

theorem dispatch_chans (e : End) (flows : List Flow) (fr : Frame) :
    (dispatch e flows fr).1.map (·.chan) = flows.map (·.chan) := by
  rcases dispatch_spec e flows fr with ⟨_, h2⟩ | ⟨_, h2, _⟩ | ⟨_, i, f, p, w', _, _, _, _, _, h7⟩
  · rw [h2]
  · rw [h2]
  · rw [h7]; exact modifyAt_map_chan _ _ _ (fun g => by cases e <;> simp [setHandler])

theorem chans_dispatchAt (w : World) (e : End) (fr : Frame) : chans (w.dispatchAt e fr) = chans w := by
  unfold World.dispatchAt
  split
  · rfl
  · simp only [chans]; exact dispatch_chans e w.flows fr

theorem chans_connectS (w : World) (fr : Frame) (conn : ConnRes) : chans (w.connectS fr conn) = chans w := by
  unfold World.connectS
  split
  · rfl
  · split
    · rfl
    · split
      · rfl
      · split
        · rfl
        · simp only [chans]; exact modifyAt_map_chan _ _ _ (fun _ => rfl)

theorem chans_deliverS (w : World) (conn : ConnRes) : chans (w.deliverS conn) = chans w := by
  unfold World.deliverS
  split
  · rfl
  · simp only
    split
    · rfl
    · split
      · rfl
      · split
        · rw [chans_connectS]; rfl
        · split
          · rfl
          · rw [chans_dispatchAt]; rfl

theorem chans_deliverC (w : World) : chans w.deliverC = chans w := by
  unfold World.deliverC
  split
  · rfl
  · simp only
    split
    · rfl
    · split
      · rfl
      · split
        · split <;> rfl
        · split
          · rfl
          · rw [chans_dispatchAt]; rfl

theorem chans_rmC (w : World) : chans w.rmC = chans w := by
  unfold World.rmC chans
  simp only [List.map_map]
  apply List.map_congr_left
  intro f _
  simp only [Function.comp]
  split
  · split <;> rfl
  · rfl

theorem chans_rmS (w : World) : chans w.rmS = chans w := by
  unfold World.rmS chans
  simp only [List.map_map]
  apply List.map_congr_left
  intro f _
  simp only [Function.comp]
  split
  · split <;> rfl
  · rfl

theorem chans_stepRaw_prefix (w : World) (st : Step) : chans w <+: chans (w.stepRaw st) := by
  have hrefl : chans w <+: chans w := List.prefix_refl _
  unfold World.stepRaw
  · cases st with
    | accept =>
      simp only [World.accept]
      split
      · exact hrefl
      · simp only [chans, List.map_append]; exact List.prefix_append _ _
    | cb e i io =>
      cases e
      · simp only [World.cbC]; split
        · split
          · split
            · exact prefix_modifyAt _ _ _ (fun _ => rfl)
            · exact hrefl
          · exact hrefl
        · exact hrefl
      · simp only [World.cbS]; split
        · split
          · split
            · exact prefix_modifyAt _ _ _ (fun _ => rfl)
            · exact hrefl
          · exact hrefl
        · exact hrefl
    | pre e i =>
      cases e
      · simp only [World.preC]; split
        · split
          · exact prefix_modifyAt _ _ _ (fun _ => rfl)
          · exact hrefl
        · exact hrefl
      · simp only [World.preS]; split
        · split
          · exact prefix_modifyAt _ _ _ (fun _ => rfl)
          · exact hrefl
        · exact hrefl
    | deliver e conn =>
      cases e
      · simp only; rw [chans_deliverC]; exact hrefl
      · simp only; rw [chans_deliverS]; exact hrefl
    | removeDead e =>
      cases e
      · simp only; rw [chans_rmC]; exact hrefl
      · simp only; rw [chans_rmS]; exact hrefl
    | checkFull e => cases e <;> exact hrefl
    | foreign e fr => cases e <;> exact hrefl
    | appWrite i b => exact prefix_modifyAt _ _ _ (fun f => by split <;> rfl)
    | appEof i => exact prefix_modifyAt _ _ _ (fun _ => rfl)
    | dstWrite i b => exact prefix_modifyAt _ _ _ (fun f => by split <;> rfl)
    | dstEof i => exact prefix_modifyAt _ _ _ (fun _ => rfl)

theorem nodup_of_prefix {l l' : List Nat} (h : l <+: l') (hn : l'.Nodup) : l.Nodup := by
  obtain ⟨t, rfl⟩ := h
  exact (List.nodup_append.mp hn).1

/-- **Every step preserves the world invariant** while no process has died. -/
theorem WInv.stepRaw {w : World} (hw : WInv w) (hsock : ∀ (j : Nat) (f : Flow), w.flows[j]? = some f → FlowSock f)
    (hdead : w.died = none) (st : Step) (hg : GoodStep st)
    (hn : (chans (w.stepRaw st)).Nodup) (hd : (w.stepRaw st).died = none) : WInv (w.stepRaw st) := by
  have hn0 : (chans w).Nodup := nodup_of_prefix (chans_stepRaw_prefix w st) hn
  unfold World.stepRaw at hn hd ⊢
  · cases st with
    | accept => exact hw.accept hn
    | cb e i io =>
      cases e
      · exact hw.cbC hn0 i io hd hdead
      · exact hw.cbS hn0 i io hd
    | pre e i =>
      cases e
      · exact hw.preC hn0 i
      · exact hw.preS hn0 i
    | deliver e conn =>
      cases e
      · exact hw.deliverC hn0 hd
      · exact hw.deliverS hn0 conn hd
    | removeDead e =>
      cases e
      · exact hw.rmC hsock
      · exact hw.rmS hsock
    | checkFull e =>
      cases e
      · obtain ⟨extra, he, hf⟩ := checkFullness_out w.cm w.bufsize
        exact hw.queueC _ extra he hf
      · obtain ⟨extra, he, hf⟩ := checkFullness_out w.sm w.bufsize
        exact hw.queueS _ extra he hf
    | foreign e fr =>
      cases e
      · exact hw.queueC _ [⟨fr.chan, fr.cmd, fr.data⟩] (by simp [MuxL.send])
          (fun x hx => by simp only [List.mem_singleton] at hx; rw [hx]; exact hg)
      · exact hw.queueS _ [⟨fr.chan, fr.cmd, fr.data⟩] (by simp [MuxL.send])
          (fun x hx => by simp only [List.mem_singleton] at hx; rw [hx]; exact hg)
    | appWrite i b =>
      refine hw.envStep i _ (fun f => by split <;> rfl) ?_
      intro f hf
      split
      · exact hf
      · exact hf.envApp _ rfl rfl rfl
    | appEof i => exact hw.envStep i _ (fun _ => rfl) (fun f hf => hf.envApp _ rfl rfl rfl)
    | dstWrite i b =>
      refine hw.envStep i _ (fun f => by split <;> rfl) ?_
      intro f hf
      split
      · exact hf
      · exact hf.envDst _ rfl rfl rfl
    | dstEof i => exact hw.envStep i _ (fun _ => rfl) (fun f hf => hf.envDst _ rfl rfl rfl)

end Sshuttle.Tunnel
