/-
Every operation of the wrapper code model (`Code/Wrap.lean`) acts on the source view and on
the sink view of its proxy as a sequence of the abstract transitions of `Lemmas/DirInv.lean`.
-/
import SshuttleModel.Lemmas.DirInv

namespace Sshuttle.Tunnel
open Sshuttle.Mux (Frame)
open Sshuttle.Wrap

/-- Source view of a live proxy: its socket wrapper reads, its mux wrapper frames into `m`. -/
def SV (s : SockW) (w : MuxW) (m : MuxL) (e : ESock) : SrcV :=
  { present := true, ever := true, buf := s.buf.flatten, shutR := s.shutR, mwShutW := w.shutW,
    out := m.out, consumed := e.consumed, ownShutW := s.shutW }

/-- Sink view of a live proxy: its mux wrapper receives, its socket wrapper writes into `e`. -/
def KV (s : SockW) (w : MuxW) (ok : Bool) (e : ESock) : SinkV :=
  { present := true, ever := true, buf := w.buf.flatten, mwShutR := w.shutR, swShutW := s.shutW,
    ok := ok, delivered := e.delivered, sawShut := e.sawShut }

/-- Closes the side conditions of the relational transition lemmas. -/
macro "flag_tac" : tactic =>
  `(tactic| first | (intro h; exact Or.inl h) | (simp [SV, KV, SockW.noread]; done) | (simp_all [SV, KV, SockW.noread]; done) | rfl)

/-- Every wrapper operation refines source transitions that are allowed while the sink of the
direction is still open (`k = false`), hence in any case (`SrcStep.mono`). -/
abbrev SrcStar (c : Nat) := Star (SrcStep c false)
abbrev SinkStar := Star SinkStep

theorem popEmpty_flatten (l : List Bytes) : (popEmpty l).flatten = l.flatten := by
  induction l with
  | nil => rfl
  | cons b r ih =>
    unfold popEmpty; split
    next h => simp [ih, List.isEmpty_iff.mp h]
    · rfl

/-! ### relational forms of the transitions -/

theorem srcStar_flags (c : Nat) (a a' : SrcV) (h1 : a'.present = a.present) (h2 : a'.ever = a.ever)
    (h3 : a'.buf = a.buf) (h4 : a'.out = a.out) (h5 : a'.consumed = a.consumed)
    (hr : a.shutR = true → a'.shutR = true) (hw : a'.mwShutW = a.mwShutW)
    (hos : a.ownShutW = true → a'.ownShutW = true) :
    SrcStar c a a' := by
  have st := SrcStep.flags (c := c) (k := false) a a'.shutR a'.mwShutW a'.ownShutW hr (fun h => by rw [hw]; exact h) hos
    (fun h => Or.inl (by rw [← hw]; exact h))
  have e : ({ a with shutR := a'.shutR, mwShutW := a'.mwShutW, ownShutW := a'.ownShutW } : SrcV) = a' := by
    cases a; cases a'; simp_all
  rw [e] at st; exact Star.single st

theorem sinkStar_flags (b b' : SinkV) (hp : b'.present = b.present) (he : b'.ever = b.ever)
    (hb : b'.buf = b.buf) (hd : b'.delivered = b.delivered)
    (h1 : b.swShutW = true → b'.swShutW = true) (h2 : b.sawShut = true → b'.sawShut = true)
    (h3 : b.mwShutR = true → b'.mwShutR = true)
    (h4 : b'.swShutW = true → b.swShutW = true ∨ b'.sawShut = true)
    (h5 : b'.mwShutR = true → b.mwShutR = true ∨ b'.swShutW = true)
    (h6 : b'.ok = false → b.ok = false ∨ b'.swShutW = true) : SinkStar b b' := by
  have st := SinkStep.flags b b'.mwShutR b'.swShutW b'.sawShut b'.ok h1 h2 h3 h4 h5 h6
  have e : ({ b with mwShutR := b'.mwShutR, swShutW := b'.swShutW, sawShut := b'.sawShut, ok := b'.ok } : SinkV) = b' := by
    cases b; cases b'; simp_all
  rw [e] at st; exact Star.single st

/-- The two views do not depend on fields an operation may touch freely. -/
theorem SV_congr {s s' : SockW} {w w' : MuxW} {m m' : MuxL} {e e' : ESock}
    (h1 : s'.buf.flatten = s.buf.flatten) (h2 : s'.shutR = s.shutR) (h3 : w'.shutW = w.shutW)
    (h4 : m'.out = m.out) (h5 : e'.consumed = e.consumed) (h6 : s'.shutW = s.shutW) :
    SV s' w' m' e' = SV s w m e := by
  simp [SV, h1, h2, h3, h4, h5, h6]

theorem KV_congr {s s' : SockW} {w w' : MuxW} {ok : Bool} {e e' : ESock}
    (h1 : w'.buf.flatten = w.buf.flatten) (h2 : w'.shutR = w.shutR) (h3 : s'.shutW = s.shutW)
    (h4 : e'.delivered = e.delivered) (h5 : e'.sawShut = e.sawShut) : KV s' w' ok e' = KV s w ok e := by
  simp [KV, h1, h2, h3, h4, h5]

/-- What stays true of the endpoint's ghost log whatever a wrapper operation does. -/
def EnvKeeps (e e' : ESock) : Prop :=
  e'.consumed ++ e'.pending = e.consumed ++ e.pending ∧ e'.eofIn = e.eofIn

theorem EnvKeeps.rfl' (e : ESock) : EnvKeeps e e := ⟨rfl, rfl⟩

theorem EnvKeeps.trans {e1 e2 e3 : ESock} (h1 : EnvKeeps e1 e2) (h2 : EnvKeeps e2 e3) : EnvKeeps e1 e3 :=
  ⟨h2.1.trans h1.1, h2.2.trans h1.2⟩

/-! ### SockWrapper.nowrite / seterr / try_connect: flags only -/

structure OpOk (c : Nat) (s : SockW) (w : MuxW) (m : MuxL) (e : ESock) (ok : Bool)
    (s' : SockW) (w' : MuxW) (m' : MuxL) (e' : ESock) (ok' : Bool) : Prop where
  src  : SrcStar c (SV s w m e) (SV s' w' m' e')
  sink : SinkStar (KV s w ok e) (KV s' w' ok' e')
  chan : w'.chan = w.chan
  env  : EnvKeeps e e'

theorem OpOk.refl (c : Nat) (s : SockW) (w : MuxW) (m : MuxL) (e : ESock) (ok : Bool) :
    OpOk c s w m e ok s w m e ok :=
  ⟨Star.refl _, Star.refl _, rfl, EnvKeeps.rfl' e⟩

theorem OpOk.trans {c : Nat} {s1 s2 s3 : SockW} {w1 w2 w3 : MuxW} {m1 m2 m3 : MuxL} {e1 e2 e3 : ESock}
    {o1 o2 o3 : Bool} (h1 : OpOk c s1 w1 m1 e1 o1 s2 w2 m2 e2 o2) (h2 : OpOk c s2 w2 m2 e2 o2 s3 w3 m3 e3 o3) :
    OpOk c s1 w1 m1 e1 o1 s3 w3 m3 e3 o3 :=
  ⟨h1.src.trans h2.src, h1.sink.trans h2.sink, h2.chan.trans h1.chan, h1.env.trans h2.env⟩

theorem nowrite_ok (c : Nat) (s : SockW) (w : MuxW) (m : MuxL) (e : ESock) (ok se : Bool) :
    OpOk c s w m e ok (s.nowrite e se).1 w m (s.nowrite e se).2 ok := by
  unfold SockW.nowrite
  by_cases hw : s.shutW = true
  · simp only [hw, ↓reduceIte]; exact OpOk.refl ..
  · have hw' : s.shutW = false := by simpa using hw
    simp only [hw', Bool.false_eq_true, ↓reduceIte]
    cases se with
    | true =>
      refine ⟨?_, ?_, rfl, ⟨rfl, rfl⟩⟩
      · apply srcStar_flags <;> flag_tac
      · apply sinkStar_flags <;> flag_tac
    | false =>
      refine ⟨?_, ?_, rfl, ⟨rfl, rfl⟩⟩
      · apply srcStar_flags <;> flag_tac
      · apply sinkStar_flags <;> flag_tac

theorem seterr_ok (c : Nat) (s : SockW) (w : MuxW) (m : MuxL) (e : ESock) (ok se : Bool) :
    OpOk c s w m e ok (s.seterr e se).1 w m (s.seterr e se).2 ok := by
  unfold SockW.seterr
  have h1 : OpOk c s w m e ok { s with exc := true } w m e ok := by
    refine ⟨?_, ?_, rfl, ⟨rfl, rfl⟩⟩
    · apply srcStar_flags <;> flag_tac
    · apply sinkStar_flags <;> flag_tac
  have h2 := nowrite_ok c { s with exc := true } w m e ok se
  have h3 : OpOk c (SockW.nowrite { s with exc := true } e se).1 w m (SockW.nowrite { s with exc := true } e se).2 ok
      (SockW.nowrite { s with exc := true } e se).1.noread w m (SockW.nowrite { s with exc := true } e se).2 ok := by
    refine ⟨?_, ?_, rfl, ⟨rfl, rfl⟩⟩
    · apply srcStar_flags <;> flag_tac
    · apply sinkStar_flags <;> flag_tac
  exact (h1.trans h2).trans h3

/-- An operation that moves no payload byte and queues no frame: only flags change. -/
theorem opOk_of_flags {c : Nat} {s s' : SockW} {w w' : MuxW} {m m' : MuxL} {e e' : ESock} {ok ok' : Bool}
    (hsb : s'.buf = s.buf) (hwb : w'.buf = w.buf) (hch : w'.chan = w.chan) (hout : m'.out = m.out)
    (hc : e'.consumed = e.consumed) (hpd : e'.pending = e.pending) (hd : e'.delivered = e.delivered)
    (hei : e'.eofIn = e.eofIn)
    (r1 : s.shutR = true → s'.shutR = true) (r2 : s.shutW = true → s'.shutW = true)
    (r3 : w.shutR = true → w'.shutR = true) (r4 : w'.shutW = w.shutW)
    (r5 : e.sawShut = true → e'.sawShut = true)
    (h4 : s'.shutW = true → s.shutW = true ∨ e'.sawShut = true)
    (h5 : w'.shutR = true → w.shutR = true ∨ s'.shutW = true)
    (h6 : ok' = false → ok = false ∨ s'.shutW = true) :
    OpOk c s w m e ok s' w' m' e' ok' := by
  refine ⟨?_, ?_, hch, ⟨by rw [hc, hpd], hei⟩⟩
  · apply srcStar_flags <;> simp_all [SV]
  · apply sinkStar_flags <;> simp_all [KV]

theorem tryConnect_facts (s : SockW) (e : ESock) (se : Bool) (cr : ConnRes) (s' : SockW) (e' : ESock)
    (h : s.tryConnect e cr se = .ok s' e') :
    s'.buf = s.buf ∧ e'.consumed = e.consumed ∧ e'.pending = e.pending ∧
      e'.delivered = e.delivered ∧ e'.eofIn = e.eofIn ∧ (s.shutR = true → s'.shutR = true) ∧
      (s.shutW = true → s'.shutW = true) ∧ (e.sawShut = true → e'.sawShut = true) ∧
      (s'.shutW = true → s.shutW = true ∨ e'.sawShut = true) := by
  unfold SockW.tryConnect at h
  simp only [SockW.seterr, SockW.nowrite, SockW.noread] at h
  cases cr <;> cases se <;> cases hc : s.connecting <;> cases hw : s.shutW <;> simp [hc, hw] at h
  all_goals (try split at h)
  all_goals (try split at h)
  all_goals (try split at h)
  all_goals (try split at h)
  all_goals (try split at h)
  all_goals (try split at h)
  all_goals (try (simp at h))
  all_goals (try (obtain ⟨rfl, rfl⟩ := h))
  all_goals (try simp_all)

theorem tryConnect_ok (c : Nat) (s : SockW) (w : MuxW) (m : MuxL) (e : ESock) (ok se : Bool)
    (cr : ConnRes) (s' : SockW) (e' : ESock) (h : s.tryConnect e cr se = .ok s' e') :
    OpOk c s w m e ok s' w m e' ok := by
  obtain ⟨f1, f2, f3, f4, f5, f6, f7, f8, f9⟩ := tryConnect_facts s e se cr s' e' h
  exact opOk_of_flags f1 rfl rfl rfl f2 f3 f4 f5 f6 f7 id rfl f8 f9 (fun h => Or.inl h) (fun h => Or.inl h)

/-! ### relational forms of the data-moving transitions -/

theorem srcStep_consume' (c : Nat) (a a' : SrcV) (x : Bytes) (hp : a.present = true) (hr : a.shutR = false)
    (h1 : a'.consumed = a.consumed ++ x) (h2 : a'.buf = a.buf ++ x) (h3 : a'.present = a.present)
    (h4 : a'.ever = a.ever) (h5 : a'.shutR = a.shutR) (h6 : a'.mwShutW = a.mwShutW) (h7 : a'.out = a.out)
    (h9 : a'.ownShutW = a.ownShutW) :
    SrcStep c false a a' := by
  have st := SrcStep.consume (c := c) (k := false) a x hp hr
  have e : ({ a with consumed := a.consumed ++ x, buf := a.buf ++ x } : SrcV) = a' := by
    cases a; cases a'; simp_all
  rw [e] at st; exact st

theorem srcStep_send' (c : Nat) (a a' : SrcV) (moved : Bytes) (hb : a.buf = moved ++ a'.buf) (hne : moved ≠ [])
    (hp : a.present = true) (ho : a'.out = a.out ++ [⟨c, DATA, moved⟩]) (h3 : a'.present = a.present)
    (h4 : a'.ever = a.ever) (h5 : a'.shutR = a.shutR) (h6 : a'.mwShutW = a.mwShutW)
    (h7 : a'.consumed = a.consumed) (h9 : a'.ownShutW = a.ownShutW) : SrcStep c false a a' := by
  have st := SrcStep.send (c := c) (k := false) a moved a'.buf hb hne hp
  have e : ({ a with buf := a'.buf, out := a.out ++ [⟨c, DATA, moved⟩] } : SrcV) = a' := by
    cases a; cases a'; simp_all
  rw [e] at st; exact st

theorem srcStep_eof' (c : Nat) (a a' : SrcV) (hp : a.present = true) (hb : a.buf = []) (hr : a.shutR = true)
    (hw : a.mwShutW = false) (hw' : a'.mwShutW = true) (ho : a'.out = a.out ++ [⟨c, EOF, []⟩])
    (h3 : a'.present = a.present) (h4 : a'.ever = a.ever) (h5 : a'.shutR = a.shutR) (h6 : a'.buf = a.buf)
    (h7 : a'.consumed = a.consumed) (h9 : a'.ownShutW = a.ownShutW) : SrcStep c false a a' := by
  have st := SrcStep.eof (c := c) (k := false) a hp hb hr hw
  have e : ({ a with mwShutW := true, out := a.out ++ [⟨c, EOF, []⟩] } : SrcV) = a' := by
    cases a; cases a'; simp_all
  rw [e] at st; exact st

theorem srcStep_stop' (c : Nat) (a a' : SrcV) (hp : a.present = true) (ho : a'.out = a.out ++ [⟨c, STOP, []⟩])
    (h3 : a'.present = a.present) (h4 : a'.ever = a.ever) (h5 : a'.shutR = a.shutR) (h6 : a'.buf = a.buf)
    (h7 : a'.consumed = a.consumed) (h8 : a'.mwShutW = a.mwShutW) (h9 : a'.ownShutW = a.ownShutW)
    (hs : a.ownShutW = true) : SrcStep c false a a' := by
  have st := SrcStep.stopFrame (c := c) (k := false) a hp hs
  have e : ({ a with out := a.out ++ [⟨c, STOP, []⟩] } : SrcV) = a' := by
    cases a; cases a'; simp_all
  rw [e] at st; exact st

theorem srcStep_discard' (c : Nat) (a a' : SrcV) (hp : a.present = true) (hb : a'.buf = []) (hr : a'.shutR = true)
    (h3 : a'.present = a.present) (h4 : a'.ever = a.ever) (h6 : a'.mwShutW = a.mwShutW) (h7 : a'.out = a.out)
    (h8 : a'.consumed = a.consumed) (h9 : a'.ownShutW = a.ownShutW) (hw : a.mwShutW = true) :
    SrcStep c false a a' := by
  have st := SrcStep.discard (c := c) (k := false) a hp hw
  have e : ({ a with buf := [], shutR := true } : SrcV) = a' := by
    cases a; cases a'; simp_all
  rw [e] at st; exact st

theorem sinkStep_deliver' (b b' : SinkV) (moved : Bytes) (hb : b.buf = moved ++ b'.buf)
    (hs : moved ≠ [] → b.sawShut = false) (hd : b'.delivered = b.delivered ++ moved)
    (h1 : b'.present = b.present) (h2 : b'.ever = b.ever) (h3 : b'.mwShutR = b.mwShutR)
    (h4 : b'.swShutW = b.swShutW) (h5 : b'.ok = b.ok) (h6 : b'.sawShut = b.sawShut) : SinkStep b b' := by
  have st := SinkStep.deliver b moved b'.buf hb hs
  have e : ({ b with buf := b'.buf, delivered := b.delivered ++ moved } : SinkV) = b' := by
    cases b; cases b'; simp_all
  rw [e] at st; exact st

theorem sinkStep_discard' (b b' : SinkV) (hw : b.swShutW = true) (hb : b'.buf = [])
    (hd : b'.delivered = b.delivered) (h1 : b'.present = b.present) (h2 : b'.ever = b.ever)
    (h3 : b'.mwShutR = b.mwShutR) (h4 : b'.swShutW = b.swShutW) (h5 : b'.ok = b.ok)
    (h6 : b'.sawShut = b.sawShut) : SinkStep b b' := by
  have st := SinkStep.discard b hw
  have e : ({ b with buf := [] } : SinkV) = b' := by
    cases b; cases b'; simp_all
  rw [e] at st; exact st

/-! ### SockWrapper.fill -/

theorem fill_ok (c : Nat) (s : SockW) (w : MuxW) (m : MuxL) (e : ESock) (ok se : Bool) (r : RecvRes) :
    OpOk c s w m e ok (s.fill e r se).1 w m (s.fill e r se).2 ok := by
  unfold SockW.fill
  by_cases hb : s.buf.isEmpty = true
  · simp only [hb, Bool.not_true, Bool.false_eq_true, ↓reduceIte]
    by_cases hc : s.connecting = true
    · simp only [hc, ↓reduceIte]; exact OpOk.refl ..
    · simp only [hc, Bool.false_eq_true, ↓reduceIte]
      by_cases hr : s.shutR = true
      · simp only [hr, ↓reduceIte]; exact OpOk.refl ..
      · have hr' : s.shutR = false := by simpa using hr
        simp only [hr', Bool.false_eq_true, ↓reduceIte]
        have hbuf : s.buf = [] := List.isEmpty_iff.mp hb
        unfold ESock.recv
        cases r with
        | err =>
          simp only
          have := seterr_ok c s w m e ok se
          refine this.trans ?_
          refine ⟨?_, ?_, rfl, ⟨rfl, rfl⟩⟩
          · apply srcStar_flags <;> flag_tac
          · apply sinkStar_flags <;> flag_tac
        | eagain => simp only; exact OpOk.refl ..
        | data n =>
          simp only
          by_cases hp : e.pending.isEmpty = true
          · simp only [hp, ↓reduceIte]
            by_cases he : e.eofIn = true
            · simp only [he, ↓reduceIte, List.isEmpty_nil]
              refine ⟨?_, ?_, rfl, ⟨rfl, rfl⟩⟩
              · apply srcStar_flags <;> flag_tac
              · apply sinkStar_flags <;> flag_tac
            · simp only [he, Bool.false_eq_true, ↓reduceIte]; exact OpOk.refl ..
          · simp only [hp, Bool.false_eq_true, ↓reduceIte]
            have hne : e.pending ≠ [] := by
              intro h; rw [h] at hp; simp at hp
            have htake : (e.pending.take (max n 1)).isEmpty = false := by
              cases hpend : e.pending with
              | nil => exact absurd hpend hne
              | cons y ys =>
                have : max n 1 = (max n 1 - 1) + 1 := by omega
                rw [this]; simp
            simp only [htake, Bool.false_eq_true, ↓reduceIte]
            refine ⟨?_, ?_, rfl, ⟨?_, rfl⟩⟩
            · apply Star.single
              apply srcStep_consume' c _ _ (e.pending.take (max n 1)) rfl hr' <;> simp [SV, hbuf, hr']
            · apply sinkStar_flags <;> flag_tac
            · simp [List.take_append_drop]
  · simp only [hb, Bool.not_false, ↓reduceIte]; exact OpOk.refl ..

/-! ### SockWrapper.copy_to(MuxWrapper) -/

theorem cut_pos : 0 < Generated.MUX_CUT := by decide

theorem sockCopyToMux_facts (s : SockW) (w : MuxW) (m : MuxL) :
    let r := sockCopyToMux s w m
    let eof := r.1.buf.isEmpty && r.1.shutR && !w.shutW
    ∃ moved, s.buf.flatten = moved ++ r.1.buf.flatten ∧
      r.2.2.out = m.out ++ (if moved = [] then [] else [⟨w.chan, DATA, moved⟩]) ++
                    (if eof then [⟨w.chan, EOF, []⟩] else []) ∧
      r.1.shutR = s.shutR ∧ r.1.shutW = s.shutW ∧ r.2.1.buf = w.buf ∧ r.2.1.shutR = w.shutR ∧
      r.2.1.chan = w.chan ∧ r.2.1.shutW = (w.shutW || eof) := by
  intro r eof
  -- first stage: the write of buf[0]
  have stage1 : ∃ (moved : Bytes) (s1 : SockW) (m1 : MuxL), s.buf.flatten = moved ++ s1.buf.flatten ∧
      m1.out = m.out ++ (if moved = [] then [] else [⟨w.chan, DATA, moved⟩]) ∧
      s1.shutR = s.shutR ∧ s1.shutW = s.shutW ∧
      r = (if (popEmpty s1.buf).isEmpty && s1.shutR then
            ({ s1 with buf := popEmpty s1.buf }, (w.nowrite m1).1, (w.nowrite m1).2)
           else ({ s1 with buf := popEmpty s1.buf }, w, m1)) := by
    show ∃ (moved : Bytes) (s1 : SockW) (m1 : MuxL), _ ∧ _ ∧ _ ∧ _ ∧ sockCopyToMux s w m = _
    unfold sockCopyToMux
    cases hb : s.buf with
    | nil => exact ⟨[], s, m, by simp [hb], by simp, rfl, rfl, by simp [hb]⟩
    | cons b rest =>
      by_cases hbe : b.isEmpty = true
      · exact ⟨[], s, m, by simp [hb], by simp, rfl, rfl, by simp [hb, hbe]⟩
      · have hbe' : b.isEmpty = false := by simpa using hbe
        by_cases htf : m.tooFull = true
        · refine ⟨[], { s with buf := b.drop 0 :: rest }, m, by simp [hb], by simp, rfl, rfl, ?_⟩
          simp [hbe', MuxW.uwrite, htf]
        · have htf' : m.tooFull = false := by simpa using htf
          have hne : b.take Generated.MUX_CUT ≠ [] := by
            intro h
            have hb0 : b ≠ [] := by intro h0; rw [h0] at hbe'; simp at hbe'
            rcases List.take_eq_nil_iff.mp h with h1 | h1
            · have := cut_pos; omega
            · exact hb0 h1
          refine ⟨b.take Generated.MUX_CUT,
            { s with buf := b.drop (b.take Generated.MUX_CUT).length :: rest },
            m.send w.chan Generated.CMD_TCP_DATA (b.take Generated.MUX_CUT), ?_, ?_, rfl, rfl, ?_⟩
          · simp only [hb, List.flatten_cons, List.length_take]
            rw [← List.append_assoc]
            congr 1
            have : b.drop (min Generated.MUX_CUT b.length) = b.drop Generated.MUX_CUT := by
              by_cases hl : Generated.MUX_CUT ≤ b.length
              · rw [Nat.min_eq_left hl]
              · rw [Nat.min_eq_right (by omega), List.drop_of_length_le (by omega), List.drop_of_length_le (by omega)]
            rw [this, List.take_append_drop]
          · simp [MuxL.send, hne]
          · simp [hbe', MuxW.uwrite, htf']
  obtain ⟨moved, s1, m1, h1, h2, h3, h4, hr⟩ := stage1
  refine ⟨moved, ?_⟩
  have hpf := popEmpty_flatten s1.buf
  by_cases hc : ((popEmpty s1.buf).isEmpty && s1.shutR) = true
  · rw [if_pos hc] at hr
    have hr1 : r.1 = { s1 with buf := popEmpty s1.buf } := by rw [hr]
    have hr2 : r.2.1 = (w.nowrite m1).1 := by rw [hr]
    have hr3 : r.2.2 = (w.nowrite m1).2 := by rw [hr]
    have heof : eof = !w.shutW := by
      show (r.1.buf.isEmpty && r.1.shutR && !w.shutW) = !w.shutW
      rw [hr1]; simp only; rw [hc]; simp
    rw [heof, hr1, hr2, hr3]
    simp only
    unfold MuxW.nowrite
    cases hw : w.shutW with
    | true => simp [hpf, h1, h2, h3, h4, hw]
    | false => simp [hpf, h1, h2, h3, h4, hw, MuxL.send]
  · rw [if_neg hc] at hr
    have hr1 : r.1 = { s1 with buf := popEmpty s1.buf } := by rw [hr]
    have hr2 : r.2.1 = w := by rw [hr]
    have hr3 : r.2.2 = m1 := by rw [hr]
    have heof : eof = false := by
      show (r.1.buf.isEmpty && r.1.shutR && !w.shutW) = false
      rw [hr1]; simp only
      have : ((popEmpty s1.buf).isEmpty && s1.shutR) = false := by simpa using hc
      rw [this]; simp
    rw [heof, hr1, hr2, hr3]
    simp [hpf, h1, h2, h3, h4]

theorem sockCopyToMux_ok (s : SockW) (w : MuxW) (m : MuxL) (e : ESock) (ok : Bool) :
    OpOk w.chan s w m e ok (sockCopyToMux s w m).1 (sockCopyToMux s w m).2.1 (sockCopyToMux s w m).2.2 e ok := by
  obtain ⟨moved, h1, h2, h3, h4, h5, h6, h7, h8⟩ := sockCopyToMux_facts s w m
  generalize sockCopyToMux s w m = r at *
  obtain ⟨s', w', m'⟩ := r
  simp only at h1 h2 h3 h4 h5 h6 h7 h8 ⊢
  refine ⟨?_, ?_, h7, EnvKeeps.rfl' e⟩
  · -- source view: an optional DATA frame, then an optional EOF
    let a1 : SrcV := { present := true, ever := true, buf := s'.buf.flatten, shutR := s.shutR,
                       mwShutW := w.shutW, ownShutW := s.shutW,
                       out := m.out ++ (if moved = [] then [] else [⟨w.chan, DATA, moved⟩]),
                       consumed := e.consumed }
    have st1 : SrcStar w.chan (SV s w m e) a1 := by
      by_cases hm : moved = []
      · have : a1 = SV s w m e := by
          simp only [a1, SV, hm, ↓reduceIte, List.append_nil]
          rw [h1, hm]; simp
        rw [this]; exact Star.refl _
      · apply Star.single
        apply srcStep_send' w.chan _ a1 moved <;> simp [a1, SV, h1, hm]
    refine st1.trans ?_
    by_cases he : (s'.buf.isEmpty && s'.shutR && !w.shutW) = true
    · simp only [Bool.and_eq_true, Bool.not_eq_eq_eq_not, Bool.not_true] at he
      obtain ⟨⟨hb, hr⟩, hw⟩ := he
      apply Star.single
      apply srcStep_eof' w.chan a1 _ <;>
        simp_all [a1, SV, List.isEmpty_iff]
    · have he' : (s'.buf.isEmpty && s'.shutR && !w.shutW) = false := by simpa using he
      have : SV s' w' m' e = a1 := by
        rw [h3] at he'
        simp only [a1, SV, h2, h8, h3, h4, he', Bool.or_false, Bool.false_eq_true, ↓reduceIte, List.append_nil]
      rw [this]; exact Star.refl _
  · apply sinkStar_flags <;> simp_all [KV]

/-! ### MuxWrapper.copy_to(SockWrapper) -/

theorem uwrite_ok (c : Nat) (s : SockW) (m : MuxL) (e : ESock) (ok se : Bool) (b : Bytes)
    (r : SendRes) :
    ∃ k, k ≤ b.length ∧ (k ≠ 0 → e.sawShut = false) ∧
      ((s.uwrite e b r se).1 = some k ∨ ((s.uwrite e b r se).1 = none ∧ k = 0)) ∧
      ∀ w : MuxW, OpOk c s w m { e with delivered := e.delivered ++ b.take k } ok
        (s.uwrite e b r se).2.1 w m (s.uwrite e b r se).2.2 ok := by
  unfold SockW.uwrite
  by_cases hc : s.connecting = true
  · simp only [hc, ↓reduceIte]
    refine ⟨0, by simp, by simp, Or.inl rfl, fun w => ?_⟩
    simp only [List.take_zero, List.append_nil]; exact OpOk.refl ..
  · simp only [hc, Bool.false_eq_true, ↓reduceIte]
    generalize hr' : (if e.sawShut = true then (match r with | .err => SendRes.err | _ => SendRes.epipe) else r) = r'
    have hshut : e.sawShut = true → r' = .err ∨ r' = .epipe := by
      intro hs; rw [← hr', if_pos hs]; cases r <;> simp
    cases r' with
    | sent n =>
      simp only
      refine ⟨min n b.length, Nat.min_le_right _ _, ?_, Or.inl rfl, fun w => OpOk.refl ..⟩
      intro _
      cases hs : e.sawShut with
      | false => rfl
      | true => rcases hshut hs with h | h <;> cases h
    | eagain =>
      simp only
      refine ⟨0, by simp, by simp, by simp, fun w => ?_⟩
      simp only [List.take_zero, List.append_nil]; exact OpOk.refl ..
    | epipe =>
      simp only
      refine ⟨0, by simp, by simp, Or.inl rfl, fun w => ?_⟩
      simp only [List.take_zero, List.append_nil]
      exact nowrite_ok c s w m e ok se
    | err =>
      simp only
      refine ⟨0, by simp, by simp, Or.inl rfl, fun w => ?_⟩
      simp only [List.take_zero, List.append_nil]
      exact seterr_ok c s w m e ok se

theorem muxCopyToSock_ok (c : Nat) (w : MuxW) (s : SockW) (m : MuxL) (e : ESock) (ok se : Bool) (r : SendRes) :
    OpOk c s w m e ok (muxCopyToSock w s e r se).2.1 (muxCopyToSock w s e r se).1 m
      (muxCopyToSock w s e r se).2.2 ok := by
  -- stage 1: the write of buf[0]
  have stage1 : ∃ (w1 : MuxW) (s1 : SockW) (e1 : ESock),
      OpOk c s w m e ok s1 w1 m e1 ok ∧ w1.shutR = w.shutR ∧ w1.shutW = w.shutW ∧ w1.chan = w.chan ∧
      muxCopyToSock w s e r se =
        (if (popEmpty w1.buf).isEmpty && w1.shutR then
           ({ w1 with buf := popEmpty w1.buf }, (s1.nowrite e1 se).1, (s1.nowrite e1 se).2)
         else ({ w1 with buf := popEmpty w1.buf }, s1, e1)) := by
    unfold muxCopyToSock
    cases hb : w.buf with
    | nil => exact ⟨w, s, e, OpOk.refl .., rfl, rfl, rfl, by simp [hb]⟩
    | cons b rest =>
      by_cases hbe : b.isEmpty = true
      · exact ⟨w, s, e, OpOk.refl .., rfl, rfl, rfl, by simp [hb, hbe]⟩
      · have hbe' : b.isEmpty = false := by simpa using hbe
        obtain ⟨k, hk, hsaw, hret, hop⟩ := uwrite_ok c s m e ok se b r
        -- the delivery step: `k` bytes of buf[0] go to the endpoint
        have hdel : OpOk c s w m e ok s { w with buf := b.drop k :: rest } m
            { e with delivered := e.delivered ++ b.take k } ok := by
          refine ⟨?_, ?_, rfl, ⟨rfl, rfl⟩⟩
          · apply srcStar_flags <;> flag_tac
          · apply Star.single
            apply sinkStep_deliver' _ _ (b.take k) <;> simp [KV, hb]
            · rw [← List.append_assoc, List.take_append_drop]
            · intro h _
              exact hsaw h
        rcases hret with hret | ⟨hret, hk0⟩
        · refine ⟨{ w with buf := b.drop k :: rest }, (s.uwrite e b r se).2.1, (s.uwrite e b r se).2.2,
            hdel.trans (hop _), rfl, rfl, rfl, ?_⟩
          simp only [hbe', Bool.false_eq_true, ↓reduceIte]
          generalize SockW.uwrite s e b r se = x at hret hop ⊢
          obtain ⟨x1, x2, x3⟩ := x
          simp only at hret; subst hret
          simp
        · subst hk0
          refine ⟨w, (s.uwrite e b r se).2.1, (s.uwrite e b r se).2.2, ?_, rfl, rfl, rfl, ?_⟩
          · have h0 := hop w
            simp only [List.take_zero, List.append_nil] at h0
            exact h0
          · simp only [hbe', Bool.false_eq_true, ↓reduceIte]
            generalize SockW.uwrite s e b r se = x at hret hop ⊢
            obtain ⟨x1, x2, x3⟩ := x
            simp only at hret; subst hret
            simp [hb]
  obtain ⟨w1, s1, e1, hop, hr1, hr2, hr3, heq⟩ := stage1
  rw [heq]
  have hpop : OpOk c s1 w1 m e1 ok s1 { w1 with buf := popEmpty w1.buf } m e1 ok := by
    refine ⟨?_, ?_, rfl, ⟨rfl, rfl⟩⟩
    · apply srcStar_flags <;> flag_tac
    · apply sinkStar_flags <;> first | (intro h; exact Or.inl h) | simp [KV, popEmpty_flatten]
  split
  · simp only
    exact (hop.trans hpop).trans (nowrite_ok c s1 _ m e1 ok se)
  · simp only
    exact hop.trans hpop

/-! ### the tail of Proxy.callback, Proxy.pre_select -/

/-- OpOk stated on proxies. -/
def POk (p : ProxyS) (m : MuxL) (e : ESock) (p' : ProxyS) (m' : MuxL) (e' : ESock) : Prop :=
  OpOk p.mw.chan p.sw p.mw m e p.ok p'.sw p'.mw m' e' p'.ok ∧ p'.sockFirst = p.sockFirst

theorem POk.refl (p : ProxyS) (m : MuxL) (e : ESock) : POk p m e p m e := ⟨OpOk.refl .., rfl⟩

theorem POk.trans {p1 p2 p3 : ProxyS} {m1 m2 m3 : MuxL} {e1 e2 e3 : ESock}
    (h1 : POk p1 m1 e1 p2 m2 e2) (h2 : POk p2 m2 e2 p3 m3 e3) : POk p1 m1 e1 p3 m3 e3 := by
  refine ⟨h1.1.trans ?_, h2.2.trans h1.2⟩
  have := h2.1
  rw [h1.1.chan] at this
  exact this

theorem mwNoread_ok (c : Nat) (s : SockW) (w : MuxW) (m : MuxL) (e : ESock) (ok : Bool) (hc : w.chan = c)
    (hs : s.shutW = true) :
    OpOk c s w m e ok s (w.noread m).1 (w.noread m).2 e ok := by
  unfold MuxW.noread
  by_cases hr : w.shutR = true
  · simp only [hr, ↓reduceIte]; exact OpOk.refl ..
  · have hr' : w.shutR = false := by simpa using hr
    simp only [hr', Bool.false_eq_true, ↓reduceIte]
    refine ⟨?_, ?_, rfl, ⟨rfl, rfl⟩⟩
    · apply Star.single
      apply srcStep_stop' c _ _ rfl <;> simp [SV, MuxL.send, hc, STOP, hs]
    · apply sinkStar_flags <;> simp_all [KV]

theorem mwNowrite_ok (c : Nat) (s : SockW) (w : MuxW) (m : MuxL) (e : ESock) (ok : Bool) (hc : w.chan = c)
    (hb : s.buf.flatten = []) (hr : s.shutR = true) :
    OpOk c s w m e ok s (w.nowrite m).1 (w.nowrite m).2 e ok := by
  unfold MuxW.nowrite
  by_cases hw : w.shutW = true
  · simp only [hw, ↓reduceIte]; exact OpOk.refl ..
  · have hw' : w.shutW = false := by simpa using hw
    simp only [hw', Bool.false_eq_true, ↓reduceIte]
    refine ⟨?_, ?_, rfl, ⟨rfl, rfl⟩⟩
    · apply Star.single
      apply srcStep_eof' c _ _ rfl <;> simp [SV, MuxL.send, hc, EOF, hb, hr, hw']
    · apply sinkStar_flags <;> simp_all [KV]

theorem dropSock_ok (p : ProxyS) (m : MuxL) (e : ESock) : POk p m e p.dropSock m e := by
  unfold ProxyS.dropSock
  split
  next hcond =>
    simp only [Bool.and_eq_true] at hcond
    refine ⟨⟨?_, ?_, rfl, ⟨rfl, rfl⟩⟩, rfl⟩
    · apply Star.single
      apply srcStep_discard' _ _ _ rfl <;> simp [SV, SockW.noread, hcond.2]
    · apply sinkStar_flags <;> flag_tac
  · exact POk.refl ..

theorem dropMux_ok (p : ProxyS) (m : MuxL) (e : ESock) : POk p m e (p.dropMux m).1 (p.dropMux m).2 e := by
  unfold ProxyS.dropMux
  split
  next h =>
    simp only [Bool.and_eq_true] at h
    have h1 : POk p m e { p with mw := { p.mw with buf := [] } } m e := by
      refine ⟨⟨?_, ?_, rfl, ⟨rfl, rfl⟩⟩, rfl⟩
      · apply srcStar_flags <;> flag_tac
      · apply Star.single
        apply sinkStep_discard' _ _ (by simp [KV, h.2]) <;> simp [KV]
    refine h1.trans ⟨?_, rfl⟩
    exact mwNoread_ok _ p.sw { p.mw with buf := [] } m e p.ok rfl h.2
  · exact POk.refl ..

theorem finish_ok (p : ProxyS) (m : MuxL) (e : ESock) (se : Bool) :
    POk p m e (p.finish m e se).1 (p.finish m e se).2.1 (p.finish m e se).2.2 := by
  unfold ProxyS.finish
  split
  next h =>
    simp only [Bool.and_eq_true] at h
    obtain ⟨⟨⟨hsr, hmr⟩, hsb⟩, hmb⟩ := h
    have hsb' : p.sw.buf.flatten = [] := by rw [List.isEmpty_iff.mp hsb]; rfl
    -- both orders give the same state; go sock-nowrite, mux-nowrite, ok := false
    have hA := nowrite_ok p.mw.chan p.sw p.mw m e p.ok se
    have hsw : (p.sw.nowrite e se).1.buf.flatten = [] := by
      unfold SockW.nowrite; split <;> (try split) <;> simp [hsb']
    have hsr2 : (p.sw.nowrite e se).1.shutR = true := by
      unfold SockW.nowrite; split <;> (try split) <;> simp [hsr]
    have hsw2 : (p.sw.nowrite e se).1.shutW = true := by
      unfold SockW.nowrite; split <;> (try split) <;> simp_all
    have hB := mwNowrite_ok p.mw.chan (p.sw.nowrite e se).1 p.mw m (p.sw.nowrite e se).2 p.ok rfl hsw hsr2
    have hC : OpOk p.mw.chan (p.sw.nowrite e se).1 (p.mw.nowrite m).1 (p.mw.nowrite m).2 (p.sw.nowrite e se).2 p.ok
        (p.sw.nowrite e se).1 (p.mw.nowrite m).1 (p.mw.nowrite m).2 (p.sw.nowrite e se).2 false := by
      refine ⟨Star.refl _, ?_, rfl, ⟨rfl, rfl⟩⟩
      apply sinkStar_flags <;> simp_all [KV]
    have hall := (hA.trans hB).trans hC
    split <;> exact ⟨hall, rfl⟩
  · exact POk.refl ..

theorem preSelect_ok (p : ProxyS) (m : MuxL) (e : ESock) :
    POk p m e (p.preSelectFlags m).1 (p.preSelectFlags m).2 e := by
  unfold ProxyS.preSelectFlags
  have hsn : ∀ (s : SockW) (w : MuxW) (b : Bool) (ok : Bool) (m : MuxL),
      OpOk w.chan s w m e ok (if b then s.noread else s) w m e ok := by
    intro s w b ok m
    cases b
    · exact OpOk.refl ..
    · refine ⟨?_, ?_, rfl, ⟨rfl, rfl⟩⟩
      · apply srcStar_flags <;> flag_tac
      · apply sinkStar_flags <;> flag_tac
  have hmn : ∀ (s : SockW) (w : MuxW) (ok : Bool) (m : MuxL),
      OpOk w.chan s w m e ok s (if s.shutW then w.noread m else (w, m)).1
        (if s.shutW then w.noread m else (w, m)).2 e ok := by
    intro s w ok m
    cases hs : s.shutW
    · exact OpOk.refl ..
    · exact mwNoread_ok _ s w m e ok rfl hs
  obtain ⟨psw, pmw, pok, sf⟩ := p
  cases sf
  case true =>
    simp only [↓reduceIte]
    refine ⟨?_, rfl⟩
    have h1 := hmn psw pmw pok m
    have hch : (if psw.shutW then pmw.noread m else (pmw, m)).1.chan = pmw.chan := h1.chan
    have h2 := hsn psw (if psw.shutW then pmw.noread m else (pmw, m)).1
      (if psw.shutW then pmw.noread m else (pmw, m)).1.shutW pok
      (if psw.shutW then pmw.noread m else (pmw, m)).2
    rw [hch] at h2
    exact h1.trans h2
  case false =>
    simp only [Bool.false_eq_true, ↓reduceIte]
    refine ⟨?_, rfl⟩
    have h1 := hsn psw pmw pmw.shutW pok m
    have h2 := hmn (if pmw.shutW then psw.noread else psw) pmw pok m
    exact h1.trans h2

/-- **One whole `Proxy.callback`** is a sequence of abstract source transitions on the proxy's
source view and of abstract sink transitions on its sink view. -/
theorem cleanup_ok (p : ProxyS) (m : MuxL) (e : ESock) (se : Bool) :
    POk p m e (p.cleanup m e se).1 (p.cleanup m e se).2.1 (p.cleanup m e se).2.2 := by
  unfold ProxyS.cleanup
  by_cases hf : p.sockFirst = true
  · simp only [hf, ↓reduceIte]
    exact (((dropSock_ok p m e).trans (dropMux_ok p.dropSock m e)).trans (preSelect_ok _ _ e)).trans (finish_ok _ _ e se)
  · simp only [hf, Bool.false_eq_true, ↓reduceIte]
    exact (((dropMux_ok p m e).trans (dropSock_ok (p.dropMux m).1 (p.dropMux m).2 e)).trans (preSelect_ok _ _ e)).trans (finish_ok _ _ e se)

theorem callback_ok (p : ProxyS) (m : MuxL) (e : ESock) (io : CbIo) (p' : ProxyS) (m' : MuxL) (e' : ESock)
    (h : p.callback m e io = .ok p' m' e') : POk p m e p' m' e' := by
  obtain ⟨psw, pmw, pok, sf⟩ := p
  generalize hp : ({ sw := psw, mw := pmw, ok := pok, sockFirst := sf } : ProxyS) = p at h ⊢
  have hsf : p.sockFirst = sf := by rw [← hp]
  unfold ProxyS.callback at h
  cases htc : p.sw.tryConnect e io.conn io.shutErr with
  | died => rw [htc] at h; cases h
  | ok s0 e0 =>
    rw [htc] at h
    simp only at h
    have h0 : POk p m e { p with sw := s0 } m e0 :=
      ⟨tryConnect_ok _ p.sw p.mw m e p.ok io.shutErr io.conn s0 e0 htc, rfl⟩
    have h1 : POk { p with sw := s0 } m e0 { p with sw := (s0.fill e0 io.recv io.shutErr).1 } m
        (s0.fill e0 io.recv io.shutErr).2 :=
      ⟨fill_ok _ s0 p.mw m e0 p.ok io.shutErr io.recv, rfl⟩
    generalize s0.fill e0 io.recv io.shutErr = f at h h1
    obtain ⟨s1, e1⟩ := f
    simp only at h h1
    cases sf
    case true =>
      have hf : p.sockFirst = true := hsf
      have hpe : ∀ (a : SockW) (b : MuxW), ({ p with sw := a, mw := b } : ProxyS) =
          { sw := a, mw := b, ok := p.ok, sockFirst := true } := by
        intro a b; rw [← hf]
      simp only [hf, ↓reduceIte] at h
      have h2 : POk { p with sw := s1 } m e1
          { p with sw := (sockCopyToMux s1 p.mw m).1, mw := (sockCopyToMux s1 p.mw m).2.1 }
          (sockCopyToMux s1 p.mw m).2.2 e1 :=
        ⟨sockCopyToMux_ok s1 p.mw m e1 p.ok, rfl⟩
      generalize sockCopyToMux s1 p.mw m = g at h h2
      obtain ⟨s2, w2, m2⟩ := g
      simp only at h h2
      have h3 : POk { p with sw := s2, mw := w2 } m2 e1
          { p with sw := (muxCopyToSock w2 s2 e1 io.send io.shutErr).2.1,
                   mw := (muxCopyToSock w2 s2 e1 io.send io.shutErr).1 } m2
          (muxCopyToSock w2 s2 e1 io.send io.shutErr).2.2 :=
        ⟨muxCopyToSock_ok _ w2 s2 m2 e1 p.ok io.shutErr io.send, rfl⟩
      generalize muxCopyToSock w2 s2 e1 io.send io.shutErr = k at h h3
      obtain ⟨w3, s3, e3⟩ := k
      simp only at h h3
      have h4 := cleanup_ok { p with sw := s3, mw := w3 } m2 e3 io.shutErr
      simp only [hf] at h0 h1 h2 h3 h4
      injection h with hp' hm he
      subst hp' hm he
      exact (((h0.trans h1).trans h2).trans h3).trans h4
    case false =>
      have hf : p.sockFirst = false := hsf
      have hpe : ∀ (a : SockW) (b : MuxW), ({ p with sw := a, mw := b } : ProxyS) =
          { sw := a, mw := b, ok := p.ok, sockFirst := false } := by
        intro a b; rw [← hf]
      simp only [hf, Bool.false_eq_true, ↓reduceIte] at h
      have h2 : POk { p with sw := s1 } m e1
          { p with sw := (muxCopyToSock p.mw s1 e1 io.send io.shutErr).2.1,
                   mw := (muxCopyToSock p.mw s1 e1 io.send io.shutErr).1 } m
          (muxCopyToSock p.mw s1 e1 io.send io.shutErr).2.2 :=
        ⟨muxCopyToSock_ok _ p.mw s1 m e1 p.ok io.shutErr io.send, rfl⟩
      generalize muxCopyToSock p.mw s1 e1 io.send io.shutErr = k at h h2
      obtain ⟨w2, s2, e2⟩ := k
      simp only at h h2
      have hch : w2.chan = p.mw.chan := h2.1.chan
      have h3 : POk { p with sw := s2, mw := w2 } m e2
          { p with sw := (sockCopyToMux s2 w2 m).1, mw := (sockCopyToMux s2 w2 m).2.1 }
          (sockCopyToMux s2 w2 m).2.2 e2 :=
        ⟨sockCopyToMux_ok s2 w2 m e2 p.ok, rfl⟩
      generalize sockCopyToMux s2 w2 m = g at h h3
      obtain ⟨s3, w3, m3⟩ := g
      simp only at h h3
      have h4 := cleanup_ok { p with sw := s3, mw := w3 } m3 e2 io.shutErr
      simp only [hf] at h0 h1 h2 h3 h4
      injection h with hp' hm he
      subst hp' hm he
      exact (((h0.trans h1).trans h2).trans h3).trans h4

end Sshuttle.Tunnel
