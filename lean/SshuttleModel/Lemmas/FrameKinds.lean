/-
The frames one proxy queues are TCP_DATA, TCP_EOF or TCP_STOP_SENDING frames — nothing else.
Used by Props/C08 (`C08_no_death`): a TCP wrapper is only ever sent commands it understands.
-/
import SshuttleModel.Lemmas.WrapGrows

namespace Sshuttle.Tunnel
open Sshuttle.Mux (Frame)
open Sshuttle.Wrap

def streamKind (cmd : Nat) : Prop := cmd = DATA ∨ cmd = EOF ∨ cmd = STOP

def Kinds (m m' : MuxL) : Prop := ∃ extra, m'.out = m.out ++ extra ∧ ∀ fr ∈ extra, streamKind fr.cmd

theorem Kinds.refl (m : MuxL) : Kinds m m := ⟨[], by simp, by simp⟩

theorem Kinds.trans {m1 m2 m3 : MuxL} (h1 : Kinds m1 m2) (h2 : Kinds m2 m3) : Kinds m1 m3 := by
  obtain ⟨x1, a1, a2⟩ := h1
  obtain ⟨x2, b1, b2⟩ := h2
  refine ⟨x1 ++ x2, by rw [b1, a1, List.append_assoc], ?_⟩
  intro fr hfr
  rcases List.mem_append.mp hfr with h | h
  · exact a2 fr h
  · exact b2 fr h

theorem kinds_send (m : MuxL) (c cmd : Nat) (d : Bytes) (h : streamKind cmd) : Kinds m (m.send c cmd d) :=
  ⟨[⟨c, cmd, d⟩], rfl, by intro fr hfr; simp only [List.mem_singleton] at hfr; rw [hfr]; exact h⟩

theorem kinds_mwNoread (w : MuxW) (m : MuxL) : Kinds m (w.noread m).2 := by
  unfold MuxW.noread; split
  · exact Kinds.refl m
  · exact kinds_send m _ _ _ (Or.inr (Or.inr rfl))

theorem kinds_mwNowrite (w : MuxW) (m : MuxL) : Kinds m (w.nowrite m).2 := by
  unfold MuxW.nowrite; split
  · exact Kinds.refl m
  · exact kinds_send m _ _ _ (Or.inr (Or.inl rfl))

theorem kinds_uwrite (w : MuxW) (m : MuxL) (b : Bytes) : Kinds m (w.uwrite m b).2 := by
  unfold MuxW.uwrite
  split
  · exact Kinds.refl m
  · exact kinds_send m _ _ _ (Or.inl rfl)

theorem kinds_sockCopyToMux (s : SockW) (w : MuxW) (m : MuxL) : Kinds m (sockCopyToMux s w m).2.2 := by
  have tail : ∀ (s1 : SockW) (m1 : MuxL), Kinds m m1 →
      Kinds m
        (if (popEmpty s1.buf).isEmpty && s1.shutR then
           (({ s1 with buf := popEmpty s1.buf } : SockW), (w.nowrite m1).1, (w.nowrite m1).2)
         else (({ s1 with buf := popEmpty s1.buf } : SockW), w, m1)).2.2 := by
    intro s1 m1 h
    split
    · exact h.trans (kinds_mwNowrite w m1)
    · exact h
  unfold sockCopyToMux
  cases hb : s.buf with
  | nil => exact tail s m (Kinds.refl m)
  | cons b rest =>
    by_cases hbe : b.isEmpty = true
    · simp only [hbe, ↓reduceIte]; exact tail s m (Kinds.refl m)
    · simp only [hbe, Bool.false_eq_true, ↓reduceIte]
      exact tail { s with buf := b.drop (w.uwrite m b).1 :: rest } _ (kinds_uwrite w m b)

theorem kinds_dropMux (p : ProxyS) (m : MuxL) : Kinds m (p.dropMux m).2 := by
  unfold ProxyS.dropMux; split
  · exact kinds_mwNoread { p.mw with buf := [] } m
  · exact Kinds.refl m

theorem kinds_finish (p : ProxyS) (m : MuxL) (e : ESock) (se : Bool) : Kinds m (p.finish m e se).2.1 := by
  unfold ProxyS.finish; split
  · split <;> exact kinds_mwNowrite p.mw m
  · exact Kinds.refl m

theorem kinds_preSelect (p : ProxyS) (m : MuxL) : Kinds m (p.preSelectFlags m).2 := by
  unfold ProxyS.preSelectFlags
  by_cases hf : p.sockFirst = true
  · simp only [hf, ↓reduceIte]
    split
    · exact kinds_mwNoread p.mw m
    · exact Kinds.refl m
  · simp only [hf, Bool.false_eq_true, ↓reduceIte]
    by_cases hs : (if p.mw.shutW = true then p.sw.noread else p.sw).shutW = true
    · rw [if_pos hs]; exact kinds_mwNoread p.mw m
    · rw [if_neg hs]; exact Kinds.refl m

theorem kinds_cleanup (p : ProxyS) (m : MuxL) (e : ESock) (se : Bool) : Kinds m (p.cleanup m e se).2.1 := by
  unfold ProxyS.cleanup
  by_cases hf : p.sockFirst = true
  · simp only [hf, ↓reduceIte]
    exact ((kinds_dropMux p.dropSock m).trans (kinds_preSelect _ _)).trans (kinds_finish _ _ e se)
  · simp only [hf, Bool.false_eq_true, ↓reduceIte]
    exact ((kinds_dropMux p m).trans (kinds_preSelect _ _)).trans (kinds_finish _ _ e se)

theorem kinds_callback (p : ProxyS) (m : MuxL) (e : ESock) (io : CbIo) (p' : ProxyS) (m' : MuxL) (e' : ESock)
    (h : p.callback m e io = .ok p' m' e') : Kinds m m' := by
  obtain ⟨psw, pmw, pok, sf⟩ := p
  unfold ProxyS.callback at h
  simp only at h
  cases htc : psw.tryConnect e io.conn io.shutErr with
  | died => rw [htc] at h; cases h
  | ok s0 e0 =>
    rw [htc] at h
    simp only at h
    generalize s0.fill e0 io.recv io.shutErr = f at h
    obtain ⟨s1, e1⟩ := f
    simp only at h
    cases sf
    case true =>
      simp only [↓reduceIte] at h
      have g1 := kinds_sockCopyToMux s1 pmw m
      generalize sockCopyToMux s1 pmw m = g at h g1
      obtain ⟨s2, w2, m2⟩ := g
      simp only at h g1
      generalize muxCopyToSock w2 s2 e1 io.send io.shutErr = k at h
      obtain ⟨w3, s3, e3⟩ := k
      simp only at h
      have g2 := kinds_cleanup { sw := s3, mw := w3, ok := pok, sockFirst := true } m2 e3 io.shutErr
      injection h with _ hm _
      subst hm
      exact g1.trans g2
    case false =>
      simp only [Bool.false_eq_true, ↓reduceIte] at h
      generalize muxCopyToSock pmw s1 e1 io.send io.shutErr = k at h
      obtain ⟨w2, s2, e2⟩ := k
      simp only at h
      have g1 := kinds_sockCopyToMux s2 w2 m
      generalize sockCopyToMux s2 w2 m = g at h g1
      obtain ⟨s3, w3, m3⟩ := g
      simp only at h g1
      have g2 := kinds_cleanup { sw := s3, mw := w3, ok := pok, sockFirst := false } m3 e2 io.shutErr
      injection h with _ hm _
      subst hm
      exact g1.trans g2

end Sshuttle.Tunnel
