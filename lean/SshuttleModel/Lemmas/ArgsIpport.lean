/-
`parse_ipport` on the three documented `[ip:]port` forms.
-/
import SshuttleModel.Lemmas.ArgsHostport

namespace Sshuttle.ArgsSpec
open Sshuttle.Inet Sshuttle.Args

theorem gaiPort_small (p : Nat) (hp : p < 65536) : gaiPort p = some p := by
  unfold gaiPort
  have h1 : min p (2 ^ 64 - 1) = p := by omega
  have h2 : p % 2 ^ 32 = p := Nat.mod_eq_of_lt (by omega)
  have h3 : ¬ p ≥ 2 ^ 31 := by omega
  have h4 : p % 65536 = p := Nat.mod_eq_of_lt hp
  simp only [h1, h2, h3, ↓reduceIte, h4]

theorem getaddrinfo_spellV4_port (env : Env) (a : Nat) (ha : a < 2 ^ 32) (sh : Shape4) (p : Nat) (hp : p < 65536) :
    getaddrinfo env (spellV4 a sh) p = .ok [(.inet, ntoa a, p)] := by
  unfold getaddrinfo
  rw [idnaEncode_ascii env _ (spellV4_isEmpty a sh)
    (fun c hc => v4c_ascii c (spellV4_chars a sh c hc)) (labels_spellV4 a ha sh)]
  simp only [gaiPort_small p hp, gaiNumeric_spellV4 a ha sh]

theorem dotted_eq_spell (a : Nat) (ha : a < 2 ^ 32) : dotted a = spellV4 a (.p4 .dec .dec .dec .dec) := by
  have h : a / 2 ^ 24 % 256 = a / 2 ^ 24 := Nat.mod_eq_of_lt (by omega)
  simp [dotted, spellV4, spellPart, h, List.append_assoc]

theorem isPyDigit_digitChar (d : Nat) (h : d < 10) : isPyDigit (digitChar d) = true := by
  have : d = 0 ∨ d = 1 ∨ d = 2 ∨ d = 3 ∨ d = 4 ∨ d = 5 ∨ d = 6 ∨ d = 7 ∨ d = 8 ∨ d = 9 := by omega
  rcases this with rfl | rfl | rfl | rfl | rfl | rfl | rfl | rfl | rfl | rfl <;> decide

theorem matchIpport_port (p : Nat) : matchIpport (render 10 p) = some ([], some (render 10 p)) := by
  unfold matchIpport
  have hall : (render 10 p).all isPyDigit = true := by
    rw [List.all_eq_true]
    intro c hc
    obtain ⟨d, hd, rfl⟩ := renderWith_mem digitChar 10 (by omega) p c hc
    exact isPyDigit_digitChar d hd
  have h := takeD p [] stops_isD_nil
  rw [List.append_nil] at h
  simp [render10_isEmpty, hall, h.1, h.2, atEnd]

theorem matchOptPort_nil : matchOptPort [] = some none := rfl

theorem matchOptPort_port (p : Nat) : matchOptPort (':' :: render 10 p) = some (some (render 10 p)) := by
  unfold matchOptPort
  have h := takeD p [] stops_isD_nil
  rw [List.append_nil] at h
  simp [h.1, h.2, render10_isEmpty, atEnd]

theorem dot_mem_dotted (a : Nat) : '.' ∈ dotted a := by simp [dotted]

/-- `ip` and `ip:port`: the third expression of `parse_ipport` -/
theorem matchIpport_ip (a : Nat) (ha : a < 2 ^ 32) (tail : Str) (po : Option Str)
    (htail : (tail = [] ∧ po = none) ∨ ∃ p, tail = ':' :: render 10 p ∧ po = some (render 10 p)) :
    matchIpport (dotted a ++ tail) = some (dotted a, po) := by
  unfold matchIpport
  have hd : ∀ c ∈ dotted a, v4c c = true := by
    rw [dotted_eq_spell a ha]; exact spellV4_chars a _
  have hnotdig : (dotted a ++ tail).all isPyDigit = false := by
    rw [Bool.eq_false_iff]
    intro hall
    rw [List.all_eq_true] at hall
    have := hall '.' (by simp [dot_mem_dotted a])
    revert this; decide
  have hbr : (dotted a ++ tail).contains ']' = false := by
    apply contains_false_of_not_mem
    intro hm
    rw [List.mem_append] at hm
    rcases hm with hm | hm
    · exact v4c_ne ']' (hd _ hm) ']' (by decide) rfl
    · rcases htail with ⟨rfl, _⟩ | ⟨p, rfl, _⟩
      · cases hm
      · simp only [List.mem_cons] at hm
        rcases hm with hm | hm
        · revert hm; decide
        · have := render10_isD p ']' hm
          revert this; decide
  have hstop : Stops isHost4 tail := by
    rcases htail with ⟨rfl, _⟩ | ⟨p, rfl, _⟩
    · exact Or.inl rfl
    · exact Or.inr ⟨':', _, rfl, by decide⟩
  have hspan := span_app isHost4 (dotted a) tail (fun x hx => v4c_isHost4 x (hd x hx)) hstop
  have hne : (dotted a).isEmpty = false := by
    rw [dotted_eq_spell a ha]; exact spellV4_isEmpty a _
  simp only [hnotdig, Bool.and_false, Bool.false_eq_true, ↓reduceIte, hbr, hspan.1, hspan.2, hne]
  rcases htail with ⟨rfl, rfl⟩ | ⟨p, rfl, rfl⟩
  · simp [matchOptPort_nil]
  · simp [matchOptPort_port]

theorem minAddr_single (x : AddrInfo) : minAddr [x] = some x := rfl

theorem default_host_eq : Gen.C16.IPPORT_DEFAULT_HOST.toList = dotted 0 := by
  simp [dotted, render, renderWith_lt]
  decide

theorem parseIpport_listen (env : Env) (f : ListenForm)
    (hf : match f with
      | .portOnly p => p < 65536
      | .ipPort a p => a < 2 ^ 32 ∧ p < 65536
      | .ipOnly a => a < 2 ^ 32) :
    parseIpport env (spellListen f) = .ok (denotesListen f) := by
  cases f with
  | portOnly p =>
    simp only at hf
    have h0 : (0 : Nat) < 2 ^ 32 := by decide
    have hg := getaddrinfo_spellV4_port env 0 h0 (.p4 .dec .dec .dec .dec) p hf
    rw [← dotted_eq_spell 0 h0] at hg
    simp only [parseIpport, spellListen, matchIpport_port, List.isEmpty_nil, ↓reduceIte, default_host_eq,
      pyInt_render p (by omega), hg, minAddr_single, denotesListen]
    rfl
  | ipPort a p =>
    obtain ⟨ha, hp⟩ := hf
    have hg := getaddrinfo_spellV4_port env a ha (.p4 .dec .dec .dec .dec) p hp
    rw [← dotted_eq_spell a ha] at hg
    have hne : (dotted a).isEmpty = false := by
      rw [dotted_eq_spell a ha]; exact spellV4_isEmpty a _
    simp only [parseIpport, spellListen, matchIpport_ip a ha _ _ (Or.inr ⟨p, rfl, rfl⟩), hne,
      Bool.false_eq_true, ↓reduceIte, pyInt_render p (by omega), hg, minAddr_single, denotesListen]
    rfl
  | ipOnly a =>
    simp only at hf
    have hg := getaddrinfo_spellV4_port env a hf (.p4 .dec .dec .dec .dec) 0 (by decide)
    rw [← dotted_eq_spell a hf] at hg
    have hne : (dotted a).isEmpty = false := by
      rw [dotted_eq_spell a hf]; exact spellV4_isEmpty a _
    have hm := matchIpport_ip a hf [] none (Or.inl ⟨rfl, rfl⟩)
    rw [List.append_nil] at hm
    simp only [parseIpport, spellListen, hm, hne, Bool.false_eq_true, ↓reduceIte, hg, minAddr_single, denotesListen]
    rfl

end Sshuttle.ArgsSpec
