/-
A measure of the work that is left: every move of the select loop either changes nothing or
strictly decreases it.  Used by Props/C02 (`C02_bounded_work`).

Weights: a byte still unread at an endpoint 8, buffered for the tunnel 6, in a frame 3, buffered
for a socket 2; a buffer chunk 1, a frame 2 (a PING more than the PONG that answers it); every
flag that can still be set pays for the control frame setting it may queue.
-/
import SshuttleModel.Lemmas.Fixpoint
import SshuttleModel.Spec.Measure

namespace Sshuttle.Tunnel
open Sshuttle.Mux (Frame)
open Sshuttle.Wrap

/-- `a'` is the measure after, `a` before: it went down, or nothing changed at all. -/
def Dec (a a' : Nat) (same : Prop) : Prop := a' < a ∨ (a' = a ∧ same)

theorem Dec.le {a a' : Nat} {P : Prop} (h : Dec a a' P) : a' ≤ a := by
  rcases h with h | ⟨h, _⟩ <;> omega

theorem Dec.same {a a' : Nat} {P : Prop} (h : Dec a a' P) (he : a ≤ a') : P := by
  rcases h with h | ⟨_, h⟩
  · omega
  · exact h

theorem qMu_append (a b : List Frame) : qMu (a ++ b) = qMu a + qMu b := by
  induction a with
  | nil => simp [qMu]
  | cons x xs ih => simp only [List.cons_append, qMu, ih]; omega

theorem bufMu_nil (k : Nat) : bufMu k [] = 0 := by simp [bufMu]

theorem bufMu_cons (k : Nat) (b : Bytes) (rest : List Bytes) :
    bufMu k (b :: rest) = k * b.length + 1 + bufMu k rest := by
  simp only [bufMu, List.flatten_cons, List.length_append, List.length_cons, Nat.mul_add]; omega

theorem bufMu_append_one (k : Nat) (l : List Bytes) (b : Bytes) :
    bufMu k (l ++ [b]) = bufMu k l + k * b.length + 1 := by
  simp only [bufMu, List.flatten_append, List.flatten_cons, List.flatten_nil, List.append_nil, List.length_append,
    List.length_cons, List.length_nil, Nat.mul_add]; omega

theorem popEmpty_dec (k : Nat) (l : List Bytes) : Dec (bufMu k l) (bufMu k (popEmpty l)) (popEmpty l = l) := by
  induction l with
  | nil => right; exact ⟨rfl, rfl⟩
  | cons b rest ih =>
    unfold popEmpty
    by_cases hb : b.isEmpty = true
    · rw [if_pos hb]
      left
      have := ih.le
      rw [bufMu_cons]; omega
    · rw [if_neg hb]; right; exact ⟨rfl, rfl⟩


/-! ### the primitive flag operations -/

theorem qMu_send (m : MuxL) (chan cmd : Nat) (data : Bytes) (h : cmd ≠ Generated.CMD_PING) :
    qMu (m.send chan cmd data).out = qMu m.out + 2 + 3 * data.length := by
  simp only [MuxL.send, qMu_append, qMu, frMu, h, ↓reduceIte]; omega

theorem eof_ne_ping : Generated.CMD_TCP_EOF ≠ Generated.CMD_PING := by decide
theorem stop_ne_ping : Generated.CMD_TCP_STOP_SENDING ≠ Generated.CMD_PING := by decide
theorem data_ne_ping : Generated.CMD_TCP_DATA ≠ Generated.CMD_PING := by decide
theorem pong_ne_ping : Generated.CMD_PONG ≠ Generated.CMD_PING := by decide

theorem mwNowrite_dec (w : MuxW) (m : MuxL) :
    Dec (wMu w + qMu m.out) (wMu (w.nowrite m).1 + qMu (w.nowrite m).2.out) (w.nowrite m = (w, m)) := by
  unfold MuxW.nowrite
  by_cases h : w.shutW = true
  · rw [if_pos h]; right; exact ⟨rfl, rfl⟩
  · rw [if_neg h]
    left
    have hw : w.shutW = false := by simpa using h
    simp only [qMu_send _ _ _ _ eof_ne_ping, wMu, b2n, hw, List.length_nil]
    cases w.shutR <;> simp <;> omega

theorem mwNoread_dec (w : MuxW) (m : MuxL) :
    Dec (wMu w + qMu m.out) (wMu (w.noread m).1 + qMu (w.noread m).2.out) (w.noread m = (w, m)) := by
  unfold MuxW.noread
  by_cases h : w.shutR = true
  · rw [if_pos h]; right; exact ⟨rfl, rfl⟩
  · rw [if_neg h]
    left
    have hw : w.shutR = false := by simpa using h
    simp only [qMu_send _ _ _ _ stop_ne_ping, wMu, b2n, hw, List.length_nil]
    cases w.shutW <;> simp <;> omega

theorem swNoread_dec (s : SockW) : Dec (sMu s) (sMu s.noread) (s.noread = s) := by
  obtain ⟨b, r, w, c, x⟩ := s
  cases r
  · left; cases w <;> cases c <;> cases x <;> simp [SockW.noread, sMu, b2n]
  · right; exact ⟨rfl, rfl⟩

theorem swNowrite_dec (s : SockW) (e : ESock) (se : Bool) :
    Dec (sMu s + eMu e) (sMu (s.nowrite e se).1 + eMu (s.nowrite e se).2) (s.nowrite e se = (s, e)) := by
  obtain ⟨b, r, w, c, x⟩ := s
  obtain ⟨pe, ei, ss, co, de⟩ := e
  cases w
  · left
    cases se <;> cases r <;> cases x <;> cases ss <;> simp [SockW.nowrite, sMu, eMu, b2n] <;> omega
  · right; exact ⟨rfl, rfl⟩

theorem swSeterr_dec (s : SockW) (e : ESock) (se : Bool) :
    Dec (sMu s + eMu e) (sMu (s.seterr e se).1 + eMu (s.seterr e se).2) (s.seterr e se = (s, e)) := by
  obtain ⟨b, r, w, c, x⟩ := s
  obtain ⟨pe, ei, ss, co, de⟩ := e
  cases w <;> cases r <;> cases x <;> cases se <;> cases ss <;>
    simp [Dec, SockW.seterr, SockW.nowrite, SockW.noread, sMu, eMu, b2n] <;> omega


/-! ### the stages of a callback -/

theorem sMu_setConn (s : SockW) (h : s.connecting = true) :
    sMu { s with connecting := false } + 1 = sMu s := by
  obtain ⟨b, r, w, c, x⟩ := s
  simp only at h; subst h
  simp [sMu]; omega

theorem tryConnect_dec (s : SockW) (e : ESock) (c : ConnRes) (se : Bool) (s0 : SockW) (e0 : ESock)
    (h : s.tryConnect e c se = .ok s0 e0) :
    Dec (sMu s + eMu e) (sMu s0 + eMu e0) (s0 = s ∧ e0 = e) := by
  unfold SockW.tryConnect at h
  by_cases hA : (s.connecting && s.shutW) = true
  · -- a pending connect given up because the write side is already shut
    simp only [hA, ↓reduceIte, SockW.noread, Bool.not_false] at h
    injection h with h1 h2; subst h1; subst h2
    left
    simp only [Bool.and_eq_true] at hA
    obtain ⟨b, r, w, cn, x⟩ := s
    simp only at hA
    obtain ⟨h1, h2⟩ := hA; subst h1; subst h2
    cases r <;> cases x <;> simp [sMu, b2n] <;> omega
  · simp only [hA, Bool.false_eq_true, ↓reduceIte] at h
    by_cases hc : s.connecting = true
    · simp only [hc, Bool.not_true, Bool.false_eq_true, ↓reduceIte] at h
      have hdown := sMu_setConn s hc
      cases c with
      | ok =>
        simp only at h
        injection h with h1 h2; subst h1; subst h2
        left; omega
      | errno en so =>
        simp only at h
        generalize (if en = Generated.EINVAL then so else en) = en' at h
        split at h
        · injection h with h1 h2; subst h1; subst h2; right; exact ⟨rfl, rfl, rfl⟩
        · split at h
          · injection h with h1 h2; subst h1; subst h2; left; omega
          · split at h
            · injection h with h1 h2; subst h1; subst h2; left; omega
            · split at h
              · injection h with h1 h2; subst h1; subst h2
                have := (swSeterr_dec { s with connecting := false } e se).le
                left; omega
              · cases h
    · have hc' : s.connecting = false := by simpa using hc
      simp only [hc', Bool.not_false, ↓reduceIte] at h
      injection h with h1 h2; subst h1; subst h2
      right; exact ⟨rfl, rfl, rfl⟩

theorem fill_dec (s : SockW) (e : ESock) (r : RecvRes) (se : Bool) :
    Dec (sMu s + eMu e) (sMu (s.fill e r se).1 + eMu (s.fill e r se).2) (s.fill e r se = (s, e)) := by
  unfold SockW.fill
  split
  · right; exact ⟨rfl, rfl⟩
  next hb =>
    split
    · right; exact ⟨rfl, rfl⟩
    · split
      · right; exact ⟨rfl, rfl⟩
      next hr =>
        have hr' : s.shutR = false := by simpa using hr
        have hbe : s.buf = [] := by
          cases hbb : s.buf with
          | nil => rfl
          | cons a l => rw [hbb] at hb; simp at hb
        have hnr : sMu s.noread + 1 = sMu s := by
          obtain ⟨b, rr, w, c, x⟩ := s
          simp only at hr'; subst hr'
          cases w <;> cases c <;> cases x <;> simp [SockW.noread, sMu, b2n]
        cases r with
        | err =>
          simp only [ESock.recv]
          have h1 := (swSeterr_dec s e se).le
          have h2 := (swNoread_dec (s.seterr e se).1).le
          -- seterr already stops reading: strictly less because shutR was false
          have h3 : sMu (s.seterr e se).1 + eMu (s.seterr e se).2 < sMu s + eMu e := by
            obtain ⟨b, rr, w, c, x⟩ := s
            obtain ⟨pe, ei, ss, co, de⟩ := e
            simp only at hr'; subst hr'
            cases w <;> cases x <;> cases se <;> cases ss <;>
              simp [SockW.seterr, SockW.nowrite, SockW.noread, sMu, eMu, b2n] <;> omega
          left; omega
        | eagain => simp only [ESock.recv]; right; constructor <;> first | rfl | trivial
        | data n =>
          simp only [ESock.recv]
          by_cases hp : e.pending.isEmpty = true
          · simp only [hp, ↓reduceIte]
            by_cases he : e.eofIn = true
            · simp only [he, ↓reduceIte, List.isEmpty_nil]
              left; omega
            · simp only [he, Bool.false_eq_true, ↓reduceIte]; right; constructor <;> first | rfl | trivial
          · simp only [hp, Bool.false_eq_true, ↓reduceIte]
            have hne : e.pending ≠ [] := by intro h; rw [h] at hp; simp at hp
            have hlen : e.pending.length ≥ 1 := by
              cases hq : e.pending with
              | nil => exact absurd hq hne
              | cons a l => simp
            have htk : (e.pending.take (max n 1)).length ≥ 1 := by
              rw [List.length_take]; omega
            have hne' : (e.pending.take (max n 1)).isEmpty = false := by
              cases hq : e.pending.take (max n 1) with
              | nil => rw [hq] at htk; simp at htk
              | cons a l => rfl
            simp only [hne', Bool.false_eq_true, ↓reduceIte]
            left
            have hdrop : (e.pending.drop (max n 1)).length + (e.pending.take (max n 1)).length = e.pending.length := by
              rw [List.length_take, List.length_drop]; omega
            simp only [sMu, eMu, hbe, List.nil_append, bufMu_cons, bufMu_nil]
            omega


theorem Dec.trans {a b c : Nat} {P Q R : Prop} (h1 : Dec a b P) (h2 : Dec b c Q) (hr : P → Q → R) : Dec a c R := by
  rcases h1 with h1 | ⟨h1, p⟩ <;> rcases h2 with h2 | ⟨h2, q⟩
  · left; omega
  · left; omega
  · left; omega
  · right; exact ⟨by omega, hr p q⟩

/-- Adding the same amount on both sides. -/
theorem Dec.add {a a' : Nat} {P : Prop} (h : Dec a a' P) (k : Nat) : Dec (a + k) (a' + k) P := by
  rcases h with h | ⟨h, p⟩
  · left; omega
  · right; exact ⟨by omega, p⟩

/-- First half of `sock.copy_to(mux)`: one cut of the head chunk goes into a DATA frame. -/
def sockHead (s : SockW) (w : MuxW) (m : MuxL) : SockW × MuxL :=
  match s.buf with
  | b :: rest =>
    if b.isEmpty then (s, m) else
    let (n, m1) := w.uwrite m b
    ({ s with buf := b.drop n :: rest }, m1)
  | [] => (s, m)

/-- Second half: drop emptied chunks, pass on the end-of-stream. -/
def sockTail (s1 : SockW) (w : MuxW) (m1 : MuxL) : SockW × MuxW × MuxL :=
  let s2 := { s1 with buf := popEmpty s1.buf }
  if s2.buf.isEmpty && s2.shutR then
    let (w1, m2) := w.nowrite m1
    (s2, w1, m2)
  else (s2, w, m1)

theorem sockCopyToMux_eq (s : SockW) (w : MuxW) (m : MuxL) :
    sockCopyToMux s w m = sockTail (sockHead s w m).1 w (sockHead s w m).2 := by
  unfold sockCopyToMux sockTail sockHead
  cases s.buf with
  | nil => rfl
  | cons b rest => rfl

theorem mux_cut_pos : Generated.MUX_CUT ≥ 1 := by decide

theorem sockHead_dec (s : SockW) (w : MuxW) (m : MuxL) :
    Dec (sMu s + qMu m.out) (sMu (sockHead s w m).1 + qMu (sockHead s w m).2.out) (sockHead s w m = (s, m)) := by
  unfold sockHead
  cases hb : s.buf with
  | nil => right; exact ⟨rfl, rfl⟩
  | cons b rest =>
    simp only
    by_cases hbe : b.isEmpty = true
    · rw [if_pos hbe]; right; exact ⟨rfl, rfl⟩
    · rw [if_neg hbe]
      unfold MuxW.uwrite
      by_cases ht : m.tooFull = true
      · simp only [ht, ↓reduceIte, List.drop_zero]
        right
        refine ⟨?_, ?_⟩
        · have : ({ s with buf := b :: rest } : SockW) = s := by rw [← hb]
          rw [this]
        · have : ({ s with buf := b :: rest } : SockW) = s := by rw [← hb]
          rw [this]
      · simp only [ht, Bool.false_eq_true, ↓reduceIte]
        left
        have hlen : b.length ≥ 1 := by
          cases b with
          | nil => simp at hbe
          | cons a l => simp
        have hk : (b.take Generated.MUX_CUT).length ≥ 1 := by
          rw [List.length_take]; have := mux_cut_pos; omega
        have hkl : (b.take Generated.MUX_CUT).length ≤ b.length := by
          rw [List.length_take]; omega
        rw [qMu_send _ _ _ _ data_ne_ping]
        simp only [sMu, hb, bufMu_cons, List.length_drop]
        omega

theorem sockTail_dec (s1 : SockW) (w : MuxW) (m1 : MuxL) :
    Dec (sMu s1 + wMu w + qMu m1.out)
      (sMu (sockTail s1 w m1).1 + wMu (sockTail s1 w m1).2.1 + qMu (sockTail s1 w m1).2.2.out)
      (sockTail s1 w m1 = (s1, w, m1)) := by
  have hp := popEmpty_dec 6 s1.buf
  have hs : Dec (sMu s1) (sMu { s1 with buf := popEmpty s1.buf }) (({ s1 with buf := popEmpty s1.buf } : SockW) = s1) := by
    rcases hp with hp | ⟨hp, he⟩
    · left; simp only [sMu]; omega
    · right; refine ⟨by simp only [sMu]; omega, ?_⟩; rw [he]
  unfold sockTail
  simp only
  split
  · have hn := mwNowrite_dec w m1
    have h1 : Dec (sMu s1 + wMu w + qMu m1.out) (sMu { s1 with buf := popEmpty s1.buf } + wMu w + qMu m1.out)
        (({ s1 with buf := popEmpty s1.buf } : SockW) = s1) := by
      have := (hs.add (wMu w + qMu m1.out)); simpa [Nat.add_assoc] using this
    have h2 : Dec (sMu { s1 with buf := popEmpty s1.buf } + wMu w + qMu m1.out)
        (sMu { s1 with buf := popEmpty s1.buf } + wMu (w.nowrite m1).1 + qMu (w.nowrite m1).2.out)
        (w.nowrite m1 = (w, m1)) := by
      have := hn.add (sMu { s1 with buf := popEmpty s1.buf })
      simpa [Nat.add_comm, Nat.add_left_comm, Nat.add_assoc] using this
    refine h1.trans h2 ?_
    intro e1 e2
    rw [e1]
    rw [Prod.ext_iff] at e2
    simp only at e2
    rw [e2.1, e2.2]
  · have := (hs.add (wMu w + qMu m1.out))
    refine (Dec.trans (by simpa [Nat.add_assoc] using this) (Or.inr ⟨rfl, trivial⟩ : Dec _ _ True) ?_)
    intro e1 _
    rw [e1]

theorem sockCopyToMux_dec (s : SockW) (w : MuxW) (m : MuxL) :
    Dec (sMu s + wMu w + qMu m.out)
      (sMu (sockCopyToMux s w m).1 + wMu (sockCopyToMux s w m).2.1 + qMu (sockCopyToMux s w m).2.2.out)
      (sockCopyToMux s w m = (s, w, m)) := by
  rw [sockCopyToMux_eq]
  have h1 := sockHead_dec s w m
  have h2 := sockTail_dec (sockHead s w m).1 w (sockHead s w m).2
  have h1' : Dec (sMu s + wMu w + qMu m.out) (sMu (sockHead s w m).1 + wMu w + qMu (sockHead s w m).2.out)
      (sockHead s w m = (s, m)) := by
    have := h1.add (wMu w)
    simpa [Nat.add_comm, Nat.add_left_comm, Nat.add_assoc] using this
  refine h1'.trans h2 ?_
  intro e1 e2
  rw [e2]
  rw [Prod.ext_iff] at e1
  simp only at e1
  rw [e1.1, e1.2]


/-- First half of `mux.copy_to(sock)`: the head chunk is offered to the socket. -/
def muxHead (w : MuxW) (s : SockW) (e : ESock) (r : SendRes) (se : Bool) : MuxW × SockW × ESock :=
  match w.buf with
  | b :: rest =>
    if b.isEmpty then (w, s, e) else
    match s.uwrite e b r se with
    | (some n, s1, e1) => ({ w with buf := b.drop n :: rest }, s1, e1)
    | (none, s1, e1) => (w, s1, e1)
  | [] => (w, s, e)

def muxTail (w1 : MuxW) (s1 : SockW) (e1 : ESock) (se : Bool) : MuxW × SockW × ESock :=
  let w2 := { w1 with buf := popEmpty w1.buf }
  if w2.buf.isEmpty && w2.shutR then
    let x := s1.nowrite e1 se
    (w2, x.1, x.2)
  else (w2, s1, e1)

theorem muxCopyToSock_eq (w : MuxW) (s : SockW) (e : ESock) (r : SendRes) (se : Bool) :
    muxCopyToSock w s e r se =
      muxTail (muxHead w s e r se).1 (muxHead w s e r se).2.1 (muxHead w s e r se).2.2 se := by
  unfold muxCopyToSock muxTail muxHead
  cases w.buf with
  | nil => rfl
  | cons b rest =>
    simp only
    split
    · rfl
    · generalize s.uwrite e b r se = u
      obtain ⟨on, s1, e1⟩ := u
      cases on <;> rfl

/-- What `uwrite` does to the socket side, with the number of bytes it took. -/
theorem uwrite_dec (s : SockW) (e : ESock) (b : Bytes) (r : SendRes) (se : Bool) :
    (∃ k, (s.uwrite e b r se).1 = some k ∧ k ≤ b.length ∧
      Dec (sMu s + eMu e) (sMu (s.uwrite e b r se).2.1 + eMu (s.uwrite e b r se).2.2)
        (k = 0 → (s.uwrite e b r se).2.1 = s ∧ (s.uwrite e b r se).2.2 = e)) ∨
    ((s.uwrite e b r se).1 = none ∧ (s.uwrite e b r se).2.1 = s ∧ (s.uwrite e b r se).2.2 = e) := by
  unfold SockW.uwrite
  by_cases hc : s.connecting = true
  · rw [if_pos hc]; left; exact ⟨0, rfl, Nat.zero_le _, Or.inr ⟨rfl, fun _ => ⟨rfl, rfl⟩⟩⟩
  · rw [if_neg hc]
    simp only
    generalize (if e.sawShut = true then (match r with | .err => SendRes.err | _ => SendRes.epipe) else r) = r'
    cases r' with
    | sent n =>
      left
      refine ⟨min n b.length, rfl, Nat.min_le_right _ _, Or.inr ⟨rfl, ?_⟩⟩
      intro hk
      refine ⟨rfl, ?_⟩
      simp only [hk, List.take_zero, List.append_nil]
    | eagain => right; exact ⟨rfl, rfl, rfl⟩
    | epipe =>
      left
      refine ⟨0, rfl, Nat.zero_le _, ?_⟩
      rcases swNowrite_dec s e se with h | ⟨h, he⟩
      · left; exact h
      · right
        rw [Prod.ext_iff] at he
        exact ⟨h, fun _ => ⟨he.1, he.2⟩⟩
    | err =>
      left
      refine ⟨0, rfl, Nat.zero_le _, ?_⟩
      rcases swSeterr_dec s e se with h | ⟨h, he⟩
      · left; exact h
      · right
        rw [Prod.ext_iff] at he
        exact ⟨h, fun _ => ⟨he.1, he.2⟩⟩


theorem muxHead_dec (w : MuxW) (s : SockW) (e : ESock) (r : SendRes) (se : Bool) :
    Dec (wMu w + sMu s + eMu e)
      (wMu (muxHead w s e r se).1 + sMu (muxHead w s e r se).2.1 + eMu (muxHead w s e r se).2.2)
      (muxHead w s e r se = (w, s, e)) := by
  unfold muxHead
  cases hb : w.buf with
  | nil => right; exact ⟨rfl, rfl⟩
  | cons b rest =>
    simp only
    by_cases hbe : b.isEmpty = true
    · rw [if_pos hbe]; right; exact ⟨rfl, rfl⟩
    · rw [if_neg hbe]
      have hu := uwrite_dec s e b r se
      generalize s.uwrite e b r se = u at hu
      obtain ⟨on, s1, e1⟩ := u
      simp only at hu
      rcases hu with ⟨k, hk, hkl, hd⟩ | ⟨hn, h1, h2⟩
      · subst hk
        simp only
        have hw : wMu { w with buf := b.drop k :: rest } + 2 * k = wMu w := by
          simp only [wMu, hb, bufMu_cons, List.length_drop]; omega
        rcases hd with hd | ⟨hd, hsame⟩
        · left; omega
        · by_cases hk0 : k = 0
          · right
            obtain ⟨e1', e2'⟩ := hsame hk0
            subst hk0
            refine ⟨by omega, ?_⟩
            simp only [List.drop_zero]
            have : ({ w with buf := b :: rest } : MuxW) = w := by rw [← hb]
            rw [this, e1', e2']
          · left; omega
      · subst hn; subst h1; subst h2
        right; exact ⟨rfl, rfl⟩

theorem muxTail_dec (w1 : MuxW) (s1 : SockW) (e1 : ESock) (se : Bool) :
    Dec (wMu w1 + sMu s1 + eMu e1)
      (wMu (muxTail w1 s1 e1 se).1 + sMu (muxTail w1 s1 e1 se).2.1 + eMu (muxTail w1 s1 e1 se).2.2)
      (muxTail w1 s1 e1 se = (w1, s1, e1)) := by
  have hp := popEmpty_dec 2 w1.buf
  have hw : Dec (wMu w1) (wMu { w1 with buf := popEmpty w1.buf }) (({ w1 with buf := popEmpty w1.buf } : MuxW) = w1) := by
    rcases hp with hp | ⟨hp, he⟩
    · left; simp only [wMu]; omega
    · right; refine ⟨by simp only [wMu]; omega, ?_⟩; rw [he]
  unfold muxTail
  simp only
  split
  · have hn := swNowrite_dec s1 e1 se
    have h1 : Dec (wMu w1 + sMu s1 + eMu e1) (wMu { w1 with buf := popEmpty w1.buf } + sMu s1 + eMu e1)
        (({ w1 with buf := popEmpty w1.buf } : MuxW) = w1) := by
      have := hw.add (sMu s1 + eMu e1); simpa [Nat.add_assoc] using this
    have h2 : Dec (wMu { w1 with buf := popEmpty w1.buf } + sMu s1 + eMu e1)
        (wMu { w1 with buf := popEmpty w1.buf } + sMu (s1.nowrite e1 se).1 + eMu (s1.nowrite e1 se).2)
        (s1.nowrite e1 se = (s1, e1)) := by
      have := hn.add (wMu { w1 with buf := popEmpty w1.buf })
      simpa [Nat.add_comm, Nat.add_left_comm, Nat.add_assoc] using this
    refine h1.trans h2 ?_
    intro e1' e2'
    rw [e1']
    rw [Prod.ext_iff] at e2'
    simp only at e2'
    rw [e2'.1, e2'.2]
  · have := hw.add (sMu s1 + eMu e1)
    refine (Dec.trans (by simpa [Nat.add_assoc] using this) (Or.inr ⟨rfl, trivial⟩ : Dec _ _ True) ?_)
    intro e1' _
    rw [e1']

theorem muxCopyToSock_dec (w : MuxW) (s : SockW) (e : ESock) (r : SendRes) (se : Bool) :
    Dec (wMu w + sMu s + eMu e)
      (wMu (muxCopyToSock w s e r se).1 + sMu (muxCopyToSock w s e r se).2.1 + eMu (muxCopyToSock w s e r se).2.2)
      (muxCopyToSock w s e r se = (w, s, e)) := by
  rw [muxCopyToSock_eq]
  have h1 := muxHead_dec w s e r se
  have h2 := muxTail_dec (muxHead w s e r se).1 (muxHead w s e r se).2.1 (muxHead w s e r se).2.2 se
  refine h1.trans h2 ?_
  intro e1 e2
  rw [e2]
  exact e1


/-! ### the tail of the callback -/

theorem Dec.both {a a' b b' : Nat} {P Q : Prop} (h1 : Dec a a' P) (h2 : Dec b b' Q) :
    Dec (a + b) (a' + b') (P ∧ Q) := by
  rcases h1 with h1 | ⟨h1, p⟩ <;> rcases h2 with h2 | ⟨h2, q⟩
  · left; omega
  · left; omega
  · left; omega
  · right; exact ⟨by omega, p, q⟩

theorem Dec.refl (a : Nat) : Dec a a True := Or.inr ⟨rfl, trivial⟩

theorem Dec.imp {a a' : Nat} {P Q : Prop} (h : Dec a a' P) (f : P → Q) : Dec a a' Q := by
  rcases h with h | ⟨h, p⟩
  · left; exact h
  · right; exact ⟨h, f p⟩

theorem Dec.cast {a a' b b' : Nat} {P : Prop} (h : Dec a a' P) (ha : b = a) (hb : b' = a') : Dec b b' P := by
  subst ha; subst hb; exact h

theorem dropSock_dec (p : ProxyS) : Dec (hMu p) (hMu p.dropSock) (p.dropSock = p) := by
  obtain ⟨⟨sb, sr, ssw, sc, sx⟩, pmw, pok, sf⟩ := p
  unfold ProxyS.dropSock
  split
  next h =>
    left
    simp only [Bool.and_eq_true, Bool.not_eq_eq_eq_not, Bool.not_true] at h
    have hlen : bufMu 6 sb ≥ 1 := by
      cases sb with
      | nil => simp at h
      | cons a l => rw [bufMu_cons]; omega
    cases sr <;> cases ssw <;> cases sc <;> cases sx <;> cases pok <;>
      simp [hMu, sMu, SockW.noread, bufMu_nil, b2n] <;> omega
  · right; exact ⟨rfl, rfl⟩

theorem dropMux_dec (p : ProxyS) (m : MuxL) :
    Dec (hMu p + qMu m.out) (hMu (p.dropMux m).1 + qMu (p.dropMux m).2.out) (p.dropMux m = (p, m)) := by
  obtain ⟨psw, ⟨wc, wb, wr, ww⟩, pok, sf⟩ := p
  unfold ProxyS.dropMux
  split
  next h =>
    left
    simp only [Bool.and_eq_true, Bool.not_eq_eq_eq_not, Bool.not_true] at h
    have hlen : bufMu 2 wb ≥ 1 := by
      cases wb with
      | nil => simp at h
      | cons a l => rw [bufMu_cons]; omega
    cases wr
    · simp only [MuxW.noread, Bool.false_eq_true, ↓reduceIte, hMu, wMu, bufMu_nil, b2n, qMu_send _ _ _ _ stop_ne_ping,
        List.length_nil]
      omega
    · simp only [MuxW.noread, ↓reduceIte, hMu, wMu, bufMu_nil, b2n]
      omega
  · right; exact ⟨rfl, rfl⟩

theorem preSelect_dec (p : ProxyS) (m : MuxL) :
    Dec (hMu p + qMu m.out) (hMu (p.preSelectFlags m).1 + qMu (p.preSelectFlags m).2.out)
      (p.preSelectFlags m = (p, m)) := by
  obtain ⟨psw, pmw, pok, sf⟩ := p
  have hm : ∀ b : Bool, Dec (wMu pmw + qMu m.out)
      (wMu (if b = true then pmw.noread m else (pmw, m)).1 + qMu (if b = true then pmw.noread m else (pmw, m)).2.out)
      ((if b = true then pmw.noread m else (pmw, m)) = (pmw, m)) := by
    intro b; cases b
    · exact Or.inr ⟨rfl, rfl⟩
    · exact mwNoread_dec pmw m
  have hs : ∀ b : Bool, Dec (sMu psw) (sMu (if b = true then psw.noread else psw))
      ((if b = true then psw.noread else psw) = psw) := by
    intro b; cases b
    · exact Or.inr ⟨rfl, rfl⟩
    · exact swNoread_dec psw
  unfold ProxyS.preSelectFlags
  cases sf
  · -- server order: the socket side first
    simp only [Bool.false_eq_true, ↓reduceIte, hMu]
    have a := hs pmw.shutW
    have b := hm (if pmw.shutW = true then psw.noread else psw).shutW
    generalize (if pmw.shutW = true then psw.noread else psw) = s1 at a b
    generalize (if s1.shutW = true then pmw.noread m else (pmw, m)) = x at b
    obtain ⟨w1, m1⟩ := x
    simp only at b ⊢
    have c := (a.both b).add (if pok = true then 1 else 0)
    refine (c.cast (by omega) (by omega)).imp ?_
    rintro ⟨e1, e2⟩
    rw [Prod.ext_iff] at e2
    simp only at e2
    rw [e1, e2.1, e2.2]
  · simp only [↓reduceIte, hMu]
    have b := hm psw.shutW
    generalize (if psw.shutW = true then pmw.noread m else (pmw, m)) = x at b
    obtain ⟨w1, m1⟩ := x
    simp only at b ⊢
    have a := hs w1.shutW
    generalize (if w1.shutW = true then psw.noread else psw) = s1 at a
    have c := (a.both b).add (if pok = true then 1 else 0)
    refine (c.cast (by omega) (by omega)).imp ?_
    rintro ⟨e1, e2⟩
    rw [Prod.ext_iff] at e2
    simp only at e2
    rw [e1, e2.1, e2.2]


theorem finish_dec (p : ProxyS) (m : MuxL) (e : ESock) (se : Bool) :
    Dec (hMu p + qMu m.out + eMu e)
      (hMu (p.finish m e se).1 + qMu (p.finish m e se).2.1.out + eMu (p.finish m e se).2.2)
      (p.finish m e se = (p, m, e)) := by
  obtain ⟨psw, pmw, pok, sf⟩ := p
  have d1 := swNowrite_dec psw e se
  have d2 := mwNowrite_dec pmw m
  have d3 : Dec (if pok = true then 1 else 0) 0 (pok = false) := by
    cases pok
    · right; exact ⟨rfl, rfl⟩
    · left; simp
  unfold ProxyS.finish
  split
  · generalize psw.nowrite e se = x at d1
    generalize pmw.nowrite m = r at d2
    obtain ⟨s1, e1⟩ := x
    obtain ⟨w1, m1⟩ := r
    simp only at d1 d2
    have c := (d1.both d2).both d3
    cases sf
    · simp only [Bool.false_eq_true, ↓reduceIte, hMu]
      refine (c.cast (by omega) (by (try simp only [Bool.false_eq_true, ↓reduceIte]); omega)).imp ?_
      rintro ⟨⟨a1, a2⟩, a3⟩
      rw [Prod.ext_iff] at a1 a2
      simp only at a1 a2
      rw [a1.1, a1.2, a2.1, a2.2, a3]
    · simp only [↓reduceIte, hMu]
      refine (c.cast (by omega) (by (try simp only [Bool.false_eq_true, ↓reduceIte]); omega)).imp ?_
      rintro ⟨⟨a1, a2⟩, a3⟩
      rw [Prod.ext_iff] at a1 a2
      simp only at a1 a2
      rw [a1.1, a1.2, a2.1, a2.2, a3]
  · right; exact ⟨rfl, rfl⟩

theorem cleanup_dec (p : ProxyS) (m : MuxL) (e : ESock) (se : Bool) :
    Dec (hMu p + qMu m.out + eMu e)
      (hMu (p.cleanup m e se).1 + qMu (p.cleanup m e se).2.1.out + eMu (p.cleanup m e se).2.2)
      (p.cleanup m e se = (p, m, e)) := by
  unfold ProxyS.cleanup
  -- the two drops, in either order
  have hdrops : ∀ pm : ProxyS × MuxL,
      pm = (if p.sockFirst = true then p.dropSock.dropMux m else ((p.dropMux m).1.dropSock, (p.dropMux m).2)) →
      Dec (hMu p + qMu m.out) (hMu pm.1 + qMu pm.2.out) (pm = (p, m)) := by
    intro pm hpm
    subst hpm
    by_cases hf : p.sockFirst = true
    · simp only [hf, ↓reduceIte]
      have a := (dropSock_dec p).add (qMu m.out)
      have b := dropMux_dec p.dropSock m
      refine a.trans b ?_
      intro e1 e2; rw [e2, e1]
    · simp only [hf, Bool.false_eq_true, ↓reduceIte]
      have a := dropMux_dec p m
      have b := (dropSock_dec (p.dropMux m).1).add (qMu (p.dropMux m).2.out)
      refine a.trans b ?_
      intro e1 e2
      rw [Prod.ext_iff] at e1 ⊢
      simp only at e1 ⊢
      exact ⟨by rw [e2, e1.1], e1.2⟩
  generalize hpm : (if p.sockFirst = true then p.dropSock.dropMux m else ((p.dropMux m).1.dropSock, (p.dropMux m).2)) = pm
  have h1 := (hdrops pm hpm.symm).add (eMu e)
  have h2 := (preSelect_dec pm.1 pm.2).add (eMu e)
  have h3 := finish_dec (pm.1.preSelectFlags pm.2).1 (pm.1.preSelectFlags pm.2).2 e se
  simp only
  refine (h1.trans h2 (fun a b => And.intro a b)).trans h3 ?_
  rintro ⟨e1, e2⟩ e3
  rw [e3]
  rw [Prod.ext_iff] at e2
  simp only at e2
  rw [e2.1, e2.2, e1]


theorem midStage_dec (sf : Bool) (s1 : SockW) (w : MuxW) (m : MuxL) (e1 : ESock) (io : CbIo) :
    Dec (sMu s1 + wMu w + qMu m.out + eMu e1)
      (sMu (midStage sf s1 w m e1 io).1 + wMu (midStage sf s1 w m e1 io).2.1 +
        qMu (midStage sf s1 w m e1 io).2.2.1.out + eMu (midStage sf s1 w m e1 io).2.2.2)
      (midStage sf s1 w m e1 io = (s1, w, m, e1)) := by
  cases sf
  · simp only [midStage, Bool.false_eq_true, ↓reduceIte]
    have a := (muxCopyToSock_dec w s1 e1 io.send io.shutErr).add (qMu m.out)
    generalize muxCopyToSock w s1 e1 io.send io.shutErr = y at a
    obtain ⟨w2, s2, e2⟩ := y
    have b := (sockCopyToMux_dec s2 w2 m).add (eMu e2)
    generalize sockCopyToMux s2 w2 m = x at b
    obtain ⟨s3, w3, m3⟩ := x
    simp only at a b ⊢
    have a' : Dec (sMu s1 + wMu w + qMu m.out + eMu e1) (sMu s2 + wMu w2 + qMu m.out + eMu e2)
        ((w2, s2, e2) = (w, s1, e1)) := a.cast (by omega) (by omega)
    have b' : Dec (sMu s2 + wMu w2 + qMu m.out + eMu e2) (sMu s3 + wMu w3 + qMu m3.out + eMu e2)
        ((s3, w3, m3) = (s2, w2, m)) := b.cast (by omega) (by omega)
    refine (a'.trans b' (fun p q => And.intro p q)).imp ?_
    rintro ⟨p1, p2⟩
    simp only [Prod.ext_iff] at p1 p2 ⊢
    obtain ⟨a1, a2, a3⟩ := p1
    obtain ⟨b1, b2, b3⟩ := p2
    subst a1; subst a2; subst a3
    exact ⟨b1, b2, b3, rfl⟩
  · simp only [midStage, ↓reduceIte]
    have a := (sockCopyToMux_dec s1 w m).add (eMu e1)
    generalize sockCopyToMux s1 w m = x at a
    obtain ⟨s2, w2, m2⟩ := x
    have b := (muxCopyToSock_dec w2 s2 e1 io.send io.shutErr).add (qMu m2.out)
    generalize muxCopyToSock w2 s2 e1 io.send io.shutErr = y at b
    obtain ⟨w3, s3, e3⟩ := y
    simp only at a b ⊢
    have a' : Dec (sMu s1 + wMu w + qMu m.out + eMu e1) (sMu s2 + wMu w2 + qMu m2.out + eMu e1)
        ((s2, w2, m2) = (s1, w, m)) := a.cast (by omega) (by omega)
    have b' : Dec (sMu s2 + wMu w2 + qMu m2.out + eMu e1) (sMu s3 + wMu w3 + qMu m2.out + eMu e3)
        ((w3, s3, e3) = (w2, s2, e1)) := b.cast (by omega) (by omega)
    refine (a'.trans b' (fun p q => And.intro p q)).imp ?_
    rintro ⟨p1, p2⟩
    simp only [Prod.ext_iff] at p1 p2 ⊢
    obtain ⟨a1, a2, a3⟩ := p1
    obtain ⟨b1, b2, b3⟩ := p2
    subst a1; subst a2; subst a3
    exact ⟨b2, b1, rfl, b3⟩

/-- **One callback either changes nothing or strictly decreases the measure** of its handler, its
Mux queue and its endpoint together. -/
theorem callback_dec (p : ProxyS) (m : MuxL) (e : ESock) (io : CbIo) (p' : ProxyS) (m' : MuxL) (e' : ESock)
    (h : p.callback m e io = .ok p' m' e') :
    Dec (hMu p + qMu m.out + eMu e) (hMu p' + qMu m'.out + eMu e') (p' = p ∧ m' = m ∧ e' = e) := by
  obtain ⟨s0, e0, htc, hcl⟩ := callback_stages p m e io p' m' e' h
  simp only at hcl
  have k := (hMu p + qMu m.out + eMu e)
  have d1 := tryConnect_dec p.sw e io.conn io.shutErr s0 e0 htc
  have d2 := fill_dec s0 e0 io.recv io.shutErr
  generalize s0.fill e0 io.recv io.shutErr = f at d2 hcl
  obtain ⟨s1, e1⟩ := f
  simp only at d2 hcl
  have d3 := midStage_dec p.sockFirst s1 p.mw m e1 io
  generalize midStage p.sockFirst s1 p.mw m e1 io = x at d3 hcl
  obtain ⟨s2, w2, m2, e2⟩ := x
  simp only at d3 hcl
  have d4 := cleanup_dec { p with sw := s2, mw := w2 } m2 e2 io.shutErr
  rw [hcl] at d4
  simp only at d4
  -- assemble
  have okn : Nat := (if p.ok = true then 1 else 0)
  have t1 : Dec (hMu p + qMu m.out + eMu e) (sMu s1 + wMu p.mw + (if p.ok = true then 1 else 0) + qMu m.out + eMu e1)
      ((s0 = p.sw ∧ e0 = e) ∧ (s1, e1) = (s0, e0)) := by
    have a := (d1.trans d2 (fun a b => And.intro a b)).add (wMu p.mw + (if p.ok = true then 1 else 0) + qMu m.out)
    exact a.cast (by simp only [hMu]; omega) (by omega)
  have t2 : Dec (sMu s1 + wMu p.mw + (if p.ok = true then 1 else 0) + qMu m.out + eMu e1)
      (sMu s2 + wMu w2 + (if p.ok = true then 1 else 0) + qMu m2.out + eMu e2)
      ((s2, w2, m2, e2) = (s1, p.mw, m, e1)) := by
    have a := d3.add (if p.ok = true then 1 else 0)
    exact a.cast (by omega) (by omega)
  have t3 : Dec (sMu s2 + wMu w2 + (if p.ok = true then 1 else 0) + qMu m2.out + eMu e2)
      (hMu p' + qMu m'.out + eMu e') ((p', m', e') = ({ p with sw := s2, mw := w2 }, m2, e2)) := by
    exact d4.cast (by simp only [hMu]) rfl
  refine ((t1.trans t2 (fun a b => And.intro a b)).trans t3 (fun a b => And.intro a b)).imp ?_
  rintro ⟨⟨⟨⟨a1, a2⟩, a3⟩, a4⟩, a5⟩
  simp only [Prod.ext_iff] at a3 a4 a5
  obtain ⟨b1, b2⟩ := a3
  obtain ⟨c1, c2, c3, c4⟩ := a4
  obtain ⟨f1, f2, f3⟩ := a5
  subst a1; subst a2; subst b1; subst b2; subst c1; subst c2; subst c3; subst c4
  exact ⟨f1, f2, f3⟩

end Sshuttle.Tunnel
