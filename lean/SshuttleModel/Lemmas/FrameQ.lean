/-
Predicates over a frame FIFO as seen by one flow (channel id `c`), with their behaviour
under "append at the tail" and "pop the head".  Used by the C01/C02 invariants.
-/
import SshuttleModel.Code.Tunnel

namespace Sshuttle.Tunnel
open Sshuttle.Mux (Frame)

abbrev DATA := Generated.CMD_TCP_DATA
abbrev EOF := Generated.CMD_TCP_EOF
abbrev STOP := Generated.CMD_TCP_STOP_SENDING
abbrev CONNECT := Generated.CMD_TCP_CONNECT

def isData (c : Nat) (fr : Frame) : Bool := fr.chan == c && fr.cmd == DATA
def isEof (c : Nat) (fr : Frame) : Bool := fr.chan == c && fr.cmd == EOF
def isConnect (c : Nat) (fr : Frame) : Bool := fr.chan == c && fr.cmd == CONNECT
/-- A stream frame of channel `c`: DATA, EOF or STOP_SENDING. -/
def isStream (c : Nat) (fr : Frame) : Bool :=
  fr.chan == c && (fr.cmd == DATA || fr.cmd == EOF || fr.cmd == STOP)

/-- Concatenated payloads of the DATA frames of channel `c`, in queue order. -/
def dataOf (c : Nat) : List Frame → Bytes
  | [] => []
  | fr :: rest => if isData c fr then fr.data ++ dataOf c rest else dataOf c rest

def hasEof (c : Nat) (q : List Frame) : Bool := q.any (isEof c)

/-- No DATA frame of `c` follows an EOF frame of `c`. -/
def eofClean (c : Nat) : List Frame → Prop
  | [] => True
  | fr :: rest => (isEof c fr = true → dataOf c rest = []) ∧ eofClean c rest

/-- A CONNECT for `c` is queued and no stream frame of `c` is ahead of it. -/
def connectAhead (c : Nat) : List Frame → Prop
  | [] => False
  | fr :: rest => isConnect c fr = true ∨ (isStream c fr = false ∧ connectAhead c rest)

def noStream (c : Nat) (q : List Frame) : Prop := ∀ fr ∈ q, isStream c fr = false

theorem cmds_distinct : DATA ≠ EOF ∧ DATA ≠ STOP ∧ DATA ≠ CONNECT ∧ EOF ≠ STOP ∧ EOF ≠ CONNECT ∧
    STOP ≠ CONNECT := by decide

theorem isData_stream {c : Nat} {fr : Frame} (h : isData c fr = true) : isStream c fr = true := by
  simp [isData, isStream] at *; simp [h]

theorem isEof_stream {c : Nat} {fr : Frame} (h : isEof c fr = true) : isStream c fr = true := by
  simp [isEof, isStream] at *; simp [h]

/-! ### dataOf -/

@[simp] theorem dataOf_nil (c : Nat) : dataOf c [] = [] := rfl

theorem dataOf_append (c : Nat) (a b : List Frame) : dataOf c (a ++ b) = dataOf c a ++ dataOf c b := by
  induction a with
  | nil => rfl
  | cons fr rest ih => simp only [List.cons_append, dataOf]; split <;> simp [ih]

theorem dataOf_single_data (c : Nat) (d : Bytes) : dataOf c [⟨c, DATA, d⟩] = d := by
  simp [dataOf, isData]

theorem dataOf_single_other (c : Nat) (fr : Frame) (h : isData c fr = false) : dataOf c [fr] = [] := by
  simp [dataOf, h]

theorem dataOf_noStream (c : Nat) (q : List Frame) (h : noStream c q) : dataOf c q = [] := by
  induction q with
  | nil => rfl
  | cons fr rest ih =>
    have h1 : isStream c fr = false := h fr (by simp)
    have h2 : isData c fr = false := by
      cases hd : isData c fr with
      | false => rfl
      | true => rw [isData_stream hd] at h1; cases h1
    simp only [dataOf, h2]
    exact ih (fun x hx => h x (by simp [hx]))

/-! ### hasEof / eofClean -/

theorem hasEof_append (c : Nat) (a b : List Frame) : hasEof c (a ++ b) = (hasEof c a || hasEof c b) := by
  simp [hasEof]

theorem eofClean_append_noData (c : Nat) (a b : List Frame) (ha : eofClean c a) (hb : eofClean c b)
    (hd : hasEof c a = true → dataOf c b = []) : eofClean c (a ++ b) := by
  induction a with
  | nil => exact hb
  | cons fr rest ih =>
    simp only [List.cons_append, eofClean] at ha ⊢
    refine ⟨?_, ih ha.2 (fun h => hd (by simp [hasEof] at h ⊢; exact Or.inr h))⟩
    intro he
    rw [dataOf_append, ha.1 he, hd (by simp [hasEof, he])]
    rfl

theorem eofClean_tail (c : Nat) (fr : Frame) (rest : List Frame) (h : eofClean c (fr :: rest)) :
    eofClean c rest := h.2

theorem eofClean_single (c : Nat) (fr : Frame) : eofClean c [fr] := by simp [eofClean]

/-! ### connectAhead / noStream -/

theorem connectAhead_append (c : Nat) (a b : List Frame) (h : connectAhead c a) :
    connectAhead c (a ++ b) := by
  induction a with
  | nil => cases h
  | cons fr rest ih =>
    simp only [List.cons_append, connectAhead] at h ⊢
    rcases h with h | ⟨h1, h2⟩
    · exact Or.inl h
    · exact Or.inr ⟨h1, ih h2⟩

theorem connectAhead_of_noStream (c : Nat) (a : List Frame) (d : Bytes) (h : noStream c a) :
    connectAhead c (a ++ [⟨c, CONNECT, d⟩]) := by
  induction a with
  | nil => simp [connectAhead, isConnect]
  | cons fr rest ih =>
    simp only [List.cons_append, connectAhead]
    exact Or.inr ⟨h fr (by simp), ih (fun x hx => h x (by simp [hx]))⟩

theorem noStream_append (c : Nat) (a b : List Frame) : noStream c (a ++ b) ↔ noStream c a ∧ noStream c b := by
  simp only [noStream, List.mem_append]
  constructor
  · intro h; exact ⟨fun x hx => h x (Or.inl hx), fun x hx => h x (Or.inr hx)⟩
  · rintro ⟨h1, h2⟩ x (hx | hx)
    · exact h1 x hx
    · exact h2 x hx

theorem noStream_tail (c : Nat) (fr : Frame) (rest : List Frame) (h : noStream c (fr :: rest)) :
    noStream c rest := fun x hx => h x (by simp [hx])

theorem hasEof_noStream (c : Nat) (q : List Frame) (h : noStream c q) : hasEof c q = false := by
  cases he : hasEof c q with
  | false => rfl
  | true =>
    simp only [hasEof, List.any_eq_true] at he
    obtain ⟨fr, hm, hfr⟩ := he
    have := h fr hm
    rw [isEof_stream hfr] at this; cases this

/-- A frame of another channel (or a non-stream, non-CONNECT command) is invisible to `c`. -/
def Foreign (c : Nat) (fr : Frame) : Prop := isStream c fr = false ∧ isConnect c fr = false

theorem foreign_of_chan_ne {c : Nat} {fr : Frame} (h : fr.chan ≠ c) : Foreign c fr := by
  simp [Foreign, isStream, isConnect, h]

theorem Foreign.notData {c : Nat} {fr : Frame} (h : Foreign c fr) : isData c fr = false := by
  cases hd : isData c fr with
  | false => rfl
  | true => have := isData_stream hd; rw [h.1] at this; cases this

theorem Foreign.notEof {c : Nat} {fr : Frame} (h : Foreign c fr) : isEof c fr = false := by
  cases hd : isEof c fr with
  | false => rfl
  | true => have := isEof_stream hd; rw [h.1] at this; cases this


/-! ### STOP_SENDING frames -/

def isStop (c : Nat) (fr : Frame) : Bool := fr.chan == c && fr.cmd == STOP
def hasStop (c : Nat) (q : List Frame) : Bool := q.any (isStop c)

theorem isStop_stream {c : Nat} {fr : Frame} (h : isStop c fr = true) : isStream c fr = true := by
  simp [isStop, isStream] at *; simp [h]

theorem hasStop_append (c : Nat) (a b : List Frame) : hasStop c (a ++ b) = (hasStop c a || hasStop c b) := by
  simp [hasStop]

theorem hasStop_noStream (c : Nat) (q : List Frame) (h : noStream c q) : hasStop c q = false := by
  cases he : hasStop c q with
  | false => rfl
  | true =>
    simp only [hasStop, List.any_eq_true] at he
    obtain ⟨fr, hm, hfr⟩ := he
    have := h fr hm
    rw [isStop_stream hfr] at this; cases this

theorem hasStop_tail {c : Nat} {fr : Frame} {rest : List Frame} (h : hasStop c rest = true) :
    hasStop c (fr :: rest) = true := by
  simp only [hasStop, List.any_cons] at h ⊢; rw [h]; simp

theorem Foreign.notStop {c : Nat} {fr : Frame} (h : Foreign c fr) : isStop c fr = false := by
  cases hd : isStop c fr with
  | false => rfl
  | true => have := isStop_stream hd; rw [h.1] at this; cases this


/-! ### CONNECT frames -/

def nConnect (c : Nat) (q : List Frame) : Nat := q.countP (isConnect c)

theorem nConnect_append (c : Nat) (a b : List Frame) : nConnect c (a ++ b) = nConnect c a + nConnect c b := by
  simp [nConnect, List.countP_append]

theorem nConnect_single (c : Nat) (fr : Frame) : nConnect c [fr] = if isConnect c fr then 1 else 0 := by
  simp [nConnect, List.countP_cons]

theorem nConnect_cons (c : Nat) (fr : Frame) (rest : List Frame) :
    nConnect c (fr :: rest) = nConnect c rest + (if isConnect c fr then 1 else 0) := by
  simp [nConnect, List.countP_cons]

theorem nConnect_zero_of (c : Nat) (q : List Frame) (h : ∀ fr ∈ q, isConnect c fr = false) : nConnect c q = 0 := by
  simp only [nConnect, List.countP_eq_zero]
  intro fr hfr; rw [h fr hfr]; simp

theorem isConnect_of_nConnect_zero {c : Nat} {q : List Frame} (h : nConnect c q = 0) :
    ∀ fr ∈ q, isConnect c fr = false := by
  simp only [nConnect, List.countP_eq_zero] at h
  intro fr hfr
  cases hc : isConnect c fr with
  | false => rfl
  | true => exact absurd hc (h fr hfr)

end Sshuttle.Tunnel
