/-
`parse_subnetport_file`: every line is parsed on its own; documented IPv4 lines survive `strip`.
-/
import SshuttleModel.Lemmas.ArgsMain

namespace Sshuttle.ArgsSpec
open Sshuttle.Inet Sshuttle.Args

theorem fileLoop_skip (env : Env) (l : Str) (rest : List Str)
    (h : (strip l).isEmpty = true ∨ (strip l).head? = some '#') :
    fileLoop env (l :: rest) = fileLoop env rest := by
  rw [fileLoop]
  rcases h with h | h
  · simp [h]
  · by_cases he : (strip l).isEmpty = true
    · simp [he]
    · simp [he, h]

theorem fileLoop_line (env : Env) (l : Str) (rest : List Str) (v : List Subnet)
    (hne : (strip l).isEmpty = false) (hc : (strip l).head? ≠ some '#')
    (hv : parseSubnetport env (strip l) = .ok v) :
    fileLoop env (l :: rest) =
      (match fileLoop env rest with
       | .error e => .error e
       | .ok tl => .ok (v :: tl)) := by
  rw [fileLoop]
  simp only [hne, Bool.false_eq_true, ↓reduceIte, hc, hv]
  cases fileLoop env rest <;> rfl

theorem strip_id (s : Str) (hne : s ≠ []) (h : ∀ c ∈ s, isAsciiSpace c = false) : strip s = s := by
  unfold strip
  have h1 : s.dropWhile isAsciiSpace = s := by
    cases s with
    | nil => exact absurd rfl hne
    | cons c t => simp [List.dropWhile, h c (by simp)]
  rw [h1]
  have h2 : s.reverse.dropWhile isAsciiSpace = s.reverse := by
    cases hr : s.reverse with
    | nil => simp
    | cons c t =>
      have : c ∈ s := by
        have : c ∈ s.reverse := by rw [hr]; simp
        simpa using this
      simp [List.dropWhile, h c this]
  rw [h2, List.reverse_reverse]

theorem space_false_of_v4c (c : Char) (h : v4c c = true) : isAsciiSpace c = false := by
  rcases v4c_toNat c h with h | h | h | h
  · simp [isAsciiSpace]; refine ⟨⟨⟨⟨⟨?_, ?_⟩, ?_⟩, ?_⟩, ?_⟩, ?_⟩ <;> (try (intro e; subst e; revert h; decide)) <;> omega
  · simp [isAsciiSpace]; refine ⟨⟨⟨⟨⟨?_, ?_⟩, ?_⟩, ?_⟩, ?_⟩, ?_⟩ <;> (try (intro e; subst e; revert h; decide)) <;> omega
  · simp [isAsciiSpace]; refine ⟨⟨⟨⟨⟨?_, ?_⟩, ?_⟩, ?_⟩, ?_⟩, ?_⟩ <;> (try (intro e; subst e; revert h; decide)) <;> omega
  · subst h; decide

theorem space_false_render10 (n : Nat) : ∀ c ∈ render 10 n, isAsciiSpace c = false := by
  intro c hc
  obtain ⟨d, hd, rfl⟩ := renderWith_mem digitChar 10 (by omega) n c hc
  have : d = 0 ∨ d = 1 ∨ d = 2 ∨ d = 3 ∨ d = 4 ∨ d = 5 ∨ d = 6 ∨ d = 7 ∨ d = 8 ∨ d = 9 := by omega
  rcases this with rfl | rfl | rfl | rfl | rfl | rfl | rfl | rfl | rfl | rfl <;> decide

theorem spellSubnet4_nospace (a : Nat) (sh : Shape4) (w : Option Nat) (ps : PortSpec) :
    ∀ c ∈ spellSubnet4 a sh w ps, isAsciiSpace c = false := by
  intro c hc
  simp only [spellSubnet4, List.mem_append] at hc
  rcases hc with hc | hc | hc
  · exact space_false_of_v4c c (spellV4_chars a sh c hc)
  · cases w with
    | none => cases hc
    | some x =>
      simp only [spellWidth, List.mem_cons] at hc
      rcases hc with rfl | hc
      · decide
      · exact space_false_render10 x c hc
  · cases ps with
    | none => cases hc
    | one p =>
      simp only [spellPorts, List.mem_cons] at hc
      rcases hc with rfl | hc
      · decide
      · exact space_false_render10 p c hc
    | range p q =>
      simp only [spellPorts, List.mem_cons, List.mem_append] at hc
      rcases hc with rfl | hc | rfl | hc
      · decide
      · exact space_false_render10 p c hc
      · decide
      · exact space_false_render10 q c hc

theorem spellSubnet4_head (a : Nat) (sh : Shape4) (w : Option Nat) (ps : PortSpec) :
    ∃ c t, spellSubnet4 a sh w ps = c :: t ∧ isDigit c = true := by
  obtain ⟨c, t, h, hd⟩ := spellV4_head a sh
  exact ⟨c, t ++ (spellWidth w ++ spellPorts ps), by simp [spellSubnet4, h], hd⟩

/-- one documented IPv4 entry of a subnet file -/
structure Entry4 where
  a  : Nat
  sh : Shape4
  w  : Option Nat
  ps : PortSpec

def Entry4.Valid (e : Entry4) : Prop := e.a < 2 ^ 32 ∧ (∀ x, e.w = some x → x ≤ 32) ∧ e.ps.Valid

def Entry4.text (e : Entry4) : Str := spellSubnet4 e.a e.sh e.w e.ps

theorem parse_entry (env : Env) (e : Entry4) (he : e.Valid) :
    parseSubnetport env e.text = .ok [denotes4 e.a e.w e.ps] := by
  obtain ⟨a, sh, w, ps⟩ := e
  obtain ⟨ha, hw, hps⟩ := he
  simp only at ha hw hps
  simp only [Entry4.text]
  rw [parse_spell_aux env a ha sh w ps,
    subnetLoop_single w (fun x hx => by have := hw x hx; omega) ps hps]
  cases w with
  | none => rfl
  | some x => simp [hw x rfl, denotes4, dotted, ntoa]

theorem fileLoop_entries (env : Env) (es : List Entry4) (h : ∀ e ∈ es, e.Valid) :
    fileLoop env (es.map Entry4.text) = .ok (es.map fun e => [denotes4 e.a e.w e.ps]) := by
  induction es with
  | nil => rfl
  | cons e rest ih =>
    have he := h e (by simp)
    obtain ⟨c, t, hct, hdig⟩ := spellSubnet4_head e.a e.sh e.w e.ps
    have hne : e.text ≠ [] := by unfold Entry4.text; rw [hct]; simp
    have hs : strip e.text = e.text := strip_id _ hne (spellSubnet4_nospace e.a e.sh e.w e.ps)
    simp only [List.map_cons]
    rw [fileLoop_line env e.text (rest.map Entry4.text) [denotes4 e.a e.w e.ps]
      (by rw [hs]; unfold Entry4.text; rw [hct]; rfl)
      (by rw [hs]; unfold Entry4.text; rw [hct]
          intro hh; simp only [List.head?_cons, Option.some.injEq] at hh
          exact isDigit_ne c hdig '#' (by decide) hh)
      (by rw [hs]; exact parse_entry env e he)]
    rw [ih (fun x hx => h x (by simp [hx]))]

end Sshuttle.ArgsSpec
