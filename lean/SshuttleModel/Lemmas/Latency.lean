/-
How the operations of one proxy move the latency-control state of its Mux
(`fullness`, `too_full`, the frames queued).  Used by Props/C09.
-/
import SshuttleModel.Lemmas.WrapGrows

namespace Sshuttle.Tunnel
open Sshuttle.Mux (Frame)
open Sshuttle.Wrap

/-- Stream payload bytes carried by the frames of a queue segment. -/
def dataBytes : List Frame → Nat
  | [] => 0
  | fr :: rest => (if fr.cmd = DATA then fr.data.length else 0) + dataBytes rest

theorem dataBytes_append (a b : List Frame) : dataBytes (a ++ b) = dataBytes a + dataBytes b := by
  induction a with
  | nil => simp [dataBytes]
  | cons x xs ih => simp [dataBytes, ih]; omega

/-- `m'` is `m` after queueing `extra`: `too_full` untouched, `fullness` grown by exactly the stream
payload queued (control frames queued by a proxy are empty), nothing of it while `too_full`, at
most `k` bytes of it. -/
def Lat (k : Nat) (m m' : MuxL) : Prop :=
  m'.tooFull = m.tooFull ∧ ∃ extra, m'.out = m.out ++ extra ∧ m'.fullness = m.fullness + dataBytes extra ∧
    (m.tooFull = true → ∀ fr ∈ extra, fr.cmd ≠ DATA) ∧ (∀ fr ∈ extra, fr.cmd ≠ DATA → fr.data = []) ∧
    dataBytes extra ≤ k

theorem Lat.refl (m : MuxL) : Lat 0 m m :=
  ⟨rfl, [], by simp, by simp [dataBytes], by simp, by simp, by simp [dataBytes]⟩

theorem Lat.mono {k k' : Nat} {m m' : MuxL} (h : Lat k m m') (hk : k ≤ k') : Lat k' m m' := by
  obtain ⟨h1, extra, h2, h3, h4, h5, h6⟩ := h
  exact ⟨h1, extra, h2, h3, h4, h5, by omega⟩

theorem Lat.trans {k1 k2 : Nat} {m1 m2 m3 : MuxL} (h1 : Lat k1 m1 m2) (h2 : Lat k2 m2 m3) :
    Lat (k1 + k2) m1 m3 := by
  obtain ⟨a1, x1, a2, a3, a4, a5, a6⟩ := h1
  obtain ⟨b1, x2, b2, b3, b4, b5, b6⟩ := h2
  refine ⟨b1.trans a1, x1 ++ x2, by rw [b2, a2, List.append_assoc], ?_, ?_, ?_, ?_⟩
  · rw [b3, a3, dataBytes_append]; omega
  · intro ht fr hfr
    rcases List.mem_append.mp hfr with h | h
    · exact a4 ht fr h
    · exact b4 (by rw [a1]; exact ht) fr h
  · intro fr hfr
    rcases List.mem_append.mp hfr with h | h
    · exact a5 fr h
    · exact b5 fr h
  · rw [dataBytes_append]; omega

theorem eof_ne_data : EOF ≠ DATA := Ne.symm cmds_distinct.1
theorem stop_ne_data : STOP ≠ DATA := Ne.symm cmds_distinct.2.1

theorem lat_sendCtl (m : MuxL) (c cmd : Nat) (h : cmd ≠ DATA) : Lat 0 m (m.send c cmd []) := by
  refine ⟨rfl, [⟨c, cmd, []⟩], rfl, ?_, ?_, ?_, ?_⟩
  · simp [MuxL.send, dataBytes, h]
  · intro _ fr hfr; simp only [List.mem_singleton] at hfr; rw [hfr]; exact h
  · intro fr hfr _; simp only [List.mem_singleton] at hfr; rw [hfr]
  · simp [dataBytes, h]

theorem lat_mwNoread (w : MuxW) (m : MuxL) : Lat 0 m (w.noread m).2 := by
  unfold MuxW.noread; split
  · exact Lat.refl m
  · exact lat_sendCtl m _ _ stop_ne_data

theorem lat_mwNowrite (w : MuxW) (m : MuxL) : Lat 0 m (w.nowrite m).2 := by
  unfold MuxW.nowrite; split
  · exact Lat.refl m
  · exact lat_sendCtl m _ _ eof_ne_data

/-- **The gate**: `MuxWrapper.uwrite` takes nothing while `too_full`; otherwise it queues one
TCP_DATA frame of at most the cut. -/
theorem lat_uwrite (w : MuxW) (m : MuxL) (b : Bytes) : Lat Generated.MUX_CUT m (w.uwrite m b).2 := by
  unfold MuxW.uwrite
  by_cases ht : m.tooFull = true
  · simp only [ht, ↓reduceIte]; exact (Lat.refl m).mono (Nat.zero_le _)
  · have ht' : m.tooFull = false := by simpa using ht
    simp only [ht', Bool.false_eq_true, ↓reduceIte]
    refine ⟨rfl, [⟨w.chan, DATA, b.take Generated.MUX_CUT⟩], rfl, ?_, ?_, ?_, ?_⟩
    · simp [MuxL.send, dataBytes]
    · intro h; rw [ht'] at h; cases h
    · intro fr hfr hne; simp only [List.mem_singleton] at hfr; rw [hfr] at hne; exact absurd rfl hne
    · simp only [dataBytes, ↓reduceIte, List.length_take, Nat.add_zero]; exact Nat.min_le_left _ _

theorem lat_sockCopyToMux (s : SockW) (w : MuxW) (m : MuxL) :
    Lat Generated.MUX_CUT m (sockCopyToMux s w m).2.2 := by
  have tail : ∀ (s1 : SockW) (m1 : MuxL), Lat Generated.MUX_CUT m m1 →
      Lat Generated.MUX_CUT m
        (if (popEmpty s1.buf).isEmpty && s1.shutR then
           (({ s1 with buf := popEmpty s1.buf } : SockW), (w.nowrite m1).1, (w.nowrite m1).2)
         else (({ s1 with buf := popEmpty s1.buf } : SockW), w, m1)).2.2 := by
    intro s1 m1 h
    split
    · simpa using h.trans (lat_mwNowrite w m1)
    · exact h
  have h0 : Lat Generated.MUX_CUT m m := (Lat.refl m).mono (Nat.zero_le _)
  unfold sockCopyToMux
  cases hb : s.buf with
  | nil => exact tail s m h0
  | cons b rest =>
    by_cases hbe : b.isEmpty = true
    · simp only [hbe, ↓reduceIte]; exact tail s m h0
    · simp only [hbe, Bool.false_eq_true, ↓reduceIte]
      exact tail { s with buf := b.drop (w.uwrite m b).1 :: rest } _ (lat_uwrite w m b)

theorem lat_dropMux (p : ProxyS) (m : MuxL) : Lat 0 m (p.dropMux m).2 := by
  unfold ProxyS.dropMux; split
  · exact lat_mwNoread { p.mw with buf := [] } m
  · exact Lat.refl m

theorem lat_finish (p : ProxyS) (m : MuxL) (e : ESock) (se : Bool) : Lat 0 m (p.finish m e se).2.1 := by
  unfold ProxyS.finish; split
  · split <;> exact lat_mwNowrite p.mw m
  · exact Lat.refl m

theorem lat_preSelect (p : ProxyS) (m : MuxL) : Lat 0 m (p.preSelectFlags m).2 := by
  unfold ProxyS.preSelectFlags
  by_cases hf : p.sockFirst = true
  · simp only [hf, ↓reduceIte]
    split
    · exact lat_mwNoread p.mw m
    · exact Lat.refl m
  · simp only [hf, Bool.false_eq_true, ↓reduceIte]
    by_cases hs : (if p.mw.shutW = true then p.sw.noread else p.sw).shutW = true
    · rw [if_pos hs]; exact lat_mwNoread p.mw m
    · rw [if_neg hs]; exact Lat.refl m

/-- One whole `Proxy.callback`: `too_full` unchanged, no TCP_DATA queued while `too_full`, at most
one cut (2048 bytes) of stream payload added to `fullness`. -/
theorem lat_cleanup (p : ProxyS) (m : MuxL) (e : ESock) (se : Bool) : Lat 0 m (p.cleanup m e se).2.1 := by
  unfold ProxyS.cleanup
  by_cases hf : p.sockFirst = true
  · simp only [hf, ↓reduceIte]
    exact ((lat_dropMux p.dropSock m).trans (lat_preSelect _ _)).trans (lat_finish _ _ e se)
  · simp only [hf, Bool.false_eq_true, ↓reduceIte]
    exact ((lat_dropMux p m).trans (lat_preSelect _ _)).trans (lat_finish _ _ e se)

theorem lat_callback (p : ProxyS) (m : MuxL) (e : ESock) (io : CbIo) (p' : ProxyS) (m' : MuxL) (e' : ESock)
    (h : p.callback m e io = .ok p' m' e') : Lat Generated.MUX_CUT m m' := by
  obtain ⟨psw, pmw, pok, sf⟩ := p
  unfold ProxyS.callback at h
  simp only at h
  cases htc : psw.tryConnect e io.conn io.shutErr with
  | died => rw [htc] at h; cases h
  | ok s0 e0 =>
    rw [htc] at h
    simp only at h
    generalize s0.fill e0 io.recv io.shutErr = f at h
    obtain ⟨s1, e1⟩ := f
    simp only at h
    cases sf
    case true =>
      simp only [↓reduceIte] at h
      have g1 := lat_sockCopyToMux s1 pmw m
      generalize sockCopyToMux s1 pmw m = g at h g1
      obtain ⟨s2, w2, m2⟩ := g
      simp only at h g1
      generalize muxCopyToSock w2 s2 e1 io.send io.shutErr = k at h
      obtain ⟨w3, s3, e3⟩ := k
      simp only at h
      have g2 := lat_cleanup { sw := s3, mw := w3, ok := pok, sockFirst := true } m2 e3 io.shutErr
      injection h with _ hm _
      subst hm
      have := g1.trans g2
      simpa using this
    case false =>
      simp only [Bool.false_eq_true, ↓reduceIte] at h
      generalize muxCopyToSock pmw s1 e1 io.send io.shutErr = k at h
      obtain ⟨w2, s2, e2⟩ := k
      simp only at h
      have g1 := lat_sockCopyToMux s2 w2 m
      generalize sockCopyToMux s2 w2 m = g at h g1
      obtain ⟨s3, w3, m3⟩ := g
      simp only at h g1
      have g2 := lat_cleanup { sw := s3, mw := w3, ok := pok, sockFirst := false } m3 e2 io.shutErr
      injection h with _ hm _
      subst hm
      have := g1.trans g2
      simpa using this

end Sshuttle.Tunnel
