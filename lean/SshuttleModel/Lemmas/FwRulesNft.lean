/-
C03, nft method: what the table `sshuttle-ipv{4,6}-PORT` does to a packet.
-/
import SshuttleModel.Lemmas.FwRulesNat

namespace Sshuttle.Fw

theorem nftSubnet_match (v6 : Bool) (port : Nat) (s : Subnet) (p : Pkt) (mark : Option String)
    (hs : Spec.WfEntry s) (hfam : s.fam = (if v6 then AF_INET6 else AF_INET)) (hp : p.fam6 = v6) :
    matchRule (nftSubnetRule v6 port s).m p mark = (p.proto == .tcp && Spec.entryMatches s p) := by
  subst hp
  obtain ⟨fam6, dst, dport, proto, loc, dl, uid, gid, mk, sock, srcLo⟩ := p
  obtain ⟨_, _, hports⟩ := hs
  unfold nftSubnetRule
  have hb : (s.fport == 0) = decide (s.fport = 0) := by rw [Bool.eq_iff_iff]; simp
  have hc : (s.fport = s.lport) = (s.lport = s.fport) := propext eq_comm
  cases fam6 <;> simp only [af_inet, af_inet6, if_true] at hfam <;>
  by_cases hf : s.fport = 0 <;> by_cases hfl : s.lport = s.fport <;> cases s.excl <;> cases proto <;>
  simp [matchRule, destMatch, subnetDest, portsMatch, Spec.entryMatches, Spec.contains, inPrefix,
    Spec.famBits, Spec.pktFam, bits, Spec.anyPort, hfam, hb, hc, hf, hfl, af_inet, af_inet6]
  all_goals
    first
    | omega
    | (rw [Bool.eq_iff_iff]
       simp only [Bool.and_eq_true, beq_iff_eq, decide_eq_true_eq]
       omega)
    | (rw [Bool.eq_iff_iff]
       simp only [Bool.and_eq_true, beq_iff_eq, decide_eq_true_eq]
       constructor
       · intro h; exact ⟨h.1, by omega, by omega⟩
       · intro h; exact ⟨h.1, by omega⟩)

theorem nftSubnet_target (v6 : Bool) (port : Nat) (s : Subnet) :
    (nftSubnetRule v6 port s).t = if s.excl then .ret else .redirect port := by
  unfold nftSubnetRule; cases s.excl <;> rfl

theorem nftDns_match (v6 : Bool) (dnsport : Nat) (ns : Ns) (p : Pkt) (mark : Option String)
    (hp : p.fam6 = v6) :
    matchRule (nftDnsRule v6 dnsport ns).m p mark =
      (p.proto == .udp && p.dport == 53 && ns.addr == p.dst) := by
  subst hp
  obtain ⟨fam6, dst, dport, proto, loc, dl, uid, gid, mk, sock, srcLo⟩ := p
  have h53 : Gen.C03.NFT_DNS_PORT = 53 := rfl
  cases fam6 <;> cases proto <;>
  simp [matchRule, nftDnsRule, destMatch, portsMatch, inPrefix, bits, h53, Bool.and_comm]

/-- The chain of the nft table, for a packet whose destination is not local. -/
theorem nftChain_verdict (c : Call) (call : ChainName → Option String → Res) (p : Pkt)
    (mark : Option String)
    (hfam : c.family = AF_INET ∨ c.family = AF_INET6)
    (hwf : ∀ s ∈ c.subnets, Spec.WfEntry s ∧ s.fam = c.family)
    (hnl : p.dstLocal = false) :
    (walkList call p (nftChainRules c) mark).verdict =
      if p.fam6 = isV6 c.family then natChainExpected c p else .untouched := by
  have hrev : Gen.C03.NFT_SORT_REVERSE = true := rfl
  have hsimple : ∀ r ∈ nftChainRules c, r.t.simple = true := by
    intro r hr
    simp only [nftChainRules, List.mem_append, List.mem_map, List.mem_singleton] at hr
    rcases hr with ((rfl | ⟨ns, _, rfl⟩) | rfl) | ⟨s, _, rfl⟩
    · rfl
    · rfl
    · rfl
    · rw [nftSubnet_target]; cases s.excl <;> rfl
  rw [walkList_simple _ _ _ _ hsimple]
  unfold nftChainRules natChainExpected
  simp only [hrev, sortBy, if_true]
  rw [List.append_assoc, List.append_assoc, List.singleton_append]
  by_cases hp : p.fam6 = isV6 c.family
  · rw [if_pos hp]
    have hg : ¬ matchRule (nftGuard (isV6 c.family)).m p mark = true := by
      simp [nftGuard, matchRule, hp]
    rw [List.find?_cons_of_neg (by simpa using hg), List.find?_append, List.singleton_append]
    have hD := dns_find c (nftDnsRule (isV6 c.family) c.dnsport) p mark hfam hp
      (fun ns => nftDns_match _ _ ns p mark hp)
    have hDt : ∀ r ∈ (c.nslist.filter (·.fam == c.family)).map (nftDnsRule (isV6 c.family) c.dnsport),
        r.t = .redirect c.dnsport := by
      intro r hr
      simp only [List.mem_map] at hr
      obtain ⟨ns, _, rfl⟩ := hr
      rfl
    cases hfd : ((c.nslist.filter (·.fam == c.family)).map (nftDnsRule (isV6 c.family) c.dnsport)).find?
        (fun r => matchRule r.m p mark) with
    | some r =>
      rw [hfd] at hD
      simp only [Option.isSome_some] at hD
      rw [← hD]
      simp only [Option.some_or, if_true]
      rw [hDt r (List.mem_of_find?_eq_some hfd)]
      rfl
    | none =>
      rw [hfd] at hD
      simp only [Option.isSome_none] at hD
      rw [← hD]
      simp only [Option.none_or, Bool.false_eq_true, if_false]
      have hl : ¬ matchRule localReturn.m p mark = true := by simp [localReturn, matchRule, hnl]
      rw [List.find?_cons_of_neg (by simpa using hl), List.find?_map]
      have hq : ∀ s ∈ c.subnets,
          ((fun r => matchRule r.m p mark) ∘ nftSubnetRule (isV6 c.family) c.port) s
            = (p.proto == .tcp && Spec.entryMatches s p) := by
        intro s hs
        simp only [Function.comp]
        exact nftSubnet_match _ _ s p mark (hwf s hs).1
          (by rw [(hwf s hs).2]; exact famOf_isV6 hfam) hp
      cases hpr : p.proto with
      | udp =>
        have hnone : (sortDesc c.subnets).find?
            ((fun r => matchRule r.m p mark) ∘ nftSubnetRule (isV6 c.family) c.port) = none := by
          rw [List.find?_eq_none]
          intro s hs
          rw [hq s (mem_sortDesc.mp hs), hpr]
          simp
        rw [hnone]
        simp [Res.verdict]
      | tcp =>
        have hq' : ∀ s ∈ c.subnets,
            ((fun r => matchRule r.m p mark) ∘ nftSubnetRule (isV6 c.family) c.port) s
              = Spec.entryMatches s p := by
          intro s hs; rw [hq s hs, hpr]; simp
        have hspec := find?_sortDesc_spec c.subnets _ p hq' (fun s hs => (hwf s hs).1)
        cases hfs : (sortDesc c.subnets).find?
            ((fun r => matchRule r.m p mark) ∘ nftSubnetRule (isV6 c.family) c.port) with
        | none =>
          rw [hfs] at hspec
          simp only at hspec
          simp [hspec, Res.verdict]
        | some s0 =>
          rw [hfs] at hspec
          simp only at hspec
          obtain ⟨_, _, hms⟩ := hspec
          simp only [Option.map_some, hms, nftSubnet_target]
          cases s0.excl <;> simp [termRes, Res.verdict]
  · rw [if_neg hp]
    have hg : matchRule (nftGuard (isV6 c.family)).m p mark = true := by
      simp [nftGuard, matchRule, hp]
    rw [List.find?_cons_of_pos (by simpa using hg)]
    rfl

theorem nft_load_chain (c : Call) :
    (load (nftCmds c)).get ⟨.nft (isV6 c.family) c.port, .nft (isV6 c.family) c.port⟩ =
      nftChainRules c := by
  unfold nftCmds load
  rw [List.foldl_append, foldl_nftRule_get]
  simp [applyCmd, Ruleset.set, Ruleset.get, Ruleset.empty]

theorem nft_load_output (c : Call) :
    (load (nftCmds c)).get ⟨.nft (isV6 c.family) c.port, .nftOutput⟩ =
      [⟨{}, .jump (.nft (isV6 c.family) c.port)⟩] := by
  unfold nftCmds load
  rw [List.foldl_append, foldl_nftRule_get]
  simp [applyCmd, Ruleset.set, Ruleset.get, Ruleset.empty]

theorem nft_load_prerouting (c : Call) :
    (load (nftCmds c)).get ⟨.nft (isV6 c.family) c.port, .nftPrerouting⟩ =
      [⟨{}, .jump (.nft (isV6 c.family) c.port)⟩] := by
  unfold nftCmds load
  rw [List.foldl_append, foldl_nftRule_get]
  simp [applyCmd, Ruleset.set, Ruleset.get, Ruleset.empty]

/-- One nft table (one `setup_firewall` call) seen by a packet of either family. -/
theorem nft_table_verdict (c : Call) (p : Pkt) (mark : Option String)
    (hfam : c.family = AF_INET ∨ c.family = AF_INET6)
    (hwf : ∀ s ∈ c.subnets, Spec.WfEntry s ∧ s.fam = c.family)
    (hnl : p.dstLocal = false) :
    (walkChain (load (nftCmds c)) (.nft (isV6 c.family) c.port) p walkFuel
        (if p.loc then .nftOutput else .nftPrerouting) mark).verdict =
      if p.fam6 = isV6 c.family then Spec.expectedCall c false false p else .untouched := by
  have hb : (load (nftCmds c)).get ⟨.nft (isV6 c.family) c.port,
      (if p.loc then .nftOutput else .nftPrerouting)⟩ = [⟨{}, .jump (.nft (isV6 c.family) c.port)⟩] := by
    cases p.loc
    · exact nft_load_prerouting c
    · exact nft_load_output c
  show (walkChain _ _ _ (3 + 1) _ _).verdict = _
  rw [walkChain_succ, hb, walkList_jump_single]
  rw [walkChain_succ, nft_load_chain, nftChain_verdict c _ p mark hfam hwf hnl]
  simp [matchRule, Spec.expectedCall, natChainExpected]

end Sshuttle.Fw
