/-
`inet_pton(AF_INET6, …)` (library model `Inet.pton6`) reads every IPv6 spelling of
`Spec/Args.lean` as the address it denotes: induction over the group list, the three ways a
text can end (`::`, a last group, a dotted-quad tail), and the final `::` expansion.
Also `inet_pton4` on a dotted quad.
-/
import SshuttleModel.Lemmas.ArgsRx

namespace Sshuttle.ArgsSpec
open Sshuttle.Inet Sshuttle.Args

/-! ### one group -/

theorem hexVal_char (h : HexDigit) (hd : h.d < 16) : hexVal? h.char = some h.d := by
  unfold HexDigit.char
  split
  · exact hexVal_digitCharU _ hd
  · exact hexVal_digitChar _ hd

theorem pton6_digit (h : HexDigit) (hd : h.d < 16) (src : Str) (st : P6)
    (hseen : st.seen < 4) (hval : st.val * 16 + h.d ≤ 0xffff) :
    pton6Loop (h.char :: src) st =
      pton6Loop src { st with val := st.val * 16 + h.d, seen := st.seen + 1 } := by
  rw [pton6Loop]
  have h1 : ¬ st.seen = 4 := by omega
  have h2 : ¬ st.val * 16 + h.d > 0xffff := by omega
  simp [hexVal_char h hd, h1, h2]

/-- the digits of one group, read from a group boundary -/
theorem pton6_hextet (g : Hextet) (hg : g.Valid) (rest : Str) (ws : List Nat) (cp : Option Nat) (ct : Str) :
    pton6Loop (hextetText g ++ rest) ⟨ws, cp, 0, 0, ct⟩ = pton6Loop rest ⟨ws, cp, g.length, hextetVal g, ct⟩ ∧
    hextetVal g ≤ 0xffff ∧ 0 < g.length := by
  obtain ⟨h1, h2, h3⟩ := hg
  match g, h1, h2, h3 with
  | [a], _, _, h3 =>
    have ha := h3 a (by simp)
    refine ⟨?_, ?_, by simp⟩
    · simp only [hextetText, List.map_cons, List.map_nil, List.cons_append, List.nil_append]
      rw [pton6_digit a ha _ _ (by simp) (by simp; omega)]
      simp [hextetVal]
    · simp [hextetVal]; omega
  | [a, b], _, _, h3 =>
    have ha := h3 a (by simp)
    have hb := h3 b (by simp)
    refine ⟨?_, ?_, by simp⟩
    · simp only [hextetText, List.map_cons, List.map_nil, List.cons_append, List.nil_append]
      rw [pton6_digit a ha _ _ (by simp) (by simp; omega)]
      rw [pton6_digit b hb _ _ (by simp) (by simp; omega)]
      simp [hextetVal]
    · simp [hextetVal]; omega
  | [a, b, c], _, _, h3 =>
    have ha := h3 a (by simp)
    have hb := h3 b (by simp)
    have hc := h3 c (by simp)
    refine ⟨?_, ?_, by simp⟩
    · simp only [hextetText, List.map_cons, List.map_nil, List.cons_append, List.nil_append]
      rw [pton6_digit a ha _ _ (by simp) (by simp; omega)]
      rw [pton6_digit b hb _ _ (by simp) (by simp; omega)]
      rw [pton6_digit c hc _ _ (by simp) (by simp; omega)]
      simp [hextetVal]
    · simp [hextetVal]; omega
  | [a, b, c, d], _, _, h3 =>
    have ha := h3 a (by simp)
    have hb := h3 b (by simp)
    have hc := h3 c (by simp)
    have hd := h3 d (by simp)
    refine ⟨?_, ?_, by simp⟩
    · simp only [hextetText, List.map_cons, List.map_nil, List.cons_append, List.nil_append]
      rw [pton6_digit a ha _ _ (by simp) (by simp; omega)]
      rw [pton6_digit b hb _ _ (by simp) (by simp; omega)]
      rw [pton6_digit c hc _ _ (by simp) (by simp; omega)]
      rw [pton6_digit d hd _ _ (by simp) (by simp; omega)]
      simp [hextetVal]
    · simp [hextetVal]; omega
  | [], h1, _, _ => simp at h1
  | _ :: _ :: _ :: _ :: _ :: _, _, h2, _ => simp at h2

theorem hexVal_colon : hexVal? ':' = none := by decide
theorem hexVal_dot : hexVal? '.' = none := by decide

/-- a group and the colon after it: the word is stored -/
theorem pton6_group_colon (g : Hextet) (hg : g.Valid) (rest : Str) (hrest : rest ≠ [])
    (ws : List Nat) (hws : ws.length + 1 ≤ 8) (cp : Option Nat) (ct : Str) :
    pton6Loop (hextetText g ++ ':' :: rest) ⟨ws, cp, 0, 0, ct⟩ =
      pton6Loop rest ⟨ws ++ [hextetVal g], cp, 0, 0, rest⟩ := by
  obtain ⟨h, _, hpos⟩ := pton6_hextet g hg (':' :: rest) ws cp ct
  rw [h, pton6Loop]
  have h1 : ¬ g.length = 0 := by omega
  have h2 : rest.isEmpty = false := by cases rest with
    | nil => exact absurd rfl hrest
    | cons _ _ => rfl
  have h3 : ¬ ws.length + 1 > 8 := by omega
  simp [hexVal_colon, h1, h2, h3]

/-! ### the group list -/

/-- **Induction over the group list**: groups, each followed by its colon, are stored in order. -/
theorem pton6_groups (gs : List Hextet) (hgs : ∀ g ∈ gs, g.Valid) :
    ∀ (rest : Str) (ws : List Nat) (cp : Option Nat) (ct : Str),
      (gs = [] → ct = rest) → (gs = [] ∨ rest ≠ []) → ws.length + gs.length ≤ 8 →
      pton6Loop (sepG gs ++ rest) ⟨ws, cp, 0, 0, ct⟩ =
        pton6Loop rest ⟨ws ++ gs.map hextetVal, cp, 0, 0, rest⟩ := by
  induction gs with
  | nil =>
    intro rest ws cp ct hct _ _
    simp [sepG, hct rfl]
  | cons g r ih =>
    intro rest ws cp ct _ hrest hlen
    have hrest' : rest ≠ [] := by
      rcases hrest with h | h
      · cases h
      · exact h
    simp only [sepG, List.cons_append, List.append_assoc, List.length_cons] at hlen ⊢
    have hne : sepG r ++ rest ≠ [] := by
      intro h
      have := List.append_eq_nil_iff.mp h
      exact hrest' this.2
    rw [pton6_group_colon g (hgs g (by simp)) (sepG r ++ rest) hne ws (by omega) cp ct]
    rw [ih (fun x hx => hgs x (by simp [hx])) rest (ws ++ [hextetVal g]) cp (sepG r ++ rest)
      (by intro h; subst h; simp [sepG]) (Or.inr hrest') (by simp; omega)]
    simp


/-! ### dotted quads: `render 10` of an octet, `inet_pton4` -/

theorem render10_1 (o : Nat) (h : o < 10) : render 10 o = [digitChar o] :=
  renderWith_lt digitChar 10 o (Or.inl h)

theorem render10_2 (o : Nat) (h1 : 10 ≤ o) (h2 : o < 100) :
    render 10 o = [digitChar (o / 10), digitChar (o % 10)] := by
  unfold render
  rw [renderWith_ge digitChar 10 o (by omega), renderWith_lt digitChar 10 (o / 10) (by omega)]
  rfl

theorem render10_3 (o : Nat) (h1 : 100 ≤ o) (h2 : o < 1000) :
    render 10 o = [digitChar (o / 100), digitChar (o / 10 % 10), digitChar (o % 10)] := by
  unfold render
  rw [renderWith_ge digitChar 10 o (by omega), renderWith_ge digitChar 10 (o / 10) (by omega),
    renderWith_lt digitChar 10 (o / 10 / 10) (by omega)]
  have : o / 10 / 10 = o / 100 := by omega
  rw [this]; rfl

theorem digitChar_toNat (d : Nat) (h : d < 10) : (digitChar d).toNat = 48 + d := by
  have : d = 0 ∨ d = 1 ∨ d = 2 ∨ d = 3 ∨ d = 4 ∨ d = 5 ∨ d = 6 ∨ d = 7 ∨ d = 8 ∨ d = 9 := by omega
  rcases this with rfl | rfl | rfl | rfl | rfl | rfl | rfl | rfl | rfl | rfl <;> decide

theorem pton4_first_digit (d : Nat) (hd : d < 10) (src : Str) (done : List Nat) (k : Nat) (hk : k < 4) :
    pton4Loop (digitChar d :: src) ⟨done, 0, false, k⟩ = pton4Loop src ⟨done, d, true, k + 1⟩ := by
  rw [pton4Loop]
  have h1 : ¬ d > 255 := by omega
  have h2 : ¬ k + 1 > 4 := by omega
  simp [isDigit_digitChar d hd, digitChar_toNat d hd, h1, h2]

theorem pton4_next_digit (d : Nat) (hd : d < 10) (src : Str) (done : List Nat) (cur k : Nat)
    (hcur : cur ≠ 0) (hnew : cur * 10 + d ≤ 255) :
    pton4Loop (digitChar d :: src) ⟨done, cur, true, k⟩ = pton4Loop src ⟨done, cur * 10 + d, true, k⟩ := by
  rw [pton4Loop]
  have h1 : ¬ cur * 10 + d > 255 := by omega
  simp [isDigit_digitChar d hd, digitChar_toNat d hd, h1, hcur]

/-- one decimal octet without leading zeros -/
theorem pton4_octet (o : Nat) (ho : o ≤ 255) (rest : Str) (done : List Nat) (k : Nat) (hk : k < 4) :
    pton4Loop (render 10 o ++ rest) ⟨done, 0, false, k⟩ = pton4Loop rest ⟨done, o, true, k + 1⟩ := by
  by_cases h1 : o < 10
  · rw [render10_1 o h1]
    exact pton4_first_digit o h1 _ done k hk
  · by_cases h2 : o < 100
    · rw [render10_2 o (by omega) h2]
      simp only [List.cons_append, List.nil_append]
      rw [pton4_first_digit _ (by omega) _ done k hk,
        pton4_next_digit _ (Nat.mod_lt _ (by omega)) _ done _ (k + 1) (by omega) (by omega)]
      have : o / 10 * 10 + o % 10 = o := by omega
      rw [this]
    · rw [render10_3 o (by omega) (by omega)]
      simp only [List.cons_append, List.nil_append]
      rw [pton4_first_digit _ (by omega) _ done k hk,
        pton4_next_digit _ (Nat.mod_lt _ (by omega)) _ done _ (k + 1) (by omega) (by omega),
        pton4_next_digit _ (Nat.mod_lt _ (by omega)) _ done _ (k + 1) (by omega) (by omega)]
      have : (o / 100 * 10 + o / 10 % 10) * 10 + o % 10 = o := by omega
      rw [this]

theorem pton4_dot (src : Str) (done : List Nat) (cur k : Nat) (hk : k ≠ 4) :
    pton4Loop ('.' :: src) ⟨done, cur, true, k⟩ = pton4Loop src ⟨done ++ [cur], 0, false, k⟩ := by
  rw [pton4Loop]
  have : isDigit '.' = false := by decide
  simp [this, hk]

theorem dotted_shape (v : Nat) :
    dotted v = render 10 (v / 2 ^ 24 % 256) ++ '.' :: (render 10 (v / 2 ^ 16 % 256) ++ '.' ::
      (render 10 (v / 2 ^ 8 % 256) ++ '.' :: render 10 (v % 256))) := by
  simp [dotted, List.append_assoc]

/-- **`inet_pton4` reads the canonical dotted quad of `v` as `v`.** -/
theorem pton4_dotted (v : Nat) (hv : v < 2 ^ 32) : pton4 (dotted v) = some v := by
  unfold pton4
  have hloop : pton4Loop (dotted v) {} =
      some ⟨[v / 2 ^ 24 % 256, v / 2 ^ 16 % 256, v / 2 ^ 8 % 256], v % 256, true, 4⟩ := by
    rw [dotted_shape]
    show pton4Loop _ ⟨[], 0, false, 0⟩ = _
    rw [pton4_octet _ (by omega) _ _ 0 (by omega), pton4_dot _ _ _ _ (by omega),
      pton4_octet _ (by omega) _ _ 1 (by omega), pton4_dot _ _ _ _ (by omega),
      pton4_octet _ (by omega) _ _ 2 (by omega), pton4_dot _ _ _ _ (by omega)]
    have := pton4_octet (v % 256) (by omega) [] ([] ++ [v / 2 ^ 24 % 256] ++ [v / 2 ^ 16 % 256] ++ [v / 2 ^ 8 % 256]) 3 (by omega)
    rw [List.append_nil] at this
    rw [this]
    simp [pton4Loop]
  rw [hloop]
  simp
  omega

/-! ### how a text ends -/

/-- what `inet_pton6` does after the loop, in terms of the words written (pending group included) -/
def finishWords (w : List Nat) (cp : Option Nat) : Option Nat :=
  match cp with
  | none => if w.length = 8 then some (wordsVal w) else none
  | some c =>
    if w.length = 8 then none
    else if (w.take c ++ List.replicate (8 - w.length) 0 ++ w.drop c).length = 8 then
      some (wordsVal (w.take c ++ List.replicate (8 - w.length) 0 ++ w.drop c))
    else none

theorem finish_no_pending (ws : List Nat) (cp : Option Nat) (vl : Nat) (ct : Str) :
    pton6Finish ⟨ws, cp, 0, vl, ct⟩ = finishWords ws cp := by
  unfold pton6Finish finishWords
  cases cp with
  | none => simp
  | some c => by_cases h8 : ws.length = 8 <;> simp [h8]

theorem finish_pending (ws : List Nat) (cp : Option Nat) (sn vl : Nat) (ct : Str)
    (hsn : 0 < sn) (hlen : ws.length + 1 ≤ 8) :
    pton6Finish ⟨ws, cp, sn, vl, ct⟩ = finishWords (ws ++ [vl]) cp := by
  unfold pton6Finish finishWords
  have h1 : ¬ ws.length + 1 > 8 := by omega
  cases cp with
  | none => simp [hsn, h1]
  | some c => by_cases h8 : ws.length = 7 <;> simp [hsn, h1, h8]

theorem digitChar_as_hex (d : Nat) : digitChar d = (⟨d, false⟩ : HexDigit).char := rfl

theorem pton6_quad_aux (v : Nat) (ws : List Nat) (hws : ws.length + 2 ≤ 8) (cp : Option Nat)
    (ct : Str) (hct : pton4 ct = some v) (o : Nat) (ho : o ≤ 255) (tl : Str) :
    ∃ vl, pton6Loop (render 10 o ++ '.' :: tl) ⟨ws, cp, 0, 0, ct⟩ =
      some ⟨ws ++ [v / 65536, v % 65536], cp, 0, vl, ct⟩ := by
  have hdot : ∀ (sn vl : Nat) (src : Str),
      pton6Loop ('.' :: src) ⟨ws, cp, sn, vl, ct⟩ =
        some ⟨ws ++ [v / 65536, v % 65536], cp, 0, vl, ct⟩ := by
    intro sn vl src
    rw [pton6Loop]
    have : ('.' : Char) ≠ ':' := by decide
    simp [hexVal_dot, this, hws, hct]
  by_cases h1 : o < 10
  · rw [render10_1 o h1]
    refine ⟨0 * 16 + o, ?_⟩
    simp only [List.cons_append, List.nil_append, digitChar_as_hex]
    rw [pton6_digit ⟨o, false⟩ (by simp; omega) _ _ (by simp) (by simp; omega)]
    exact hdot _ _ _
  · by_cases h2 : o < 100
    · rw [render10_2 o (by omega) h2]
      refine ⟨(0 * 16 + o / 10) * 16 + o % 10, ?_⟩
      simp only [List.cons_append, List.nil_append, digitChar_as_hex]
      rw [pton6_digit ⟨o / 10, false⟩ (by simp; omega) _ _ (by simp) (by simp; omega)]
      rw [pton6_digit ⟨o % 10, false⟩ (by simp; omega) _ _ (by simp) (by simp; omega)]
      exact hdot _ _ _
    · rw [render10_3 o (by omega) (by omega)]
      refine ⟨((0 * 16 + o / 100) * 16 + o / 10 % 10) * 16 + o % 10, ?_⟩
      simp only [List.cons_append, List.nil_append, digitChar_as_hex]
      rw [pton6_digit ⟨o / 100, false⟩ (by simp; omega) _ _ (by simp) (by simp; omega)]
      rw [pton6_digit ⟨o / 10 % 10, false⟩ (by simp; omega) _ _ (by simp) (by simp; omega)]
      rw [pton6_digit ⟨o % 10, false⟩ (by simp; omega) _ _ (by simp) (by simp; omega)]
      exact hdot _ _ _

/-- the dotted-quad tail: its first octet is swallowed as hex digits, the `.` hands the whole
token to `inet_pton4`, two words are stored and the loop ends -/
theorem pton6_quad (v : Nat) (hv : v < 2 ^ 32) (ws : List Nat) (hws : ws.length + 2 ≤ 8) (cp : Option Nat) :
    ∃ vl, pton6Loop (dotted v) ⟨ws, cp, 0, 0, dotted v⟩ =
      some ⟨ws ++ [v / 65536, v % 65536], cp, 0, vl, dotted v⟩ := by
  obtain ⟨vl, h⟩ := pton6_quad_aux v ws hws cp (dotted v) (pton4_dotted v hv) (v / 2 ^ 24 % 256) (by omega)
    (render 10 (v / 2 ^ 16 % 256) ++ '.' :: (render 10 (v / 2 ^ 8 % 256) ++ '.' :: render 10 (v % 256)))
  refine ⟨vl, ?_⟩
  have e := dotted_shape v
  rw [← e] at h
  exact h

/-- the end of the text, from a group boundary: loop result and final step together -/
theorem pton6_end (e : End6) (he : e.Valid) (ws : List Nat) (hws : ws.length + e.words.length ≤ 8)
    (cp : Option Nat) :
    ∃ st, pton6Loop e.text ⟨ws, cp, 0, 0, e.text⟩ = some st ∧
      pton6Finish st = finishWords (ws ++ e.words) cp := by
  cases e with
  | nothing =>
    refine ⟨⟨ws, cp, 0, 0, []⟩, by simp [End6.text, pton6Loop], ?_⟩
    rw [finish_no_pending]; simp [End6.words]
  | group g =>
    simp only [End6.Valid] at he
    simp only [End6.words, List.length_singleton] at hws
    obtain ⟨h, _, hpos⟩ := pton6_hextet g he [] ws cp (hextetText g)
    rw [List.append_nil] at h
    refine ⟨⟨ws, cp, g.length, hextetVal g, hextetText g⟩, by simp [End6.text, h, pton6Loop], ?_⟩
    rw [finish_pending _ _ _ _ _ hpos hws]; rfl
  | quad v =>
    simp only [End6.Valid] at he
    simp only [End6.words, List.length_cons, List.length_nil] at hws
    obtain ⟨vl, h⟩ := pton6_quad v he ws (by omega) cp
    refine ⟨_, by simpa [End6.text] using h, ?_⟩
    rw [finish_no_pending]; rfl


/-! ### the whole address -/

theorem finishWords_full (w : List Nat) (h : w.length = 8) : finishWords w none = some (wordsVal w) := by
  simp [finishWords, h]

theorem finishWords_compressed (a b : List Nat) (h : a.length + b.length ≤ 7) :
    finishWords (a ++ b) (some a.length) =
      some (wordsVal (a ++ (List.replicate (8 - (a.length + b.length)) 0 ++ b))) := by
  unfold finishWords
  have h1 : ¬ (a ++ b).length = 8 := by simp; omega
  have ht : (a ++ b).take a.length = a := by simp
  have hd : (a ++ b).drop a.length = b := by simp
  have h2 : (a ++ List.replicate (8 - (a ++ b).length) 0 ++ b).length = 8 := by
    simp; omega
  simp only [ht, hd]
  rw [if_neg h1, if_pos h2]
  simp [List.append_assoc]

theorem pton6Start_of_ne (c : Char) (t : Str) (h : c ≠ ':') : pton6Start (c :: t) = some (c :: t) := by
  unfold pton6Start
  split
  · next t' heq => injection heq with h1 _; exact absurd h1 h
  · rfl

theorem hextetText_head (g : Hextet) (hg : g.Valid) : ∃ c t, hextetText g = c :: t ∧ c ≠ ':' := by
  obtain ⟨h1, _, h3⟩ := hg
  cases g with
  | nil => simp at h1
  | cons a r =>
    refine ⟨a.char, r.map HexDigit.char, rfl, ?_⟩
    intro e
    have := hexVal_char a (h3 a (by simp))
    rw [e, hexVal_colon] at this
    cases this

theorem sepG_head (g : Hextet) (r : List Hextet) (hg : g.Valid) (rest : Str) :
    ∃ c t, sepG (g :: r) ++ rest = c :: t ∧ c ≠ ':' := by
  obtain ⟨c, t, h, hc⟩ := hextetText_head g hg
  exact ⟨c, t ++ ':' :: (sepG r ++ rest), by simp [sepG, h], hc⟩

theorem pton6_colon_mark (src : Str) (ws : List Nat) (ct : Str) :
    pton6Loop (':' :: src) ⟨ws, none, 0, 0, ct⟩ = pton6Loop src ⟨ws, some ws.length, 0, 0, src⟩ := by
  rw [pton6Loop]
  simp [hexVal_colon]

theorem end_text_ne (e : End6) (he : e.Valid) (hn : e.isNothing = false) : e.text ≠ [] := by
  cases e with
  | nothing => cases hn
  | group g =>
    obtain ⟨c, t, h, _⟩ := hextetText_head g he
    simp [End6.text, h]
  | quad v =>
    simp only [End6.text, dotted_shape]
    have := render10_ne_nil (v / 2 ^ 24 % 256)
    intro h
    exact this (List.append_eq_nil_iff.mp h).1

/-- **`inet_pton6` reads every spelling as the address it denotes.** -/
theorem pton6_spell (sp : Spell6) (h : sp.Valid) : pton6 sp.text = some sp.denotes := by
  cases sp with
  | full gs e =>
    obtain ⟨hgs, he, hn, hlen⟩ := h
    have hwl : e.words.length ≤ 2 := by cases e <;> simp [End6.words]
    cases gs with
    | nil => simp at hlen; omega
    | cons g r =>
      obtain ⟨c, t, hct, hc⟩ := sepG_head g r (hgs g (by simp)) e.text
      have hte := end_text_ne e he hn
      simp only [Spell6.text, Spell6.denotes]
      have hstart : pton6Start (sepG (g :: r) ++ e.text) = some (sepG (g :: r) ++ e.text) := by
        rw [hct]; exact pton6Start_of_ne c t hc
      have hloop := pton6_groups (g :: r) hgs e.text [] none (sepG (g :: r) ++ e.text)
        (by intro h; cases h) (Or.inr hte) (by simp at hlen ⊢; omega)
      obtain ⟨st, hst, hfin⟩ := pton6_end e he ([] ++ (g :: r).map hextetVal)
        (by simp at hlen ⊢; omega) none
      have hne : sepG (g :: r) ++ e.text ≠ [] := by rw [hct]; simp
      unfold pton6
      split
      · next heq => exact absurd heq hne
      · rw [hstart]
        simp only
        have : pton6Loop (sepG (g :: r) ++ e.text) { curtok := sepG (g :: r) ++ e.text } =
            pton6Loop (sepG (g :: r) ++ e.text) ⟨[], none, 0, 0, sepG (g :: r) ++ e.text⟩ := rfl
        rw [this, hloop, hst]
        simp only [hfin]
        rw [finishWords_full _ (by simp at hlen ⊢; omega)]
        simp
  | compressed l r e =>
    obtain ⟨hl, hr, he, hlen, hnr⟩ := h
    simp only [Spell6.text, Spell6.denotes]
    -- the part to the right of `::`
    have hright : ∀ (ws : List Nat), ws.length = l.length →
        ∃ st, pton6Loop (sepG r ++ e.text) ⟨ws, some ws.length, 0, 0, sepG r ++ e.text⟩ = some st ∧
          pton6Finish st = finishWords (ws ++ (r.map hextetVal ++ e.words)) (some ws.length) := by
      intro ws hws
      have hcond : r = [] ∨ e.text ≠ [] := by
        cases hn : e.isNothing with
        | true => exact Or.inl (hnr hn)
        | false => exact Or.inr (end_text_ne e he hn)
      have hloop := pton6_groups r hr e.text ws (some ws.length) (sepG r ++ e.text)
        (by intro h; subst h; simp [sepG]) hcond (by omega)
      obtain ⟨st, hst, hfin⟩ := pton6_end e he (ws ++ r.map hextetVal) (by simp; omega) (some ws.length)
      exact ⟨st, by rw [hloop, hst], by rw [hfin, List.append_assoc]⟩
    cases l with
    | nil =>
      obtain ⟨st, hst, hfin⟩ := hright [] rfl
      simp only [List.isEmpty_nil, ↓reduceIte, sepG, List.nil_append, List.cons_append]
      unfold pton6
      simp only [pton6Start]
      have : pton6Loop (':' :: (sepG r ++ e.text)) { curtok := ':' :: (sepG r ++ e.text) } =
          pton6Loop (':' :: (sepG r ++ e.text)) ⟨[], none, 0, 0, ':' :: (sepG r ++ e.text)⟩ := rfl
      rw [this, pton6_colon_mark, hst]
      simp only [hfin]
      have hf := finishWords_compressed [] (r.map hextetVal ++ e.words) (by simp at hlen ⊢; omega)
      simp only [List.nil_append, List.length_nil, List.map_nil] at hf ⊢
      rw [hf]; simp
    | cons g l' =>
      obtain ⟨c, t, hct, hc⟩ := sepG_head g l' (hl g (by simp)) (':' :: (sepG r ++ e.text))
      obtain ⟨st, hst, hfin⟩ := hright ((g :: l').map hextetVal) (by simp)
      simp only [List.isEmpty_cons, Bool.false_eq_true, ↓reduceIte, List.nil_append]
      have hstart : pton6Start (sepG (g :: l') ++ ':' :: (sepG r ++ e.text)) =
          some (sepG (g :: l') ++ ':' :: (sepG r ++ e.text)) := by
        rw [hct]; exact pton6Start_of_ne c t hc
      have hloop := pton6_groups (g :: l') hl (':' :: (sepG r ++ e.text)) [] none
        (sepG (g :: l') ++ ':' :: (sepG r ++ e.text)) (by intro h; cases h) (Or.inr (by simp))
        (by simp at hlen ⊢; omega)
      have hne : sepG (g :: l') ++ ':' :: (sepG r ++ e.text) ≠ [] := by rw [hct]; simp
      unfold pton6
      split
      · next heq => exact absurd heq hne
      · rw [hstart]
        simp only
        have : pton6Loop (sepG (g :: l') ++ ':' :: (sepG r ++ e.text))
              { curtok := sepG (g :: l') ++ ':' :: (sepG r ++ e.text) } =
            pton6Loop (sepG (g :: l') ++ ':' :: (sepG r ++ e.text))
              ⟨[], none, 0, 0, sepG (g :: l') ++ ':' :: (sepG r ++ e.text)⟩ := rfl
        rw [this, hloop, List.nil_append, pton6_colon_mark, hst]
        simp only [hfin]
        have := finishWords_compressed ((g :: l').map hextetVal) (r.map hextetVal ++ e.words)
          (by simp at hlen ⊢; omega)
        rw [this]
        simp [Nat.add_assoc]

end Sshuttle.ArgsSpec
