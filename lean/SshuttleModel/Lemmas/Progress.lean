/-
No lost wake-up, at the level of one handler: whenever a handler has work — bytes buffered for the
mux, bytes buffered for its socket, something to read — `Proxy.pre_select` asks for exactly the
readiness that work needs (`ProxyS.wants`), and the `Proxy.callback` that is given that readiness
makes progress.  Used by Props/C02.
-/
import SshuttleModel.Lemmas.SockInv
import SshuttleModel.Lemmas.FrameKinds

namespace Sshuttle.Tunnel
open Sshuttle.Mux (Frame)
open Sshuttle.Wrap

/-! ### small facts about single operations -/

theorem muxCopyToSock_swbuf (w : MuxW) (s : SockW) (e : ESock) (r : SendRes) (se : Bool) :
    (muxCopyToSock w s e r se).2.1.buf = s.buf ∧ (muxCopyToSock w s e r se).2.1.connecting = s.connecting := by
  have nw : ∀ (s : SockW) (e : ESock), (s.nowrite e se).1.buf = s.buf ∧ (s.nowrite e se).1.connecting = s.connecting := by
    intro s e
    unfold SockW.nowrite
    split
    · exact ⟨rfl, rfl⟩
    · split <;> exact ⟨rfl, rfl⟩
  have uw : ∀ b, (s.uwrite e b r se).2.1.buf = s.buf ∧ (s.uwrite e b r se).2.1.connecting = s.connecting := by
    intro b
    unfold SockW.uwrite
    split
    · exact ⟨rfl, rfl⟩
    · simp only
      split
      · exact ⟨rfl, rfl⟩
      · exact ⟨rfl, rfl⟩
      · exact nw s e
      · unfold SockW.seterr SockW.noread
        have := nw { s with exc := true } e
        exact ⟨this.1, this.2⟩
  have tail : ∀ x : MuxW × SockW × ESock, x.2.1.buf = s.buf ∧ x.2.1.connecting = s.connecting →
      (if ({ x.1 with buf := popEmpty x.1.buf } : MuxW).buf.isEmpty && ({ x.1 with buf := popEmpty x.1.buf } : MuxW).shutR then
          (({ x.1 with buf := popEmpty x.1.buf } : MuxW), (x.2.1.nowrite x.2.2 se).1, (x.2.1.nowrite x.2.2 se).2)
        else (({ x.1 with buf := popEmpty x.1.buf } : MuxW), x.2.1, x.2.2)).2.1.buf = s.buf ∧
      (if ({ x.1 with buf := popEmpty x.1.buf } : MuxW).buf.isEmpty && ({ x.1 with buf := popEmpty x.1.buf } : MuxW).shutR then
          (({ x.1 with buf := popEmpty x.1.buf } : MuxW), (x.2.1.nowrite x.2.2 se).1, (x.2.1.nowrite x.2.2 se).2)
        else (({ x.1 with buf := popEmpty x.1.buf } : MuxW), x.2.1, x.2.2)).2.1.connecting = s.connecting := by
    intro x hx
    split
    · have := nw x.2.1 x.2.2
      exact ⟨this.1.trans hx.1, this.2.trans hx.2⟩
    · exact hx
  unfold muxCopyToSock
  cases hb : w.buf with
  | nil => exact tail (w, s, e) ⟨rfl, rfl⟩
  | cons b rest =>
    simp only
    by_cases hbe : b.isEmpty = true
    · simp only [hbe, ↓reduceIte]; exact tail (w, s, e) ⟨rfl, rfl⟩
    · simp only [hbe, Bool.false_eq_true, ↓reduceIte]
      have hu := uw b
      generalize s.uwrite e b r se = u at hu
      obtain ⟨on, s1, e1⟩ := u
      cases on with
      | none => exact tail (w, s1, e1) hu
      | some n => exact tail ({ w with buf := b.drop n :: rest }, s1, e1) hu

/-- With a non-empty first chunk and the mux not paused, `SockWrapper.copy_to(MuxWrapper)` queues a frame. -/
theorem sockCopyToMux_sends (s : SockW) (w : MuxW) (m : MuxL) (b : Bytes) (rest : List Bytes)
    (hb : s.buf = b :: rest) (hne : b.isEmpty = false) (htf : m.tooFull = false) :
    (sockCopyToMux s w m).2.2.out.length > m.out.length := by
  have grow : ∀ m1 : MuxL, m1.out.length > m.out.length →
      ∀ s1 : SockW,
      (if (popEmpty s1.buf).isEmpty && s1.shutR then
           (({ s1 with buf := popEmpty s1.buf } : SockW), (w.nowrite m1).1, (w.nowrite m1).2)
         else (({ s1 with buf := popEmpty s1.buf } : SockW), w, m1)).2.2.out.length > m.out.length := by
    intro m1 h1 s1
    split
    · obtain ⟨extra, he, _⟩ := kinds_mwNowrite w m1
      simp only
      rw [he, List.length_append]; omega
    · exact h1
  unfold sockCopyToMux
  simp only [hb, hne, Bool.false_eq_true, ↓reduceIte]
  have h1 : (w.uwrite m b).2.out.length > m.out.length := by
    unfold MuxW.uwrite
    simp [htf, MuxL.send]
  exact grow (w.uwrite m b).2 h1 { s with buf := b.drop (w.uwrite m b).1 :: rest }

theorem kinds_len {m m' : MuxL} (h : Kinds m m') : m'.out.length ≥ m.out.length := by
  obtain ⟨extra, he, _⟩ := h
  rw [he, List.length_append]; omega

/-! ### progress of a whole callback -/

/-- **Buffered data is sent.**  A handler that is not connecting, holds a non-empty chunk read from
its socket and whose mux is not paused queues at least one frame in its next callback, whatever
the sockets do. -/
theorem callback_sends (p : ProxyS) (m : MuxL) (e : ESock) (io : CbIo) (p' : ProxyS) (m' : MuxL) (e' : ESock)
    (b : Bytes) (rest : List Bytes) (hc : p.sw.connecting = false) (hb : p.sw.buf = b :: rest)
    (hne : b.isEmpty = false) (htf : m.tooFull = false)
    (h : p.callback m e io = .ok p' m' e') : m'.out.length > m.out.length := by
  obtain ⟨psw, pmw, pok, sf⟩ := p
  simp only at hc hb
  unfold ProxyS.callback at h
  simp only at h
  rw [tryConnect_idle psw e io.conn io.shutErr hc] at h
  simp only at h
  have hfill : psw.fill e io.recv io.shutErr = (psw, e) := by
    unfold SockW.fill
    simp [hb]
  rw [hfill] at h
  simp only at h
  cases sf
  case true =>
    simp only [↓reduceIte] at h
    have g1 := sockCopyToMux_sends psw pmw m b rest hb hne htf
    generalize sockCopyToMux psw pmw m = g at h g1
    obtain ⟨s2, w2, m2⟩ := g
    simp only at h g1
    generalize muxCopyToSock w2 s2 e io.send io.shutErr = k at h
    obtain ⟨w3, s3, e3⟩ := k
    simp only at h
    have g2 := kinds_len (kinds_cleanup { sw := s3, mw := w3, ok := pok, sockFirst := true } m2 e3 io.shutErr)
    injection h with _ hm _
    subst hm
    omega
  case false =>
    simp only [Bool.false_eq_true, ↓reduceIte] at h
    have hk := muxCopyToSock_swbuf pmw psw e io.send io.shutErr
    generalize muxCopyToSock pmw psw e io.send io.shutErr = k at h hk
    obtain ⟨w2, s2, e2⟩ := k
    simp only at h hk
    have g1 := sockCopyToMux_sends s2 w2 m b rest (hk.1.trans hb) hne htf
    generalize sockCopyToMux s2 w2 m = g at h g1
    obtain ⟨s3, w3, m3⟩ := g
    simp only at h g1
    have g2 := kinds_len (kinds_cleanup { sw := s3, mw := w3, ok := pok, sockFirst := false } m3 e2 io.shutErr)
    injection h with _ hm _
    subst hm
    omega


/-! ### monotone quantities along the abstract transitions -/

theorem srcStar_consumed {c : Nat} {k : Bool} {a a' : SrcV} (h : Star (SrcStep c k) a a') :
    a'.consumed.length ≥ a.consumed.length := by
  induction h with
  | refl => exact Nat.le_refl _
  | tail _ st ih =>
    cases st with
    | consume x hp hr => simp only [List.length_append]; omega
    | send moved rest hb hne hp => exact ih
    | eof hp hb hr hw => exact ih
    | stopFrame hp hs => exact ih
    | foreign fr hf => exact ih
    | discard hp hw => exact ih
    | flags r w os hr hw hos hk => exact ih
    | remove hp hb hd => exact ih
    | create he r os hos => exact ih

theorem sinkStar_delivered {b b' : SinkV} (h : Star SinkStep b b') : b'.delivered.length ≥ b.delivered.length := by
  induction h with
  | refl => exact Nat.le_refl _
  | tail _ st ih =>
    cases st with
    | deliver moved rest hb hs => simp only [List.length_append]; omega
    | discard hw => exact ih
    | flags r w saw ok h1 h2 h3 h4 h5 h6 => exact ih
    | remove hok hp => exact ih

/-- What no wrapper operation undoes: bytes read, bytes delivered, the socket side's `shut_read`,
the socket's shutdown. -/
theorem OpOk.mono {c : Nat} {s s' : SockW} {w w' : MuxW} {m m' : MuxL} {e e' : ESock} {ok ok' : Bool}
    (h : OpOk c s w m e ok s' w' m' e' ok') :
    e'.consumed.length ≥ e.consumed.length ∧ e'.delivered.length ≥ e.delivered.length ∧
    (s.shutR = true → s'.shutR = true) ∧ (e.sawShut = true → e'.sawShut = true) := by
  have h1 := srcStar_consumed h.src
  have h2 := sinkStar_delivered h.sink
  obtain ⟨_, h3, _⟩ := srcStar_mono h.src rfl
  obtain ⟨_, h4, _⟩ := sinkStar_mono h.sink
  exact ⟨h1, h2, h3, h4⟩

/-! ### reading -/

theorem fill_reads (s : SockW) (e : ESock) (n : Nat) (se : Bool) (hc : s.connecting = false)
    (hb : s.buf = []) (hr : s.shutR = false) (hav : e.pending ≠ [] ∨ e.eofIn = true) :
    (s.fill e (.data n) se).2.consumed.length > e.consumed.length ∨ (s.fill e (.data n) se).1.shutR = true := by
  unfold SockW.fill
  simp only [hb, List.isEmpty_nil, Bool.not_true, Bool.false_eq_true, ↓reduceIte, hc, hr, ESock.recv]
  by_cases hp : e.pending.isEmpty = true
  · have hp' : e.pending = [] := List.isEmpty_iff.mp hp
    have he : e.eofIn = true := by
      rcases hav with h | h
      · exact absurd hp' h
      · exact h
    simp only [hp, ↓reduceIte, he, List.isEmpty_nil]
    right; rfl
  · simp only [hp, Bool.false_eq_true, ↓reduceIte]
    have hne : e.pending ≠ [] := by intro h; rw [h] at hp; simp at hp
    have htake : (e.pending.take (max n 1)).length ≥ 1 := by
      rw [List.length_take]
      have : e.pending.length ≥ 1 := by
        cases hq : e.pending with
        | nil => exact absurd hq hne
        | cons a r => simp
      omega
    have hne' : (e.pending.take (max n 1)).isEmpty = false := by
      cases hq : e.pending.take (max n 1) with
      | nil => rw [hq] at htake; simp at htake
      | cons a r => rfl
    simp only [hne', Bool.false_eq_true, ↓reduceIte]
    left
    simp only [List.length_append]
    omega

/-- **What can be read is read.**  A handler that is not connecting, has an empty buffer, has not
stopped reading and whose endpoint has bytes pending or has closed: the callback given
readability reads at least one byte or notices the end-of-stream (`shut_read`). -/
theorem callback_reads (p : ProxyS) (m : MuxL) (e : ESock) (io : CbIo) (p' : ProxyS) (m' : MuxL) (e' : ESock)
    (n : Nat) (hc : p.sw.connecting = false) (hb : p.sw.buf = []) (hr : p.sw.shutR = false)
    (hrecv : io.recv = .data n) (hav : e.pending ≠ [] ∨ e.eofIn = true)
    (h : p.callback m e io = .ok p' m' e') :
    e'.consumed.length > e.consumed.length ∨ p'.sw.shutR = true := by
  obtain ⟨psw, pmw, pok, sf⟩ := p
  simp only at hc hb hr
  unfold ProxyS.callback at h
  simp only at h
  rw [tryConnect_idle psw e io.conn io.shutErr hc, hrecv] at h
  simp only at h
  have hf := fill_reads psw e n io.shutErr hc hb hr hav
  generalize psw.fill e (.data n) io.shutErr = f at h hf
  obtain ⟨s1, e1⟩ := f
  simp only at h hf
  cases sf
  case true =>
    simp only [↓reduceIte] at h
    have g1 := (sockCopyToMux_ok s1 pmw m e1 pok).mono
    generalize sockCopyToMux s1 pmw m = g at h g1
    obtain ⟨s2, w2, m2⟩ := g
    simp only at h g1
    have g2 := (muxCopyToSock_ok w2.chan w2 s2 m2 e1 pok io.shutErr io.send).mono
    generalize muxCopyToSock w2 s2 e1 io.send io.shutErr = k at h g2
    obtain ⟨w3, s3, e3⟩ := k
    simp only at h g2
    have g3 := (cleanup_ok { sw := s3, mw := w3, ok := pok, sockFirst := true } m2 e3 io.shutErr).1.mono
    injection h with hp _ he
    subst hp; subst he
    rcases hf with hf | hf
    · left; omega
    · right; exact g3.2.2.1 (g2.2.2.1 (g1.2.2.1 hf))
  case false =>
    simp only [Bool.false_eq_true, ↓reduceIte] at h
    have g1 := (muxCopyToSock_ok pmw.chan pmw s1 m e1 pok io.shutErr io.send).mono
    generalize muxCopyToSock pmw s1 e1 io.send io.shutErr = k at h g1
    obtain ⟨w2, s2, e2⟩ := k
    simp only at h g1
    have g2 := (sockCopyToMux_ok s2 w2 m e2 pok).mono
    generalize sockCopyToMux s2 w2 m = g at h g2
    obtain ⟨s3, w3, m3⟩ := g
    simp only at h g2
    have g3 := (cleanup_ok { sw := s3, mw := w3, ok := pok, sockFirst := false } m3 e2 io.shutErr).1.mono
    injection h with hp _ he
    subst hp; subst he
    rcases hf with hf | hf
    · left; omega
    · right; exact g3.2.2.1 (g2.2.2.1 (g1.2.2.1 hf))


/-! ### delivering -/

theorem nowrite_delivered (s : SockW) (e : ESock) (se : Bool) : (s.nowrite e se).2.delivered = e.delivered := by
  unfold SockW.nowrite; simp only; repeat' (first | rfl | split)

theorem fill_keeps (s : SockW) (e : ESock) (r : RecvRes) (se : Bool) :
    (s.fill e r se).1.connecting = s.connecting ∧ (s.fill e r se).2.delivered = e.delivered := by
  unfold SockW.fill
  split
  · exact ⟨rfl, rfl⟩
  · split
    · exact ⟨rfl, rfl⟩
    · split
      · exact ⟨rfl, rfl⟩
      · have hd : (e.recv r).2.2.delivered = e.delivered := by
          unfold ESock.recv
          cases r with
          | eagain => rfl
          | err => rfl
          | data n => simp only; repeat' (first | rfl | split)
        generalize e.recv r = x at hd
        obtain ⟨ob, isErr, e1⟩ := x
        simp only at hd
        cases isErr with
        | true =>
          simp only
          refine ⟨?_, ?_⟩
          · unfold SockW.seterr SockW.nowrite SockW.noread; simp only; repeat' (first | rfl | split)
          · unfold SockW.seterr; simp only [nowrite_delivered]; exact hd
        | false =>
          cases ob with
          | none => exact ⟨rfl, hd⟩
          | some rb => simp only; split <;> exact ⟨rfl, hd⟩

theorem sockCopyToMux_mwbuf (s : SockW) (w : MuxW) (m : MuxL) : (sockCopyToMux s w m).2.1.buf = w.buf := by
  unfold sockCopyToMux MuxW.nowrite
  cases hb : s.buf with
  | nil => simp only; repeat' (first | rfl | split)
  | cons b rest =>
    simp only
    by_cases hbe : b.isEmpty = true
    · simp only [hbe, ↓reduceIte]; repeat' (first | rfl | split)
    · simp only [hbe, Bool.false_eq_true, ↓reduceIte]; repeat' (first | rfl | split)

/-- A writable socket that has not been shut down takes at least one byte of buffered data. -/
theorem muxCopyToSock_delivers (w : MuxW) (s : SockW) (e : ESock) (n : Nat) (se : Bool) (b : Bytes) (rest : List Bytes)
    (hb : w.buf = b :: rest) (hne : b.isEmpty = false) (hc : s.connecting = false) (hs : e.sawShut = false)
    (hn : n ≥ 1) :
    (muxCopyToSock w s e (.sent n) se).2.2.delivered.length > e.delivered.length := by
  have hlen : b.length ≥ 1 := by
    cases b with
    | nil => simp at hne
    | cons a r => simp
  unfold muxCopyToSock SockW.uwrite
  simp only [hb, hne, Bool.false_eq_true, ↓reduceIte, hc, hs]
  split
  · simp only [nowrite_delivered, List.length_append, List.length_take]; omega
  · simp only [List.length_append, List.length_take]; omega

/-- The tail of the callback clears whatever is still buffered for a socket that is shut for
writing. -/
theorem cleanup_clears (p : ProxyS) (m : MuxL) (e : ESock) (se : Bool) (h : p.sw.shutW = true) :
    (p.cleanup m e se).1.mw.buf = [] := by
  have hfin : ∀ (q : ProxyS) (m : MuxL), q.mw.buf = [] → (q.finish m e se).1.mw.buf = [] := by
    intro q m hq
    unfold ProxyS.finish MuxW.nowrite
    split
    · split <;> (simp only; split <;> exact hq)
    · exact hq
  have hdm : ∀ (q : ProxyS) (m : MuxL), q.sw.shutW = true → (q.dropMux m).1.mw.buf = [] := by
    intro q m hq
    unfold ProxyS.dropMux MuxW.noread
    by_cases hbq : q.mw.buf.isEmpty = true
    · simp only [hbq, Bool.not_true, Bool.false_and, Bool.false_eq_true, ↓reduceIte]
      exact List.isEmpty_iff.mp hbq
    · simp only [hbq, hq, Bool.not_false, Bool.and_self, ↓reduceIte]
      split <;> rfl
  have hds : ∀ q : ProxyS, q.dropSock.sw.shutW = q.sw.shutW ∧ q.dropSock.mw = q.mw := by
    intro q; unfold ProxyS.dropSock SockW.noread; split <;> exact ⟨rfl, rfl⟩
  unfold ProxyS.cleanup
  by_cases hf : p.sockFirst = true
  · simp only [hf, ↓reduceIte]
    apply hfin
    rw [(preSelect_fields _ _).2.2.2.2.1]
    apply hdm
    rw [(hds p).1]; exact h
  · simp only [hf, Bool.false_eq_true, ↓reduceIte]
    apply hfin
    rw [(preSelect_fields _ _).2.2.2.2.1, (hds _).2]
    exact hdm p m h

/-- **What can be delivered is delivered.**  A handler that is not connecting and holds bytes for
its socket: the callback given writability hands the socket at least one byte, or — when the
socket has been shut down — drops what it holds (with STOP_SENDING to the peer, `dropMux`). -/
theorem callback_delivers (p : ProxyS) (m : MuxL) (e : ESock) (io : CbIo) (p' : ProxyS) (m' : MuxL) (e' : ESock)
    (n : Nat) (b : Bytes) (rest : List Bytes) (hse : SE p.sw e)
    (hc : p.sw.connecting = false) (hb : p.mw.buf = b :: rest) (hne : b.isEmpty = false)
    (hsend : io.send = .sent n) (hn : n ≥ 1)
    (h : p.callback m e io = .ok p' m' e') :
    e'.delivered.length > e.delivered.length ∨ (e'.sawShut = true ∧ p'.mw.buf = []) := by
  obtain ⟨psw, pmw, pok, sf⟩ := p
  simp only at hc hb hse
  unfold ProxyS.callback at h
  simp only at h
  rw [tryConnect_idle psw e io.conn io.shutErr hc, hsend] at h
  simp only at h
  have hf := fill_keeps psw e io.recv io.shutErr
  have hsf := hse.fill io.recv io.shutErr
  generalize psw.fill e io.recv io.shutErr = f at h hf hsf
  obtain ⟨s1, e1⟩ := f
  simp only at h hf hsf
  obtain ⟨hc1, hd1⟩ := hf
  rw [hc] at hc1
  cases sf
  case true =>
    simp only [↓reduceIte] at h
    have g1 := sockCopyToMux_sw s1 pmw m
    have g1b := sockCopyToMux_mwbuf s1 pmw m
    have hs2 := hsf.copySM pmw m
    generalize sockCopyToMux s1 pmw m = g at h g1 g1b hs2
    obtain ⟨s2, w2, m2⟩ := g
    simp only at h g1 g1b hs2
    rw [hb] at g1b
    have hc2 : s2.connecting = false := by rw [g1.2.2.2]; exact hc1
    have g2 := (muxCopyToSock_ok w2.chan w2 s2 m2 e1 pok io.shutErr (.sent n)).mono
    have g2d := muxCopyToSock_delivers w2 s2 e1 n io.shutErr b rest g1b hne hc2
    have hs3 := hs2.copyMS w2 (.sent n) io.shutErr
    generalize muxCopyToSock w2 s2 e1 (.sent n) io.shutErr = k at h g2 g2d hs3
    obtain ⟨w3, s3, e3⟩ := k
    simp only at h g2 g2d hs3
    have g3 := (cleanup_ok { sw := s3, mw := w3, ok := pok, sockFirst := true } m2 e3 io.shutErr).1.mono
    have g3c := cleanup_clears { sw := s3, mw := w3, ok := pok, sockFirst := true } m2 e3 io.shutErr
    injection h with hp _ he
    subst hp; subst he
    by_cases hsaw : e1.sawShut = true
    · right
      have h3 : e3.sawShut = true := g2.2.2.2 hsaw
      exact ⟨g3.2.2.2 h3, g3c (hs3.2.mpr h3)⟩
    · left
      have := g2d (by simpa using hsaw) hn
      rw [hd1] at this
      omega
  case false =>
    simp only [Bool.false_eq_true, ↓reduceIte] at h
    have g1 := (muxCopyToSock_ok pmw.chan pmw s1 m e1 pok io.shutErr (.sent n)).mono
    have g1d := muxCopyToSock_delivers pmw s1 e1 n io.shutErr b rest hb hne hc1
    have hs2 := hsf.copyMS pmw (.sent n) io.shutErr
    generalize muxCopyToSock pmw s1 e1 (.sent n) io.shutErr = k at h g1 g1d hs2
    obtain ⟨w2, s2, e2⟩ := k
    simp only at h g1 g1d hs2
    have g2 := (sockCopyToMux_ok s2 w2 m e2 pok).mono
    have g2s := sockCopyToMux_sw s2 w2 m
    generalize sockCopyToMux s2 w2 m = g at h g2 g2s
    obtain ⟨s3, w3, m3⟩ := g
    simp only at h g2 g2s
    have g3 := (cleanup_ok { sw := s3, mw := w3, ok := pok, sockFirst := false } m3 e2 io.shutErr).1.mono
    have g3c := cleanup_clears { sw := s3, mw := w3, ok := pok, sockFirst := false } m3 e2 io.shutErr
    injection h with hp _ he
    subst hp; subst he
    by_cases hsaw : e1.sawShut = true
    · right
      have h2 : e2.sawShut = true := g1.2.2.2 hsaw
      refine ⟨g3.2.2.2 h2, g3c ?_⟩
      show s3.shutW = true
      rw [g2s.2.1]
      exact hs2.2.mpr h2
    · left
      have := g1d (by simpa using hsaw) hn
      rw [hd1] at this
      omega

/-! ### the callback leaves no flag to propagate -/

/-- Nothing is left for `pre_select`'s flag propagation to do. -/
def Settled (p : ProxyS) : Prop :=
  (p.sw.shutW = true → p.mw.shutR = true) ∧ (p.mw.shutW = true → p.sw.shutR = true)

theorem preSelect_settled (p : ProxyS) (m : MuxL) : Settled (p.preSelectFlags m).1 := by
  obtain ⟨⟨sb, sr, sw, sc, sx⟩, ⟨wc, wb, wr, ww⟩, pok, sf⟩ := p
  cases sf <;> cases sw <;> cases ww <;> cases wr <;>
    simp [Settled, ProxyS.preSelectFlags, MuxW.noread, SockW.noread]

/-- The completion test on a settled handler: afterwards the handler is settled, and if both
writers are shut and nothing is buffered it has been marked finished. -/
theorem finish_settled (p : ProxyS) (m : MuxL) (e : ESock) (se : Bool) (h : Settled p) :
    Settled (p.finish m e se).1 ∧
    ((p.finish m e se).1.sw.shutW = true → (p.finish m e se).1.mw.shutW = true →
      (p.finish m e se).1.sw.buf = [] → (p.finish m e se).1.mw.buf = [] → (p.finish m e se).1.ok = false) := by
  obtain ⟨⟨sb, sr, sw, sc, sx⟩, ⟨wc, wb, wr, ww⟩, pok, sf⟩ := p
  obtain ⟨h1, h2⟩ := h
  simp only at h1 h2
  cases sf <;> cases sw <;> cases ww <;> cases wr <;> cases sr <;> cases sb <;> cases wb <;> cases se <;>
    simp_all [Settled, ProxyS.finish, MuxW.nowrite, SockW.nowrite]

theorem cleanup_settled (p : ProxyS) (m : MuxL) (e : ESock) (se : Bool) :
    Settled (p.cleanup m e se).1 ∧
    ((p.cleanup m e se).1.sw.shutW = true → (p.cleanup m e se).1.mw.shutW = true →
      (p.cleanup m e se).1.sw.buf = [] → (p.cleanup m e se).1.mw.buf = [] → (p.cleanup m e se).1.ok = false) := by
  unfold ProxyS.cleanup
  exact finish_settled _ _ e se (preSelect_settled _ _)

/-- After every callback the handler is settled, and a handler whose two writers are shut with
nothing buffered has been marked finished by that very callback. -/
theorem callback_settled (p : ProxyS) (m : MuxL) (e : ESock) (io : CbIo) (p' : ProxyS) (m' : MuxL) (e' : ESock)
    (h : p.callback m e io = .ok p' m' e') :
    Settled p' ∧ (p'.sw.shutW = true → p'.mw.shutW = true → p'.sw.buf = [] → p'.mw.buf = [] → p'.ok = false) := by
  obtain ⟨q, m1, e1, _, hp'⟩ := callback_cleanup p m e io p' m' e' h
  rw [hp']
  exact cleanup_settled q m1 e1 io.shutErr


/-- What `wants` asks for the mux: exactly the situation of `callback_sends`. -/
theorem wants_muxW (p : ProxyS) (m : MuxL) :
    (p.wants m).2.2 = true ↔ (p.sw.connecting = false ∧ p.sw.buf.isEmpty = false ∧ m.tooFull = false) := by
  simp [ProxyS.wants, Bool.and_eq_true, and_assoc]

/-- What `wants` asks of the socket for reading. -/
theorem wants_sockR (p : ProxyS) (m : MuxL) :
    (p.wants m).1 = true ↔ (p.sw.connecting = false ∧ p.sw.buf.isEmpty = true ∧ p.sw.shutR = false) := by
  simp [ProxyS.wants, Bool.and_eq_true, and_assoc]

/-- What `wants` asks of the socket for writing: a pending connect, or data for the socket. -/
theorem wants_sockW (p : ProxyS) (m : MuxL) :
    (p.wants m).2.1 = true ↔ (p.sw.connecting = true ∨ p.mw.buf.isEmpty = false) := by
  simp [ProxyS.wants]

end Sshuttle.Tunnel
