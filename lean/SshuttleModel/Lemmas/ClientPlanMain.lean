/-
Helper lemmas for C15, part 3: `client.main` as the chain of its four stages.
-/
import SshuttleModel.Lemmas.ClientPlanSearch

namespace Sshuttle.ClientPlan
open Sshuttle.Gen.C15

/-- Is this outcome one of the exceptions nobody planned for? -/
def Outcome.isInternal : Outcome → Bool
  | .stop s => s.isInternal
  | _ => false

/-- A plan outcome went through all four stages. -/
theorem clientMain_plan {c : Cmd} {env : Env} {a6 a4 : ListenArg} {p : Plan}
    (h : clientMain c env a6 a4 = .plan p) :
    ∃ P T D, prep c env a6 a4 = .ok P ∧ tcpStage env P = .ok T ∧ dnsStage env P T = .ok D ∧
      sanity P T D = .ok p := by
  unfold clientMain at h
  cases h1 : prep c env a6 a4 with
  | error o => rw [h1] at h; cases h
  | ok P =>
    rw [h1] at h
    simp only at h
    cases h2 : tcpStage env P with
    | error o => rw [h2] at h; cases h
    | ok T =>
      rw [h2] at h
      simp only at h
      cases h3 : dnsStage env P T with
      | error o => rw [h3] at h; cases h
      | ok D =>
        rw [h3] at h
        simp only at h
        cases h4 : sanity P T D with
        | error o => rw [h4] at h; cases h
        | ok q =>
          rw [h4] at h
          simp only at h
          injection h with h
          subst h
          exact ⟨P, T, D, rfl, h2, h3, h4⟩

/-- `client.main` never ends in an internal error, given the structural side conditions. -/
theorem clientMain_not_internal
    (hK : ∀ k ∈ ASSERT_KEYS, k ∈ REQUIRED_ATTRS) (hG : V4_EXCLUDE_GUARDED = true)
    (hU : USED_PORTS_ALWAYS_BOUND = true) (hB : DNS_BOUND_CHECK_BEFORE_PRINT = true)
    (hT : TCP_PORT_STOP < TCP_PORT_START) (hE : BOTH_EXPLICIT_PORTS ≠ [])
    (hD : DNS_PORT_STOP + 4 ≤ DNS_PORT_START)
    {c : Cmd} {env : Env} {a6 a4 : ListenArg} (hv4 : env.avail.ipv4 = true) :
    (clientMain c env a6 a4).isInternal = false := by
  unfold clientMain
  cases h1 : prep c env a6 a4 with
  | error o => exact prep_not_internal hK hG hv4 h1
  | ok P =>
    simp only
    cases h2 : tcpStage env P with
    | error o => exact tcpStage_not_internal hU hT hE h2
    | ok T =>
      simp only
      have hT' := tcpStage_ok hU h2
      cases h3 : dnsStage env P T with
      | error o => exact dnsStage_not_internal hB hD hT'.2.2.2 h3
      | ok D =>
        simp only
        cases h4 : sanity P T D with
        | ok q => rfl
        | error o =>
          obtain ⟨uid, gid, _, _, hP, _⟩ := prep_ok h1
          have hs := mkPrep_sanity c env (resolveL6 env.avail a6) (resolveL4 env.avail a4) uid gid
          simp only at hs
          rw [← hP] at hs
          have hl6 : P.l6 = resolveL6 env.avail a6 := by rw [hP]; rfl
          rw [← hl6] at hs
          exact sanity_not_internal hs.1 hs.2 h4

/-- Everything a plan outcome tells about its ingredients: `M` is the straight-line preparation
for the final listen addresses `l6`/`l4`, the redirector sockets are `FamBound`, the DNS
listener (if DNS is required) sits on one non-zero port `q` for every family with a listen
address, and the last-minute checks passed. -/
structure PlanFacts (c : Cmd) (env : Env) (a6 a4 : ListenArg) (p : Plan)
    (l6 l4 : Option Addr) (uid gid : Option Nat) : Prop where
  hl6 : l6 = resolveL6 env.avail a6
  hl4 : l4 = resolveL4 env.avail a4
  huid : lookupOpt c.user env.users = some uid
  hgid : lookupOpt c.group env.groups = some gid
  hv6 : l6.isSome = true → env.avail.ipv6 = true
  hinc : p.includes = (mkPrep c env l6 l4 uid gid).includes
  hexc : p.excludes = (mkPrep c env l6 l4 uid gid).excludes
  hns : p.nslist = (mkPrep c env l6 l4 uid gid).nslist
  hudp : p.udp = env.avail.udp
  huser : p.user = uid
  hgroup : p.group = gid
  tcp6 : FamBound l6 p.tcp.v6 p.rp6
  tcp4 : FamBound l4 p.tcp.v4 p.rp4
  udpL : p.udpL = (if p.udp then some p.tcp else none)
  dns : (p.nslist = [] ∧ p.dnsL = none ∧ p.dp6 = 0 ∧ p.dp4 = 0) ∨
        (p.nslist ≠ [] ∧ ∃ q, q ≠ 0 ∧
          p.dnsL = some ⟨l6.map fun a => ⟨a.ip, q⟩, l4.map fun a => ⟨a.ip, q⟩⟩ ∧
          p.dp6 = (if l6.isSome then q else 0) ∧ p.dp4 = (if l4.isSome then q else 0) ∧
          (DNS_SEARCH_SKIPS_REDIRECT_PORTS = true → q ≠ p.rp4 ∧ q ≠ p.rp6))
  sub6 : (mkPrep c env l6 l4 uid gid).sub6 ≠ [] → p.rp6 ≠ 0
  ns6 : (mkPrep c env l6 l4 uid gid).ns6 ≠ [] → p.dp6 ≠ 0
  sub4 : (mkPrep c env l6 l4 uid gid).sub4 ≠ [] → p.rp4 ≠ 0
  ns4 : (mkPrep c env l6 l4 uid gid).ns4 ≠ [] → p.dp4 ≠ 0
  hreq : (mkPrep c env l6 l4 uid gid).reqDns = true ↔ p.nslist ≠ []
  feats : assertFeatures env.avail (requiredGet l6.isSome env.avail.udp
      (mkPrep c env l6 l4 uid gid).reqDns uid.isSome gid.isSome) ASSERT_KEYS = none

theorem clientMain_plan_facts (hU : USED_PORTS_ALWAYS_BOUND = true)
    {c : Cmd} {env : Env} {a6 a4 : ListenArg} {p : Plan} (h : clientMain c env a6 a4 = .plan p) :
    ∃ l6 l4 uid gid, PlanFacts c env a6 a4 p l6 l4 uid gid := by
  obtain ⟨P, T, D, h1, h2, h3, h4⟩ := clientMain_plan h
  obtain ⟨uid, gid, hu, hg, hP, _, _, h6, hdns, hfe⟩ := prep_ok h1
  obtain ⟨t6, t4, tu, _⟩ := tcpStage_ok hU h2
  have hd := dnsStage_ok h3
  obtain ⟨hp, s6, n6, s4, n4⟩ := sanity_ok h4
  refine ⟨resolveL6 env.avail a6, resolveL4 env.avail a4, uid, gid, ?_⟩
  have e6 : P.l6 = resolveL6 env.avail a6 := by rw [hP]; rfl
  have e4 : P.l4 = resolveL4 env.avail a4 := by rw [hP]; rfl
  have eu : P.udp = env.avail.udp := by rw [hP]; rfl
  subst hp
  try simp only
  unfold DnsFact at hd
  rw [e6] at t6 hd
  rw [e4] at t4 hd
  have hreq' : (mkPrep c env (resolveL6 env.avail a6) (resolveL4 env.avail a4) uid gid).reqDns = true ↔
      P.nslist ≠ [] := by
    rw [← hP]
    constructor
    · exact hdns
    · intro hne
      cases hq : P.reqDns with
      | true => rfl
      | false =>
        exfalso; apply hne
        rw [hP] at hq ⊢
        exact mkPrep_reqDns_false _ _ _ _ _ _ hq
  refine { hl6 := rfl, hl4 := rfl, huid := hu, hgid := hg, hv6 := h6,
           hinc := by rw [hP], hexc := by rw [hP], hns := by rw [hP], hudp := eu,
           
           huser := by rw [hP]; rfl, hgroup := by rw [hP]; rfl,
           tcp6 := t6, tcp4 := t4, udpL := by rw [tu], dns := ?_,
           sub6 := by rw [← hP]; exact s6, ns6 := by rw [← hP]; exact n6,
           sub4 := by rw [← hP]; exact s4, ns4 := by rw [← hP]; exact n4,
           hreq := hreq', feats := by rw [← hP]; exact hfe }
  rcases hd with ⟨hq, d1, d2, d3⟩ | ⟨hq, q, q0, d1, d2, d3, d4⟩
  · left
    refine ⟨?_, d1, d2, d3⟩
    rw [hP] at hq ⊢
    exact mkPrep_reqDns_false _ _ _ _ _ _ hq
  · right
    exact ⟨hdns hq, q, q0, d1, d2, d3, d4⟩

/-- A plan outcome of `cmdline.main` is a plan outcome of `client.main` on the listen arguments. -/
theorem run_plan {c : Cmd} {env : Env} {p : Plan} (h : run c env = .plan p) :
    clientMain c env (listenArgs c).1 (listenArgs c).2 = .plan p := by
  unfold run at h
  split at h
  · cases h
  · split at h
    · cases h
    · exact h


theorem filter_ne_nil_of_mem {α} {l : List α} {q : α → Bool} {x : α} (hx : x ∈ l) (hq : q x = true) :
    l.filter q ≠ [] := by
  intro h
  have : x ∈ l.filter q := List.mem_filter.mpr ⟨hx, hq⟩
  rw [h] at this; cases this


end Sshuttle.ClientPlan
