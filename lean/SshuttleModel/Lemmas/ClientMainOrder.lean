/-
C12 helper lemmas, part 4: the monitor invariant holds along the whole session, for every
script and fault map.
-/
import SshuttleModel.Lemmas.ClientMainInv

namespace Sshuttle.ClientMain
open Sshuttle.ClientTrace

/-- Facts about a trace that do not depend on the rest of the world. -/
def Good (t : List Ev) : Prop :=
  (monOf t).bad = false ∧ (monOf t).closed = false ∧ (monOf t).dead = false

/-- The monitor has not complained, the channel is open, ssh has not been seen dead, and while
the ROUTES callback is installed the handshake has been verified and the helper has not been
started. -/
def Inv (w : World) : Prop :=
  Good w.trace ∧ (w.routesCb = true → (monOf w.trace).hs = true ∧ (monOf w.trace).starts = 0)

theorem plain_step (e : Ev) (m : Mon) (he : Plain e) (hc : m.closed = false) (hd : m.dead = false) :
    (m.step e).bad = m.bad ∧ (m.step e).closed = false ∧ (m.step e).dead = false ∧
    (m.step e).starts = m.starts ∧
    (m.hs = true → (m.step e).hs = true) ∧ (m.routes = true → (m.step e).routes = true) ∧
    (m.confirmed = true → (m.step e).confirmed = true) := by
  obtain ⟨h1, h2, h3, h4, h5, h6⟩ := he
  cases e <;> simp_all [Mon.step, Mon.core]

theorem Inv.snoc {t : List Ev} {cb : Bool} {e : Ev} (he : Plain e)
    (h : Good t ∧ (cb = true → (monOf t).hs = true ∧ (monOf t).starts = 0)) :
    Good (t ++ [e]) ∧ (cb = true → (monOf (t ++ [e])).hs = true ∧ (monOf (t ++ [e])).starts = 0) := by
  unfold Good at h ⊢
  simp only [monOf_snoc]
  obtain ⟨⟨hb, hc, hd⟩, h3⟩ := h
  have := plain_step e (monOf t) he hc hd
  refine ⟨⟨by rw [this.1]; exact hb, this.2.1, this.2.2.1⟩, fun hcb => ?_⟩
  exact ⟨this.2.2.2.2.1 (h3 hcb).1, by rw [this.2.2.2.1]; exact (h3 hcb).2⟩

theorem Inv.chain : Chain Inv where
  act e w he h := Inv.snoc he h
  push e w he h := Inv.snoc he h
  frame f hf w h := by
    obtain ⟨ht, hcb⟩ := hf w
    unfold Inv at h ⊢
    rw [ht]
    refine ⟨h.1, fun hc => h.2 ?_⟩
    rcases hcb with hcb | hcb
    · rw [← hcb]; exact hc
    · rw [hcb] at hc; cases hc

/-- Ready to start the helper: verified, ROUTES delivered, not started, callback cleared. -/
def Armed (w : World) : Prop :=
  Good w.trace ∧ (monOf w.trace).hs = true ∧ (monOf w.trace).routes = true ∧
  (monOf w.trace).starts = 0

theorem Armed.inv {w : World} (h : Armed w) : Inv w := ⟨h.1, fun _ => ⟨h.2.1, h.2.2.2⟩⟩

theorem fwStart_triple (sc : Script) :
    Triple (fun w => Armed w ∧ w.routesCb = false) (fwStart sc)
      (fun _ w => Inv w ∧ (monOf w.trace).confirmed = true) Inv := by
  unfold fwStart
  have hc := Inv.chain
  refine Triple.bind (R := fun _ => Inv) ?_ fun _ => ?_
  · refine Triple.act fun w hw => ?_
    obtain ⟨⟨⟨hb, hcl, hdd⟩, hhs, hro, hst⟩, hcb⟩ := hw
    have : Inv (actW (.fw .routes) w) := by
      refine ⟨⟨?_, ?_, ?_⟩, fun h => ?_⟩
      · simp [monOf_snoc, Mon.step, Mon.core, hb, hhs, hro, hst, hcl, hdd]
      · simp [monOf_snoc, Mon.step, Mon.core, hcl]
      · simp [monOf_snoc, Mon.step, Mon.core, hdd]
      · simp [hcb] at h
    exact ⟨this, this⟩
  · refine Triple.bind (R := fun _ => Inv) (Triple.ofPres Pres.getW) fun w => ?_
    refine Triple.bind (R := fun _ => Inv) (Triple.ofPres (Pres.repeatAct (fun w => hc.act _ w (by simp [Plain])) _)) fun _ => ?_
    refine Triple.bind (R := fun _ => Inv) (Triple.ofPres (Pres.repeatAct (fun w => hc.act _ w (by simp [Plain])) _)) fun _ => ?_
    refine Triple.bind (R := fun _ => Inv) (Triple.ofPres (pres_act hc sc (by simp [Plain]))) fun _ => ?_
    refine Triple.bind (R := fun _ => Inv) (Triple.ofPres (Pres.repeatAct (fun w => hc.act _ w (by simp [Plain])) _)) fun _ => ?_
    refine Triple.bind (R := fun _ => Inv) (Triple.ofPres (pres_act hc sc (by simp [Plain]))) fun _ => ?_
    refine Triple.bind (R := fun _ => Inv) (Triple.ofPres (pres_act hc sc (by simp [Plain]))) fun _ => ?_
    refine Triple.bind (R := fun _ => Inv) (Triple.ofPres (pres_act hc sc (by simp [Plain]))) fun _ => ?_
    refine Triple.bind (R := fun _ => Inv) (Triple.ofPres (pres_act hc sc (by simp [Plain]))) fun _ => ?_
    refine Triple.bind (R := fun _ => Inv) (Triple.ofPres (pres_fwCheck hc sc)) fun _ => ?_
    refine Triple.bind (R := fun _ => Inv) (Triple.ofPres (Pres.ite (Pres.raise _) (Pres.pure _))) fun _ => ?_
    refine Triple.mark fun w hw => ?_
    refine ⟨hc.push _ w (by simp [Plain]) hw, ?_⟩
    simp [monOf_snoc, Mon.step, Mon.core]

theorem serverready_triple (sc : Script) :
    Triple (fun w => Armed w ∧ w.routesCb = false) (serverready sc) (fun _ => Inv) Inv := by
  unfold serverready
  refine Triple.bind (fwStart_triple sc) fun _ => ?_
  refine Triple.act fun w hw => ?_
  obtain ⟨⟨⟨hb, hcl, hdd⟩, h3⟩, hconf⟩ := hw
  have : Inv (actW .ready w) := by
    refine ⟨⟨?_, ?_, ?_⟩, fun h => ?_⟩
    · simp [monOf_snoc, Mon.step, Mon.core, hb, hconf, hdd]
    · simp [monOf_snoc, Mon.step, Mon.core, hcl]
    · simp [monOf_snoc, Mon.step, Mon.core, hdd]
    · simpa [monOf_snoc, Mon.step, Mon.core] using h3 h
  exact ⟨this, this⟩

theorem onroutes_triple (sc : Script) (data : Bytes) :
    Triple Armed (onroutes sc data) (fun _ => Inv) Inv := by
  unfold onroutes
  refine Triple.bind (R := fun _ => Armed) ?_ fun _ => ?_
  · refine Triple.ite ?_ (Triple.pure _ fun w hw => hw)
    split
    · exact Triple.raise _ fun w hw => hw.inv
    · exact Triple.modifyW fun w hw => hw
  · refine Triple.bind (R := fun _ w => Armed w ∧ w.routesCb = false) ?_ fun _ => serverready_triple sc
    exact Triple.modifyW fun w hw => ⟨hw, rfl⟩

theorem Inv.routesOk (sc : Script) : RoutesOk Inv sc := by
  intro data w hw hcb
  refine (onroutes_triple sc data).world (fun _ _ h => h) (fun _ h => h) _ ?_
  obtain ⟨⟨hb, hcl, hdd⟩, h3⟩ := hw
  obtain ⟨hhs, hst⟩ := h3 hcb
  refine ⟨⟨?_, ?_, ?_⟩, ?_, ?_, ?_⟩ <;> simp [monOf_snoc, Mon.step, Mon.core, hb, hcl, hhs, hst, hdd]

/-- Before the handshake is verified: callback not installed, helper not started. -/
def Early (w : World) : Prop :=
  Good w.trace ∧ w.routesCb = false ∧ (monOf w.trace).starts = 0

/-- … and verified. -/
def Verified (w : World) : Prop := Early w ∧ (monOf w.trace).hs = true

theorem Early.chain : Chain Early where
  act e w he h := by
    have := Inv.snoc (cb := false) he ⟨h.1, fun h => by cases h⟩
    refine ⟨this.1, h.2.1, ?_⟩
    simp only [actW_trace, monOf_snoc]
    rw [(plain_step e _ he h.1.2.1 h.1.2.2).2.2.2.1]; exact h.2.2
  push e w he h := by
    have := Inv.snoc (cb := false) he ⟨h.1, fun h => by cases h⟩
    refine ⟨this.1, h.2.1, ?_⟩
    simp only [push_trace, monOf_snoc]
    rw [(plain_step e _ he h.1.2.1 h.1.2.2).2.2.2.1]; exact h.2.2
  frame f hf w h := by
    obtain ⟨ht, hcb⟩ := hf w
    unfold Early at h ⊢
    rw [ht]
    refine ⟨h.1, ?_, h.2.2⟩
    rcases hcb with hcb | hcb
    · rw [hcb]; exact h.2.1
    · exact hcb

theorem Verified.chain : Chain Verified where
  act e w he h :=
    ⟨Early.chain.act e w he h.1, by
      simp only [actW_trace, monOf_snoc]; exact (plain_step e _ he h.1.1.2.1 h.1.1.2.2).2.2.2.2.1 h.2⟩
  push e w he h :=
    ⟨Early.chain.push e w he h.1, by
      simp only [push_trace, monOf_snoc]; exact (plain_step e _ he h.1.1.2.1 h.1.1.2.2).2.2.2.2.1 h.2⟩
  frame f hf w h := ⟨Early.chain.frame f hf w h.1, by rw [(hf w).1]; exact h.2⟩

theorem Early.inv {w : World} (h : Early w) : Inv w :=
  ⟨h.1, fun hc => by rw [h.2.1] at hc; cases hc⟩

/-- The start-up checks return the init string only if it is the genuine one. -/
theorem startupChecks_triple (sc : Script) :
    Triple Early (startupChecks sc) (fun init w => Early w ∧ init = Handshake.expected) Early := by
  unfold startupChecks
  have hc := Early.chain
  refine Triple.bind (R := fun _ => Early) (Triple.ofPres (Pres.mapExc (pres_act hc sc (by simp [Plain])))) fun _ => ?_
  refine Triple.bind (R := fun _ => Early) (Triple.ofPres (pres_frame hc (by by_frame))) fun _ => ?_
  refine Triple.bind (R := fun _ => Early) (Triple.ofPres Pres.getW) fun w => ?_
  refine Triple.bind (R := fun _ => Early) (Triple.ofPres (Pres.mapExc (pres_readInit hc sc _))) fun init => ?_
  refine Triple.bind (R := fun _ => Early) (Triple.ofPres (pres_act hc sc (by simp [Plain]))) fun _ => ?_
  refine Triple.bind (R := fun _ => Early)
    (Triple.ofPres (Pres.ite (Pres.raise _) (Pres.pure _))) fun _ => ?_
  refine Triple.bind (R := fun _ w => Early w ∧ init = Handshake.expected) ?_ fun _ => ?_
  · by_cases hi : init = Handshake.expected
    · simp only [hi, ne_eq, not_true_eq_false, ↓reduceIte]
      exact Triple.pure _ fun w hw => ⟨hw, trivial⟩
    · simp only [ne_eq, hi, not_false_eq_true, ↓reduceIte]
      exact Triple.raise _ fun w hw => hw
  · exact Triple.pure _ fun w hw => hw

theorem startup_triple (sc : Script) : Triple Early (startup sc) (fun _ => Verified) Early := by
  rw [startup_eq]
  refine Triple.bind (startupChecks_triple sc) fun init => ?_
  refine Triple.mark fun w hw => ?_
  obtain ⟨⟨⟨hb, hcl, hdd⟩, hcb, hst⟩, hi⟩ := hw
  subst hi
  refine ⟨⟨⟨?_, ?_, ?_⟩, hcb, ?_⟩, ?_⟩ <;>
    simp [monOf_snoc, Mon.step, Mon.core, hb, hcl, hdd, hst]

theorem register_triple (sc : Script) : Triple Verified (register sc) (fun _ => Inv) Inv := by
  rw [register_eq]
  refine Triple.bind (R := fun _ => Verified) ?_ fun _ => ?_
  · exact (Triple.ofPres (pres_registerHead Verified.chain sc)).conseq (fun _ h => h) (fun _ _ h => h)
      (fun _ h => h.1.inv)
  · refine Triple.bind (R := fun _ => Inv) ?_ fun _ => Triple.ofPres (pres_registerRest Inv.chain sc)
    refine Triple.modifyW fun w hw => ?_
    exact ⟨hw.1.1, fun _ => ⟨hw.2, hw.1.2.2⟩⟩

/-- ssh was seen dead: nothing was wrong up to here, the channel is still open. -/
def DeadEnd (w : World) : Prop :=
  (monOf w.trace).bad = false ∧ (monOf w.trace).closed = false ∧ (monOf w.trace).dead = true

/-- `_main` may end in a live state or right after the probe that saw ssh dead. -/
def Ended (w : World) : Prop := Inv w ∨ DeadEnd w

/-- The last event was the liveness probe. -/
def Probed (w : World) : Prop := Inv w ∧ (monOf w.trace).lastProbe = true

theorem checkAlive_triple (sc : Script) (st : Option Step) :
    Triple Inv (checkAlive sc st) (fun _ => Probed) Ended := by
  unfold checkAlive
  have hb : Triple Inv (do
      act sc (if sc.cfg.daemon then Ev.kill else Ev.poll)
      match st with
      | none => raise sc.cfg.endExc
      | some s =>
        modifyW (deliver s)
        match s.alive with
        | some _ => do
          mark .sshDead
          raise (if sc.cfg.daemon then Exc.oserr Gen.C12.ESRCH else Exc.fatal)
        | none => pure ()) (fun _ => Probed) Ended := by
    refine Triple.bind (R := fun _ => Probed) ?_ fun _ => ?_
    · refine Triple.act fun w hw => ?_
      have hp : Plain (if sc.cfg.daemon then Ev.kill else Ev.poll) := by split <;> simp [Plain]
      have hi := Inv.chain.act _ w hp hw
      refine ⟨⟨hi, ?_⟩, Or.inl hi⟩
      simp only [actW_trace, monOf_snoc, Mon.step]
      split <;> rfl
    · split
      · exact Triple.raise _ fun w hw => Or.inl hw.1
      · refine Triple.bind (R := fun _ => Probed) ?_ fun _ => ?_
        · refine Triple.modifyW fun w hw => ?_
          exact ⟨Inv.chain.frame _ (by by_frame) w hw.1, hw.2⟩
        · split
          · refine Triple.bind (R := fun _ => DeadEnd) ?_ fun _ => Triple.raise _ fun w hw => Or.inr hw
            refine Triple.mark fun w hw => ?_
            obtain ⟨⟨⟨hb, hcl, hdd⟩, _⟩, _⟩ := hw
            refine ⟨?_, ?_, ?_⟩ <;> simp [monOf_snoc, Mon.step, Mon.core, hb, hcl]
          · exact Triple.pure _ fun w hw => hw
  exact Triple.ite (Triple.mapExc hb) hb

theorem runonce_triple (sc : Script) (i : Nat) : Triple Probed (runonce sc i) (fun _ => Inv) Ended := by
  unfold runonce
  refine Triple.bind (R := fun _ => Inv) ?_ fun _ =>
    (Triple.ofPres (pres_runonceBody Inv.chain sc (Inv.routesOk sc))).conseq (fun _ h => h) (fun _ _ h => h)
      (fun _ h => Or.inl h)
  refine Triple.mark fun w hw => ?_
  obtain ⟨⟨⟨hb, hcl, hdd⟩, h3⟩, hp⟩ := hw
  refine ⟨⟨?_, ?_, ?_⟩, fun hcb => ?_⟩
  · simp [monOf_snoc, Mon.step, Mon.core, hb, hp, hdd]
  · simp [monOf_snoc, Mon.step, Mon.core, hcl]
  · simp [monOf_snoc, Mon.step, Mon.core, hdd]
  · simpa [monOf_snoc, Mon.step, Mon.core] using h3 hcb

theorem mainLoop_triple (sc : Script) (steps : List Step) (i : Nat) :
    Triple Inv (mainLoop sc i steps) (fun _ => Inv) Ended := by
  induction steps generalizing i with
  | nil =>
    unfold mainLoop
    exact (checkAlive_triple sc none).conseq (fun _ h => h) (fun _ _ h => h.1) (fun _ h => h)
  | cons s rest ih =>
    unfold mainLoop
    refine Triple.bind (checkAlive_triple sc _) fun _ => ?_
    refine Triple.bind (runonce_triple sc i) fun _ => ?_
    refine Triple.bind (R := fun _ => Inv) ?_ fun _ => ih (i + 1)
    exact (Triple.ofPres (Pres.ite (pres_checkFullness Inv.chain) (Pres.pure _))).conseq (fun _ h => h)
      (fun _ _ h => h) (fun _ h => Or.inl h)

theorem main_triple (sc : Script) : Triple Early (main_ sc) (fun _ => Inv) Ended := by
  unfold main_
  refine Triple.bind ((startup_triple sc).conseq (fun _ h => h) (fun _ _ h => h) (fun _ h => Or.inl h.inv)) fun _ => ?_
  refine Triple.bind ((register_triple sc).conseq (fun _ h => h) (fun _ _ h => h) (fun _ h => Or.inl h)) fun _ => ?_
  exact mainLoop_triple sc sc.steps 0

theorem initWorld_early (sc : Script) : Early (initWorld sc) := by
  refine ⟨⟨rfl, rfl, rfl⟩, rfl, rfl⟩

/-- When `_main` ends, however it ends, the monitor has not complained and the channel is open. -/
theorem main_ended (sc : Script) : Ended (main_ sc (initWorld sc)).2 :=
  (main_triple sc).world (fun _ _ h => Or.inl h) (fun _ h => h) _ (initWorld_early sc)

theorem foldl_afterClose (post : List Ev) (m : Mon) (h : ∀ x ∈ post, afterClose x) :
    (post.foldl Mon.step m).bad = m.bad ∧ (post.foldl Mon.step m).closed = m.closed := by
  induction post generalizing m with
  | nil => exact ⟨rfl, rfl⟩
  | cons e rest ih =>
    simp only [List.foldl_cons]
    have he : (m.step e).bad = m.bad ∧ (m.step e).closed = m.closed := by
      rcases h e (by simp) with h | h | h <;> subst h <;> exact ⟨rfl, rfl⟩
    have := ih (m.step e) fun x hx => h x (List.mem_cons_of_mem _ hx)
    exact ⟨this.1.trans he.1, this.2.trans he.2⟩

/-- The monitor accepts the trace of every whole session. -/
theorem run_okTrace (sc : Script) : okTrace (run sc).2.trace = true := by
  unfold run mainTail
  rw [tryFinally_world]
  obtain ⟨post, h1, h2⟩ := finPart_closed sc (main_ sc (initWorld sc)).2
  have hbc : (monOf (main_ sc (initWorld sc)).2.trace).bad = false ∧
      (monOf (main_ sc (initWorld sc)).2.trace).closed = false := by
    rcases main_ended sc with h | h
    · exact ⟨h.1.1, h.1.2.1⟩
    · exact ⟨h.1, h.2.1⟩
  obtain ⟨hb, hcl⟩ := hbc
  have hm : (monOf ((finPart sc (main_ sc (initWorld sc)).2).2.trace)).bad = false ∧
      (monOf ((finPart sc (main_ sc (initWorld sc)).2).2.trace)).closed = true := by
    rw [h1, monOf_append, List.foldl_cons]
    obtain ⟨f1, f2⟩ := foldl_afterClose post
      ((monOf ((main_ sc (initWorld sc)).2.trace ++ if sc.cfg.daemon = true then [Ev.rc0] else [])).step Ev.close) h2
    rw [f1, f2, monOf_append]
    cases sc.cfg.daemon <;> simp [Mon.step, Mon.core, hb, hcl]
  unfold okTrace
  rw [hm.1, hm.2]
  rfl

end Sshuttle.ClientMain
