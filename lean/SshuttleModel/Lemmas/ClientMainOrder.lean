/-
C12 helper lemmas, part 4: the monitor invariant holds along the whole session, for every
script and fault map.
-/
import SshuttleModel.Lemmas.ClientMainInv

namespace Sshuttle.ClientMain
open Sshuttle.ClientTrace

/-- Facts about a trace that do not depend on the rest of the world. -/
def Good (t : List Ev) : Prop := (monOf t).bad = false ∧ (monOf t).closed = false

/-- The monitor has not complained, the channel is open, and while the ROUTES callback is
installed the handshake has been verified and the helper has not been started. -/
def Inv (w : World) : Prop :=
  Good w.trace ∧ (w.routesCb = true → (monOf w.trace).hs = true ∧ (monOf w.trace).starts = 0)

theorem plain_step (e : Ev) (m : Mon) (he : Plain e) (hc : m.closed = false) :
    (m.step e).bad = m.bad ∧ (m.step e).closed = false ∧ (m.step e).starts = m.starts ∧
    (m.hs = true → (m.step e).hs = true) ∧ (m.routes = true → (m.step e).routes = true) ∧
    (m.confirmed = true → (m.step e).confirmed = true) := by
  obtain ⟨h1, h2, h3, h4⟩ := he
  cases e <;> simp_all [Mon.step]

theorem run_step (i : Nat) (m : Mon) : m.step (.run i) = m := rfl

theorem Inv.snoc {t : List Ev} {cb : Bool} {e : Ev} (he : Plain e ∨ ∃ i, e = .run i)
    (h : Good t ∧ (cb = true → (monOf t).hs = true ∧ (monOf t).starts = 0)) :
    Good (t ++ [e]) ∧ (cb = true → (monOf (t ++ [e])).hs = true ∧ (monOf (t ++ [e])).starts = 0) := by
  unfold Good at h ⊢
  simp only [monOf_snoc]
  rcases he with he | ⟨i, rfl⟩
  · obtain ⟨⟨hb, hc⟩, h3⟩ := h
    have := plain_step e (monOf t) he hc
    refine ⟨⟨by rw [this.1]; exact hb, this.2.1⟩, fun hcb => ?_⟩
    exact ⟨this.2.2.2.1 (h3 hcb).1, by rw [this.2.2.1]; exact (h3 hcb).2⟩
  · simp only [run_step]; exact h

theorem Inv.chain : Chain Inv where
  act e w he h := Inv.snoc (Or.inl he) h
  push e w he h := Inv.snoc (Or.inl he) h
  frame f hf w h := by
    obtain ⟨ht, hcb⟩ := hf w
    unfold Inv at h ⊢
    rw [ht]
    refine ⟨h.1, fun hc => h.2 ?_⟩
    rcases hcb with hcb | hcb
    · rw [← hcb]; exact hc
    · rw [hcb] at hc; cases hc

theorem Inv.run (i : Nat) (w : World) (h : Inv w) : Inv (push (.run i) w) :=
  Inv.snoc (Or.inr ⟨i, rfl⟩) h

/-- Ready to start the helper: verified, ROUTES delivered, not started, callback cleared. -/
def Armed (w : World) : Prop :=
  Good w.trace ∧ (monOf w.trace).hs = true ∧ (monOf w.trace).routes = true ∧
  (monOf w.trace).starts = 0

theorem Armed.inv {w : World} (h : Armed w) : Inv w := ⟨h.1, fun _ => ⟨h.2.1, h.2.2.2⟩⟩

theorem fwStart_triple (sc : Script) :
    Triple (fun w => Armed w ∧ w.routesCb = false) (fwStart sc)
      (fun _ w => Inv w ∧ (monOf w.trace).confirmed = true) Inv := by
  unfold fwStart
  have hc := Inv.chain
  refine Triple.bind (R := fun _ => Inv) ?_ fun _ => ?_
  · refine Triple.act fun w hw => ?_
    obtain ⟨⟨⟨hb, hcl⟩, hhs, hro, hst⟩, hcb⟩ := hw
    have : Inv (actW (.fw .routes) w) := by
      refine ⟨⟨?_, ?_⟩, fun h => ?_⟩
      · simp [monOf_snoc, Mon.step, hb, hhs, hro, hst, hcl]
      · simp [monOf_snoc, Mon.step, hcl]
      · simp [hcb] at h
    exact ⟨this, this⟩
  · refine Triple.bind (R := fun _ => Inv) (Triple.ofPres Pres.getW) fun w => ?_
    refine Triple.bind (R := fun _ => Inv) (Triple.ofPres (Pres.repeatAct (fun w => hc.act _ w (by simp [Plain])) _)) fun _ => ?_
    refine Triple.bind (R := fun _ => Inv) (Triple.ofPres (Pres.repeatAct (fun w => hc.act _ w (by simp [Plain])) _)) fun _ => ?_
    refine Triple.bind (R := fun _ => Inv) (Triple.ofPres (pres_act hc sc (by simp [Plain]))) fun _ => ?_
    refine Triple.bind (R := fun _ => Inv) (Triple.ofPres (Pres.repeatAct (fun w => hc.act _ w (by simp [Plain])) _)) fun _ => ?_
    refine Triple.bind (R := fun _ => Inv) (Triple.ofPres (pres_act hc sc (by simp [Plain]))) fun _ => ?_
    refine Triple.bind (R := fun _ => Inv) (Triple.ofPres (pres_act hc sc (by simp [Plain]))) fun _ => ?_
    refine Triple.bind (R := fun _ => Inv) (Triple.ofPres (pres_act hc sc (by simp [Plain]))) fun _ => ?_
    refine Triple.bind (R := fun _ => Inv) (Triple.ofPres (pres_act hc sc (by simp [Plain]))) fun _ => ?_
    refine Triple.bind (R := fun _ => Inv) (Triple.ofPres (pres_fwCheck hc sc)) fun _ => ?_
    refine Triple.bind (R := fun _ => Inv) (Triple.ofPres (Pres.ite (Pres.raise _) (Pres.pure _))) fun _ => ?_
    refine Triple.mark fun w hw => ?_
    refine ⟨hc.push _ w (by simp [Plain]) hw, ?_⟩
    simp [monOf_snoc, Mon.step]

theorem serverready_triple (sc : Script) :
    Triple (fun w => Armed w ∧ w.routesCb = false) (serverready sc) (fun _ => Inv) Inv := by
  unfold serverready
  refine Triple.bind (fwStart_triple sc) fun _ => ?_
  refine Triple.act fun w hw => ?_
  obtain ⟨⟨⟨hb, hcl⟩, h3⟩, hconf⟩ := hw
  have : Inv (actW .ready w) := by
    refine ⟨⟨?_, ?_⟩, fun h => ?_⟩
    · simp [monOf_snoc, Mon.step, hb, hconf]
    · simp [monOf_snoc, Mon.step, hcl]
    · simpa [monOf_snoc, Mon.step] using h3 h
  exact ⟨this, this⟩

theorem onroutes_triple (sc : Script) (data : Bytes) :
    Triple Armed (onroutes sc data) (fun _ => Inv) Inv := by
  unfold onroutes
  refine Triple.bind (R := fun _ => Armed) ?_ fun _ => ?_
  · refine Triple.ite ?_ (Triple.pure _ fun w hw => hw)
    split
    · exact Triple.raise _ fun w hw => hw.inv
    · exact Triple.modifyW fun w hw => hw
  · refine Triple.bind (R := fun _ w => Armed w ∧ w.routesCb = false) ?_ fun _ => serverready_triple sc
    exact Triple.modifyW fun w hw => ⟨hw, rfl⟩

theorem Inv.routesOk (sc : Script) : RoutesOk Inv sc := by
  intro data w hw hcb
  refine (onroutes_triple sc data).world (fun _ _ h => h) (fun _ h => h) _ ?_
  obtain ⟨⟨hb, hcl⟩, h3⟩ := hw
  obtain ⟨hhs, hst⟩ := h3 hcb
  refine ⟨⟨?_, ?_⟩, ?_, ?_, ?_⟩ <;> simp [monOf_snoc, Mon.step, hb, hcl, hhs, hst]

/-- Before the handshake is verified: callback not installed, helper not started. -/
def Early (w : World) : Prop :=
  Good w.trace ∧ w.routesCb = false ∧ (monOf w.trace).starts = 0

/-- … and verified. -/
def Verified (w : World) : Prop := Early w ∧ (monOf w.trace).hs = true

theorem Early.chain : Chain Early where
  act e w he h := by
    have := Inv.snoc (cb := false) (Or.inl he) ⟨h.1, fun h => by cases h⟩
    refine ⟨this.1, h.2.1, ?_⟩
    simp only [actW_trace, monOf_snoc]
    rw [(plain_step e _ he h.1.2).2.2.1]; exact h.2.2
  push e w he h := by
    have := Inv.snoc (cb := false) (Or.inl he) ⟨h.1, fun h => by cases h⟩
    refine ⟨this.1, h.2.1, ?_⟩
    simp only [push_trace, monOf_snoc]
    rw [(plain_step e _ he h.1.2).2.2.1]; exact h.2.2
  frame f hf w h := by
    obtain ⟨ht, hcb⟩ := hf w
    unfold Early at h ⊢
    rw [ht]
    refine ⟨h.1, ?_, h.2.2⟩
    rcases hcb with hcb | hcb
    · rw [hcb]; exact h.2.1
    · exact hcb

theorem Verified.chain : Chain Verified where
  act e w he h :=
    ⟨Early.chain.act e w he h.1, by
      simp only [actW_trace, monOf_snoc]; exact (plain_step e _ he h.1.1.2).2.2.2.1 h.2⟩
  push e w he h :=
    ⟨Early.chain.push e w he h.1, by
      simp only [push_trace, monOf_snoc]; exact (plain_step e _ he h.1.1.2).2.2.2.1 h.2⟩
  frame f hf w h := ⟨Early.chain.frame f hf w h.1, by rw [(hf w).1]; exact h.2⟩

theorem Early.inv {w : World} (h : Early w) : Inv w :=
  ⟨h.1, fun hc => by rw [h.2.1] at hc; cases hc⟩

theorem startup_triple (sc : Script) : Triple Early (startup sc) (fun _ => Verified) Early := by
  rw [startup_eq]
  refine Triple.bind (Triple.ofPres (pres_startupChecks Early.chain sc)) fun _ => ?_
  refine Triple.mark fun w hw => ?_
  refine ⟨Early.chain.push _ w (by simp [Plain]) hw, ?_⟩
  simp [monOf_snoc, Mon.step]

theorem register_triple (sc : Script) : Triple Verified (register sc) (fun _ => Inv) Inv := by
  rw [register_eq]
  refine Triple.bind (R := fun _ => Verified) ?_ fun _ => ?_
  · exact (Triple.ofPres (pres_registerHead Verified.chain sc)).conseq (fun _ h => h) (fun _ _ h => h)
      (fun _ h => h.1.inv)
  · refine Triple.bind (R := fun _ => Inv) ?_ fun _ => Triple.ofPres (pres_registerRest Inv.chain sc)
    refine Triple.modifyW fun w hw => ?_
    exact ⟨hw.1.1, fun _ => ⟨hw.2, hw.1.2.2⟩⟩

theorem main_triple (sc : Script) : Triple Early (main_ sc) (fun _ => Inv) Inv := by
  unfold main_
  refine Triple.bind ((startup_triple sc).conseq (fun _ h => h) (fun _ _ h => h) (fun _ h => h.inv)) fun _ => ?_
  refine Triple.bind (register_triple sc) fun _ => ?_
  exact Triple.ofPres (pres_mainLoop Inv.chain sc (Inv.routesOk sc) sc.steps 0 fun j _ w h => Inv.run j w h)

theorem initWorld_early (sc : Script) : Early (initWorld sc) := by
  refine ⟨⟨rfl, rfl⟩, rfl, rfl⟩

/-- The monitor invariant holds when `_main` ends, however it ends. -/
theorem main_inv (sc : Script) : Inv (main_ sc (initWorld sc)).2 :=
  (main_triple sc).world (fun _ _ h => h) (fun _ h => h) _ (initWorld_early sc)

theorem foldl_afterClose (post : List Ev) (m : Mon) (h : ∀ x ∈ post, afterClose x) :
    post.foldl Mon.step m = m := by
  induction post generalizing m with
  | nil => rfl
  | cons e rest ih =>
    simp only [List.foldl_cons]
    have he : m.step e = m := by
      rcases h e (by simp) with h | h | h <;> subst h <;> rfl
    rw [he]
    exact ih m fun x hx => h x (List.mem_cons_of_mem _ hx)

/-- The monitor accepts the trace of every whole session. -/
theorem run_okTrace (sc : Script) : okTrace (run sc).2.trace = true := by
  unfold run mainTail
  rw [tryFinally_world]
  obtain ⟨post, h1, h2⟩ := finPart_closed sc (main_ sc (initWorld sc)).2
  obtain ⟨⟨hb, hcl⟩, _⟩ := main_inv sc
  have hm : monOf ((finPart sc (main_ sc (initWorld sc)).2).2.trace) =
      { monOf (main_ sc (initWorld sc)).2.trace with closed := true } := by
    rw [h1, monOf_append, List.foldl_cons, foldl_afterClose post _ h2, monOf_append]
    cases sc.cfg.daemon <;> simp [Mon.step, hb, hcl]
  unfold okTrace
  rw [hm]
  simp [hb]

end Sshuttle.ClientMain
