/-
Helper lemmas for C15, part 1: `assert_features`, the preparation part of `client.main`
(`prep` = checks in program order around the straight-line `mkPrep`) and the sanity checks.
Core Lean only.
-/
import SshuttleModel.Code.ClientPlan

namespace Sshuttle.ClientPlan
open Sshuttle.Gen.C15

/-- Is this outcome one of the exceptions nobody planned for? -/
def Stop.isInternal : Stop → Bool
  | .internal _ => true
  | _ => false

/-! ### assert_features -/

theorem assertFeatures_none {av : Features} {req : FeatKey → Option Bool} {keys : List FeatKey}
    (h : assertFeatures av req keys = none) :
    ∀ k ∈ keys, ∃ r, req k = some r ∧ (r = true → av.get k = true) := by
  induction keys with
  | nil => simp
  | cons k ks ih =>
    unfold assertFeatures at h
    split at h
    · cases h
    next r hr =>
      split at h
      · cases h
      next hc =>
        intro k' hk'
        rcases List.mem_cons.mp hk' with rfl | hk'
        · refine ⟨r, hr, fun hrt => ?_⟩
          subst hrt
          simpa using hc
        · exact ih h k' hk'

theorem assertFeatures_some {av : Features} {req : FeatKey → Option Bool} {keys : List FeatKey} {o : Stop}
    (hreq : ∀ k ∈ keys, (req k).isSome = true)
    (h : assertFeatures av req keys = some o) : o.isInternal = false := by
  induction keys with
  | nil => simp [assertFeatures] at h
  | cons k ks ih =>
    unfold assertFeatures at h
    split at h
    next hn =>
      have := hreq k (by simp)
      rw [hn] at this; cases this
    · split at h
      · injection h with h; subst h; rfl
      · exact ih (fun k' hk' => hreq k' (by simp [hk'])) h

theorem requiredGet_isSome (a b c d e : Bool) {k : FeatKey} (hk : k ∈ REQUIRED_ATTRS) :
    (requiredGet a b c d e k).isSome = true := by
  unfold requiredGet
  simp [hk]

theorem requiredGet_group (a b c d e r : Bool) (h : requiredGet a b c d e .group = some r) : r = e := by
  unfold requiredGet at h
  split at h
  · simpa using h.symm
  · cases h

/-! ### preparation -/

/-- Inversion of `prep`: a successful preparation is `mkPrep` of the resolved listen addresses and
the looked-up ids, and all checks on the way passed. -/
theorem prep_ok {c : Cmd} {env : Env} {a6 a4 : ListenArg} {P : Prep}
    (h : prep c env a6 a4 = .ok P) :
    ∃ uid gid, lookupOpt c.user env.users = some uid ∧ lookupOpt c.group env.groups = some gid ∧
      P = mkPrep c env (resolveL6 env.avail a6) (resolveL4 env.avail a4) uid gid ∧
      c.remote = true ∧ env.avail.ipv4 = true ∧
      ((resolveL6 env.avail a6).isSome = true → env.avail.ipv6 = true) ∧
      (P.reqDns = true → P.nslist ≠ []) ∧
      assertFeatures env.avail (requiredGet (resolveL6 env.avail a6).isSome env.avail.udp P.reqDns
        uid.isSome gid.isSome) ASSERT_KEYS = none := by
  unfold prep at h
  simp only at h
  split at h
  · cases h
  next hr =>
  split at h
  · cases h
  next h4 =>
  split at h
  · cases h
  next h6 =>
  split at h
  · cases h
  next uid hu =>
  split at h
  · cases h
  next gid hg =>
  split at h
  · cases h
  next hd =>
  split at h
  · cases h
  next ha =>
  split at h
  · cases h
  · injection h with h
    subst h
    refine ⟨uid, gid, hu, hg, rfl, by simpa using hr, by simpa using h4, ?_, ?_, ha⟩
    · intro hs
      simp only [hs, Bool.true_and, Bool.not_eq_eq_eq_not, Bool.not_true, Bool.not_eq_false] at h6
      simpa using h6
    · intro hq hnil
      simp only [hq, hnil, List.length_nil, BEq.rfl, Bool.and_self, not_true_eq_false] at hd

theorem prep_not_internal (hK : ∀ k ∈ ASSERT_KEYS, k ∈ REQUIRED_ATTRS) (hG : V4_EXCLUDE_GUARDED = true)
    {c : Cmd} {env : Env} {a6 a4 : ListenArg} {o : Stop}
    (hv4 : env.avail.ipv4 = true) (h : prep c env a6 a4 = .error o) : o.isInternal = false := by
  unfold prep at h
  simp only at h
  split at h
  · injection h with h; subst h; rfl
  split at h
  next h4 => simp [hv4] at h4
  split at h
  · injection h with h; subst h; rfl
  split at h
  · injection h with h; subst h; rfl
  split at h
  · injection h with h; subst h; rfl
  split at h
  · injection h with h; subst h; rfl
  split at h
  next o' ha =>
    injection h with h; subst h
    exact assertFeatures_some (fun k hk => requiredGet_isSome _ _ _ _ _ (hK k hk)) ha
  split at h
  next hc => simp [hG] at hc
  · cases h

/-! ### the straight-line part -/

theorem fam_ne_v6 {f : Fam} : f ≠ Fam.v6 ↔ f = Fam.v4 := by cases f <;> simp
theorem isV4_iff {f : Fam} : isV4 f = true ↔ f = Fam.v4 := by simp [isV4]
theorem isV6_iff {f : Fam} : isV6 f = true ↔ f = Fam.v6 := by simp [isV6]
theorem isV4_not_v6 {f : Fam} (h : isV4 f = true) : isV6 f = false := by cases f <;> simp_all [isV4, isV6]

section
variable (c : Cmd) (env : Env) (l6 l4 : Option Addr) (uid gid : Option Nat)

theorem mkPrep_fields :
    (mkPrep c env l6 l4 uid gid).l6 = l6 ∧ (mkPrep c env l6 l4 uid gid).l4 = l4 ∧
    (mkPrep c env l6 l4 uid gid).udp = env.avail.udp ∧ (mkPrep c env l6 l4 uid gid).uid = uid ∧
    (mkPrep c env l6 l4 uid gid).gid = gid := ⟨rfl, rfl, rfl, rfl, rfl⟩

theorem filter_isV6_of_isV4 {α} (fam : α → Fam) (l : List α) :
    (l.filter (fun s => isV4 (fam s))).filter (fun s => isV6 (fam s)) = [] := by
  rw [List.filter_filter]
  apply List.filter_eq_nil_iff.mpr
  intro a _
  cases h : fam a <;> simp [isV4, isV6]

theorem mkPrep_split :
    let M := mkPrep c env l6 l4 uid gid
    M.sub4 = M.includes.filter (fun s => isV4 s.fam) ∧ M.sub6 = M.includes.filter (fun s => isV6 s.fam) ∧
    M.ns4 = M.nslist.filter (fun n => isV4 n.fam) ∧ M.ns6 = M.nslist.filter (fun n => isV6 n.fam) := by
  simp only [mkPrep]
  refine ⟨?_, ?_, ?_, ?_⟩
  · split
    · simp [List.filter_filter]
    · rfl
  · split
    · exact (filter_isV6_of_isV4 Subnet.fam c.includes).symm
    · rfl
  · split
    · simp [List.filter_filter]
    · rfl
  · split
    · exact (filter_isV6_of_isV4 Ns.fam (nslistOf c env)).symm
    · rfl

/-- IPv6 off (no IPv6 listen address) ⇒ no IPv6 entry is handed over. -/
theorem mkPrep_no_v6 (h : l6 = none) :
    let M := mkPrep c env l6 l4 uid gid
    (∀ s ∈ M.includes, s.fam ≠ Fam.v6) ∧ (∀ s ∈ M.excludes, s.fam ≠ Fam.v6) ∧
    (∀ n ∈ M.nslist, n.fam ≠ Fam.v6) ∧ M.sub6 = [] ∧ M.ns6 = [] := by
  subst h
  simp only [mkPrep, Option.isSome_none, Bool.not_false, Bool.true_and, Bool.and_true]
  refine ⟨?_, ?_, ?_, ?_, ?_⟩
  · intro s hs
    split at hs
    · simp only [List.mem_filter, isV4_iff] at hs; simp [hs.2]
    next hp =>
      intro hv6
      apply hp
      simp only [gt_iff_lt, decide_eq_true_eq]
      exact List.length_pos_of_mem (List.mem_filter.mpr ⟨hs, by simp [isV6, hv6]⟩)
  · intro s hs
    simp only [↓reduceIte, List.append_nil, List.mem_append, List.mem_filter, isV4_iff] at hs
    rcases hs with hs | hs
    · simp [hs.2]
    · split at hs
      · split at hs
        · simp only [List.mem_singleton] at hs; subst hs; simp
        · cases hs
      · cases hs
  · intro n hn
    split at hn
    · simp only [List.mem_filter, isV4_iff] at hn; simp [hn.2]
    next hp =>
      intro hv6
      apply hp
      have hm : n ∈ (nslistOf c env).filter (fun n => isV6 n.fam) :=
        List.mem_filter.mpr ⟨hn, by simp [isV6, hv6]⟩
      simp only [gt_iff_lt, Bool.and_eq_true, decide_eq_true_eq]
      exact ⟨List.length_pos_of_mem hn, List.length_pos_of_mem hm⟩
  · split
    · rfl
    next hp =>
      simp only [gt_iff_lt, decide_eq_true_eq, Nat.not_lt, Nat.le_zero_eq, List.length_eq_zero_iff] at hp
      exact hp
  · split
    · rfl
    next hp =>
      simp only [gt_iff_lt, Bool.and_eq_true, decide_eq_true_eq, not_and, Nat.not_lt, Nat.le_zero_eq,
        List.length_eq_zero_iff] at hp
      by_cases hz : 0 < (nslistOf c env).length
      · exact hp hz
      · have : nslistOf c env = [] := by
          apply List.length_eq_zero_iff.mp; omega
        simp [this]
end

section
variable (c : Cmd) (env : Env) (l6 l4 : Option Addr) (uid gid : Option Nat)

theorem listedAsSubnet_true {ip : Ip} {subs : List Subnet} (h : listedAsSubnet ip subs = true) :
    ∃ s ∈ subs, s.ip = ip := by
  simpa [listedAsSubnet] using h

/-- (b) for IPv4: the listen address is a host exclude or the user listed it. -/
theorem mkPrep_excl4 {a : Addr} (h : l4 = some a) :
    (⟨Fam.v4, a.ip, EXCL_WIDTH4, 0, 0⟩ : Subnet) ∈ (mkPrep c env l6 l4 uid gid).excludes ∨
    ∃ s ∈ c.includes, s.fam = Fam.v4 ∧ s.ip = a.ip := by
  subst h
  simp only [mkPrep]
  by_cases hl : listedAsSubnet a.ip (c.includes.filter fun s => isV4 s.fam) = true
  · right
    obtain ⟨s, hs, hip⟩ := listedAsSubnet_true hl
    simp only [List.mem_filter, isV4_iff] at hs
    exact ⟨s, hs.1, hs.2, hip⟩
  · left
    simp [hl]

/-- (b) for IPv6. -/
theorem mkPrep_excl6 {a : Addr} (h : l6 = some a) :
    (⟨Fam.v6, a.ip, EXCL_WIDTH6, 0, 0⟩ : Subnet) ∈ (mkPrep c env l6 l4 uid gid).excludes ∨
    ∃ s ∈ (mkPrep c env l6 l4 uid gid).includes, s.fam = Fam.v6 ∧ s.ip = a.ip := by
  subst h
  simp only [mkPrep, Option.isSome_some, Bool.not_true, Bool.false_and, Bool.false_eq_true, ↓reduceIte,
    Bool.and_false]
  by_cases hl : listedAsSubnet a.ip (c.includes.filter fun s => isV6 s.fam) = true
  · right
    obtain ⟨s, hs, hip⟩ := listedAsSubnet_true hl
    simp only [List.mem_filter, isV6_iff] at hs
    exact ⟨s, hs.1, hs.2, hip⟩
  · left
    simp [hl]

theorem mkPrep_includes_sub : ∀ s ∈ (mkPrep c env l6 l4 uid gid).includes, s ∈ c.includes := by
  intro s hs
  simp only [mkPrep] at hs
  split at hs
  · exact (List.mem_filter.mp hs).1
  · exact hs

theorem mkPrep_reqDns_false (h : (mkPrep c env l6 l4 uid gid).reqDns = false) :
    (mkPrep c env l6 l4 uid gid).nslist = [] := by
  simp only [mkPrep, gt_iff_lt, decide_eq_false_iff_not, Nat.not_lt, Nat.le_zero_eq,
    List.length_eq_zero_iff] at h
  simp [mkPrep, h]

/-- The "should never fail" asserts of the sanity checks indeed never fail. -/
theorem mkPrep_sanity :
    let M := mkPrep c env l6 l4 uid gid
    (M.sub6 ≠ [] → l6.isSome = true) ∧ (M.ns6 ≠ [] → M.reqDns = true ∧ l6.isSome = true) := by
  cases l6 with
  | none =>
    have := mkPrep_no_v6 c env none l4 uid gid rfl
    simp only at this
    exact ⟨fun h => absurd this.2.2.2.1 h, fun h => absurd this.2.2.2.2 h⟩
  | some a =>
    refine ⟨fun _ => rfl, fun h => ⟨?_, rfl⟩⟩
    simp only [mkPrep, Option.isSome_some, Bool.not_true, Bool.and_false, Bool.false_and, Bool.false_eq_true,
      ↓reduceIte, ne_eq] at h
    simp only [mkPrep, gt_iff_lt, decide_eq_true_eq]
    cases hn : nslistOf c env with
    | nil => rw [hn] at h; simp at h
    | cons x xs => simp
end

/-! ### sanity checks -/


theorem length_pos_iff_ne_nil {α} {l : List α} : (decide (l.length > 0) = true) ↔ l ≠ [] := by
  cases l <;> simp

theorem sanity_ok {P : Prep} {T : TcpOk} {D : DnsOk} {plan : Plan} (h : sanity P T D = .ok plan) :
    plan = { includes := P.includes, excludes := P.excludes, nslist := P.nslist,
             rp6 := T.rp6, rp4 := T.rp4, dp6 := D.dp6, dp4 := D.dp4, udp := P.udp,
             user := P.uid, group := P.gid, tcp := T.tcp, udpL := T.udpL, dnsL := D.dnsL, toNs := P.toNs } ∧
    (P.sub6 ≠ [] → T.rp6 ≠ 0) ∧ (P.ns6 ≠ [] → D.dp6 ≠ 0) ∧
    (P.sub4 ≠ [] → T.rp4 ≠ 0) ∧ (P.ns4 ≠ [] → D.dp4 ≠ 0) := by
  unfold sanity at h
  simp only at h
  split at h
  · cases h
  next h1 =>
  split at h
  · cases h
  next h2 =>
  split at h
  · cases h
  next h3 =>
  split at h
  · cases h
  next h4 =>
  split at h
  · cases h
  next h5 =>
  split at h
  · cases h
  next h6 =>
  injection h with h
  refine ⟨h.symm, ?_, ?_, ?_, ?_⟩ <;> intro hne <;> intro hz
  · apply h2; simp [length_pos_iff_ne_nil.mpr hne, hz]
  · apply h4; simp [length_pos_iff_ne_nil.mpr hne, hz]
  · apply h5; simp [length_pos_iff_ne_nil.mpr hne, hz]
  · apply h6; simp [length_pos_iff_ne_nil.mpr hne, hz]

theorem sanity_not_internal {P : Prep} {T : TcpOk} {D : DnsOk} {o : Stop}
    (hs6 : P.sub6 ≠ [] → P.l6.isSome = true)
    (hn6 : P.ns6 ≠ [] → P.reqDns = true ∧ P.l6.isSome = true)
    (h : sanity P T D = .error o) : o.isInternal = false := by
  unfold sanity at h
  simp only at h
  split at h
  next h1 =>
    exfalso
    simp only [Bool.and_eq_true, length_pos_iff_ne_nil] at h1
    have := hs6 h1.1
    simp [this] at h1
  split at h
  · injection h with h; subst h; rfl
  split at h
  next h3 =>
    exfalso
    simp only [Bool.and_eq_true, length_pos_iff_ne_nil] at h3
    have := hn6 h3.1
    simp [this] at h3
  split at h
  · injection h with h; subst h; rfl
  split at h
  · injection h with h; subst h; rfl
  split at h
  · injection h with h; subst h; rfl
  · cases h

end Sshuttle.ClientPlan
