/-
Pins: the code-model of C10/C11 was written for these shapes of the Python source.  Every
value is regenerated from the working tree on each run (harness/params/c10.py, c11.py); a
change makes one of these `example`s fail, i.e. breaks a proof obligation.
-/
import SshuttleModel.Gen.C10
import SshuttleModel.Gen.C11
import SshuttleModel.Generated

namespace Sshuttle.Dgram.Pins
open Sshuttle

example : Gen.C10.ONDNS_GUARDS_NO_ID = true := by decide
example : Gen.C11.ONUDP_GUARDS_NO_ID = true := by decide
example : Gen.C10.ONDNS_CALLS = ["recv_udp", "next_channel", "send", "expire_connections"] := by decide
example : Gen.C10.DNS_DONE_CALLS = ["send_udp"] := by decide
example : Gen.C10.EXPIRE_CMP = ["Lt", "Lt"] := by decide
example : Gen.C10.TRY_SEND_CALLS = ["get_random_nameserver", "connect", "send", "try_send"] := by decide
example : Gen.C10.DNS_CALLBACK_CALLS = ["recv", "remove", "try_send", "send"] := by decide
example : Gen.C10.DNS_PORT = 53 := by decide
example : Gen.C10.FALLBACK_NS = "127.0.0.1" := by decide
example : Gen.C10.SRV_DNS_SWEEP_CMP = ["Lt"] := by decide
example : Gen.C11.CLIENT_HDR_FMT = ["%s,%d,"] := by decide
example : Gen.C11.SERVER_HDR_FMT = ["%s,%r,"] := by decide
example : Gen.C11.CLIENT_SPLIT = ["b',',2"] := by decide
example : Gen.C11.SERVER_SPLIT = ["b(','),2"] := by decide
example : Gen.C11.ONUDP_CALLS = ["recv_udp", "next_channel", "send", "send", "expire_connections"] := by decide
example : Gen.C11.UDP_REQ_CALLS = ["split", "send"] := by decide
example : Gen.C11.UDP_CALLBACK_CALLS = ["recvfrom", "send"] := by decide
example : Generated.MAX_CHANNEL ≤ 65535 := by decide
example : Generated.CLIENT_DNS_TIMEOUT = 30 ∧ Generated.CLIENT_UDP_TIMEOUT = 30 ∧ Generated.SERVER_DNS_TIMEOUT = 30 := by decide
example : Generated.CLIENT_DNS_RECV = 4096 ∧ Generated.CLIENT_UDP_RECV = 4096 := by decide
example : Generated.SERVER_DNS_RECV = 4096 ∧ Generated.SERVER_UDP_RECV = 4096 := by decide

end Sshuttle.Dgram.Pins
