/-
Helper lemmas for C18, part 2: one turn of the assembler loop on a well-formed frame,
the whole loop on a list of frames, and what `packList` produces.
-/
import SshuttleModel.Lemmas.Bootstrap

namespace Sshuttle.Bootstrap

/-- Names that `name.encode("ASCII")`, `readline().strip()` and `name.decode("ASCII")`
all leave untouched: non-empty, ASCII, no blank (so no newline either). -/
def CleanName (n : Bytes) : Prop := n ≠ [] ∧ ∀ b ∈ n, isWs b = false ∧ b < 128

/-- every dotted name's parent is loaded before it (already present, or earlier in the list) -/
def parentsOk : List Bytes → List Bytes → Bool
  | _, [] => true
  | sm, n :: ns => parentOk sm n && parentsOk (sm ++ [n]) ns

/-- the frames of a module list, concatenated -/
def framesOf : List Bytes → List Bytes → Bytes
  | n :: ns, ch :: chs => frameOf n ch ++ framesOf ns chs
  | _, _ => []

theorem clean_no_nl {n : Bytes} (h : CleanName n) : 10 ∉ n := by
  intro hm
  have := (h.2 10 hm).1
  revert this; decide

theorem clean_all_ascii {n : Bytes} (h : CleanName n) : n.all (· < 128) = true := by
  simp only [List.all_eq_true, decide_eq_true_eq]
  intro b hb; exact (h.2 b hb).2

theorem decimal_no_nl (k : Nat) : 10 ∉ decimal k := by
  intro hm
  have := decimal_digits k 10 hm
  revert this; decide

/-- One turn of the loop on a stream that starts with a well-formed frame: the module is
created with exactly the decompressed chunk, and the reader stands right after the frame. -/
theorem asmLoop_step (c : Codec) (fuel : Nat) (st : AsmState c) (name chunk tail content : Bytes)
    (z' : c.DState)
    (hflat : st.rd.flat = frameOf name chunk ++ tail) (hn : CleanName name)
    (hp : parentOk st.sysmods name = true) (hd : c.decompress st.z chunk = some (z', content)) :
    ∃ rd' : BufReader, rd'.flat = tail ∧
      asmLoop c (fuel + 1) st =
        asmLoop c fuel { rd := rd', z := z', sysmods := st.sysmods ++ [name],
                         mods := st.mods ++ [(name, content)] } := by
  have hflat' : st.rd.flat = name ++ 10 :: (decimal chunk.length ++ 10 :: (chunk ++ tail)) := by
    rw [hflat]; simp [frameOf]
  obtain ⟨e1, f1⟩ := readline_spec st.rd name _ hflat' (clean_no_nl hn)
  obtain ⟨e2, f2⟩ := readline_spec (readline st.rd).2 (decimal chunk.length) (chunk ++ tail) f1
    (decimal_no_nl _)
  obtain ⟨e3, f3⟩ := read_spec (readline (readline st.rd).2).2 chunk.length
  rw [f2] at e3 f3
  have e3' : (read (readline (readline st.rd).2).2 chunk.length).1 = chunk := by
    rw [e3]; simp
  have f3' : (read (readline (readline st.rd).2).2 chunk.length).2.flat = tail := by
    rw [f3]; simp
  have hs : strip (name ++ [10]) = name := strip_clean name hn.1 (fun b hb => (hn.2 b hb).1)
  have hne : name.isEmpty = false := by
    cases name with
    | nil => exact absurd rfl hn.1
    | cons _ _ => rfl
  have hlt : ¬ (Int.ofNat chunk.length < -1) := by
    show ¬ ((chunk.length : Int) < -1); omega
  have hneq : ¬ (Int.ofNat chunk.length = -1) := by
    show ¬ ((chunk.length : Int) = -1); omega
  have hto : (Int.ofNat chunk.length).toNat = chunk.length := by simp
  refine ⟨(read (readline (readline st.rd).2).2 chunk.length).2, f3', ?_⟩
  simp only [asmLoop, e1, hs, hne, clean_all_ascii hn, e2, parseInt_decimal_line, hlt, hneq, hto, e3',
    hd, hp, Bool.false_eq_true, ↓reduceIte, Bool.true_eq_false]

/-- The terminating empty line: the loop ends and the reader stands right after it. -/
theorem asmLoop_done (c : Codec) (fuel : Nat) (st : AsmState c) (tail : Bytes)
    (hflat : st.rd.flat = 10 :: tail) :
    ∃ rd' : BufReader, rd'.flat = tail ∧ asmLoop c (fuel + 1) st = (.done, { st with rd := rd' }) := by
  obtain ⟨e1, f1⟩ := readline_spec st.rd [] tail (by simpa using hflat) (by simp)
  refine ⟨(readline st.rd).2, f1, ?_⟩
  simp only [List.nil_append] at e1
  simp only [asmLoop, e1, strip_newline, List.isEmpty_nil, ↓reduceIte]

/-- The whole loop on a list of well-formed frames followed by the empty line. -/
theorem asmLoop_frames (c : Codec) : ∀ (names chunks datas : List Bytes) (st : AsmState c)
    (fuel : Nat) (tail : Bytes),
    names.length = chunks.length →
    c.unpackAll st.z chunks = some datas →
    (∀ n ∈ names, CleanName n) → parentsOk st.sysmods names = true →
    st.rd.flat = framesOf names chunks ++ 10 :: tail → names.length < fuel →
    ∃ st', asmLoop c fuel st = (.done, st') ∧ st'.mods = st.mods ++ names.zip datas ∧
      st'.rd.flat = tail ∧ st'.sysmods = st.sysmods ++ names := by
  intro names
  induction names with
  | nil =>
    intro chunks datas st fuel tail hlen hun _ _ hflat hfuel
    cases chunks with
    | cons _ _ => simp at hlen
    | nil =>
      simp only [Codec.unpackAll, Option.some.injEq] at hun
      subst hun
      cases fuel with
      | zero => simp at hfuel
      | succ f =>
        obtain ⟨rd', h1, h2⟩ := asmLoop_done c f st tail (by simpa [framesOf] using hflat)
        exact ⟨_, h2, by simp, h1, by simp⟩
  | cons n ns ih =>
    intro chunks datas st fuel tail hlen hun hclean hpar hflat hfuel
    cases chunks with
    | nil => simp at hlen
    | cons ch chs =>
      simp only [Codec.unpackAll] at hun
      cases hdec : c.decompress st.z ch with
      | none => rw [hdec] at hun; cases hun
      | some p =>
        obtain ⟨z', out⟩ := p
        rw [hdec] at hun
        simp only at hun
        cases hrest : c.unpackAll z' chs with
        | none => rw [hrest] at hun; cases hun
        | some outs =>
          rw [hrest] at hun
          simp only [Option.map_some, Option.some.injEq] at hun
          subst hun
          cases fuel with
          | zero => simp at hfuel
          | succ f =>
            simp only [parentsOk, Bool.and_eq_true] at hpar
            have hflat' : st.rd.flat = frameOf n ch ++ (framesOf ns chs ++ 10 :: tail) := by
              rw [hflat]; simp [framesOf]
            obtain ⟨rd', h1, h2⟩ := asmLoop_step c f st n ch _ out z' hflat'
              (hclean n (by simp)) hpar.1 hdec
            obtain ⟨st', g1, g2, g3, g4⟩ := ih chs outs
              { rd := rd', z := z', sysmods := st.sysmods ++ [n], mods := st.mods ++ [(n, out)] }
              f tail (by simpa using hlen) hrest (fun m hm => hclean m (by simp [hm])) hpar.2 h1
              (by simp only [List.length_cons] at hfuel; omega)
            refine ⟨st', by rw [h2, g1], ?_, g3, ?_⟩
            · rw [g2]; simp
            · rw [g4]; simp

/-- What a successful `packList` produced: every module's source was found, every name is
ASCII, and the result is the frames of the chunks one **shared** compressor made, in order. -/
theorem packList_ok (c : Codec) (binary : Bool) (env : Env) (explicit : List Bytes) (optdata : Bytes) :
    ∀ (names : List Bytes) (s : c.CState) (frames : Bytes),
    packList c binary env explicit optdata s names = .ok frames →
    ∃ datas, names.map (fun n => srcFor binary env n (dataArg explicit optdata n)) = datas.map SrcRes.ok ∧
      (∀ n ∈ names, n.all (· < 128) = true) ∧ frames = framesOf names (c.packAll s datas) := by
  intro names
  induction names with
  | nil =>
    intro s frames h
    simp only [packList, Except.ok.injEq] at h
    exact ⟨[], rfl, by simp, by simp [framesOf, ← h]⟩
  | cons n ns ih =>
    intro s frames h
    simp only [packList, empackage] at h
    cases hsrc : srcFor binary env n (dataArg explicit optdata n) with
    | noSuchModule => rw [hsrc] at h; simp at h
    | decodeError => rw [hsrc] at h; simp at h
    | ok d =>
      rw [hsrc] at h
      simp only at h
      by_cases hascii : n.all (· < 128) = true
      · simp only [hascii, ↓reduceIte] at h
        cases hrest : packList c binary env explicit optdata (c.chunk s d).1 ns with
        | error e => rw [hrest] at h; simp at h
        | ok more =>
          rw [hrest] at h
          simp only [Except.ok.injEq] at h
          obtain ⟨datas, f1, f2, f3⟩ := ih _ _ hrest
          refine ⟨d :: datas, by simp [hsrc, f1], ?_, ?_⟩
          · intro m hm
            rcases List.mem_cons.mp hm with rfl | hm
            · exact hascii
            · exact f2 m hm
          · rw [← h, f3]; simp [framesOf, Codec.packAll]
      · simp only [hascii, Bool.false_eq_true, ↓reduceIte] at h
        cases h

theorem packAll_length (c : Codec) : ∀ (datas : List Bytes) (s : c.CState),
    (c.packAll s datas).length = datas.length := by
  intro datas
  induction datas with
  | nil => intro s; rfl
  | cons d ds ih => intro s; simp [Codec.packAll, ih]

theorem countCodec_from (n : Nat) (datas : List Bytes) :
    countCodec.unpackAll n (countCodec.packAll n datas) = some datas := by
  induction datas generalizing n with
  | nil => rfl
  | cons d ds ih =>
    have := ih (n + 1)
    simp only [Codec.packAll, Codec.unpackAll, Codec.chunk, countCodec, List.append_nil, ↓reduceIte] at this ⊢
    rw [this]; rfl

theorem framesOf_length (names chunks : List Bytes) (h : names.length = chunks.length) :
    names.length ≤ (framesOf names chunks).length := by
  induction names generalizing chunks with
  | nil => simp
  | cons n ns ih =>
    cases chunks with
    | nil => simp at h
    | cons c cs =>
      have := ih cs (by simpa using h)
      simp only [framesOf, frameOf, List.length_append, List.length_cons, List.length_nil]
      omega

theorem translate_id (t : Bytes) (h : 13 ∉ t) : translateNewlines false t = t := by
  induction t with
  | nil => rfl
  | cons b r ih =>
    have hb : b ≠ 13 := by intro e; apply h; simp [e]
    have hr : 13 ∉ r := by intro e; apply h; simp [e]
    simp [translateNewlines, hb, ih hr]

end Sshuttle.Bootstrap
