/-
Pins for C05: the format strings, slice bounds, argument orders and tests that
`Code/Dst.lean` was written for, as re-read from the working tree into `Gen/C05.lean`.
A change of any of them breaks one of these `example`s (= a proof obligation of C05).
-/
import SshuttleModel.Code.Dst

namespace Sshuttle.Dst.Pins
open Sshuttle.Gen.C05

-- original_dst
example : ODST_FMT_V4 = "!2xH4s" := by decide
example : ODST_FMT_V6 = "!2xH4x16s" := by decide
example : ODST_V4_BUF = "sockaddr_in[:8]" := by decide
example : ODST_V6_BUF = "sockaddr_in" := by decide
example : ODST_GETSOCKOPT_V4 = ["socket.SOL_IP", "SO_ORIGINAL_DST", "SOCKADDR_MIN"] := by decide
example : ODST_GETSOCKOPT_V6 = ["41", "SO_ORIGINAL_DST", "64"] := by decide
example : SO_ORIGINAL_DST = 80 ∧ SOCKADDR_MIN ≥ 8 := by decide
example : ODST_IP_CTORS = ["str(ipaddress.IPv4Address(raw_ip))", "str(ipaddress.IPv6Address(raw_ip))"] := by decide
example : ODST_RETURN = "(ip, port)" := by decide
example : ODST_ERRNO_TEST = "e.args[0] == errno.ENOPROTOOPT" := by decide

-- tproxy / ipfw recv_udp
-- the control buffer must hold the cmsg header + 24 bytes of sockaddr_in6 (family, port,
-- flowinfo, address): `C05_cmsg_v6` needs data[0:24] (its `scope` may be cut off, even empty)
example : TPROXY_RECVMSG_ARGS = ["4096", "socket.CMSG_SPACE(24)"] := by decide
example : IPFW_RECVMSG_ARGS = ["4096", "socket.CMSG_SPACE(4)"] := by decide
example : TPROXY_CMSG_FMTS = ["=HH", "=HH"] := by decide
example : TPROXY_CMSG_HDR_SLICES = ["cmsg_data[0:4]", "cmsg_data[0:4]"] := by decide
example : TPROXY_PORT_CONV = ["socket.htons(port)", "socket.htons(port)"] := by decide
example : TPROXY_NTOP_CALLS = ["socket.inet_ntop(family, cmsg_data[start:start + length])",
    "socket.inet_ntop(family, cmsg_data[start:start + length])"] := by decide
example : TPROXY_CMSG_TESTS = ["cmsg_level == socket.SOL_IP and cmsg_type == IP_ORIGDSTADDR",
    "cmsg_level == SOL_IPV6 and cmsg_type == IPV6_ORIGDSTADDR"] := by decide
example : TPROXY_FAMILY_TESTS = ["family == socket.AF_INET", "family == socket.AF_INET6"] := by decide
example : TPROXY_TCP_DST = "sock.getsockname()" := by decide
example : IPFW_TCP_DST = "sock.getsockname()" := by decide
example : IPFW_NTOP_CALLS = ["socket.inet_ntop(socket.AF_INET, cmsg_data[0:4])"] := by decide

-- client
example : CONNECT_FMT = "%d,%s,%d" := by decide
example : CONNECT_ARGS = ["sock.family", "dstip[0].encode('ASCII')", "dstip[1]"] := by decide
example : SELF_GUARD = "dstip[1] == sock.getsockname()[1] and islocal(dstip[0], sock.family)" := by decide
example : TCP_DST_SOURCE = "method.get_tcp_dstip(sock)" := by decide
example : UDP_HDR_FMT = "%s,%d," := by decide
example : UDP_HDR_ARGS = ["dstip[0].encode('ASCII')", "dstip[1]"] := by decide
example : UDP_SEND_DATA = ["hdr + data"] := by decide
example : ISLOCAL_ERRNO_TEST = "e.args[0] == errno.EADDRNOTAVAIL" := by decide

-- server
example : SERVER_CONNECT_SPLIT = ["data.decode('ASCII').split(',', 2)"] := by decide
example : SERVER_CONNECT_TARGETS = ["family", "dstip", "dstport"] := by decide
example : SERVER_FAMILY_TEST = "family != socket.AF_INET" := by decide
example : SERVER_CONNECT_CALL = ["family", "dstip", "dstport"] := by decide
example : SERVER_UDP_SPLIT = ["data.split(b(','), 2)"] := by decide
example : SERVER_UDP_TARGETS = ["dstip", "dstport", "data"] := by decide
example : SERVER_UDP_SEND = ["(dstip, dstport)", "data"] := by decide

-- pf dialogue
example : PF_REQ_FMT = "QUERY_PF_NAT %d,%d,%s,%d,%s,%d\n" := by decide
example : PF_REQ_ARGS = ["sock.family", "socket.IPPROTO_TCP", "peer[0].encode('ASCII')", "peer[1]",
    "proxy[0].encode('ASCII')", "proxy[1]"] := by decide
example : PF_RESP_PREFIX = "QUERY_PF_NAT_SUCCESS " := by decide
example : PF_RESP_SPLIT = "in_line[21:].split(b',')" := by decide
example : PF_RESP_SKIP = PF_RESP_PREFIX.length := by decide
example : PF_RESP_RETURN = "(ip.decode('ASCII'), int(port))" := by decide
example : PF_CMD_PREFIX = "QUERY_PF_NAT " := by decide
example : PF_CMD_SPLIT = "line[13:].split(',')" := by decide
example : PF_CMD_SKIP = PF_CMD_PREFIX.length := by decide
example : PF_CMD_REPLIES = ["QUERY_PF_NAT_SUCCESS %s,%r\n", "QUERY_PF_NAT_FAILURE %s\n"] := by decide
example : PF_QUERY_NAT_PARAMS = ["self", "family", "proto", "src_ip", "src_port", "dst_ip", "dst_port"] := by decide

-- onaccept_udp: the association table holds (channel, deadline) only; the destination header is
-- built per datagram (`UDP_HDR_ARGS` above), UDP_OPEN carries the family only
example : UDP_TABLE_STORES = ["udp_by_src[srcip] = (chan, now + 30)"] := by decide
example : UDP_TABLE_LOADS = ["chan, _ = udp_by_src[srcip]"] := by decide
example : UDP_OPEN_ARGS = ["b'%d' % listener.family"] := by decide
example : UDP_EXPIRE_TEST = ["timeout < now", "timeout < now"] := by decide

-- pf's `firewall_command` writes exactly one reply line per QUERY_PF_NAT: one write in the `try`
-- body, one in the `except` handler, no loop (`sessStep (.query _)` appends exactly one line)
example : PF_CMD_WRITES = ["try:sys.stdout.write('QUERY_PF_NAT_SUCCESS %s,%r\\n' % dst)",
    "except:sys.stdout.write('QUERY_PF_NAT_FAILURE %s\\n' % e)"] := by decide
example : PF_CMD_LOOPS = 0 := by decide

-- the helper's command loop writes nothing to the channel except through `firewall_command`:
-- `sessStep (.host _)` produces no line (what `C05_pf_session_pairing` rests on)
example : FW_MAIN_STDOUT_WRITES = ["('READY %s\\n' % method.name).encode('ASCII')", "b'STARTED\\n'"] := by decide
example : FW_MAIN_LOOP_TESTS = ["line.startswith('HOST ')", "line"] := by decide

end Sshuttle.Dst.Pins
