/-
Generic reasoning rules for C04: what one external command can do to the configuration under an
arbitrary fault schedule (either its natural effect, or nothing), under no further faults
(exactly its natural behaviour), and how that composes along `steps` / `Proc.seq`.
-/
import SshuttleModel.Code.FwSession
import SshuttleModel.Spec.FwOwned

namespace Sshuttle.Fw

/-- No command from now on is made to fail by the schedule (commands behave naturally). -/
def NoFault (e : Env) : Prop := ∀ i, e.count ≤ i → e.fail i = false

/-- Bookkeeping that every command leaves alone or advances. -/
structure SameRun (e e' : Env) : Prop where
  fail : e'.fail = e.fail
  count : e.count ≤ e'.count
  hosts : e'.hosts = e.hosts

theorem SameRun.refl (e : Env) : SameRun e e := ⟨rfl, Nat.le_refl _, rfl⟩

theorem SameRun.trans {a b c : Env} (h1 : SameRun a b) (h2 : SameRun b c) : SameRun a c :=
  ⟨h2.fail.trans h1.fail, Nat.le_trans h1.count h2.count, h2.hosts.trans h1.hosts⟩

theorem NoFault.of_sameRun {e e' : Env} (h : NoFault e) (s : SameRun e e') : NoFault e' := by
  intro i hi
  rw [s.fail]
  exact h i (Nat.le_trans s.count hi)

/-- Under any schedule a command either fails with no effect or has its natural effect. -/
theorem exec_cases (c : Cmd) (e : Env) :
    SameRun e (exec c e).2 ∧
    (((exec c e).1 = false ∧ (exec c e).2.st = e.st) ∨
     ((exec c e).1 = true ∧ e.st.apply c = some (exec c e).2.st)) := by
  unfold exec
  split
  · exact ⟨⟨rfl, Nat.le_succ _, rfl⟩, Or.inl ⟨rfl, rfl⟩⟩
  · split
    · next st' ha => exact ⟨⟨rfl, Nat.le_succ _, rfl⟩, Or.inr ⟨rfl, ha⟩⟩
    · exact ⟨⟨rfl, Nat.le_succ _, rfl⟩, Or.inl ⟨rfl, rfl⟩⟩

/-- With no fault scheduled a command behaves naturally. -/
theorem exec_natural (c : Cmd) (e : Env) (h : NoFault e) :
    (exec c e).1 = (e.st.apply c).isSome ∧
    (exec c e).2.st = (e.st.apply c).getD e.st := by
  unfold exec
  have hf : e.fail e.count = false := h _ (Nat.le_refl _)
  simp only [hf]
  cases ha : e.st.apply c <;> simp

/-! ### invariants that hold whatever fails -/

/-- `I` is kept by procedure `p` on every outcome (normal or exceptional), under every schedule. -/
def Keeps (I : FwState → Prop) (p : Proc) : Prop :=
  ∀ e, I e.st → I (p e).2.st ∧ SameRun e (p e).2

theorem Keeps.skip (I : FwState → Prop) : Keeps I Proc.skip := fun e h => ⟨h, SameRun.refl e⟩

theorem Keeps.raise (I : FwState → Prop) (x : Exc) : Keeps I (Proc.raise x) :=
  fun e h => ⟨h, SameRun.refl e⟩

theorem Keeps.seq {I : FwState → Prop} {a b : Proc} (ha : Keeps I a) (hb : Keeps I b) :
    Keeps I (Proc.seq a b) := by
  intro e h
  unfold Proc.seq
  have h1 := ha e h
  cases hr : a e with
  | mk r e1 =>
    rw [hr] at h1
    cases r with
    | none =>
      have h2 := hb e1 h1.1
      exact ⟨h2.1, h1.2.trans h2.2⟩
    | some x => exact h1

/-- A command keeps `I` if its natural effect does (failure changes nothing). -/
theorem Keeps.cmdF {I : FwState → Prop} {c : Cmd}
    (h : ∀ st st', I st → st.apply c = some st' → I st') : Keeps I (cmdF c) := by
  intro e hI
  unfold Fw.cmdF
  obtain ⟨hs, hc⟩ := exec_cases c e
  cases hr : exec c e with
  | mk ok e1 =>
    rw [hr] at hs hc
    cases ok with
    | true =>
      rcases hc with ⟨h1, _⟩ | ⟨_, h2⟩
      · cases h1
      · exact ⟨h _ _ hI h2, hs⟩
    | false =>
      rcases hc with ⟨_, h2⟩ | ⟨h1, _⟩
      · simp only at h2 ⊢; exact ⟨h2 ▸ hI, hs⟩
      · cases h1

theorem Keeps.cmdN {I : FwState → Prop} {c : Cmd}
    (h : ∀ st st', I st → st.apply c = some st' → I st') : Keeps I (cmdN c) := by
  intro e hI
  unfold Fw.cmdN
  obtain ⟨hs, hc⟩ := exec_cases c e
  refine ⟨?_, hs⟩
  rcases hc with ⟨_, h2⟩ | ⟨_, h2⟩
  · simp only [h2]; exact hI
  · exact h _ _ hI h2

theorem Keeps.steps {I : FwState → Prop} (l : List (Bool × Cmd))
    (h : ∀ bc ∈ l, ∀ st st', I st → st.apply bc.2 = some st' → I st') : Keeps I (steps l) := by
  induction l with
  | nil => exact Keeps.skip I
  | cons bc rest ih =>
    obtain ⟨nf, c⟩ := bc
    unfold Fw.steps
    apply Keeps.seq
    · cases nf
      · exact Keeps.cmdF (h (false, c) (List.mem_cons_self ..))
      · exact Keeps.cmdN (h (true, c) (List.mem_cons_self ..))
    · exact ih fun bc hbc => h bc (List.mem_cons_of_mem _ hbc)

/-- Sequencing where the first part establishes a stronger fact `J` on normal completion. -/
theorem Keeps.seq_strong {I J : FwState → Prop} {a b : Proc}
    (ha : ∀ e, I e.st → SameRun e (a e).2 ∧
      match (a e).1 with
      | none => J (a e).2.st
      | some _ => I (a e).2.st)
    (hb : ∀ e, J e.st → I (b e).2.st ∧ SameRun e (b e).2) : Keeps I (Proc.seq a b) := by
  intro e h
  unfold Proc.seq
  have h1 := ha e h
  cases hr : a e with
  | mk r e1 =>
    rw [hr] at h1
    cases r with
    | none =>
      have h2 := hb e1 h1.2
      exact ⟨h2.1, h1.1.trans h2.2⟩
    | some x => exact ⟨h1.2, h1.1⟩

/-! ### pre/post conditions under an arbitrary schedule -/

/-- From `P`, procedure `p` ends normally in `Q` or exceptionally in `R` (whatever fails). -/
def Hoare (P : FwState → Prop) (p : Proc) (Q R : FwState → Prop) : Prop :=
  ∀ e, P e.st → SameRun e (p e).2 ∧
    match (p e).1 with
    | none => Q (p e).2.st
    | some _ => R (p e).2.st

theorem Hoare.seq {P Q Q' R : FwState → Prop} {a b : Proc}
    (ha : Hoare P a Q R) (hb : Hoare Q b Q' R) : Hoare P (Proc.seq a b) Q' R := by
  intro e h
  unfold Proc.seq
  have h1 := ha e h
  cases hr : a e with
  | mk r e1 =>
    rw [hr] at h1
    cases r with
    | none =>
      have h2 := hb e1 h1.2
      exact ⟨h1.1.trans h2.1, h2.2⟩
    | some x => exact h1

theorem Hoare.cmdF {P Q R : FwState → Prop} {c : Cmd}
    (hfail : ∀ st, P st → R st)
    (hok : ∀ st st', P st → st.apply c = some st' → Q st') : Hoare P (cmdF c) Q R := by
  intro e hP
  unfold Fw.cmdF
  obtain ⟨hs, hc⟩ := exec_cases c e
  cases hr : exec c e with
  | mk ok e1 =>
    rw [hr] at hs hc
    cases ok with
    | true =>
      rcases hc with ⟨h1, _⟩ | ⟨_, h2⟩
      · cases h1
      · exact ⟨hs, hok _ _ hP h2⟩
    | false =>
      rcases hc with ⟨_, h2⟩ | ⟨h1, _⟩
      · simp only at h2 ⊢; exact ⟨hs, h2 ▸ hfail _ hP⟩
      · cases h1

theorem Hoare.cmdN {P Q R : FwState → Prop} {c : Cmd}
    (hfail : ∀ st, P st → Q st)
    (hok : ∀ st st', P st → st.apply c = some st' → Q st') : Hoare P (cmdN c) Q R := by
  intro e hP
  unfold Fw.cmdN
  obtain ⟨hs, hc⟩ := exec_cases c e
  refine ⟨hs, ?_⟩
  rcases hc with ⟨_, h2⟩ | ⟨_, h2⟩
  · simp only [h2]; exact hfail _ hP
  · exact hok _ _ hP h2

theorem Hoare.skip {P R : FwState → Prop} : Hoare P Proc.skip P R :=
  fun e h => ⟨SameRun.refl e, h⟩

theorem Hoare.raise {P Q : FwState → Prop} (x : Exc) : Hoare P (Proc.raise x) Q P :=
  fun e h => ⟨SameRun.refl e, h⟩

theorem Hoare.weaken {P P' Q Q' R R' : FwState → Prop} {p : Proc} (h : Hoare P p Q R)
    (hP : ∀ st, P' st → P st) (hQ : ∀ st, Q st → Q' st) (hR : ∀ st, R st → R' st) :
    Hoare P' p Q' R' := by
  intro e he
  have := h e (hP _ he)
  refine ⟨this.1, ?_⟩
  cases hr : (p e).1 with
  | none => rw [hr] at this; exact hQ _ this.2
  | some x => rw [hr] at this; exact hR _ this.2

theorem Keeps.hoare {I : FwState → Prop} {p : Proc} (h : Keeps I p) : Hoare I p I I := by
  intro e he
  have := h e he
  refine ⟨this.2, ?_⟩
  cases (p e).1 <;> exact this.1

theorem Hoare.keeps {I : FwState → Prop} {p : Proc} (h : Hoare I p I I) : Keeps I p := by
  intro e he
  have := h e he
  refine ⟨?_, this.1⟩
  cases hr : (p e).1 with
  | none => rw [hr] at this; exact this.2
  | some x => rw [hr] at this; exact this.2

theorem steps_append (l1 l2 : List (Bool × Cmd)) :
    steps (l1 ++ l2) = Proc.seq (steps l1) (steps l2) := by
  induction l1 with
  | nil =>
    funext e
    simp [steps, Proc.seq, Proc.skip]
  | cons bc rest ih =>
    obtain ⟨nf, c⟩ := bc
    simp only [List.cons_append, steps, ih]
    funext e
    simp only [Proc.seq]
    cases h : (if nf = true then cmdN c else cmdF c) e with
    | mk r e1 => cases r <;> simp

/-! ### natural runs: a deterministic "result" under `NoFault` -/

theorem cmdF_natural (c : Cmd) (e : Env) (h : NoFault e) :
    (cmdF c e).2.st = (e.st.apply c).getD e.st ∧
    ((cmdF c e).1 = none ↔ (e.st.apply c).isSome) ∧ NoFault (cmdF c e).2 ∧ SameRun e (cmdF c e).2 := by
  obtain ⟨h1, h2⟩ := exec_natural c e h
  obtain ⟨hs, _⟩ := exec_cases c e
  unfold Fw.cmdF
  cases hr : exec c e with
  | mk ok e1 =>
    rw [hr] at h1 h2 hs
    simp only at h1 h2
    cases ok with
    | true => exact ⟨h2, by simp [← h1], h.of_sameRun hs, hs⟩
    | false => exact ⟨h2, by simp [← h1], h.of_sameRun hs, hs⟩

theorem cmdN_natural (c : Cmd) (e : Env) (h : NoFault e) :
    (cmdN c e).2.st = (e.st.apply c).getD e.st ∧ (cmdN c e).1 = none ∧
    NoFault (cmdN c e).2 ∧ SameRun e (cmdN c e).2 := by
  obtain ⟨_, h2⟩ := exec_natural c e h
  obtain ⟨hs, _⟩ := exec_cases c e
  unfold Fw.cmdN
  exact ⟨h2, rfl, h.of_sameRun hs, hs⟩

/-- What a straight-line block does when every command behaves naturally. -/
def runNat : List (Bool × Cmd) → FwState → Option Exc × FwState
  | [], st => (none, st)
  | (nf, c) :: rest, st =>
    match st.apply c with
    | some st' => runNat rest st'
    | none => if nf then runNat rest st else (some .fatal, st)

theorem runNat_nf (c : Cmd) (rest : List (Bool × Cmd)) (st : FwState) :
    runNat ((true, c) :: rest) st = runNat rest ((st.apply c).getD st) := by
  simp only [runNat]
  cases st.apply c <;> simp

theorem steps_natural (l : List (Bool × Cmd)) (e : Env) (h : NoFault e) :
    (steps l e).1 = (runNat l e.st).1 ∧ (steps l e).2.st = (runNat l e.st).2 ∧
    NoFault (steps l e).2 ∧ SameRun e (steps l e).2 := by
  induction l generalizing e with
  | nil => exact ⟨rfl, rfl, h, SameRun.refl e⟩
  | cons bc rest ih =>
    obtain ⟨nf, c⟩ := bc
    simp only [steps, Proc.seq, runNat]
    cases nf with
    | true =>
      obtain ⟨h1, h2, h3, h4⟩ := cmdN_natural c e h
      simp only [if_true]
      cases hr : cmdN c e with
      | mk r e1 =>
        rw [hr] at h1 h2 h3 h4
        simp only at h1 h2 h3 h4
        subst h2
        have := ih e1 h3
        rw [h1] at this
        cases ha : e.st.apply c with
        | none => simp only [ha, Option.getD_none] at this ⊢; exact ⟨this.1, this.2.1, this.2.2.1, h4.trans this.2.2.2⟩
        | some st' => simp only [ha, Option.getD_some] at this ⊢; exact ⟨this.1, this.2.1, this.2.2.1, h4.trans this.2.2.2⟩
    | false =>
      obtain ⟨h1, h2, h3, h4⟩ := cmdF_natural c e h
      simp only [Bool.false_eq_true, if_false]
      cases hr : cmdF c e with
      | mk r e1 =>
        rw [hr] at h1 h2 h3 h4
        simp only at h1 h2 h3 h4
        cases ha : e.st.apply c with
        | none =>
          rw [ha] at h1 h2
          have hr' : r ≠ none := by intro hn; have := h2.mp hn; simp at this
          cases r with
          | none => exact absurd rfl hr'
          | some x =>
            simp only [Option.getD_none] at h1
            have hx : x = .fatal := by
              unfold Fw.cmdF at hr
              cases hx : exec c e with
              | mk ok e2 => rw [hx] at hr; cases ok <;> simp at hr <;> exact hr.1.symm
            subst hx
            exact ⟨rfl, h1, h3, h4⟩
        | some st' =>
          rw [ha] at h1 h2
          have hr' : r = none := h2.mpr rfl
          subst hr'
          simp only [Option.getD_some] at h1
          have := ih e1 h3
          rw [h1] at this
          exact ⟨this.1, this.2.1, this.2.2.1, h4.trans this.2.2.2⟩

end Sshuttle.Fw
