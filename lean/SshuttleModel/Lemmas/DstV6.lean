/-
Helper lemmas for C05, part 2: IPv6 text.  `parseV6 (strV6 gs) = some gs` and
`parseV6 (ntopV6 gs) = some gs` for every address (eight groups below 65536).
-/
import SshuttleModel.Lemmas.Dst

namespace Sshuttle.Dst

/-! ### hex groups -/

def isHexLower (c : Nat) : Bool := isDigit c || (97 ≤ c && c ≤ 102)

theorem hexDig_lower (d : Nat) (h : d < 16) : isHexLower (hexDig d) = true := by
  unfold isHexLower isDigit hexDig
  by_cases h10 : d < 10
  · simp [h10]; omega
  · simp [h10]; omega

theorem hexVal_hexDig (d : Nat) (h : d < 16) : hexVal? (hexDig d) = some d := by
  unfold hexVal? hexDig
  by_cases h10 : d < 10
  · have : 48 + d ≤ 57 := by omega
    simp [h10, this]
  · have h1 : ¬ (87 + d ≤ 57) := by omega
    have h2 : 97 ≤ 87 + d ∧ 87 + d ≤ 102 := by omega
    simp [h10, h1, h2]

theorem hexNat_alphabet (n : Nat) : ∀ c ∈ hexNat n, isHexLower c = true := by
  induction n using Nat.strongRecOn with
  | _ n ih =>
    by_cases h : n < 16
    · rw [hexNat_lt n h]; intro c hc; simp at hc; subst hc; exact hexDig_lower n h
    · rw [hexNat_ge n (by omega)]
      intro c hc
      rw [List.mem_append] at hc
      rcases hc with hc | hc
      · exact ih (n / 16) (by omega) c hc
      · simp at hc; subst hc; exact hexDig_lower _ (by omega)

theorem hexNat_ne_nil (n : Nat) : hexNat n ≠ [] := by
  by_cases h : n < 16
  · rw [hexNat_lt n h]; simp
  · rw [hexNat_ge n (by omega)]; simp

theorem hexNat_length (k : Nat) : ∀ n, n < 16 ^ (k + 1) → (hexNat n).length ≤ k + 1 := by
  induction k with
  | zero => intro n h; rw [hexNat_lt n (by simpa using h)]; simp
  | succ k ih =>
    intro n h
    by_cases h16 : n < 16
    · rw [hexNat_lt n h16]; simp
    · rw [hexNat_ge n (by omega)]
      have : n / 16 < 16 ^ (k + 1) := by
        rw [Nat.pow_succ] at h; omega
      have := ih (n / 16) this
      simp; omega

theorem hexFold_append (acc : Nat) (a b : Text) :
    hexFold acc (a ++ b) = (hexFold acc a).bind fun x => hexFold x b := by
  induction a generalizing acc with
  | nil => rfl
  | cons c r ih =>
    simp only [List.cons_append, hexFold]
    cases hexVal? c with
    | none => rfl
    | some v => exact ih _

theorem hexFold_hexNat (n : Nat) : hexFold 0 (hexNat n) = some n := by
  induction n using Nat.strongRecOn with
  | _ n ih =>
    by_cases h : n < 16
    · rw [hexNat_lt n h]; simp [hexFold, hexVal_hexDig n h]
    · rw [hexNat_ge n (by omega), hexFold_append, ih (n / 16) (by omega)]
      simp [hexFold, hexVal_hexDig (n % 16) (by omega)]
      omega

theorem parseHexGroup_hexNat (g : Nat) (h : g < 65536) : parseHexGroup (hexNat g) = some g := by
  unfold parseHexGroup
  have hl := hexNat_length 3 g (by simpa using h)
  have hne := hexNat_ne_nil g
  have h1 : (hexNat g).isEmpty = false := by
    cases hg : hexNat g with
    | nil => exact absurd hg hne
    | cons _ _ => rfl
  have h2 : ¬ ((hexNat g).length > 4) := by omega
  simp [h1, h2, hexFold_hexNat]

theorem not_mem_of_hex {t : Text} (ht : ∀ c ∈ t, isHexLower c = true) {x : Nat}
    (hx : isHexLower x = false) : x ∉ t := by
  intro hm; rw [ht x hm] at hx; cases hx

theorem hex_lt_128 {c : Nat} (h : isHexLower c = true) : c < 128 := by
  simp [isHexLower, isDigit] at h; omega

/-! ### colon-joined groups -/

theorem hexJoin_split (gs : List Nat) (hne : gs ≠ []) :
    splitAll 58 (hexJoin gs) = gs.map hexNat := by
  unfold hexJoin
  apply splitAll_join
  · intro t ht
    simp only [List.mem_map] at ht
    obtain ⟨g, _, rfl⟩ := ht
    exact not_mem_of_hex (hexNat_alphabet g) (by decide)
  · simpa using hne

theorem contains46_hexNat (g : Nat) : (hexNat g).contains 46 = false := by
  have : 46 ∉ hexNat g := not_mem_of_hex (hexNat_alphabet g) (by decide)
  simpa using this

theorem parseGroups_hex (allowV4 : Bool) (gs : List Nat) (h : ∀ g ∈ gs, g < 65536) :
    parseGroups allowV4 (gs.map hexNat) = some gs := by
  induction gs with
  | nil => rfl
  | cons g gs ih =>
    have hg := parseHexGroup_hexNat g (h g (by simp))
    cases gs with
    | nil =>
      have h46 : 46 ∉ hexNat g := not_mem_of_hex (hexNat_alphabet g) (by decide)
      simp [parseGroups, h46, hg]
    | cons g2 gs2 =>
      have := ih (fun x hx => h x (by simp [hx]))
      simp only [List.map_cons] at this ⊢
      simp only [parseGroups, hg, this]

theorem hexJoin_isEmpty (gs : List Nat) : (hexJoin gs).isEmpty = gs.isEmpty := by
  cases gs with
  | nil => rfl
  | cons g gs =>
    cases gs with
    | nil =>
      simp only [hexJoin, List.map_cons, List.map_nil, joinSep, List.isEmpty_cons]
      cases hg : hexNat g with
      | nil => exact absurd hg (hexNat_ne_nil g)
      | cons _ _ => rfl
    | cons g2 gs2 =>
      simp only [hexJoin, List.map_cons, joinSep_cons2, List.isEmpty_cons]
      cases hg : hexNat g with
      | nil => exact absurd hg (hexNat_ne_nil g)
      | cons _ _ => rfl

theorem parseSide_hexJoin (allowV4 : Bool) (gs : List Nat) (h : ∀ g ∈ gs, g < 65536) :
    parseSide allowV4 (hexJoin gs) = some gs := by
  unfold parseSide
  rw [hexJoin_isEmpty]
  cases gs with
  | nil => rfl
  | cons g gs =>
    simp only [List.isEmpty_cons, Bool.false_eq_true, ↓reduceIte]
    rw [hexJoin_split _ (by simp)]
    exact parseGroups_hex allowV4 _ h

/-! ### locating `::` -/

/-- No `::` inside and no `:` at either end. -/
def Tight (t : Text) : Prop := findDC t = none ∧ t.head? ≠ some 58 ∧ t.getLast? ≠ some 58

theorem findDC_cons_ne (a : Nat) (r : Text) (ha : a ≠ 58) :
    findDC (a :: r) = (findDC r).map fun p => (a :: p.1, p.2) := by
  cases r with
  | nil => simp [findDC]
  | cons b r' =>
    have : ¬ (a = 58 ∧ b = 58) := by intro h; exact ha h.1
    simp [findDC, this]

/-- In `a ++ "::" ++ b` with `a` free of `::` and not ending in `:`, the first `::` is the
one written. -/
theorem findDC_append (a b : Text) (h1 : findDC a = none) (h2 : a.getLast? ≠ some 58) :
    findDC (a ++ 58 :: 58 :: b) = some (a, b) := by
  induction a with
  | nil => simp [findDC]
  | cons x r ih =>
    cases r with
    | nil =>
      have hx : x ≠ 58 := by simpa using h2
      simp only [List.cons_append, List.nil_append]
      rw [findDC_cons_ne x _ hx]
      simp [findDC]
    | cons y r' =>
      have hnot : ¬ (x = 58 ∧ y = 58) := by
        intro h; simp [findDC, h] at h1
      have h1' : findDC (y :: r') = none := by
        simp only [findDC, hnot, ↓reduceIte] at h1
        cases hf : findDC (y :: r') with
        | none => rfl
        | some p => rw [hf] at h1; simp at h1
      have h2' : (y :: r').getLast? ≠ some 58 := by
        simpa [List.getLast?_cons_cons] using h2
      have := ih h1' h2'
      simp only [List.cons_append] at this ⊢
      simp only [findDC, hnot, ↓reduceIte]
      rw [this]
      rfl

theorem tight_of_hex (t : Text) (ht : ∀ c ∈ t, isHexLower c = true) (hne : t ≠ []) : Tight t := by
  have hno : ∀ c ∈ t, c ≠ 58 := by
    intro c hc h; subst h; have := ht 58 hc; simp [isHexLower, isDigit] at this
  refine ⟨?_, ?_, ?_⟩
  · clear hne ht
    induction t with
    | nil => rfl
    | cons x r ih =>
      rw [findDC_cons_ne x r (hno x (by simp)), ih (fun c hc => hno c (by simp [hc]))]
      rfl
  · cases t with
    | nil => exact absurd rfl hne
    | cons x r => simp; exact hno x (by simp)
  · intro h
    have := List.mem_of_getLast? h
    exact hno 58 this rfl

/-- `a ++ ":" ++ b` is tight when `a` is a non-empty run of hex digits and `b` is tight and
non-empty. -/
theorem tight_join (a b : Text) (ha : ∀ c ∈ a, isHexLower c = true) (hane : a ≠ [])
    (hb : Tight b) (hbne : b ≠ []) : Tight (a ++ 58 :: b) := by
  obtain ⟨hb1, hb2, hb3⟩ := hb
  have hno : ∀ c ∈ a, c ≠ 58 := by
    intro c hc h; subst h; have := ha 58 hc; simp [isHexLower, isDigit] at this
  refine ⟨?_, ?_, ?_⟩
  · clear hane ha
    induction a with
    | nil =>
      cases b with
      | nil => exact absurd rfl hbne
      | cons y r =>
        have hy : y ≠ 58 := by simpa using hb2
        simp [findDC, hy, hb1]
    | cons x r ih =>
      simp only [List.cons_append]
      rw [findDC_cons_ne x _ (hno x (by simp)), ih (fun c hc => hno c (by simp [hc]))]
      rfl
  · cases a with
    | nil => exact absurd rfl hane
    | cons x r => simp; exact hno x (by simp)
  · cases b with
    | nil => exact absurd rfl hbne
    | cons y r =>
      have : (a ++ 58 :: y :: r).getLast? = (y :: r).getLast? := by
        rw [show a ++ 58 :: y :: r = (a ++ [58]) ++ (y :: r) by simp]
        rw [List.getLast?_append]
        cases hq : (y :: r).getLast? with
        | none => simp at hq
        | some v => simp
      rw [this]; exact hb3

theorem hexJoin_tight (gs : List Nat) (hne : gs ≠ []) : Tight (hexJoin gs) := by
  induction gs with
  | nil => exact absurd rfl hne
  | cons g gs ih =>
    cases gs with
    | nil => exact tight_of_hex _ (hexNat_alphabet g) (hexNat_ne_nil g)
    | cons g2 gs2 =>
      have hb := ih (by simp)
      have hbne : hexJoin (g2 :: gs2) ≠ [] := by
        intro h
        have := hexJoin_isEmpty (g2 :: gs2)
        rw [h] at this; simp at this
      exact tight_join _ _ (hexNat_alphabet g) (hexNat_ne_nil g) hb hbne

theorem findDC_hexJoin_pre (pre : List Nat) (b : Text) :
    findDC (hexJoin pre ++ 58 :: 58 :: b) = some (hexJoin pre, b) := by
  cases pre with
  | nil => simp [hexJoin, joinSep, findDC]
  | cons g gs =>
    obtain ⟨h1, _, h3⟩ := hexJoin_tight (g :: gs) (by simp)
    exact findDC_append _ _ h1 h3

/-! ### the run chosen for `::` consists of zero groups -/

def runOk (bs : List Bool) : Bool :=
  match bestRun bs with
  | none => true
  | some (s, l) => decide (2 ≤ l) && decide (s + l ≤ 8) && ((bs.drop s).take l).all id

/-- All 256 zero / non-zero patterns of eight groups. -/
theorem bestRun_sound8 : ∀ b0 b1 b2 b3 b4 b5 b6 b7 : Bool,
    runOk [b0, b1, b2, b3, b4, b5, b6, b7] = true := by
  decide

theorem all_zero_eq_replicate (xs : List Nat) (h : (xs.map (· == 0)).all id = true) :
    xs = List.replicate xs.length 0 := by
  induction xs with
  | nil => rfl
  | cons x r ih =>
    simp only [List.map_cons, List.all_cons, Bool.and_eq_true, id] at h
    have hx : x = 0 := by simpa using h.1
    subst hx
    simp only [List.length_cons, List.replicate_succ]
    rw [← ih h.2]

/-- What `bestRun` returns on the zero pattern of an address is a run of zero groups of
length at least two inside the address. -/
theorem bestRun_zero (gs : List Nat) (hlen : gs.length = 8) (s l : Nat)
    (h : bestRun (gs.map (· == 0)) = some (s, l)) :
    2 ≤ l ∧ s + l ≤ 8 ∧ gs = gs.take s ++ List.replicate l 0 ++ gs.drop (s + l) := by
  match gs, hlen with
  | [g0, g1, g2, g3, g4, g5, g6, g7], _ =>
    have key := bestRun_sound8 (g0 == 0) (g1 == 0) (g2 == 0) (g3 == 0) (g4 == 0) (g5 == 0) (g6 == 0) (g7 == 0)
    simp only [List.map_cons, List.map_nil] at h
    unfold runOk at key
    rw [h] at key
    simp only [Bool.and_eq_true, decide_eq_true_eq] at key
    obtain ⟨⟨k1, k2⟩, k3⟩ := key
    refine ⟨k1, k2, ?_⟩
    have hmid : (([g0, g1, g2, g3, g4, g5, g6, g7].drop s).take l) = List.replicate l 0 := by
      have hz := all_zero_eq_replicate (([g0, g1, g2, g3, g4, g5, g6, g7].drop s).take l) (by
        rw [List.map_take, List.map_drop]; simpa using k3)
      have hl : (([g0, g1, g2, g3, g4, g5, g6, g7].drop s).take l).length = l := by
        simp; omega
      rw [hl] at hz; exact hz
    rw [← hmid]
    have e1 := List.take_append_drop s [g0, g1, g2, g3, g4, g5, g6, g7]
    have e2 := List.take_append_drop l ([g0, g1, g2, g3, g4, g5, g6, g7].drop s)
    rw [List.drop_drop] at e2
    rw [List.append_assoc, Nat.add_comm s l]
    rw [show l + s = s + l from Nat.add_comm l s]
    rw [e2, e1]

/-! ### round trips -/

/-- `inet_pton(AF_INET6, str(IPv6Address(x))) = x` for every address: no restriction on the
number or position of zero runs. -/
theorem parseV6_strV6 (gs : List Nat) (hlen : gs.length = 8) (hb : ∀ g ∈ gs, g < 65536) :
    parseV6 (strV6 gs) = some gs := by
  unfold strV6
  cases hrun : bestRun (gs.map (· == 0)) with
  | none =>
    simp only
    unfold parseV6
    have hne : gs ≠ [] := by intro h; rw [h] at hlen; simp at hlen
    rw [(hexJoin_tight gs hne).1]
    simp only
    rw [parseSide_hexJoin true gs hb]
    simp [hlen]
  | some p =>
    obtain ⟨s, l⟩ := p
    simp only
    obtain ⟨h2, h8, heq⟩ := bestRun_zero gs hlen s l hrun
    unfold parseV6
    rw [findDC_hexJoin_pre]
    simp only
    rw [parseSide_hexJoin false (gs.take s) (fun g hg => hb g (List.mem_of_mem_take hg)),
        parseSide_hexJoin true (gs.drop (s + l)) (fun g hg => hb g (List.mem_of_mem_drop hg))]
    simp only [List.length_take, List.length_drop, hlen]
    have h7 : min s 8 + (8 - (s + l)) ≤ 7 := by omega
    rw [if_pos h7]
    have hl : 8 - (min s 8 + (8 - (s + l))) = l := by omega
    rw [hl]
    exact congrArg some heq.symm

theorem mem46_strV4 (a b c d : Nat) : 46 ∈ strV4 a b c d := by
  simp [strV4]

theorem not58_strV4 (a b c d : Nat) : 58 ∉ strV4 a b c d := by
  intro hm
  rcases strV4_alphabet a b c d 58 hm with h | h
  · simp [isDigit] at h
  · omega

theorem strV4_ne_nil (a b c d : Nat) : strV4 a b c d ≠ [] := by
  intro h; have := mem46_strV4 a b c d; rw [h] at this; simp at this

theorem parseGroups_cons2 (allowV4 : Bool) (t u : Text) (ts : List Text) :
    parseGroups allowV4 (t :: u :: ts) =
      match parseHexGroup t, parseGroups allowV4 (u :: ts) with
      | some g, some r => some (g :: r)
      | _, _ => none := rfl

theorem parseGroups_v4tail (g6 g7 : Nat) (h6 : g6 < 65536) (h7 : g7 < 65536) :
    parseGroups true [strV4 (g6 / 256) (g6 % 256) (g7 / 256) (g7 % 256)] = some [g6, g7] := by
  have hc : (strV4 (g6 / 256) (g6 % 256) (g7 / 256) (g7 % 256)).contains 46 = true := by
    simpa using mem46_strV4 _ _ _ _
  simp only [parseGroups, hc, Bool.and_self, ↓reduceIte]
  rw [parseV4_strV4 _ _ _ _ (by omega) (by omega) (by omega) (by omega)]
  simp only [Option.some.injEq, List.cons.injEq, and_true]
  omega

/-- `inet_pton(AF_INET6, inet_ntop(AF_INET6, x)) = x` for every address, the dotted-quad
forms `::a.b.c.d` and `::ffff:a.b.c.d` included. -/
theorem parseV6_ntopV6 (gs : List Nat) (hlen : gs.length = 8) (hb : ∀ g ∈ gs, g < 65536) :
    parseV6 (ntopV6 gs) = some gs := by
  unfold ntopV6
  split
  · next g0 g1 g2 g3 g4 g5 g6 g7 l hrun =>
    obtain ⟨h2, h8, heq⟩ := bestRun_zero _ hlen 0 l hrun
    have h6 : g6 < 65536 := hb g6 (by simp)
    have h7 : g7 < 65536 := hb g7 (by simp)
    by_cases hl6 : l = 6
    · subst hl6
      simp only [↓reduceIte]
      simp [List.replicate] at heq
      obtain ⟨e0, e1, e2, e3, e4, e5⟩ := heq
      subst e0 e1 e2 e3 e4 e5
      unfold parseV6
      have hf : findDC (58 :: 58 :: strV4 (g6 / 256) (g6 % 256) (g7 / 256) (g7 % 256)) =
          some ([], strV4 (g6 / 256) (g6 % 256) (g7 / 256) (g7 % 256)) := by simp [findDC]
      rw [hf]
      simp only
      have hs : parseSide true (strV4 (g6 / 256) (g6 % 256) (g7 / 256) (g7 % 256)) = some [g6, g7] := by
        unfold parseSide
        have hne : (strV4 (g6 / 256) (g6 % 256) (g7 / 256) (g7 % 256)).isEmpty = false := by
          cases hq : strV4 (g6 / 256) (g6 % 256) (g7 / 256) (g7 % 256) with
          | nil => exact absurd hq (strV4_ne_nil _ _ _ _)
          | cons _ _ => rfl
        rw [hne]
        simp only [Bool.false_eq_true, ↓reduceIte]
        unfold splitAll
        rw [splitMax_last 58 _ _ (not58_strV4 _ _ _ _)]
        exact parseGroups_v4tail g6 g7 h6 h7
      rw [hs]
      simp [parseSide, List.replicate]
    · simp only [hl6, ↓reduceIte]
      by_cases hl5 : l = 5 ∧ g5 = 65535
      · obtain ⟨hl5, hg5⟩ := hl5
        subst hl5
        simp only [hg5, and_self, ↓reduceIte]
        simp [List.replicate] at heq
        obtain ⟨e0, e1, e2, e3, e4⟩ := heq
        subst e0 e1 e2 e3 e4
        unfold parseV6
        have hf : findDC (58 :: 58 :: (hexNat 65535 ++ 58 :: strV4 (g6 / 256) (g6 % 256) (g7 / 256) (g7 % 256))) =
            some ([], hexNat 65535 ++ 58 :: strV4 (g6 / 256) (g6 % 256) (g7 / 256) (g7 % 256)) := by
          simp [findDC]
        rw [hf]
        simp only
        have hs : parseSide true (hexNat 65535 ++ 58 :: strV4 (g6 / 256) (g6 % 256) (g7 / 256) (g7 % 256)) =
            some [65535, g6, g7] := by
          unfold parseSide
          have hne : (hexNat 65535 ++ 58 :: strV4 (g6 / 256) (g6 % 256) (g7 / 256) (g7 % 256)).isEmpty = false := by
            cases hq : hexNat 65535 with
            | nil => exact absurd hq (hexNat_ne_nil _)
            | cons _ _ => rfl
          rw [hne]
          simp only [Bool.false_eq_true, ↓reduceIte]
          have hj : hexNat 65535 ++ 58 :: strV4 (g6 / 256) (g6 % 256) (g7 / 256) (g7 % 256) =
              joinSep 58 [hexNat 65535, strV4 (g6 / 256) (g6 % 256) (g7 / 256) (g7 % 256)] := rfl
          rw [hj, splitAll_join 58 _ (by
            intro t ht
            simp at ht
            rcases ht with rfl | rfl
            · exact not_mem_of_hex (hexNat_alphabet _) (by decide)
            · exact not58_strV4 _ _ _ _) (by simp)]
          have := parseGroups_v4tail g6 g7 h6 h7
          rw [parseGroups_cons2, parseHexGroup_hexNat 65535 (by omega), this]
        rw [hs]
        simp [parseSide, List.replicate]
      · simp only [hl5, ↓reduceIte]
        exact parseV6_strV6 _ hlen hb
  · exact parseV6_strV6 _ hlen hb

/-! ### alphabets: no comma can occur in a printed address -/

theorem hexJoin_alphabet (gs : List Nat) : ∀ c ∈ hexJoin gs, isHexLower c = true ∨ c = 58 := by
  induction gs with
  | nil => intro c hc; simp [hexJoin, joinSep] at hc
  | cons g gs ih =>
    cases gs with
    | nil => intro c hc; exact Or.inl (hexNat_alphabet g c (by simpa [hexJoin, joinSep] using hc))
    | cons g2 gs2 =>
      intro c hc
      simp only [hexJoin, List.map_cons, joinSep_cons2, List.mem_append, List.mem_cons] at hc
      rcases hc with h | h | h
      · exact Or.inl (hexNat_alphabet g c h)
      · exact Or.inr h
      · exact ih c (by simpa [hexJoin] using h)

theorem strV6_alphabet (gs : List Nat) : ∀ c ∈ strV6 gs, isHexLower c = true ∨ c = 58 := by
  intro c hc
  unfold strV6 at hc
  split at hc
  · exact hexJoin_alphabet gs c hc
  · simp only [List.mem_append, List.mem_cons] at hc
    rcases hc with h | h | h | h
    · exact hexJoin_alphabet _ c h
    · exact Or.inr h
    · exact Or.inr h
    · exact hexJoin_alphabet _ c h

theorem ntopV6_alphabet (gs : List Nat) :
    ∀ c ∈ ntopV6 gs, isHexLower c = true ∨ c = 58 ∨ c = 46 := by
  intro c hc
  have v4 : ∀ a b c' d, c ∈ strV4 a b c' d → isHexLower c = true ∨ c = 58 ∨ c = 46 := by
    intro a b c' d h
    rcases strV4_alphabet a b c' d c h with h | h
    · left; simp [isHexLower, h]
    · right; right; exact h
  have v6 : c ∈ strV6 gs → isHexLower c = true ∨ c = 58 ∨ c = 46 := by
    intro h; rcases strV6_alphabet gs c h with h | h
    · exact Or.inl h
    · exact Or.inr (Or.inl h)
  unfold ntopV6 at hc
  split at hc
  · split at hc
    · simp only [List.mem_cons] at hc
      rcases hc with h | h | h
      · exact Or.inr (Or.inl h)
      · exact Or.inr (Or.inl h)
      · exact v4 _ _ _ _ h
    · split at hc
      · simp only [List.mem_cons, List.mem_append] at hc
        rcases hc with h | h | h | h | h
        · exact Or.inr (Or.inl h)
        · exact Or.inr (Or.inl h)
        · exact Or.inl (hexNat_alphabet _ c h)
        · exact Or.inr (Or.inl h)
        · exact v4 _ _ _ _ h
      · exact v6 hc
  · exact v6 hc

/-- An address text made of hex digits, colons and dots has no comma and is ASCII. -/
theorem addr_text_ok (t : Text) (h : ∀ c ∈ t, isHexLower c = true ∨ c = 58 ∨ c = 46) :
    44 ∉ t ∧ isAscii t = true := by
  constructor
  · intro hm
    rcases h 44 hm with h | h | h
    · simp [isHexLower, isDigit] at h
    · omega
    · omega
  · rw [isAscii_iff]
    intro c hc
    rcases h c hc with h | h | h
    · exact hex_lt_128 h
    · omega
    · omega

/-! ### packed bytes ↔ groups -/

theorem hextets_packGroups (gs : List Nat) : hextets (packGroups gs) = gs := by
  induction gs with
  | nil => rfl
  | cons g gs ih =>
    simp only [packGroups, List.flatMap_cons, List.cons_append, List.nil_append, hextets] at ih ⊢
    rw [ih]
    congr 1
    omega

theorem packGroups_length (gs : List Nat) : (packGroups gs).length = 2 * gs.length := by
  induction gs with
  | nil => rfl
  | cons g gs ih =>
    simp only [packGroups, List.flatMap_cons, List.length_append, List.length_cons,
      List.length_nil] at ih ⊢
    omega

end Sshuttle.Dst
