/-
The whole client→helper dialogue: byte prefixes of a stream of complete lines.
-/
import SshuttleModel.Lemmas.FwDialogueTrunc
import SshuttleModel.Lemmas.FwDialogueHostMap

namespace Sshuttle.FwDialogue

/-- A byte prefix of a stream of complete lines is a number of complete lines followed by a
newline-free tail (the started, unfinished line). -/
theorem take_flatten_lines : ∀ (ls : List Bytes) (k : Nat), (∀ l ∈ ls, IsLine l) →
    ∃ m tail, ls.flatten.take k = (ls.take m).flatten ++ tail ∧ 10 ∉ tail ∧ m ≤ ls.length ∧
      (k ≥ ls.flatten.length → m = ls.length ∧ tail = [])
  | [], k, _ => ⟨0, [], by simp, by simp, by simp, by simp⟩
  | l :: ls, k, hl => by
    obtain ⟨b, rfl, hb⟩ := hl l (by simp)
    by_cases hk : k < (b ++ [10]).length
    · refine ⟨0, b.take k, ?_, fun h => hb (List.mem_of_mem_take h), by simp, ?_⟩
      · simp only [List.flatten_cons, List.take_zero, List.flatten_nil, List.nil_append]
        rw [List.take_append_of_le_length (by omega)]
        simp only [List.length_append, List.length_cons, List.length_nil] at hk
        rw [List.take_append_of_le_length (by omega)]
      · intro hge
        simp only [List.flatten_cons, List.length_append] at hge hk
        omega
    · obtain ⟨m, tail, h1, h2, h3, h4⟩ := take_flatten_lines ls (k - (b ++ [10]).length)
        (fun x hx => hl x (by simp [hx]))
      refine ⟨m + 1, tail, ?_, h2, by simp; omega, ?_⟩
      · simp only [List.flatten_cons, List.take_succ_cons]
        rw [List.take_append, List.take_of_length_le (by omega), h1]
        simp [List.append_assoc]
      · intro hge
        simp only [List.flatten_cons, List.length_append] at hge
        have := h4 (by simp only [List.length_append] at hk ⊢; omega)
        simp [this.1, this.2]

/-- With a reader that gives an unfinished last line up, a byte prefix of a stream of complete
lines is read as the complete lines it contains — a prefix of the list of lines. -/
theorem rawLines_take (max : Nat) (hmax : 0 < max) (ls : List Bytes) (k : Nat) (hl : ∀ l ∈ ls, IsLine l) :
    ∃ m, m ≤ ls.length ∧ rawLines max true (ls.flatten.take k) = ls.take m ∧
      (k ≥ ls.flatten.length → m = ls.length) := by
  obtain ⟨m, tail, h1, h2, h3, h4⟩ := take_flatten_lines ls k hl
  refine ⟨m, h3, ?_, fun h => (h4 h).1⟩
  rw [h1, rawLines_lines max true hmax (ls.take m) tail (fun l h => hl l (List.mem_of_mem_take h)) h2]
  simp

theorem hostLines_take (hs : List (Bytes × Bytes)) (j : Nat) : (hostLines hs).take j = hostLines (hs.take j) := by
  simp [hostLines, List.map_take]

theorem mapM_renderHost : ∀ (hosts : List (Bytes × Bytes)), (∀ h ∈ hosts, HostOk h) →
    hosts.mapM (fun h => renderHost h.1 h.2) = some (hostLines hosts)
  | [], _ => rfl
  | h :: hs, hh => by
    have := mapM_renderHost hs (fun x hx => hh x (by simp [hx]))
    simp only [List.mapM_cons, renderHost_ok h (hh h (by simp)), this, hostLines, List.map_cons]
    rfl

/-- Fewer complete lines than the plan has: the helper never reaches set-up. -/
theorem parse_planLines_take (p : Plan) (hw : PlanWf p) (j : Nat) (hj : j < (planLines p).length) :
    parse ((planLines p).take j) = .noInput ∨ ∃ e, parse ((planLines p).take j) = .before e := by
  have htake : (planLines p).take j = (planFront p).take j := by
    rw [planLines_front] at hj ⊢
    simp only [List.length_append, List.length_cons, List.length_nil] at hj
    exact List.take_append_of_le_length (by omega)
  rw [htake]
  cases hparse : parse ((planFront p).take j) with
  | noInput => exact Or.inl rfl
  | before e => exact Or.inr ⟨e, rfl⟩
  | ran s hs fin =>
    exfalso
    obtain ⟨raw, hmem, line, hd, hgo⟩ := parse_ran_has_go _ s hs fin hparse
    have := front_no_go p hw raw (List.mem_of_mem_take hmem) line hd
    rw [this] at hgo
    cases hgo

/-- Any number of complete lines of the whole dialogue: before the `GO` line is complete the helper
has not set anything up; from then on it holds the complete plan and has received exactly the
first `j` host updates. -/
theorem parse_dialogue_take (p : Plan) (hw : PlanWf p) (hosts : List (Bytes × Bytes))
    (hh : ∀ h ∈ hosts, HostOk h) (m : Nat) :
    parse ((planLines p ++ hostLines hosts).take m) = .noInput ∨
    (∃ e, parse ((planLines p ++ hostLines hosts).take m) = .before e) ∨
    (∃ j, j ≤ hosts.length ∧ (m ≥ (planLines p ++ hostLines hosts).length → j = hosts.length) ∧
      parse ((planLines p ++ hostLines hosts).take m) = .ran (planSetup p) (hosts.take j) .eof) := by
  by_cases hm : m < (planLines p).length
  · rw [List.take_append_of_le_length (by omega)]
    rcases parse_planLines_take p hw m hm with h | h
    · exact Or.inl h
    · exact Or.inr (Or.inl h)
  · right; right
    refine ⟨min (m - (planLines p).length) hosts.length, by omega, ?_, ?_⟩
    · intro hge
      simp only [List.length_append, hostLines, List.length_map] at hge
      omega
    · rw [List.take_append, List.take_of_length_le (by omega), hostLines_take, parse_planLines p hw, hostLines]
      have : hosts.take (m - (planLines p).length) = hosts.take (min (m - (planLines p).length) hosts.length) := by
        rw [List.take_eq_take_iff]; omega
      rw [this, hostLoop_hosts _ (fun h hmem => hh h (List.mem_of_mem_take hmem))]

end Sshuttle.FwDialogue
