/-
The IPv4 regular expression of `parse_subnetport` on documented spellings, and the `int()`
round trip of the width / port texts.
-/
import SshuttleModel.Lemmas.ArgsV4

namespace Sshuttle.ArgsSpec
open Sshuttle.Inet Sshuttle.Args

/-- what a class run is followed by: nothing, or a character outside the class -/
def Stops (p : Char → Bool) (rest : Str) : Prop := rest = [] ∨ ∃ c t, rest = c :: t ∧ p c = false

theorem span_app (p : Char → Bool) (xs rest : Str) (hall : ∀ x ∈ xs, p x = true) (hrest : Stops p rest) :
    (xs ++ rest).takeWhile p = xs ∧ (xs ++ rest).dropWhile p = rest := by
  induction xs with
  | nil =>
    rcases hrest with rfl | ⟨c, t, rfl, hc⟩
    · simp
    · simp [hc]
  | cons x xs ih =>
    have hx := hall x (by simp)
    have := ih (fun y hy => hall y (by simp [hy]))
    simp [hx, this.1, this.2]

/-! ### characters of the spellings -/

theorem alnum_digitChar (d : Nat) (h : d < 16) : isAsciiAlnum (digitChar d) = true := by
  have : d = 0 ∨ d = 1 ∨ d = 2 ∨ d = 3 ∨ d = 4 ∨ d = 5 ∨ d = 6 ∨ d = 7 ∨ d = 8 ∨ d = 9 ∨
      d = 10 ∨ d = 11 ∨ d = 12 ∨ d = 13 ∨ d = 14 ∨ d = 15 := by omega
  rcases this with rfl | rfl | rfl | rfl | rfl | rfl | rfl | rfl | rfl | rfl | rfl | rfl | rfl | rfl | rfl | rfl <;> decide

theorem alnum_digitCharU (d : Nat) (h : d < 16) : isAsciiAlnum (digitCharU d) = true := by
  have : d = 0 ∨ d = 1 ∨ d = 2 ∨ d = 3 ∨ d = 4 ∨ d = 5 ∨ d = 6 ∨ d = 7 ∨ d = 8 ∨ d = 9 ∨
      d = 10 ∨ d = 11 ∨ d = 12 ∨ d = 13 ∨ d = 14 ∨ d = 15 := by omega
  rcases this with rfl | rfl | rfl | rfl | rfl | rfl | rfl | rfl | rfl | rfl | rfl | rfl | rfl | rfl | rfl | rfl <;> decide

theorem spellPart_alnum (r : Radix) (v : Nat) : ∀ c ∈ spellPart r v, isAsciiAlnum c = true := by
  intro c hc
  cases r with
  | dec =>
    obtain ⟨d, hd, rfl⟩ := renderWith_mem digitChar 10 (by omega) v c hc
    exact alnum_digitChar d (by omega)
  | oct =>
    simp only [spellPart, List.mem_cons] at hc
    rcases hc with rfl | hc
    · decide
    · obtain ⟨d, hd, rfl⟩ := renderWith_mem digitChar 8 (by omega) v c hc
      exact alnum_digitChar d (by omega)
  | hex =>
    simp only [spellPart, List.mem_cons] at hc
    rcases hc with rfl | rfl | hc
    · decide
    · decide
    · obtain ⟨d, hd, rfl⟩ := renderWith_mem digitChar 16 (by omega) v c hc
      exact alnum_digitChar d hd
  | hexU =>
    simp only [spellPart, List.mem_cons] at hc
    rcases hc with rfl | rfl | hc
    · decide
    · decide
    · obtain ⟨d, hd, rfl⟩ := renderWith_mem digitCharU 16 (by omega) v c hc
      exact alnum_digitCharU d hd

/-- characters of an IPv4 spelling: ASCII letters/digits and dots -/
def v4c (c : Char) : Bool := isAsciiAlnum c || c = '.'

theorem spellV4_chars (a : Nat) (sh : Shape4) : ∀ c ∈ spellV4 a sh, v4c c = true := by
  intro c hc
  have hp : ∀ r v, c ∈ spellPart r v → v4c c = true := by
    intro r v h; simp [v4c, spellPart_alnum r v c h]
  have hd : c = '.' → v4c c = true := by intro h; subst h; decide
  cases sh with
  | p1 r0 => exact hp _ _ hc
  | p2 r0 r1 =>
    simp only [spellV4, List.mem_append, List.mem_cons] at hc
    rcases hc with h | h | h
    · exact hp _ _ h
    · exact hd h
    · exact hp _ _ h
  | p3 r0 r1 r2 =>
    simp only [spellV4, List.mem_append, List.mem_cons] at hc
    rcases hc with h | h | h | h | h
    · exact hp _ _ h
    · exact hd h
    · exact hp _ _ h
    · exact hd h
    · exact hp _ _ h
  | p4 r0 r1 r2 r3 =>
    simp only [spellV4, List.mem_append, List.mem_cons] at hc
    rcases hc with h | h | h | h | h | h | h
    · exact hp _ _ h
    · exact hd h
    · exact hp _ _ h
    · exact hd h
    · exact hp _ _ h
    · exact hd h
    · exact hp _ _ h

theorem alnum_bounds (c : Char) (h : isAsciiAlnum c = true) :
    (48 ≤ c.toNat ∧ c.toNat ≤ 57) ∨ (65 ≤ c.toNat ∧ c.toNat ≤ 90) ∨ (97 ≤ c.toNat ∧ c.toNat ≤ 122) := by
  simp only [isAsciiAlnum, Bool.or_eq_true, Bool.and_eq_true, decide_eq_true_eq] at h
  omega

theorem v4c_toNat (c : Char) (h : v4c c = true) :
    (48 ≤ c.toNat ∧ c.toNat ≤ 57) ∨ (65 ≤ c.toNat ∧ c.toNat ≤ 90) ∨ (97 ≤ c.toNat ∧ c.toNat ≤ 122) ∨ c = '.' := by
  simp only [v4c, Bool.or_eq_true, decide_eq_true_eq] at h
  rcases h with h | h
  · have := alnum_bounds c h; omega
  · exact Or.inr (Or.inr (Or.inr h))

theorem v4c_isHost4 (c : Char) (h : v4c c = true) : isHost4 c = true := by
  simp only [v4c, Bool.or_eq_true, decide_eq_true_eq] at h
  rcases h with h | h
  · have hb := alnum_bounds c h
    have : c.toNat < 128 := by omega
    simp [isHost4, isW, this, h]
  · subst h; decide

theorem v4c_ne (c : Char) (h : v4c c = true) (x : Char)
    (hx : x.toNat < 46 ∨ x.toNat = 47 ∨ (58 ≤ x.toNat ∧ x.toNat ≤ 64) ∨ (91 ≤ x.toNat ∧ x.toNat ≤ 96) ∨ 123 ≤ x.toNat) :
    c ≠ x := by
  intro e
  subst e
  rcases v4c_toNat c h with h | h | h | h
  · omega
  · omega
  · omega
  · subst h
    revert hx; decide

theorem v4c_ascii (c : Char) (h : v4c c = true) : c.toNat < 128 := by
  rcases v4c_toNat c h with h | h | h | h
  · omega
  · omega
  · omega
  · subst h; decide

/-! ### decimal texts: `\d+` and `int()` -/

theorem isD_digitChar (d : Nat) (h : d < 10) : isD (digitChar d) = true := by
  have : d = 0 ∨ d = 1 ∨ d = 2 ∨ d = 3 ∨ d = 4 ∨ d = 5 ∨ d = 6 ∨ d = 7 ∨ d = 8 ∨ d = 9 := by omega
  rcases this with rfl | rfl | rfl | rfl | rfl | rfl | rfl | rfl | rfl | rfl <;> decide

theorem decimalVal_digitChar (d : Nat) (h : d < 10) : decimalVal? (digitChar d) = some d := by
  have : d = 0 ∨ d = 1 ∨ d = 2 ∨ d = 3 ∨ d = 4 ∨ d = 5 ∨ d = 6 ∨ d = 7 ∨ d = 8 ∨ d = 9 := by omega
  rcases this with rfl | rfl | rfl | rfl | rfl | rfl | rfl | rfl | rfl | rfl <;> decide

theorem render10_isD (n : Nat) : ∀ c ∈ render 10 n, isD c = true := by
  intro c hc
  obtain ⟨d, hd, rfl⟩ := renderWith_mem digitChar 10 (by omega) n c hc
  exact isD_digitChar d hd

theorem render10_ne_nil (n : Nat) : render 10 n ≠ [] := renderWith_ne_nil _ _ _

theorem pyIntAux_render (n : Nat) : ∀ acc, pyIntAux acc (render 10 n) =
    .ok (acc * 10 ^ (render 10 n).length + n) := by
  unfold render
  induction n using Nat.strongRecOn with
  | _ n ih =>
    intro acc
    by_cases h : n < 10 ∨ 10 < 2
    · rw [renderWith_lt digitChar 10 n h]
      have hn : n < 10 := by omega
      simp [pyIntAux, decimalVal_digitChar n hn]
    · rw [renderWith_ge digitChar 10 n h]
      have hlt : n / 10 < n := by omega
      have aux : ∀ (xs : Str) (d : Nat) (hd : d < 10) (acc k : Nat), pyIntAux acc xs = .ok k →
          pyIntAux acc (xs ++ [digitChar d]) = .ok (k * 10 + d) := by
        intro xs
        induction xs with
        | nil =>
          intro d hd acc k hk
          simp only [pyIntAux] at hk
          injection hk with hk
          simp [pyIntAux, decimalVal_digitChar d hd, hk]
        | cons x xs ihx =>
          intro d hd acc k hk
          simp only [List.cons_append, pyIntAux] at hk ⊢
          split at hk
          · next dv hdv => exact ihx d hd _ k hk
          · cases hk
      rw [aux _ (n % 10) (Nat.mod_lt _ (by omega)) acc _ (ih (n / 10) hlt acc)]
      simp only [List.length_append, List.length_singleton, Nat.pow_succ]
      congr 1
      rw [Nat.add_mul, Nat.mul_assoc]
      omega

/-- `int(str(n))` for a number short enough for the digit limit -/
theorem pyInt_render (n : Nat) (hn : n < 10 ^ 10) : pyInt (render 10 n) = .ok n := by
  unfold pyInt
  have hne : (render 10 n).isEmpty = false := by
    cases h : render 10 n with
    | nil => exact absurd h (render10_ne_nil n)
    | cons _ _ => rfl
  have hlen : (render 10 n).length ≤ 10 := renderWith_length_le digitChar 10 (by omega) 9 n hn
  have hlim : ¬ (render 10 n).length > Gen.C16.INT_MAX_STR_DIGITS := by
    have : (10 : Nat) ≤ Gen.C16.INT_MAX_STR_DIGITS := by decide
    omega
  rw [hne]
  simp only [Bool.false_eq_true, ↓reduceIte, hlim]
  rw [pyIntAux_render n 0]; simp

end Sshuttle.ArgsSpec
