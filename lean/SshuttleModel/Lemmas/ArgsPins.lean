/-
The model in `Code/Args.lean` was written by hand for particular source texts.  These
`example`s compare the texts and constants regenerated from the working tree
(`Gen/C16.lean`) with the ones the model was written for: a changed regular expression,
threshold, width limit, `type=` wiring or argument order breaks this module (and with it
`Props/C16`), instead of going unnoticed.
-/
import SshuttleModel.Code.Args

namespace Sshuttle.Args.Pins
open Sshuttle.Gen.C16

example : RX_SUBNET_V4 = "((?:\\*\\.)?[\\w\\.\\-]+)(?:/(\\d+))?(?::(\\d+)(?:-(\\d+))?)?$" := by decide
/-- the repaired IPv6 expression (`proposed_fixes/C16-embedded-ipv4.diff`): class `[\\w\\:\\.]` -/
example : RX_SUBNET_V6 = "(?:\\[?(?:\\*\\.)?([\\w\\:\\.]+)(?:/(\\d+))?]?)(?::(\\d+)(?:-(\\d+))?)?$" := by decide
example : RX_IPPORT_DIGITS = "()(\\d+)$" := by decide
example : RX_IPPORT_BRACKET = "(?:\\[([^]]+)])(?::(\\d+))?$" := by decide
example : RX_IPPORT_PLAIN = "([\\w\\.\\-]+)(?::(\\d+))?$" := by decide
example : SUBNET_COLON_THRESHOLD = 1 := by decide
example : MAX_CIDR_V4 = 32 ∧ MAX_CIDR_V6 = 128 := by decide
example : IPPORT_DEFAULT_HOST = "0.0.0.0" := by decide
example : TYPE_SUBNETS = "parse_subnetport" ∧ TYPE_EXCLUDE = "parse_subnetport" := by decide
example : TYPE_TO_NS = "parse_ipport" ∧ TYPE_LISTEN = "" ∧ TYPE_REMOTE = "" := by decide
example : ENV_ARGS_FIRST = true := by decide
/-- the options whose argparse action is `store` (a later occurrence replaces an earlier one);
`--listen` and `--remote` among them is what `C16_env_override` / `C16_listen_env` rely on -/
example : STORE_OPTIONS = ["--listen", "--ns-hosts", "--to-ns", "--method", "--python", "--remote", "--ssh-cmd", "--remote-shell", "--seed-hosts", "--latency-buffer-size", "--wrap", "--pidfile", "--user", "--group", "--sudoers-user", "--tmark", "--namespace", "--namespace-pid"] := by decide
example : INT_MAX_STR_DIGITS = 4300 := by decide

end Sshuttle.Args.Pins
