/-
Helper lemmas for C07: the `want`/`inbuf` loop of `Mux.handle` computes `decodeAll`.
-/
import SshuttleModel.Lemmas.Frames

namespace Sshuttle.Mux

/-- The value `want` holds after the loop stops on residue `b`. -/
def wantOf (b : Bytes) : Nat :=
  match b with
  | _ :: _ :: _ :: _ :: _ :: _ :: l1 :: l0 :: _ => unbe16 l1 l0 + 8
  | _ => 0

def magicOk (b : Bytes) : Prop :=
  match b with
  | s1 :: s2 :: _ => s1 = 83 ∧ s2 = 83
  | _ => False

/-- States the receiver can be in between two `handle` calls. -/
def Canon (rx : Rx) : Prop :=
  rx.want = 0 ∨ (rx.want = wantOf rx.inbuf ∧ 8 ≤ rx.inbuf.length ∧ magicOk rx.inbuf)

/-- Result of the loop expressed through the specification parser. -/
def specRes (acc : List Frame) (b : Bytes) : HandleRes :=
  if (decodeAll b).bad then .badMagic (acc.reverse ++ (decodeAll b).frames) ⟨0, (decodeAll b).rest⟩
  else .ok (acc.reverse ++ (decodeAll b).frames) ⟨wantOf (decodeAll b).rest, (decodeAll b).rest⟩

theorem exists_eight {l : Bytes} (h : 8 ≤ l.length) :
    ∃ s1 s2 c1 c0 m1 m0 l1 l0 body, l = s1 :: s2 :: c1 :: c0 :: m1 :: m0 :: l1 :: l0 :: body := by
  match l, h with
  | s1 :: s2 :: c1 :: c0 :: m1 :: m0 :: l1 :: l0 :: body, _ =>
    exact ⟨s1, s2, c1, c0, m1, m0, l1, l0, body, rfl⟩

theorem wantOf_short {b : Bytes} (h : b.length < 8) : wantOf b = 0 := by
  unfold wantOf
  split
  · simp at h; omega
  · rfl

theorem handleLoop_spec (fuel : Nat) (rx : Rx) (acc : List Frame)
    (hf : rx.inbuf.length < fuel) (hc : Canon rx) :
    handleLoop fuel rx acc = specRes acc rx.inbuf := by
  induction fuel generalizing rx acc with
  | zero => omega
  | succ fuel ih =>
    obtain ⟨want, inbuf⟩ := rx
    simp only [Canon] at hf hc ⊢
    unfold handleLoop
    simp only [hdr_len_eq]
    by_cases hlen : inbuf.length < 8
    · -- fewer than 8 bytes: canonical `want` must be 0, nothing happens
      have hw : want = 0 := by
        rcases hc with h | ⟨_, h8, _⟩
        · exact h
        · omega
      subst hw
      have hn : decode1 inbuf = .need := by
        unfold decode1; split
        · simp at hlen; omega
        · rfl
      have : ¬ (8 ≤ inbuf.length) := by omega
      simp [specRes, decodeAll_need hn, wantOf_short hlen, this]
    · -- at least 8 bytes
      obtain ⟨s1, s2, c1, c0, m1, m0, l1, l0, body, rfl⟩ := exists_eight (Nat.le_of_not_lt hlen)
      have hlen8 : (s1 :: s2 :: c1 :: c0 :: m1 :: m0 :: l1 :: l0 :: body).length =
          body.length + 8 := by simp
      by_cases hm : s1 = 83 ∧ s2 = 83
      · obtain ⟨rfl, rfl⟩ := hm
        have hm : (83:Nat) = 83 ∧ (83:Nat) = 83 := ⟨rfl, rfl⟩
        by_cases hbody : unbe16 l1 l0 ≤ body.length
        · -- a whole frame is present
          have hd : decode1 (83 :: 83 :: c1 :: c0 :: m1 :: m0 :: l1 :: l0 :: body) =
              .frame ⟨unbe16 c1 c0, unbe16 m1 m0, body.take (unbe16 l1 l0)⟩
                (body.drop (unbe16 l1 l0)) := by
            simp [decode1, hm, hbody]
          have hthr : (83 :: 83 :: c1 :: c0 :: m1 :: m0 :: l1 :: l0 :: body).length ≥
              (if want = 0 then 8 else want) := by
            rcases hc with h | ⟨h, _, _⟩
            · rw [h, hlen8]; simp
            · have hw0 : wantOf (83 :: 83 :: c1 :: c0 :: m1 :: m0 :: l1 :: l0 :: body) =
                  unbe16 l1 l0 + 8 := rfl
              rw [h, hw0, hlen8]
              have : ¬ (unbe16 l1 l0 + 8 = 0) := by omega
              rw [if_neg this]; omega
          have hge : (83 :: 83 :: c1 :: c0 :: m1 :: m0 :: l1 :: l0 :: body).length ≥
              unbe16 l1 l0 + 8 := by
            rw [hlen8]; omega
          rw [if_pos hthr]
          simp only [hm, and_self, ↓reduceIte]
          rw [if_pos hge, ih]
          · simp only [specRes, decodeAll_frame hd]
            have e1 : List.drop (unbe16 l1 l0 + 8)
                (83 :: 83 :: c1 :: c0 :: m1 :: m0 :: l1 :: l0 :: body) =
                body.drop (unbe16 l1 l0) := by simp
            have e2 : List.drop 8 (List.take (unbe16 l1 l0 + 8)
                (83 :: 83 :: c1 :: c0 :: m1 :: m0 :: l1 :: l0 :: body)) =
                body.take (unbe16 l1 l0) := by simp
            simp only [e1, e2]
            split <;> simp
          · rw [hlen8] at hf; simp; omega
          · left; rfl
        · -- header present, body incomplete
          have hd : decode1 (83 :: 83 :: c1 :: c0 :: m1 :: m0 :: l1 :: l0 :: body) = .need := by
            simp [decode1]; omega
          have hnge : ¬ (83 :: 83 :: c1 :: c0 :: m1 :: m0 :: l1 :: l0 :: body).length ≥
              unbe16 l1 l0 + 8 := by
            rw [hlen8]; omega
          have hw0 : wantOf (83 :: 83 :: c1 :: c0 :: m1 :: m0 :: l1 :: l0 :: body) =
              unbe16 l1 l0 + 8 := rfl
          rcases hc with h | ⟨h, _, _⟩
          · subst h
            have hthr : (83 :: 83 :: c1 :: c0 :: m1 :: m0 :: l1 :: l0 :: body).length ≥
                (if (0:Nat) = 0 then 8 else 0) := by rw [hlen8]; simp
            rw [if_pos hthr]
            simp only [hm, and_self, ↓reduceIte]
            rw [if_neg hnge]
            simp [specRes, decodeAll_need hd, hw0]
          · rw [hw0] at h
            subst h
            have hthr : ¬ (83 :: 83 :: c1 :: c0 :: m1 :: m0 :: l1 :: l0 :: body).length ≥
                (if unbe16 l1 l0 + 8 = 0 then 8 else unbe16 l1 l0 + 8) := by
              rw [hlen8]
              have : ¬ (unbe16 l1 l0 + 8 = 0) := by omega
              rw [if_neg this]; omega
            rw [if_neg hthr]
            simp [specRes, decodeAll_need hd, hw0]
      · -- bad magic: canonical `want` must be 0
        have hw : want = 0 := by
          rcases hc with h | ⟨_, _, h⟩
          · exact h
          · exact absurd h hm
        subst hw
        have hd : decode1 (s1 :: s2 :: c1 :: c0 :: m1 :: m0 :: l1 :: l0 :: body) = .bad := by
          simp [decode1, hm]
        have hthr : (s1 :: s2 :: c1 :: c0 :: m1 :: m0 :: l1 :: l0 :: body).length ≥
            (if (0:Nat) = 0 then 8 else 0) := by rw [hlen8]; simp
        rw [if_pos hthr]
        simp [hm, specRes, decodeAll_bad hd]

/-- After the loop the receiver is again in a canonical state. -/
theorem canon_after (b : Bytes) (h : (decodeAll b).bad = false) :
    Canon ⟨wantOf (decodeAll b).rest, (decodeAll b).rest⟩ := by
  have hn := decodeAll_rest_idem b h
  generalize (decodeAll b).rest = r at hn
  by_cases hlen : r.length < 8
  · left; exact wantOf_short hlen
  · right
    refine ⟨rfl, by simp; omega, ?_⟩
    obtain ⟨s1, s2, c1, c0, m1, m0, l1, l0, body, rfl⟩ := exists_eight (Nat.le_of_not_lt hlen)
    · unfold decode1 at hn
      simp only [magicOk]
      by_cases hm : s1 = 83 ∧ s2 = 83
      · exact hm
      · simp [hm] at hn

end Sshuttle.Mux
