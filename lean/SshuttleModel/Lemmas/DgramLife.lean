/-
The whole life of one DNS query on the server (`DnsProxy`): creation, then any interleaving of
resolver-socket events (replies, receive errors of any errno, each with any script of
name-server picks and connect/send outcomes) and end-of-round sweeps.  Behind C10_attempts_per_query.
-/
import SshuttleModel.Lemmas.DgramServer

namespace Sshuttle.Dgram

/-- Ghost record of one query's handler over its life. -/
structure Life where
  h : DnsH
  nextSock : Nat
  attempts : Nat := 0            -- sockets ever created for the query
  sends : List RSend := []       -- datagrams handed to resolver sockets
  frames : List Frame := []      -- DNS_RESPONSE frames queued
  replySocks : List Nat := []    -- the sockets on which a relayed reply had arrived
  dead : Bool := false           -- the server raised (only possible while connect() is outside the try)

inductive LifeEv
  | sock (k : Nat) (r : RecvRes) (sc : Script)   -- socket `k` is readable and `recv` gives `r`
  | sweep (expired : Bool)                       -- end-of-round sweep; `expired` = `timeout < now`

/-- `runonce` calls `callback(k)` only for a handler that is still listed (`ok`) and has `k` in
`socks` (exactly the dispatch of `SSys.round`); the sweep retires an expired handler. -/
def Life.step (cfg : Cfg) (l : Life) : LifeEv → Life
  | .sock k r sc =>
    if l.dead = true ∨ l.h.ok = false ∨ l.h.socks.contains k = false then l else
    let t := dnsCallback cfg l.h k r l.nextSock sc
    { h := t.h, nextSock := t.nextSock, attempts := l.attempts + t.attempts,
      sends := l.sends ++ t.sends, frames := l.frames ++ t.frames,
      replySocks := if t.frames.isEmpty then l.replySocks else l.replySocks ++ [k],
      dead := t.err.isSome }
  | .sweep expired => if expired then { l with h := { l.h with ok := false } } else l

/-- `dns_req`: `DnsProxy(mux, channel, data, to_nameserver)`. -/
def Life.start (cfg : Cfg) (now hid chan : Nat) (request : Bytes) (ns : Nat) (sc : Script) : Life :=
  let t := dnsProxyNew cfg now hid chan request ns sc
  { h := t.h, nextSock := t.nextSock, attempts := t.attempts, sends := t.sends, dead := t.err.isSome }

def Life.run (cfg : Cfg) (l : Life) (evs : List LifeEv) : Life := evs.foldl (Life.step cfg) l

/-- What one `callback` does, for every receive result and script. -/
structure CbOK (cfg : Cfg) (h : DnsH) (ns : Nat) (t : CbRes) : Prop where
  tries : h.tries + t.attempts = t.h.tries
  tries_le : t.h.tries ≤ max h.tries cfg.maxTries
  socks_used : t.nextSock = ns + t.attempts
  sends_le : t.sends.length ≤ t.attempts
  sends_ok : ∀ s ∈ t.sends, s.data = h.request ∧ s.chan = h.chan ∧ ns ≤ s.sock ∧ s.sock < t.nextSock
  socks : ∀ k ∈ t.h.socks, k ∈ h.socks ∨ (ns ≤ k ∧ k < t.nextSock)
  same : t.h.request = h.request ∧ t.h.chan = h.chan
  frames : (t.frames = [] ∧ t.h.ok = h.ok) ∨
    (∃ d, t.frames = [⟨h.chan, CMD_DNS_RESPONSE, d⟩] ∧ t.h.ok = false ∧ t.attempts = 0 ∧ t.sends = [])

theorem trySend_sends_le_attempts {cfg : Cfg} {h : DnsH} {ns : Nat} {r : TryRes} (t : TryOK cfg h ns r) :
    r.sends.length ≤ r.attempts := by
  have h1 := t.sends_le
  cases hs : r.sends with
  | nil => simp
  | cons s rest =>
    have := t.sends_ok s (by rw [hs]; simp)
    have h2 := t.socks_used
    rw [hs] at h1
    simp only [List.length_cons] at h1 ⊢
    omega

theorem dnsCallback_ok (cfg : Cfg) (h : DnsH) (sock : Nat) (r : RecvRes) (ns : Nat) (sc : Script) :
    CbOK cfg h ns (dnsCallback cfg h sock r ns sc) := by
  unfold dnsCallback
  split
  · exact ⟨by simp, by simp only; omega, by simp, by simp, by simp, fun k hk => Or.inl hk, ⟨rfl, rfl⟩, Or.inl ⟨rfl, rfl⟩⟩
  · cases r with
    | err e =>
      simp only
      by_cases hc : cfg.netErrs.contains e = true
      · simp only [hc, if_true]
        have t := trySend_ok cfg (cfg.maxTries + 1)
          { h with socks := h.socks.erase sock, peers := erase sock h.peers } ns sc
        refine ⟨t.attempts, t.tries_le, t.socks_used, trySend_sends_le_attempts t, ?_, ?_, ⟨t.same.2.2.1, t.same.1⟩,
          Or.inl ⟨rfl, t.same.2.2.2.2⟩⟩
        · intro s hs
          obtain ⟨a, b, _, _, e1, e2⟩ := t.sends_ok s hs
          exact ⟨a, b, e1, e2⟩
        · intro k hk
          rw [t.socks] at hk
          rcases List.mem_append.1 hk with hk | hk
          · exact Or.inl (List.mem_of_mem_erase hk)
          · simp only [List.mem_map] at hk
            obtain ⟨s, hs, rfl⟩ := hk
            obtain ⟨_, _, _, _, e1, e2⟩ := t.sends_ok s hs
            exact Or.inr ⟨e1, e2⟩
      · have hc' : cfg.netErrs.contains e = false := by simpa using hc
        simp only [hc', Bool.false_eq_true, if_false]
        exact ⟨by simp, by simp only; omega, by simp, by simp, by simp,
          fun k hk => Or.inl (List.mem_of_mem_erase hk), ⟨rfl, rfl⟩, Or.inl ⟨rfl, rfl⟩⟩
    | data from_ d =>
      simp only
      exact ⟨by simp, by simp only; omega, by simp, by simp, by simp, fun k hk => Or.inl hk, ⟨rfl, rfl⟩,
        Or.inr ⟨_, rfl, rfl, rfl, rfl⟩⟩

/-- The invariant of a query's life. `ns0` is the socket counter when the query reached the server. -/
structure LInv (cfg : Cfg) (ns0 chan : Nat) (request : Bytes) (l : Life) : Prop where
  attempts : l.attempts = l.h.tries
  tries_le : l.h.tries ≤ cfg.maxTries
  sends_le : l.sends.length ≤ l.attempts
  next : l.nextSock = ns0 + l.attempts
  socks : ∀ k ∈ l.h.socks, ns0 ≤ k ∧ k < l.nextSock
  sends_ok : ∀ s ∈ l.sends, s.data = request ∧ s.chan = chan ∧ ns0 ≤ s.sock ∧ s.sock < ns0 + cfg.maxTries
  same : l.h.request = request ∧ l.h.chan = chan
  frames_le : l.frames.length ≤ 1
  frames_retire : l.frames ≠ [] → l.h.ok = false
  frames_ok : ∀ f ∈ l.frames, f.chan = chan ∧ f.cmd = CMD_DNS_RESPONSE
  replies : l.replySocks.length = l.frames.length ∧ ∀ k ∈ l.replySocks, ns0 ≤ k ∧ k < ns0 + cfg.maxTries

theorem LInv.start (cfg : Cfg) (now hid chan : Nat) (request : Bytes) (ns : Nat) (sc : Script) :
    LInv cfg ns chan request (Life.start cfg now hid chan request ns sc) := by
  have t := trySend_ok cfg (cfg.maxTries + 1)
    { hid := hid, chan := chan, deadline := now + cfg.srvDnsHorizonS * cfg.ticksPerS, request := request } ns sc
  have ha := t.attempts
  have hl := t.tries_le
  have hn := t.socks_used
  simp only [Nat.zero_add, Nat.zero_le, Nat.max_eq_right] at ha hl
  unfold Life.start dnsProxyNew
  refine ⟨ha, hl, trySend_sends_le_attempts t, hn, ?_, ?_, ⟨t.same.2.2.1, t.same.1⟩, by simp, by simp, by simp, by simp⟩
  · intro k hk
    rw [t.socks] at hk
    simp only [List.nil_append, List.mem_map] at hk
    obtain ⟨s, hs, rfl⟩ := hk
    obtain ⟨_, _, _, _, e1, e2⟩ := t.sends_ok s hs
    exact ⟨e1, e2⟩
  · intro s hs
    obtain ⟨a, b, _, _, e1, e2⟩ := t.sends_ok s hs
    refine ⟨a, b, e1, ?_⟩
    omega

theorem LInv.step {cfg : Cfg} {ns0 chan : Nat} {request : Bytes} {l : Life}
    (h : LInv cfg ns0 chan request l) (ev : LifeEv) : LInv cfg ns0 chan request (l.step cfg ev) := by
  cases ev with
  | sweep expired =>
    cases expired with
    | false => exact h
    | true =>
      show LInv cfg ns0 chan request { l with h := { l.h with ok := false } }
      exact ⟨h.attempts, h.tries_le, h.sends_le, h.next, h.socks, h.sends_ok, h.same, h.frames_le,
        fun _ => rfl, h.frames_ok, h.replies⟩
  | sock k r sc =>
    by_cases hcond : l.dead = true ∨ l.h.ok = false ∨ l.h.socks.contains k = false
    · simp only [Life.step, if_pos hcond]; exact h
    · simp only [Life.step, if_neg hcond]
      have hok : l.h.ok = true := by
        cases ho : l.h.ok with
        | true => rfl
        | false => exact absurd (Or.inr (Or.inl ho)) hcond
      have hk : k ∈ l.h.socks := by
        cases hc : l.h.socks.contains k with
        | true => simpa using hc
        | false => exact absurd (Or.inr (Or.inr hc)) hcond
      have hnof : l.frames = [] := by
        cases hf : l.frames with
        | nil => rfl
        | cons f fs => have := h.frames_retire (by rw [hf]; simp); rw [hok] at this; cases this
      have t := dnsCallback_ok cfg l.h k r l.nextSock sc
      have htl := t.tries_le
      have ht := t.tries
      have hn := t.socks_used
      have hmax : max l.h.tries cfg.maxTries = cfg.maxTries := Nat.max_eq_right h.tries_le
      rw [hmax] at htl
      have ha := h.attempts
      have hnx := h.next
      have hkr := h.socks k hk
      refine ⟨by dsimp only; omega, htl, ?_, by dsimp only; omega, ?_, ?_,
        ⟨by dsimp only; rw [t.same.1, h.same.1], by dsimp only; rw [t.same.2, h.same.2]⟩, ?_, ?_, ?_, ?_⟩
      · have := h.sends_le; have := t.sends_le
        simp only [List.length_append]; omega
      · intro k' hk'
        dsimp only at hk' ⊢
        rcases t.socks k' hk' with hk' | ⟨e1, e2⟩
        · have := h.socks k' hk'; omega
        · omega
      · intro s hs
        rcases List.mem_append.1 hs with hs | hs
        · exact h.sends_ok s hs
        · obtain ⟨a, b, e1, e2⟩ := t.sends_ok s hs
          exact ⟨by rw [a, h.same.1], by rw [b, h.same.2], by omega, by omega⟩
      · rw [hnof]
        rcases t.frames with ⟨e, _⟩ | ⟨d, e, _⟩ <;> simp [e]
      · intro hne
        rcases t.frames with ⟨e, _⟩ | ⟨d, _, e, _⟩
        · exfalso; apply hne; dsimp only; rw [hnof, e]; rfl
        · exact e
      · intro f hf
        rw [hnof] at hf
        rcases t.frames with ⟨e, _⟩ | ⟨d, e, _⟩
        · rw [e] at hf; simp at hf
        · rw [e] at hf; simp only [List.nil_append, List.mem_singleton] at hf; subst hf
          exact ⟨h.same.2, rfl⟩
      · have hr := h.replies
        rw [hnof] at hr ⊢
        simp only [List.length_nil, List.length_eq_zero_iff] at hr
        rcases t.frames with ⟨e, _⟩ | ⟨d, e, _⟩
        · simp [e, hr.1]
        · simp only [e, List.isEmpty_cons, Bool.false_eq_true, if_false, hr.1, List.nil_append,
            List.length_singleton, List.mem_singleton, true_and]
          intro k' hk'; subst hk'; omega

theorem LInv.run {cfg : Cfg} {ns0 chan : Nat} {request : Bytes} {l : Life}
    (h : LInv cfg ns0 chan request l) (evs : List LifeEv) : LInv cfg ns0 chan request (l.run cfg evs) := by
  induction evs generalizing l with
  | nil => exact h
  | cons ev evs ih => exact ih (h.step ev)

end Sshuttle.Dgram
