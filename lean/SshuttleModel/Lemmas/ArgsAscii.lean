/-
For an all-ASCII argument the model never leaves its domain: `parse_subnetport` ends in a
result or in one of the exceptions argparse reports as a usage error.
-/
import SshuttleModel.Lemmas.ArgsReject

namespace Sshuttle.Args
open Sshuttle.Inet

/-- exceptions that argparse's `type=` handling turns into a usage error -/
def Exc.Usage (e : Exc) : Prop := (∃ t, e = .valueError t) ∨ (∃ k, e = .fatal k) ∨ e = .unicodeError

theorem pyIntAux_usage (s : Str) : ∀ acc e, pyIntAux acc s = .error e → e.Usage := by
  induction s with
  | nil => intro acc e h; simp [pyIntAux] at h
  | cons c t ih =>
    intro acc e h
    simp only [pyIntAux] at h
    split at h
    · exact ih _ e h
    · injection h with h; subst h; exact Or.inl ⟨_, rfl⟩

theorem pyInt_usage (s : Str) (e : Exc) (h : pyInt s = .error e) : e.Usage := by
  unfold pyInt at h
  split at h
  · injection h with h; subst h; exact Or.inl ⟨_, rfl⟩
  · split at h
    · injection h with h; subst h; exact Or.inl ⟨_, rfl⟩
    · exact pyIntAux_usage s 0 e h

theorem subnetLoop_usage (cidr fport lport : Option Str) (l : List AddrInfo) :
    ∀ e, subnetLoop cidr fport lport l = .error e → e.Usage := by
  induction l with
  | nil => intro e h; simp [subnetLoop] at h
  | cons a rest ih =>
    intro e h
    obtain ⟨fam, addr, port⟩ := a
    simp only [subnetLoop] at h
    split at h
    · next e1 hw =>
      injection h with h; subst h
      split at hw
      · cases hw
      · split at hw
        · next e2 hp => injection hw with hw; subst hw; exact pyInt_usage _ _ hp
        · split at hw
          · cases hw
          · injection hw with hw; subst hw; exact Or.inr (Or.inl ⟨_, rfl⟩)
    · next wv hw =>
      split at h
      · next e1 hf =>
        injection h with h; subst h
        split at hf
        · exact pyInt_usage _ _ hf
        · cases hf
      · next fp hf =>
        split at h
        · next e1 hl =>
          injection h with h; subst h
          split at hl
          · exact pyInt_usage _ _ hl
          · split at hl
            · exact pyInt_usage _ _ hl
            · cases hl
        · next lp hl =>
          split at h
          · next e1 hr => injection h with h; subst h; exact ih _ hr
          · cases h

theorem idnaEncode_err (env : Env) (host : Str) (e : Exc) (h : idnaEncode env host = .error e) :
    e = .unicodeError := by
  unfold idnaEncode at h
  split at h
  · cases h
  · split at h
    · dsimp only at h
      split at h
      · injection h with h; exact h.symm
      · split at h
        · injection h with h; exact h.symm
        · cases h
    · split at h
      · cases h
      · injection h with h; exact h.symm

/-- `getaddrinfo` leaves the modelled domain only through a `%` in the encoded host -/
theorem getaddrinfo_unmodelled (env : Env) (host : Str) (port : Nat) (t : String)
    (h : getaddrinfo env host port = .error (.unmodelled t)) :
    ∃ b, idnaEncode env host = .ok b ∧ '%' ∈ b := by
  unfold getaddrinfo at h
  split at h
  · next e he =>
    injection h with h; subst h
    have := idnaEncode_err env host _ he
    cases this
  · next b hb =>
    refine ⟨b, hb, ?_⟩
    split at h
    · cases h
    · split at h
      · cases h
      · cases h
      · cases h
      · next hs =>
        unfold gaiNumeric at hs
        simp only at hs
        split at hs
        · cases hs
        · split at hs
          · cases hs
          · split at hs
            · next hc =>
              split at hs
              · have : '%' ∈ b.takeWhile (fun c => decide (c ≠ Char.ofNat 0)) := by
                  simpa [List.contains_eq_mem] using hc
                exact (List.takeWhile_sublist _).subset this
              · cases hs
            · split at hs <;> cases hs
      · split at h <;> cases h


theorem idnaEncode_ok (env : Env) (host b : Str) (h : idnaEncode env host = .ok b) :
    b = host ∨ env.idna host = some b := by
  unfold idnaEncode at h
  split at h
  · next he =>
    injection h with h; subst h
    left
    cases host with
    | nil => rfl
    | cons _ _ => cases he
  · split at h
    · dsimp only at h
      split at h
      · cases h
      · split at h
        · cases h
        · injection h with h; exact Or.inl h.symm
    · split at h
      · next b' hb => injection h with h; subst h; exact Or.inr hb
      · cases h

theorem mem_takeWhile_true {p : Char → Bool} {l : Str} {c : Char} (h : c ∈ l.takeWhile p) : p c = true := by
  induction l with
  | nil => cases h
  | cons x xs ih =>
    by_cases hx : p x = true
    · simp only [List.takeWhile_cons, hx, ↓reduceIte, List.mem_cons] at h
      rcases h with rfl | h
      · exact hx
      · exact ih h
    · simp [hx] at h

theorem optStar_fst (s : Str) : ∀ c ∈ (optStar s).1, c = '*' ∨ c = '.' := by
  unfold optStar
  split
  · intro c hc; simp only [List.mem_cons, List.not_mem_nil, or_false] at hc; exact hc
  · intro c hc; cases hc

theorem matchRx4_host (s : Str) (g : Groups) (h : matchRx4 s = some g) :
    ∀ c ∈ g.host, c = '*' ∨ c = '.' ∨ isHost4 c = true := by
  unfold matchRx4 at h
  dsimp only at h
  split at h
  · cases h
  · split at h
    · next f l _ =>
      injection h with h; subst h
      intro c hc
      simp only [List.mem_append] at hc
      rcases hc with hc | hc
      · rcases optStar_fst s c hc with h1 | h1
        · exact Or.inl h1
        · exact Or.inr (Or.inl h1)
      · exact Or.inr (Or.inr (mem_takeWhile_true hc))
    · cases h

theorem matchRx6With_host (cls : Char → Bool) (s : Str) (g : Groups) (h : matchRx6With cls s = some g) :
    ∀ c ∈ g.host, cls c = true := by
  unfold matchRx6With matchRx6Body at h
  dsimp only at h
  split at h
  · cases h
  · split at h
    · injection h with h; subst h
      intro c hc; exact mem_takeWhile_true hc
    · split at h
      · split at h
        · cases h
        · split at h
          · next hRev hdrop =>
            split at h
            · cases h
            · injection h with h; subst h
              intro c hc
              simp only [List.mem_reverse] at hc
              have h1 : c ∈ ':' :: hRev := List.mem_cons_of_mem _ hc
              rw [← hdrop] at h1
              have h2 := (List.dropWhile_sublist _).subset h1
              simp only [List.mem_reverse] at h2
              exact mem_takeWhile_true h2
          · cases h
      · cases h

/-- **No string takes `parse_subnetport` out of the modelled domain**, provided the idna
oracle — like the real codec — never produces a `%` that was not in its input: the result
is a list of subnets or an exception argparse reports as a usage error. -/
theorem parseSubnetportWith_usage (cls : Char → Bool) (hcls : cls '%' = false) (env : Env)
    (henv : ∀ h b, env.idna h = some b → '%' ∉ b) (s : Str) (e : Exc)
    (h : parseSubnetportWith (matchRx6With cls) env s = .error e) : e.Usage := by
  unfold parseSubnetportWith at h
  dsimp only at h
  split at h
  · injection h with h; subst h; exact Or.inr (Or.inl ⟨_, rfl⟩)
  · next g hg =>
    have hhost : '%' ∉ g.host := by
      intro hm
      split at hg
      · have := matchRx6With_host cls s g hg '%' hm
        rw [hcls] at this; cases this
      · rcases matchRx4_host s g hg '%' hm with h1 | h1 | h1
        · revert h1; decide
        · revert h1; decide
        · revert h1; decide
    split at h
    · injection h with h; subst h; exact Or.inr (Or.inl ⟨_, rfl⟩)
    · next e1 hne hga =>
      injection h with h; subst h
      -- an error of getaddrinfo other than gaierror
      cases e1 with
      | gaierror => exact absurd rfl hne
      | fatal k => exact Or.inr (Or.inl ⟨_, rfl⟩)
      | unicodeError => exact Or.inr (Or.inr rfl)
      | valueError t => exact Or.inl ⟨_, rfl⟩
      | unmodelled t =>
        obtain ⟨b, hb, hpc⟩ := getaddrinfo_unmodelled env g.host 0 t hga
        rcases idnaEncode_ok env g.host b hb with rfl | hi
        · exact absurd hpc hhost
        · exact absurd hpc (henv _ _ hi)
    · split at h
      · injection h with h; subst h; exact Or.inr (Or.inl ⟨_, rfl⟩)
      · exact subnetLoop_usage _ _ _ _ e h

theorem argparseType_usage {α : Type} (r : Except Exc α) (h : ∀ e, r = .error e → e.Usage) :
    (∃ v, argparseType r = .ok v) ∨ argparseType r = .usage := by
  cases r with
  | ok v => exact Or.inl ⟨v, rfl⟩
  | error e =>
    right
    rcases h e rfl with ⟨t, rfl⟩ | ⟨k, rfl⟩ | rfl <;> rfl

end Sshuttle.Args
