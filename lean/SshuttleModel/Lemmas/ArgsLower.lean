/-
`str.lower()` of an IPv6 spelling is again a spelling of the same address (needed for the
`urlparse(...).hostname` step of `parse_hostport`).
-/
import SshuttleModel.Lemmas.ArgsIpaddr

namespace Sshuttle.ArgsSpec
open Sshuttle.Inet Sshuttle.Args

def HexDigit.lower (h : HexDigit) : HexDigit := ⟨h.d, false⟩

def hextetLower (g : Hextet) : Hextet := g.map HexDigit.lower

def End6.lower : End6 → End6
  | .group g => .group (hextetLower g)
  | .nothing => .nothing
  | .quad v => .quad v

def Spell6.lower : Spell6 → Spell6
  | .full gs e => .full (gs.map hextetLower) e.lower
  | .compressed l r e => .compressed (l.map hextetLower) (r.map hextetLower) e.lower

theorem asciiLower_digitChar (d : Nat) (h : d < 16) : asciiLower (digitChar d) = digitChar d := by
  have : d = 0 ∨ d = 1 ∨ d = 2 ∨ d = 3 ∨ d = 4 ∨ d = 5 ∨ d = 6 ∨ d = 7 ∨ d = 8 ∨ d = 9 ∨
      d = 10 ∨ d = 11 ∨ d = 12 ∨ d = 13 ∨ d = 14 ∨ d = 15 := by omega
  rcases this with rfl | rfl | rfl | rfl | rfl | rfl | rfl | rfl | rfl | rfl | rfl | rfl | rfl | rfl | rfl | rfl <;> decide

theorem asciiLower_digitCharU (d : Nat) (h : d < 16) : asciiLower (digitCharU d) = digitChar d := by
  have : d = 0 ∨ d = 1 ∨ d = 2 ∨ d = 3 ∨ d = 4 ∨ d = 5 ∨ d = 6 ∨ d = 7 ∨ d = 8 ∨ d = 9 ∨
      d = 10 ∨ d = 11 ∨ d = 12 ∨ d = 13 ∨ d = 14 ∨ d = 15 := by omega
  rcases this with rfl | rfl | rfl | rfl | rfl | rfl | rfl | rfl | rfl | rfl | rfl | rfl | rfl | rfl | rfl | rfl <;> decide

theorem asciiLower_char (h : HexDigit) (hd : h.d < 16) : asciiLower h.char = h.lower.char := by
  unfold HexDigit.char HexDigit.lower
  cases h.upper with
  | true => simp [asciiLower_digitCharU h.d hd]
  | false => simp [asciiLower_digitChar h.d hd]

theorem hextetText_lower (g : Hextet) (hg : ∀ h ∈ g, h.d < 16) :
    (hextetText g).map asciiLower = hextetText (hextetLower g) := by
  induction g with
  | nil => rfl
  | cons a r ih =>
    simp only [hextetText, hextetLower, List.map_cons, List.map_map] at ih ⊢
    rw [asciiLower_char a (hg a (by simp))]
    congr 1
    exact ih (fun x hx => hg x (by simp [hx]))

theorem hextetLower_valid (g : Hextet) (hg : g.Valid) : (hextetLower g).Valid := by
  obtain ⟨h1, h2, h3⟩ := hg
  refine ⟨by simp [hextetLower]; exact h1, by simp [hextetLower]; exact h2, ?_⟩
  intro h hm
  simp only [hextetLower, List.mem_map] at hm
  obtain ⟨x, hx, rfl⟩ := hm
  exact h3 x hx

theorem hextetVal_lower (g : Hextet) : hextetVal (hextetLower g) = hextetVal g := by
  unfold hextetVal hextetLower
  rw [List.foldl_map]
  rfl

theorem sepG_lower (gs : List Hextet) (hgs : ∀ g ∈ gs, g.Valid) :
    (sepG gs).map asciiLower = sepG (gs.map hextetLower) := by
  induction gs with
  | nil => rfl
  | cons g r ih =>
    simp only [sepG, List.map_append, List.map_cons]
    rw [hextetText_lower g (hgs g (by simp)).2.2, ih (fun x hx => hgs x (by simp [hx]))]
    rfl

theorem map_id_of (f : Char → Char) (s : Str) (h : ∀ c ∈ s, f c = c) : s.map f = s := by
  induction s with
  | nil => rfl
  | cons c t ih =>
    simp only [List.map_cons]
    rw [h c (by simp), ih (fun x hx => h x (by simp [hx]))]

theorem asciiLower_id (c : Char) (h : c.toNat < 65 ∨ 90 < c.toNat) : asciiLower c = c := by
  unfold asciiLower
  split
  · omega
  · rfl

theorem dotted_lower (v : Nat) : (dotted v).map asciiLower = dotted v := by
  apply map_id_of
  intro c hc
  apply asciiLower_id
  rw [dotted_shape] at hc
  have hr : ∀ n, c ∈ render 10 n → c.toNat < 65 := by
    intro n hn
    obtain ⟨d, hd, rfl⟩ := renderWith_mem digitChar 10 (by omega) n c hn
    rw [digitChar_toNat d hd]; omega
  simp only [List.mem_append, List.mem_cons] at hc
  rcases hc with hc | rfl | hc | rfl | hc | rfl | hc
  · exact Or.inl (hr _ hc)
  · decide
  · exact Or.inl (hr _ hc)
  · decide
  · exact Or.inl (hr _ hc)
  · decide
  · exact Or.inl (hr _ hc)

theorem end_lower (e : End6) (he : e.Valid) : e.text.map asciiLower = e.lower.text := by
  cases e with
  | nothing => rfl
  | group g => exact hextetText_lower g he.2.2
  | quad v => exact dotted_lower v

theorem text_lower (sp : Spell6) (h : sp.Valid) : sp.text.map asciiLower = sp.lower.text := by
  cases sp with
  | full gs e =>
    simp only [Spell6.text, Spell6.lower, List.map_append]
    rw [sepG_lower gs h.1, end_lower e h.2.1]
  | compressed l r e =>
    obtain ⟨hl, hr, he, _, _⟩ := h
    have hc : asciiLower ':' = ':' := by decide
    simp only [Spell6.text, Spell6.lower, List.map_append, List.map_cons, hc]
    rw [sepG_lower l hl, sepG_lower r hr, end_lower e he]
    cases l with
    | nil => simp [hc]
    | cons g l' => simp

theorem end_lower_valid (e : End6) (he : e.Valid) : e.lower.Valid := by
  cases e with
  | nothing => trivial
  | group g => exact hextetLower_valid g he
  | quad v => exact he

theorem end_lower_words (e : End6) : e.lower.words = e.words := by
  cases e with
  | nothing => rfl
  | group g => simp [End6.lower, End6.words, hextetVal_lower]
  | quad v => rfl

theorem end_lower_isNothing (e : End6) : e.lower.isNothing = e.isNothing := by
  cases e <;> rfl

theorem map_vals_lower (gs : List Hextet) : (gs.map hextetLower).map hextetVal = gs.map hextetVal := by
  simp [List.map_map, Function.comp_def, hextetVal_lower]

theorem lower_valid (sp : Spell6) (h : sp.Valid) : sp.lower.Valid := by
  cases sp with
  | full gs e =>
    obtain ⟨hgs, he, hn, hlen⟩ := h
    refine ⟨?_, end_lower_valid e he, by rw [end_lower_isNothing]; exact hn, by
      simp only [List.length_map, end_lower_words]; exact hlen⟩
    intro g hg
    simp only [List.mem_map] at hg
    obtain ⟨x, hx, rfl⟩ := hg
    exact hextetLower_valid x (hgs x hx)
  | compressed l r e =>
    obtain ⟨hl, hr, he, hlen, hnr⟩ := h
    refine ⟨?_, ?_, end_lower_valid e he, by simp only [List.length_map, end_lower_words]; exact hlen, ?_⟩
    · intro g hg
      simp only [List.mem_map] at hg
      obtain ⟨x, hx, rfl⟩ := hg
      exact hextetLower_valid x (hl x hx)
    · intro g hg
      simp only [List.mem_map] at hg
      obtain ⟨x, hx, rfl⟩ := hg
      exact hextetLower_valid x (hr x hx)
    · intro hn
      rw [end_lower_isNothing] at hn
      simp [hnr hn]

theorem lower_denotes (sp : Spell6) : sp.lower.denotes = sp.denotes := by
  cases sp with
  | full gs e => simp only [Spell6.lower, Spell6.denotes, map_vals_lower, end_lower_words]
  | compressed l r e =>
    simp only [Spell6.lower, Spell6.denotes, map_vals_lower, end_lower_words, List.length_map]

/-- `ip_address(text.lower())` is the same address -/
theorem ipAddress_lower (sp : Spell6) (h : sp.Valid) :
    ipAddress (sp.text.map asciiLower) = some (.v6 sp.denotes none) := by
  rw [text_lower sp h, ipAddress_spell6 _ (lower_valid sp h), lower_denotes]

end Sshuttle.ArgsSpec
