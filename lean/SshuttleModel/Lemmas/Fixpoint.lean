/-
A handler on which a callback with full readiness changes nothing has nothing pending.
Stage-by-stage facts about `Proxy.callback`, then `callback_fixpoint`.  Used by Props/C02
(`C02_no_stuck_state`).
-/
import SshuttleModel.Lemmas.Progress

namespace Sshuttle.Tunnel
open Sshuttle.Mux (Frame)
open Sshuttle.Wrap

/-- Every socket is ready and every connect has completed. -/
def fullIo : CbIo := { conn := .ok, recv := .data 65536, send := .sent 65536, shutErr := false }

theorem popEmpty_len (l : List Bytes) : (popEmpty l).length ≤ l.length := by
  induction l with
  | nil => exact Nat.le_refl _
  | cons b rest ih =>
    unfold popEmpty
    split
    · simp only [List.length_cons]; omega
    · exact Nat.le_refl _

/-! ### `sock.copy_to(mux)` -/

theorem sockCopyToMux_buflen (s : SockW) (w : MuxW) (m : MuxL) :
    (sockCopyToMux s w m).1.buf.length ≤ s.buf.length ∧
    (∀ b rest, s.buf = b :: rest → b.isEmpty = true → (sockCopyToMux s w m).1.buf.length < s.buf.length) := by
  unfold sockCopyToMux
  cases hb : s.buf with
  | nil =>
    simp only
    refine ⟨?_, fun b rest h => by cases h⟩
    split <;> simp [popEmpty, hb]
  | cons b rest =>
    simp only
    by_cases hbe : b.isEmpty = true
    · simp only [hbe, ↓reduceIte]
      have hl : (popEmpty s.buf).length ≤ rest.length := by
        rw [hb]; unfold popEmpty; rw [if_pos hbe]; exact popEmpty_len rest
      refine ⟨?_, fun _ _ _ _ => ?_⟩ <;> (split <;> (simp only [List.length_cons]; omega))
    · simp only [hbe, Bool.false_eq_true, ↓reduceIte]
      refine ⟨?_, fun b' rest' h hb' => ?_⟩
      · have hl := popEmpty_len ((b.drop (w.uwrite m b).1) :: rest)
        simp only [List.length_cons] at hl
        split <;> (simp only [List.length_cons]; omega)
      · injection h with h1 _; subst h1; exact absurd hb' hbe

theorem sockCopyToMux_eof (s : SockW) (w : MuxW) (m : MuxL) (hb : s.buf = []) (hr : s.shutR = true) :
    (sockCopyToMux s w m).2.1.shutW = true := by
  unfold sockCopyToMux
  simp only [hb, popEmpty, List.isEmpty_nil, hr, Bool.and_self, ↓reduceIte]
  exact (mwNowrite_fields w m).1

theorem sockCopyToMux_mw (s : SockW) (w : MuxW) (m : MuxL) :
    (sockCopyToMux s w m).2.1.shutR = w.shutR ∧ (w.shutW = true → (sockCopyToMux s w m).2.1.shutW = true) := by
  unfold sockCopyToMux
  cases hb : s.buf with
  | nil =>
    simp only
    split
    · exact ⟨(mwNowrite_fields w m).2.1, fun _ => (mwNowrite_fields w m).1⟩
    · exact ⟨rfl, id⟩
  | cons b rest =>
    simp only
    by_cases hbe : b.isEmpty = true
    · simp only [hbe, ↓reduceIte]
      split
      · exact ⟨(mwNowrite_fields w m).2.1, fun _ => (mwNowrite_fields w m).1⟩
      · exact ⟨rfl, id⟩
    · simp only [hbe, Bool.false_eq_true, ↓reduceIte]
      split
      · exact ⟨(mwNowrite_fields w _).2.1, fun _ => (mwNowrite_fields w _).1⟩
      · exact ⟨rfl, id⟩

/-! ### `mux.copy_to(sock)` -/

theorem muxCopyToSock_mw (w : MuxW) (s : SockW) (e : ESock) (r : SendRes) (se : Bool) :
    (muxCopyToSock w s e r se).1.shutR = w.shutR ∧ (muxCopyToSock w s e r se).1.shutW = w.shutW ∧
    (muxCopyToSock w s e r se).1.buf.length ≤ w.buf.length ∧
    (∀ b rest, w.buf = b :: rest → b.isEmpty = true → (muxCopyToSock w s e r se).1.buf.length < w.buf.length) := by
  unfold muxCopyToSock
  cases hb : w.buf with
  | nil =>
    simp only
    split <;> exact ⟨rfl, rfl, by simp [popEmpty, hb], fun b rest h => by cases h⟩
  | cons b rest =>
    simp only
    by_cases hbe : b.isEmpty = true
    · simp only [hbe, ↓reduceIte]
      have hl : (popEmpty w.buf).length ≤ rest.length := by
        rw [hb]; unfold popEmpty; rw [if_pos hbe]; exact popEmpty_len rest
      split <;> exact ⟨rfl, rfl, by simp only [List.length_cons]; omega, fun _ _ _ _ => by simp only [List.length_cons]; omega⟩
    · simp only [hbe, Bool.false_eq_true, ↓reduceIte]
      generalize s.uwrite e b r se = u
      obtain ⟨on, s1, e1⟩ := u
      cases on with
      | none =>
        simp only
        have hl : (popEmpty w.buf).length ≤ rest.length + 1 := by
          have := popEmpty_len w.buf
          rw [hb] at this ⊢
          simpa using this
        split <;> exact ⟨rfl, rfl, by simp only [List.length_cons]; omega,
          fun b' rest' h hb' => by injection h with h1 _; subst h1; exact absurd hb' hbe⟩
      | some n =>
        simp only
        have hl := popEmpty_len ((b.drop n) :: rest)
        simp only [List.length_cons] at hl
        split <;> exact ⟨rfl, rfl, by simp only [List.length_cons]; omega,
          fun b' rest' h hb' => by injection h with h1 _; subst h1; exact absurd hb' hbe⟩

theorem muxCopyToSock_eof (w : MuxW) (s : SockW) (e : ESock) (r : SendRes) (se : Bool)
    (hb : w.buf = []) (hr : w.shutR = true) : (muxCopyToSock w s e r se).2.1.shutW = true := by
  unfold muxCopyToSock
  simp only [hb, popEmpty, List.isEmpty_nil, hr, Bool.and_self, ↓reduceIte]
  exact (nowrite_fields s e se).1

theorem muxCopyToSock_sw (w : MuxW) (s : SockW) (m : MuxL) (e : ESock) (r : SendRes) (se : Bool) :
    (s.shutW = true → (muxCopyToSock w s e r se).2.1.shutW = true) ∧
    (s.shutR = true → (muxCopyToSock w s e r se).2.1.shutR = true) := by
  have hk := muxCopyToSock_ok w.chan w s m e true se r
  obtain ⟨k1, _, _⟩ := sinkStar_mono hk.sink
  obtain ⟨_, s1, _⟩ := srcStar_mono hk.src rfl
  exact ⟨k1, s1⟩


/-! ### the tail of the callback -/

theorem nowrite_conn (s : SockW) (e : ESock) (se : Bool) : (s.nowrite e se).1.connecting = s.connecting := by
  unfold SockW.nowrite; split
  · rfl
  · split <;> rfl

theorem cleanup_fields (p : ProxyS) (m : MuxL) (e : ESock) (se : Bool) :
    (p.cleanup m e se).1.sw.connecting = p.sw.connecting ∧
    (p.cleanup m e se).1.sw.buf.length ≤ p.sw.buf.length ∧
    (p.cleanup m e se).1.mw.buf.length ≤ p.mw.buf.length := by
  have hds : ∀ q : ProxyS, q.dropSock.sw.connecting = q.sw.connecting ∧ q.dropSock.sw.buf.length ≤ q.sw.buf.length ∧
      q.dropSock.mw = q.mw := by
    intro q; unfold ProxyS.dropSock SockW.noread; split
    · exact ⟨rfl, Nat.zero_le _, rfl⟩
    · exact ⟨rfl, Nat.le_refl _, rfl⟩
  have hdm : ∀ (q : ProxyS) (m : MuxL), (q.dropMux m).1.sw = q.sw ∧ (q.dropMux m).1.mw.buf.length ≤ q.mw.buf.length := by
    intro q m; unfold ProxyS.dropMux MuxW.noread; split
    · refine ⟨rfl, ?_⟩
      simp only
      split <;> exact Nat.zero_le _
    · exact ⟨rfl, Nat.le_refl _⟩
  have hfin : ∀ (q : ProxyS) (m : MuxL), (q.finish m e se).1.sw.connecting = q.sw.connecting ∧
      (q.finish m e se).1.sw.buf = q.sw.buf ∧ (q.finish m e se).1.mw.buf = q.mw.buf := by
    intro q m; unfold ProxyS.finish; split
    · split <;> exact ⟨nowrite_conn _ _ _, (nowrite_fields _ _ _).2.2, (mwNowrite_fields _ _).2.2⟩
    · exact ⟨rfl, rfl, rfl⟩
  unfold ProxyS.cleanup
  by_cases hf : p.sockFirst = true
  · simp only [hf, ↓reduceIte]
    obtain ⟨f1, f2, f3⟩ := hfin ((p.dropSock.dropMux m).1.preSelectFlags (p.dropSock.dropMux m).2).1
      ((p.dropSock.dropMux m).1.preSelectFlags (p.dropSock.dropMux m).2).2
    obtain ⟨_, _, g3, g4, g5, _, _⟩ := preSelect_fields (p.dropSock.dropMux m).1 (p.dropSock.dropMux m).2
    obtain ⟨d1, d2⟩ := hdm p.dropSock m
    obtain ⟨c1, c2, c3⟩ := hds p
    rw [f1, f2, f3, g3, g4, g5, d1]
    refine ⟨c1, c2, ?_⟩
    rw [c3] at d2; exact d2
  · simp only [hf, Bool.false_eq_true, ↓reduceIte]
    obtain ⟨f1, f2, f3⟩ := hfin ((p.dropMux m).1.dropSock.preSelectFlags (p.dropMux m).2).1
      ((p.dropMux m).1.dropSock.preSelectFlags (p.dropMux m).2).2
    obtain ⟨_, _, g3, g4, g5, _, _⟩ := preSelect_fields (p.dropMux m).1.dropSock (p.dropMux m).2
    obtain ⟨d1, d2⟩ := hdm p m
    obtain ⟨c1, c2, c3⟩ := hds (p.dropMux m).1
    rw [f1, f2, f3, g3, g4, g5, c3]
    rw [d1] at c1 c2
    exact ⟨c1, c2, d2⟩

theorem cleanup_shutW (p : ProxyS) (m : MuxL) (e : ESock) (se : Bool) :
    (p.sw.shutW = true → (p.cleanup m e se).1.sw.shutW = true) ∧
    (p.mw.shutW = true → (p.cleanup m e se).1.mw.shutW = true) := by
  have hk := (cleanup_ok p m e se).1
  obtain ⟨k1, _, _⟩ := sinkStar_mono hk.sink
  obtain ⟨_, _, s2⟩ := srcStar_mono hk.src rfl
  exact ⟨k1, s2⟩

theorem tryConnect_ok_settles (s : SockW) (e : ESock) (se : Bool) (s0 : SockW) (e0 : ESock)
    (h : s.tryConnect e .ok se = .ok s0 e0) : s0.connecting = false := by
  unfold SockW.tryConnect at h
  by_cases h1 : (s.connecting && s.shutW) = true
  · simp only [h1, ↓reduceIte, SockW.noread, Bool.not_false] at h
    injection h with h _; subst h; rfl
  · simp only [h1, Bool.false_eq_true, ↓reduceIte] at h
    by_cases h2 : s.connecting = true
    · simp only [h2, Bool.not_true, Bool.false_eq_true, ↓reduceIte] at h
      injection h with h _; subst h; rfl
    · simp only [h2, Bool.not_false, ↓reduceIte] at h
      injection h with h _; subst h; simpa using h2

theorem fill_idle (s : SockW) (e : ESock) (r : RecvRes) (se : Bool)
    (h : s.buf ≠ [] ∨ s.shutR = true) : s.fill e r se = (s, e) := by
  unfold SockW.fill
  rcases h with h | h
  · have : (!s.buf.isEmpty) = true := by
      cases hb : s.buf with
      | nil => exact absurd hb h
      | cons a l => rfl
    rw [if_pos this]
  · split
    · rfl
    · split
      · rfl
      · simp [h]


/-! ### end-of-stream is passed on by the callback that can pass it on -/

/-- The tunnel's end-of-stream has reached the socket: nothing buffered for it, the tunnel side
finished, so the socket's write side is shut. -/
def EofDown (s : SockW) (w : MuxW) : Prop := w.shutR = true → w.buf = [] → s.shutW = true

/-- The socket's end-of-stream has been passed to the tunnel. -/
def EofUp (s : SockW) (w : MuxW) : Prop := s.shutR = true → s.buf = [] → w.shutW = true

theorem muxCopyToSock_post (w : MuxW) (s : SockW) (e : ESock) (r : SendRes) (se : Bool) :
    EofDown (muxCopyToSock w s e r se).2.1 (muxCopyToSock w s e r se).1 ∧
    ((muxCopyToSock w s e r se).2.1.shutR = true → s.shutR = true ∨
      ((muxCopyToSock w s e r se).2.1.shutW = true ∧
        ((muxCopyToSock w s e r se).1.buf ≠ [] ∨ (muxCopyToSock w s e r se).1.shutR = true))) := by
  have nwR : ∀ (s : SockW) (e : ESock), (s.nowrite e se).1.shutR = true → s.shutR = true ∨ (s.nowrite e se).1.shutW = true := by
    intro s e h
    have := (nowrite_fields s e se).1
    exact Or.inr this
  have tail : ∀ (w1 : MuxW) (s1 : SockW) (e1 : ESock),
      (s1.shutR = true → s.shutR = true ∨ (s1.shutW = true ∧ w1.buf ≠ [] ∧ popEmpty w1.buf = w1.buf)) →
      let x := (if ({ w1 with buf := popEmpty w1.buf } : MuxW).buf.isEmpty && ({ w1 with buf := popEmpty w1.buf } : MuxW).shutR then
          (({ w1 with buf := popEmpty w1.buf } : MuxW), (s1.nowrite e1 se).1, (s1.nowrite e1 se).2)
        else (({ w1 with buf := popEmpty w1.buf } : MuxW), s1, e1))
      EofDown x.2.1 x.1 ∧ (x.2.1.shutR = true → s.shutR = true ∨ (x.2.1.shutW = true ∧ (x.1.buf ≠ [] ∨ x.1.shutR = true))) := by
    intro w1 s1 e1 h1
    simp only
    split
    next hc =>
      simp only [Bool.and_eq_true] at hc
      refine ⟨fun _ _ => (nowrite_fields s1 e1 se).1, fun _ => Or.inr ⟨(nowrite_fields s1 e1 se).1, Or.inr hc.2⟩⟩
    next hc =>
      refine ⟨?_, ?_⟩
      · intro hr hb
        exfalso; apply hc
        simp only [Bool.and_eq_true]
        exact ⟨by simp only at hb; rw [hb]; rfl, hr⟩
      · intro hr
        rcases h1 hr with h | ⟨h2, h3, h4⟩
        · exact Or.inl h
        · exact Or.inr ⟨h2, Or.inl (by simp only; rw [h4]; exact h3)⟩
  unfold muxCopyToSock
  cases hb : w.buf with
  | nil => exact tail w s e (fun h => Or.inl h)
  | cons b rest =>
    simp only
    by_cases hbe : b.isEmpty = true
    · simp only [hbe, ↓reduceIte]; exact tail w s e (fun h => Or.inl h)
    · simp only [hbe, Bool.false_eq_true, ↓reduceIte]
      -- what uwrite does to shut_read: only through nowrite / seterr, which shut the write side too, and then the
      -- chunk is still there (0 bytes taken)
      have hu : ((s.uwrite e b r se).2.1.shutR = true → s.shutR = true ∨
          ((s.uwrite e b r se).2.1.shutW = true ∧ (s.uwrite e b r se).1 = some 0)) := by
        unfold SockW.uwrite
        split
        · exact fun h => Or.inl h
        · simp only
          split
          · exact fun h => Or.inl h
          · exact fun h => Or.inl h
          · exact fun _ => Or.inr ⟨(nowrite_fields s e se).1, rfl⟩
          · intro _
            refine Or.inr ⟨?_, rfl⟩
            exact (seterr_shut s e se).2.1
      generalize s.uwrite e b r se = u at hu
      obtain ⟨on, s1, e1⟩ := u
      simp only at hu
      cases on with
      | none =>
        apply tail w s1 e1
        intro h
        rcases hu h with h' | ⟨_, h2⟩
        · exact Or.inl h'
        · cases h2
      | some n =>
        apply tail { w with buf := b.drop n :: rest } s1 e1
        intro h
        rcases hu h with h' | ⟨h1, h2⟩
        · exact Or.inl h'
        · injection h2 with h2; subst h2
          refine Or.inr ⟨h1, by simp, ?_⟩
          simp only [List.drop_zero]
          unfold popEmpty; rw [if_neg hbe]

theorem sockCopyToMux_post (s : SockW) (w : MuxW) (m : MuxL) :
    EofUp (sockCopyToMux s w m).1 (sockCopyToMux s w m).2.1 := by
  have tail : ∀ (s1 : SockW) (m1 : MuxL),
      let x := (if ({ s1 with buf := popEmpty s1.buf } : SockW).buf.isEmpty && ({ s1 with buf := popEmpty s1.buf } : SockW).shutR then
          (({ s1 with buf := popEmpty s1.buf } : SockW), (w.nowrite m1).1, (w.nowrite m1).2)
        else (({ s1 with buf := popEmpty s1.buf } : SockW), w, m1))
      EofUp x.1 x.2.1 := by
    intro s1 m1
    simp only
    split
    · exact fun _ _ => (mwNowrite_fields w m1).1
    next hc =>
      intro hr hb
      exfalso; apply hc
      simp only [Bool.and_eq_true]
      exact ⟨by simp only at hb; rw [hb]; rfl, hr⟩
  unfold sockCopyToMux
  cases hb : s.buf with
  | nil => exact tail s m
  | cons b rest =>
    simp only
    by_cases hbe : b.isEmpty = true
    · simp only [hbe, ↓reduceIte]; exact tail s m
    · simp only [hbe, Bool.false_eq_true, ↓reduceIte]
      exact tail { s with buf := b.drop (w.uwrite m b).1 :: rest } (w.uwrite m b).2

/-! ### the callback, stage by stage -/

/-- The state just before the tail of the callback, for both wrapper orders. -/
def midStage (sf : Bool) (s1 : SockW) (w : MuxW) (m : MuxL) (e1 : ESock) (io : CbIo) : SockW × MuxW × MuxL × ESock :=
  if sf then
    let x := sockCopyToMux s1 w m
    let y := muxCopyToSock x.2.1 x.1 e1 io.send io.shutErr
    (y.2.1, y.1, x.2.2, y.2.2)
  else
    let y := muxCopyToSock w s1 e1 io.send io.shutErr
    let x := sockCopyToMux y.2.1 y.1 m
    (x.1, x.2.1, x.2.2, y.2.2)

theorem callback_stages (p : ProxyS) (m : MuxL) (e : ESock) (io : CbIo) (p' : ProxyS) (m' : MuxL) (e' : ESock)
    (h : p.callback m e io = .ok p' m' e') :
    ∃ s0 e0, p.sw.tryConnect e io.conn io.shutErr = .ok s0 e0 ∧
      let f := s0.fill e0 io.recv io.shutErr
      let x := midStage p.sockFirst f.1 p.mw m f.2 io
      ProxyS.cleanup { p with sw := x.1, mw := x.2.1 } x.2.2.1 x.2.2.2 io.shutErr = (p', m', e') := by
  unfold ProxyS.callback at h
  cases htc : p.sw.tryConnect e io.conn io.shutErr with
  | died => rw [htc] at h; cases h
  | ok s0 e0 =>
    rw [htc] at h
    refine ⟨s0, e0, rfl, ?_⟩
    simp only at h ⊢
    unfold midStage
    cases hsf : p.sockFirst
    · simp only [hsf, Bool.false_eq_true, ↓reduceIte] at h ⊢
      injection h with h1 h2 h3
      rw [← h1, ← h2, ← h3]
    · simp only [hsf, ↓reduceIte] at h ⊢
      injection h with h1 h2 h3
      rw [← h1, ← h2, ← h3]

/-- Facts about the middle stage that do not depend on the wrapper order. -/
theorem midStage_facts (sf : Bool) (s1 : SockW) (w : MuxW) (m : MuxL) (e1 : ESock) (io : CbIo) :
    let x := midStage sf s1 w m e1 io
    x.1.connecting = s1.connecting ∧
    x.1.buf.length ≤ s1.buf.length ∧
    (∀ b rest, s1.buf = b :: rest → b.isEmpty = true → x.1.buf.length < s1.buf.length) ∧
    x.2.1.buf.length ≤ w.buf.length ∧
    (∀ b rest, w.buf = b :: rest → b.isEmpty = true → x.2.1.buf.length < w.buf.length) ∧
    (s1.buf = [] → s1.shutR = true → x.2.1.shutW = true) ∧
    (w.buf = [] → w.shutR = true → x.1.shutW = true) := by
  cases sf
  · -- server order: mux.copy_to(sock) first
    simp only [midStage, Bool.false_eq_true, ↓reduceIte]
    have a := muxCopyToSock_swbuf w s1 e1 io.send io.shutErr
    have b := muxCopyToSock_mw w s1 e1 io.send io.shutErr
    have c := muxCopyToSock_sw w s1 m e1 io.send io.shutErr
    have ce := muxCopyToSock_eof w s1 e1 io.send io.shutErr
    generalize muxCopyToSock w s1 e1 io.send io.shutErr = y at a b c ce
    obtain ⟨w2, s2, e2⟩ := y
    simp only at a b c ce ⊢
    have d := sockCopyToMux_sw s2 w2 m
    have f := sockCopyToMux_buflen s2 w2 m
    have g := sockCopyToMux_mwbuf s2 w2 m
    have k := sockCopyToMux_mw s2 w2 m
    refine ⟨by rw [d.2.2.2, a.2], by rw [← a.1]; exact f.1, ?_, by rw [g]; exact b.2.2.1, ?_, ?_, ?_⟩
    · intro b' rest hb hbe
      rw [← a.1] at hb ⊢
      exact f.2 b' rest hb hbe
    · intro b' rest hb hbe
      rw [g]; exact b.2.2.2 b' rest hb hbe
    · intro hb hr
      exact sockCopyToMux_eof s2 w2 m (by rw [a.1]; exact hb) (c.2 hr)
    · intro hb hr
      rw [d.2.1]
      exact ce hb hr
  · simp only [midStage, ↓reduceIte]
    have d := sockCopyToMux_sw s1 w m
    have f := sockCopyToMux_buflen s1 w m
    have g := sockCopyToMux_mwbuf s1 w m
    have k := sockCopyToMux_mw s1 w m
    have ke := sockCopyToMux_eof s1 w m
    generalize sockCopyToMux s1 w m = x at d f g k ke
    obtain ⟨s2, w2, m2⟩ := x
    simp only at d f g k ke ⊢
    have a := muxCopyToSock_swbuf w2 s2 e1 io.send io.shutErr
    have b := muxCopyToSock_mw w2 s2 e1 io.send io.shutErr
    have c := muxCopyToSock_sw w2 s2 m2 e1 io.send io.shutErr
    refine ⟨by rw [a.2, d.2.2.2], by rw [a.1]; exact f.1, ?_, ?_, ?_, ?_, ?_⟩
    · intro b' rest hb hbe
      rw [a.1]; exact f.2 b' rest hb hbe
    · rw [← g]; exact b.2.2.1
    · intro b' rest hb hbe
      rw [← g] at hb ⊢
      exact b.2.2.2 b' rest hb hbe
    · intro hb hr
      rw [b.2.1]; exact ke hb hr
    · intro hb hr
      exact muxCopyToSock_eof w2 s2 e1 io.send io.shutErr (by rw [g]; exact hb) (by rw [k.1]; exact hr)


/-! ### the callback's post-condition on end-of-stream propagation -/

/-- What holds of the two wrappers after the two copy stages: the tunnel's end-of-stream has reached
the socket; the socket's end-of-stream has reached the tunnel, or the socket side has just been shut
both ways with tunnel-side work left that the tail of the callback turns into the completion. -/
def MidPost (s : SockW) (w : MuxW) : Prop :=
  EofDown s w ∧
  (s.shutR = true → s.buf = [] → w.shutW = true ∨ (s.shutW = true ∧ (w.buf ≠ [] ∨ w.shutR = true)))

theorem midStage_post (sf : Bool) (s1 : SockW) (w : MuxW) (m : MuxL) (e1 : ESock) (io : CbIo) :
    MidPost (midStage sf s1 w m e1 io).1 (midStage sf s1 w m e1 io).2.1 := by
  cases sf
  · simp only [midStage, Bool.false_eq_true, ↓reduceIte]
    have a := muxCopyToSock_post w s1 e1 io.send io.shutErr
    generalize muxCopyToSock w s1 e1 io.send io.shutErr = y at a
    obtain ⟨w2, s2, e2⟩ := y
    simp only at a ⊢
    have d := sockCopyToMux_sw s2 w2 m
    have g := sockCopyToMux_mwbuf s2 w2 m
    have k := sockCopyToMux_mw s2 w2 m
    have up := sockCopyToMux_post s2 w2 m
    generalize sockCopyToMux s2 w2 m = x at d g k up
    obtain ⟨s3, w3, m3⟩ := x
    simp only at d g k up ⊢
    refine ⟨?_, ?_⟩
    · intro hr hb
      rw [d.2.1]
      exact a.1 (by rw [← k.1]; exact hr) (by rw [← g]; exact hb)
    · intro hr hb
      exact Or.inl (up hr hb)
  · simp only [midStage, ↓reduceIte]
    have up := sockCopyToMux_post s1 w m
    generalize sockCopyToMux s1 w m = x at up
    obtain ⟨s2, w2, m2⟩ := x
    simp only at up ⊢
    have a := muxCopyToSock_post w2 s2 e1 io.send io.shutErr
    have b := muxCopyToSock_swbuf w2 s2 e1 io.send io.shutErr
    have c := muxCopyToSock_mw w2 s2 e1 io.send io.shutErr
    generalize muxCopyToSock w2 s2 e1 io.send io.shutErr = y at a b c
    obtain ⟨w3, s3, e3⟩ := y
    simp only at a b c ⊢
    refine ⟨a.1, ?_⟩
    intro hr hb
    rcases a.2 hr with h | h
    · left
      rw [c.2.1]
      exact up h (by rw [← b.1]; exact hb)
    · exact Or.inr h

theorem cleanup_post (q : ProxyS) (m : MuxL) (e : ESock) (se : Bool) (h : MidPost q.sw q.mw) :
    EofUp (q.cleanup m e se).1.sw (q.cleanup m e se).1.mw ∧ EofDown (q.cleanup m e se).1.sw (q.cleanup m e se).1.mw := by
  obtain ⟨⟨sb, sr, sw, sc, sx⟩, ⟨wc, wb, wr, ww⟩, pok, sf⟩ := q
  obtain ⟨h1, h2⟩ := h
  simp only [EofDown] at h1
  simp only at h2
  cases sf <;> cases sw <;> cases ww <;> cases wr <;> cases sr <;> cases sb <;> cases wb <;> cases se <;>
    simp_all [EofUp, EofDown, ProxyS.cleanup, ProxyS.dropSock, ProxyS.dropMux, ProxyS.preSelectFlags, ProxyS.finish,
      MuxW.noread, MuxW.nowrite, SockW.noread, SockW.nowrite]

/-- **After every callback, every end-of-stream that can be passed on has been passed on**: the
socket's (read side shut, nothing buffered ⇒ the tunnel-side writer is shut, i.e. EOF queued) and
the tunnel's (tunnel side finished, nothing buffered ⇒ the socket's write side is shut). -/
theorem callback_eof_post (p : ProxyS) (m : MuxL) (e : ESock) (io : CbIo) (p' : ProxyS) (m' : MuxL) (e' : ESock)
    (h : p.callback m e io = .ok p' m' e') : EofUp p'.sw p'.mw ∧ EofDown p'.sw p'.mw := by
  obtain ⟨s0, e0, _, hcl⟩ := callback_stages p m e io p' m' e' h
  simp only at hcl
  have hm := midStage_post p.sockFirst (s0.fill e0 io.recv io.shutErr).1 p.mw m (s0.fill e0 io.recv io.shutErr).2 io
  generalize midStage p.sockFirst (s0.fill e0 io.recv io.shutErr).1 p.mw m (s0.fill e0 io.recv io.shutErr).2 io = x at hm hcl
  have := cleanup_post { p with sw := x.1, mw := x.2.1 } x.2.2.1 x.2.2.2 io.shutErr hm
  rw [hcl] at this
  exact this

/-! ### a callback that changes nothing -/

/-- **If a callback with every socket ready changes nothing, nothing is pending for the handler**:
it is not connecting, both buffers are empty, there is nothing to read, and every shut flag has
been passed on (end-of-stream to the tunnel, end-of-stream to the socket, the two STOP
propagations). -/
theorem callback_fixpoint (p : ProxyS) (m : MuxL) (e : ESock) (hse : SE p.sw e) (htf : m.tooFull = false)
    (h : p.callback m e fullIo = .ok p m e) :
    p.sw.connecting = false ∧ p.sw.buf = [] ∧ p.mw.buf = [] ∧
    (p.sw.shutR = false → e.pending = [] ∧ e.eofIn = false) ∧
    (p.sw.shutR = true → p.mw.shutW = true) ∧ (p.mw.shutR = true → p.sw.shutW = true) ∧
    (p.sw.shutW = true → p.mw.shutR = true) ∧ (p.mw.shutW = true → p.sw.shutR = true) := by
  obtain ⟨s0, e0, htc, hcl⟩ := callback_stages p m e fullIo p m e h
  simp only at hcl
  have hmid := midStage_facts p.sockFirst (s0.fill e0 fullIo.recv fullIo.shutErr).1 p.mw m
    (s0.fill e0 fullIo.recv fullIo.shutErr).2 fullIo
  simp only at hmid
  generalize hx : midStage p.sockFirst (s0.fill e0 fullIo.recv fullIo.shutErr).1 p.mw m
    (s0.fill e0 fullIo.recv fullIo.shutErr).2 fullIo = x at hcl hmid
  obtain ⟨m1, m2, m3, m4, m5, m6, m7⟩ := hmid
  have hcl1 : (ProxyS.cleanup { p with sw := x.1, mw := x.2.1 } x.2.2.1 x.2.2.2 fullIo.shutErr).1 = p := by
    rw [hcl]
  have hcf := cleanup_fields { p with sw := x.1, mw := x.2.1 } x.2.2.1 x.2.2.2 fullIo.shutErr
  have hcs := cleanup_shutW { p with sw := x.1, mw := x.2.1 } x.2.2.1 x.2.2.2 fullIo.shutErr
  rw [hcl1] at hcf hcs
  simp only at hcf hcs
  obtain ⟨c1, c2, c3⟩ := hcf
  -- (1) not connecting
  have hconn : p.sw.connecting = false := by
    rw [c1, m1, (fill_keeps s0 e0 fullIo.recv fullIo.shutErr).1]
    exact tryConnect_ok_settles p.sw e fullIo.shutErr s0 e0 htc
  have hidle := tryConnect_idle p.sw e fullIo.conn fullIo.shutErr hconn
  rw [hidle] at htc
  injection htc with hs0 he0
  subst hs0; subst he0
  -- (2) nothing buffered for the tunnel
  have hsb : p.sw.buf = [] := by
    cases hb : p.sw.buf with
    | nil => rfl
    | cons b rest =>
      exfalso
      by_cases hbe : b.isEmpty = true
      · have hfi := fill_idle p.sw e fullIo.recv fullIo.shutErr (Or.inl (by rw [hb]; exact List.cons_ne_nil _ _))
        rw [hfi] at m3
        have := m3 b rest hb hbe
        simp only at this
        omega
      · have := callback_sends p m e fullIo p m e b rest hconn hb (by simpa using hbe) htf h
        omega
  -- (3) nothing buffered for the socket
  have hmb : p.mw.buf = [] := by
    cases hb : p.mw.buf with
    | nil => rfl
    | cons b rest =>
      exfalso
      by_cases hbe : b.isEmpty = true
      · have := m5 b rest hb hbe
        omega
      · rcases callback_delivers p m e fullIo p m e 65536 b rest hse hconn hb (by simpa using hbe) rfl (by omega) h with hd | ⟨_, hd⟩
        · omega
        · rw [hb] at hd; cases hd
  refine ⟨hconn, hsb, hmb, ?_, ?_, ?_, ?_, ?_⟩
  · intro hr
    by_cases hav : e.pending ≠ [] ∨ e.eofIn = true
    · exfalso
      rcases callback_reads p m e fullIo p m e 65536 hconn hsb hr rfl hav h with hc | hc
      · omega
      · rw [hr] at hc; cases hc
    · constructor
      · cases hp : e.pending with
        | nil => rfl
        | cons a l => exact absurd (Or.inl (by rw [hp]; exact List.cons_ne_nil _ _)) hav
      · cases he : e.eofIn with
        | false => rfl
        | true => exact absurd (Or.inr he) hav
  · intro hr
    have hfi := fill_idle p.sw e fullIo.recv fullIo.shutErr (Or.inr hr)
    rw [hfi] at m6
    exact hcs.2 (m6 hsb hr)
  · intro hr
    exact hcs.1 (m7 hmb hr)
  · exact (callback_settled p m e fullIo p m e h).1.1
  · exact (callback_settled p m e fullIo p m e h).1.2

end Sshuttle.Tunnel
