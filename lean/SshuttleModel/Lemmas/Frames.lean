/-
Helper lemmas for C07: facts about `decode1`/`decodeAll` and about the `handleLoop`
code model.  Property theorems live in `Props/C07.lean`.
-/
import SshuttleModel.Spec.Frames

namespace Sshuttle.Mux

theorem hdr_len_eq : Generated.HDR_LEN = 8 := by decide

/-! ### decode1 -/

theorem decode1_encode (f : Frame) (rest : Bytes) :
    decode1 (encode f ++ rest) = .frame f rest := by
  simp [encode, header, be16, decode1, unbe16_be16]

theorem decode1_append_frame {a : Bytes} {f : Frame} {r : Bytes} (b : Bytes)
    (h : decode1 a = .frame f r) : decode1 (a ++ b) = .frame f (r ++ b) := by
  unfold decode1 at h
  split at h
  next s1 s2 c1 c0 m1 m0 l1 l0 body =>
    split at h
    next hm =>
      split at h
      next hl =>
        injection h with h1 h2
        subst h1 h2
        have hl' : unbe16 l1 l0 ≤ body.length := hl
        simp [decode1, hm, List.take_append_of_le_length hl', List.drop_append_of_le_length hl']
        omega
      · cases h
    · cases h
  · cases h

theorem decode1_append_bad {a : Bytes} (b : Bytes)
    (h : decode1 a = .bad) : decode1 (a ++ b) = .bad := by
  unfold decode1 at h
  split at h
  next s1 s2 c1 c0 m1 m0 l1 l0 body =>
    split at h
    · split at h <;> cases h
    next hm => simp [decode1, hm]
  · cases h

/-! ### decodeAll -/

theorem decodeAll_need {b : Bytes} (h : decode1 b = .need) : decodeAll b = ⟨[], b, false⟩ := by
  rw [decodeAll]; split <;> simp_all

theorem decodeAll_bad {b : Bytes} (h : decode1 b = .bad) : decodeAll b = ⟨[], b, true⟩ := by
  rw [decodeAll]; split <;> simp_all

theorem decodeAll_frame {b : Bytes} {f : Frame} {r : Bytes} (h : decode1 b = .frame f r) :
    decodeAll b = ⟨f :: (decodeAll r).frames, (decodeAll r).rest, (decodeAll r).bad⟩ := by
  rw [decodeAll]; split <;> simp_all

/-- Parsing is incremental: it does not matter where the byte string is cut. -/
theorem decodeAll_append (a b : Bytes) :
    decodeAll (a ++ b) =
      ⟨(decodeAll a).frames ++ (decodeAll ((decodeAll a).rest ++ b)).frames,
       (decodeAll ((decodeAll a).rest ++ b)).rest,
       (decodeAll ((decodeAll a).rest ++ b)).bad⟩ := by
  induction hn : a.length using Nat.strongRecOn generalizing a with
  | _ n ih =>
    cases hd : decode1 a with
    | need => simp [decodeAll_need hd]
    | bad =>
      have hb := decode1_append_bad b hd
      simp [decodeAll_bad hd, decodeAll_bad hb]
    | frame f r =>
      have hf := decode1_append_frame b hd
      have hlt := decode1_frame_lt hd
      rw [decodeAll_frame hf, decodeAll_frame hd]
      have := ih r.length (by omega) r rfl
      simp [this]

theorem decodeAll_nil : decodeAll [] = ⟨[], [], false⟩ := by
  apply decodeAll_need; simp [decode1]

theorem decodeAll_encode (f : Frame) (rest : Bytes) :
    decodeAll (encode f ++ rest) =
      ⟨f :: (decodeAll rest).frames, (decodeAll rest).rest, (decodeAll rest).bad⟩ :=
  decodeAll_frame (decode1_encode f rest)

theorem decodeAll_encodes (fs : List Frame) (rest : Bytes) :
    decodeAll ((fs.map encode).flatten ++ rest) =
      ⟨fs ++ (decodeAll rest).frames, (decodeAll rest).rest, (decodeAll rest).bad⟩ := by
  induction fs with
  | nil => simp
  | cons f fs ih =>
    simp only [List.map_cons, List.flatten_cons, List.append_assoc]
    rw [decodeAll_encode, ih]; simp

/-- The residue left by `decodeAll` holds no further whole frame. -/
theorem decodeAll_rest_idem (b : Bytes) :
    (decodeAll b).bad = false → decode1 (decodeAll b).rest = .need := by
  induction hn : b.length using Nat.strongRecOn generalizing b with
  | _ n ih =>
    cases hd : decode1 b with
    | need => simp [decodeAll_need hd, hd]
    | bad => simp [decodeAll_bad hd]
    | frame f r =>
      have hlt := decode1_frame_lt hd
      rw [decodeAll_frame hd]
      exact ih r.length (by omega) r rfl

/-- If parsing stopped on bad magic, the residue starts with that bad header. -/
theorem decodeAll_bad_rest (x : Bytes) (hb : (decodeAll x).bad = true) :
    decode1 (decodeAll x).rest = .bad := by
  induction hn : x.length using Nat.strongRecOn generalizing x with
  | _ n ih =>
    cases hd : decode1 x with
    | need => simp [decodeAll_need hd] at hb
    | bad => simp [decodeAll_bad hd, hd]
    | frame f r =>
      have hlt := decode1_frame_lt hd
      rw [decodeAll_frame hd] at hb ⊢
      exact ih r.length (by omega) r hb rfl

/-- Bad magic is sticky: appending bytes does not make it parse. -/
theorem decodeAll_append_bad (a b : Bytes) (hb : (decodeAll a).bad = true) :
    (decodeAll (a ++ b)).bad = true := by
  rw [decodeAll_append, decodeAll_bad (decode1_append_bad b (decodeAll_bad_rest a hb))]

/-- A prefix of a well-formed stream never parses as bad magic. -/
theorem decodeAll_prefix_not_bad (fs : List Frame) (a b : Bytes)
    (h : a ++ b = (fs.map encode).flatten) : (decodeAll a).bad = false := by
  cases hb : (decodeAll a).bad with
  | false => rfl
  | true =>
    have h1 := decodeAll_append_bad a b hb
    have h2 := decodeAll_encodes fs []
    simp only [List.append_nil] at h2
    rw [h, h2, decodeAll_nil] at h1
    simp at h1

end Sshuttle.Mux
