/-
End to end (both tunnel ends + the two frame queues) for DNS: what one server round does to the
handlers, the relayed replies and the outgoing frames.  Behind C10_reply_goes_to_its_asker.
-/
import SshuttleModel.Lemmas.DgramLife
import SshuttleModel.Lemmas.DgramClient

namespace Sshuttle.Dgram

section server
variable (Q : Nat → Bytes → Prop)

/-- Server state as it is when the client never opened a UDP association: every handler serves
a (id, request) pair that satisfies `Q`, so does every relayed reply. -/
structure SrvDns (s : SSys) : Prop where
  noudp : s.udpH = [] ∧ s.chans = []
  handlers : ∀ h ∈ s.dnsH, Q h.chan h.request
  replies : ∀ rp ∈ s.replies, Q rp.chan rp.request

variable {Q}

theorem srvGot_dns {cfg : Cfg} {now : Nat} {f : Frame} {sc : Script} {s : SSys}
    (hs : SrvDns Q s) (hf : f.cmd = CMD_DNS_REQ) (hq : Q f.chan f.data) :
    SrvDns Q (srvGot cfg now f sc s).1 ∧ (srvGot cfg now f sc s).1.replies = s.replies ∧
    (srvGot cfg now f sc s).1.out = s.out := by
  unfold srvGot
  split
  · exact ⟨hs, rfl, rfl⟩
  · simp only [hs.noudp.2, List.contains_nil, Bool.false_eq_true, if_false]
    have t := trySend_ok cfg (cfg.maxTries + 1)
      { hid := s.nextHid, chan := f.chan, deadline := now + cfg.srvDnsHorizonS * cfg.ticksPerS, request := f.data }
      s.nextSock sc
    unfold dnsProxyNew
    split
    · dsimp only [SSys.fail]
      exact ⟨⟨⟨hs.noudp.1, rfl⟩, hs.handlers, hs.replies⟩, rfl, rfl⟩
    · dsimp only
      refine ⟨⟨⟨hs.noudp.1, rfl⟩, ?_, hs.replies⟩, rfl, rfl⟩
      intro h hh
      simp only [List.mem_append, List.mem_singleton] at hh
      rcases hh with hh | hh
      · exact hs.handlers h hh
      · subst hh
        rw [t.same.1, t.same.2.2.1]; exact hq

theorem srvGotAll_dns {cfg : Cfg} {now : Nat} (fs : List Frame) :
    ∀ {sc : Script} {s : SSys}, SrvDns Q s → (∀ f ∈ fs, f.cmd = CMD_DNS_REQ ∧ Q f.chan f.data) →
      SrvDns Q (srvGotAll cfg now fs sc s).1 ∧ (srvGotAll cfg now fs sc s).1.replies = s.replies ∧
      (srvGotAll cfg now fs sc s).1.out = s.out := by
  induction fs with
  | nil => intro sc s hs _; exact ⟨hs, rfl, rfl⟩
  | cons f fs ih =>
    intro sc s hs hf
    simp only [srvGotAll]
    obtain ⟨a1, a2, a3⟩ := srvGot_dns (cfg := cfg) (now := now) (sc := sc) hs (hf f (by simp)).1 (hf f (by simp)).2
    generalize srvGot cfg now f sc s = r at a1 a2 a3
    obtain ⟨s1, sc1⟩ := r
    obtain ⟨b1, b2, b3⟩ := ih (sc := sc1) a1 (fun f' hf' => hf f' (List.mem_cons_of_mem _ hf'))
    exact ⟨b1, b2.trans a2, b3.trans a3⟩

theorem srvSweep_dns {now : Nat} {s : SSys} (hs : SrvDns Q s) :
    SrvDns Q (srvSweep now s) ∧ (srvSweep now s).replies = s.replies ∧ (srvSweep now s).out = s.out := by
  refine ⟨⟨hs.noudp, ?_, hs.replies⟩, rfl, rfl⟩
  intro h hh
  simp only [srvSweep, List.mem_map] at hh
  obtain ⟨h0, hm, rfl⟩ := hh
  split
  · exact hs.handlers h0 hm
  · exact hs.handlers h0 hm

theorem SrvDns.filter {s : SSys} (hs : SrvDns Q s) :
    SrvDns Q { s with dnsH := s.dnsH.filter (·.ok), udpH := s.udpH.filter (·.ok) } :=
  ⟨⟨by simp [hs.noudp.1], hs.noudp.2⟩, fun h hh => hs.handlers h (List.mem_filter.1 hh).1, hs.replies⟩

/-- What a step reports: nothing relayed is forgotten, every newly queued frame carries a reply
recorded for the same id. -/
def Grows (s s' : SSys) : Prop :=
  ∃ newr newf, s'.replies = s.replies ++ newr ∧ s'.out = s.out ++ newf ∧
    ∀ f ∈ newf, ∃ rp ∈ newr, rp.chan = f.chan ∧ rp.data = f.data

theorem Grows.same {s s' : SSys} (h1 : s'.replies = s.replies) (h2 : s'.out = s.out) : Grows s s' :=
  ⟨[], [], by simp [h1], by simp [h2], by simp⟩

theorem Grows.then_same {s s1 s' : SSys} (g : Grows s s1) (h1 : s'.replies = s1.replies) (h2 : s'.out = s1.out) :
    Grows s s' := by
  obtain ⟨nr, nf, a, b, c⟩ := g
  exact ⟨nr, nf, by rw [h1, a], by rw [h2, b], c⟩

theorem Grows.trans {s s1 s2 : SSys} (g1 : Grows s s1) (g2 : Grows s1 s2) : Grows s s2 := by
  obtain ⟨r1, f1, a1, b1, c1⟩ := g1
  obtain ⟨r2, f2, a2, b2, c2⟩ := g2
  refine ⟨r1 ++ r2, f1 ++ f2, by rw [a2, a1, List.append_assoc], by rw [b2, b1, List.append_assoc], ?_⟩
  intro f hf
  rcases List.mem_append.1 hf with hf | hf
  · obtain ⟨rp, hr, hh⟩ := c1 f hf; exact ⟨rp, List.mem_append_left _ hr, hh⟩
  · obtain ⟨rp, hr, hh⟩ := c2 f hf; exact ⟨rp, List.mem_append_right _ hr, hh⟩

theorem dnsSockStep_dns {cfg : Cfg} {s : SSys} {h : DnsH} {k : Nat} {r : RecvRes} {sc : Script}
    (hs : SrvDns Q s) (hmem : h ∈ s.dnsH) :
    SrvDns Q (dnsSockStep cfg s h k r sc) ∧ Grows s (dnsSockStep cfg s h k r sc) := by
  have hq := hs.handlers h hmem
  have t := dnsCallback_ok cfg h k r s.nextSock sc
  have hnew : ∀ f ∈ (dnsCallback cfg h k r s.nextSock sc).frames,
      ∃ rp ∈ (dnsCallback cfg h k r s.nextSock sc).frames.map (fun f => (⟨h.hid, h.chan, h.request, f.data⟩ : Reply)),
        rp.chan = f.chan ∧ rp.data = f.data := by
    intro f hf'
    refine ⟨⟨h.hid, h.chan, h.request, f.data⟩, List.mem_map.2 ⟨f, hf', rfl⟩, ?_, rfl⟩
    rcases t.frames with ⟨e, _⟩ | ⟨d, e, _⟩
    · rw [e] at hf'; cases hf'
    · rw [e] at hf'; simp only [List.mem_singleton] at hf'; subst hf'; rfl
  have hH : ∀ h' ∈ (s.dnsH.map fun h' => if h'.hid = h.hid then (dnsCallback cfg h k r s.nextSock sc).h else h'),
      Q h'.chan h'.request := by
    intro h' hh'
    simp only [List.mem_map] at hh'
    obtain ⟨h0, hm0, rfl⟩ := hh'
    split
    · rw [t.same.2, t.same.1]; exact hq
    · exact hs.handlers h0 hm0
  have hR : ∀ rp ∈ s.replies ++ (dnsCallback cfg h k r s.nextSock sc).frames.map
      (fun f => (⟨h.hid, h.chan, h.request, f.data⟩ : Reply)), Q rp.chan rp.request := by
    intro rp hrp
    simp only [List.mem_append, List.mem_map] at hrp
    rcases hrp with hrp | ⟨f, _, rfl⟩
    · exact hs.replies rp hrp
    · exact hq
  unfold dnsSockStep
  simp only
  cases (dnsCallback cfg h k r s.nextSock sc).err with
  | none => exact ⟨⟨hs.noudp, hH, hR⟩, _, _, rfl, rfl, hnew⟩
  | some e => exact ⟨⟨hs.noudp, hH, hR⟩, _, _, rfl, rfl, hnew⟩

theorem multiSock_dns {cfg : Cfg} {evs : List (Nat × RecvRes)} (hids : List Nat) :
    ∀ {sc : Script} {s : SSys}, SrvDns Q s →
      SrvDns Q (multiSock cfg evs hids sc s) ∧ Grows s (multiSock cfg evs hids sc s) := by
  induction hids with
  | nil => intro sc s hs; exact ⟨hs, Grows.same rfl rfl⟩
  | cons hid rest ih =>
    intro sc s hs
    simp only [multiSock]
    split
    · exact ⟨hs, Grows.same rfl rfl⟩
    · split
      · exact ih hs
      · next h hfind =>
        split
        · exact ih hs
        · next k _ =>
          split
          · exact ih hs
          · next r _ =>
            obtain ⟨a1, g1⟩ := dnsSockStep_dns (cfg := cfg) (k := k) (r := r) (sc := sc) hs (List.mem_of_find?_eq_some hfind)
            obtain ⟨a2, g2⟩ := ih (sc := (dnsCallback cfg h k r s.nextSock sc).script) a1
            exact ⟨a2, g1.trans g2⟩

theorem roundEvent_dns {cfg : Cfg} {now : Nat} {ev : SEvent} {sc : Script} {s : SSys} (hs : SrvDns Q s)
    (hev : ∀ fs, ev = .mux fs → ∀ f ∈ fs, f.cmd = CMD_DNS_REQ ∧ Q f.chan f.data) :
    SrvDns Q (roundEvent cfg now ev sc s) ∧ Grows s (roundEvent cfg now ev sc s) := by
  unfold roundEvent
  cases ev with
  | mux fs =>
    obtain ⟨a1, a2, a3⟩ := srvGotAll_dns (cfg := cfg) (now := now) fs (sc := sc) hs (hev fs rfl)
    exact ⟨a1, Grows.same a2 a3⟩
  | sock k r =>
    simp only
    split
    · next h hfind => exact dnsSockStep_dns hs (List.mem_of_find?_eq_some hfind)
    · simp only [hs.noudp.1, List.find?_nil]
      exact ⟨hs, Grows.same rfl rfl⟩
  | socks evs => exact multiSock_dns _ hs

theorem finishRound_dns {now : Nat} {s : SSys} (hs : SrvDns Q s) :
    SrvDns Q (finishRound now s) ∧ (finishRound now s).replies = s.replies ∧ (finishRound now s).out = s.out := by
  unfold finishRound
  split
  · exact ⟨hs, rfl, rfl⟩
  · exact srvSweep_dns hs

/-- One server round: handlers and replies keep serving `Q`-pairs; nothing already relayed is
forgotten; every frame queued in the round carries a reply recorded for the same id. -/
theorem round_dns {cfg : Cfg} {now : Nat} {ev : SEvent} {sc : Script} {s : SSys} (hs : SrvDns Q s)
    (hev : ∀ fs, ev = .mux fs → ∀ f ∈ fs, f.cmd = CMD_DNS_REQ ∧ Q f.chan f.data) :
    SrvDns Q (s.round cfg now ev sc) ∧ Grows s (s.round cfg now ev sc) := by
  unfold SSys.round
  split
  · exact ⟨hs, Grows.same rfl rfl⟩
  · obtain ⟨a1, g⟩ := roundEvent_dns (cfg := cfg) (now := now) (ev := ev) (sc := sc) hs.filter hev
    obtain ⟨b1, b2, b3⟩ := finishRound_dns (now := now) a1
    refine ⟨b1, ?_⟩
    have g' : Grows s (roundEvent cfg now ev sc
        { s with dnsH := s.dnsH.filter (·.ok), udpH := s.udpH.filter (·.ok) }) := g
    exact g'.then_same b2 b3

end server

/-! ### the client end inside the joined system -/

/-- Effect of a client event other than a UDP capture or a tunnel read, when no UDP association
exists: only DNS_REQ frames are queued, each for a query recorded in the same step. -/
theorem CSys.step_dns_effect {cfg : Cfg} {s : CSys} {now : Nat} {op : COp}
    (hop : (∃ cap, op = .dns cap) ∨ op = .accept ∨ (∃ i, op = .occupy i) ∨ (∃ i, op = .release i))
    (hno : s.c.udpBySrc = []) :
    (s.step cfg now op).c.udpBySrc = [] ∧ (s.step cfg now op).emitted = s.emitted ∧
    (∃ newq, (s.step cfg now op).queries = s.queries ++ newq) ∧
    ∃ fr, (s.step cfg now op).sent = s.sent ++ fr ∧
      ∀ f ∈ fr, f.cmd = CMD_DNS_REQ ∧ ∃ qu ∈ (s.step cfg now op).queries, qu.chan = f.chan ∧ qu.data = f.data := by
  unfold CSys.step
  split
  · exact ⟨hno, rfl, ⟨[], by simp⟩, [], by simp, by simp⟩
  · rcases hop with ⟨cap, rfl⟩ | rfl | ⟨i, rfl⟩ | ⟨i, rfl⟩
    · simp only
      split
      · exact ⟨hno, rfl, ⟨[], by simp⟩, [], by simp, by simp⟩
      · next c' frames ho =>
        rcases ondns_ok ho with ⟨_, _, _, e4, rfl⟩ | ⟨chan, dst, data, closes, c1, _, _, _, _, hnq1, _, e7, he, rfl⟩
        · exact ⟨by rw [e4]; exact hno, rfl, ⟨[], by simp⟩, [], by simp, by simp⟩
        · obtain ⟨_, hnq, _, _, e5, ecl, _⟩ := expire_ok he
          have hcl : closes = [] := by rw [ecl, e7, hno]; rfl
          subst hcl
          have hne : ¬ c'.nq = s.c.nq := by rw [hnq, hnq1]; omega
          simp only [hne, if_false]
          refine ⟨by rw [e5, e7, hno]; rfl, by first | rfl | trivial, ⟨_, rfl⟩, _, rfl, ?_⟩
          intro f hf
          simp only [List.mem_singleton] at hf
          subst hf
          exact ⟨by first | rfl | trivial, _, List.mem_append_right _ (List.mem_singleton.2 rfl), rfl, rfl⟩
    · simp only
      split
      · exact ⟨hno, rfl, ⟨[], by simp⟩, [], by simp, by simp⟩
      · next c' frames ho =>
        obtain ⟨_, _, _, _, e5, ecl, _⟩ := expire_ok ho
        have hcl : frames = [] := by rw [ecl, hno]; rfl
        subst hcl
        exact ⟨by rw [e5, hno]; rfl, rfl, ⟨[], by simp⟩, [], by simp, by simp⟩
    · simp only
      split
      · exact ⟨hno, rfl, ⟨[], by simp⟩, [], by simp, by simp⟩
      · exact ⟨hno, rfl, ⟨[], by simp⟩, [], by simp, by simp⟩
    · simp only
      split
      · exact ⟨hno, rfl, ⟨[], by simp⟩, [], by simp, by simp⟩
      · exact ⟨hno, rfl, ⟨[], by simp⟩, [], by simp, by simp⟩

/-- Effect of a tunnel read on the client: tables of queries and sent frames are untouched;
every datagram emitted for a query carries the frame's payload, and the query's callback was
registered on the frame's id. -/
theorem CSys.step_frame_effect {cfg : Cfg} {s : CSys} {now : Nat} {f : Frame} :
    (s.step cfg now (.frame f)).c.udpBySrc = s.c.udpBySrc ∧ (s.step cfg now (.frame f)).queries = s.queries ∧
    (s.step cfg now (.frame f)).sent = s.sent ∧
    ∃ new, (s.step cfg now (.frame f)).emitted = s.emitted ++ new ∧
      ∀ q e, (some q, e) ∈ new → e.data = f.data ∧ ∃ l a o, (f.chan, Cb.dns q l a o) ∈ s.c.chans := by
  unfold CSys.step
  split
  · exact ⟨rfl, rfl, rfl, [], by simp, by simp⟩
  · simp only
    split
    · exact ⟨rfl, rfl, rfl, [], by simp, by simp⟩
    · next c' es ho =>
      rcases clientGot_ok ho with ⟨rfl, hq⟩ | ⟨hc, q, l, a, o, hl, _, _, _, _, e4, _, hsend⟩
      · refine ⟨rfl, rfl, rfl, _, rfl, ?_⟩
        intro q e hm
        have hqn : (if isChannelCmd f.cmd = true then cbQid (lookup f.chan s.c.chans) else none) = none := by
          rcases hq with hq | hq <;> simp [hq]
        rw [hqn] at hm
        simp only [List.mem_map, Prod.mk.injEq] at hm
        obtain ⟨_, _, hm, _⟩ := hm
        cases hm
      · refine ⟨e4, rfl, rfl, _, rfl, ?_⟩
        intro q' e hm
        simp only [hc, if_true, hl, cbQid, List.mem_map, Prod.mk.injEq, Option.some.injEq] at hm
        obtain ⟨e', he', rfl, rfl⟩ := hm
        rcases sendUdp_ok hsend with hnil | hone
        · rw [hnil] at he'; cases he'
        · rw [hone] at he'
          simp only [List.mem_singleton] at he'
          subst he'
          exact ⟨rfl, l, a, o, lookup_mem hl⟩

/-! ### both ends -/

theorem nodup_map_inj {α β : Type} (f : α → β) : ∀ {l : List α}, (l.map f).Nodup → ∀ {a b : α},
    a ∈ l → b ∈ l → f a = f b → a = b := by
  intro l
  induction l with
  | nil => intro _ a b ha; cases ha
  | cons x l ih =>
    intro hn a b ha hb hf
    simp only [List.map_cons, List.nodup_cons, List.mem_map, not_exists, not_and] at hn
    rcases List.mem_cons.1 ha with rfl | ha' <;> rcases List.mem_cons.1 hb with rfl | hb'
    · rfl
    · exact absurd hf.symm (hn.1 b hb')
    · exact absurd hf (hn.1 a ha')
    · exact ih hn.2 ha' hb' hf


/-- The steps of a DNS-only honest run: no UDP capture on the client, no forged frame at either end. -/
def Op.dnsHonest : Op → Bool
  | .tick _ => true
  | .client (.dns _) => true
  | .client .accept => true
  | .client (.occupy _) => true
  | .client (.release _) => true
  | .client (.udp _) => false
  | .client (.frame _) => false
  | .cdeliver => true
  | .sround _ _ => true
  | .ssock _ _ _ => true
  | .sinject _ _ => false
  | .smulti _ _ => true

/-- (id, request bytes) of a captured query. -/
def QOf (qs : List Query) : Nat → Bytes → Prop := fun c r => ∃ qu ∈ qs, qu.chan = c ∧ qu.data = r

theorem QOf.mono {qs extra : List Query} {c : Nat} {r : Bytes} (h : QOf qs c r) : QOf (qs ++ extra) c r := by
  obtain ⟨qu, hq, hh⟩ := h
  exact ⟨qu, List.mem_append_left _ hq, hh⟩

theorem SrvDns.mono {Q Q' : Nat → Bytes → Prop} {s : SSys} (hm : ∀ c r, Q c r → Q' c r) (h : SrvDns Q s) :
    SrvDns Q' s :=
  ⟨h.noudp, fun x hx => hm _ _ (h.handlers x hx), fun x hx => hm _ _ (h.replies x hx)⟩

structure EInv (s : Sys) : Prop where
  cinv : CInv s.cl
  noudp : s.cl.c.udpBySrc = []
  c2s : ∀ f ∈ s.c2s, f.cmd = CMD_DNS_REQ ∧ QOf s.cl.queries f.chan f.data
  srv : SrvDns (QOf s.cl.queries) s.sv
  s2c : ∀ f ∈ s.s2c, ∃ rp ∈ s.sv.replies, rp.chan = f.chan ∧ rp.data = f.data
  emitted : ∀ q e, (some q, e) ∈ s.cl.emitted →
    ∃ qu ∈ s.cl.queries, qu.qid = q ∧ ∃ rp ∈ s.sv.replies, rp.chan = qu.chan ∧ rp.data = e.data

theorem EInv.init (cfg : Cfg) : EInv { cfg := cfg } :=
  ⟨CInv.init, rfl, by simp, ⟨⟨rfl, rfl⟩, by simp, by simp⟩, by simp, by simp⟩

theorem drop_append_length {α : Type} (a b : List α) : (a ++ b).drop a.length = b := by simp

theorem EInv.server_step {s : Sys} (h : EInv s) (ev : SEvent) (sc : Script) (c2s' : List Frame)
    (hsub : ∀ f ∈ c2s', f ∈ s.c2s)
    (hev : ∀ fs, ev = .mux fs → ∀ f ∈ fs, f ∈ s.c2s) :
    EInv ({ s with c2s := c2s' }.afterServer (s.sv.round s.cfg s.now ev sc)) := by
  obtain ⟨a1, newr, newf, a2, a3, a4⟩ := round_dns (cfg := s.cfg) (now := s.now) (ev := ev) (sc := sc) h.srv
    (fun fs e f hf => h.c2s f (hev fs e f hf))
  unfold Sys.afterServer
  simp only
  rw [a3, drop_append_length]
  refine ⟨h.cinv, h.noudp, fun f hf => h.c2s f (hsub f hf), a1, ?_, ?_⟩
  · intro f hf
    rcases List.mem_append.1 hf with hf | hf
    · obtain ⟨rp, hr, hh⟩ := h.s2c f hf
      exact ⟨rp, by rw [a2]; exact List.mem_append_left _ hr, hh⟩
    · obtain ⟨rp, hr, hh⟩ := a4 f hf
      exact ⟨rp, by rw [a2]; exact List.mem_append_right _ hr, hh⟩
  · intro q e hm
    obtain ⟨qu, hq, h1, rp, hr, hh⟩ := h.emitted q e hm
    exact ⟨qu, hq, h1, rp, by rw [a2]; exact List.mem_append_left _ hr, hh⟩

theorem EInv.client_step {s : Sys} (h : EInv s) (cop : COp)
    (hop : (∃ cap, cop = .dns cap) ∨ cop = .accept ∨ (∃ i, cop = .occupy i) ∨ (∃ i, cop = .release i)) :
    EInv (s.afterClient (s.cl.step s.cfg s.now cop)) := by
  obtain ⟨e1, e2, ⟨newq, e3⟩, fr, e4, e5⟩ := CSys.step_dns_effect (cfg := s.cfg) (now := s.now) hop h.noudp
  unfold Sys.afterClient
  rw [e4, drop_append_length]
  refine ⟨h.cinv.step (cfg := s.cfg) s.now cop, e1, ?_, ?_, h.s2c, ?_⟩
  · intro f hf
    rcases List.mem_append.1 hf with hf | hf
    · obtain ⟨a, b⟩ := h.c2s f hf
      exact ⟨a, by rw [e3]; exact b.mono⟩
    · exact e5 f hf
  · rw [e3]; exact h.srv.mono (fun c r hq => hq.mono)
  · intro q e hm
    rw [e2] at hm
    obtain ⟨qu, hq, hh⟩ := h.emitted q e hm
    exact ⟨qu, by rw [e3]; exact List.mem_append_left _ hq, hh⟩

theorem EInv.step {s : Sys} (h : EInv s) (op : Op) (hop : op.dnsHonest = true) : EInv (s.step op) := by
  cases op with
  | tick d => exact ⟨h.cinv, h.noudp, h.c2s, h.srv, h.s2c, h.emitted⟩
  | sinject fs sc => cases hop
  | sround n sc =>
    exact h.server_step (.mux (s.c2s.take n)) sc (s.c2s.drop n) (fun f hf => List.mem_of_mem_drop hf)
      (fun fs e f hf => by cases e; exact List.mem_of_mem_take hf)
  | ssock k r sc =>
    have := h.server_step (.sock k r) sc s.c2s (fun f hf => hf) (fun fs e => by cases e)
    exact this
  | smulti evs sc =>
    have := h.server_step (.socks evs) sc s.c2s (fun f hf => hf) (fun fs e => by cases e)
    exact this
  | cdeliver =>
    simp only [Sys.step]
    split
    · exact h
    · next f rest hs2c =>
      obtain ⟨e1, e2, e3, new, e4, e5⟩ := CSys.step_frame_effect (cfg := s.cfg) (s := s.cl) (now := s.now) (f := f)
      unfold Sys.afterClient
      simp only
      rw [e3]
      simp only [List.drop_length, List.append_nil]
      have hf : f ∈ s.s2c := by rw [hs2c]; simp
      refine ⟨h.cinv.step (cfg := s.cfg) s.now (.frame f), by rw [e1]; exact h.noudp, by rw [e2]; exact h.c2s, by rw [e2]; exact h.srv, ?_, ?_⟩
      · intro f' hf'
        exact h.s2c f' (by rw [hs2c]; exact List.mem_cons_of_mem _ hf')
      · intro q e hm
        rw [e4] at hm
        rw [e2]
        rcases List.mem_append.1 hm with hm | hm
        · exact h.emitted q e hm
        · obtain ⟨hd, l, a, o, hcb⟩ := e5 q e hm
          obtain ⟨qu, hq, h1, h2, _⟩ := h.cinv.live_rec _ _ _ _ _ hcb
          obtain ⟨rp, hr, h3, h4⟩ := h.s2c f hf
          exact ⟨qu, hq, h1, rp, hr, by rw [h3, h2], by rw [h4, hd]⟩
  | client cop =>
    cases cop with
    | udp cap => cases hop
    | frame f => cases hop
    | dns cap => exact EInv.client_step h (.dns cap) (Or.inl ⟨cap, rfl⟩)
    | accept => exact EInv.client_step h .accept (Or.inr (Or.inl rfl))
    | occupy i => exact EInv.client_step h (.occupy i) (Or.inr (Or.inr (Or.inl ⟨i, rfl⟩)))
    | release i => exact EInv.client_step h (.release i) (Or.inr (Or.inr (Or.inr ⟨i, rfl⟩)))

end Sshuttle.Dgram
