/-
One direction of one flow, abstractly: the *source view* (the wrapper pair that reads from an
endpoint and frames the bytes), the *sink view* (the wrapper pair that unframes and writes to
the other endpoint), the invariant `DirInv` that ties the byte logs together, and the abstract
transitions that preserve it.  `Lemmas/WrapRefine.lean` shows that every code-model operation
is a sequence of these transitions; `Lemmas/TunnelInv.lean` lifts it to the whole `World`.
-/
import SshuttleModel.Lemmas.FrameQ

namespace Sshuttle.Tunnel
open Sshuttle.Mux (Frame)

structure SrcV where
  present  : Bool     -- the handler is in `handlers`
  ever     : Bool     -- it has existed
  buf      : Bytes    -- SockWrapper.buf, flattened (read from the endpoint, not yet framed)
  shutR    : Bool     -- SockWrapper.shut_read
  mwShutW  : Bool     -- MuxWrapper.shut_write (EOF sent or STOP_SENDING received)
  ownShutW : Bool     -- SockWrapper.shut_write of the same handler (it is the sink of the reverse direction)
  out      : List Frame   -- this end's frame queue
  consumed : Bytes    -- ghost: everything read from the endpoint

structure SinkV where
  present   : Bool
  ever      : Bool
  buf       : Bytes   -- MuxWrapper.buf, flattened (unframed, not yet written to the endpoint)
  mwShutR   : Bool    -- MuxWrapper.shut_read (EOF received or STOP_SENDING sent)
  swShutW   : Bool    -- SockWrapper.shut_write
  ok        : Bool
  delivered : Bytes   -- ghost: everything written into the endpoint
  sawShut   : Bool    -- the endpoint's socket was shut down for writing

/-- The source will never frame another byte of this flow. -/
def noMore (a : SrcV) : Prop :=
  a.ever = true ∧ (a.present = false ∨ (a.mwShutW = true ∧ a.buf = [] ∧ a.shutR = true))

structure DirInv (c : Nat) (a : SrcV) (b : SinkV) : Prop where
  pre    : b.delivered <+: a.consumed
  exact  : b.sawShut = true ∨ a.consumed = b.delivered ++ b.buf ++ dataOf c a.out ++ a.buf
  shutOk : b.present = true → b.swShutW = true → b.sawShut = true
  conn   : b.ever = false → b.present = false ∧ connectAhead c a.out
  fresh  : a.ever = false → a.present = false ∧ a.consumed = [] ∧ noStream c a.out
  clean  : eofClean c a.out
  eofNM  : hasEof c a.out = true → noMore a
  gone   : b.ever = true → (b.present = false ∨ b.mwShutR = true) →
             b.sawShut = true ∨ (noMore a ∧ dataOf c a.out = [])
  dead   : b.present = true → b.ok = false → b.swShutW = true
  srcBuf : a.present = false → a.buf = []
  snkBuf : b.present = false → b.buf = []
  srcEv  : a.present = true → a.ever = true
  snkEv  : b.present = true → b.ever = true
  goneShut : b.ever = true → b.present = false → b.sawShut = true   -- a handler is dropped only after it shut its socket
  -- while the sink's socket is open, the source's mux side is shut for writing only by its own EOF
  nl1    : b.sawShut = false → a.present = true → a.mwShutW = true → a.buf = [] ∧ a.shutR = true
  -- a STOP_SENDING frame is in flight only from an end whose socket wrapper is shut for writing
  stopOk : hasStop c a.out = true → a.ownShutW = true
  -- at most one CONNECT of the channel is ever in flight, and only while the sink was never created
  connOk : nConnect c a.out = 0 ∨ (nConnect c a.out = 1 ∧ b.ever = false)
  -- once the source is done, its EOF is in flight, or the sink has processed it, or the sink's socket is shut
  eofSeen : noMore a → hasEof c a.out = true ∨ (b.ever = true ∧ b.mwShutR = true) ∨ b.sawShut = true

/-! ### transitions of the source view -/

/-- `k` = the sink's socket of this direction has been shut down (only then may the source lose
bytes: it is told to stop, or is dropped with a non-empty buffer). -/
inductive SrcStep (c : Nat) (k : Bool) : SrcV → SrcV → Prop
  | consume (a : SrcV) (x : Bytes) (hp : a.present = true) (hr : a.shutR = false) :
      SrcStep c k a { a with consumed := a.consumed ++ x, buf := a.buf ++ x }
  | send (a : SrcV) (moved rest : Bytes) (hb : a.buf = moved ++ rest) (hne : moved ≠ [])
      (hp : a.present = true) :
      SrcStep c k a { a with buf := rest, out := a.out ++ [⟨c, DATA, moved⟩] }
  | eof (a : SrcV) (hp : a.present = true) (hb : a.buf = []) (hr : a.shutR = true)
      (hw : a.mwShutW = false) :
      SrcStep c k a { a with mwShutW := true, out := a.out ++ [⟨c, EOF, []⟩] }
  | stopFrame (a : SrcV) (hp : a.present = true) (hs : a.ownShutW = true) :
      SrcStep c k a { a with out := a.out ++ [⟨c, STOP, []⟩] }
  | foreign (a : SrcV) (fr : Frame) (hf : Foreign c fr) : SrcStep c k a { a with out := a.out ++ [fr] }
  | discard (a : SrcV) (hp : a.present = true) (hw : a.mwShutW = true) :
      SrcStep c k a { a with buf := [], shutR := true }
  | flags (a : SrcV) (r w os : Bool) (hr : a.shutR = true → r = true) (hw : a.mwShutW = true → w = true)
      (hos : a.ownShutW = true → os = true)
      (hk : w = true → a.mwShutW = true ∨ k = true) :       -- STOP_SENDING arrives only after the sink shut
      SrcStep c k a { a with shutR := r, mwShutW := w, ownShutW := os }
  | remove (a : SrcV) (hp : a.present = true) (hb : a.buf = [] ∨ k = true)
      (hd : (a.mwShutW = true ∧ a.shutR = true) ∨ k = true) :       -- only a finished handler is dropped
      SrcStep c k a { a with present := false, buf := [] }
  | create (a : SrcV) (he : a.ever = false) (r os : Bool) (hos : a.ownShutW = true → os = true) :
      SrcStep c k a { a with present := true, ever := true, buf := [], shutR := r, mwShutW := false, ownShutW := os }

inductive SinkStep : SinkV → SinkV → Prop
  | deliver (b : SinkV) (moved rest : Bytes) (hb : b.buf = moved ++ rest)
      (hs : moved ≠ [] → b.sawShut = false) :
      SinkStep b { b with buf := rest, delivered := b.delivered ++ moved }
  | discard (b : SinkV) (hw : b.swShutW = true) : SinkStep b { b with buf := [] }
  | flags (b : SinkV) (r w saw ok : Bool)
      (h1 : b.swShutW = true → w = true) (h2 : b.sawShut = true → saw = true)
      (h3 : b.mwShutR = true → r = true)
      (h4 : w = true → b.swShutW = true ∨ saw = true)      -- a newly shut wrapper shut its socket
      (h5 : r = true → b.mwShutR = true ∨ w = true)         -- `noread` on the mux side only when shut_write
      (h6 : ok = false → b.ok = false ∨ w = true) :
      SinkStep b { b with mwShutR := r, swShutW := w, sawShut := saw, ok := ok }
  | remove (b : SinkV) (hok : b.ok = false) (hp : b.present = true) :
      SinkStep b { b with present := false, buf := [] }

inductive Star {α : Type} (r : α → α → Prop) : α → α → Prop
  | refl (a : α) : Star r a a
  | tail {a b c : α} : Star r a b → r b c → Star r a c

theorem Star.trans {α : Type} {r : α → α → Prop} {a b c : α} (h1 : Star r a b) (h2 : Star r b c) :
    Star r a c := by
  induction h2 with
  | refl => exact h1
  | tail _ hr ih => exact Star.tail ih hr

theorem Star.single {α : Type} {r : α → α → Prop} {a b : α} (h : r a b) : Star r a b :=
  Star.tail (Star.refl a) h

/-! ### preservation by source transitions -/

theorem notData_eof (c : Nat) : isData c ⟨c, EOF, []⟩ = false := by
  simp [isData]; exact fun h => absurd h.symm cmds_distinct.1

theorem notData_stop (c : Nat) : isData c ⟨c, STOP, []⟩ = false := by
  simp [isData]; exact fun h => absurd h.symm cmds_distinct.2.1

theorem notEof_stop (c : Nat) : isEof c ⟨c, STOP, []⟩ = false := by
  simp [isEof]; exact fun h => absurd h.symm cmds_distinct.2.2.2.1

theorem notEof_data (c : Nat) (d : Bytes) : isEof c ⟨c, DATA, d⟩ = false := by
  simp [isEof]; exact fun h => absurd h cmds_distinct.1

theorem notStop_data (c : Nat) (d : Bytes) : isStop c ⟨c, DATA, d⟩ = false := by
  simp [isStop]; exact fun h => absurd h cmds_distinct.2.1

theorem notStop_eof (c : Nat) : isStop c ⟨c, EOF, []⟩ = false := by
  simp [isStop]; exact fun h => absurd h cmds_distinct.2.2.2.1

theorem hasStop_append_single (c : Nat) (q : List Frame) (fr : Frame) (h : isStop c fr = false) :
    hasStop c (q ++ [fr]) = hasStop c q := by
  rw [hasStop_append]; simp [hasStop, h]

theorem nConnect_append_single (c : Nat) (q : List Frame) (fr : Frame) (h : isConnect c fr = false) :
    nConnect c (q ++ [fr]) = nConnect c q := by
  rw [nConnect_append, nConnect_single, h]; simp

theorem notConnect_data (c : Nat) (d : Bytes) : isConnect c ⟨c, DATA, d⟩ = false := by
  simp [isConnect]; exact fun h => absurd h cmds_distinct.2.2.1

theorem notConnect_eof (c : Nat) : isConnect c ⟨c, EOF, []⟩ = false := by
  simp [isConnect]; exact fun h => absurd h cmds_distinct.2.2.2.2.1

theorem notConnect_stop (c : Nat) : isConnect c ⟨c, STOP, []⟩ = false := by
  simp [isConnect]; exact fun h => absurd h cmds_distinct.2.2.2.2.2

/-- Appending one frame that is neither DATA nor EOF of `c` to the queue. -/
theorem DirInv.appendInert {c : Nat} {a : SrcV} {b : SinkV} (h : DirInv c a b) (fr : Frame)
    (hd : isData c fr = false) (he : isEof c fr = false)
    (hf : a.ever = false → isStream c fr = false)
    (hst : isStop c fr = true → a.ownShutW = true) (hcn : isConnect c fr = false) :
    DirInv c { a with out := a.out ++ [fr] } b := by
  have hdo : dataOf c (a.out ++ [fr]) = dataOf c a.out := by
    rw [dataOf_append, dataOf_single_other _ _ hd, List.append_nil]
  refine { h with exact := ?_, conn := ?_, fresh := ?_, clean := ?_, eofNM := ?_, gone := ?_, stopOk := ?_,
                  connOk := by rw [nConnect_append_single _ _ _ hcn]; exact h.connOk,
                  eofSeen := fun nm => (h.eofSeen nm).imp_left (fun hh => by rw [hasEof_append, hh]; rfl) }
  · rcases h.exact with hs | he'
    · exact Or.inl hs
    · exact Or.inr (by simp only [hdo]; exact he')
  · intro hbe
    exact ⟨(h.conn hbe).1, connectAhead_append _ _ _ (h.conn hbe).2⟩
  · intro hae
    obtain ⟨h1, h2, h3⟩ := h.fresh hae
    refine ⟨h1, h2, ?_⟩
    rw [noStream_append]
    exact ⟨h3, fun x hx => by simp only [List.mem_singleton] at hx; subst hx; exact hf hae⟩
  · apply eofClean_append_noData _ _ _ h.clean (eofClean_single _ _)
    intro _; exact dataOf_single_other _ _ hd
  · intro hh
    simp only [hasEof_append] at hh
    have : hasEof c [fr] = false := by simp [hasEof, he]
    rw [this, Bool.or_false] at hh
    exact h.eofNM hh
  · intro hb1 hb2
    rcases h.gone hb1 hb2 with hs | ⟨nm, hd'⟩
    · exact Or.inl hs
    · exact Or.inr ⟨nm, by simp only [hdo]; exact hd'⟩
  · intro hh
    simp only [hasStop_append, Bool.or_eq_true] at hh
    rcases hh with hh | hh
    · exact h.stopOk hh
    · apply hst
      simpa [hasStop] using hh

theorem noMore_of_flags {a a' : SrcV} (h : noMore a) (hev : a'.ever = a.ever)
    (hp : a'.present = a.present ∨ a'.present = false)
    (hw : a.mwShutW = true → a'.mwShutW = true) (hb : a.buf = [] → a'.buf = [])
    (hr : a.shutR = true → a'.shutR = true) : noMore a' := by
  refine ⟨by rw [hev]; exact h.1, ?_⟩
  rcases hp with hp | hp
  · rcases h.2 with h1 | ⟨h1, h2, h3⟩
    · left; rw [hp]; exact h1
    · right; exact ⟨hw h1, hb h2, hr h3⟩
  · left; exact hp

theorem DirInv.srcStep {c : Nat} {a a' : SrcV} {b : SinkV} (h : DirInv c a b)
    (st : SrcStep c b.sawShut a a') : DirInv c a' b := by
  cases st with
  | consume x hp hr =>
    have hev := h.srcEv hp
    have notNM : ¬ noMore a := by
      intro nm
      rcases nm.2 with h1 | ⟨_, _, h3⟩
      · rw [hp] at h1; cases h1
      · rw [hr] at h3; cases h3
    refine { h with pre := ?_, exact := ?_, fresh := ?_, eofNM := ?_, gone := ?_, srcBuf := ?_, nl1 := ?_,
                    eofSeen := ?_ }
    · exact h.pre.trans (List.prefix_append _ _)
    · rcases h.exact with hs | he
      · exact Or.inl hs
      · exact Or.inr (by simp only [he]; simp)
    · intro he; rw [hev] at he; cases he
    · intro he; exact absurd (h.eofNM he) notNM
    · intro hb1 hb2
      rcases h.gone hb1 hb2 with hs | ⟨nm, _⟩
      · exact Or.inl hs
      · exact absurd nm notNM
    · intro hnp; simp only at hnp; rw [hp] at hnp; cases hnp
    · intro hs _ hw
      have := (h.nl1 hs hp hw).2
      rw [hr] at this; cases this
    · intro nm
      rcases nm.2 with h1 | ⟨_, _, h3⟩
      · have h1' : a.present = false := h1
        rw [hp] at h1'; cases h1'
      · have h3' : a.shutR = true := h3
        rw [hr] at h3'; cases h3'
  | send moved rest hb hne hp =>
    have hev := h.srcEv hp
    have notNM : ¬ noMore a := by
      intro nm
      rcases nm.2 with h1 | ⟨_, h2, _⟩
      · rw [hp] at h1; cases h1
      · rw [h2] at hb
        exact hne (List.append_eq_nil_iff.mp hb.symm).1
    have hnoeof : hasEof c a.out = false := by
      cases he : hasEof c a.out with
      | false => rfl
      | true => exact absurd (h.eofNM he) notNM
    refine { h with exact := ?_, conn := ?_, fresh := ?_, clean := ?_, eofNM := ?_, gone := ?_,
                    srcBuf := ?_, nl1 := ?_, stopOk := ?_,
                    connOk := by rw [nConnect_append_single _ _ _ (notConnect_data c moved)]; exact h.connOk,
                    eofSeen := ?_ }
    · rcases h.exact with hs | he
      · exact Or.inl hs
      · right
        simp only [dataOf_append, dataOf_single_data]
        rw [he, hb]; simp
    · intro hbe
      exact ⟨(h.conn hbe).1, connectAhead_append _ _ _ (h.conn hbe).2⟩
    · intro he; rw [hev] at he; cases he
    · apply eofClean_append_noData _ _ _ h.clean (eofClean_single _ _)
      intro he; rw [hnoeof] at he; cases he
    · intro he
      simp only [hasEof_append, hnoeof, Bool.false_or] at he
      have : hasEof c [⟨c, DATA, moved⟩] = false := by simp [hasEof, notEof_data]
      rw [this] at he; cases he
    · intro hb1 hb2
      rcases h.gone hb1 hb2 with hs | ⟨nm, _⟩
      · exact Or.inl hs
      · exact absurd nm notNM
    · intro hnp; simp only at hnp; rw [hp] at hnp; cases hnp
    · intro hs _ hw
      have := (h.nl1 hs hp hw).1
      rw [this] at hb
      exact absurd (List.append_eq_nil_iff.mp hb.symm).1 hne
    · intro hh
      rw [hasStop_append_single _ _ _ (notStop_data c moved)] at hh
      exact h.stopOk hh
    · intro nm
      rcases nm.2 with h1 | ⟨h1, _, _⟩
      · have h1' : a.present = false := h1
        rw [hp] at h1'; cases h1'
      · -- the mux side shut for writing with bytes still buffered: only after the sink shut its socket
        have hw' : a.mwShutW = true := h1
        by_cases hsaw : b.sawShut = true
        · exact Or.inr (Or.inr hsaw)
        · have := (h.nl1 (by simpa using hsaw) hp hw').1
          rw [this] at hb
          exact absurd (List.append_eq_nil_iff.mp hb.symm).1 hne
  | eof hp hb hr hw =>
    have hev := h.srcEv hp
    have hnd := notData_eof c
    have nm' : noMore { a with mwShutW := true, out := a.out ++ [⟨c, EOF, []⟩] } :=
      ⟨hev, Or.inr ⟨rfl, hb, hr⟩⟩
    refine { h with exact := ?_, conn := ?_, fresh := ?_, clean := ?_, eofNM := ?_, gone := ?_,
                    nl1 := ?_, stopOk := ?_,
                    connOk := by rw [nConnect_append_single _ _ _ (notConnect_eof c)]; exact h.connOk,
                    eofSeen := fun _ => Or.inl (by rw [hasEof_append]; simp [hasEof, isEof]) }
    · rcases h.exact with hs | he
      · exact Or.inl hs
      · right
        simp only [dataOf_append, dataOf_single_other _ _ hnd, List.append_nil]
        exact he
    · intro hbe
      exact ⟨(h.conn hbe).1, connectAhead_append _ _ _ (h.conn hbe).2⟩
    · intro he; rw [hev] at he; cases he
    · apply eofClean_append_noData _ _ _ h.clean (eofClean_single _ _)
      intro _; exact dataOf_single_other _ _ hnd
    · intro _; exact nm'
    · intro hb1 hb2
      rcases h.gone hb1 hb2 with hs | ⟨_, hd⟩
      · exact Or.inl hs
      · right
        refine ⟨nm', ?_⟩
        simp only [dataOf_append, dataOf_single_other _ _ hnd, List.append_nil]
        exact hd
    · intro _ _ _; exact ⟨hb, hr⟩
    · intro hh
      rw [hasStop_append_single _ _ _ (notStop_eof c)] at hh
      exact h.stopOk hh
  | stopFrame hp hs =>
    have hev := h.srcEv hp
    exact h.appendInert _ (notData_stop c) (notEof_stop c) (fun he => by rw [hev] at he; cases he) (fun _ => hs)
      (notConnect_stop c)
  | foreign fr hf =>
    exact h.appendInert fr hf.notData hf.notEof (fun _ => hf.1)
      (fun hh => by rw [hf.notStop] at hh; cases hh) hf.2
  | discard hp hw =>
    have hev := h.srcEv hp
    refine { h with exact := ?_, fresh := ?_, eofNM := ?_, gone := ?_, srcBuf := ?_, nl1 := ?_, eofSeen := ?_ }
    · rcases h.exact with hs | he
      · exact Or.inl hs
      · cases hsaw : b.sawShut with
        | true => exact Or.inl rfl
        | false =>
          have hb0 := (h.nl1 hsaw hp hw).1
          right
          rw [hb0] at he
          exact he
    · intro he; rw [hev] at he; cases he
    · intro he
      exact noMore_of_flags (h.eofNM he) rfl (Or.inl rfl) id (fun _ => rfl) (fun _ => rfl)
    · intro hb1 hb2
      rcases h.gone hb1 hb2 with hs | ⟨nm, hd⟩
      · exact Or.inl hs
      · exact Or.inr ⟨noMore_of_flags nm rfl (Or.inl rfl) id (fun _ => rfl) (fun _ => rfl), hd⟩
    · intro _; rfl
    · intro _ _ _; exact ⟨rfl, rfl⟩
    · intro _
      by_cases hsaw : b.sawShut = true
      · exact Or.inr (Or.inr hsaw)
      · obtain ⟨hb0, hr0⟩ := h.nl1 (by simpa using hsaw) hp hw
        exact h.eofSeen ⟨hev, Or.inr ⟨hw, hb0, hr0⟩⟩
  | flags r w os hr hw hos hk =>
    refine { h with eofNM := ?_, gone := ?_, nl1 := ?_, stopOk := ?_, eofSeen := ?_ }
    · intro he
      exact noMore_of_flags (h.eofNM he) rfl (Or.inl rfl) hw id hr
    · intro hb1 hb2
      rcases h.gone hb1 hb2 with hs | ⟨nm, hd⟩
      · exact Or.inl hs
      · exact Or.inr ⟨noMore_of_flags nm rfl (Or.inl rfl) hw id hr, hd⟩
    · intro hs hp' hw'
      rcases hk hw' with h1 | h1
      · obtain ⟨x, y⟩ := h.nl1 hs hp' h1
        exact ⟨x, hr y⟩
      · rw [hs] at h1; cases h1
    · intro hh; exact hos (h.stopOk hh)
    · intro nm
      by_cases hsaw : b.sawShut = true
      · exact Or.inr (Or.inr hsaw)
      · apply h.eofSeen
        refine ⟨nm.1, ?_⟩
        rcases nm.2 with h1 | ⟨h1, h2, h3⟩
        · exact Or.inl h1
        · have hw1 : w = true := h1
          have hb1 : a.buf = [] := h2
          cases hpr : a.present with
          | false => exact Or.inl rfl
          | true =>
            rcases hk hw1 with hm | hm
            · obtain ⟨x, y⟩ := h.nl1 (by simpa using hsaw) hpr hm
              exact Or.inr ⟨hm, x, y⟩
            · exact absurd hm hsaw
  | remove hp hb hd =>
    have hev := h.srcEv hp
    have nm' : noMore { a with present := false, buf := [] } := ⟨hev, Or.inl rfl⟩
    refine { h with exact := ?_, fresh := ?_, eofNM := ?_, gone := ?_, srcBuf := ?_, srcEv := ?_, nl1 := ?_,
                    eofSeen := ?_ }
    · rcases h.exact with hs | he
      · exact Or.inl hs
      · rcases hb with hb | hb
        · right; rw [hb] at he; exact he
        · exact Or.inl hb
    · intro he; rw [hev] at he; cases he
    · intro _; exact nm'
    · intro hb1 hb2
      rcases h.gone hb1 hb2 with hs | ⟨_, hd⟩
      · exact Or.inl hs
      · exact Or.inr ⟨nm', hd⟩
    · intro _; rfl
    · intro hp'; cases hp'
    · intro _ hp'; cases hp'
    · intro _
      rcases hd with ⟨hw1, hr1⟩ | hk
      · rcases hb with hb | hb
        · exact h.eofSeen ⟨hev, Or.inr ⟨hw1, hb, hr1⟩⟩
        · exact Or.inr (Or.inr hb)
      · exact Or.inr (Or.inr hk)
  | create he r os hos =>
    obtain ⟨hnp, hc0, hns⟩ := h.fresh he
    have hbuf := h.srcBuf hnp
    have notNM : ¬ noMore a := fun nm => by have := nm.1; rw [he] at this; cases this
    refine { h with exact := ?_, fresh := ?_, eofNM := ?_, gone := ?_, srcBuf := ?_, srcEv := ?_,
                    nl1 := ?_, stopOk := ?_, eofSeen := ?_ }
    · rcases h.exact with hs | hex
      · exact Or.inl hs
      · right
        rw [hbuf] at hex; exact hex
    · intro h1; cases h1
    · intro hh; rw [hasEof_noStream c a.out hns] at hh; cases hh
    · intro hb1 hb2
      rcases h.gone hb1 hb2 with hs | ⟨nm, _⟩
      · exact Or.inl hs
      · exact absurd nm notNM
    · intro h1; cases h1
    · intro _; rfl
    · intro _ _ hw; cases hw
    · intro hh; rw [hasStop_noStream c a.out hns] at hh; cases hh
    · intro nm
      rcases nm.2 with h1 | ⟨h1, _, _⟩
      · cases h1
      · cases h1

/-- A step allowed while the sink is open is allowed in any case. -/
theorem SrcStep.mono {c : Nat} {a a' : SrcV} (k : Bool) (st : SrcStep c false a a') : SrcStep c k a a' := by
  cases st with
  | consume x hp hr => exact .consume a x hp hr
  | send moved rest hb hne hp => exact .send a moved rest hb hne hp
  | eof hp hb hr hw => exact .eof a hp hb hr hw
  | stopFrame hp hs => exact .stopFrame a hp hs
  | foreign fr hf => exact .foreign a fr hf
  | discard hp hw => exact .discard a hp hw
  | flags r w os hr hw hos hk =>
    exact .flags a r w os hr hw hos (fun h => (hk h).elim Or.inl (fun h' => by cases h'))
  | remove hp hb hd => exact .remove a hp (hb.elim Or.inl (fun h' => by cases h')) (hd.elim Or.inl (fun h' => by cases h'))
  | create he r os hos => exact .create a he r os hos

theorem srcStar_lift {c : Nat} {a a' : SrcV} (k : Bool) (h : Star (SrcStep c false) a a') :
    Star (SrcStep c k) a a' := by
  induction h with
  | refl => exact Star.refl _
  | tail _ st ih => exact Star.tail ih (SrcStep.mono k st)

/-! ### preservation by sink transitions -/

theorem DirInv.sinkStep {c : Nat} {a : SrcV} {b b' : SinkV} (h : DirInv c a b) (st : SinkStep b b') :
    DirInv c a b' := by
  cases st with
  | deliver moved rest hb hs =>
    by_cases hm : moved = []
    · subst hm
      simp only [List.nil_append] at hb
      refine { h with pre := by simpa using h.pre, exact := ?_, snkBuf := ?_ }
      · rcases h.exact with hs' | he
        · exact Or.inl hs'
        · exact Or.inr (by simp only [List.append_nil]; rw [← hb]; exact he)
      · intro hp; simp only; rw [← hb]; exact h.snkBuf hp
    · have hsaw := hs hm
      rcases h.exact with hs' | he
      · rw [hsaw] at hs'; cases hs'
      · refine { h with pre := ?_, exact := ?_, snkBuf := ?_ }
        · refine ⟨rest ++ dataOf c a.out ++ a.buf, ?_⟩
          simp only [he, hb]; simp
        · right
          simp only [he, hb]; simp
        · intro hp
          have := h.snkBuf hp
          rw [this] at hb
          exact absurd (List.append_eq_nil_iff.mp hb.symm).1 hm
  | discard hw =>
    by_cases hp : b.present = true
    · have hsaw := h.shutOk hp hw
      refine { h with exact := Or.inl hsaw, snkBuf := fun _ => rfl }
    · have hp' : b.present = false := by simpa using hp
      have hb := h.snkBuf hp'
      refine { h with exact := ?_, snkBuf := fun _ => rfl }
      rcases h.exact with hs | he
      · exact Or.inl hs
      · exact Or.inr (by simp only [he, hb])
  | flags r w saw ok h1 h2 h3 h4 h5 h6 =>
    have hshut : b.present = true → w = true → saw = true := by
      intro hp hw
      rcases h4 hw with h' | h'
      · exact h2 (h.shutOk hp h')
      · exact h'
    refine { h with exact := ?_, shutOk := hshut, gone := ?_, dead := ?_, goneShut := fun he hp => h2 (h.goneShut he hp),
                    nl1 := ?_, eofSeen := fun nm => (h.eofSeen nm).imp_right (Or.imp (fun x => ⟨x.1, h3 x.2⟩) h2) }
    · rcases h.exact with hs | he
      · exact Or.inl (h2 hs)
      · exact Or.inr he
    · intro hb1 hb2
      have old : (b.present = false ∨ b.mwShutR = true) → saw = true ∨ (noMore a ∧ dataOf c a.out = []) := by
        intro hh
        rcases h.gone hb1 hh with hs | hr
        · exact Or.inl (h2 hs)
        · exact Or.inr hr
      rcases hb2 with hnp | hr
      · exact old (Or.inl hnp)
      · rcases h5 hr with h' | h'
        · exact old (Or.inr h')
        · by_cases hp : b.present = true
          · exact Or.inl (hshut hp h')
          · exact old (Or.inl (by simpa using hp))
    · intro hp hok
      rcases h6 hok with h' | h'
      · exact h1 (h.dead hp h')
      · exact h'
    · intro hs
      apply h.nl1
      cases hb : b.sawShut with
      | false => rfl
      | true =>
        have := h2 hb
        have hs' : saw = false := hs
        rw [hs'] at this; cases this
  | remove hok hp =>
    have hsw := h.dead hp hok
    have hsaw := h.shutOk hp hsw
    have hev := h.snkEv hp
    refine { h with exact := Or.inl hsaw, shutOk := ?_, conn := ?_, gone := fun _ _ => Or.inl hsaw,
                    dead := ?_, snkBuf := fun _ => rfl, snkEv := ?_, goneShut := fun _ _ => hsaw,
                    nl1 := fun hs => by rw [hsaw] at hs; cases hs }
    · intro h1; cases h1
    · intro h1; rw [hev] at h1; cases h1
    · intro h1; cases h1
    · intro h1; cases h1

theorem DirInv.srcStar {c : Nat} {a a' : SrcV} {b : SinkV} (h : DirInv c a b)
    (st : Star (SrcStep c b.sawShut) a a') : DirInv c a' b := by
  induction st with
  | refl => exact h
  | tail _ hr ih => exact ih.srcStep hr

theorem DirInv.sinkStar {c : Nat} {a : SrcV} {b b' : SinkV} (h : DirInv c a b)
    (st : Star SinkStep b b') : DirInv c a b' := by
  induction st with
  | refl => exact h
  | tail _ hr ih => exact ih.sinkStep hr

/-! ### frame delivery: the joint transitions -/

/-- The head frame is neither DATA of `c` nor (while the sink does not exist yet) the CONNECT of
`c`: popping it changes nothing for this direction, except that an EOF of `c` may set the sink's
`shut_read` (`r`): `hgone` and `he` say how. -/
theorem DirInv.popR {c : Nat} {a : SrcV} {b : SinkV} (h : DirInv c a b) (fr : Frame) (rest : List Frame)
    (ho : a.out = fr :: rest) (hd : isData c fr = false)
    (hc : isConnect c fr = true → b.ever = true)
    (r : Bool) (hr : b.mwShutR = true → r = true)
    (hgone : r = true → b.mwShutR = true ∨ (noMore a ∧ dataOf c rest = []))
    (he : isEof c fr = true → (b.ever = true ∧ r = true) ∨ b.sawShut = true) :
    DirInv c { a with out := rest } { b with mwShutR := r } := by
  have hdo : dataOf c a.out = dataOf c rest := by rw [ho]; simp [dataOf, hd]
  have hnc : isConnect c fr = false := by
    cases hcc : isConnect c fr with
    | false => rfl
    | true =>
      have hev := hc hcc
      have hk := h.connOk
      rw [ho, nConnect_cons, hcc] at hk
      rcases hk with hk | ⟨_, hk⟩
      · simp at hk
      · rw [hev] at hk; cases hk
  have hcnt : nConnect c rest = nConnect c a.out := by rw [ho, nConnect_cons, hnc]; simp
  refine { h with exact := ?_, conn := ?_, fresh := ?_, clean := ?_, eofNM := ?_, gone := ?_,
                  stopOk := fun hh => h.stopOk (by rw [ho]; exact hasStop_tail hh),
                  connOk := by rw [hcnt]; exact h.connOk, eofSeen := ?_ }
  · rcases h.exact with hs | he'
    · exact Or.inl hs
    · exact Or.inr (by rw [← hdo]; exact he')
  · intro hbe
    obtain ⟨h1, h2⟩ := h.conn hbe
    refine ⟨h1, ?_⟩
    rw [ho] at h2
    simp only [connectAhead] at h2
    rcases h2 with h2 | ⟨_, h2⟩
    · have := hc h2; rw [hbe] at this; cases this
    · exact h2
  · intro hae
    obtain ⟨h1, h2, h3⟩ := h.fresh hae
    rw [ho] at h3
    exact ⟨h1, h2, noStream_tail _ _ _ h3⟩
  · have := h.clean; rw [ho] at this; exact this.2
  · intro hh
    apply h.eofNM
    rw [ho]; simp only [hasEof, List.any_cons]
    simp only [hasEof] at hh; rw [hh]; simp
  · intro hb1 hb2
    have old : (b.present = false ∨ b.mwShutR = true) → b.sawShut = true ∨ (noMore a ∧ dataOf c rest = []) := by
      intro hh
      rcases h.gone hb1 hh with hs | ⟨nm, hd'⟩
      · exact Or.inl hs
      · exact Or.inr ⟨nm, by rw [← hdo]; exact hd'⟩
    rcases hb2 with hp | hr'
    · exact old (Or.inl hp)
    · rcases hgone hr' with hm | hm
      · exact old (Or.inr hm)
      · exact Or.inr hm
  · intro nm
    rcases h.eofSeen nm with hh | ⟨hev, hm⟩ | hs
    · rw [ho] at hh
      simp only [hasEof, List.any_cons, Bool.or_eq_true] at hh
      rcases hh with hh | hh
      · rcases he hh with ⟨x, y⟩ | x
        · exact Or.inr (Or.inl ⟨x, y⟩)
        · exact Or.inr (Or.inr x)
      · exact Or.inl hh
    · exact Or.inr (Or.inl ⟨hev, hr hm⟩)
    · exact Or.inr (Or.inr hs)

theorem DirInv.pop {c : Nat} {a : SrcV} {b : SinkV} (h : DirInv c a b) (fr : Frame) (rest : List Frame)
    (ho : a.out = fr :: rest) (hd : isData c fr = false)
    (hc : isConnect c fr = true → b.ever = true)
    (he : isEof c fr = true → (b.ever = true ∧ b.mwShutR = true) ∨ b.sawShut = true) :
    DirInv c { a with out := rest } b :=
  h.popR fr rest ho hd hc b.mwShutR id Or.inl he

/-- A DATA frame of `c` reaches the sink's registered wrapper. -/
theorem DirInv.dataAccepted {c : Nat} {a : SrcV} {b : SinkV} (h : DirInv c a b) (fr : Frame)
    (rest : List Frame) (ho : a.out = fr :: rest) (hd : isData c fr = true) (hp : b.present = true) :
    DirInv c { a with out := rest } { b with buf := b.buf ++ fr.data } := by
  have hdo : dataOf c a.out = fr.data ++ dataOf c rest := by rw [ho]; simp [dataOf, hd]
  have hev := h.snkEv hp
  have hstream := isData_stream hd
  have hncn : isConnect c fr = false := by
    simp only [isData, Bool.and_eq_true, beq_iff_eq] at hd
    simp only [isConnect, hd.2]
    have := cmds_distinct.2.2.1
    simp [this]
  have hcnt : nConnect c rest = nConnect c a.out := by rw [ho, nConnect_cons, hncn]; simp
  refine { h with exact := ?_, conn := ?_, fresh := ?_, clean := ?_, eofNM := ?_, gone := ?_, snkBuf := ?_,
                  stopOk := fun hh => h.stopOk (by rw [ho]; exact hasStop_tail hh),
                  connOk := (by
                    show nConnect c rest = 0 ∨ (nConnect c rest = 1 ∧ b.ever = false)
                    rw [hcnt]; exact h.connOk),
                  eofSeen := (by
                    intro nm
                    have hne : isEof c fr = false := by
                      simp only [isData, Bool.and_eq_true, beq_iff_eq] at hd
                      simp only [isEof, hd.2]
                      have := cmds_distinct.1
                      simp [this]
                    have := h.eofSeen nm
                    rw [ho] at this
                    simpa [hasEof, hne] using this) }
  · rcases h.exact with hs | he
    · exact Or.inl hs
    · exact Or.inr (by simp only [he, hdo]; simp)
  · intro hbe; simp only at hbe; rw [hev] at hbe; cases hbe
  · intro hae
    obtain ⟨_, _, h3⟩ := h.fresh hae
    rw [ho] at h3
    have := h3 fr (by simp)
    rw [hstream] at this; cases this
  · have := h.clean; rw [ho] at this; exact this.2
  · intro hh
    apply h.eofNM
    rw [ho]; simp only [hasEof, List.any_cons]
    simp only [hasEof] at hh; rw [hh]; simp
  · intro hb1 hb2
    rcases h.gone hb1 hb2 with hs | ⟨nm, hd'⟩
    · exact Or.inl hs
    · right
      rw [hdo] at hd'
      exact ⟨nm, (List.append_eq_nil_iff.mp hd').2⟩
  · intro hnp; simp only at hnp; rw [hp] at hnp; cases hnp

/-- A DATA frame of `c` arrives when the sink's channel is closed or its handler is gone: it is
dropped ('warning: closed channel').  Either the endpoint can no longer receive anyway, or the
payload is empty. -/
theorem DirInv.dataDropped {c : Nat} {a : SrcV} {b : SinkV} (h : DirInv c a b) (fr : Frame)
    (rest : List Frame) (ho : a.out = fr :: rest) (hd : isData c fr = true)
    (hg : b.present = false ∨ b.mwShutR = true) :
    DirInv c { a with out := rest } b := by
  have hdo : dataOf c a.out = fr.data ++ dataOf c rest := by rw [ho]; simp [dataOf, hd]
  have hstream := isData_stream hd
  have hnc : isConnect c fr = false := by
    simp only [isData, Bool.and_eq_true, beq_iff_eq] at hd
    simp only [isConnect, hd.2]
    have := cmds_distinct.2.2.1
    simp [this]
  have hev : b.ever = true := by
    cases hbe : b.ever with
    | true => rfl
    | false =>
      have := (h.conn hbe).2
      rw [ho] at this
      simp only [connectAhead, hnc, hstream] at this
      rcases this with h1 | ⟨h1, _⟩ <;> cases h1
  have hcnt : nConnect c rest = nConnect c a.out := by rw [ho, nConnect_cons, hnc]; simp
  have hck : nConnect c rest = 0 ∨ (nConnect c rest = 1 ∧ b.ever = false) := by rw [hcnt]; exact h.connOk
  have hne : isEof c fr = false := by
    simp only [isData, Bool.and_eq_true, beq_iff_eq] at hd
    simp only [isEof, hd.2]
    have := cmds_distinct.1
    simp [this]
  have hseen : noMore a → hasEof c rest = true ∨ (b.ever = true ∧ b.mwShutR = true) ∨ b.sawShut = true := by
    intro nm
    have := h.eofSeen nm
    rw [ho] at this
    simpa [hasEof, hne] using this
  rcases h.gone hev hg with hs | ⟨nm, hd'⟩
  · -- blocked: the exact equation is no longer needed
    refine { h with exact := Or.inl hs, conn := ?_, fresh := ?_, clean := ?_, eofNM := ?_,
                    gone := fun _ _ => Or.inl hs,
                    stopOk := fun hh => h.stopOk (by rw [ho]; exact hasStop_tail hh), connOk := hck,
                    eofSeen := hseen }
    · intro hbe; rw [hev] at hbe; cases hbe
    · intro hae
      obtain ⟨_, _, h3⟩ := h.fresh hae
      rw [ho] at h3
      have := h3 fr (by simp)
      rw [hstream] at this; cases this
    · have := h.clean; rw [ho] at this; exact this.2
    · intro hh
      apply h.eofNM
      rw [ho]; simp only [hasEof, List.any_cons]
      simp only [hasEof] at hh; rw [hh]; simp
  · rw [hdo] at hd'
    obtain ⟨hfd, hrest⟩ := List.append_eq_nil_iff.mp hd'
    refine { h with exact := ?_, conn := ?_, fresh := ?_, clean := ?_, eofNM := ?_, gone := ?_,
                    stopOk := fun hh => h.stopOk (by rw [ho]; exact hasStop_tail hh), connOk := hck,
                    eofSeen := hseen }
    · rcases h.exact with hs | he
      · exact Or.inl hs
      · exact Or.inr (by simp [he, hdo, hfd, hrest])
    · intro hbe; rw [hev] at hbe; cases hbe
    · intro hae
      obtain ⟨_, _, h3⟩ := h.fresh hae
      rw [ho] at h3
      have := h3 fr (by simp)
      rw [hstream] at this; cases this
    · have := h.clean; rw [ho] at this; exact this.2
    · intro _; exact nm
    · intro _ _; exact Or.inr ⟨nm, hrest⟩

/-- An EOF frame of `c` reaches the sink's registered wrapper (`setnoread`). -/
theorem DirInv.eofAccepted {c : Nat} {a : SrcV} {b : SinkV} (h : DirInv c a b) (fr : Frame)
    (rest : List Frame) (ho : a.out = fr :: rest) (he : isEof c fr = true) (hp : b.present = true) :
    DirInv c { a with out := rest } { b with mwShutR := true } := by
  have hnd : isData c fr = false := by
    simp only [isEof, Bool.and_eq_true, beq_iff_eq] at he
    simp only [isData, he.2]
    have := cmds_distinct.1
    simp [Ne.symm this]
  have hnc : isConnect c fr = false := by
    simp only [isEof, Bool.and_eq_true, beq_iff_eq] at he
    simp only [isConnect, he.2]
    have := cmds_distinct.2.2.2.2.1
    simp [this]
  have hasE : hasEof c a.out = true := by rw [ho]; simp [hasEof, he]
  have nm := h.eofNM hasE
  have hclean := h.clean
  rw [ho] at hclean
  have hrest : dataOf c rest = [] := hclean.1 he
  exact h.popR fr rest ho hnd (fun hc => by rw [hnc] at hc; cases hc) true (fun _ => rfl)
    (fun _ => Or.inr ⟨nm, hrest⟩) (fun _ => Or.inl ⟨h.snkEv hp, rfl⟩)

/-- The CONNECT of `c` creates the sink handler (server `new_channel`). `sw`/`saw` are the
wrapper's `shut_write` and the socket's state after the `try_connect` made in the constructor. -/
theorem DirInv.connectCreates {c : Nat} {a : SrcV} {b : SinkV} (h : DirInv c a b) (fr : Frame)
    (rest : List Frame) (ho : a.out = fr :: rest) (hc : isConnect c fr = true) (hbe : b.ever = false)
    (sw saw : Bool) (hsw : sw = true → saw = true) (hmono : b.sawShut = true → saw = true) :
    DirInv c { a with out := rest }
      { b with present := true, ever := true, buf := [], mwShutR := false, swShutW := sw, ok := true,
               sawShut := saw } := by
  have hnd : isData c fr = false := by
    simp only [isConnect, Bool.and_eq_true, beq_iff_eq] at hc
    simp only [isData, hc.2]
    have := cmds_distinct.2.2.1
    simp [Ne.symm this]
  have hnp := (h.conn hbe).1
  have hb0 := h.snkBuf hnp
  have hdo : dataOf c a.out = dataOf c rest := by rw [ho]; simp [dataOf, hnd]
  have hstream : isStream c fr = false := by
    simp only [isConnect, Bool.and_eq_true, beq_iff_eq] at hc
    simp only [isStream, hc.2]
    obtain ⟨_, _, h3, _, h5, h6⟩ := cmds_distinct
    simp [Ne.symm h3, Ne.symm h5, Ne.symm h6]
  refine { pre := h.pre, exact := ?_, shutOk := ?_, conn := ?_, fresh := ?_, clean := ?_, eofNM := ?_,
           gone := ?_, dead := ?_, srcBuf := h.srcBuf, snkBuf := ?_, srcEv := h.srcEv, snkEv := ?_,
           goneShut := fun _ hp => (by cases hp),
           nl1 := ?_,
           stopOk := fun hh => h.stopOk (by rw [ho]; exact hasStop_tail hh),
           connOk := Or.inl (by
             have hk := h.connOk
             rw [ho, nConnect_cons, hc] at hk
             rcases hk with hk | ⟨hk, _⟩
             · simp at hk
             · simpa using hk),
           eofSeen := ?_ }
  · rcases h.exact with hs | he
    · exact Or.inl (hmono hs)
    · exact Or.inr (by rw [he, hb0, hdo])
  · intro _ h2; exact hsw h2
  · intro h1; cases h1
  · intro hae
    obtain ⟨h1, h2, h3⟩ := h.fresh hae
    rw [ho] at h3
    exact ⟨h1, h2, noStream_tail _ _ _ h3⟩
  · have := h.clean; rw [ho] at this; exact this.2
  · intro hh
    apply h.eofNM
    rw [ho]; simp only [hasEof, List.any_cons]
    simp only [hasEof] at hh; rw [hh]; simp
  · intro _ hb2
    rcases hb2 with h1 | h1 <;> cases h1
  · intro _ h2; cases h2
  · intro h1; cases h1
  · intro _; rfl
  · intro hs
    apply h.nl1
    cases hb : b.sawShut with
    | false => rfl
    | true =>
      have := hmono hb
      have hs' : saw = false := hs
      rw [hs'] at this; cases this
  · intro nm
    have hne : isEof c fr = false := by
      simp only [isConnect, Bool.and_eq_true, beq_iff_eq] at hc
      simp only [isEof, hc.2]
      have := cmds_distinct.2.2.2.2.1
      simp [Ne.symm this]
    rcases h.eofSeen nm with hh | ⟨hev, _⟩ | hs
    · rw [ho] at hh
      left
      simpa [hasEof, hne] using hh
    · rw [hbe] at hev; cases hev
    · exact Or.inr (Or.inr (hmono hs))

end Sshuttle.Tunnel
