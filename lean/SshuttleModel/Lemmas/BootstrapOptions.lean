/-
Helper lemmas for C18, part 3: `"%s=%r\n"` followed by the evaluation of the literal is
the identity on `bool`, `int`, `None`, `str`.
-/
import SshuttleModel.Lemmas.Bootstrap

namespace Sshuttle.Bootstrap

/-! ### hex escapes -/

theorem hexVal_digit (x : Nat) : hexVal? (hexDigitLower (x % 16)) = some (x % 16) := by
  have h : x % 16 < 16 := Nat.mod_lt _ (by omega)
  generalize x % 16 = d at h
  unfold hexDigitLower hexVal?
  by_cases h10 : d < 10
  · simp only [h10, ↓reduceIte]
    have : 48 ≤ 48 + d ∧ 48 + d ≤ 57 := by omega
    simp only [this, and_self, ↓reduceIte]; congr 1; omega
  · simp only [h10, ↓reduceIte]
    have h1 : ¬ (48 ≤ 87 + d ∧ 87 + d ≤ 57) := by omega
    have h2 : 97 ≤ 87 + d ∧ 87 + d ≤ 102 := by omega
    simp only [h1, h2, and_self, ↓reduceIte]; congr 1; omega

theorem takeHex2 (c : Nat) (h : c < 256) (tail : List Nat) :
    takeHex 2 (hexN 2 c ++ tail) 0 = some (c, tail) := by
  simp only [hexN, List.nil_append, List.cons_append, takeHex, hexVal_digit]
  congr 2; omega

theorem takeHex4 (c : Nat) (h : c < 65536) (tail : List Nat) :
    takeHex 4 (hexN 4 c ++ tail) 0 = some (c, tail) := by
  simp only [hexN, List.nil_append, List.cons_append, takeHex, hexVal_digit]
  congr 2; omega

theorem takeHex8 (c : Nat) (h : c < 4294967296) (tail : List Nat) :
    takeHex 8 (hexN 8 c ++ tail) 0 = some (c, tail) := by
  simp only [hexN, List.nil_append, List.cons_append, takeHex, hexVal_digit]
  congr 2; omega

/-! ### string literals -/

/-- one character of the source literal gives back the character it was rendered from -/
theorem parseStrBody_char (np : Nat → Bool) (q : Nat) (hq : q = 39 ∨ q = 34) (c : Nat)
    (hc : c < 4294967296) (fuel : Nat) (tail acc : List Nat) :
    parseStrBody q (fuel + 1) (escChar np q c ++ tail) acc = parseStrBody q fuel tail (acc ++ [c]) := by
  unfold escChar
  by_cases h1 : c = q ∨ c = 92
  · have hq92 : (92 : Nat) ≠ q := by omega
    have he : c = 92 ∨ c = 39 ∨ c = 34 := by omega
    simp [h1, parseStrBody, hq92, he]
  · simp only [h1, ↓reduceIte]
    have hcq : c ≠ q := fun e => h1 (Or.inl e)
    have hc92 : c ≠ 92 := fun e => h1 (Or.inr e)
    have hq92 : (92 : Nat) ≠ q := by omega
    by_cases h9 : c = 9
    · subst h9; simp [parseStrBody, hq92]
    · by_cases h10 : c = 10
      · subst h10; simp [parseStrBody, hq92]
      · by_cases h13 : c = 13
        · subst h13; simp [parseStrBody, hq92]
        · simp only [h9, h10, h13, ↓reduceIte]
          by_cases hctl : c < 32 ∨ c = 127
          · simp only [hctl, ↓reduceIte, List.cons_append, List.nil_append]
            simp [parseStrBody, hq92, takeHex2 c (by omega) tail]
          · simp only [hctl, ↓reduceIte]
            by_cases h127 : c < 127
            · simp only [h127, ↓reduceIte, List.cons_append, List.nil_append]
              simp [parseStrBody, hcq, h10, h13, hc92]
            · simp only [h127, ↓reduceIte]
              by_cases hnp : np c = true
              · simp only [hnp, ↓reduceIte]
                by_cases h256 : c < 256
                · simp only [h256, ↓reduceIte, List.cons_append, List.nil_append]
                  simp [parseStrBody, hq92, takeHex2 c h256 tail]
                · simp only [h256, ↓reduceIte]
                  by_cases h64k : c < 65536
                  · simp only [h64k, ↓reduceIte, List.cons_append, List.nil_append]
                    simp [parseStrBody, hq92, takeHex4 c h64k tail]
                  · simp only [h64k, ↓reduceIte, List.cons_append, List.nil_append]
                    simp [parseStrBody, hq92, takeHex8 c hc tail]
              · simp only [hnp, Bool.false_eq_true, ↓reduceIte, List.cons_append, List.nil_append]
                simp [parseStrBody, hcq, h10, h13, hc92]

theorem parseStrBody_repr (np : Nat → Bool) (q : Nat) (hq : q = 39 ∨ q = 34) (s : List Nat)
    (hs : ∀ c ∈ s, c < 4294967296) : ∀ (fuel : Nat) (rest acc : List Nat), s.length < fuel →
    parseStrBody q fuel (s.flatMap (escChar np q) ++ q :: rest) acc = some (acc ++ s, rest) := by
  induction s with
  | nil =>
    intro fuel rest acc hf
    cases fuel with
    | zero => omega
    | succ f => simp [parseStrBody]
  | cons c r ih =>
    intro fuel rest acc hf
    cases fuel with
    | zero => omega
    | succ f =>
      simp only [List.flatMap_cons, List.append_assoc]
      rw [parseStrBody_char np q hq c (hs c (by simp)) f _ acc]
      rw [ih (fun d hd => hs d (by simp [hd])) f rest (acc ++ [c])
        (by simp only [List.length_cons] at hf; omega)]
      simp

theorem escChar_ne_nil (np : Nat → Bool) (q c : Nat) : 1 ≤ (escChar np q c).length := by
  unfold escChar
  repeat' split
  all_goals simp

theorem flatMap_esc_length (np : Nat → Bool) (q : Nat) (s : List Nat) :
    s.length ≤ (s.flatMap (escChar np q)).length := by
  induction s with
  | nil => simp
  | cons c r ih =>
    have := escChar_ne_nil np q c
    simp only [List.flatMap_cons, List.length_append, List.length_cons]; omega

theorem quoteFor_cases (s : List Nat) : quoteFor s = 39 ∨ quoteFor s = 34 := by
  unfold quoteFor; split <;> simp

/-! ### integers -/

theorem spanDigits_digits (d rest : List Nat) (hd : ∀ b ∈ d, isDigit b = true) :
    spanDigits (d ++ 10 :: rest) = (d, 10 :: rest) := by
  induction d with
  | nil =>
    have : isDigit 10 = false := by decide
    simp [spanDigits, this]
  | cons b r ih =>
    have hb := hd b (by simp)
    have hr := ih (fun x hx => hd x (by simp [hx]))
    simp [spanDigits, hb, hr]

/-! ### one literal -/

/-- strings are lists of code points -/
def ValidVal : Val → Prop
  | .str s => ∀ c ∈ s, c < 1114112
  | _ => True

theorem parseLit_repr (np : Nat → Bool) (v : Val) (hv : ValidVal v) (rest : List Nat) :
    parseLit (reprVal np v ++ 10 :: rest) = some (v, 10 :: rest) := by
  cases v with
  | bool b => cases b <;> simp [reprVal, parseLit]
  | none => simp [reprVal, parseLit]
  | emptyList => simp [reprVal, parseLit]
  | int i =>
    have hdig := decimal_digits i.natAbs
    have hval := digitsVal_decimal i.natAbs
    simp only [reprVal]
    by_cases hneg : i < 0
    · simp only [hneg, ↓reduceIte, List.cons_append, parseLit]
      simp only [show ¬ ((45 : Nat) = 84) by decide, show ¬ ((45 : Nat) = 70) by decide,
        show ¬ ((45 : Nat) = 78) by decide, show ¬ ((45 : Nat) = 91) by decide,
        show ¬ ((45 : Nat) = 39 ∨ (45 : Nat) = 34) by decide, ↓reduceIte,
        spanDigits_digits _ rest hdig, hval, Option.map_some]
      congr 3
      show -((i.natAbs : Nat) : Int) = i
      omega
    · simp only [hneg, ↓reduceIte]
      cases hd : decimal i.natAbs with
      | nil => exact absurd hd (decimal_ne_nil _)
      | cons b r =>
        have hb : isDigit b = true := hdig b (by rw [hd]; simp)
        simp only [isDigit, Bool.and_eq_true, decide_eq_true_eq] at hb
        have hspan := spanDigits_digits _ rest hdig
        rw [hd] at hspan hval
        simp only [List.cons_append] at hspan
        simp only [List.cons_append, parseLit]
        simp only [show ¬ (b = 84) by omega, show ¬ (b = 70) by omega, show ¬ (b = 78) by omega, show ¬ (b = 91) by omega,
          show ¬ (b = 39 ∨ b = 34) by omega, show ¬ (b = 45) by omega, ↓reduceIte, hspan, hval, Option.map_some]
        congr 3
        show ((i.natAbs : Nat) : Int) = i
        omega
  | str s =>
    have hq := quoteFor_cases s
    have hs : ∀ c ∈ s, c < 4294967296 := fun c hc => by have := hv c hc; omega
    simp only [reprVal, reprStr, List.cons_append, List.nil_append, List.append_assoc, parseLit]
    have hlen := flatMap_esc_length np (quoteFor s) s
    have := parseStrBody_repr np (quoteFor s) hq s hs
      ((s.flatMap (escChar np (quoteFor s)) ++ quoteFor s :: 10 :: rest).length + 1) (10 :: rest) []
      (by simp only [List.length_append]; omega)
    rcases hq with hq | hq
    · rw [hq] at this ⊢
      simp only [show ¬ ((39 : Nat) = 84) by decide, show ¬ ((39 : Nat) = 70) by decide,
        show ¬ ((39 : Nat) = 78) by decide, show ¬ ((39 : Nat) = 91) by decide, true_or, ↓reduceIte]
      rw [this]; simp
    · rw [hq] at this ⊢
      simp only [show ¬ ((34 : Nat) = 84) by decide, show ¬ ((34 : Nat) = 70) by decide,
        show ¬ ((34 : Nat) = 78) by decide, show ¬ ((34 : Nat) = 91) by decide, or_true, ↓reduceIte]
      rw [this]; simp

/-! ### the module body -/

theorem splitEq_key (k rest : List Nat) (h61 : 61 ∉ k) (h10 : 10 ∉ k) :
    splitEq (k ++ 61 :: rest) = some (k, rest) := by
  induction k with
  | nil => simp [splitEq]
  | cons c r ih =>
    have c61 : c ≠ 61 := by intro e; apply h61; simp [e]
    have c10 : c ≠ 10 := by intro e; apply h10; simp [e]
    have := ih (by intro e; apply h61; simp [e]) (by intro e; apply h10; simp [e])
    simp [splitEq, c61, c10, this]

/-- all values of an option list are well-formed -/
def ValidOpts (opts : List (List Nat × Val)) : Prop := ∀ kv ∈ opts, ValidVal kv.2

theorem renderOptions_length (np : Nat → Bool) (opts : List (List Nat × Val)) :
    opts.length ≤ (renderOptions np opts).length := by
  induction opts with
  | nil => simp
  | cons kv r ih =>
    obtain ⟨k, v⟩ := kv
    simp only [renderOptions, List.length_append, List.length_cons, List.length_nil]; omega

theorem evalOptions_render (np : Nat → Bool) (opts : List (List Nat × Val))
    (hk : ∀ kv ∈ opts, 61 ∉ kv.1 ∧ 10 ∉ kv.1) (hv : ValidOpts opts) :
    ∀ fuel : Nat, opts.length < fuel → evalOptions fuel (renderOptions np opts) = some opts := by
  induction opts with
  | nil =>
    intro fuel hf
    cases fuel with
    | zero => omega
    | succ f => simp [evalOptions, renderOptions]
  | cons kv r ih =>
    intro fuel hf
    obtain ⟨k, v⟩ := kv
    cases fuel with
    | zero => omega
    | succ f =>
      have hkk := hk (k, v) (by simp)
      have hne : (renderOptions np ((k, v) :: r)).isEmpty = false := by
        simp [renderOptions]
      have hform : renderOptions np ((k, v) :: r) =
          k ++ 61 :: (reprVal np v ++ 10 :: renderOptions np r) := by
        simp [renderOptions]
      have hrec := ih (fun x hx => hk x (by simp [hx])) (fun x hx => hv x (by simp [hx])) f
        (by simp only [List.length_cons] at hf; omega)
      simp only [evalOptions, hne, Bool.false_eq_true, ↓reduceIte]
      rw [hform, splitEq_key k _ hkk.1 hkk.2]
      simp only
      rw [parseLit_repr np v (hv (k, v) (by simp)) _]
      simp only [hrec, Option.map_some]

end Sshuttle.Bootstrap
