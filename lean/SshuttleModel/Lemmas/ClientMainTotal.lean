/-
C12 helper lemmas, part 8: total correctness of the start-up under a fault-free script — when no
boundary call is made to raise, the start-up reads finish normally, so on a genuine stream the
start-up succeeds (the converse of `startupChecks_link`).
-/
import SshuttleModel.Lemmas.ClientMainLink

namespace Sshuttle.ClientMain
open Sshuttle.Handshake (Reader)

/-- Total-correctness triple: from `P`, `m` returns normally and `Q` holds. -/
def TT {α} (P : World → Prop) (m : M α) (Q : α → World → Prop) : Prop :=
  ∀ w, P w → ∃ a w', m w = (.ok a, w') ∧ Q a w'

namespace TT
variable {P : World → Prop}

theorem pure {α} {Q : α → World → Prop} (a : α) (h : ∀ w, P w → Q a w) :
    TT P (pure a : M α) Q := fun w hw => ⟨a, w, rfl, h w hw⟩

theorem getW {Q : World → World → Prop} (h : ∀ w, P w → Q w w) : TT P getW Q :=
  fun w hw => ⟨w, w, rfl, h w hw⟩

theorem modifyW {Q : Unit → World → Prop} {f : World → World} (h : ∀ w, P w → Q () (f w)) :
    TT P (modifyW f) Q := fun w hw => ⟨(), f w, rfl, h w hw⟩

theorem act {sc : Script} (hnf : ∀ n, sc.faults n = none) {Q : Unit → World → Prop} {e : Ev}
    (h : ∀ w, P w → Q () (actW e w)) : TT P (act sc e) Q := by
  intro w hw
  refine ⟨(), actW e w, ?_, h w hw⟩
  unfold ClientMain.act
  rw [hnf]
  rfl

theorem bind {α β} {m : M α} {f : α → M β} {R : α → World → Prop} {Q : β → World → Prop}
    (h1 : TT P m R) (h2 : ∀ a, TT (R a) (f a) Q) : TT P (m >>= f) Q := by
  intro w hw
  obtain ⟨a, w1, hm, hr⟩ := h1 w hw
  obtain ⟨b, w2, hf, hq⟩ := h2 a w1 hr
  refine ⟨b, w2, ?_, hq⟩
  simp only [bind_apply, hm, hf]

theorem mapExc {α} {m : M α} {f : Exc → Exc} {Q : α → World → Prop} (h : TT P m Q) :
    TT P (mapExc f m) Q := by
  intro w hw
  obtain ⟨a, w1, hm, hq⟩ := h w hw
  refine ⟨a, w1, ?_, hq⟩
  unfold ClientMain.mapExc
  rw [hm]

theorem conseq {α} {m : M α} {P' : World → Prop} {Q Q' : α → World → Prop}
    (h : TT P' m Q') (hp : ∀ w, P w → P' w) (hq : ∀ a w, Q' a w → Q a w) : TT P m Q := by
  intro w hw
  obtain ⟨a, w1, hm, hq'⟩ := h w (hp w hw)
  exact ⟨a, w1, hm, hq a w1 hq'⟩

/-- A partial-correctness triple plus normal termination. -/
theorem ofTriple {α} {m : M α} {Q : α → World → Prop} {E : World → Prop}
    (ht : Triple P m Q E) (hok : TT (fun _ => True) m (fun _ _ => True)) : TT P m Q := by
  intro w hw
  obtain ⟨a, w1, hm, _⟩ := hok w trivial
  have := ht w hw
  rw [hm] at this
  exact ⟨a, w1, hm, this⟩

end TT

abbrev Tr : World → Prop := fun _ => True

variable {sc : Script} (hnf : ∀ n, sc.faults n = none)
include hnf

theorem hsRead_ok (n : Nat) : TT Tr (hsRead sc n) (fun _ _ => True) := by
  unfold hsRead
  refine TT.bind (R := fun _ _ => True) (TT.act hnf fun _ _ => trivial) fun _ => ?_
  refine TT.bind (R := fun _ _ => True) (TT.getW fun _ _ => trivial) fun _ => ?_
  refine TT.bind (R := fun _ _ => True) (TT.modifyW fun _ _ => trivial) fun _ => ?_
  exact TT.pure _ fun _ _ => trivial

theorem skipToNul_ok (fuel : Nat) : TT Tr (skipToNul sc fuel) (fun _ _ => True) := by
  induction fuel with
  | zero => exact TT.pure _ fun _ _ => trivial
  | succ k ih =>
    unfold skipToNul
    refine TT.bind (hsRead_ok hnf 1) fun v => ?_
    split
    · exact TT.pure _ fun _ _ => trivial
    · split
      · exact TT.pure _ fun _ _ => trivial
      · exact ih

theorem readExactly_ok (fuel n : Nat) (acc : Bytes) :
    TT Tr (readExactly sc fuel n acc) (fun _ _ => True) := by
  induction fuel generalizing acc with
  | zero => exact TT.pure _ fun _ _ => trivial
  | succ k ih =>
    unfold readExactly
    split
    · exact TT.pure _ fun _ _ => trivial
    · refine TT.bind (hsRead_ok hnf _) fun v => ?_
      split
      · exact TT.pure _ fun _ _ => trivial
      · exact ih _

theorem readInit_ok (fuel : Nat) : TT Tr (readInit sc fuel) (fun _ _ => True) := by
  unfold readInit
  refine TT.bind (skipToNul_ok hnf fuel) fun _ => ?_
  refine TT.bind (skipToNul_ok hnf fuel) fun _ => ?_
  exact readExactly_ok hnf _ _ _

/-- Fault-free script, ssh alive at the first `poll()`, and the pure recognition accepts the
segments: the start-up checks pass, returning the genuine init string and leaving the segments
the recognition leaves. -/
theorem startupChecks_total (hp : sc.cfg.poll0 = none) (r rest : Reader)
    (hh : Handshake.handshake r = .ok rest) :
    TT (fun w => w.reader = r) (startupChecks sc)
      (fun init w => init = Handshake.expected ∧ w.reader = rest) := by
  have hinit : (initOf r).1 = Handshake.expected ∧ (initOf r).2 = rest := by
    rw [handshake_eq_initOf] at hh
    split at hh
    next he => injection hh with h2; exact ⟨he, h2⟩
    · cases hh
  unfold startupChecks
  refine TT.bind (R := fun _ w => w.reader = r) (TT.mapExc (TT.act hnf fun w hw => hw)) fun _ => ?_
  refine TT.bind (R := fun _ w => w.reader = r) (TT.modifyW fun w hw => hw) fun _ => ?_
  refine TT.bind (R := fun w0 w => w.reader = r ∧ w0.reader = r) (TT.getW fun w hw => ⟨hw, hw⟩) fun w0 => ?_
  refine TT.bind (R := fun init w => (init, w.reader) = initOf r) ?_ fun init => ?_
  · intro w hw
    obtain ⟨h1, h2⟩ := hw
    rw [h2]
    exact TT.mapExc (TT.ofTriple (readInit_reader sc r) (readInit_ok hnf _)) w h1
  refine TT.bind (R := fun _ w => (init, w.reader) = initOf r) (TT.act hnf fun w hw => hw) fun _ => ?_
  refine TT.bind (R := fun _ w => (init, w.reader) = initOf r) ?_ fun _ => ?_
  · simp only [hp, Option.isSome_none, Bool.false_eq_true, ↓reduceIte]
    exact TT.pure _ fun w hw => hw
  intro w hw
  have hi : init = Handshake.expected := by
    have := congrArg Prod.fst hw; simp only at this; rw [this]; exact hinit.1
  have hr : w.reader = rest := by
    have := congrArg Prod.snd hw; simp only at this; rw [this]; exact hinit.2
  refine ⟨init, w, ?_, hi, hr⟩
  simp only [bind_apply, ne_eq, hi, not_true_eq_false, ↓reduceIte]
  rfl

end Sshuttle.ClientMain
