/-
nat method: the configurations a session on `(family, port)` can produce from a base
configuration `s` are exactly `putNat s v` for a small *view* `v` (DESIGN Appendix A.2): our chain
present (with some rules) or absent, our jump rule at the head of nat/OUTPUT and nat/PREROUTING or
not, our MARK rule at the head of mangle/OUTPUT or not.  Each command of the session maps views
to views; `restore_firewall` maps every `Partial` view to the empty one.
-/
import SshuttleModel.Lemmas.FwSessionCore

namespace Sshuttle.Fw

structure NatView where
  chain : Option (List Rule)
  out : Bool
  pre : Bool
  mark : Bool

def NatView.empty : NatView := ⟨none, false, false, false⟩

/-- `[r]` if present. -/
def pfx (b : Bool) (r : Rule) : List Rule := if b then [r] else []

@[simp] theorem pfx_false (r : Rule) : pfx false r = [] := rfl
@[simp] theorem pfx_true (r : Rule) : pfx true r = [r] := rfl

def natF (p : Nat) (o : Opts) (out pre : Bool) (ch : Chain) : Chain :=
  if ch.name = OUTPUT then { ch with rules := pfx out (natJump o p) ++ ch.rules }
  else if ch.name = PREROUTING then { ch with rules := pfx pre (natJump o p) ++ ch.rules }
  else ch

def ownChain (p : Nat) : Option (List Rule) → Table
  | none => []
  | some rs => [⟨.own .main p, rs⟩]

/-- The nat table of a base table `T` with our view `v` laid over it. -/
def buildNat (p : Nat) (o : Opts) (T : Table) (v : NatView) : Table :=
  T.map (natF p o v.out v.pre) ++ ownChain p v.chain

def mangleF (p : Nat) (o : Opts) (mark : Bool) (ch : Chain) : Chain :=
  if ch.name = OUTPUT then { ch with rules := pfx mark (natMarkRule o p) ++ ch.rules } else ch

def buildMangle (p : Nat) (o : Opts) (T : Table) (v : NatView) : Table := T.map (mangleF p o v.mark)

/-- Nothing of `(f, p)`'s nat session is in `s`. -/
structure NatFresh (f : Fam) (p : Nat) (o : Opts) (s : FwState) : Prop where
  noChain : ∀ ch ∈ s.ipt f .nat, ∀ k, ch.name ≠ .own k p
  noRef : ∀ ch ∈ s.ipt f .nat, ∀ r ∈ ch.rules, r.tgt ≠ .chain (.own .main p)
  noMark : ∀ ch ∈ s.ipt f .mangle, natMarkRule o p ∉ ch.rules

@[simp] theorem natF_name (p o a b ch) : (natF p o a b ch).name = ch.name := by
  unfold natF
  split
  · rfl
  · split <;> rfl

@[simp] theorem mangleF_name (p o a ch) : (mangleF p o a ch).name = ch.name := by
  unfold mangleF; split <;> rfl

theorem OUTPUT_ne_PREROUTING : OUTPUT ≠ PREROUTING := by decide
theorem own_ne_OUTPUT (k p) : CName.own k p ≠ OUTPUT := by simp [OUTPUT]
theorem own_ne_PREROUTING (k p) : CName.own k p ≠ PREROUTING := by simp [PREROUTING]

@[simp] theorem natF_empty (p o) (ch : Chain) : natF p o false false ch = ch := by
  unfold natF; split
  · simp
  · split <;> simp

@[simp] theorem buildNat_empty (p o) (T : Table) : buildNat p o T NatView.empty = T := by
  show T.map (natF p o false false) ++ ownChain p none = T
  have : natF p o false false = id := funext (natF_empty p o)
  rw [this]
  simp [ownChain]

@[simp] theorem buildMangle_empty (p o) (T : Table) : buildMangle p o T NatView.empty = T := by
  show T.map (mangleF p o false) = T
  have : mangleF p o false = id := by
    funext ch; unfold mangleF; split <;> simp
  rw [this]
  simp

theorem Table.apply_newChain (t : Table) (c : CName) :
    t.apply (.newChain c) = if t.has c then none else some (t ++ [⟨c, []⟩]) := rfl
theorem Table.apply_flush (t : Table) (c : CName) :
    t.apply (.flush c) = if t.has c then some (t.modify c fun _ => []) else none := rfl
theorem Table.apply_delChain (t : Table) (c : CName) :
    t.apply (.delChain c) =
      if t.has c && !Table.isBuiltin c && !(t.any fun ch => ch.name = c && !ch.rules.isEmpty)
          && !t.referenced c
      then some (t.filter fun ch => ch.name ≠ c) else none := rfl
theorem Table.apply_insert (t : Table) (c : CName) (r : Rule) :
    t.apply (.insert c r) = if t.has c && t.tgtOk r then some (t.modify c fun rs => r :: rs) else none := rfl
theorem Table.apply_append (t : Table) (c : CName) (r : Rule) :
    t.apply (.append c r) = if t.has c && t.tgtOk r then some (t.modify c fun rs => rs ++ [r]) else none := rfl
theorem Table.apply_delete (t : Table) (c : CName) (r : Rule) :
    t.apply (.delete c r) =
      if t.any fun ch => ch.name = c && ch.rules.contains r
      then some (t.modify c fun rs => rs.erase r) else none := rfl

theorem Table.modify_append (a b : Table) (c : CName) (f : List Rule → List Rule) :
    Table.modify (a ++ b) c f = Table.modify a c f ++ Table.modify b c f := by
  simp [Table.modify]

section table
variable {p : Nat} {o : Opts} {T : Table}
variable (hC : ∀ ch ∈ T, ∀ k, ch.name ≠ CName.own k p)
variable (hR : ∀ ch ∈ T, ∀ r ∈ ch.rules, r.tgt ≠ Tgt.chain (.own .main p))

include hC in
theorem map_has_own (g : Chain → Chain) (hg : ∀ ch, (g ch).name = ch.name) (k : Kind) :
    Table.has (T.map g) (.own k p) = false := by
  unfold Table.has
  rw [List.any_map, List.any_eq_false]
  intro ch hch
  simp only [Function.comp, hg, decide_eq_true_eq]
  exact hC ch hch k

theorem map_has (g : Chain → Chain) (hg : ∀ ch, (g ch).name = ch.name) (c : CName) :
    Table.has (T.map g) c = T.has c := by
  unfold Table.has
  rw [List.any_map]
  congr 1
  funext ch
  simp [hg]

include hC in
theorem buildNat_has_main (v : NatView) :
    (buildNat p o T v).has (.own .main p) = v.chain.isSome := by
  unfold buildNat
  have h1 := map_has_own hC (natF p o v.out v.pre) (natF_name p o v.out v.pre) .main
  unfold Table.has at h1 ⊢
  rw [List.any_append, h1]
  cases v.chain <;> simp [ownChain]

include hC in
theorem buildNat_has_other (v : NatView) (k : Kind) (hk : k ≠ .main) :
    (buildNat p o T v).has (.own k p) = false := by
  unfold buildNat
  have h1 := map_has_own hC (natF p o v.out v.pre) (natF_name p o v.out v.pre) k
  unfold Table.has at h1 ⊢
  rw [List.any_append, h1]
  cases v.chain <;> simp [ownChain, Ne.symm hk]

theorem buildNat_has_builtin (v : NatView) (b : String) :
    (buildNat p o T v).has (.builtin b) = T.has (.builtin b) := by
  unfold buildNat
  have h1 := map_has (T := T) (natF p o v.out v.pre) (natF_name p o v.out v.pre) (.builtin b)
  unfold Table.has at h1 ⊢
  rw [List.any_append, h1]
  cases v.chain <;> simp [ownChain]

/-! #### effect of each command of the session on `buildNat` -/

include hC in
theorem modify_own_map (g : Chain → Chain) (hg : ∀ ch, (g ch).name = ch.name) (k : Kind)
    (f : List Rule → List Rule) : Table.modify (T.map g) (.own k p) f = T.map g := by
  unfold Table.modify
  rw [List.map_map]
  apply List.map_congr_left
  intro ch hch
  simp [Function.comp, hg, hC ch hch k]

include hC in
theorem apply_newChain (v : NatView) :
    (buildNat p o T v).apply (.newChain (.own .main p)) =
      if v.chain.isSome then none else some (buildNat p o T { v with chain := some [] }) := by
  rw [Table.apply_newChain, buildNat_has_main hC]
  cases hv : v.chain with
  | none => simp [buildNat, ownChain, hv]
  | some rs => simp

include hC in
theorem apply_flush (v : NatView) :
    (buildNat p o T v).apply (.flush (.own .main p)) =
      if v.chain.isSome then some (buildNat p o T { v with chain := some [] }) else none := by
  rw [Table.apply_flush, buildNat_has_main hC]
  cases hv : v.chain with
  | none => simp
  | some rs =>
    simp only [Option.isSome_some, if_true, Option.some.injEq]
    unfold buildNat
    rw [hv]
    rw [Table.modify_append, modify_own_map hC _ (natF_name p o v.out v.pre)]
    simp [ownChain, Table.modify]

include hC in
theorem apply_append_main (v : NatView) (r : Rule) (st' : Table)
    (h : (buildNat p o T v).apply (.append (.own .main p) r) = some st') :
    ∃ rs, st' = buildNat p o T { v with chain := some rs } := by
  rw [Table.apply_append, buildNat_has_main hC] at h
  cases hv : v.chain with
  | none => simp [hv] at h
  | some rs =>
    simp only [hv, Option.isSome_some, Bool.true_and] at h
    split at h
    · injection h with h
      refine ⟨rs ++ [r], ?_⟩
      rw [← h]
      unfold buildNat
      rw [hv]
      rw [Table.modify_append, modify_own_map hC _ (natF_name p o v.out v.pre)]
      simp [ownChain, Table.modify]
    · cases h

include hC in
theorem apply_append_other (v : NatView) (k : Kind) (hk : k ≠ .main) (r : Rule) :
    (buildNat p o T v).apply (.append (.own k p) r) = none := by
  rw [Table.apply_append, buildNat_has_other hC v k hk]
  simp

theorem delete_getD (t : Table) (c : CName) (r : Rule) :
    (t.apply (.delete c r)).getD t = t.modify c fun rs => rs.erase r := by
  rw [Table.apply_delete]
  split
  · rfl
  · next h =>
    simp only [Option.getD_none]
    unfold Table.modify
    symm
    conv => rhs; rw [← List.map_id t]
    apply List.map_congr_left
    intro ch hch
    have h' : (t.any fun ch => decide (ch.name = c) && ch.rules.contains r) = false := by
      simpa using h
    rw [List.any_eq_false] at h'
    have := h' ch hch
    by_cases hn : ch.name = c
    · simp only [hn, decide_true, Bool.true_and, List.contains_eq_mem, decide_eq_true_eq] at this
      subst hn
      simp [List.erase_of_not_mem this]
    · simp [hn]

theorem ownChain_modify_builtin (b : String) (x : Option (List Rule)) (f : List Rule → List Rule) :
    Table.modify (ownChain p x) (.builtin b) f = ownChain p x := by
  cases x <;> simp [ownChain, Table.modify]

include hR in
theorem jump_not_mem (ch : Chain) (hch : ch ∈ T) : natJump o p ∉ ch.rules := by
  intro h
  exact hR ch hch _ h rfl

theorem apply_insert_out (v : NatView) (hv : v.out = false) (st' : Table)
    (h : (buildNat p o T v).apply (.insert OUTPUT (natJump o p)) = some st') :
    st' = buildNat p o T { v with out := true } := by
  rw [Table.apply_insert] at h
  split at h
  · injection h with h
    rw [← h]
    unfold buildNat OUTPUT
    rw [Table.modify_append, ownChain_modify_builtin]
    congr 1
    unfold Table.modify
    rw [List.map_map]
    apply List.map_congr_left
    intro ch _
    simp only [Function.comp, natF_name, hv]
    unfold natF OUTPUT
    by_cases hn : ch.name = .builtin "OUTPUT" <;> simp [hn]
  · cases h

theorem apply_insert_pre (v : NatView) (hv : v.pre = false) (st' : Table)
    (h : (buildNat p o T v).apply (.insert PREROUTING (natJump o p)) = some st') :
    st' = buildNat p o T { v with pre := true } := by
  rw [Table.apply_insert] at h
  split at h
  · injection h with h
    rw [← h]
    unfold buildNat PREROUTING
    rw [Table.modify_append, ownChain_modify_builtin]
    congr 1
    unfold Table.modify
    rw [List.map_map]
    apply List.map_congr_left
    intro ch _
    simp only [Function.comp, natF_name, hv]
    unfold natF OUTPUT PREROUTING
    by_cases hn : ch.name = .builtin "OUTPUT"
    · simp [hn]
    · by_cases hn2 : ch.name = .builtin "PREROUTING" <;> simp [hn, hn2]
  · cases h

include hR in
theorem apply_delete_out (v : NatView) :
    ((buildNat p o T v).apply (.delete OUTPUT (natJump o p))).getD (buildNat p o T v) =
      buildNat p o T { v with out := false } := by
  rw [delete_getD]
  unfold buildNat OUTPUT
  rw [Table.modify_append, ownChain_modify_builtin]
  congr 1
  unfold Table.modify
  rw [List.map_map]
  apply List.map_congr_left
  intro ch hch
  have hj := jump_not_mem (o := o) hR ch hch
  simp only [Function.comp, natF_name]
  unfold natF OUTPUT
  by_cases hn : ch.name = .builtin "OUTPUT"
  · cases v.out <;> simp [hn, List.erase_of_not_mem hj]
  · simp [hn]

include hR in
theorem apply_delete_pre (v : NatView) :
    ((buildNat p o T v).apply (.delete PREROUTING (natJump o p))).getD (buildNat p o T v) =
      buildNat p o T { v with pre := false } := by
  rw [delete_getD]
  unfold buildNat PREROUTING
  rw [Table.modify_append, ownChain_modify_builtin]
  congr 1
  unfold Table.modify
  rw [List.map_map]
  apply List.map_congr_left
  intro ch hch
  have hj := jump_not_mem (o := o) hR ch hch
  simp only [Function.comp, natF_name]
  unfold natF OUTPUT PREROUTING
  by_cases hn : ch.name = .builtin "OUTPUT"
  · simp [hn]
  · by_cases hn2 : ch.name = .builtin "PREROUTING"
    · cases v.pre <;> simp [hn, hn2, List.erase_of_not_mem hj]
    · simp [hn, hn2]

include hC hR in
theorem apply_delChain (m : Bool) :
    (buildNat p o T ⟨some [], false, false, m⟩).apply (.delChain (.own .main p)) =
      some (buildNat p o T ⟨none, false, false, m⟩) := by
  rw [Table.apply_delChain, buildNat_has_main hC]
  unfold buildNat
  have hid : T.map (natF p o false false) = T := by
    have : natF p o false false = id := funext (natF_empty p o)
    rw [this]; simp
  simp only [hid, ownChain, List.append_nil]
  have h1 : (List.any (T ++ [⟨CName.own .main p, []⟩]) fun ch =>
      decide (ch.name = CName.own .main p) && !ch.rules.isEmpty) = false := by
    rw [List.any_eq_false]
    intro ch hch
    rcases List.mem_append.mp hch with h | h
    · simp [hC ch h .main]
    · simp at h; simp [h]
  have h2 : Table.referenced (T ++ [⟨CName.own .main p, []⟩]) (.own .main p) = false := by
    unfold Table.referenced
    rw [List.any_eq_false]
    intro ch hch
    rcases List.mem_append.mp hch with h | h
    · simp only [Bool.not_eq_true, List.any_eq_false, decide_eq_true_eq]
      intro r hr
      exact hR ch h r hr
    · simp at h; simp [h]
  have h3 : List.filter (fun ch => decide (ch.name ≠ CName.own .main p)) (T ++ [⟨CName.own .main p, []⟩]) = T := by
    rw [List.filter_append]
    have : List.filter (fun ch => decide (ch.name ≠ CName.own .main p)) T = T := by
      rw [List.filter_eq_self]
      intro ch hch
      simpa using hC ch hch .main
    rw [this]
    simp
  rw [h1, h2, h3]
  simp [Table.isBuiltin]

end table

section mangle
variable {p : Nat} {o : Opts} {T : Table}
variable (hM : ∀ ch ∈ T, natMarkRule o p ∉ ch.rules)

theorem apply_insert_mark (v : NatView) (hv : v.mark = false) (st' : Table)
    (h : (buildMangle p o T v).apply (.insert OUTPUT (natMarkRule o p)) = some st') :
    st' = buildMangle p o T { v with mark := true } := by
  rw [Table.apply_insert] at h
  split at h
  · injection h with h
    rw [← h]
    unfold buildMangle Table.modify
    rw [List.map_map]
    apply List.map_congr_left
    intro ch _
    simp only [Function.comp, mangleF_name, hv]
    unfold mangleF
    by_cases hn : ch.name = OUTPUT <;> simp [hn]
  · cases h

include hM in
theorem apply_delete_mark (v : NatView) :
    ((buildMangle p o T v).apply (.delete OUTPUT (natMarkRule o p))).getD (buildMangle p o T v) =
      buildMangle p o T { v with mark := false } := by
  rw [delete_getD]
  unfold buildMangle Table.modify
  rw [List.map_map]
  apply List.map_congr_left
  intro ch hch
  have hj := hM ch hch
  simp only [Function.comp, mangleF_name]
  unfold mangleF
  by_cases hn : ch.name = OUTPUT
  · cases v.mark <;> simp [hn, List.erase_of_not_mem hj]
  · simp [hn]

end mangle

end Sshuttle.Fw
