import SshuttleModel.Code.Handshake
namespace Sshuttle.Handshake
end Sshuttle.Handshake
