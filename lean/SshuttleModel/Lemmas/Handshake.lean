/-
Helper lemmas for the handshake part of C07: the unbuffered reader only ever exposes
the flattened byte stream.
-/
import SshuttleModel.Code.Handshake

namespace Sshuttle.Handshake

theorem norm_flatten (r : Reader) : (norm r).flatten = r.flatten := by
  induction r with
  | nil => rfl
  | cons c cs ih =>
    unfold norm; split
    next h => simp [ih, List.isEmpty_iff.mp h]
    · rfl

theorem norm_head_ne (r : Reader) : ∀ c cs, norm r = c :: cs → c ≠ [] := by
  induction r with
  | nil => intro c cs h; simp [norm] at h
  | cons d ds ih =>
    intro c cs h
    unfold norm at h; split at h
    · exact ih c cs h
    next hne =>
      injection h with h1 _
      subst h1
      intro he; subst he; simp at hne

/-- One `read(n)`: the bytes returned followed by what remains is the stream; at most `n`
bytes; empty only at end of stream (for `n ≥ 1`). -/
theorem read_spec (r : Reader) (n : Nat) :
    (read r n).1 ++ (read r n).2.flatten = r.flatten ∧ (read r n).1.length ≤ n ∧
    (1 ≤ n → ((read r n).1 = [] ↔ r.flatten = [])) ∧
    (read r n).1 = (r.flatten.take (read r n).1.length) := by
  unfold read
  have hf := norm_flatten r
  cases hn : norm r with
  | nil => rw [hn] at hf; simp [← hf]
  | cons c cs =>
    have hc := norm_head_ne r c cs hn
    rw [hn] at hf
    simp only [List.flatten_cons] at hf
    simp only
    refine ⟨?_, ?_, ?_, ?_⟩
    · rw [← hf]
      split
      next h =>
        have e := List.take_append_drop n c
        rw [List.isEmpty_iff.mp h, List.append_nil] at e
        rw [e]
      · simp [← List.append_assoc, List.take_append_drop]
    · simp [List.length_take]; omega
    · intro h1
      rw [← hf]
      constructor
      · intro h
        rcases List.take_eq_nil_iff.mp h with h0 | h0
        · omega
        · exact absurd h0 hc
      · intro h
        have := List.append_eq_nil_iff.mp h
        exact absurd this.1 hc
    · rw [← hf, List.take_append_of_le_length (by simp [List.length_take]; omega)]
      simp [List.take_take]

/-- Bytes after the first NUL of a stream (`none` if there is no NUL). -/
def afterNul : Bytes → Option Bytes
  | [] => none
  | b :: rest => if b = 0 then some rest else afterNul rest

theorem skipToNul_spec (fuel : Nat) (r : Reader) (h : r.flatten.length < fuel) :
    (skipToNul fuel r).map List.flatten = afterNul r.flatten := by
  induction fuel generalizing r with
  | zero => omega
  | succ fuel ih =>
    unfold skipToNul
    obtain ⟨h1, h2, h3, h4⟩ := read_spec r 1
    cases hv : (read r 1).1 with
    | nil =>
      have : r.flatten = [] := (h3 (Nat.le_refl 1)).mp hv
      have e : read r 1 = ([], (read r 1).2) := by rw [← hv]
      rw [e]; simp [this, afterNul]
    | cons b t =>
      have ht : t = [] := by
        rw [hv] at h2; simp at h2
        exact h2
      subst ht
      have e : read r 1 = ([b], (read r 1).2) := by rw [← hv]
      rw [hv] at h1
      rw [e]
      simp only
      rw [← h1]
      simp only [List.cons_append, List.nil_append, afterNul]
      split
      · simp
      · apply ih
        rw [← h1] at h; simp only [List.cons_append, List.nil_append, List.length_cons] at h; omega

theorem readExactly_spec (fuel : Nat) (r : Reader) (n : Nat) (acc : Bytes)
    (hf : n < fuel + acc.length) (ha : acc.length ≤ n) :
    let res := readExactly fuel r n acc
    res.1 ++ res.2.flatten = acc ++ r.flatten ∧
    res.1 = (acc ++ r.flatten).take n := by
  induction fuel generalizing r acc with
  | zero => simp only [Nat.zero_add] at hf; omega
  | succ fuel ih =>
    unfold readExactly
    by_cases hge : acc.length ≥ n
    · have : acc.length = n := by omega
      simp only [hge, ↓reduceIte]
      refine ⟨trivial, ?_⟩
      rw [List.take_append_of_le_length (by omega)]
      rw [← this]; simp
    · simp only [hge, ↓reduceIte]
      obtain ⟨h1, h2, h3, h4⟩ := read_spec r (n - acc.length)
      cases hv : (read r (n - acc.length)).1 with
      | nil =>
        have hr : r.flatten = [] := (h3 (by omega)).mp hv
        have e : read r (n - acc.length) = ([], (read r (n - acc.length)).2) := by rw [← hv]
        rw [e]
        simp only
        rw [hv] at h1
        simp only [List.nil_append] at h1
        refine ⟨by rw [h1], ?_⟩
        rw [hr, List.append_nil, List.take_of_length_le (by omega)]
      | cons b t =>
        have e : read r (n - acc.length) = (b :: t, (read r (n - acc.length)).2) := by rw [← hv]
        rw [e]
        simp only
        rw [hv] at h1 h2
        have hlen : (acc ++ b :: t).length ≤ n := by
          simp only [List.length_append]; omega
        have := ih (read r (n - acc.length)).2 (acc ++ b :: t)
          (by simp only [List.length_append, List.length_cons] at hlen ⊢; omega) hlen
        simp only at this
        obtain ⟨g1, g2⟩ := this
        refine ⟨?_, ?_⟩
        · rw [g1, List.append_assoc, h1]
        · rw [g2, List.append_assoc, h1]

end Sshuttle.Handshake
