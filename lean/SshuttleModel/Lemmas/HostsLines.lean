/-
Lemmas about lines: reading back what was written (`lines (unlines ls) = ls` for trimmed
lists), the marker, host lines, and which lines are own to which port.
-/
import SshuttleModel.Lemmas.HostsText

namespace Sshuttle.Hosts

/-! ### reading back -/

theorem lines_none : lines none = [[]] := rfl

theorem lines_trimmed (c : Option Text) : Trimmed (lines c) := by
  cases c with
  | none => exact ⟨by simp [lines], Or.inl rfl⟩
  | some t =>
    simp only [lines]
    refine ⟨fun l hl => ⟨splitNl_mem_noNl hl, ?_⟩, ?_⟩
    · intro h13
      -- every character of a piece is a character of the stripped text
      have hsub : ∀ (s : Text) (x : Text), x ∈ splitNl s → ∀ ch ∈ x, ch ∈ s := by
        intro s
        induction s with
        | nil => intro x hx ch hch; simp [splitNl] at hx; subst hx; simp at hch
        | cons c cs ih =>
          intro x hx ch hch
          unfold splitNl at hx
          split at hx
          · rcases List.mem_cons.mp hx with h | h
            · subst h; simp at hch
            · exact List.mem_cons_of_mem _ (ih x h ch hch)
          · split at hx
            · next he => exact absurd he (splitNl_ne_nil cs)
            · next l' ls he =>
              rcases List.mem_cons.mp hx with h | h
              · subst h
                rcases List.mem_cons.mp hch with h | h
                · simp [h]
                · exact List.mem_cons_of_mem _ (ih l' (by simp [he]) ch h)
              · exact List.mem_cons_of_mem _ (ih x (by simp [he, h]) ch hch)
      exact normNl_no_cr t (mem_rstrip (hsub _ l hl 13 h13))
    · rcases rstrip_cases (normNl t) with h | ⟨body, c, h, hc⟩
      · left; rw [h]; rfl
      · right
        rw [h]
        have hc10 : 10 ∉ [c] := by
          simp only [List.mem_singleton]
          intro e; subst e; simp [isSpace_nl] at hc
        obtain ⟨init, l, _, h2⟩ := splitNl_append_noNl body hc10
        exact ⟨init, l, c, h2, hc⟩

theorem unlines_snoc (init : List Text) (l : Text) : unlines (init ++ [l]) = unlines init ++ l ++ [10] := by
  simp [unlines]

theorem lines_unlines {ls : List Text} (h : Trimmed ls) : lines (some (unlines ls)) = ls := by
  obtain ⟨hbr, hlast⟩ := h
  have h13 : 13 ∉ unlines ls := by
    simp only [unlines, List.mem_flatMap, List.mem_append, List.mem_singleton, not_exists, not_and, not_or]
    intro l hl
    exact ⟨(hbr l hl).2, by decide⟩
  simp only [lines, normNl_id h13]
  rcases hlast with h | ⟨init, body, c, h, hc⟩
  · subst h
    have : unlines [[]] = [] ++ [10] := rfl
    rw [this, rstrip_append_space [] (by simp [isSpace_nl])]
    rfl
  · subst h
    rw [unlines_snoc, rstrip_append_space _ (by simp [isSpace_nl]), ← List.append_assoc,
      rstrip_snoc_nonspace _ hc, List.append_assoc]
    exact splitNl_unlines_append (fun l hl => (hbr l (by simp [hl])).1) (hbr _ (by simp)).1

/-- A list of break-free lines whose last one ends in a non-space character is trimmed. -/
theorem trimmed_append {a b : List Text} (ha : ∀ l ∈ a, 10 ∉ l ∧ 13 ∉ l)
    (hb : ∀ l ∈ b, (10 ∉ l ∧ 13 ∉ l) ∧ ∃ body c, l = body ++ [c] ∧ isSpace c = false) (hne : b ≠ []) :
    Trimmed (a ++ b) := by
  refine ⟨fun l hl => ?_, Or.inr ?_⟩
  · rcases List.mem_append.mp hl with h | h
    · exact ha l h
    · exact (hb l h).1
  · obtain ⟨binit, blast, rfl⟩ : ∃ bi bl, b = bi ++ [bl] := by
      exact ⟨b.dropLast, b.getLast hne, (List.dropLast_concat_getLast hne).symm⟩
    obtain ⟨body, c, h, hc⟩ := (hb blast (by simp)).2
    exact ⟨a ++ binit, body, c, by simp [h], hc⟩

/-! ### decimal rendering -/

theorem decimal_digits {n c : Nat} (h : c ∈ decimal n) : 48 ≤ c ∧ c ≤ 57 := by
  simp only [decimal, List.mem_map] at h
  obtain ⟨ch, hch, rfl⟩ := h
  have := Nat.isDigit_of_mem_toDigits (by decide) (by decide) hch
  simp only [Char.isDigit, Bool.and_eq_true, decide_eq_true_eq] at this
  have a := UInt32.le_iff_toNat_le.mp this.1
  have b := UInt32.le_iff_toNat_le.mp this.2
  have h0 : ('0' : Char).val.toNat = 48 := by decide
  have h9 : ('9' : Char).val.toNat = 57 := by decide
  rw [h0] at a
  rw [h9] at b
  exact ⟨a, b⟩

theorem decimal_inj {m n : Nat} (h : decimal m = decimal n) : m = n := by
  have hinj : Function.Injective Char.toNat := by
    intro a b hab
    exact Char.ext (UInt32.toNat_inj.mp hab)
  have h' : Nat.toDigits 10 m = Nat.toDigits 10 n := (List.map_inj_right (fun x y hxy => hinj hxy)).mp h
  have := congrArg (fun l => Nat.ofDigitChars 10 l 0) h'
  simpa [Nat.ofDigitChars_ten_toDigits] using this

end Sshuttle.Hosts
