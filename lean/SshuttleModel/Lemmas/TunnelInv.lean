/-
The per-flow, per-direction invariant `DirInv` lifted to the whole `World`, and its
preservation by every step of every flow (C01/C02/C08 backbone).
-/
import SshuttleModel.Lemmas.WrapGrows

namespace Sshuttle.Tunnel
open Sshuttle.Mux (Frame)
open Sshuttle.Wrap

/-! ### views of a flow inside the world -/

def goneSrc (ever : Bool) (out : List Frame) (consumed : Bytes) : SrcV :=
  { present := false, ever := ever, buf := [], shutR := true, mwShutW := true, ownShutW := ever, out := out,
    consumed := consumed }

def goneSink (ever : Bool) (e : ESock) : SinkV :=
  { present := false, ever := ever, buf := [], mwShutR := true, swShutW := true, ok := false,
    delivered := e.delivered, sawShut := e.sawShut }

def upSrc (cm : MuxL) (f : Flow) : SrcV :=
  match f.c with
  | some p => SV p.sw p.mw cm f.app
  | none => goneSrc true cm.out f.app.consumed

def upSink (f : Flow) : SinkV :=
  match f.s with
  | some p => KV p.sw p.mw p.ok f.dst
  | none => goneSink f.sEver f.dst

def downSrc (sm : MuxL) (f : Flow) : SrcV :=
  match f.s with
  | some p => SV p.sw p.mw sm f.dst
  | none => goneSrc f.sEver sm.out f.dst.consumed

def downSink (f : Flow) : SinkV :=
  match f.c with
  | some p => KV p.sw p.mw p.ok f.app
  | none => goneSink true f.app

structure FlowOK (cm sm : MuxL) (f : Flow) : Prop where
  up    : DirInv f.chan (upSrc cm f) (upSink f)
  down  : DirInv f.chan (downSrc sm f) (downSink f)
  cchan : ∀ p, f.c = some p → p.mw.chan = f.chan ∧ p.sockFirst = true
  schan : ∀ p, f.s = some p → p.mw.chan = f.chan ∧ p.sockFirst = false ∧ f.sEver = true

def isStreamCmd (cmd : Nat) : Bool := cmd == DATA || cmd == EOF || cmd == STOP || cmd == CONNECT

/-- Every stream / CONNECT frame in a queue belongs to the channel of some flow of the world. -/
def Owned (cs : List Nat) (q : List Frame) : Prop :=
  ∀ fr ∈ q, isStreamCmd fr.cmd = true → fr.chan ∈ cs

def chans (w : World) : List Nat := w.flows.map (·.chan)

structure WInv (w : World) : Prop where
  flows  : ∀ (i : Nat) (f : Flow), w.flows[i]? = some f → FlowOK w.cm w.sm f
  ownedC : Owned (chans w) w.cm.out
  ownedS : Owned (chans w) w.sm.out

/-! ### list helpers -/

theorem modifyAt_getElem? {α : Type} (l : List α) (i j : Nat) (g : α → α) :
    (modifyAt l i g)[j]? = if j = i then (l[j]?).map g else l[j]? := by
  induction l generalizing i j with
  | nil => simp [modifyAt]
  | cons a rest ih =>
    cases i with
    | zero =>
      cases j with
      | zero => simp [modifyAt]
      | succ j => simp [modifyAt]
    | succ i =>
      cases j with
      | zero => simp [modifyAt]
      | succ j => simp [modifyAt, ih]

theorem modifyAt_length {α : Type} (l : List α) (i : Nat) (g : α → α) : (modifyAt l i g).length = l.length := by
  induction l generalizing i with
  | nil => simp [modifyAt]
  | cons a rest ih => cases i <;> simp [modifyAt, ih]

theorem modifyAt_map_chan (l : List Flow) (i : Nat) (g : Flow → Flow) (hg : ∀ f, (g f).chan = f.chan) :
    (modifyAt l i g).map (·.chan) = l.map (·.chan) := by
  induction l generalizing i with
  | nil => simp [modifyAt]
  | cons a rest ih => cases i <;> simp [modifyAt, ih, hg]

theorem nodup_chan_ne {l : List Flow} (h : (l.map (·.chan)).Nodup) {i j : Nat} {f g : Flow}
    (hi : l[i]? = some f) (hj : l[j]? = some g) (hne : i ≠ j) : f.chan ≠ g.chan := by
  induction l generalizing i j with
  | nil => simp at hi
  | cons a rest ih =>
    simp only [List.map_cons, List.nodup_cons, List.mem_map, not_exists, not_and] at h
    cases i with
    | zero =>
      cases j with
      | zero => exact absurd rfl hne
      | succ j =>
        simp only [List.getElem?_cons_zero, Option.some.injEq] at hi
        simp only [List.getElem?_cons_succ] at hj
        subst hi
        intro hc
        exact h.1 g (List.mem_of_getElem? hj) hc.symm
    | succ i =>
      cases j with
      | zero =>
        simp only [List.getElem?_cons_zero, Option.some.injEq] at hj
        simp only [List.getElem?_cons_succ] at hi
        subst hj
        intro hc
        exact h.1 f (List.mem_of_getElem? hi) hc
      | succ j =>
        simp only [List.getElem?_cons_succ] at hi hj
        exact ih h.2 hi hj (by omega)

/-! ### a flow does not see the frames of other channels -/

theorem FlowOK.ofViews {cm sm cm' sm' : MuxL} {f f' : Flow}
    (hup : DirInv f'.chan (upSrc cm' f') (upSink f')) (hdown : DirInv f'.chan (downSrc sm' f') (downSink f'))
    (hc : ∀ p, f'.c = some p → p.mw.chan = f'.chan ∧ p.sockFirst = true)
    (hs : ∀ p, f'.s = some p → p.mw.chan = f'.chan ∧ p.sockFirst = false ∧ f'.sEver = true) :
    FlowOK cm' sm' f' := ⟨hup, hdown, hc, hs⟩

theorem upSrc_out (cm : MuxL) (f : Flow) : (upSrc cm f).out = cm.out := by
  unfold upSrc; split <;> rfl

theorem downSrc_out (sm : MuxL) (f : Flow) : (downSrc sm f).out = sm.out := by
  unfold downSrc; split <;> rfl

theorem upSrc_setOut (cm cm' : MuxL) (f : Flow) :
    upSrc cm' f = { upSrc cm f with out := cm'.out } := by
  unfold upSrc; split <;> rfl

theorem downSrc_setOut (sm sm' : MuxL) (f : Flow) :
    downSrc sm' f = { downSrc sm f with out := sm'.out } := by
  unfold downSrc; split <;> rfl

/-- Appending frames that are foreign to `c` to the source queue. -/
theorem DirInv.appendForeign {c : Nat} {a : SrcV} {b : SinkV} (h : DirInv c a b) (extra : List Frame)
    (hf : ∀ fr ∈ extra, Foreign c fr) : DirInv c { a with out := a.out ++ extra } b := by
  induction extra generalizing a with
  | nil => simpa using h
  | cons x xs ih =>
    have h1 := h.srcStep (SrcStep.foreign a x (hf x (by simp)))
    have h2 := ih h1 (fun fr hfr => hf fr (by simp [hfr]))
    simpa [List.append_assoc] using h2

theorem FlowOK.appendC {cm sm cm' : MuxL} {f : Flow} (h : FlowOK cm sm f) (extra : List Frame)
    (he : cm'.out = cm.out ++ extra) (hf : ∀ fr ∈ extra, Foreign f.chan fr) : FlowOK cm' sm f := by
  refine ⟨?_, h.down, h.cchan, h.schan⟩
  rw [upSrc_setOut cm cm', he, ← upSrc_out cm f]
  exact h.up.appendForeign extra hf

theorem FlowOK.appendS {cm sm sm' : MuxL} {f : Flow} (h : FlowOK cm sm f) (extra : List Frame)
    (he : sm'.out = sm.out ++ extra) (hf : ∀ fr ∈ extra, Foreign f.chan fr) : FlowOK cm sm' f := by
  refine ⟨h.up, ?_, h.cchan, h.schan⟩
  rw [downSrc_setOut sm sm', he, ← downSrc_out sm f]
  exact h.down.appendForeign extra hf

theorem FlowOK.popC {cm sm cm' : MuxL} {f : Flow} (h : FlowOK cm sm f) (fr : Frame)
    (he : cm.out = fr :: cm'.out) (hf : Foreign f.chan fr) : FlowOK cm' sm f := by
  refine ⟨?_, h.down, h.cchan, h.schan⟩
  rw [upSrc_setOut cm cm']
  exact h.up.pop fr cm'.out (by rw [upSrc_out]; exact he) hf.notData
    (fun hc => by rw [hf.2] at hc; cases hc) (fun hh => by rw [hf.notEof] at hh; cases hh)

theorem FlowOK.popS {cm sm sm' : MuxL} {f : Flow} (h : FlowOK cm sm f) (fr : Frame)
    (he : sm.out = fr :: sm'.out) (hf : Foreign f.chan fr) : FlowOK cm sm' f := by
  refine ⟨h.up, ?_, h.cchan, h.schan⟩
  rw [downSrc_setOut sm sm']
  exact h.down.pop fr sm'.out (by rw [downSrc_out]; exact he) hf.notData
    (fun hc => by rw [hf.2] at hc; cases hc) (fun hh => by rw [hf.notEof] at hh; cases hh)

theorem foreign_of_cmd {c : Nat} {fr : Frame} (h : isStreamCmd fr.cmd = false) : Foreign c fr := by
  simp only [isStreamCmd, Bool.or_eq_false_iff, beq_eq_false_iff_ne] at h
  obtain ⟨⟨⟨h1, h2⟩, h3⟩, h4⟩ := h
  constructor
  · simp [isStream, h1, h2, h3]
  · simp [isConnect, h4]

theorem FlowOK.congrS {cm sm sm' : MuxL} {f : Flow} (h : FlowOK cm sm f) (he : sm'.out = sm.out) :
    FlowOK cm sm' f := h.appendS [] (by simp [he]) (by simp)

theorem FlowOK.congrC {cm sm cm' : MuxL} {f : Flow} (h : FlowOK cm sm f) (he : cm'.out = cm.out) :
    FlowOK cm' sm f := h.appendC [] (by simp [he]) (by simp)

theorem Owned.append {cs : List Nat} {q extra : List Frame} (h : Owned cs q)
    (he : ∀ fr ∈ extra, isStreamCmd fr.cmd = true → fr.chan ∈ cs) : Owned cs (q ++ extra) := by
  intro fr hfr hs
  rcases List.mem_append.mp hfr with h1 | h1
  · exact h fr h1 hs
  · exact he fr h1 hs

theorem Owned.tail {cs : List Nat} {fr : Frame} {q : List Frame} (h : Owned cs (fr :: q)) : Owned cs q :=
  fun x hx hs => h x (by simp [hx]) hs

theorem Owned.mono {cs cs' : List Nat} {q : List Frame} (h : Owned cs q) (hs : ∀ c ∈ cs, c ∈ cs') :
    Owned cs' q := fun fr hfr hc => hs _ (h fr hfr hc)

theorem getElem?_chan_mem {l : List Flow} {i : Nat} {f : Flow} (h : l[i]? = some f) :
    f.chan ∈ l.map (·.chan) := List.mem_map.mpr ⟨f, List.mem_of_getElem? h, rfl⟩

/-! ### a client-side operation on flow `i` -/

theorem WInv.actC {w : World} (hw : WInv w) (hn : (chans w).Nodup) (i : Nat) (f : Flow) (p p' : ProxyS)
    (m' : MuxL) (e' : ESock) (hi : w.flows[i]? = some f) (hc : f.c = some p)
    (hok : POk p w.cm f.app p' m' e') (hg : Grows p.mw.chan w.cm m') :
    WInv { w with cm := m', flows := modifyAt w.flows i fun f => { f with c := some p', app := e' } } := by
  have hfi := hw.flows i f hi
  have hpc := (hfi.cchan p hc).1
  obtain ⟨extra, hex, hech⟩ := hg
  have hchans : chans { w with cm := m', flows := modifyAt w.flows i fun f => { f with c := some p', app := e' } }
      = chans w := by
    unfold chans; exact modifyAt_map_chan _ _ _ (fun _ => rfl)
  refine ⟨?_, ?_, ?_⟩
  · intro j g hj
    simp only [modifyAt_getElem?] at hj
    by_cases hji : j = i
    · subst hji
      rw [if_pos rfl, hi] at hj
      simp only [Option.map_some, Option.some.injEq] at hj
      subst hj
      refine ⟨?_, ?_, ?_, hfi.schan⟩
      · have hu := hfi.up
        simp only [upSrc, hc] at hu
        have := hu.srcStar (by rw [← hpc]; exact srcStar_lift _ hok.1.src)
        simpa [upSrc, upSink] using this
      · have hd := hfi.down
        simp only [downSink, hc] at hd
        have := hd.sinkStar hok.1.sink
        simpa [downSrc, downSink] using this
      · intro q hq
        simp only [Option.some.injEq] at hq
        subst hq
        exact ⟨hok.1.chan.trans hpc, hok.2.trans (hfi.cchan p hc).2⟩
    · rw [if_neg hji] at hj
      have hgj := hw.flows j g hj
      have hne : g.chan ≠ f.chan := nodup_chan_ne hn hj hi hji
      refine hgj.appendC extra hex ?_
      intro fr hfr
      exact foreign_of_chan_ne (by rw [hech fr hfr, hpc]; exact fun h => hne h.symm)
  · rw [hchans]
    show Owned (chans w) m'.out
    rw [hex]
    exact hw.ownedC.append (fun fr hfr _ => by rw [hech fr hfr, hpc]; exact getElem?_chan_mem hi)
  · rw [hchans]; exact hw.ownedS

theorem WInv.actS {w : World} (hw : WInv w) (hn : (chans w).Nodup) (i : Nat) (f : Flow) (p p' : ProxyS)
    (m' : MuxL) (e' : ESock) (hi : w.flows[i]? = some f) (hc : f.s = some p)
    (hok : POk p w.sm f.dst p' m' e') (hg : Grows p.mw.chan w.sm m') :
    WInv { w with sm := m', flows := modifyAt w.flows i fun f => { f with s := some p', dst := e' } } := by
  have hfi := hw.flows i f hi
  have hpc := (hfi.schan p hc).1
  obtain ⟨extra, hex, hech⟩ := hg
  have hchans : chans { w with sm := m', flows := modifyAt w.flows i fun f => { f with s := some p', dst := e' } }
      = chans w := by
    unfold chans; exact modifyAt_map_chan _ _ _ (fun _ => rfl)
  refine ⟨?_, ?_, ?_⟩
  · intro j g hj
    simp only [modifyAt_getElem?] at hj
    by_cases hji : j = i
    · subst hji
      rw [if_pos rfl, hi] at hj
      simp only [Option.map_some, Option.some.injEq] at hj
      subst hj
      refine ⟨?_, ?_, hfi.cchan, ?_⟩
      · have hu := hfi.up
        simp only [upSink, hc] at hu
        have := hu.sinkStar hok.1.sink
        simpa [upSrc, upSink] using this
      · have hd := hfi.down
        simp only [downSrc, hc] at hd
        have := hd.srcStar (by rw [← hpc]; exact srcStar_lift _ hok.1.src)
        simpa [downSrc, downSink] using this
      · intro q hq
        simp only [Option.some.injEq] at hq
        subst hq
        exact ⟨hok.1.chan.trans hpc, hok.2.trans (hfi.schan p hc).2.1, (hfi.schan p hc).2.2⟩
    · rw [if_neg hji] at hj
      have hgj := hw.flows j g hj
      have hne : g.chan ≠ f.chan := nodup_chan_ne hn hj hi hji
      refine hgj.appendS extra hex ?_
      intro fr hfr
      exact foreign_of_chan_ne (by rw [hech fr hfr, hpc]; exact fun h => hne h.symm)
  · rw [hchans]; exact hw.ownedC
  · rw [hchans]
    show Owned (chans w) m'.out
    rw [hex]
    exact hw.ownedS.append (fun fr hfr _ => by rw [hech fr hfr, hpc]; exact getElem?_chan_mem hi)

/-! ### dispatch of a data-type frame -/

theorem dispatch_spec (e : End) (flows : List Flow) (fr : Frame) :
    ((dispatch e flows fr).2 = true ∧ (dispatch e flows fr).1 = flows) ∨
    ((dispatch e flows fr).2 = false ∧ (dispatch e flows fr).1 = flows ∧
      ∀ (j : Nat) (g : Flow), flows[j]? = some g → g.chan = fr.chan →
        ∀ p, handlerAt e g = some p → p.mw.registered = false) ∨
    ((dispatch e flows fr).2 = false ∧ ∃ (i : Nat) (f : Flow) (p : ProxyS) (w' : MuxW),
      flows[i]? = some f ∧ f.chan = fr.chan ∧ handlerAt e f = some p ∧ p.mw.registered = true ∧
      p.mw.gotPacket fr.cmd fr.data = .ok w' ∧
      (dispatch e flows fr).1 = modifyAt flows i (fun f => setHandler e f { p with mw := w' })) := by
  induction flows with
  | nil =>
    right; left
    exact ⟨rfl, rfl, fun j g hj => by simp at hj⟩
  | cons f rest ih =>
    unfold dispatch
    cases hh : handlerAt e f with
    | none =>
      simp only [hh]
      rcases ih with ⟨h1, h2⟩ | ⟨h1, h2, h3⟩ | ⟨h1, i, g, p, w', h2, h3, h4, h5, h6, h7⟩
      · left; exact ⟨h1, by rw [h2]⟩
      · right; left
        refine ⟨h1, by rw [h2], ?_⟩
        intro j g hj hc p hp
        cases j with
        | zero =>
          simp only [List.getElem?_cons_zero, Option.some.injEq] at hj
          subst hj; rw [hh] at hp; cases hp
        | succ j => exact h3 j g (by simpa using hj) hc p hp
      · right; right
        refine ⟨h1, i + 1, g, p, w', by simpa using h2, h3, h4, h5, h6, ?_⟩
        simp only [modifyAt]; rw [h7]
    | some p =>
      simp only [hh]
      by_cases hc : (f.chan == fr.chan && p.mw.registered) = true
      · simp only [hc, ↓reduceIte]
        simp only [Bool.and_eq_true, beq_iff_eq] at hc
        cases hg : p.mw.gotPacket fr.cmd fr.data with
        | died => left; exact ⟨rfl, rfl⟩
        | ok w' =>
          right; right
          refine ⟨rfl, 0, f, p, w', rfl, hc.1, hh, hc.2, hg, ?_⟩
          simp only [modifyAt]
      · simp only [hc, Bool.false_eq_true, ↓reduceIte]
        rcases ih with ⟨h1, h2⟩ | ⟨h1, h2, h3⟩ | ⟨h1, i, g, q, w', h2, h3, h4, h5, h6, h7⟩
        · left; exact ⟨h1, by rw [h2]⟩
        · right; left
          refine ⟨h1, by rw [h2], ?_⟩
          intro j g hj hcg q hq
          cases j with
          | zero =>
            simp only [List.getElem?_cons_zero, Option.some.injEq] at hj
            subst hj
            rw [hh] at hq
            injection hq with hq; subst hq
            simp only [Bool.and_eq_true, beq_iff_eq, not_and] at hc
            cases hr : p.mw.registered with
            | false => rfl
            | true => exact absurd hr (hc hcg)
          | succ j => exact h3 j g (by simpa using hj) hcg q hq
        · right; right
          refine ⟨h1, i + 1, g, q, w', by simpa using h2, h3, h4, h5, h6, ?_⟩
          simp only [modifyAt]; rw [h7]

/-! ### endpoint-only events, and a freshly accepted flow -/

theorem FlowOK.envApp {cm sm : MuxL} {f : Flow} (h : FlowOK cm sm f) (e' : ESock)
    (hc : e'.consumed = f.app.consumed) (hd : e'.delivered = f.app.delivered)
    (hs : e'.sawShut = f.app.sawShut) : FlowOK cm sm { f with app := e' } := by
  have e1 : upSrc cm { f with app := e' } = upSrc cm f := by
    unfold upSrc; split <;> simp_all [SV, goneSrc]
  have e2 : downSink { f with app := e' } = downSink f := by
    unfold downSink; split <;> simp_all [KV, goneSink]
  exact ⟨by rw [e1]; exact h.up, by rw [e2]; exact h.down, h.cchan, h.schan⟩

theorem FlowOK.envDst {cm sm : MuxL} {f : Flow} (h : FlowOK cm sm f) (e' : ESock)
    (hc : e'.consumed = f.dst.consumed) (hd : e'.delivered = f.dst.delivered)
    (hs : e'.sawShut = f.dst.sawShut) : FlowOK cm sm { f with dst := e' } := by
  have e1 : upSink { f with dst := e' } = upSink f := by
    unfold upSink; split <;> simp_all [KV, goneSink]
  have e2 : downSrc sm { f with dst := e' } = downSrc sm f := by
    unfold downSrc; split <;> simp_all [SV, goneSrc]
  exact ⟨by rw [e1]; exact h.up, by rw [e2]; exact h.down, h.cchan, h.schan⟩

theorem nConnect_of_owned {cs : List Nat} {q : List Frame} {c : Nat} (h : Owned cs q) (hc : c ∉ cs) :
    nConnect c q = 0 := by
  apply nConnect_zero_of
  intro fr hfr
  cases hs : isConnect c fr with
  | false => rfl
  | true =>
    exfalso
    simp only [isConnect, Bool.and_eq_true, beq_iff_eq] at hs
    have : isStreamCmd fr.cmd = true := by
      simp only [isStreamCmd, Bool.or_eq_true, beq_iff_eq]
      exact Or.inr hs.2
    have := h fr hfr this
    rw [hs.1] at this
    exact hc this

theorem noStream_of_owned {cs : List Nat} {q : List Frame} {c : Nat} (h : Owned cs q) (hc : c ∉ cs) :
    noStream c q := by
  intro fr hfr
  cases hs : isStream c fr with
  | false => rfl
  | true =>
    exfalso
    simp only [isStream, Bool.and_eq_true, beq_iff_eq, Bool.or_eq_true] at hs
    have : isStreamCmd fr.cmd = true := by
      simp only [isStreamCmd, Bool.or_eq_true, beq_iff_eq]
      rcases hs.2 with (h1 | h1) | h1
      · exact Or.inl (Or.inl (Or.inl h1))
      · exact Or.inl (Or.inl (Or.inr h1))
      · exact Or.inl (Or.inr h1)
    have := h fr hfr this
    rw [hs.1] at this
    exact hc this

theorem eofClean_of_noStream (c : Nat) (q : List Frame) (h : noStream c q) : eofClean c q := by
  induction q with
  | nil => trivial
  | cons fr rest ih =>
    refine ⟨fun _ => dataOf_noStream c rest (noStream_tail _ _ _ h), ih (noStream_tail _ _ _ h)⟩

theorem FlowOK.fresh (cm sm cm' : MuxL) (c : Nat) (p : ProxyS)
    (hp : p = { sw := {}, mw := { chan := c }, sockFirst := true })
    (hcm : cm'.out = cm.out ++ [⟨c, CONNECT, []⟩]) (h1 : noStream c cm.out) (h2 : noStream c sm.out)
    (k1 : nConnect c cm.out = 0) (k2 : nConnect c sm.out = 0) :
    FlowOK cm' sm { chan := c, c := some p } := by
  subst hp
  have hcd : isData c ⟨c, CONNECT, []⟩ = false := by
    simp [isData]; exact fun h => absurd h.symm cmds_distinct.2.2.1
  have hce : isEof c ⟨c, CONNECT, []⟩ = false := by
    simp [isEof]; exact fun h => absurd h.symm cmds_distinct.2.2.2.2.1
  have hdo : dataOf c cm'.out = [] := by
    rw [hcm, dataOf_append, dataOf_noStream c _ h1, dataOf_single_other _ _ hcd]; rfl
  have hne : hasEof c cm'.out = false := by
    rw [hcm, hasEof_append, hasEof_noStream c _ h1]; simp [hasEof, hce]
  refine ⟨?_, ?_, ?_, ?_⟩
  · refine { pre := ?_, exact := ?_, shutOk := ?_, conn := ?_, fresh := ?_, clean := ?_, eofNM := ?_,
             gone := ?_, dead := ?_, srcBuf := ?_, snkBuf := ?_, srcEv := ?_, snkEv := ?_, goneShut := ?_,
             nl1 := ?_, stopOk := ?_, connOk := ?_, eofSeen := ?_ }
    all_goals simp only [upSrc, upSink, SV, goneSink]
    · exact List.prefix_refl _
    · right; simp [hdo]
    · intro h; cases h
    · intro _; exact ⟨trivial, by rw [hcm]; exact connectAhead_of_noStream c _ [] h1⟩
    · intro h; cases h
    · rw [hcm]
      exact eofClean_append_noData _ _ _ (eofClean_of_noStream c _ h1) (eofClean_single _ _)
        (fun _ => dataOf_single_other _ _ hcd)
    · intro h; rw [hne] at h; cases h
    · intro h; cases h
    · intro h; cases h
    · intro h; cases h
    · intro _; trivial
    · intro _; trivial
    · intro h; cases h
    · intro h; cases h
    · intro _ _ h; cases h
    · intro hh
      have hcs : isStop c ⟨c, CONNECT, []⟩ = false := by
        simp [isStop]; exact fun h => absurd h.symm cmds_distinct.2.2.2.2.2
      rw [hcm, hasStop_append, hasStop_noStream c _ h1] at hh
      simp [hasStop, hcs] at hh
    · right
      refine ⟨?_, trivial⟩
      rw [hcm, nConnect_append, k1, nConnect_single]
      simp [isConnect]
    · intro nm
      rcases nm.2 with h' | ⟨h', _, _⟩ <;> cases h'
  · refine { pre := ?_, exact := ?_, shutOk := ?_, conn := ?_, fresh := ?_, clean := ?_, eofNM := ?_,
             gone := ?_, dead := ?_, srcBuf := ?_, snkBuf := ?_, srcEv := ?_, snkEv := ?_, goneShut := ?_,
             nl1 := ?_, stopOk := ?_, connOk := ?_, eofSeen := ?_ }
    all_goals simp only [downSrc, downSink, KV, goneSrc]
    · exact List.prefix_refl _
    · right; simp [dataOf_noStream c _ h2]
    · intro _ h; cases h
    · intro h; cases h
    · intro _; exact ⟨trivial, trivial, h2⟩
    · exact eofClean_of_noStream c _ h2
    · intro h; rw [hasEof_noStream c _ h2] at h; cases h
    · intro _ h; rcases h with h | h <;> cases h
    · intro _ h; cases h
    · intro _; trivial
    · intro h; cases h
    · intro h; cases h
    · intro _; trivial
    · intro _ h; cases h
    · intro _ h; cases h
    · intro hh; rw [hasStop_noStream c _ h2] at hh; cases hh
    · exact Or.inl k2
    · intro nm
      have := nm.1
      cases this
  · intro q hq
    simp only [Option.some.injEq] at hq
    subst hq; exact ⟨rfl, rfl⟩
  · intro q hq; cases hq

end Sshuttle.Tunnel
