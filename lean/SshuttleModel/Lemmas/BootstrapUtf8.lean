/-
Helper lemmas for C18, part 4: the UTF-8 encoder of `optdata.encode("UTF8")` followed by
the strict decoder of the remote `compile` is the identity.
-/
import SshuttleModel.Code.Bootstrap

namespace Sshuttle.Bootstrap

theorem isCont_mk (x : Nat) (h : x < 64) : isCont (128 + x) = true := by
  simp [isCont]; omega

theorem decodeUtf8_char (c : Nat) (bs : Bytes) (h : utf8Char c = some bs) (fuel : Nat) (tail : Bytes) :
    decodeUtf8 (fuel + 1) (bs ++ tail) = (decodeUtf8 fuel tail).map (c :: ·) := by
  unfold utf8Char at h
  split at h
  next h1 =>
    injection h with h; subst h
    simp [decodeUtf8, h1]
  next h1 =>
    split at h
    next h2 =>
      injection h with h; subst h
      have a1 : ¬ (192 + c / 64 < 128) := by omega
      have a2 : 194 ≤ 192 + c / 64 ∧ 192 + c / 64 < 224 := by omega
      have a3 := isCont_mk (c % 64) (Nat.mod_lt _ (by omega))
      have hv : (192 + c / 64 - 192) * 64 + (128 + c % 64 - 128) = c := by omega
      simp only [List.cons_append, List.nil_append, decodeUtf8, a1, a2, a3, and_self, ↓reduceIte, hv]
    next h2 =>
      split at h
      next h3 => cases h
      next h3 =>
        split at h
        next h4 =>
          injection h with h; subst h
          have a1 : ¬ (224 + c / 4096 < 128) := by omega
          have a2 : ¬ (194 ≤ 224 + c / 4096 ∧ 224 + c / 4096 < 224) := by omega
          have a3 : 224 ≤ 224 + c / 4096 ∧ 224 + c / 4096 < 240 := by omega
          have c1 := isCont_mk (c / 64 % 64) (Nat.mod_lt _ (by omega))
          have c2 := isCont_mk (c % 64) (Nat.mod_lt _ (by omega))
          have hv : (224 + c / 4096 - 224) * 4096 + (128 + c / 64 % 64 - 128) * 64 + (128 + c % 64 - 128) = c := by
            omega
          have hcond : 2048 ≤ c ∧ ¬ (55296 ≤ c ∧ c < 57344) := by omega
          simp only [List.cons_append, List.nil_append, decodeUtf8, a1, a2, a3, c1, c2, hv, hcond, and_self,
            not_false_eq_true, ↓reduceIte]
        next h4 =>
          split at h
          next h5 =>
            injection h with h; subst h
            have a1 : ¬ (240 + c / 262144 < 128) := by omega
            have a2 : ¬ (194 ≤ 240 + c / 262144 ∧ 240 + c / 262144 < 224) := by omega
            have a3 : ¬ (224 ≤ 240 + c / 262144 ∧ 240 + c / 262144 < 240) := by omega
            have a4 : 240 ≤ 240 + c / 262144 ∧ 240 + c / 262144 < 245 := by omega
            have c1 := isCont_mk (c / 4096 % 64) (Nat.mod_lt _ (by omega))
            have c2 := isCont_mk (c / 64 % 64) (Nat.mod_lt _ (by omega))
            have c3 := isCont_mk (c % 64) (Nat.mod_lt _ (by omega))
            have hv : (240 + c / 262144 - 240) * 262144 + (128 + c / 4096 % 64 - 128) * 4096 +
                (128 + c / 64 % 64 - 128) * 64 + (128 + c % 64 - 128) = c := by omega
            have hcond : 65536 ≤ c ∧ c < 1114112 := by omega
            simp only [List.cons_append, List.nil_append, decodeUtf8, a1, a2, a3, a4, c1, c2, c3, hv, hcond,
              and_self, ↓reduceIte]
          next h5 => cases h

theorem utf8Char_ne_nil (c : Nat) (bs : Bytes) (h : utf8Char c = some bs) : 1 ≤ bs.length := by
  unfold utf8Char at h
  repeat' split at h
  all_goals first | (injection h with h; subst h; simp) | cases h

/-- `bytes.decode` of `str.encode("UTF8")` is the identity, for every text that encodes. -/
theorem decodeUtf8_encode (s : List Nat) : ∀ (w : Bytes), encodeUtf8 s = some w →
    ∀ fuel, s.length < fuel → decodeUtf8 fuel w = some s := by
  induction s with
  | nil =>
    intro w h fuel hf
    simp only [encodeUtf8, Option.some.injEq] at h; subst h
    cases fuel with
    | zero => omega
    | succ f => simp [decodeUtf8]
  | cons c r ih =>
    intro w h fuel hf
    simp only [encodeUtf8] at h
    cases hc : utf8Char c with
    | none => rw [hc] at h; simp at h
    | some a =>
      cases hr : encodeUtf8 r with
      | none => rw [hc, hr] at h; simp at h
      | some b =>
        rw [hc, hr] at h
        simp only [Option.some.injEq] at h; subst h
        cases fuel with
        | zero => omega
        | succ f =>
          rw [decodeUtf8_char c a hc f b, ih b hr f (by simp only [List.length_cons] at hf; omega)]
          rfl

theorem encodeUtf8_length (s : List Nat) : ∀ w, encodeUtf8 s = some w → s.length ≤ w.length := by
  induction s with
  | nil => intro w h; simp
  | cons c r ih =>
    intro w h
    simp only [encodeUtf8] at h
    cases hc : utf8Char c with
    | none => rw [hc] at h; simp at h
    | some a =>
      cases hr : encodeUtf8 r with
      | none => rw [hc, hr] at h; simp at h
      | some b =>
        rw [hc, hr] at h
        simp only [Option.some.injEq] at h; subst h
        have := utf8Char_ne_nil c a hc
        have := ih b hr
        simp only [List.length_cons, List.length_append]; omega

end Sshuttle.Bootstrap
