/-
Which exceptions can leave `parse_subnetport` / `parse_ipport`: never a `gaierror` (always
converted), hence through argparse's `type=` handling never an internal error.
-/
import SshuttleModel.Code.Args

namespace Sshuttle.Args
open Sshuttle.Inet

/-- decidable equality of results, so that closed instances can be checked by `decide +kernel` -/
instance instDecEqExcept {ε α : Type} [DecidableEq ε] [DecidableEq α] : DecidableEq (Except ε α)
  | .ok a, .ok b => if h : a = b then isTrue (by rw [h]) else isFalse (by intro e; injection e with e; exact h e)
  | .error a, .error b => if h : a = b then isTrue (by rw [h]) else isFalse (by intro e; injection e with e; exact h e)
  | .ok _, .error _ => isFalse (by intro e; cases e)
  | .error _, .ok _ => isFalse (by intro e; cases e)

/-- errors that argparse turns into a usage message (or that mark the edge of the model) -/
def Exc.Benign (e : Exc) : Prop := e ≠ .gaierror

theorem pyIntAux_benign (s : Str) : ∀ acc e, pyIntAux acc s = .error e → e.Benign := by
  induction s with
  | nil => intro acc e h; simp [pyIntAux] at h
  | cons c t ih =>
    intro acc e h
    simp only [pyIntAux] at h
    split at h
    · exact ih _ e h
    · injection h with h; subst h; simp [Exc.Benign]

theorem pyInt_benign (s : Str) (e : Exc) (h : pyInt s = .error e) : e.Benign := by
  unfold pyInt at h
  split at h
  · injection h with h; subst h; simp [Exc.Benign]
  · split at h
    · injection h with h; subst h; simp [Exc.Benign]
    · exact pyIntAux_benign s 0 e h

theorem subnetLoop_benign (cidr fport lport : Option Str) (l : List AddrInfo) :
    ∀ e, subnetLoop cidr fport lport l = .error e → e.Benign := by
  induction l with
  | nil => intro e h; simp [subnetLoop] at h
  | cons a rest ih =>
    intro e h
    obtain ⟨fam, addr, port⟩ := a
    simp only [subnetLoop] at h
    -- width
    split at h
    · next e1 hw =>
      injection h with h; subst h
      split at hw
      · cases hw
      · split at hw
        · next e2 hp => injection hw with hw; subst hw; exact pyInt_benign _ _ hp
        · split at hw
          · cases hw
          · injection hw with hw; subst hw; simp [Exc.Benign]
    · next wv hw =>
      split at h
      · next e1 hf =>
        injection h with h; subst h
        split at hf
        · exact pyInt_benign _ _ hf
        · cases hf
      · next fp hf =>
        split at h
        · next e1 hl =>
          injection h with h; subst h
          split at hl
          · exact pyInt_benign _ _ hl
          · split at hl
            · exact pyInt_benign _ _ hl
            · cases hl
        · next lp hl =>
          split at h
          · next e1 hr => injection h with h; subst h; exact ih _ hr
          · cases h

theorem parseSubnetportWith_benign (rx6 : Str → Option Groups) (env : Env) (s : Str) (e : Exc)
    (h : parseSubnetportWith rx6 env s = .error e) : e.Benign := by
  unfold parseSubnetportWith at h
  dsimp only at h
  generalize (if countColons s > Gen.C16.SUBNET_COLON_THRESHOLD then rx6 s else matchRx4 s) = m at h
  split at h
  · injection h with h; subst h; simp [Exc.Benign]
  · next g =>
    split at h
    · injection h with h; subst h; simp [Exc.Benign]
    · next e1 hne _ => injection h with h; subst h; exact fun he => hne he
    · split at h
      · injection h with h; subst h; simp [Exc.Benign]
      · exact subnetLoop_benign _ _ _ _ e h

theorem argparseType_benign {α : Type} (r : Except Exc α) (h : ∀ e, r = .error e → e.Benign) :
    ∀ tag, argparseType r ≠ .internalError tag := by
  intro tag
  cases r with
  | ok v => simp [argparseType]
  | error e =>
    have := h e rfl
    cases e with
    | gaierror => exact absurd rfl this
    | fatal k => simp [argparseType]
    | unicodeError => simp [argparseType]
    | valueError t => simp [argparseType]
    | unmodelled t => simp [argparseType]

theorem parseIpport_benign (env : Env) (s : Str) (e : Exc) (h : parseIpport env s = .error e) : e.Benign := by
  unfold parseIpport at h
  split at h
  · injection h with h; subst h; simp [Exc.Benign]
  · next host port _ =>
    dsimp only at h
    generalize (if host.isEmpty = true then Gen.C16.IPPORT_DEFAULT_HOST.toList else host) = host' at h
    have tail : ∀ pv, (match getaddrinfo env host' pv with
        | Except.error Exc.gaierror => Except.error (Exc.fatal FatalKind.unresolved)
        | Except.error e => Except.error e
        | Except.ok addrinfo =>
          match minAddr addrinfo with
          | none => Except.error (Exc.valueError "min() arg is an empty sequence")
          | some a => Except.ok a) = Except.error e → e.Benign := by
      intro pv h
      split at h
      · injection h with h; subst h; simp [Exc.Benign]
      · next e1 hne _ => injection h with h; subst h; exact fun he => hne he
      · split at h
        · injection h with h; subst h; simp [Exc.Benign]
        · cases h
    cases port with
    | none => exact tail 0 h
    | some p =>
      dsimp only at h
      cases hp : pyInt p with
      | error e1 =>
        rw [hp] at h
        injection h with h; subst h
        exact pyInt_benign _ _ hp
      | ok pv =>
        rw [hp] at h
        exact tail pv h

end Sshuttle.Args
