/-
C11 helper lemma: `del mux.channels[chan]` for a list of ids is a filter on the keys.
-/
import SshuttleModel.Lemmas.Dgram

namespace Sshuttle.Dgram

theorem delChans_eq_filter {ks : List Nat} {ch ch' : List (Nat × Cb)} (h : delChans ks ch = .ok ch') :
    ch' = ch.filter (fun p => decide (p.1 ∉ ks)) := by
  induction ks generalizing ch with
  | nil =>
    simp [delChans] at h; subst h
    exact (List.filter_eq_self.2 (by simp)).symm
  | cons k ks ih =>
    simp only [delChans] at h
    split at h
    · rw [ih h]
      unfold erase
      rw [List.filter_filter]
      congr 1
      funext p
      simp only [List.mem_cons, not_or, decide_not, Bool.decide_and]
      rw [Bool.and_comm]
    · cases h

section
variable {κ ν : Type} [DecidableEq κ]

theorem keys_set_nodup (k : κ) (v : ν) (l : List (κ × ν)) (h : (l.map (·.1)).Nodup) :
    ((set k v l).map (·.1)).Nodup := by
  induction l with
  | nil => simp [set]
  | cons q l ih =>
    obtain ⟨k', v'⟩ := q
    simp only [List.map_cons, List.nodup_cons] at h
    by_cases e : k' = k
    · subst e
      simp only [set, ↓reduceIte, List.map_cons, List.nodup_cons]
      exact h
    · simp only [set, e, ↓reduceIte, List.map_cons, List.nodup_cons]
      refine ⟨?_, ih h.2⟩
      intro hm
      obtain ⟨p, hp, hk⟩ := List.mem_map.1 hm
      rcases mem_set hp with rfl | hp'
      · exact e hk.symm
      · exact h.1 (List.mem_map.2 ⟨p, hp', hk⟩)

omit [DecidableEq κ] in
theorem unique_of_keys_nodup (l : List (κ × ν)) (h : (l.map (·.1)).Nodup) :
    ∀ p ∈ l, ∀ q ∈ l, p.1 = q.1 → p = q := by
  induction l with
  | nil => intro p hp; cases hp
  | cons x l ih =>
    simp only [List.map_cons, List.nodup_cons] at h
    intro p hp q hq e
    rcases List.mem_cons.1 hp with rfl | hp' <;> rcases List.mem_cons.1 hq with rfl | hq'
    · rfl
    · exact absurd (List.mem_map.2 ⟨q, hq', e.symm⟩) h.1
    · exact absurd (List.mem_map.2 ⟨p, hp', e⟩) h.1
    · exact ih h.2 p hp' q hq' e

end

end Sshuttle.Dgram
