/-
C11 helper lemma: `del mux.channels[chan]` for a list of ids is a filter on the keys.
-/
import SshuttleModel.Lemmas.Dgram

namespace Sshuttle.Dgram

theorem delChans_eq_filter {ks : List Nat} {ch ch' : List (Nat × Cb)} (h : delChans ks ch = .ok ch') :
    ch' = ch.filter (fun p => decide (p.1 ∉ ks)) := by
  induction ks generalizing ch with
  | nil =>
    simp [delChans] at h; subst h
    exact (List.filter_eq_self.2 (by simp)).symm
  | cons k ks ih =>
    simp only [delChans] at h
    split at h
    · rw [ih h]
      unfold erase
      rw [List.filter_filter]
      congr 1
      funext p
      simp only [List.mem_cons, not_or, decide_not, Bool.decide_and]
      rw [Bool.and_comm]
    · cases h

end Sshuttle.Dgram
