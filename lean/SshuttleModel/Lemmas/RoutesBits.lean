/-
Bit-level helper lemmas for C17: the mask arithmetic of `_list_routes` and `_maskbits`.
Property theorems live in `Props/C17.lean`.
-/
import SshuttleModel.Spec.Routes

-- `Except` has no `DecidableEq` instance in core; the bounded `decide` facts in
-- `RoutesText`/`RoutesDelivery` need one.
deriving instance DecidableEq for Except

namespace Sshuttle.Routes

/-- `ip & ((2^w - 1) << (32 - w))` clears exactly the low `32 - w` bits. -/
theorem land_mask (ip w : Nat) (hip : ip < 2 ^ 32) (hw : w ≤ 32) :
    ip &&& ((2 ^ w - 1) * 2 ^ (32 - w)) = ip - ip % 2 ^ (32 - w) := by
  have h2 : ip - ip % 2 ^ (32 - w) = ip / 2 ^ (32 - w) * 2 ^ (32 - w) := by
    have := Nat.div_add_mod ip (2 ^ (32 - w))
    rw [Nat.mul_comm] at this; omega
  rw [h2]
  apply Nat.eq_of_testBit_eq
  intro i
  simp only [Nat.testBit_and, Nat.testBit_mul_two_pow, Nat.testBit_two_pow_sub_one, Nat.testBit_div_two_pow]
  by_cases hi : 32 - w ≤ i
  · simp only [hi, decide_true, Bool.true_and]
    have e : i - (32 - w) + (32 - w) = i := by omega
    rw [e]
    by_cases hi2 : i - (32 - w) < w
    · simp [hi2]
    · simp only [hi2, decide_false, Bool.and_false]
      have : 32 ≤ i := by omega
      have : ip < 2 ^ i := Nat.lt_of_lt_of_le hip (Nat.pow_le_pow_right (by decide) this)
      simp [Nat.testBit_lt_two_pow this]
  · simp [hi]

theorem maskbits_contig : ∀ n, n ≤ 32 → maskbits (some ((2 ^ n - 1) * 2 ^ (32 - n), 32)) = n := by
  decide

end Sshuttle.Routes
