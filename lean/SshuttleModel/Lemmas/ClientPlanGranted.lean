/-
Helper lemmas for C15, part 5: the two port searches as a whole (which candidate is taken, that
every socket of the result was granted by the bind oracle, how a search can fail) and the
feature check (`assert_features` passes iff every required feature is available).  Core Lean only.
-/
import SshuttleModel.Lemmas.ClientPlanMain
namespace Sshuttle.ClientPlan
open Sshuttle.Gen.C15

/-- Every socket of the listener was granted by `bind` (the oracle said yes, and for a UDP socket
the address was not held by this process' own UDP redirector). -/
def Granted (env : Env) (held : List (Fam × Addr)) (proto : Proto) (l : Listener) : Prop :=
  (∀ a, l.v6 = some a → bindOne env held proto .v6 a = none) ∧
  (∀ a, l.v4 = some a → bindOne env held proto .v4 a = none)

theorem mlBind_granted {env held proto a6 a4 l} (h : mlBind env held proto a6 a4 = .ok l) :
    Granted env held proto l := by
  have hl := mlBind_ok h
  subst hl
  unfold mlBind at h
  constructor
  · intro a ha
    simp only at ha; subst ha
    simp only at h
    split at h
    · assumption
    · cases h
    · cases h
  · intro a ha
    simp only at ha; subst ha
    cases a6 with
    | none =>
      simp only at h
      split at h
      · assumption
      · cases h
    | some b =>
      simp only at h
      split at h
      · split at h
        · assumption
        · cases h
      · cases h
      · cases h

/-- One iteration of the redirector search: the TCP listener, then (if the method has UDP) the
UDP listener, on the same addresses. -/
def tcpAttempt (env : Env) (l6 l4 : Option Addr) (udp : Bool) (p : Nat) : MLBind :=
  match mlBind env [] .tcp (lvOf l6 p).1 (lvOf l4 p).1 with
  | .ok t =>
    if udp then
      match mlBind env [] .udp (lvOf l6 p).1 (lvOf l4 p).1 with
      | .ok _ => .ok t
      | .fatalV6 => .fatalV6
      | .err e => .err e
    else .ok t
  | .fatalV6 => .fatalV6
  | .err e => .err e

/-- `tcpLoop`, one step, in terms of `tcpAttempt`. -/
theorem tcpLoop_cons (env : Env) (l6 l4 : Option Addr) (udp : Bool) (p : Nat) (ps : List Nat)
    (used : Option (List Nat)) (lastE : Bool) :
    tcpLoop env l6 l4 udp (p :: ps) used lastE =
      match tcpAttempt env l6 l4 udp p with
      | .ok t =>
        (match used with
         | none => .stop (.internal .usedPortsUnbound)
         | some u => .bound { tcp := t, udpL := if udp then some t else none, rp6 := (lvOf l6 p).2,
                              rp4 := (lvOf l4 p).2, used := u ++ [p], lastE := lastE })
      | .fatalV6 => .stop (.fatal .bindV6NotAvail)
      | .err .inUse =>
        (match used with
         | none => .stop (.internal .usedPortsUnbound)
         | some u => tcpLoop env l6 l4 udp ps (some (u ++ [p])) true)
      | .err e => .stop (.osError e) := by
  unfold tcpAttempt
  conv => lhs; unfold tcpLoop
  simp only
  cases h1 : mlBind env [] .tcp (lvOf l6 p).1 (lvOf l4 p).1 with
  | fatalV6 => rfl
  | err e => cases e <;> rfl
  | ok t =>
    cases udp with
    | false => cases used <;> rfl
    | true =>
      simp only [↓reduceIte]
      cases h2 : mlBind env [] .udp (lvOf l6 p).1 (lvOf l4 p).1 with
      | fatalV6 => rfl
      | err e => cases e <;> rfl
      | ok u =>
        have e1 := mlBind_ok h1
        have e2 := mlBind_ok h2
        subst e1; subst e2
        cases used <;> rfl

theorem tcpAttempt_ok {env : Env} {l6 l4 : Option Addr} {udp : Bool} {p : Nat} {t : Listener}
    (h : tcpAttempt env l6 l4 udp p = .ok t) :
    t = ⟨(lvOf l6 p).1, (lvOf l4 p).1⟩ ∧ Granted env [] .tcp t ∧ (udp = true → Granted env [] .udp t) := by
  unfold tcpAttempt at h
  split at h
  next t' h1 =>
    have e1 := mlBind_ok h1
    have g1 := mlBind_granted h1
    split at h
    next hu =>
      split at h
      next u h2 =>
        injection h with h; subst h
        have e2 := mlBind_ok h2
        have g2 := mlBind_granted h2
        rw [e2, ← e1] at g2
        exact ⟨e1, g1, fun _ => g2⟩
      · cases h
      · cases h
    next hu =>
      injection h with h; subst h
      exact ⟨e1, g1, fun hc => absurd hc hu⟩
  · cases h
  · cases h

/-- The redirector search binds on the **first** candidate on which every bind succeeds; every
earlier candidate met `EADDRINUSE`. -/
theorem tcpLoop_first {env : Env} {l6 l4 : Option Addr} {udp : Bool} {ps : List Nat}
    {used : Option (List Nat)} {lastE : Bool} {r : TcpOk}
    (h : tcpLoop env l6 l4 udp ps used lastE = .bound r) :
    ∃ pre p post, ps = pre ++ p :: post ∧ (∀ q ∈ pre, tcpAttempt env l6 l4 udp q = .err .inUse) ∧
      tcpAttempt env l6 l4 udp p = .ok r.tcp ∧ r.rp6 = (lvOf l6 p).2 ∧ r.rp4 = (lvOf l4 p).2 ∧
      r.udpL = (if udp then some r.tcp else none) := by
  induction ps generalizing used lastE with
  | nil => simp [tcpLoop] at h
  | cons p ps ih =>
    rw [tcpLoop_cons] at h
    split at h
    next t ht =>
      split at h
      · cases h
      · injection h with h; subst h
        exact ⟨[], p, ps, rfl, by simp, ht, rfl, rfl, rfl⟩
    · cases h
    next ht =>
      split at h
      · cases h
      · obtain ⟨pre, q, post, e, hpre, hq⟩ := ih h
        refine ⟨p :: pre, q, post, by rw [e]; rfl, ?_, hq⟩
        intro x hx
        rcases List.mem_cons.mp hx with rfl | hx
        · exact ht
        · exact hpre x hx
    · cases h

/-- The redirector search runs out of candidates only if every candidate met `EADDRINUSE`. -/
theorem tcpLoop_exhausted_all {env : Env} {l6 l4 : Option Addr} {udp : Bool} {ps : List Nat}
    {used : Option (List Nat)} {lastE le' : Bool}
    (h : tcpLoop env l6 l4 udp ps used lastE = .exhausted le') :
    ∀ q ∈ ps, tcpAttempt env l6 l4 udp q = .err .inUse := by
  induction ps generalizing used lastE with
  | nil => simp
  | cons p ps ih =>
    rw [tcpLoop_cons] at h
    split at h
    · split at h <;> cases h
    · cases h
    next ht =>
      split at h
      · cases h
      · intro x hx
        rcases List.mem_cons.mp hx with rfl | hx
        · exact ht
        · exact ih h x hx
    · cases h

/-- The redirector search is abandoned only for an IPv6 `EADDRNOTAVAIL` (fatal message) or for a
bind error other than `EADDRINUSE` (re-raised), met on the first candidate that was not busy. -/
theorem tcpLoop_stop_kind {env : Env} {l6 l4 : Option Addr} {udp : Bool} {ps : List Nat}
    {u : List Nat} {lastE : Bool} {s : Stop}
    (h : tcpLoop env l6 l4 udp ps (some u) lastE = .stop s) :
    ∃ pre p post, ps = pre ++ p :: post ∧ (∀ q ∈ pre, tcpAttempt env l6 l4 udp q = .err .inUse) ∧
      ((tcpAttempt env l6 l4 udp p = .fatalV6 ∧ s = .fatal .bindV6NotAvail) ∨
       (∃ e, e ≠ Errno.inUse ∧ tcpAttempt env l6 l4 udp p = .err e ∧ s = .osError e)) := by
  induction ps generalizing u lastE with
  | nil => simp [tcpLoop] at h
  | cons p ps ih =>
    rw [tcpLoop_cons] at h
    split at h
    · cases h
    next ht =>
      injection h with h; subst h
      exact ⟨[], p, ps, rfl, by simp, Or.inl ⟨ht, rfl⟩⟩
    next ht =>
      obtain ⟨pre, q, post, e, hpre, hq⟩ := ih h
      refine ⟨p :: pre, q, post, by rw [e]; rfl, ?_, hq⟩
      intro x hx
      rcases List.mem_cons.mp hx with rfl | hx
      · exact ht
      · exact hpre x hx
    next e hne ht =>
      injection h with h; subst h
      refine ⟨[], p, ps, rfl, by simp, Or.inr ⟨e, ?_, ht, rfl⟩⟩
      intro hc; subst hc; exact hne rfl

/-! ### DNS search -/

/-- One iteration of the DNS search. -/
def dnsAttempt (env : Env) (held : List (Fam × Addr)) (l6 l4 : Option Addr) (p : Nat) : MLBind :=
  mlBind env held .udp (l6.map fun a => ⟨a.ip, p⟩) (l4.map fun a => ⟨a.ip, p⟩)

theorem dnsSkip_cases {used : List Nat} {rp6 rp4 q : Nat} (h : dnsSkip used rp6 rp4 q = true) :
    q ∈ used ∨ q = rp4 ∨ q = rp6 := by
  unfold dnsSkip at h
  simp only [Bool.or_eq_true, Bool.and_eq_true, List.contains_eq_mem, decide_eq_true_eq, beq_iff_eq] at h
  rcases h with ⟨_, h⟩ | ⟨_, h | h⟩
  · exact Or.inl h
  · exact Or.inr (Or.inl h)
  · exact Or.inr (Or.inr h)

/-- The DNS search binds on the first candidate that is neither a redirector port nor a port
already used or found busy, and on which every bind succeeds. -/
theorem dnsLoop_first {env : Env} {held : List (Fam × Addr)} {l6 l4 : Option Addr} {rp6 rp4 : Nat}
    {ps used : List Nat} {asg le : Bool} {l : Listener} {p : Nat}
    (h : dnsLoop env held l6 l4 rp6 rp4 ps used asg le = .bound l p) :
    ∃ pre post, ps = pre ++ p :: post ∧ dnsAttempt env held l6 l4 p = .ok l ∧
      dnsSkip used rp6 rp4 p = false ∧
      ∀ q ∈ pre, q ∈ used ∨ q = rp4 ∨ q = rp6 ∨ dnsAttempt env held l6 l4 q = .err .inUse := by
  induction ps generalizing used asg le with
  | nil => simp [dnsLoop] at h
  | cons x ps ih =>
    unfold dnsLoop at h
    split at h
    next hskip =>
      obtain ⟨pre, post, e, ha, hs, hpre⟩ := ih h
      refine ⟨x :: pre, post, by rw [e]; rfl, ha, hs, ?_⟩
      intro q hq
      rcases List.mem_cons.mp hq with rfl | hq
      · rcases dnsSkip_cases hskip with h1 | h1 | h1
        · exact Or.inl h1
        · exact Or.inr (Or.inl h1)
        · exact Or.inr (Or.inr (Or.inl h1))
      · exact hpre q hq
    next hskip =>
      split at h
      next l' hb =>
        injection h with h1 h2
        subst h1; subst h2
        exact ⟨[], ps, rfl, hb, by simpa using hskip, by simp⟩
      · cases h
      next hb =>
        obtain ⟨pre, post, e, ha, hs, hpre⟩ := ih h
        have hs' : dnsSkip used rp6 rp4 p = false := by
          cases hc : dnsSkip used rp6 rp4 p with
          | false => rfl
          | true =>
            exfalso
            unfold dnsSkip at hc hs
            simp only [Bool.or_eq_true, Bool.and_eq_true, Bool.or_eq_false_iff, Bool.and_eq_false_imp] at hc hs
            rcases hc with ⟨hf, hc⟩ | hc
            · have := hs.1 hf
              simp only [List.contains_eq_mem, List.mem_append, decide_eq_false_iff_not, not_or] at this
              simp only [List.contains_eq_mem, decide_eq_true_eq] at hc
              exact this.1 hc
            · have := hs.2 hc.1
              simp only [beq_eq_false_iff_ne, ne_eq] at this
              rcases hc.2 with h1 | h1
              · exact this.1 (by simpa using h1)
              · exact this.2 (by simpa using h1)
        refine ⟨x :: pre, post, by rw [e]; rfl, ha, hs', ?_⟩
        intro q hq
        rcases List.mem_cons.mp hq with rfl | hq
        · exact Or.inr (Or.inr (Or.inr hb))
        · rcases hpre q hq with h1 | h1 | h1 | h1
          · rcases List.mem_append.mp h1 with h1 | h1
            · exact Or.inl h1
            · simp only [List.mem_singleton] at h1; subst h1
              exact Or.inr (Or.inr (Or.inr hb))
          · exact Or.inr (Or.inl h1)
          · exact Or.inr (Or.inr (Or.inl h1))
          · exact Or.inr (Or.inr (Or.inr h1))
      · cases h

theorem dnsLoop_stop_kind {env : Env} {held : List (Fam × Addr)} {l6 l4 : Option Addr} {rp6 rp4 : Nat}
    {ps used : List Nat} {asg le : Bool} {s : Stop}
    (h : dnsLoop env held l6 l4 rp6 rp4 ps used asg le = .stop s) :
    s = .fatal .bindV6NotAvail ∨ ∃ e, e ≠ Errno.inUse ∧ s = .osError e := by
  induction ps generalizing used asg le with
  | nil => simp [dnsLoop] at h
  | cons x ps ih =>
    unfold dnsLoop at h
    split at h
    · exact ih h
    · split at h
      · cases h
      · injection h with h; subst h; exact Or.inl rfl
      · exact ih h
      next e hne _ =>
        injection h with h; subst h
        refine Or.inr ⟨e, ?_, rfl⟩
        intro hc; subst hc; exact hne rfl

/-! ### the two stages as a whole -/

/-- The candidate ports of the redirector search. -/
def tcpPorts (P : Prep) : List Nat :=
  if bothExplicit P.l6 P.l4 then BOTH_EXPLICIT_PORTS else descRange TCP_PORT_START TCP_PORT_STOP

theorem tcpStage_first (hU : USED_PORTS_ALWAYS_BOUND = true) {env : Env} {P : Prep} {T : TcpOk}
    (h : tcpStage env P = .ok T) :
    ∃ pre p post, tcpPorts P = pre ++ p :: post ∧
      (∀ q ∈ pre, tcpAttempt env P.l6 P.l4 P.udp q = .err .inUse) ∧
      tcpAttempt env P.l6 P.l4 P.udp p = .ok T.tcp ∧
      Granted env [] .tcp T.tcp ∧ (P.udp = true → Granted env [] .udp T.tcp) := by
  unfold tcpStage at h
  simp only [hU, Bool.true_or, ↓reduceIte] at h
  split at h
  next r hr =>
    injection h with h; subst h
    obtain ⟨pre, p, post, e, hpre, hp, _⟩ := tcpLoop_first hr
    obtain ⟨_, g1, g2⟩ := tcpAttempt_ok hp
    exact ⟨pre, p, post, e, hpre, hp, g1, g2⟩
  · split at h <;> cases h
  · cases h

/-- How the redirector search can fail: the fatal message for an unavailable IPv6 address, a
re-raised bind error other than `EADDRINUSE`, or `EADDRINUSE` when every candidate was busy. -/
theorem tcpStage_error_kind (hU : USED_PORTS_ALWAYS_BOUND = true)
    (hne : TCP_PORT_STOP < TCP_PORT_START) (hb : BOTH_EXPLICIT_PORTS ≠ [])
    {env : Env} {P : Prep} {s : Stop} (h : tcpStage env P = .error s) :
    s = .fatal .bindV6NotAvail ∨ (∃ e, e ≠ Errno.inUse ∧ s = .osError e) ∨
    (s = .osError .inUse ∧ ∀ q ∈ tcpPorts P, tcpAttempt env P.l6 P.l4 P.udp q = .err .inUse) := by
  have hni := tcpStage_not_internal hU hne hb h
  unfold tcpStage at h
  simp only [hU, Bool.true_or, ↓reduceIte] at h
  split at h
  · cases h
  next le hr =>
    have hall := tcpLoop_exhausted_all hr
    split at h
    · injection h with h; subst h
      exact Or.inr (Or.inr ⟨rfl, hall⟩)
    · injection h with h; subst h; cases hni
  next o hr =>
    injection h with h; subst h
    obtain ⟨_, _, _, _, _, hk⟩ := tcpLoop_stop_kind hr
    rcases hk with ⟨_, hk⟩ | ⟨e, he, _, hk⟩
    · exact Or.inl hk
    · exact Or.inr (Or.inl ⟨e, he, hk⟩)

theorem dnsStage_granted {env : Env} {P : Prep} {T : TcpOk} {D : DnsOk} {d : Listener}
    (h : dnsStage env P T = .ok D) (hd : D.dnsL = some d) :
    Granted env (heldOf T.udpL) .udp d := by
  unfold dnsStage at h
  split at h
  · injection h with h; subst h; cases hd
  · split at h
    next l p hb =>
      injection h with h; subst h
      simp only [Option.some.injEq] at hd; subst hd
      obtain ⟨_, _, _, ha, _, _⟩ := dnsLoop_first hb
      exact mlBind_granted ha
    · cases h
    · split at h
      · split at h <;> cases h
      · split at h
        · cases h
        · split at h <;> cases h

theorem dnsStage_error_kind (hB : DNS_BOUND_CHECK_BEFORE_PRINT = true)
    (hrange : DNS_PORT_STOP + 4 ≤ DNS_PORT_START)
    {env : Env} {P : Prep} {T : TcpOk} {s : Stop}
    (hused : T.lastE = false → ∃ p, T.used = [p])
    (h : dnsStage env P T = .error s) :
    s = .fatal .bindV6NotAvail ∨ ∃ e, s = .osError e := by
  have hni := dnsStage_not_internal hB hrange hused h
  unfold dnsStage at h
  split at h
  · cases h
  · split at h
    · cases h
    next o hs =>
      injection h with h; subst h
      rcases dnsLoop_stop_kind hs with hk | ⟨e, _, hk⟩
      · exact Or.inl hk
      · exact Or.inr ⟨e, hk⟩
    · first | rw [if_pos hB] at h | skip
      split at h
      · injection h with h; subst h; exact Or.inr ⟨_, rfl⟩
      · injection h with h; subst h; cases hni

def FatalMsg.isFeature : FatalMsg → Bool
  | .feature _ => true
  | _ => false

theorem sanity_error_kind {P : Prep} {T : TcpOk} {D : DnsOk} {s : Stop} (h : sanity P T D = .error s) :
    s.isInternal = true ∨ ∃ m, s = .fatal m ∧ m.isFeature = false := by
  unfold sanity at h
  simp only at h
  split at h
  · injection h with h; subst h; exact Or.inl rfl
  split at h
  · injection h with h; subst h; exact Or.inr ⟨_, rfl, rfl⟩
  split at h
  · injection h with h; subst h; exact Or.inl rfl
  split at h
  · injection h with h; subst h; exact Or.inr ⟨_, rfl, rfl⟩
  split at h
  · injection h with h; subst h; exact Or.inr ⟨_, rfl, rfl⟩
  split at h
  · injection h with h; subst h; exact Or.inr ⟨_, rfl, rfl⟩
  · cases h

/-! ### the feature check -/

theorem assertFeatures_feature {av : Features} {req : FeatKey → Option Bool} {keys : List FeatKey}
    {k : FeatKey} (h : assertFeatures av req keys = some (.fatal (.feature k))) :
    k ∈ keys ∧ req k = some true ∧ av.get k = false := by
  induction keys with
  | nil => simp [assertFeatures] at h
  | cons x xs ih =>
    unfold assertFeatures at h
    split at h
    · cases h
    next r hr =>
      split at h
      next hc =>
        injection h with h; injection h with h; injection h with h
        subst h
        simp only [Bool.and_eq_true, Bool.not_eq_eq_eq_not, Bool.not_true] at hc
        exact ⟨by simp, by rw [hr, hc.1], hc.2⟩
      · obtain ⟨h1, h2⟩ := ih h
        exact ⟨by simp [h1], h2⟩

/-- `assert_features` passes iff every required feature of the key list is available. -/
theorem assertFeatures_none_iff {av : Features} {req : FeatKey → Option Bool} {keys : List FeatKey}
    (hreq : ∀ k ∈ keys, (req k).isSome = true) :
    assertFeatures av req keys = none ↔ ∀ k ∈ keys, req k = some true → av.get k = true := by
  constructor
  · intro h k hk hr
    obtain ⟨r, hr', himp⟩ := assertFeatures_none h k hk
    rw [hr] at hr'; injection hr' with hr'
    exact himp hr'.symm
  · intro h
    cases ha : assertFeatures av req keys with
    | none => rfl
    | some o =>
      exfalso
      have hni := assertFeatures_some hreq ha
      cases o with
      | internal t => cases hni
      | osError e =>
        -- assert_features never raises an OSError
        clear hni
        induction keys with
        | nil => simp [assertFeatures] at ha
        | cons x xs ih =>
          unfold assertFeatures at ha
          split at ha
          · cases ha
          · split at ha
            · cases ha
            · exact ih (fun k hk => hreq k (by simp [hk])) (fun k hk => h k (by simp [hk])) ha
      | fatal m =>
        cases m with
        | feature k =>
          obtain ⟨hk, hr, hav⟩ := assertFeatures_feature ha
          rw [h k hk hr] at hav; cases hav
        | _ =>
          clear hni
          all_goals
            induction keys with
            | nil => simp [assertFeatures] at ha
            | cons x xs ih =>
              unfold assertFeatures at ha
              split at ha
              · cases ha
              · split at ha
                · cases ha
                · exact ih (fun k hk => hreq k (by simp [hk])) (fun k hk => h k (by simp [hk])) ha

/-- The only place of the preparation that can give "Feature … not supported" is `assert_features`. -/
theorem prep_error_feature {c : Cmd} {env : Env} {a6 a4 : ListenArg} {k : FeatKey}
    (h : prep c env a6 a4 = .error (.fatal (.feature k))) :
    ∃ uid gid, lookupOpt c.user env.users = some uid ∧ lookupOpt c.group env.groups = some gid ∧
      assertFeatures env.avail (requiredGet (resolveL6 env.avail a6).isSome env.avail.udp
        (mkPrep c env (resolveL6 env.avail a6) (resolveL4 env.avail a4) uid gid).reqDns
        uid.isSome gid.isSome) ASSERT_KEYS = some (.fatal (.feature k)) := by
  unfold prep at h
  simp only at h
  split at h
  · cases h
  split at h
  · cases h
  split at h
  · cases h
  split at h
  · cases h
  next uid hu =>
  split at h
  · cases h
  next gid hg =>
  split at h
  · cases h
  split at h
  next o ha =>
    injection h with h; subst h
    exact ⟨uid, gid, hu, hg, ha⟩
  split at h <;> cases h
/-! ### small facts used by the plan-level theorems -/

theorem bindOne_none {env : Env} {held : List (Fam × Addr)} {proto : Proto} {f : Fam} {a : Addr}
    (h : bindOne env held proto f a = none) :
    env.bind proto f a.port = none ∧ (proto = .udp → (f, a) ∉ held) := by
  unfold bindOne at h
  split at h
  · cases h
  next hc => exact ⟨h, fun hp hm => hc ⟨hp, hm⟩⟩

theorem clientMain_stop {c : Cmd} {env : Env} {a6 a4 : ListenArg} {s : Stop}
    (h : clientMain c env a6 a4 = .stop s) :
    prep c env a6 a4 = .error s ∨ ∃ P, prep c env a6 a4 = .ok P ∧
      (tcpStage env P = .error s ∨ ∃ T, tcpStage env P = .ok T ∧
        (dnsStage env P T = .error s ∨ ∃ D, dnsStage env P T = .ok D ∧ sanity P T D = .error s)) := by
  unfold clientMain at h
  cases h1 : prep c env a6 a4 with
  | error o => rw [h1] at h; injection h with h; subst h; exact Or.inl rfl
  | ok P =>
    rw [h1] at h; simp only at h
    refine Or.inr ⟨P, rfl, ?_⟩
    cases h2 : tcpStage env P with
    | error o => rw [h2] at h; injection h with h; subst h; exact Or.inl rfl
    | ok T =>
      rw [h2] at h; simp only at h
      refine Or.inr ⟨T, rfl, ?_⟩
      cases h3 : dnsStage env P T with
      | error o => rw [h3] at h; injection h with h; subst h; exact Or.inl rfl
      | ok D =>
        rw [h3] at h; simp only at h
        refine Or.inr ⟨D, rfl, ?_⟩
        cases h4 : sanity P T D with
        | error o => rw [h4] at h; injection h with h; subst h; rfl
        | ok q => rw [h4] at h; cases h

theorem lookupOpt_isSome {name : Option Nat} {db : Nat → Option Nat} {r : Option Nat}
    (h : lookupOpt name db = some r) : r.isSome = name.isSome := by
  unfold lookupOpt at h
  cases name with
  | none => injection h with h; subst h; rfl
  | some n =>
    simp only [Option.map_eq_some_iff] at h
    obtain ⟨x, _, hx⟩ := h
    subst hx; rfl

theorem filter_v4_of_no_v6 {α} (fam : α → Fam) (l : List α)
    (h : (l.filter fun s => isV6 (fam s)) = []) : (l.filter fun s => isV4 (fam s)) = l := by
  apply List.filter_eq_self.mpr
  intro a ha
  have := (List.filter_eq_nil_iff.mp h) a ha
  cases hf : fam a <;> simp_all [isV4, isV6]

theorem listedAsSubnet_iff {ip : Ip} {subs : List Subnet} :
    listedAsSubnet ip subs = true ↔ ∃ s ∈ subs, s.ip = ip := by
  simp [listedAsSubnet]

end Sshuttle.ClientPlan
