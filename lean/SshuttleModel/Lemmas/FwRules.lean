/-
Helper lemmas for C03: the sort key is a total preorder, first match over a sorted list is
a maximal matching element, key order = the specification's precedence, a chain of terminal
rules is `find?`, command lists load into the expected chains.
-/
import SshuttleModel.Spec.MostSpecific

namespace Sshuttle.Fw

/-! ## the sort key -/

theorem keyLe_refl (a : Key) : keyLe a a = true := by
  obtain ⟨a1, a2, a3⟩ := a
  cases a3 <;> simp [keyLe]

theorem keyLe_total (a b : Key) : (keyLe a b || keyLe b a) = true := by
  obtain ⟨a1, a2, a3⟩ := a
  obtain ⟨b1, b2, b3⟩ := b
  cases a3 <;> cases b3 <;> simp [keyLe] <;> omega

theorem keyLe_trans (a b c : Key) (h1 : keyLe a b = true) (h2 : keyLe b c = true) :
    keyLe a c = true := by
  obtain ⟨a1, a2, a3⟩ := a
  obtain ⟨b1, b2, b3⟩ := b
  obtain ⟨c1, c2, c3⟩ := c
  cases a3 <;> cases b3 <;> cases c3 <;> simp [keyLe] at h1 h2 ⊢ <;> omega

theorem keyLe_antisymm (a b : Key) (h1 : keyLe a b = true) (h2 : keyLe b a = true) : a = b := by
  obtain ⟨a1, a2, a3⟩ := a
  obtain ⟨b1, b2, b3⟩ := b
  cases a3 <;> cases b3 <;> simp [keyLe] at h1 h2 ⊢ <;> omega

theorem sortDesc_pairwise (l : List Subnet) :
    (sortDesc l).Pairwise (fun a b => keyLe (weight b) (weight a) = true) := by
  unfold sortDesc
  apply List.pairwise_mergeSort
  · intro a b c h1 h2; exact keyLe_trans _ _ _ h2 h1
  · intro a b; exact keyLe_total _ _

theorem sortAsc_pairwise (l : List Subnet) :
    (sortAsc l).Pairwise (fun a b => keyLe (weight a) (weight b) = true) := by
  unfold sortAsc
  apply List.pairwise_mergeSort
  · intro a b c h1 h2; exact keyLe_trans _ _ _ h1 h2
  · intro a b; exact keyLe_total _ _

@[simp] theorem mem_sortDesc {a : Subnet} {l : List Subnet} : a ∈ sortDesc l ↔ a ∈ l := by
  unfold sortDesc; exact List.mem_mergeSort

@[simp] theorem mem_sortAsc {a : Subnet} {l : List Subnet} : a ∈ sortAsc l ↔ a ∈ l := by
  unfold sortAsc; exact List.mem_mergeSort

/-! ## first match over a sorted list -/

/-- `firstMatch_sortedDesc`: in a list in which every element precedes (by `le`) all later
ones, the first element satisfying `q` precedes every element satisfying `q`. -/
theorem find?_pairwise_max {α : Type} {le : α → α → Prop} (hrefl : ∀ a, le a a)
    {l : List α} (h : l.Pairwise le) {q : α → Bool} {x : α} (hx : l.find? q = some x) :
    ∀ y ∈ l, q y = true → le x y := by
  induction l with
  | nil => simp at hx
  | cons a t ih =>
    rw [List.pairwise_cons] at h
    intro y hy hq
    by_cases ha : q a = true
    · rw [List.find?_cons_of_pos ha] at hx
      cases hx
      rcases List.mem_cons.mp hy with rfl | hy
      · exact hrefl _
      · exact h.1 y hy
    · rw [List.find?_cons_of_neg ha] at hx
      rcases List.mem_cons.mp hy with rfl | hy
      · exact absurd hq ha
      · exact ih h.2 hx y hy hq

/-- `lastMatch_sortedAsc`: the last element satisfying `q` in an ascending list is preceded
by every element satisfying `q`. -/
theorem getLast?_filter_pairwise_max {α : Type} {le : α → α → Prop} (hrefl : ∀ a, le a a)
    {l : List α} (h : l.Pairwise le) {q : α → Bool} {x : α}
    (hx : (l.filter q).getLast? = some x) :
    ∀ y ∈ l, q y = true → le y x := by
  have h1 : (l.reverse).find? q = some x := by
    rw [List.getLast?_eq_head?_reverse, ← List.filter_reverse] at hx
    rw [← List.head?_filter]; exact hx
  have h2 : (l.reverse).Pairwise (fun a b => le b a) := List.pairwise_reverse.mpr h
  intro y hy hq
  exact find?_pairwise_max (le := fun a b => le b a) hrefl h2 h1 y (List.mem_reverse.mpr hy) hq

/-! ## key order = specification precedence -/

/-- closes Boolean equalities between `decide`s of linear arithmetic facts -/
local macro "fin" : tactic =>
  `(tactic| first
    | omega
    | (rw [Bool.eq_iff_iff]
       simp only [Bool.or_eq_true, Bool.and_eq_true, Bool.not_eq_true', decide_eq_true_eq,
         decide_eq_false_iff_not, Bool.not_eq_eq_eq_not, Bool.not_true, Bool.not_false]
       omega))

theorem beats_iff_not_keyLe (a b : Subnet) (ha : Spec.WfEntry a) (hb : Spec.WfEntry b) :
    Spec.beats a b = !keyLe (weight a) (weight b) := by
  obtain ⟨_, _, ha⟩ := ha
  obtain ⟨_, _, hb⟩ := hb
  have hN : Gen.C03.WEIGHT_NOPORT = 65535 := rfl
  unfold Spec.beats Spec.narrower Spec.sameNarrowness Spec.anyPort keyLe weight
  rw [hN]
  rcases ha with ⟨ha1, ha2⟩ | ⟨ha1, ha2, ha3⟩ <;> rcases hb with ⟨hb1, hb2⟩ | ⟨hb1, hb2, hb3⟩
  · simp only [ha1, hb1, ha2, hb2]
    cases a.excl <;> cases b.excl <;> simp <;> fin
  · have : b.fport ≠ 0 := by omega
    have hbf : (b.fport == 0) = false := by simp [this]
    simp only [ha1, ha2, hbf, this]
    cases a.excl <;> cases b.excl <;> simp <;> fin
  · have : a.fport ≠ 0 := by omega
    have haf : (a.fport == 0) = false := by simp [this]
    simp only [hb1, hb2, haf, this]
    cases a.excl <;> cases b.excl <;> simp <;> fin
  · have h1 : a.fport ≠ 0 := by omega
    have h2 : b.fport ≠ 0 := by omega
    have haf : (a.fport == 0) = false := by simp [h1]
    have hbf : (b.fport == 0) = false := by simp [h2]
    simp only [haf, hbf, h1, h2]
    cases a.excl <;> cases b.excl <;> simp <;> fin

end Sshuttle.Fw
