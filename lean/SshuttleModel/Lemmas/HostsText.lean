/-
Helper lemmas about the string functions of `Code/Hosts.lean` and the line vocabulary of
`Spec/HostsFile.lean`.
-/
import SshuttleModel.Spec.HostsFile
import Std.Data.String.ToNat

namespace Sshuttle.Hosts

/-! ### white space -/

theorem isSpace_nl : isSpace 10 = true := by decide
theorem isSpace_sp : isSpace 32 = true := by decide

theorem isSpace_digit {c : Nat} (h1 : 48 ≤ c) (h2 : c ≤ 57) : isSpace c = false := by
  have : c = 48 ∨ c = 49 ∨ c = 50 ∨ c = 51 ∨ c = 52 ∨ c = 53 ∨ c = 54 ∨ c = 55 ∨ c = 56 ∨ c = 57 := by
    omega
  rcases this with h | h | h | h | h | h | h | h | h | h <;> subst h <;> decide

/-! ### `hasSub` is "occurs as a contiguous substring" -/

theorem hasSub_iff (pat s : Text) : hasSub pat s = true ↔ ∃ a b, s = a ++ pat ++ b := by
  induction s with
  | nil =>
    simp only [hasSub, List.isEmpty_iff]
    constructor
    · intro h; subst h; exact ⟨[], [], rfl⟩
    · rintro ⟨a, b, h⟩
      have := congrArg List.length h
      simp at this
      exact List.eq_nil_of_length_eq_zero (by omega)
  | cons c cs ih =>
    simp only [hasSub, Bool.or_eq_true, List.isPrefixOf_iff_prefix, ih]
    constructor
    · rintro (⟨t, ht⟩ | ⟨a, b, h⟩)
      · exact ⟨[], t, by simp [ht]⟩
      · exact ⟨c :: a, b, by simp [h]⟩
    · rintro ⟨a, b, h⟩
      cases a with
      | nil => left; exact ⟨b, by simpa using h.symm⟩
      | cons x a' =>
        right
        simp only [List.cons_append, List.cons.injEq] at h
        exact ⟨a', b, h.2⟩

theorem ownB_iff (p : Nat) (l : Text) : ownB p l = true ↔ Own p l := hasSub_iff _ _

/-! ### `split('\n')` -/

theorem splitNl_ne_nil (t : Text) : splitNl t ≠ [] := by
  cases t with
  | nil => simp [splitNl]
  | cons c cs =>
    unfold splitNl
    split
    · simp
    · split <;> simp

theorem splitNl_noNl {l : Text} (h : 10 ∉ l) : splitNl l = [l] := by
  induction l with
  | nil => rfl
  | cons c cs ih =>
    have hc : c ≠ 10 := fun e => h (by simp [e])
    have hcs : 10 ∉ cs := fun e => h (by simp [e])
    simp [splitNl, hc, ih hcs]

theorem splitNl_append_nl {l : Text} (h : 10 ∉ l) (r : Text) :
    splitNl (l ++ 10 :: r) = l :: splitNl r := by
  induction l with
  | nil => simp [splitNl]
  | cons c cs ih =>
    have hc : c ≠ 10 := fun e => h (by simp [e])
    have hcs : 10 ∉ cs := fun e => h (by simp [e])
    simp [splitNl, hc, ih hcs]

theorem splitNl_mem_noNl {t x : Text} (h : x ∈ splitNl t) : 10 ∉ x := by
  induction t generalizing x with
  | nil => simp [splitNl] at h; simp [h]
  | cons c cs ih =>
    unfold splitNl at h
    split at h
    · rcases List.mem_cons.mp h with h | h
      · simp [h]
      · exact ih h
    · next hc =>
      split at h
      · next he => exact absurd he (splitNl_ne_nil cs)
      · next l ls he =>
        rcases List.mem_cons.mp h with h | h
        · subst h
          have : 10 ∉ l := ih (by simp [he])
          simp only [List.mem_cons, not_or]
          exact ⟨fun e => hc e.symm, this⟩
        · exact ih (by simp [he, h])

/-- appending text without a line break extends the last piece -/
theorem splitNl_append_noNl (t : Text) {w : Text} (hw : 10 ∉ w) :
    ∃ init l, splitNl t = init ++ [l] ∧ splitNl (t ++ w) = init ++ [l ++ w] := by
  induction t with
  | nil => exact ⟨[], [], by simp [splitNl], by simpa using splitNl_noNl hw⟩
  | cons c cs ih =>
    obtain ⟨init, l, h1, h2⟩ := ih
    by_cases hc : c = 10
    · exact ⟨[] :: init, l, by simp [splitNl, hc, h1], by simp [splitNl, hc, h2]⟩
    · cases init with
      | nil =>
        exact ⟨[], c :: l, by simp [splitNl, hc, h1], by simp [splitNl, hc, h2]⟩
      | cons i is =>
        exact ⟨(c :: i) :: is, l, by simp [splitNl, hc, h1], by simp [splitNl, hc, h2]⟩

theorem unlines_append (a b : List Text) : unlines (a ++ b) = unlines a ++ unlines b := by
  simp [unlines]

theorem unlines_cons (l : Text) (ls : List Text) : unlines (l :: ls) = l ++ 10 :: unlines ls := by
  simp [unlines]

theorem splitNl_unlines_append {init : List Text} (hi : ∀ l ∈ init, 10 ∉ l) {last : Text}
    (hl : 10 ∉ last) : splitNl (unlines init ++ last) = init ++ [last] := by
  induction init with
  | nil => simpa [unlines] using splitNl_noNl hl
  | cons l ls ih =>
    rw [unlines_cons, List.append_assoc, List.cons_append,
      splitNl_append_nl (hi l (by simp)), ih (fun x hx => hi x (by simp [hx]))]
    simp

/-! ### `rstrip` -/

theorem rstrip_nil : rstrip [] = [] := rfl

theorem dropWhile_append_all {v : Text} (hv : ∀ x ∈ v, isSpace x = true) (s : Text) :
    (v ++ s).dropWhile isSpace = s.dropWhile isSpace := by
  induction v with
  | nil => rfl
  | cons x v ih =>
    rw [List.cons_append, List.dropWhile_cons_of_pos (hv x (by simp))]
    exact ih (fun y hy => hv y (by simp [hy]))

theorem rstrip_append_space (s : Text) {w : Text} (hw : ∀ x ∈ w, isSpace x = true) :
    rstrip (s ++ w) = rstrip s := by
  unfold rstrip
  rw [List.reverse_append, dropWhile_append_all (fun x hx => hw x (List.mem_reverse.mp hx))]

theorem rstrip_snoc_nonspace (s : Text) {c : Nat} (hc : isSpace c = false) :
    rstrip (s ++ [c]) = s ++ [c] := by
  unfold rstrip
  rw [List.reverse_append, List.reverse_cons, List.reverse_nil, List.nil_append,
    List.singleton_append, List.dropWhile_cons_of_neg (by simp [hc])]
  simp

theorem rstrip_cases (t : Text) :
    rstrip t = [] ∨ ∃ body c, rstrip t = body ++ [c] ∧ isSpace c = false := by
  unfold rstrip
  generalize hr : t.reverse.dropWhile isSpace = r
  cases r with
  | nil => left; rfl
  | cons c cs =>
    right
    refine ⟨cs.reverse, c, by simp, ?_⟩
    have := List.head_dropWhile_not isSpace (l := t.reverse) (by simp [hr])
    simpa [hr] using this

theorem mem_rstrip {t : Text} {x : Nat} (h : x ∈ rstrip t) : x ∈ t := by
  unfold rstrip at h
  have := (List.dropWhile_sublist isSpace (l := t.reverse)).subset (List.mem_reverse.mp h)
  exact List.mem_reverse.mp this

/-! ### newline translation -/

theorem normNlAux_no_cr (b : Bool) (t : Text) : 13 ∉ normNlAux b t := by
  induction t generalizing b with
  | nil => simp [normNlAux]
  | cons c r ih =>
    unfold normNlAux
    by_cases hc : c = 13
    · simp only [hc, ↓reduceIte, List.mem_cons, not_or]
      exact ⟨by decide, ih true⟩
    · by_cases hd : c = 10
      · subst hd
        cases b
        · simp only [show ¬ (10 : Nat) = 13 by decide, ↓reduceIte, Bool.false_eq_true,
            List.mem_cons, not_or]
          exact ⟨by decide, ih false⟩
        · simp only [show ¬ (10 : Nat) = 13 by decide, ↓reduceIte]
          exact ih false
      · simp only [hc, hd, ↓reduceIte, List.mem_cons, not_or]
        exact ⟨fun e => hc e.symm, ih false⟩

theorem normNl_no_cr (t : Text) : 13 ∉ normNl t := normNlAux_no_cr false t

theorem normNl_id {t : Text} (h : 13 ∉ t) : normNl t = t := by
  unfold normNl
  induction t with
  | nil => rfl
  | cons c r ih =>
    have hc : c ≠ 13 := fun e => h (by simp [e])
    have hr : 13 ∉ r := fun e => h (by simp [e])
    unfold normNlAux
    by_cases hd : c = 10
    · simp [hc, hd, ih hr]
    · simp [hc, hd, ih hr]

end Sshuttle.Hosts
