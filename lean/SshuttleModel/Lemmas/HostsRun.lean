/-
Running `rewrite` on the file-system model: what the hosts path holds at the end
(`finish_rewrite`) and after every prefix of the operations (`after_rewrite`).
-/
import SshuttleModel.Lemmas.HostsMarker

namespace Sshuttle.Hosts

/-- what `open(HOSTSFILE).read()` leaves in `old_content` -/
def readText (c : Option Text) : Text :=
  match c with
  | none => []
  | some t => normNl t

theorem oldLines_readText (c : Option Text) : oldLines (readText c) = lines c := by
  cases c <;> rfl

theorem keptLines_readText (p : Nat) (c : Option Text) :
    keptLines p (readText c) = foreign p (lines c) := by
  simp only [keptLines, foreign, oldLines_readText, ownB]

theorem writes_flatten (hm : HostMap) (p : Nat) (c : Option Text) :
    (writes hm p (readText c)).flatten = unlines (expected p hm (lines c)) := by
  simp only [writes, keptLines_readText, expected, unlines, List.flatMap_def]

/-- the new content the rewrite is about to install -/
def newContent (hm : HostMap) (p : Nat) (old : Text) : Text := (writes hm p old).flatten

/-! ### complete runs -/

theorem finish_step (op : Op) (cont : Ans → Proc) (fs : Fs) :
    finish (.step op cont) fs = finish (cont (fs.exec op).2) (fs.exec op).1 := rfl

theorem finish_writeAll (q : Path) (k : Proc) (ds : List Text) (fs : Fs) (j : Nat)
    (hj : fs.dir q = some j) :
    ∃ fs', finish (writeAll q ds k) fs = finish k fs' ∧ fs'.dir = fs.dir ∧
      (fs'.ino j).data = (fs.ino j).data ++ ds.flatten := by
  induction ds generalizing fs with
  | nil => exact ⟨fs, rfl, rfl, by simp⟩
  | cons d ds ih =>
    simp only [writeAll, finish_step, Fs.exec, hj]
    obtain ⟨fs', h1, h2, h3⟩ := ih (fs.setIno j { fs.ino j with data := (fs.ino j).data ++ d })
      (by simpa [Fs.setIno] using hj)
    exact ⟨fs', h1, by simpa [Fs.setIno] using h2, by simpa [Fs.setIno] using h3⟩

theorem finish_closeSteps (p : Nat) (st : Option Meta) (fs : Fs) (j : Nat)
    (hj : fs.dir (.tmp p) = some j) :
    (finish (closeSteps p st) fs).content .hosts = some (fs.ino j).data := by
  simp only [closeSteps, permSteps, renameStep, finish_step, Fs.exec, hj, Fs.setIno]
  by_cases hh : fs.dir .hosts = some j
  · simp [finish, hh, Fs.content]
  · simp [finish, hh, Fs.content, Fs.setDir]

theorem finish_tmpSteps (hm : HostMap) (p : Nat) (old : Text) (st : Option Meta) (fs : Fs) :
    (finish (tmpSteps hm p old st) fs).content .hosts = some (newContent hm p old) := by
  simp only [tmpSteps, finish_step, Fs.exec]
  cases ht : fs.dir (.tmp p) with
  | none =>
    simp only
    obtain ⟨fs', h1, h2, h3⟩ := finish_writeAll (.tmp p) (closeSteps p st) (writes hm p old)
      (fs.create (.tmp p) [] newPerm) fs.next (by simp [Fs.create])
    rw [h1, finish_closeSteps p st fs' fs.next (by rw [h2]; simp [Fs.create]), h3]
    simp [Fs.create, newContent]
  | some i =>
    simp only
    obtain ⟨fs', h1, h2, h3⟩ := finish_writeAll (.tmp p) (closeSteps p st) (writes hm p old)
      (fs.setIno i { fs.ino i with data := [] }) i (by simpa [Fs.setIno] using ht)
    rw [h1, finish_closeSteps p st fs' i (by rw [h2]; simpa [Fs.setIno] using ht), h3]
    simp [Fs.setIno, newContent]

theorem finish_bakSteps (hm : HostMap) (p : Nat) (old : Text) (st : Option Meta) (fs : Fs)
    (hex : nonBlank old = true → (fs.dir .hosts).isSome = true) :
    (finish (bakSteps hm p old st) fs).content .hosts = some (newContent hm p old) := by
  unfold bakSteps
  cases hnb : nonBlank old with
  | false => simp only [Bool.false_eq_true, ↓reduceIte]; exact finish_tmpSteps ..
  | true =>
    simp only [↓reduceIte, finish_step, Fs.exec]
    obtain ⟨i, hi⟩ := Option.isSome_iff_exists.mp (hex hnb)
    cases hb : fs.dir .bak with
    | some b => simp only [Option.isSome_some]; exact finish_tmpSteps ..
    | none =>
      simp only [Option.isSome_none, finish_step, Fs.exec, hi, hb]
      exact finish_tmpSteps ..

theorem finish_rewrite (hm : HostMap) (p : Nat) (fs : Fs) :
    (finish (rewrite hm p) fs).content .hosts =
      some (unlines (expected p hm (lines (fs.content .hosts)))) := by
  rw [← writes_flatten]
  cases hh : fs.dir .hosts with
  | none =>
    have hc : fs.content .hosts = none := by simp [Fs.content, hh]
    rw [hc]
    simp only [rewrite, finish_step, Fs.exec, hh]
    exact finish_bakSteps hm p [] none fs (by simp [nonBlank])
  | some i =>
    have hc : fs.content .hosts = some (fs.ino i).data := by simp [Fs.content, hh]
    rw [hc]
    simp only [rewrite, finish_step, Fs.exec, hh]
    exact finish_bakSteps hm p _ _ fs (by simp [hh])

/-! ### crash points -/

theorem after_step (k : Nat) (op : Op) (cont : Ans → Proc) (fs : Fs) :
    after (k + 1) (.step op cont) fs = after k (cont (fs.exec op).2) (fs.exec op).1 := rfl

theorem after_zero (pr : Proc) (fs : Fs) : after 0 pr fs = fs := by
  cases pr <;> rfl

/-- The temporary of `p` is a file of its own (not another name of the hosts file), and the
next inode number is unused by the hosts file. -/
structure TmpApart (fs : Fs) (p : Nat) : Prop where
  noAlias : ∀ i, fs.dir (.tmp p) = some i → fs.dir .hosts ≠ some i
  fresh : fs.dir .hosts ≠ some fs.next

theorem after_closeSteps (p : Nat) (st : Option Meta) (fs : Fs) (j : Nat)
    (hj : fs.dir (.tmp p) = some j) (hh : fs.dir .hosts ≠ some j) (k : Nat) :
    (after k (closeSteps p st) fs).content .hosts = fs.content .hosts ∨
      (after k (closeSteps p st) fs).content .hosts = some (fs.ino j).data := by
  have hne : Path.hosts ≠ Path.tmp p := by intro h; cases h
  match k with
  | 0 => left; rw [after_zero]
  | 1 => left; simp [closeSteps, after_step, after_zero, Fs.exec]
  | 2 =>
    left
    simp only [closeSteps, permSteps, after_step, after_zero, Fs.exec, hj, Fs.content, Fs.setIno]
    cases h : fs.dir .hosts with
    | none => rfl
    | some i => have : i ≠ j := fun e => hh (by rw [h, e]); simp [this]
  | 3 =>
    left
    simp only [closeSteps, permSteps, after_step, after_zero, Fs.exec, hj, Fs.content, Fs.setIno]
    cases h : fs.dir .hosts with
    | none => rfl
    | some i => have : i ≠ j := fun e => hh (by rw [h, e]); simp [this]
  | k + 4 =>
    right
    simp only [closeSteps, permSteps, renameStep, after_step, Fs.exec, hj, Fs.setIno, hh, ↓reduceIte]
    simp [after, Fs.content, Fs.setDir, hne]

theorem after_writeAll (q : Path) (K : Proc) (ds : List Text) (fs : Fs) (j : Nat)
    (hj : fs.dir q = some j) (hh : fs.dir .hosts ≠ some j) (k : Nat) :
    (after k (writeAll q ds K) fs).content .hosts = fs.content .hosts ∨
      ∃ fs' k', after k (writeAll q ds K) fs = after k' K fs' ∧ fs'.dir = fs.dir ∧
        fs'.content .hosts = fs.content .hosts ∧
        (fs'.ino j).data = (fs.ino j).data ++ ds.flatten := by
  induction ds generalizing fs k with
  | nil => right; exact ⟨fs, k, rfl, rfl, rfl, by simp⟩
  | cons d ds ih =>
    cases k with
    | zero => left; rw [after_zero]
    | succ k =>
      simp only [writeAll, after_step, Fs.exec, hj]
      have hc : (fs.setIno j { fs.ino j with data := (fs.ino j).data ++ d }).content .hosts =
          fs.content .hosts := by
        simp only [Fs.content, Fs.setIno]
        cases h : fs.dir .hosts with
        | none => rfl
        | some i => have : i ≠ j := fun e => hh (by rw [h, e]); simp [this]
      rcases ih (fs.setIno j { fs.ino j with data := (fs.ino j).data ++ d })
        (by simpa [Fs.setIno] using hj) (by simpa [Fs.setIno] using hh) k with h | ⟨fs', k', h1, h2, h3, h4⟩
      · left; rw [h, hc]
      · right
        exact ⟨fs', k', h1, by simpa [Fs.setIno] using h2, by rw [h3, hc],
          by simpa [Fs.setIno] using h4⟩

theorem after_tmpSteps (hm : HostMap) (p : Nat) (old : Text) (st : Option Meta) (fs : Fs)
    (ha : TmpApart fs p) (k : Nat) :
    (after k (tmpSteps hm p old st) fs).content .hosts = fs.content .hosts ∨
      (after k (tmpSteps hm p old st) fs).content .hosts = some (newContent hm p old) := by
  have hne : Path.hosts ≠ Path.tmp p := by intro h; cases h
  cases k with
  | zero => left; rw [after_zero]
  | succ k =>
    simp only [tmpSteps, after_step, Fs.exec]
    cases ht : fs.dir (.tmp p) with
    | none =>
      simp only
      have hc : (fs.create (.tmp p) [] newPerm).content .hosts = fs.content .hosts := by
        simp only [Fs.content, Fs.create, hne, ↓reduceIte]
        cases h : fs.dir .hosts with
        | none => rfl
        | some i => have : i ≠ fs.next := fun e => ha.fresh (by rw [h, e]); simp [this]
      have hd : (fs.create (.tmp p) [] newPerm).dir .hosts ≠ some fs.next := by
        simpa [Fs.create, hne] using ha.fresh
      rcases after_writeAll (.tmp p) (closeSteps p st) (writes hm p old)
        (fs.create (.tmp p) [] newPerm) fs.next (by simp [Fs.create]) hd k with h | ⟨fs', k', h1, h2, h3, h4⟩
      · left; rw [h, hc]
      · rw [h1]
        rcases after_closeSteps p st fs' fs.next (by rw [h2]; simp [Fs.create]) (by rw [h2]; exact hd) k' with h | h
        · left; rw [h, h3, hc]
        · right; rw [h, h4]; simp [Fs.create, newContent]
    | some i =>
      simp only
      have hi : fs.dir .hosts ≠ some i := ha.noAlias i ht
      have hc : (fs.setIno i { fs.ino i with data := [] }).content .hosts = fs.content .hosts := by
        simp only [Fs.content, Fs.setIno]
        cases h : fs.dir .hosts with
        | none => rfl
        | some i' => have : i' ≠ i := fun e => hi (by rw [h, e]); simp [this]
      rcases after_writeAll (.tmp p) (closeSteps p st) (writes hm p old)
        (fs.setIno i { fs.ino i with data := [] }) i (by simpa [Fs.setIno] using ht)
        (by simpa [Fs.setIno] using hi) k with h | ⟨fs', k', h1, h2, h3, h4⟩
      · left; rw [h, hc]
      · rw [h1]
        rcases after_closeSteps p st fs' i (by rw [h2]; simpa [Fs.setIno] using ht)
          (by rw [h2]; simpa [Fs.setIno] using hi) k' with h | h
        · left; rw [h, h3, hc]
        · right; rw [h, h4]; simp [Fs.setIno, newContent]

theorem after_bakSteps (hm : HostMap) (p : Nat) (old : Text) (st : Option Meta) (fs : Fs)
    (ha : TmpApart fs p) (k : Nat) :
    (after k (bakSteps hm p old st) fs).content .hosts = fs.content .hosts ∨
      (after k (bakSteps hm p old st) fs).content .hosts = some (newContent hm p old) := by
  have hne : Path.hosts ≠ Path.bak := by intro h; cases h
  have hne2 : Path.tmp p ≠ Path.bak := by intro h; cases h
  unfold bakSteps
  cases hnb : nonBlank old with
  | false => simp only [Bool.false_eq_true, ↓reduceIte]; exact after_tmpSteps hm p old st fs ha k
  | true =>
    simp only [↓reduceIte]
    cases k with
    | zero => left; rw [after_zero]
    | succ k =>
      simp only [after_step, Fs.exec]
      cases hb : fs.dir .bak with
      | some b => simp only [Option.isSome_some]; exact after_tmpSteps hm p old st fs ha k
      | none =>
        simp only [Option.isSome_none]
        cases k with
        | zero => left; rw [after_zero]
        | succ k =>
          simp only [after_step, Fs.exec, hb]
          cases hh : fs.dir .hosts with
          | none =>
            simp only
            cases k with
            | zero => left; simp [after_zero, Fs.content, hh]
            | succ k => left; simp [after_step, Fs.exec, hh, after, Fs.content]
          | some i =>
            simp only
            have ha' : TmpApart (fs.setDir .bak (some i)) p :=
              ⟨fun j hj => by
                  have := ha.noAlias j (by simpa [Fs.setDir, hne2] using hj)
                  simpa [Fs.setDir, hne] using this,
               by simpa [Fs.setDir, hne] using ha.fresh⟩
            have hc : (fs.setDir .bak (some i)).content .hosts = fs.content .hosts := by
              simp [Fs.content, Fs.setDir, hne]
            rcases after_tmpSteps hm p old st (fs.setDir .bak (some i)) ha' k with h | h
            · left; rw [h, hc]
            · right; exact h

theorem after_rewrite (hm : HostMap) (p : Nat) (fs : Fs) (ha : TmpApart fs p) (k : Nat) :
    (after k (rewrite hm p) fs).content .hosts = fs.content .hosts ∨
      (after k (rewrite hm p) fs).content .hosts =
        some (unlines (expected p hm (lines (fs.content .hosts)))) := by
  rw [← writes_flatten]
  cases k with
  | zero => left; rw [after_zero]
  | succ k =>
    simp only [rewrite, after_step, Fs.exec, Fs.content]
    cases hh : fs.dir .hosts with
    | none =>
      simp only [readText]
      have := after_bakSteps hm p [] none fs ha k
      simpa [Fs.content, hh, newContent] using this
    | some i =>
      simp only [readText]
      cases k with
      | zero => left; simp [after_zero, hh]
      | succ k =>
        simp only [after_step, Fs.exec, hh]
        have := after_bakSteps hm p (normNl (fs.ino i).data)
          (some { (fs.ino i).perm with mode := S_IFREG + (fs.ino i).perm.mode }) fs ha k
        simpa [Fs.content, hh, newContent] using this

end Sshuttle.Hosts
