/-
C12 helper lemmas, part 2: the executable monitor of `Spec/ClientTrace.lean` is sound for the
trace predicates (pure list reasoning; nothing about the program).
-/
import SshuttleModel.Spec.ClientTrace

namespace Sshuttle.ClientTrace
open Sshuttle.ClientMain

theorem monOf_snoc (t : List Ev) (e : Ev) : monOf (t ++ [e]) = (monOf t).step e := by
  simp [monOf, List.foldl_append]

theorem monOf_append (a b : List Ev) : monOf (a ++ b) = b.foldl Mon.step (monOf a) := by
  simp [monOf, List.foldl_append]

theorem step_bad_mono (m : Mon) (e : Ev) (h : m.bad = true) : (m.step e).bad = true := by
  cases e <;> simp [Mon.step, Mon.core, h]
  case fw l => cases l <;> simp [h]

theorem step_closed_mono (m : Mon) (e : Ev) (h : m.closed = true) : (m.step e).closed = true := by
  cases e <;> simp [Mon.step, Mon.core, h]
  case fw l => cases l <;> simp [h]

theorem step_dead_mono (m : Mon) (e : Ev) (h : m.dead = true) : (m.step e).dead = true := by
  cases e <;> simp [Mon.step, Mon.core, h]
  case fw l => cases l <;> simp [h]

theorem step_starts_mono (m : Mon) (e : Ev) : m.starts ≤ (m.step e).starts := by
  cases e <;> simp [Mon.step, Mon.core]
  case fw l => cases l <;> simp

theorem foldl_bad_mono (l : List Ev) (m : Mon) (h : m.bad = true) : (l.foldl Mon.step m).bad = true := by
  induction l generalizing m with
  | nil => exact h
  | cons e l ih => exact ih _ (step_bad_mono m e h)

theorem foldl_closed_mono (l : List Ev) (m : Mon) (h : m.closed = true) :
    (l.foldl Mon.step m).closed = true := by
  induction l generalizing m with
  | nil => exact h
  | cons e l ih => exact ih _ (step_closed_mono m e h)

theorem foldl_dead_mono (l : List Ev) (m : Mon) (h : m.dead = true) :
    (l.foldl Mon.step m).dead = true := by
  induction l generalizing m with
  | nil => exact h
  | cons e l ih => exact ih _ (step_dead_mono m e h)

theorem foldl_starts_mono (l : List Ev) (m : Mon) : m.starts ≤ (l.foldl Mon.step m).starts := by
  induction l generalizing m with
  | nil => exact Nat.le_refl _
  | cons e l ih => exact Nat.le_trans (step_starts_mono m e) (ih _)

/-- If the monitor accepts `pre ++ e :: post`, it had not complained after `pre ++ [e]`. -/
theorem decomp_bad {t pre post : List Ev} {e : Ev} (ht : t = pre ++ e :: post)
    (h : (monOf t).bad = false) : ((monOf pre).step e).bad = false := by
  subst ht
  rw [monOf_append] at h
  simp only [List.foldl_cons] at h
  cases hb : ((monOf pre).step e).bad with
  | false => rfl
  | true => rw [foldl_bad_mono post _ hb] at h; cases h

/-- Generic "a flag that only event class `p` can set": if it is set after `l`, it was set before or
an event of the class is in `l`. -/
theorem flag_mem (flag : Mon → Bool) (p : Ev → Prop)
    (hstep : ∀ m e, ¬ p e → (m.step e |> flag) = true → flag m = true)
    (l : List Ev) (m : Mon) (h : flag (l.foldl Mon.step m) = true) :
    flag m = true ∨ ∃ e ∈ l, p e := by
  induction l generalizing m with
  | nil => exact Or.inl h
  | cons e l ih =>
    rcases ih _ h with h' | ⟨x, hx, hp⟩
    · by_cases he : p e
      · exact Or.inr ⟨e, by simp, he⟩
      · exact Or.inl (hstep m e he h')
    · exact Or.inr ⟨x, List.mem_cons_of_mem _ hx, hp⟩

theorem hs_mem (t : List Ev) (h : (monOf t).hs = true) : ∃ b, Ev.hsOk b ∈ t := by
  rcases flag_mem (·.hs) (fun e => ∃ b, e = Ev.hsOk b) (fun m e he h => by
      cases e <;> simp [Mon.step, Mon.core] at he h ⊢ <;> try exact h
      case fw l => cases l <;> simpa using h) t {} h with h' | ⟨e, he, b, rfl⟩
  · cases h'
  · exact ⟨b, he⟩

theorem routes_mem (t : List Ev) (h : (monOf t).routes = true) : Ev.routes ∈ t := by
  rcases flag_mem (·.routes) (· = Ev.routes) (fun m e he h => by
      cases e <;> simp [Mon.step, Mon.core] at he h ⊢ <;> try exact h
      case fw l => cases l <;> simpa using h) t {} h with h' | ⟨e, he, rfl⟩
  · cases h'
  · exact he

theorem confirmed_mem (t : List Ev) (h : (monOf t).confirmed = true) : Ev.started ∈ t := by
  rcases flag_mem (·.confirmed) (· = Ev.started) (fun m e he h => by
      cases e <;> simp [Mon.step, Mon.core] at he h ⊢ <;> try exact h
      case fw l => cases l <;> simpa using h) t {} h with h' | ⟨e, he, rfl⟩
  · cases h'
  · exact he

theorem closed_mem' (l : List Ev) (m : Mon) (h : (l.foldl Mon.step m).closed = true) :
    m.closed = true ∨ Ev.close ∈ l := by
  rcases flag_mem (·.closed) (· = Ev.close) (fun m e he h => by
      cases e <;> simp [Mon.step, Mon.core] at he h ⊢ <;> try exact h
      case fw l => cases l <;> simpa using h) l m h with h' | ⟨e, he, rfl⟩
  · exact Or.inl h'
  · exact Or.inr he

theorem starts_pos_of_mem (pre post : List Ev) :
    1 ≤ (monOf (pre ++ Ev.fw .routes :: post)).starts := by
  rw [monOf_append]
  simp only [List.foldl_cons]
  refine Nat.le_trans ?_ (foldl_starts_mono post _)
  simp [Mon.step, Mon.core]

theorem closed_of_mem (pre post : List Ev) : (monOf (pre ++ Ev.close :: post)).closed = true := by
  rw [monOf_append]
  simp only [List.foldl_cons]
  exact foldl_closed_mono post _ (by simp [Mon.step, Mon.core])

theorem dead_of_mem (pre post : List Ev) : (monOf (pre ++ Ev.sshDead :: post)).dead = true := by
  rw [monOf_append]
  simp only [List.foldl_cons]
  exact foldl_dead_mono post _ (by simp [Mon.step, Mon.core])

theorem lastProbe_snoc (t : List Ev) (h : (monOf t).lastProbe = true) :
    ∃ pre' p, t = pre' ++ [p] ∧ isProbe p = true := by
  rcases List.eq_nil_or_concat t with rfl | ⟨pre', p, ht⟩
  · simp [monOf] at h
  · rw [List.concat_eq_append] at ht
    subst ht
    refine ⟨pre', p, rfl, ?_⟩
    rw [monOf_snoc] at h
    simpa [Mon.step] using h

/-- **Monitor soundness.**  A trace on which the monitor never complained and which it saw closed
satisfies every trace rule of the specification. -/
theorem mon_sound (t : List Ev) (h : (monOf t).bad = false) (hc : (monOf t).closed = true) :
    Ordered t ∧ ClosedOnce t ∧ DeadTunnelReleased t ∧ ProbeBeforeEachPass t ∧ AcceptOnlyGenuine t := by
  refine ⟨⟨?_, ?_, ?_, ?_⟩, ⟨?_, ?_, ?_⟩, ⟨?_, ?_⟩, ?_, ?_⟩
  · intro pre e post ht he
    have hb := decomp_bad ht h
    unfold IsFwStart at he; subst he
    simp [Mon.step, Mon.core] at hb
    obtain ⟨b, hb'⟩ := hs_mem pre hb.1.1.1.1.2
    exact ⟨_, hb', b, rfl⟩
  · intro pre e post ht he
    have hb := decomp_bad ht h
    unfold IsFwStart at he; subst he
    simp [Mon.step, Mon.core] at hb
    exact ⟨_, routes_mem pre hb.1.1.1.2, rfl⟩
  · intro pre e post ht he x hx hx'
    unfold IsFwStart at he hx'; subst he; subst hx'
    obtain ⟨p1, p2, hp⟩ := List.append_of_mem hx
    have ht' : t = (pre ++ Ev.fw .routes :: p1) ++ Ev.fw .routes :: p2 := by
      rw [ht, hp]; simp
    have hb := decomp_bad ht' h
    simp [Mon.step, Mon.core] at hb
    have := starts_pos_of_mem pre p1
    omega
  · intro pre e post ht he
    have hb := decomp_bad ht h
    unfold IsNotifyReady at he; subst he
    simp [Mon.step, Mon.core] at hb
    exact ⟨_, confirmed_mem pre hb.1.2, rfl⟩
  · -- close occurs
    rcases closed_mem' t {} hc with h' | h'
    · cases h'
    · exact h'
  · intro pre e post ht he x hx hx'
    subst he; subst hx'
    obtain ⟨p1, p2, hp⟩ := List.append_of_mem hx
    have ht' : t = (pre ++ Ev.close :: p1) ++ Ev.close :: p2 := by rw [ht, hp]; simp
    have hb := decomp_bad ht' h
    have hcl := closed_of_mem pre p1
    simp [Mon.step, Mon.core, hcl] at hb
  · intro pre e post ht he x hx hx'
    subst he
    obtain ⟨p1, p2, hp⟩ := List.append_of_mem hx
    have ht' : t = (pre ++ Ev.close :: p1) ++ x :: p2 := by rw [ht, hp]; simp
    have hb := decomp_bad ht' h
    have hcl := closed_of_mem pre p1
    cases x <;> simp [isPfileUse] at hx' <;> simp [Mon.step, Mon.core, hcl] at hb
    case fw l => cases l <;> simp [Mon.step, Mon.core, hcl] at hb
  · intro pre e post ht he x hx hx'
    unfold IsSshDead at he; subst he
    obtain ⟨p1, p2, hp⟩ := List.append_of_mem hx
    have ht' : t = (pre ++ Ev.sshDead :: p1) ++ x :: p2 := by rw [ht, hp]; simp
    have hb := decomp_bad ht' h
    have hd := dead_of_mem pre p1
    cases x <;> simp [isSessionUse] at hx' <;> simp [Mon.step, Mon.core, hd] at hb
    case fw l => cases l <;> simp [Mon.step, Mon.core, hd] at hb
  · intro pre post ht
    have hb := decomp_bad ht h
    simp [Mon.step, Mon.core] at hb
    have hcl : (monOf (pre ++ [Ev.sshDead])).closed = false := by
      rw [monOf_snoc]; simp [Mon.step, Mon.core, hb.2]
    have : t = (pre ++ [Ev.sshDead]) ++ post := by rw [ht]; simp
    rw [this, monOf_append] at hc
    rcases closed_mem' post _ hc with h' | h'
    · rw [hcl] at h'; cases h'
    · exact h'
  · intro pre i post ht
    have hb := decomp_bad ht h
    simp [Mon.step, Mon.core] at hb
    exact lastProbe_snoc pre hb.1.2
  · intro b hb
    obtain ⟨p1, p2, hp⟩ := List.append_of_mem hb
    have hbad := decomp_bad hp h
    simp [Mon.step, Mon.core] at hbad
    exact hbad.2

end Sshuttle.ClientTrace
