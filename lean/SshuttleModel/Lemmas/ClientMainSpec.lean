/-
C12 helper lemmas, part 2: the executable monitor of `Spec/ClientTrace.lean` is sound for the
ordering predicates (pure list reasoning; nothing about the program).
-/
import SshuttleModel.Spec.ClientTrace

namespace Sshuttle.ClientTrace
open Sshuttle.ClientMain

theorem monOf_snoc (t : List Ev) (e : Ev) : monOf (t ++ [e]) = (monOf t).step e := by
  simp [monOf, List.foldl_append]

theorem monOf_append (a b : List Ev) : monOf (a ++ b) = b.foldl Mon.step (monOf a) := by
  simp [monOf, List.foldl_append]

theorem step_bad_mono (m : Mon) (e : Ev) (h : m.bad = true) : (m.step e).bad = true := by
  cases e <;> simp [Mon.step, h]
  case fw l => cases l <;> simp [h]

theorem step_closed_mono (m : Mon) (e : Ev) (h : m.closed = true) : (m.step e).closed = true := by
  cases e <;> simp [Mon.step, h]
  case fw l => cases l <;> simp [h]

theorem step_starts_mono (m : Mon) (e : Ev) : m.starts ≤ (m.step e).starts := by
  cases e <;> simp [Mon.step]
  case fw l => cases l <;> simp

theorem foldl_bad_mono (l : List Ev) (m : Mon) (h : m.bad = true) : (l.foldl Mon.step m).bad = true := by
  induction l generalizing m with
  | nil => exact h
  | cons e l ih => exact ih _ (step_bad_mono m e h)

theorem foldl_closed_mono (l : List Ev) (m : Mon) (h : m.closed = true) :
    (l.foldl Mon.step m).closed = true := by
  induction l generalizing m with
  | nil => exact h
  | cons e l ih => exact ih _ (step_closed_mono m e h)

theorem foldl_starts_mono (l : List Ev) (m : Mon) : m.starts ≤ (l.foldl Mon.step m).starts := by
  induction l generalizing m with
  | nil => exact Nat.le_refl _
  | cons e l ih => exact Nat.le_trans (step_starts_mono m e) (ih _)

/-- If the monitor accepts `pre ++ e :: post`, it had not complained after `pre ++ [e]`. -/
theorem decomp_bad {t pre post : List Ev} {e : Ev} (ht : t = pre ++ e :: post)
    (h : (monOf t).bad = false) : ((monOf pre).step e).bad = false := by
  subst ht
  rw [monOf_append] at h
  simp only [List.foldl_cons] at h
  cases hb : ((monOf pre).step e).bad with
  | false => rfl
  | true => rw [foldl_bad_mono post _ hb] at h; cases h

theorem hs_mem' (l : List Ev) (m : Mon) (h : (l.foldl Mon.step m).hs = true) :
    m.hs = true ∨ Ev.hsOk ∈ l := by
  induction l generalizing m with
  | nil => exact Or.inl h
  | cons e l ih =>
    rcases ih _ h with h' | h'
    · by_cases he : e = Ev.hsOk
      · right; simp [he]
      · left
        have : (m.step e).hs = m.hs := by
          cases e <;> simp [Mon.step] at he ⊢
          case fw l => cases l <;> simp
        rw [this] at h'; exact h'
    · right; exact List.mem_cons_of_mem _ h'

theorem hs_mem (t : List Ev) (h : (monOf t).hs = true) : Ev.hsOk ∈ t := by
  rcases hs_mem' t {} h with h' | h'
  · cases h'
  · exact h'

theorem routes_mem' (l : List Ev) (m : Mon) (h : (l.foldl Mon.step m).routes = true) :
    m.routes = true ∨ Ev.routes ∈ l := by
  induction l generalizing m with
  | nil => exact Or.inl h
  | cons e l ih =>
    rcases ih _ h with h' | h'
    · by_cases he : e = Ev.routes
      · right; simp [he]
      · left
        have : (m.step e).routes = m.routes := by
          cases e <;> simp [Mon.step] at he ⊢
          case fw l => cases l <;> simp
        rw [this] at h'; exact h'
    · right; exact List.mem_cons_of_mem _ h'

theorem routes_mem (t : List Ev) (h : (monOf t).routes = true) : Ev.routes ∈ t := by
  rcases routes_mem' t {} h with h' | h'
  · cases h'
  · exact h'

theorem confirmed_mem' (l : List Ev) (m : Mon) (h : (l.foldl Mon.step m).confirmed = true) :
    m.confirmed = true ∨ Ev.started ∈ l := by
  induction l generalizing m with
  | nil => exact Or.inl h
  | cons e l ih =>
    rcases ih _ h with h' | h'
    · by_cases he : e = Ev.started
      · right; simp [he]
      · left
        have : (m.step e).confirmed = m.confirmed := by
          cases e <;> simp [Mon.step] at he ⊢
          case fw l => cases l <;> simp
        rw [this] at h'; exact h'
    · right; exact List.mem_cons_of_mem _ h'

theorem confirmed_mem (t : List Ev) (h : (monOf t).confirmed = true) : Ev.started ∈ t := by
  rcases confirmed_mem' t {} h with h' | h'
  · cases h'
  · exact h'

theorem starts_pos_of_mem (pre post : List Ev) :
    1 ≤ (monOf (pre ++ Ev.fw .routes :: post)).starts := by
  rw [monOf_append]
  simp only [List.foldl_cons]
  refine Nat.le_trans ?_ (foldl_starts_mono post _)
  simp [Mon.step]

theorem closed_of_mem (pre post : List Ev) : (monOf (pre ++ Ev.close :: post)).closed = true := by
  rw [monOf_append]
  simp only [List.foldl_cons]
  exact foldl_closed_mono post _ (by simp [Mon.step])

/-- **Monitor soundness.**  A trace on which the monitor never complained satisfies the three
ordering rules, and nothing happens to the control channel after it was closed. -/
theorem mon_sound (t : List Ev) (h : (monOf t).bad = false) :
    Ordered t ∧
    (∀ pre post, t = pre ++ Ev.close :: post → ∀ x ∈ post, isPfileUse x = false ∧ x ≠ Ev.close) := by
  refine ⟨⟨?_, ?_, ?_, ?_⟩, ?_⟩
  · intro pre e post ht he
    have hb := decomp_bad ht h
    unfold IsFwStart at he; subst he
    simp [Mon.step] at hb
    exact ⟨_, hs_mem pre hb.1.1.1.2, rfl⟩
  · intro pre e post ht he
    have hb := decomp_bad ht h
    unfold IsFwStart at he; subst he
    simp [Mon.step] at hb
    exact ⟨_, routes_mem pre hb.1.1.2, rfl⟩
  · intro pre e post ht he x hx hx'
    unfold IsFwStart at he hx'; subst he; subst hx'
    obtain ⟨p1, p2, hp⟩ := List.append_of_mem hx
    have ht' : t = (pre ++ Ev.fw .routes :: p1) ++ Ev.fw .routes :: p2 := by
      rw [ht, hp]; simp
    have hb := decomp_bad ht' h
    simp [Mon.step] at hb
    have := starts_pos_of_mem pre p1
    omega
  · intro pre e post ht he
    have hb := decomp_bad ht h
    unfold IsNotifyReady at he; subst he
    simp [Mon.step] at hb
    exact ⟨_, confirmed_mem pre hb.2, rfl⟩
  · intro pre post ht x hx
    obtain ⟨p1, p2, hp⟩ := List.append_of_mem hx
    have ht' : t = (pre ++ Ev.close :: p1) ++ x :: p2 := by rw [ht, hp]; simp
    have hb := decomp_bad ht' h
    have hc := closed_of_mem pre p1
    constructor
    · cases x <;> simp [isPfileUse] <;> simp [Mon.step, hc] at hb
      case fw l => cases l <;> simp [Mon.step, hc] at hb
    · intro hx; subst hx; simp [Mon.step, hc] at hb

end Sshuttle.ClientTrace
