/-
argparse `store` over the concatenated environment + command-line occurrences, against the
manual's precedence rule; `rsplit`/`split` helpers of `parse_hostport`.
-/
import SshuttleModel.Lemmas.ArgsRx

namespace Sshuttle.ArgsSpec
open Sshuttle.Inet Sshuttle.Args

theorem storeFold_eq (dest : String) (xs : List (String × Str)) :
    ∀ cur, storeFold dest cur xs = (match lastOf dest xs with
      | some v => some v
      | none => cur) := by
  induction xs with
  | nil => intro cur; rfl
  | cons x xs ih =>
    intro cur
    obtain ⟨o, v⟩ := x
    simp only [storeFold, lastOf]
    rw [ih]
    cases lastOf dest xs with
    | some y => rfl
    | none => by_cases h : o = dest <;> simp [h]

theorem lastOf_append (dest : String) (xs ys : List (String × Str)) :
    lastOf dest (xs ++ ys) = (match lastOf dest ys with
      | some v => some v
      | none => lastOf dest xs) := by
  induction xs with
  | nil => simp only [List.nil_append, lastOf]; cases lastOf dest ys <;> rfl
  | cons x xs ih =>
    obtain ⟨o, v⟩ := x
    simp only [List.cons_append, lastOf]
    rw [ih]
    cases lastOf dest ys with
    | some y => rfl
    | none => rfl

/-! ### `rsplit('@', 1)` and `split(':', 1)` -/

theorem stops_ne (sep : Char) (t : Str) : Stops (fun c => decide (c ≠ sep)) (sep :: t) :=
  Or.inr ⟨sep, t, rfl, by simp⟩

theorem all_ne_of_not_mem (sep : Char) (xs : Str) (h : sep ∉ xs) :
    ∀ x ∈ xs, (fun c => decide (c ≠ sep)) x = true := by
  intro x hx
  have : x ≠ sep := fun e => h (e ▸ hx)
  simp [this]

theorem split1_app (sep : Char) (xs rest : Str) (h : sep ∉ xs) :
    split1 sep (xs ++ sep :: rest) = (xs, rest) := by
  unfold split1
  have := span_app (fun c => decide (c ≠ sep)) xs (sep :: rest) (all_ne_of_not_mem sep xs h) (stops_ne sep rest)
  rw [this.1, this.2]; rfl

theorem rsplit1_app (sep : Char) (xs host : Str) (h : sep ∉ host) :
    rsplit1 sep (xs ++ sep :: host) = (xs, host) := by
  unfold rsplit1
  have hrev : (xs ++ sep :: host).reverse = host.reverse ++ sep :: xs.reverse := by simp
  rw [hrev]
  have := span_app (fun c => decide (c ≠ sep)) host.reverse (sep :: xs.reverse)
    (all_ne_of_not_mem sep host.reverse (by simpa using h)) (stops_ne sep xs.reverse)
  rw [this.1, this.2]; simp

end Sshuttle.ArgsSpec
