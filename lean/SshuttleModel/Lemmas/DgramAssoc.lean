/-
The client's UDP association table under arbitrary events: an association that has not reached
its deadline keeps its id through every event (C11_one_association_per_source), and the
deadline written by a capture is compared, by every later sweep, against the same clock
(C10/C11 clock-domain theorems).
-/
import SshuttleModel.Lemmas.DgramClient

namespace Sshuttle.Dgram

section assoc
variable {κ ν : Type} [DecidableEq κ]

theorem lookup_set_self (k : κ) (v : ν) (l : List (κ × ν)) : lookup k (set k v l) = some v := by
  induction l with
  | nil => simp [set, lookup]
  | cons p l ih =>
    obtain ⟨k', v'⟩ := p
    by_cases e : k' = k
    · simp [set, lookup, e]
    · simp [set, lookup, e, ih]

theorem lookup_set_ne {k k' : κ} (v : ν) (l : List (κ × ν)) (h : k' ≠ k) :
    lookup k (set k' v l) = lookup k l := by
  induction l with
  | nil => simp [set, lookup, h]
  | cons p l ih =>
    obtain ⟨k'', v''⟩ := p
    by_cases e : k'' = k'
    · subst e; simp [set, lookup, h]
    · by_cases e2 : k'' = k
      · subst e2; simp [set, lookup, Ne.symm h]
      · simp [set, lookup, e, e2, ih]

theorem lookup_filter {k : κ} {v : ν} {l : List (κ × ν)} (p : κ × ν → Bool)
    (h : lookup k l = some v) (hp : p (k, v) = true) : lookup k (l.filter p) = some v := by
  induction l with
  | nil => simp [lookup] at h
  | cons q l ih =>
    obtain ⟨k', v'⟩ := q
    by_cases e : k' = k
    · subst e
      simp only [lookup, if_true, Option.some.injEq] at h
      subst h
      simp [List.filter, hp, lookup]
    · simp only [lookup, e, if_false] at h
      by_cases hq : p (k', v') = true
      · simp [List.filter, hq, lookup, e, ih h]
      · have hq' : p (k', v') = false := by simpa using hq
        simp [List.filter, hq', ih h]

end assoc

/-- What `onaccept_udp` does to `udp_by_src`. -/
theorem onacceptUdp_table {cfg : Cfg} {now : Nat} {cap : Capture} {c c' : Client} {fr : List Frame}
    (h : onacceptUdp cfg now cap c = .ok (c', fr)) :
    c'.udpBySrc = c.udpBySrc ∨
    ∃ src dst data chan,
      recvUdp cfg.method cfg.recvMax cap = some (src, dst, data) ∧
      (∀ ch t, lookup src c.udpBySrc = some (ch, t) → ch = chan) ∧
      c'.udpBySrc = (set src (chan, now + cfg.udpHorizonS * cfg.ticksPerS) c.udpBySrc).filter
        (fun p => ¬ p.2.2 < now) := by
  unfold onacceptUdp at h
  split at h
  · simp only [Except.ok.injEq, Prod.mk.injEq] at h
    exact Or.inl (by rw [← h.1])
  · next srcip dstip data hr =>
    split at h
    · next c1 hal =>
      simp only [Except.ok.injEq, Prod.mk.injEq] at h
      obtain ⟨_, _, e3, _⟩ := udpAlloc_ok hal
      exact Or.inl (by rw [← h.1, e3])
    · next c1 chan opens hal =>
      obtain ⟨_, _, e3, e4⟩ := udpAlloc_ok hal
      simp only at h
      split at h
      · cases h
      · split at h
        · cases h
        · next c3 closes he =>
          simp only [Except.ok.injEq, Prod.mk.injEq] at h
          obtain ⟨rfl, _⟩ := h
          obtain ⟨_, _, _, _, e5, _⟩ := expire_ok he
          refine Or.inr ⟨srcip, _, data, chan, hr, ?_, ?_⟩
          · intro ch t hl
            rcases e4 with ⟨_, e6 | ⟨ch', t', hl', e6⟩⟩ | ⟨ch', hl', _, _, e6⟩
            · cases e6
            · rw [hl] at hl'
              simp only [Option.some.injEq, Prod.mk.injEq] at hl' e6
              rw [hl'.1, e6.1]
            · rw [hl] at hl'; cases hl'
          · rw [e5]; simp only [e3]

theorem CSys.step_dead {cfg : Cfg} {s : CSys} {now : Nat} {op : COp}
    (h : (s.step cfg now op).dead = none) : s.dead = none := by
  cases hd : s.dead with
  | none => rfl
  | some e =>
    unfold CSys.step at h
    simp only [hd, Option.isSome_some, if_true] at h
    cases h

/-- **An association that has not reached its deadline keeps its id through any one event.** -/
theorem assoc_survives_step {cfg : Cfg} {s : CSys} {now : Nat} {op : COp} {src : Addr} {chan t : Nat}
    (hl : lookup src s.c.udpBySrc = some (chan, t)) (hlive : ¬ t < now)
    (hd : (s.step cfg now op).dead = none) :
    ∃ t', lookup src (s.step cfg now op).c.udpBySrc = some (chan, t') ∧ ¬ t' < now := by
  have hs := CSys.step_dead hd
  have hfil : lookup src (s.c.udpBySrc.filter fun p => ¬ p.2.2 < now) = some (chan, t) :=
    lookup_filter _ hl (by simpa using hlive)
  unfold CSys.step at hd ⊢
  simp only [hs, Option.isSome_none, Bool.false_eq_true, if_false] at hd ⊢
  cases op with
  | dns cap =>
    simp only at hd ⊢
    split at hd
    · cases hd
    · next c' frames ho =>
      dsimp only
      rcases ondns_ok ho with ⟨_, _, _, e, _⟩ | ⟨_, _, _, _, c1, _, _, _, _, _, _, e7, he, _⟩
      · exact ⟨t, by rw [e]; exact hl, hlive⟩
      · obtain ⟨_, _, _, _, e5, _⟩ := expire_ok he
        exact ⟨t, by rw [e5, e7]; exact hfil, hlive⟩
  | udp cap =>
    simp only at hd ⊢
    split at hd
    · cases hd
    · next c' frames ho =>
      dsimp only
      rcases onacceptUdp_table ho with e | ⟨src', dst, data, ch, _, hsame, e⟩
      · exact ⟨t, by rw [e]; exact hl, hlive⟩
      · by_cases hsrc : src' = src
        · subst hsrc
          have := hsame chan t hl
          subst this
          refine ⟨now + cfg.udpHorizonS * cfg.ticksPerS, ?_, by omega⟩
          rw [e]
          exact lookup_filter _ (lookup_set_self _ _ _) (by simp)
        · refine ⟨t, ?_, hlive⟩
          rw [e]
          exact lookup_filter _ (by rw [lookup_set_ne _ _ hsrc]; exact hl) (by simpa using hlive)
  | accept =>
    simp only at hd ⊢
    split at hd
    · cases hd
    · next c' frames ho =>
      dsimp only
      obtain ⟨_, _, _, _, e5, _⟩ := expire_ok ho
      exact ⟨t, by rw [e5]; exact hfil, hlive⟩
  | occupy id =>
    simp only
    split
    · exact ⟨t, hl, hlive⟩
    · exact ⟨t, hl, hlive⟩
  | release id =>
    simp only
    split
    · exact ⟨t, hl, hlive⟩
    · exact ⟨t, hl, hlive⟩
  | frame f =>
    simp only at hd ⊢
    split at hd
    · cases hd
    · next c' es ho =>
      dsimp only
      rcases clientGot_ok ho with ⟨rfl, _⟩ | ⟨_, _, _, _, _, _, _, _, _, _, e, _, _⟩
      · exact ⟨t, hl, hlive⟩
      · exact ⟨t, by rw [e]; exact hl, hlive⟩

/-- "While it lives": at every event of the sequence the source's association (if any) has
not reached its deadline on the clock reading the event sees. -/
def AliveThrough (cfg : Cfg) (src : Addr) : CSys → List (Nat × COp) → Bool
  | _, [] => true
  | s, (now, op) :: rest =>
    (match lookup src s.c.udpBySrc with
     | some (_, t) => decide (¬ t < now)
     | none => true) &&
    AliveThrough cfg src (s.step cfg now op) rest

theorem CSys.run_dead {cfg : Cfg} {s : CSys} {ops : List (Nat × COp)}
    (h : (s.run cfg ops).dead = none) : s.dead = none := by
  induction ops generalizing s with
  | nil => exact h
  | cons p ops ih => exact CSys.step_dead (ih h)

theorem assoc_survives_run {cfg : Cfg} {src : Addr} {chan : Nat} (ops : List (Nat × COp)) :
    ∀ {s : CSys} {t : Nat}, lookup src s.c.udpBySrc = some (chan, t) → AliveThrough cfg src s ops = true →
      (s.run cfg ops).dead = none → ∃ t', lookup src (s.run cfg ops).c.udpBySrc = some (chan, t') := by
  induction ops with
  | nil => intro s t hl _ _; exact ⟨t, hl⟩
  | cons p ops ih =>
    intro s t hl ha hd
    obtain ⟨now, op⟩ := p
    simp only [AliveThrough, hl, Bool.and_eq_true, decide_eq_true_eq] at ha
    obtain ⟨h1, h2⟩ := ha
    have hd1 : (s.step cfg now op).dead = none := CSys.run_dead (s := s.step cfg now op) hd
    obtain ⟨t', hl', _⟩ := assoc_survives_step hl h1 hd1
    exact ih hl' h2 hd

/-- Retiring the handler `hid` (what UDP_CLOSE does) is visible to a later lookup by `hid`. -/
theorem find_map_retire (l : List UdpH) (hid : Nat) (h : UdpH) (hf : l.find? (·.hid = hid) = some h) :
    (l.map fun x => if x.hid = hid then { x with ok := false } else x).find? (·.hid = hid)
      = some { h with ok := false } := by
  induction l with
  | nil => simp at hf
  | cons x l ih =>
    by_cases e : x.hid = hid
    · simp only [List.find?_cons, e, decide_true] at hf
      simp only [Option.some.injEq] at hf
      subst hf
      simp [e]
    · simp only [List.find?_cons, e, decide_false] at hf
      simp [e, ih hf]

end Sshuttle.Dgram
