/-
C12 helper lemmas, part 7: the monadic start-up reads of `Code/ClientMain.lean` compute exactly what
the pure recognition `Handshake.handshake` of C07 computes on the same segments (whenever no read is
made to raise).  This closes the link that `C12_bad_handshake_partial` left open.
-/
import SshuttleModel.Lemmas.ClientMainHs
import SshuttleModel.Lemmas.Handshake

namespace Sshuttle.ClientMain
open Sshuttle.Handshake (Reader)

/-- A read that returns nothing leaves nothing (end of stream). -/
theorem read_nil_rest (r : Reader) (n : Nat) (hn : 1 ≤ n) (h : (Handshake.read r n).1 = []) :
    (Handshake.read r n).2 = [] := by
  unfold Handshake.read at h ⊢
  cases hr : Handshake.norm r with
  | nil => rfl
  | cons c cs =>
    rw [hr] at h
    simp only at h
    have hc := Handshake.norm_head_ne r c cs hr
    rcases List.take_eq_nil_iff.mp h with h0 | h0
    · omega
    · exact absurd h0 hc

theorem hsRead_reader (sc : Script) (n : Nat) (r : Reader) :
    Triple (fun w => w.reader = r) (hsRead sc n)
      (fun v w => v = (Handshake.read r n).1 ∧ w.reader = (Handshake.read r n).2) T := by
  unfold hsRead
  refine Triple.bind (R := fun _ w => w.reader = r) (Triple.act fun w hw => ⟨hw, trivial⟩) fun _ => ?_
  refine Triple.bind (R := fun w0 w => w.reader = r ∧ w = w0) (Triple.getW fun w hw => ⟨hw, rfl⟩) fun w0 => ?_
  refine Triple.bind (R := fun _ w => w0.reader = r ∧ w.reader = (Handshake.read w0.reader n).2) ?_ fun _ => ?_
  · refine Triple.modifyW fun w hw => ?_
    obtain ⟨h1, rfl⟩ := hw
    exact ⟨h1, rfl⟩
  · exact Triple.pure _ fun w hw => by
      obtain ⟨h1, h2⟩ := hw
      subst h1
      exact ⟨rfl, h2⟩

/-- The monadic skip loop leaves the reader where the pure one does (fuel sufficient). -/
theorem skipToNul_reader (sc : Script) (fuel : Nat) (r : Reader) (hf : r.flatten.length < fuel) :
    Triple (fun w => w.reader = r) (skipToNul sc fuel)
      (fun _ w => w.reader = (Handshake.skipToNul fuel r).getD []) T := by
  induction fuel generalizing r with
  | zero => omega
  | succ k ih =>
    unfold skipToNul Handshake.skipToNul
    refine Triple.bind (hsRead_reader sc 1 r) fun v => ?_
    obtain ⟨h1, h2, _, _⟩ := Handshake.read_spec r 1
    cases hv : (Handshake.read r 1).1 with
    | nil =>
      have hrest := read_nil_rest r 1 (Nat.le_refl 1) hv
      have e : Handshake.read r 1 = ([], []) := by
        rw [← hv, ← hrest]
      intro w hw
      obtain ⟨hw1, hw2⟩ := hw
      subst hw1
      rw [e] at hw2 ⊢
      simpa using hw2
    | cons b t =>
      have ht : t = [] := by
        rw [hv] at h2; simp at h2; exact h2
      subst ht
      have e : Handshake.read r 1 = ([b], (Handshake.read r 1).2) := by rw [← hv]
      rw [e]
      intro w hw
      obtain ⟨hw1, hw2⟩ := hw
      subst hw1
      simp only
      by_cases hb : b = 0
      · simp only [hb, ↓reduceIte]
        simpa using hw2
      · simp only [hb, ↓reduceIte]
        refine ih (Handshake.read r 1).2 ?_ w hw2
        rw [hv] at h1
        rw [← h1] at hf
        simp only [List.cons_append, List.nil_append, List.length_cons] at hf
        omega

/-- The monadic collect loop returns the bytes and leaves the reader exactly as the pure one. -/
theorem readExactly_reader (sc : Script) (fuel n : Nat) (acc : Bytes) (r : Reader) :
    Triple (fun w => w.reader = r) (readExactly sc fuel n acc)
      (fun v w => (v, w.reader) = Handshake.readExactly fuel r n acc) T := by
  induction fuel generalizing r acc with
  | zero =>
    unfold readExactly Handshake.readExactly
    exact Triple.pure _ fun w hw => by rw [hw]
  | succ k ih =>
    unfold readExactly Handshake.readExactly
    by_cases hge : acc.length ≥ n
    · simp only [hge, ↓reduceIte]
      exact Triple.pure _ fun w hw => by rw [hw]
    · simp only [hge, ↓reduceIte]
      refine Triple.bind (hsRead_reader sc _ r) fun v => ?_
      cases hv : (Handshake.read r (n - acc.length)).1 with
      | nil =>
        have e : Handshake.read r (n - acc.length) = ([], (Handshake.read r (n - acc.length)).2) := by
          rw [← hv]
        rw [e]
        intro w hw
        obtain ⟨hw1, hw2⟩ := hw
        subst hw1
        simp only [List.isEmpty_nil, ↓reduceIte]
        show (acc, w.reader) = _
        rw [hw2]
      | cons b t =>
        have e : Handshake.read r (n - acc.length) = (b :: t, (Handshake.read r (n - acc.length)).2) := by
          rw [← hv]
        rw [e]
        intro w hw
        obtain ⟨hw1, hw2⟩ := hw
        subst hw1
        simp only [List.isEmpty_cons, Bool.false_eq_true, ↓reduceIte]
        exact ih (acc ++ b :: t) (Handshake.read r (n - acc.length)).2 w hw2

/-- What the start-up reads return and leave, as a pure function of the segments on the pipe:
the very expressions `Handshake.handshake` is made of. -/
def initOf (r : Reader) : Bytes × Reader :=
  let fuel := Handshake.total r + 1
  let r1 := (Handshake.skipToNul fuel r).getD []
  let r2 := (Handshake.skipToNul fuel r1).getD []
  Handshake.readExactly (Handshake.expected.length + 1) r2 Handshake.expected.length []

theorem handshake_eq_initOf (r : Reader) :
    Handshake.handshake r =
      if (initOf r).1 = Handshake.expected then .ok (initOf r).2 else .fatal (initOf r).1 := by
  unfold Handshake.handshake initOf
  rfl

theorem afterNul_le (s t : Bytes) (h : Handshake.afterNul s = some t) : t.length ≤ s.length := by
  induction s with
  | nil => simp [Handshake.afterNul] at h
  | cons b rest ih =>
    unfold Handshake.afterNul at h
    split at h
    · injection h with h; subst h; simp
    · have := ih h; simp only [List.length_cons]; omega

theorem skip_getD_length (fuel : Nat) (r : Reader) (h : r.flatten.length < fuel) :
    ((Handshake.skipToNul fuel r).getD []).flatten.length ≤ r.flatten.length := by
  have hs := Handshake.skipToNul_spec fuel r h
  cases hk : Handshake.skipToNul fuel r with
  | none => simp
  | some r1 =>
    rw [hk] at hs
    simp only [Option.map_some] at hs
    have := afterNul_le _ _ hs.symm
    simp only [Option.getD_some]
    omega

theorem readInit_reader (sc : Script) (r : Reader) :
    Triple (fun w => w.reader = r) (readInit sc (Handshake.total r + 1))
      (fun v w => (v, w.reader) = initOf r) T := by
  have htot : Handshake.total r = r.flatten.length := by
    unfold Handshake.total; rw [List.length_flatten]
  unfold readInit initOf
  simp only [htot]
  have h1 : r.flatten.length < r.flatten.length + 1 := by omega
  refine Triple.bind (skipToNul_reader sc _ r h1) fun _ => ?_
  have h2 := skip_getD_length _ r h1
  refine Triple.bind (skipToNul_reader sc _ _ (by omega)) fun _ => ?_
  exact readExactly_reader sc _ _ [] _

end Sshuttle.ClientMain

namespace Sshuttle.ClientMain
open Sshuttle.Handshake (Reader)

/-- If the start-up checks succeed on the segments `r`, the init string and the unread rest are
those of the pure recognition, and the init string is the genuine one. -/
theorem startupChecks_link (sc : Script) (r : Reader) :
    Triple (fun w => w.reader = r) (startupChecks sc)
      (fun init w => (init, w.reader) = initOf r ∧ init = Handshake.expected) T := by
  unfold startupChecks
  refine Triple.bind (R := fun _ w => w.reader = r) (Triple.mapExc (Triple.act fun w hw => ⟨hw, trivial⟩)) fun _ => ?_
  refine Triple.bind (R := fun _ w => w.reader = r) (Triple.modifyW fun w hw => hw) fun _ => ?_
  refine Triple.bind (R := fun w0 w => w.reader = r ∧ w0.reader = r) (Triple.getW fun w hw => ⟨hw, hw⟩) fun w0 => ?_
  refine Triple.bind (R := fun init w => (init, w.reader) = initOf r) ?_ fun init => ?_
  · intro w hw
    obtain ⟨h1, h2⟩ := hw
    rw [h2]
    exact Triple.mapExc (readInit_reader sc r) w h1
  refine Triple.bind (R := fun _ w => (init, w.reader) = initOf r)
    (Triple.act fun w hw => ⟨hw, trivial⟩) fun _ => ?_
  refine Triple.bind (R := fun _ w => (init, w.reader) = initOf r) ?_ fun _ => ?_
  · exact Triple.ite (Triple.raise _ fun _ _ => trivial) (Triple.pure _ fun w hw => hw)
  refine Triple.bind (R := fun _ w => (init, w.reader) = initOf r ∧ init = Handshake.expected) ?_ fun _ => ?_
  · by_cases hi : init = Handshake.expected
    · simp only [hi, ne_eq, not_true_eq_false, ↓reduceIte]
      exact Triple.pure _ fun w hw => ⟨by simpa [hi] using hw, trivial⟩
    · simp only [ne_eq, hi, not_false_eq_true, ↓reduceIte]
      exact Triple.raise _ fun _ _ => trivial
  · exact Triple.pure _ fun w hw => hw

end Sshuttle.ClientMain
