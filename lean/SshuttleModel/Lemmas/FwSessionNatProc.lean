/-
nat method, configuration level: `putNat s v` lays a view over a base configuration `s`;
`natSetup` under any fault schedule ends (normally or not) in `putNat s v` for a `Partial` view;
`natRestore` with no further fault maps every such configuration back to `s`.
-/
import SshuttleModel.Lemmas.FwSessionNat

namespace Sshuttle.Fw

def putNat (f : Fam) (p : Nat) (o : Opts) (s : FwState) (v : NatView) : FwState :=
  { s with ipt := fun f' t' =>
      if f' = f then
        match t' with
        | .nat => buildNat p o (s.ipt f .nat) v
        | .mangle => buildMangle p o (s.ipt f .mangle) v
        | _ => s.ipt f' t'
      else s.ipt f' t' }

theorem FwState.ext' {a b : FwState} (h1 : a.ipt = b.ipt) (h2 : a.nft = b.nft) (h3 : a.pf = b.pf) :
    a = b := by
  cases a; cases b; simp_all

@[simp] theorem putNat_nft (f p o s v) : (putNat f p o s v).nft = s.nft := rfl
@[simp] theorem putNat_pf (f p o s v) : (putNat f p o s v).pf = s.pf := rfl

theorem putNat_ipt_nat (f p o s v) :
    (putNat f p o s v).ipt f .nat = buildNat p o (s.ipt f .nat) v := by simp [putNat]
theorem putNat_ipt_mangle (f p o s v) :
    (putNat f p o s v).ipt f .mangle = buildMangle p o (s.ipt f .mangle) v := by simp [putNat]
theorem putNat_ipt_other_fam (f p o s v) (f' : Fam) (t : Tbl) (h : f' ≠ f) :
    (putNat f p o s v).ipt f' t = s.ipt f' t := by simp [putNat, h]
theorem putNat_ipt_other_tbl (f p o s v) (f' : Fam) (t : Tbl) (h1 : t ≠ .nat) (h2 : t ≠ .mangle) :
    (putNat f p o s v).ipt f' t = s.ipt f' t := by
  unfold putNat
  by_cases hf : f' = f
  · cases t <;> simp_all
  · simp [hf]

@[simp] theorem putNat_empty (f p o s) : putNat f p o s NatView.empty = s := by
  refine FwState.ext' ?_ rfl rfl
  funext f' t'
  unfold putNat
  by_cases hf : f' = f
  · subst hf; cases t' <;> simp
  · simp [hf]

theorem putNat_setTable_nat (f p o s) (v v' : NatView) :
    (putNat f p o s v).setTable f .nat (buildNat p o (s.ipt f .nat) v') =
      putNat f p o s ⟨v'.chain, v'.out, v'.pre, v.mark⟩ := by
  refine FwState.ext' ?_ rfl rfl
  funext f' t'
  unfold putNat FwState.setTable
  by_cases hf : f' = f
  · subst hf; cases t' <;> simp [buildNat, buildMangle]
  · simp [hf]

theorem putNat_setTable_mangle (f p o s) (v v' : NatView) :
    (putNat f p o s v).setTable f .mangle (buildMangle p o (s.ipt f .mangle) v') =
      putNat f p o s ⟨v.chain, v.out, v.pre, v'.mark⟩ := by
  refine FwState.ext' ?_ rfl rfl
  funext f' t'
  unfold putNat FwState.setTable
  by_cases hf : f' = f
  · subst hf; cases t' <;> simp [buildNat, buildMangle]
  · simp [hf]

theorem apply_ipt (s : FwState) (f : Fam) (t : Tbl) (op : IptOp) :
    s.apply (.ipt f t op) = (Table.apply (s.ipt f t) op).map fun x => s.setTable f t x := rfl

/-- The views `restore_firewall` can cope with: nothing of ours without our chain. -/
def NatPartial (o : Opts) (v : NatView) : Prop :=
  (v.chain = none → v.out = false ∧ v.pre = false ∧ v.mark = false) ∧ (o.owner = false → v.mark = false)

def NatInv (f : Fam) (p : Nat) (o : Opts) (s : FwState) (st : FwState) : Prop :=
  ∃ v, NatPartial o v ∧ st = putNat f p o s v

section
variable {f : Fam} {p : Nat} {o : Opts} {s : FwState} (hF : NatFresh f p o s)

theorem natInv_base : NatInv f p o s s := ⟨NatView.empty, ⟨fun _ => ⟨rfl, rfl, rfl⟩, fun _ => rfl⟩, by simp⟩

include hF in
theorem chainExists_put (v : NatView) (e : Env) (he : e.st = putNat f p o s v) :
    SameRun e (chainExists f .nat (.own .main p) e).2 ∧
    (chainExists f .nat (.own .main p) e).2.st = e.st ∧
    ((chainExists f .nat (.own .main p) e).1 = none ∨
     (chainExists f .nat (.own .main p) e).1 = some v.chain.isSome) := by
  unfold chainExists
  obtain ⟨hs, hc⟩ := exec_cases (.iptList f .nat) e
  cases hr : exec (.iptList f .nat) e with
  | mk ok e1 =>
    rw [hr] at hs hc
    have hst : e1.st = e.st := by
      rcases hc with ⟨_, h⟩ | ⟨_, h⟩
      · exact h
      · simp only [FwState.apply] at h; injection h with h; exact h.symm
    cases ok with
    | false => exact ⟨hs, hst, Or.inl rfl⟩
    | true =>
      refine ⟨hs, hst, Or.inr ?_⟩
      simp only [hst, he, FwState.chainNames, putNat_ipt_nat]
      congr 1
      have := buildNat_has_main (o := o) hF.noChain v
      unfold Table.has at this
      rw [← this]
      rw [Bool.eq_iff_iff]
      simp

theorem nat_op_ok (v : NatView) (op : IptOp) (st' : FwState)
    (h : (putNat f p o s v).apply (.ipt f .nat op) = some st') :
    ∃ x, (buildNat p o (s.ipt f .nat) v).apply op = some x ∧
      st' = (putNat f p o s v).setTable f .nat x := by
  rw [apply_ipt, putNat_ipt_nat] at h
  cases hx : (buildNat p o (s.ipt f .nat) v).apply op with
  | none => rw [hx] at h; cases h
  | some x => rw [hx] at h; injection h with h; exact ⟨x, rfl, h.symm⟩

theorem mangle_op_ok (v : NatView) (op : IptOp) (st' : FwState)
    (h : (putNat f p o s v).apply (.ipt f .mangle op) = some st') :
    ∃ x, (buildMangle p o (s.ipt f .mangle) v).apply op = some x ∧
      st' = (putNat f p o s v).setTable f .mangle x := by
  rw [apply_ipt, putNat_ipt_mangle] at h
  cases hx : (buildMangle p o (s.ipt f .mangle) v).apply op with
  | none => rw [hx] at h; cases h
  | some x => rw [hx] at h; injection h with h; exact ⟨x, rfl, h.symm⟩

theorem putNat_self_nat (v : NatView) :
    (putNat f p o s v).setTable f .nat (buildNat p o (s.ipt f .nat) v) = putNat f p o s v := by
  rw [putNat_setTable_nat]

theorem lift_getD_nat (v v' : NatView) (op : IptOp) (hm : v'.mark = v.mark)
    (h : ((buildNat p o (s.ipt f .nat) v).apply op).getD (buildNat p o (s.ipt f .nat) v) =
      buildNat p o (s.ipt f .nat) v') :
    ((putNat f p o s v).apply (.ipt f .nat op)).getD (putNat f p o s v) = putNat f p o s v' := by
  rw [apply_ipt, putNat_ipt_nat]
  cases hx : (buildNat p o (s.ipt f .nat) v).apply op with
  | none =>
    rw [hx] at h
    simp only [Option.getD_none, Option.map_none] at h ⊢
    have e1 := putNat_setTable_nat f p o s v v'
    have e2 := putNat_setTable_nat f p o s v v
    rw [← h] at e1
    rw [e2] at e1
    cases v; cases v'
    simp only at hm e1 ⊢
    subst hm
    exact e1
  | some x =>
    rw [hx] at h
    simp only [Option.getD_some, Option.map_some] at h ⊢
    rw [h, putNat_setTable_nat, ← hm]

theorem lift_getD_mangle (v v' : NatView) (op : IptOp)
    (hm : v'.chain = v.chain ∧ v'.out = v.out ∧ v'.pre = v.pre)
    (h : ((buildMangle p o (s.ipt f .mangle) v).apply op).getD (buildMangle p o (s.ipt f .mangle) v) =
      buildMangle p o (s.ipt f .mangle) v') :
    ((putNat f p o s v).apply (.ipt f .mangle op)).getD (putNat f p o s v) = putNat f p o s v' := by
  rw [apply_ipt, putNat_ipt_mangle]
  obtain ⟨h1, h2, h3⟩ := hm
  cases hx : (buildMangle p o (s.ipt f .mangle) v).apply op with
  | none =>
    rw [hx] at h
    simp only [Option.getD_none, Option.map_none] at h ⊢
    have e1 := putNat_setTable_mangle f p o s v v'
    have e2 := putNat_setTable_mangle f p o s v v
    rw [← h] at e1
    rw [e2] at e1
    cases v; cases v'
    simp only at h1 h2 h3 e1 ⊢
    subst h1 h2 h3
    exact e1
  | some x =>
    rw [hx] at h
    simp only [Option.getD_some, Option.map_some] at h ⊢
    rw [h, putNat_setTable_mangle, ← h1, ← h2, ← h3]

include hF in
theorem chainExists_natural (v : NatView) (e : Env) (he : e.st = putNat f p o s v) (hN : NoFault e) :
    (chainExists f .nat (.own .main p) e).1 = some v.chain.isSome ∧
    (chainExists f .nat (.own .main p) e).2.st = e.st ∧
    NoFault (chainExists f .nat (.own .main p) e).2 ∧
    SameRun e (chainExists f .nat (.own .main p) e).2 := by
  obtain ⟨h1, h2, h3⟩ := chainExists_put hF v e he
  refine ⟨?_, h2, hN.of_sameRun h1, h1⟩
  rcases h3 with h3 | h3
  · exfalso
    unfold chainExists at h3
    have := (exec_natural (.iptList f .nat) e hN).1
    cases hr : exec (.iptList f .nat) e with
    | mk ok e1 =>
      rw [hr] at h3 this
      simp only [FwState.apply, Option.isSome_some] at this
      subst this
      simp at h3
  · exact h3

include hF in
theorem natTail_natural (rs : List Rule) (a b : Bool) :
    runNat [ (true, Cmd.ipt f .nat (.delete OUTPUT (natJump o p))),
             (true, .ipt f .nat (.delete PREROUTING (natJump o p))),
             (true, .ipt f .nat (.flush (.own .main p))),
             (false, .ipt f .nat (.delChain (.own .main p))) ]
      (putNat f p o s ⟨some rs, a, b, false⟩) = (none, s) := by
  rw [runNat_nf, lift_getD_nat ⟨some rs, a, b, false⟩ ⟨some rs, false, b, false⟩ _ rfl
        (apply_delete_out hF.noRef _)]
  rw [runNat_nf, lift_getD_nat ⟨some rs, false, b, false⟩ ⟨some rs, false, false, false⟩ _ rfl
        (apply_delete_pre hF.noRef _)]
  rw [runNat_nf, lift_getD_nat ⟨some rs, false, false, false⟩ ⟨some [], false, false, false⟩ _ rfl
        (by rw [apply_flush hF.noChain]; rfl)]
  have hx := lift_getD_nat (f := f) (p := p) (o := o) (s := s) ⟨some [], false, false, false⟩
    ⟨none, false, false, false⟩
    (.delChain (.own .main p)) rfl (by rw [apply_delChain hF.noChain hF.noRef]; rfl)
  have hsome : ((putNat f p o s ⟨some [], false, false, false⟩).apply
      (.ipt f .nat (.delChain (.own .main p)))).isSome := by
    rw [apply_ipt, putNat_ipt_nat, apply_delChain hF.noChain hF.noRef]; rfl
  simp only [runNat]
  cases ha : (putNat f p o s ⟨some [], false, false, false⟩).apply (.ipt f .nat (.delChain (.own .main p))) with
  | none => rw [ha] at hsome; cases hsome
  | some st' =>
    rw [ha] at hx
    simp only [Option.getD_some] at hx
    simp only [hx]
    congr 1
    exact putNat_empty f p o s

include hF in
/-- `restore_firewall` with no further fault undoes every partial set-up. -/
theorem natRestore_natural (pl : FamPlan) (hf : pl.fam = f) (hp : pl.port = p) (hu : o.udp = false)
    (e : Env) (hN : NoFault e) (v : NatView) (hv : NatPartial o v) (he : e.st = putNat f p o s v) :
    (natRestore pl o e).2.st = s ∧ NoFault (natRestore pl o e).2 ∧ SameRun e (natRestore pl o e).2 := by
  subst hf hp
  unfold natRestore ifChain
  simp only [hu, Bool.false_eq_true, if_false]
  obtain ⟨h1, h2, h3, h4⟩ := chainExists_natural hF v e he hN
  cases hr : chainExists pl.fam .nat (.own .main pl.port) e with
  | mk r e1 =>
    rw [hr] at h1 h2 h3 h4
    simp only at h1 h2 h3 h4
    subst h1
    obtain ⟨vc, vo, vp, vm⟩ := v
    cases vc with
    | none =>
      simp only [Option.isSome_none]
      obtain ⟨hv1, _⟩ := hv
      obtain ⟨ho, hp', hm⟩ := hv1 rfl
      simp only at ho hp' hm
      subst ho hp' hm
      refine ⟨?_, h3, h4⟩
      rw [h2, he]
      exact putNat_empty _ _ _ _
    | some rs =>
      simp only [Option.isSome_some]
      obtain ⟨hs1, hs2, hs3, hs4⟩ := steps_natural
        ((if o.owner = true then
            [(Gen.C04.NAT_RESTORE_NONFATAL_MARK,
              Cmd.ipt pl.fam .mangle (.delete OUTPUT (natMarkRule o pl.port)))] else []) ++
          [(Gen.C04.NAT_RESTORE_NONFATAL_D_OUTPUT, .ipt pl.fam .nat (.delete OUTPUT (natJump o pl.port))),
           (Gen.C04.NAT_RESTORE_NONFATAL_D_PREROUTING, .ipt pl.fam .nat (.delete PREROUTING (natJump o pl.port))),
           (Gen.C04.NAT_RESTORE_NONFATAL_F, .ipt pl.fam .nat (.flush (.own .main pl.port))),
           (Gen.C04.NAT_RESTORE_NONFATAL_X, .ipt pl.fam .nat (.delChain (.own .main pl.port)))]) e1 h3
      refine ⟨?_, hs3, h4.trans hs4⟩
      rw [hs2, h2, he]
      have hflags : Gen.C04.NAT_RESTORE_NONFATAL_MARK = true ∧ Gen.C04.NAT_RESTORE_NONFATAL_D_OUTPUT = true ∧
          Gen.C04.NAT_RESTORE_NONFATAL_D_PREROUTING = true ∧ Gen.C04.NAT_RESTORE_NONFATAL_F = true ∧
          Gen.C04.NAT_RESTORE_NONFATAL_X = false := by decide
      obtain ⟨g1, g2, g3, g4, g5⟩ := hflags
      rw [g1, g2, g3, g4, g5]
      cases hown : o.owner with
      | false =>
        have : vm = false := hv.2 hown
        subst this
        simp only [Bool.false_eq_true, if_false, List.nil_append]
        rw [natTail_natural hF]
      | true =>
        simp only [if_true, List.singleton_append]
        rw [runNat_nf, lift_getD_mangle ⟨some rs, vo, vp, vm⟩ ⟨some rs, vo, vp, false⟩ _ ⟨rfl, rfl, rfl⟩
          (apply_delete_mark hF.noMark _)]
        rw [natTail_natural hF]

theorem nat_hok (v v' : NatView) (op : IptOp) (hm : v'.mark = v.mark)
    (htab : ∀ x, (buildNat p o (s.ipt f .nat) v).apply op = some x → x = buildNat p o (s.ipt f .nat) v')
    (st st' : FwState) (hst : st = putNat f p o s v) (h : st.apply (.ipt f .nat op) = some st') :
    st' = putNat f p o s v' := by
  subst hst
  obtain ⟨x, hx, hst'⟩ := nat_op_ok v op st' h
  rw [htab x hx, putNat_setTable_nat] at hst'
  cases v; cases v'
  simp only at hm hst' ⊢
  subst hm
  exact hst'

theorem mangle_hok (v v' : NatView) (op : IptOp)
    (hm : v'.chain = v.chain ∧ v'.out = v.out ∧ v'.pre = v.pre)
    (htab : ∀ x, (buildMangle p o (s.ipt f .mangle) v).apply op = some x →
      x = buildMangle p o (s.ipt f .mangle) v')
    (st st' : FwState) (hst : st = putNat f p o s v) (h : st.apply (.ipt f .mangle op) = some st') :
    st' = putNat f p o s v' := by
  subst hst
  obtain ⟨x, hx, hst'⟩ := mangle_op_ok v op st' h
  rw [htab x hx, putNat_setTable_mangle] at hst'
  obtain ⟨h1, h2, h3⟩ := hm
  cases v; cases v'
  simp only at h1 h2 h3 hst' ⊢
  subst h1 h2 h3
  exact hst'

theorem natPartial_some (rs : List Rule) (a b m : Bool) (hm : o.owner = false → m = false) :
    NatPartial o ⟨some rs, a, b, m⟩ := by
  constructor
  · intro h; cases h
  · exact hm

include hF in
/-- Whatever fails during `setup_firewall` (and wherever it stops), what it leaves is a `Partial`
view over the base configuration. -/
theorem natSetup_hoare (pl : FamPlan) (hf : pl.fam = f) (hp : pl.port = p) :
    Hoare (fun st => st = s) (natSetup pl o) (NatInv f p o s) (NatInv f p o s) := by
  subst hf hp
  unfold natSetup
  by_cases hu : o.udp = true
  · simp only [hu, if_true]
    exact (Hoare.raise (Q := NatInv pl.fam pl.port o s) _).weaken (fun _ h => h) (fun _ h => h)
      (fun st h => h ▸ natInv_base)
  have hu' : o.udp = false := by simpa using hu
  simp only [hu', Bool.false_eq_true, if_false]
  have hbase : ∀ st, st = s → NatInv pl.fam pl.port o s st := fun st h => h ▸ natInv_base
  apply Hoare.seq (Q := fun st => st = s)
  · -- the initial restore_firewall finds nothing
    intro e he
    unfold natRestore ifChain
    simp only [hu', Bool.false_eq_true, if_false]
    have he' : e.st = putNat pl.fam pl.port o s NatView.empty := by rw [putNat_empty]; exact he
    obtain ⟨h1, h2, h3⟩ := chainExists_put hF NatView.empty e he'
    cases hr : chainExists pl.fam .nat (.own .main pl.port) e with
    | mk r e1 =>
      rw [hr] at h1 h2 h3
      simp only at h1 h2 h3
      rcases h3 with h3 | h3
      · subst h3; exact ⟨h1, hbase _ (h2.trans he)⟩
      · subst h3
        simp only [NatView.empty, Option.isSome_none]
        exact ⟨h1, h2.trans he⟩
  · rw [steps_append, steps_append, steps_append]
    let Q1 : FwState → Prop := fun st => st = putNat pl.fam pl.port o s ⟨some [], false, false, false⟩
    let Q2 : Bool → Bool → FwState → Prop := fun a b st =>
      ∃ m, (o.owner = false → m = false) ∧ st = putNat pl.fam pl.port o s ⟨some [], a, b, m⟩
    let Q5 : FwState → Prop := fun st =>
      ∃ rs m, (o.owner = false → m = false) ∧ st = putNat pl.fam pl.port o s ⟨some rs, true, true, m⟩
    have hQ1 : ∀ st, Q1 st → NatInv pl.fam pl.port o s st :=
      fun st h => ⟨_, natPartial_some [] false false false (fun _ => rfl), h⟩
    have hQ2 : ∀ a b st, Q2 a b st → NatInv pl.fam pl.port o s st :=
      fun a b st ⟨m, hm, h⟩ => ⟨_, natPartial_some [] a b m hm, h⟩
    have hQ5 : ∀ st, Q5 st → NatInv pl.fam pl.port o s st :=
      fun st ⟨rs, m, hm, h⟩ => ⟨_, natPartial_some rs true true m hm, h⟩
    apply Hoare.seq (Q := Q2 true true)
    apply Hoare.seq (Q := Q2 false false)
    apply Hoare.seq (Q := Q1)
    · -- -N, -F
      simp only [steps, Bool.false_eq_true, if_false]
      apply Hoare.seq (Q := Q1)
      · apply Hoare.cmdF hbase
        intro st st' hst h
        have hst' : st = putNat pl.fam pl.port o s NatView.empty := by rw [putNat_empty]; exact hst
        refine nat_hok NatView.empty ⟨some [], false, false, false⟩ _ rfl ?_ st st' hst' h
        intro x hx
        rw [apply_newChain hF.noChain] at hx
        simpa [NatView.empty] using hx.symm
      · apply Hoare.seq (Q := Q1)
        · apply Hoare.cmdF hQ1
          intro st st' hst h
          refine nat_hok ⟨some [], false, false, false⟩ ⟨some [], false, false, false⟩ _ rfl ?_ st st' hst h
          intro x hx
          rw [apply_flush hF.noChain] at hx
          simpa using hx.symm
        · exact Hoare.skip
    · -- the MARK rule (user/group mode), wrapped in nonfatal
      cases hown : o.owner with
      | false =>
        simp only [Bool.false_eq_true, if_false, steps]
        exact Hoare.skip.weaken (fun _ h => h) (fun st h => ⟨false, fun _ => rfl, h⟩) (fun _ h => h)
      | true =>
        have hflag : Gen.C04.NAT_SETUP_NONFATAL_MARK = true := by decide
        simp only [if_true, steps, hflag]
        apply Hoare.seq (Q := Q2 false false)
        · apply Hoare.cmdN
          · exact fun st h => ⟨false, fun _ => rfl, h⟩
          · intro st st' hst h
            refine ⟨true, (fun h => absurd (hown.symm.trans h) (by decide)), ?_⟩
            refine mangle_hok ⟨some [], false, false, false⟩ ⟨some [], false, false, true⟩ _
              ⟨rfl, rfl, rfl⟩ ?_ st st' hst h
            intro x hx
            exact apply_insert_mark _ rfl x hx
        · exact Hoare.skip
    · -- -I OUTPUT, -I PREROUTING
      simp only [steps, Bool.false_eq_true, if_false]
      apply Hoare.seq (Q := Q2 true false)
      · apply Hoare.cmdF (hQ2 false false)
        rintro st st' ⟨m, hm, hst⟩ h
        refine ⟨m, hm, ?_⟩
        refine nat_hok ⟨some [], false, false, m⟩ ⟨some [], true, false, m⟩ _ rfl ?_ st st' hst h
        intro x hx
        exact apply_insert_out _ rfl x hx
      · apply Hoare.seq (Q := Q2 true true)
        · apply Hoare.cmdF (hQ2 true false)
          rintro st st' ⟨m, hm, hst⟩ h
          refine ⟨m, hm, ?_⟩
          refine nat_hok ⟨some [], true, false, m⟩ ⟨some [], true, true, m⟩ _ rfl ?_ st st' hst h
          intro x hx
          exact apply_insert_pre _ rfl x hx
        · exact Hoare.skip
    · -- the chain body
      have hk : Keeps Q5 (steps (pl.body.map fun kr =>
          (false, Cmd.ipt pl.fam .nat (.append (.own kr.1 pl.port) kr.2)))) := by
        apply Keeps.steps
        intro bc hbc st st' hst h
        obtain ⟨kr, _, rfl⟩ := List.mem_map.mp hbc
        obtain ⟨rs, m, hm, hst⟩ := hst
        subst hst
        obtain ⟨x, hx, hst'⟩ := nat_op_ok _ _ st' h
        by_cases hkm : kr.1 = .main
        · rw [hkm] at hx
          obtain ⟨rs', hrs'⟩ := apply_append_main hF.noChain _ _ x hx
          refine ⟨rs', m, hm, ?_⟩
          rw [hst', hrs', putNat_setTable_nat]
        · rw [apply_append_other hF.noChain _ _ hkm] at hx
          cases hx
      exact hk.hoare.weaken (fun st ⟨m, hm, h⟩ => ⟨[], m, hm, h⟩) hQ5 hQ5

end

end Sshuttle.Fw
