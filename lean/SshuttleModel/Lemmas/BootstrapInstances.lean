/-
C18: the values and source shapes regenerated from the working tree on every run
(`Gen/C18.lean`), pinned to what `Code/Bootstrap.lean` was written for.  A change in the
repository that the model does not follow breaks one of these (a broken proof obligation).
-/
import SshuttleModel.Lemmas.BootstrapFraming

namespace Sshuttle.Bootstrap

instance (n : Bytes) : Decidable (CleanName n) := by unfold CleanName; infer_instance

/-- `empackage` is the function the model mirrors (shared `z`, length taken after the flush). -/
theorem pin_empackage : Gen.C18.EMPACKAGE_SRC =
    "def empackage(z, name, data=None):\n    if not data:\n        data = get_module_source(name)\n    content = z.compress(data)\n    content += z.flush(zlib.Z_SYNC_FLUSH)\n    return b'%s\\n%d\\n%s' % (name.encode('ASCII'), len(content), content)" := by rfl

/-- the assembler loop is the loop the model mirrors -/
theorem pin_assembler_loop : Gen.C18.ASSEMBLER_LOOP_SRC =
    "while 1:\n    name = stdin.readline().strip()\n    if name:\n        if sys.version_info >= (3, 0):\n            name = name.decode('ASCII')\n        nbytes = int(stdin.readline())\n        if verbosity >= 2:\n            sys.stderr.write(' s: assembling %r (%d bytes)\\n' % (name, nbytes))\n        content = z.decompress(stdin.read(nbytes))\n        module = types.ModuleType(name)\n        parents = name.rsplit('.', 1)\n        if len(parents) == 2:\n            parent, parent_name = parents\n            setattr(sys.modules[parent], parent_name, module)\n        code = compile(content, name, 'exec')\n        exec(code, module.__dict__)\n        sys.modules[name] = module\n    else:\n        break" := by rfl

/-- `get_module_source` reads the file in binary mode and returns the bytes unchanged -/
theorem pin_get_module_source : Gen.C18.GET_MODULE_SOURCE_SRC =
    "def get_module_source(name):\n    spec = importlib.util.find_spec(name)\n    with open(spec.origin, 'rb') as f:\n        return f.read()" := by rfl

theorem pin_source_binary : Gen.C18.SOURCE_BINARY = true := by decide
theorem pin_terminator : Gen.C18.TERMINATOR = [10] := by decide
theorem pin_shared_compressor : Gen.C18.SHARED_COMPRESSOR = true := by decide
theorem pin_shared_decompressor : Gen.C18.SHARED_DECOMPRESSOR = true := by decide
theorem pin_pyscript : Gen.C18.PYSCRIPT_READS_LEN_CONTENT = true := by decide
theorem pin_connect_writes : Gen.C18.CONNECT_WRITES = ["content", "content2"] := by decide
theorem pin_opt_format : Gen.C18.OPT_FORMAT = "%s=%r\n" ∧ Gen.C18.OPT_ENCODING = "UTF8" := by decide
theorem pin_option_keys : Gen.C18.OPTION_KEYS = Gen.C18.ASSEMBLER_MAIN_ARGS := by decide
/-- `assembler.py`'s call hands every parameter of the real `server.main` the option of the
same name (the call order and the parameter list agree) -/
theorem pin_main_binding : Gen.C18.MAIN_BINDING = Gen.C18.SERVER_MAIN_PARAMS := by decide
/-- the parameters of `server.main` are exactly the options the client sends -/
theorem pin_main_params : (∀ p ∈ Gen.C18.SERVER_MAIN_PARAMS, p ∈ Gen.C18.OPTION_KEYS) ∧
    (∀ k ∈ Gen.C18.OPTION_KEYS, k ∈ Gen.C18.SERVER_MAIN_PARAMS) ∧
    Gen.C18.SERVER_MAIN_PARAMS.length = Gen.C18.OPTION_KEYS.length := by decide

theorem zip_map_self {α β : Type} (l : List α) (f : α → β) :
    l.zip (l.map f) = l.map (fun p => (p, f p)) := by
  induction l with
  | nil => rfl
  | cons a r ih => simp [ih]

theorem pin_mux_init : Gen.C18.MUX_INIT_ONLY_QUEUES = true := by decide
theorem pin_main_order : Gen.C18.CLIENT_MAIN_ORDER = ["connect", "Mux", "read", "runonce"] := by decide
theorem pin_server_sync_first : Gen.C18.SERVER_SYNC_FIRST = true := by decide

/-- the byte forms are the string forms -/
theorem pin_bytes : Gen.C18.PACKAGED_BYTES = Gen.C18.PACKAGED.map bytesOfStr ∧
    Gen.C18.EXPLICIT_DATA_BYTES = Gen.C18.EXPLICIT_DATA.map bytesOfStr ∧
    Gen.C18.ASSEMBLER_IMPORTS_BYTES = Gen.C18.ASSEMBLER_IMPORTS.map bytesOfStr ∧
    Gen.C18.ASSEMBLER_MODULE_BYTES = bytesOfStr Gen.C18.ASSEMBLER_MODULE := by decide

/-- every packaged name is non-empty ASCII without blanks -/
theorem packaged_clean : ∀ n ∈ Gen.C18.PACKAGED_BYTES, CleanName n := by decide

/-- every dotted packaged name comes after its parent package -/
theorem packaged_parents : parentsOk [] Gen.C18.PACKAGED_BYTES = true := by decide

/-- what the assembler imports after the loop was uploaded -/
theorem imports_packaged : ∀ n ∈ Gen.C18.ASSEMBLER_IMPORTS_BYTES, n ∈ Gen.C18.PACKAGED_BYTES := by decide

/-- the module that receives the rendered options is one the assembler imports -/
theorem explicit_imported : ∀ n ∈ Gen.C18.EXPLICIT_DATA_BYTES, n ∈ Gen.C18.ASSEMBLER_IMPORTS_BYTES := by decide

end Sshuttle.Bootstrap
