/-
C03, nat method: what the chain `sshuttle-PORT` and the jump / owner rules do to a packet.
-/
import SshuttleModel.Lemmas.FwRulesWalk

namespace Sshuttle.Fw

theorem af_inet : AF_INET = 2 := rfl
theorem af_inet6 : AF_INET6 = 10 := rfl

@[simp] theorem tcp_beq_udp : (Proto.tcp == Proto.udp) = false := by decide
@[simp] theorem udp_beq_tcp : (Proto.udp == Proto.tcp) = false := by decide

theorem famOf_isV6 {fam : Nat} (h : fam = AF_INET ∨ fam = AF_INET6) :
    fam = (if isV6 fam then AF_INET6 else AF_INET) := by
  rcases h with h | h <;> subst h <;> simp [isV6, af_inet, af_inet6]

theorem pktFam_eq {p : Pkt} {fam : Nat} (h : fam = AF_INET ∨ fam = AF_INET6)
    (hp : p.fam6 = isV6 fam) : Spec.pktFam p = fam := by
  unfold Spec.pktFam
  rcases h with h | h <;> subst h <;> simp [hp, isV6, af_inet, af_inet6]

/-- A nat subnet rule matches exactly the TCP packets its entry matches. -/
theorem natSubnet_match (v6 : Bool) (port : Nat) (s : Subnet) (p : Pkt) (mark : Option String)
    (hfam : s.fam = (if v6 then AF_INET6 else AF_INET)) (hp : p.fam6 = v6) :
    matchRule (natSubnetRule v6 port s).m p mark = (p.proto == .tcp && Spec.entryMatches s p) := by
  subst hp
  obtain ⟨fam6, dst, dport, proto, loc, dl, uid, gid, mk, sock, srcLo⟩ := p
  unfold natSubnetRule
  have hb : (s.fport == 0) = decide (s.fport = 0) := by rw [Bool.eq_iff_iff]; simp
  cases fam6 <;> simp only [af_inet, af_inet6, if_true] at hfam <;>
  by_cases hf : s.fport = 0 <;> cases s.excl <;> cases proto <;>
  simp [matchRule, destMatch, subnetDest, portsMatch, Spec.entryMatches, Spec.contains, inPrefix,
    Spec.famBits, Spec.pktFam, bits, Spec.anyPort, hfam, hb, hf, af_inet, af_inet6]

theorem natSubnet_target (v6 : Bool) (port : Nat) (s : Subnet) :
    (natSubnetRule v6 port s).t = if s.excl then .ret else .redirect port := by
  unfold natSubnetRule; cases s.excl <;> rfl

/-- A nat DNS rule matches exactly UDP port 53 to that name server. -/
theorem natDns_match (v6 : Bool) (dnsport : Nat) (ns : Ns) (p : Pkt) (mark : Option String)
    (hp : p.fam6 = v6) :
    matchRule (natDnsRule v6 dnsport ns).m p mark =
      (p.proto == .udp && p.dport == 53 && ns.addr == p.dst) := by
  subst hp
  obtain ⟨fam6, dst, dport, proto, loc, dl, uid, gid, mk, sock, srcLo⟩ := p
  have h53 : Gen.C03.NAT_DNS_PORT = 53 := rfl
  cases fam6 <;> cases proto <;>
  simp [matchRule, natDnsRule, destMatch, portsMatch, inPrefix, bits, h53, Bool.and_comm]

/-- The DNS part of a chain: some rule matches iff the packet is DNS to a listed server. -/
theorem dns_find (c : Call) (mk : Ns → Rule) (p : Pkt) (mark : Option String)
    (hfam : c.family = AF_INET ∨ c.family = AF_INET6) (hp : p.fam6 = isV6 c.family)
    (hm : ∀ ns, matchRule (mk ns).m p mark = (p.proto == .udp && p.dport == 53 && ns.addr == p.dst)) :
    (((c.nslist.filter (·.fam == c.family)).map mk).find? (fun r => matchRule r.m p mark)).isSome
      = Spec.isDnsToNs c.nslist p := by
  rw [Bool.eq_iff_iff, List.find?_isSome]
  unfold Spec.isDnsToNs
  rw [pktFam_eq hfam hp]
  simp only [List.mem_map, List.mem_filter, Bool.and_eq_true, List.any_eq_true, beq_iff_eq]
  constructor
  · rintro ⟨r, ⟨ns, ⟨hns, hf⟩, rfl⟩, hr⟩
    rw [hm] at hr
    simp only [Bool.and_eq_true, beq_iff_eq] at hr
    exact ⟨⟨hr.1.1, hr.1.2⟩, ns, hns, hf, hr.2⟩
  · rintro ⟨⟨h1, h2⟩, ns, hns, hf, ha⟩
    refine ⟨mk ns, ⟨ns, ⟨hns, hf⟩, rfl⟩, ?_⟩
    rw [hm]
    simp [h1, h2, ha]

/-- The chain `sshuttle-PORT` of the nat method (local or non-local destination alike: the
`--dst-type LOCAL` RETURN is the LAST rule of the chain, so it only ends a walk that would have
fallen off the chain anyway):
DNS to a listed name server is redirected to the DNS port; otherwise a TCP packet whose most
specific entry is an include is redirected to the proxy port; everything else falls through. -/
theorem natChain_verdict (c : Call) (call : ChainName → Option String → Res) (p : Pkt)
    (mark : Option String)
    (hfam : c.family = AF_INET ∨ c.family = AF_INET6) (hp : p.fam6 = isV6 c.family)
    (hwf : ∀ s ∈ c.subnets, Spec.WfEntry s ∧ s.fam = c.family) :
    (walkList call p (natChainRules c) mark).verdict =
      if Spec.isDnsToNs c.nslist p then .divert c.dnsport
      else if p.proto == .tcp && Spec.mostSpecificIsInclude c.subnets p then .divert c.port
      else .untouched := by
  have hrev : Gen.C03.NAT_SORT_REVERSE = true := rfl
  have hsimple : ∀ r ∈ natChainRules c, r.t.simple = true := by
    intro r hr
    simp only [natChainRules, List.mem_append, List.mem_map, List.mem_singleton] at hr
    rcases hr with (⟨ns, _, rfl⟩ | ⟨s, _, rfl⟩) | rfl
    · rfl
    · rw [natSubnet_target]; cases s.excl <;> rfl
    · rfl
  rw [walkList_simple _ _ _ _ hsimple]
  unfold natChainRules
  simp only [hrev, sortBy, if_true]
  rw [List.find?_append, List.find?_append]
  have hD := dns_find c (natDnsRule (isV6 c.family) c.dnsport) p mark hfam hp
    (fun ns => natDns_match _ _ ns p mark hp)
  have hDt : ∀ r ∈ (c.nslist.filter (·.fam == c.family)).map (natDnsRule (isV6 c.family) c.dnsport),
      r.t = .redirect c.dnsport := by
    intro r hr
    simp only [List.mem_map] at hr
    obtain ⟨ns, _, rfl⟩ := hr
    rfl
  cases hfd : ((c.nslist.filter (·.fam == c.family)).map (natDnsRule (isV6 c.family) c.dnsport)).find?
      (fun r => matchRule r.m p mark) with
  | some r =>
    rw [hfd] at hD
    simp only [Option.isSome_some] at hD
    rw [← hD]
    simp only [Option.some_or, if_true]
    rw [hDt r (List.mem_of_find?_eq_some hfd)]
    rfl
  | none =>
    rw [hfd] at hD
    simp only [Option.isSome_none] at hD
    rw [← hD]
    simp only [Option.none_or, Bool.false_eq_true, if_false]
    rw [List.find?_map]
    have hq : ∀ s ∈ c.subnets,
        ((fun r => matchRule r.m p mark) ∘ natSubnetRule (isV6 c.family) c.port) s
          = (p.proto == .tcp && Spec.entryMatches s p) := by
      intro s hs
      simp only [Function.comp]
      exact natSubnet_match _ _ s p mark (by rw [(hwf s hs).2]; exact famOf_isV6 hfam) hp
    cases hpr : p.proto with
    | udp =>
      have hnone : (sortDesc c.subnets).find?
          ((fun r => matchRule r.m p mark) ∘ natSubnetRule (isV6 c.family) c.port) = none := by
        rw [List.find?_eq_none]
        intro s hs
        rw [hq s (mem_sortDesc.mp hs), hpr]
        simp
      rw [hnone]
      cases hl : p.dstLocal <;> simp [localReturn, matchRule, hl, termRes, Res.verdict]
    | tcp =>
      have hq' : ∀ s ∈ c.subnets,
          ((fun r => matchRule r.m p mark) ∘ natSubnetRule (isV6 c.family) c.port) s
            = Spec.entryMatches s p := by
        intro s hs; rw [hq s hs, hpr]; simp
      have hspec := find?_sortDesc_spec c.subnets _ p hq' (fun s hs => (hwf s hs).1)
      cases hfs : (sortDesc c.subnets).find?
          ((fun r => matchRule r.m p mark) ∘ natSubnetRule (isV6 c.family) c.port) with
      | none =>
        rw [hfs] at hspec
        simp only at hspec
        cases hl : p.dstLocal <;> simp [hspec, localReturn, matchRule, hl, termRes, Res.verdict]
      | some s0 =>
        rw [hfs] at hspec
        simp only at hspec
        obtain ⟨_, _, hms⟩ := hspec
        simp only [Option.map_some, Option.some_or, hms, natSubnet_target]
        cases s0.excl <;> simp [termRes, Res.verdict]

end Sshuttle.Fw

namespace Sshuttle.Fw

theorem walkChain_succ (rs : Ruleset) (sp : Space) (p : Pkt) (n : Nat) (c : ChainName)
    (mark : Option String) :
    walkChain rs sp p (n + 1) c mark =
      walkList (fun c' m => walkChain rs sp p n c' m) p (rs.get ⟨sp, c⟩) mark := rfl

theorem walkList_jump_single (call : ChainName → Option String → Res) (p : Pkt) (m : Match)
    (c : ChainName) (mark : Option String) :
    (walkList call p [⟨m, .jump c⟩] mark).verdict =
      if matchRule m p mark then (call c mark).verdict else .untouched := by
  unfold walkList
  by_cases h : matchRule m p mark = true
  · simp only [h, if_true]
    cases call c mark <;> simp [walkList, Res.verdict]
  · simp [h, walkList, Res.verdict]

theorem walkList_setMark_single (call : ChainName → Option String → Res) (p : Pkt) (m : Match)
    (x : String) (mark : Option String) :
    walkList call p [⟨m, .setMark x⟩] mark =
      .fall (if matchRule m p mark then some x else mark) := by
  unfold walkList
  by_cases h : matchRule m p mark = true <;> simp [h, walkList]

theorem nat_load_chain (c : Call) :
    (load (natCmds c)).get ⟨.ipt (isV6 c.family) .nat, .nat c.port⟩ = natChainRules c := by
  unfold natCmds load
  rw [List.foldl_append, foldl_iptAppend_get]
  cases natOwned c <;> simp [applyCmd, Ruleset.set, Ruleset.get, Ruleset.empty]

theorem nat_load_output (c : Call) :
    (load (natCmds c)).get ⟨.ipt (isV6 c.family) .nat, .output⟩ = [natJumpRule c] := by
  unfold natCmds load
  rw [List.foldl_append, foldl_iptAppend_get]
  cases natOwned c <;> simp [applyCmd, Ruleset.set, Ruleset.get, Ruleset.empty]

theorem nat_load_prerouting (c : Call) :
    (load (natCmds c)).get ⟨.ipt (isV6 c.family) .nat, .prerouting⟩ = [natJumpRule c] := by
  unfold natCmds load
  rw [List.foldl_append, foldl_iptAppend_get]
  cases natOwned c <;> simp [applyCmd, Ruleset.set, Ruleset.get, Ruleset.empty]

theorem nat_load_mangle (c : Call) :
    (load (natCmds c)).get ⟨.ipt (isV6 c.family) .mangle, .output⟩ =
      if natOwned c then [natOwnerRule c] else [] := by
  unfold natCmds load
  rw [List.foldl_append, foldl_iptAppend_get]
  cases natOwned c <;> simp [applyCmd, Ruleset.set, Ruleset.get, Ruleset.empty]

def natChainExpected (c : Call) (p : Pkt) : Verdict :=
  if Spec.isDnsToNs c.nslist p then .divert c.dnsport
  else if p.proto == .tcp && Spec.mostSpecificIsInclude c.subnets p then .divert c.port
  else .untouched

theorem nat_builtin (c : Call) (p : Pkt) (mark : Option String) (b : ChainName)
    (hb : (load (natCmds c)).get ⟨.ipt (isV6 c.family) .nat, b⟩ = [natJumpRule c])
    (hfam : c.family = AF_INET ∨ c.family = AF_INET6) (hp : p.fam6 = isV6 c.family)
    (hwf : ∀ s ∈ c.subnets, Spec.WfEntry s ∧ s.fam = c.family) :
    (walkChain (load (natCmds c)) (.ipt (isV6 c.family) .nat) p walkFuel b mark).verdict =
      if matchRule (natJumpRule c).m p mark then natChainExpected c p else .untouched := by
  show (walkChain _ _ _ (3 + 1) _ _).verdict = _
  rw [walkChain_succ, hb]
  unfold natJumpRule
  rw [walkList_jump_single]
  simp only
  rw [walkChain_succ, nat_load_chain, natChain_verdict c _ p mark hfam hp hwf]
  rfl

theorem nat_verdict (c : Call) (p : Pkt)
    (hfam : c.family = AF_INET ∨ c.family = AF_INET6) (hp : p.fam6 = isV6 c.family)
    (hwf : ∀ s ∈ c.subnets, Spec.WfEntry s ∧ s.fam = c.family)
    (hmark : p.mark ≠ some (toString c.port)) :
    verdictNat (load (natCmds c)) p = Spec.expectedCall c true false p := by
  have hm2 : ¬ p.mark = some (Nat.repr c.port) := hmark
  unfold verdictNat
  rw [hp, nat_builtin c p _ _ (nat_load_output c) hfam hp hwf,
    nat_builtin c p _ _ (nat_load_prerouting c) hfam hp hwf]
  rw [show walkFuel = 3 + 1 from rfl, walkChain_succ, nat_load_mangle]
  unfold Spec.expectedCall natChainExpected
  cases hu : c.user <;> cases hg : c.group <;> cases hl : p.loc <;>
  simp [natOwned, natJumpRule, natOwnerRule, matchRule, Spec.ownerOk, hl, hu, hg, Res.markOr,
    walkList_setMark_single, hm2]
  split <;> split <;> simp_all
end Sshuttle.Fw
