/-
Several instances whose rewrites do not overlap in time: the invariant "original lines +
one block per instance".
-/
import SshuttleModel.Lemmas.HostsSession

namespace Sshuttle.Hosts

/-- A history of complete rewrites `(port, host map)`, one after the other (a restore is the
rewrite with the empty map). -/
def serial : List (Nat × HostMap) → Fs → Fs
  | [], fs => fs
  | e :: es, fs => serial es (finish (rewrite e.2 e.1) fs)

/-- the host map each port published last -/
def curMaps : List (Nat × HostMap) → (Nat → HostMap) → (Nat → HostMap)
  | [], m => m
  | e :: es, m => curMaps es (fun r => if r = e.1 then e.2 else m r)

def IsHostLine (P : List Nat) (b : Text) : Prop :=
  ∃ r e, r ∈ P ∧ SaneText e.1 ∧ SaneText e.2 ∧ b = hostLine r e

theorem isHostLine_own {P : List Nat} {b : Text} (h : IsHostLine P b) :
    ∃ r ∈ P, ownB r b = true ∧ ∀ r', r' ≠ r → ownB r' b = false := by
  obtain ⟨r, e, hr, h1, h2, rfl⟩ := h
  exact ⟨r, hr, hostLine_own r e, fun r' hne => hostLine_not_own hne h1.2.2 h2.2.2⟩

theorem isHostLine_shape {P : List Nat} {b : Text} (h : IsHostLine P b) :
    (10 ∉ b ∧ 13 ∉ b) ∧ ∃ body c, b = body ++ [c] ∧ isSpace c = false := by
  obtain ⟨r, e, _, h1, h2, rfl⟩ := h
  exact hostLine_shape r ⟨h1.1, h1.2.1⟩ ⟨h2.1, h2.2.1⟩

theorem block_append (r : Nat) (a b : List Text) : block r (a ++ b) = block r a ++ block r b := by
  simp [block]

theorem block_foreign_other {P : List Nat} {B : List Text} (hB : ∀ b ∈ B, IsHostLine P b)
    {r q : Nat} (hrq : r ≠ q) : block r (foreign q B) = block r B := by
  simp only [block, foreign, List.filter_filter]
  apply List.filter_congr
  intro b hb
  obtain ⟨r', _, hown, hoth⟩ := isHostLine_own (hB b hb)
  by_cases h : r = r'
  · subst h
    have : ownB q b = false := hoth q (fun e => hrq e.symm)
    simp [hown, this]
  · simp [hoth r h]

theorem block_hostLines_other {r q : Nat} (hrq : r ≠ q) {hm : HostMap} (hs : SaneMap hm) :
    block r (hostLines q hm) = [] := by
  simp only [block, List.filter_eq_nil_iff]
  intro l hl
  obtain ⟨e, he, rfl⟩ := mem_hostLines hl
  simp [hostLine_not_own hrq (hs e he).1.2.2 (hs e he).2.2.2]

/-- the lines of the file are the original lines followed by host lines only, one block per port -/
def SerialInv (P : List Nat) (L0 : List Text) (fs : Fs) (m : Nat → HostMap) : Prop :=
  ∃ B, lines (fs.content .hosts) = L0 ++ B ∧ (∀ b ∈ B, IsHostLine P b) ∧
    ∀ r ∈ P, block r B = hostLines r (m r)

theorem serialInv_step {P : List Nat} {L0 : List Text} (hT : Trimmed L0)
    (hclean : ∀ r ∈ P, ∀ l ∈ L0, ownB r l = false) {fs : Fs} {m : Nat → HostMap}
    (h : SerialInv P L0 fs m) {q : Nat} (hq : q ∈ P) {hm : HostMap} (hs : SaneMap hm) :
    SerialInv P L0 (finish (rewrite hm q) fs) (fun r => if r = q then hm else m r) := by
  obtain ⟨B, hl, hB, hblk⟩ := h
  have hfL0 : foreign q L0 = L0 := by
    simp only [foreign, List.filter_eq_self]
    intro l hl; simp [hclean q hq l hl]
  have hB' : ∀ b ∈ foreign q B ++ hostLines q hm, IsHostLine P b := by
    intro b hb
    rcases List.mem_append.mp hb with h | h
    · exact hB b (List.mem_filter.mp h).1
    · obtain ⟨e, he, rfl⟩ := mem_hostLines h
      exact ⟨q, e, hq, (hs e he).1, (hs e he).2, rfl⟩
  refine ⟨foreign q B ++ hostLines q hm, ?_, hB', ?_⟩
  · rw [finish_rewrite, expected, hl, foreign_append, hfL0, List.append_assoc]
    apply lines_unlines
    by_cases hne : foreign q B ++ hostLines q hm = []
    · rw [hne, List.append_nil]; exact hT
    · exact trimmed_append hT.1 (fun b hb => isHostLine_shape (hB' b hb)) hne
  · intro r hr
    rw [block_append]
    by_cases hrq : r = q
    · subst hrq
      simp [block_foreign_self, block_hostLines]
    · rw [block_foreign_other hB hrq, block_hostLines_other hrq hs, List.append_nil, hblk r hr]
      simp [hrq]

theorem serialInv_run {P : List Nat} {L0 : List Text} (hT : Trimmed L0)
    (hclean : ∀ r ∈ P, ∀ l ∈ L0, ownB r l = false) (es : List (Nat × HostMap))
    (hP : ∀ e ∈ es, e.1 ∈ P) (hs : ∀ e ∈ es, SaneMap e.2) {fs : Fs} {m : Nat → HostMap}
    (h : SerialInv P L0 fs m) : SerialInv P L0 (serial es fs) (curMaps es m) := by
  induction es generalizing fs m with
  | nil => exact h
  | cons e es ih =>
    simp only [serial, curMaps]
    exact ih (fun x hx => hP x (by simp [hx])) (fun x hx => hs x (by simp [hx]))
      (serialInv_step hT hclean h (hP e (by simp)) (hs e (by simp)))

theorem serialInv_base {P : List Nat} {L0 : List Text}
    (hclean : ∀ r ∈ P, ∀ l ∈ L0, ownB r l = false) {fs : Fs} {m : Nat → HostMap}
    (h : SerialInv P L0 fs m) :
    base P (lines (fs.content .hosts)) = L0 ∧
      ∀ r ∈ P, block r (lines (fs.content .hosts)) = hostLines r (m r) := by
  obtain ⟨B, hl, hB, hblk⟩ := h
  rw [hl]
  constructor
  · have h1 : base P L0 = L0 := by
      simp only [base, List.filter_eq_self, List.all_eq_true]
      intro l hl r hr; simp [hclean r hr l hl]
    have h2 : base P B = [] := by
      simp only [base, List.filter_eq_nil_iff, List.all_eq_true]
      intro b hb hall
      obtain ⟨r, hr, hown, _⟩ := isHostLine_own (hB b hb)
      have := hall r hr
      simp [hown] at this
    simp only [base, List.filter_append] at h1 h2 ⊢
    rw [h1, h2, List.append_nil]
  · intro r hr
    have : block r L0 = [] := by
      simp only [block, List.filter_eq_nil_iff]
      intro l hl; simp [hclean r hr l hl]
    rw [block_append, this, List.nil_append, hblk r hr]

end Sshuttle.Hosts
