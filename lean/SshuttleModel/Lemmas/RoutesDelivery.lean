/-
Helper lemmas for C17, delivery half: the ROUTES message built from well-formed routes is ASCII, is
accepted by `Mux.send` iff it fits one frame, and is parsed back by the client's `onroutes` into exactly the
advertised networks; `FirewallClient.start` writes them into the plan.
Property theorems live in `Props/C17.lean`.
-/
import SshuttleModel.Lemmas.RoutesJunk
import SshuttleModel.Lemmas.Frames
namespace Sshuttle.Routes

/-- A route as the repaired `_list_routes` produces it. -/
def Route.Wf (r : Route) : Prop :=
  r.family = 2 ∧ (∃ a, a < 2 ^ 32 ∧ r.ip = inetNtoa a) ∧ 0 ≤ r.width ∧ r.width ≤ 32

/-- The entry `onroutes` appends for an advertised route. -/
def toSubnet (r : Route) : Subnet := ⟨r.family, r.ip, r.width, 0, 0⟩

/-- One line of the ROUTES message without its newline. -/
def bodyOf (r : Route) : Str := decDigits r.family ++ [44] ++ r.ip ++ [44] ++ decInt r.width

theorem fmtRoute_eq (r : Route) : fmtRoute r = bodyOf r ++ [10] := rfl

/-- characters of a message line: digits, dot, comma -/
def clean (c : Nat) : Bool := isDigit c || c == 46 || c == 44

theorem oct_clean : ∀ o, o < 256 → (decDigits o).all clean = true ∧ (decDigits o).all (· != 44) = true := by
  decide +kernel

theorem width_text : ∀ n, n ≤ 32 → (decDigits n).all isDigit = true ∧ decDigits n ≠ [] ∧
    pyInt (decDigits n) = .ok (n : Int) := by decide +kernel

theorem clean_props {c : Nat} (h : clean c = true) : isBSpace c = false ∧ c ≠ 10 ∧ c < 128 := by
  simp only [clean, isDigit, isBSpace, Bool.or_eq_true, Bool.and_eq_true, decide_eq_true_eq, beq_iff_eq,
    Bool.or_eq_false_iff, beq_eq_false_iff_ne, Bool.and_eq_false_iff, decide_eq_false_iff_not] at *
  omega

theorem ip_clean {a : Nat} (ha : a < 2 ^ 32) : (inetNtoa a).all clean = true ∧ (inetNtoa a).all (· != 44) = true := by
  have h1 := oct_clean (a / 16777216) (by omega)
  have h2 := oct_clean (a / 65536 % 256) (by omega)
  have h3 := oct_clean (a / 256 % 256) (by omega)
  have h4 := oct_clean (a % 256) (by omega)
  simp only [inetNtoa, List.all_append, h1, h2, h3, h4, Bool.and_true, Bool.true_and]
  decide


theorem width_cases {w : Int} (h0 : 0 ≤ w) (h32 : w ≤ 32) : ∃ n : Nat, n ≤ 32 ∧ w = (n : Int) ∧ decInt w = decDigits n := by
  obtain ⟨n, hn⟩ := Int.eq_ofNat_of_zero_le h0
  subst hn
  exact ⟨n, by omega, rfl, rfl⟩

theorem body_shape {r : Route} (h : r.Wf) :
    ∃ n : Nat, n ≤ 32 ∧ r.width = (n : Int) ∧
      bodyOf r = 50 :: 44 :: (r.ip ++ 44 :: decDigits n) ∧ (r.ip).all clean = true ∧ (r.ip).all (· != 44) = true := by
  obtain ⟨hf, ⟨a, ha, hip⟩, h0, h32⟩ := h
  obtain ⟨n, hn, hw, hd⟩ := width_cases h0 h32
  have h2 : decDigits 2 = [50] := by decide
  refine ⟨n, hn, hw, ?_, ?_, ?_⟩
  · simp [bodyOf, hf, h2, hd]
  · rw [hip]; exact (ip_clean ha).1
  · rw [hip]; exact (ip_clean ha).2

theorem body_clean {r : Route} (h : r.Wf) : (bodyOf r).all clean = true := by
  obtain ⟨n, hn, _, hb, hc, _⟩ := body_shape h
  have hd := (width_text n hn).1
  rw [hb]
  simp only [List.all_cons, List.all_append, hc, Bool.true_and]
  have : (decDigits n).all clean = true := by
    rw [List.all_eq_true] at hd ⊢
    intro x hx; simp [clean, hd x hx]
  simp [this, clean, isDigit]

theorem body_last {r : Route} (h : r.Wf) : ∃ i y, bodyOf r = i ++ [y] ∧ isBSpace y = false := by
  obtain ⟨n, hn, _, hb, _, _⟩ := body_shape h
  obtain ⟨hd, hne, _⟩ := width_text n hn
  have hlast := (List.dropLast_concat_getLast hne).symm
  refine ⟨50 :: 44 :: (r.ip ++ 44 :: (decDigits n).dropLast), (decDigits n).getLast hne, ?_, ?_⟩
  · rw [hb]; conv => lhs; rw [hlast]
    simp
  · have := List.all_eq_true.mp hd _ (List.getLast_mem hne)
    exact isDigit_not_bspace this

/-! ### `bytes.strip` and `split(b'\n')` on the message -/

theorem stripRight_snoc_space (sp : Nat → Bool) (l : Str) (x : Nat) (hx : sp x = true) :
    ((l ++ [x]).reverse.dropWhile sp).reverse = (l.reverse.dropWhile sp).reverse := by
  simp [hx]

theorem stripRight_snoc_keep (sp : Nat → Bool) (l : Str) (y : Nat) (hy : sp y = false) :
    ((l ++ [y]).reverse.dropWhile sp).reverse = l ++ [y] := by
  simp [hy]

theorem strip_msg (x y : Nat) (m i : Str) (hx : isBSpace x = false) (hy : isBSpace y = false)
    (h : x :: m = i ++ [y]) : stripWith isBSpace (x :: m ++ [10]) = x :: m := by
  unfold stripWith
  have : (x :: m ++ [10]).dropWhile isBSpace = x :: m ++ [10] := by simp [hx]
  rw [this, stripRight_snoc_space _ _ 10 (by decide), h, stripRight_snoc_keep _ _ _ hy]

theorem splitOn_no (sep : Nat) : ∀ s : Str, sep ∉ s → splitOn sep s = [s] := by
  intro s
  induction s with
  | nil => intro _; rfl
  | cons c r ih =>
    intro h
    simp only [List.mem_cons, not_or] at h
    have hc : ¬ c = sep := fun e => h.1 e.symm
    simp [splitOn, hc, ih h.2]

theorem splitOn_append (sep : Nat) : ∀ (s t : Str), sep ∉ s → splitOn sep (s ++ sep :: t) = s :: splitOn sep t := by
  intro s
  induction s with
  | nil => intro t _; simp [splitOn]
  | cons c r ih =>
    intro t h
    simp only [List.mem_cons, not_or] at h
    have hc : ¬ c = sep := fun e => h.1 e.symm
    simp [splitOn, hc, ih t h.2]

theorem body_no_nl {r : Route} (h : r.Wf) : 10 ∉ bodyOf r := by
  intro hm
  have := List.all_eq_true.mp (body_clean h) 10 hm
  exact absurd this (by decide)

theorem split_pkt : ∀ (rs : List Route) (z : Str), (∀ r ∈ rs, r.Wf) →
    splitOn 10 (routePkt rs ++ z) = rs.map bodyOf ++ splitOn 10 z := by
  intro rs
  induction rs with
  | nil => intro z _; simp [routePkt]
  | cons r rs ih =>
    intro z h
    have hr := h r (by simp)
    have : routePkt (r :: rs) ++ z = bodyOf r ++ 10 :: (routePkt rs ++ z) := by
      simp [routePkt, fmtRoute_eq]
    rw [this, splitOn_append 10 _ _ (body_no_nl hr), ih z (fun x hx => h x (by simp [hx]))]
    simp

/-! ### the client parses the message back -/

theorem cut_append (sep : Nat) : ∀ (s t : Str), s.all (· != sep) = true → cut sep (s ++ sep :: t) = some (s, t) := by
  intro s
  induction s with
  | nil => intro t _; simp [cut]
  | cons c r ih =>
    intro t h
    simp only [List.all_cons, Bool.and_eq_true, bne_iff_ne, ne_eq] at h
    simp [cut, h.1, ih t h.2]

theorem decodeAscii_clean {s : Str} (h : s.all clean = true) : decodeAscii s = .ok s := by
  unfold decodeAscii
  have : s.all (· < 128) = true := by
    rw [List.all_eq_true] at h ⊢
    intro x hx
    have := (clean_props (h x hx)).2.2
    simpa using this
  simp [this]

theorem onroutesLine_body {r : Route} (h : r.Wf) (L : Listeners) (hv4 : L.v4 = true) :
    onroutesLine L (bodyOf r) = .ok (some (toSubnet r)) := by
  obtain ⟨n, hn, hw, hb, hc, h44⟩ := body_shape h
  obtain ⟨_, _, hpi⟩ := width_text n hn
  have h2 : pyInt [50] = .ok 2 := by decide
  have hfp : Gen.C17.AUTO_FPORT = 0 := by decide
  have hlp : Gen.C17.AUTO_LPORT = 0 := by decide
  unfold onroutesLine
  rw [hb]
  have hc1 : cut 44 (50 :: 44 :: (r.ip ++ 44 :: decDigits n)) = some ([50], r.ip ++ 44 :: decDigits n) := by
    simp [cut]
  rw [hc1]
  simp only
  rw [cut_append 44 _ _ h44]
  simp only [bind, Except.bind, h2, hpi, decodeAscii_clean hc, hv4, pure, Except.pure]
  simp [toSubnet, h.1, hw, hfp, hlp]

theorem body_ne_nil {r : Route} (h : r.Wf) : (bodyOf r).isEmpty = false := by
  obtain ⟨n, _, _, hb, _, _⟩ := body_shape h
  rw [hb]; rfl

theorem onroutesLoop_bodies (L : Listeners) (hv4 : L.v4 = true) : ∀ (rs : List Route) (acc : List Subnet),
    (∀ r ∈ rs, r.Wf) → onroutesLoop L (rs.map bodyOf) acc = .ok (acc ++ rs.map toSubnet) := by
  intro rs
  induction rs with
  | nil => intro acc _; simp [onroutesLoop]
  | cons r rs ih =>
    intro acc h
    have hr := h r (by simp)
    simp only [List.map_cons, onroutesLoop, body_ne_nil hr, Bool.false_eq_true, ↓reduceIte,
      onroutesLine_body hr L hv4]
    rw [ih _ (fun x hx => h x (by simp [hx]))]
    simp

/-- `routestr.strip().split(b'\n')` of the message gives back the lines (plus, for the empty
message, one empty line that the loop skips). -/
theorem split_strip_pkt (rs : List Route) (h : ∀ r ∈ rs, r.Wf) :
    splitOn 10 (stripWith isBSpace (routePkt rs)) = if rs = [] then [[]] else rs.map bodyOf := by
  rcases List.eq_nil_or_concat rs with rfl | ⟨rs', r, rfl⟩
  · rfl
  · rw [List.concat_eq_append] at h ⊢
    have hr : r.Wf := h r (by simp)
    have hrs' : ∀ x ∈ rs', x.Wf := fun x hx => h x (by simp [hx])
    have hpk : routePkt (rs' ++ [r]) = (routePkt rs' ++ bodyOf r) ++ [10] := by
      simp [routePkt, fmtRoute_eq]
    -- first and last character of the message without its final newline
    obtain ⟨i, y, hlast, hy⟩ := body_last hr
    have hhead : ∃ m, routePkt rs' ++ bodyOf r = 50 :: m := by
      cases rs' with
      | nil =>
        obtain ⟨n, _, _, hb, _, _⟩ := body_shape hr
        simp only [routePkt, List.map_nil, List.flatten_nil, List.nil_append, hb]; exact ⟨_, rfl⟩
      | cons r0 t =>
        obtain ⟨n, _, _, hb, _, _⟩ := body_shape (hrs' r0 (by simp))
        simp only [routePkt, List.map_cons, List.flatten_cons, fmtRoute_eq, hb, List.cons_append]; exact ⟨_, rfl⟩
    obtain ⟨m, hm⟩ := hhead
    have hstrip : stripWith isBSpace (routePkt (rs' ++ [r])) = routePkt rs' ++ bodyOf r := by
      rw [hpk, hm]
      apply strip_msg 50 y m (routePkt rs' ++ i) (by decide) hy
      rw [← hm, hlast]; simp
    rw [hstrip, split_pkt rs' _ hrs', splitOn_no 10 _ (body_no_nl hr)]
    simp

/-! ### server side: the message fits one frame or the assertion fires -/

theorem pkt_ascii (rs : List Route) (h : ∀ r ∈ rs, r.Wf) : (routePkt rs).all (· < 128) = true := by
  induction rs with
  | nil => rfl
  | cons r rs ih =>
    have hr := h r (by simp)
    have hb : (bodyOf r).all (· < 128) = true := by
      have := body_clean hr
      rw [List.all_eq_true] at this ⊢
      intro x hx
      have := (clean_props (this x hx)).2.2
      simpa using this
    have := ih (fun x hx => h x (by simp [hx]))
    simp only [routePkt, List.map_cons, List.flatten_cons, List.all_append, fmtRoute_eq] at this ⊢
    simp [hb, this]

theorem sendRoutes_fits (tx : Mux.Tx) (rs : List Route) (h : ∀ r ∈ rs, r.Wf) (hlen : (routePkt rs).length ≤ 65535) :
    sendRoutes tx rs = .ok { outbuf := tx.outbuf ++ [Mux.encode ⟨0, Generated.CMD_ROUTES, routePkt rs⟩],
                             fullness := tx.fullness + (routePkt rs).length } := by
  unfold sendRoutes encodeAscii
  rw [if_pos (pkt_ascii rs h)]
  have hc : ¬ ((0 : Nat) ≥ 65536 ∨ Generated.CMD_ROUTES ≥ 65536) := by decide
  have hl : ¬ (routePkt rs).length > 65535 := by omega
  simp only [bind, Except.bind, Mux.send, hl, hc, ↓reduceIte]

theorem sendRoutes_big (tx : Mux.Tx) (rs : List Route) (h : ∀ r ∈ rs, r.Wf) (hlen : 65535 < (routePkt rs).length) :
    sendRoutes tx rs = .error .assertionError := by
  unfold sendRoutes encodeAscii
  rw [if_pos (pkt_ascii rs h)]
  simp only [bind, Except.bind, Mux.send]
  rw [if_pos hlen]

/-! ### client side: `FirewallClient.start` -/

/-- `b'%d,%d,<excl>,%s,%d,%d\n' % …` once the address is known to be ASCII. -/
def subnetText (excl : Nat) (s : Subnet) : Bytes :=
  decInt s.family ++ [44] ++ decInt s.width ++ [44] ++ decDigits excl ++ [44] ++ s.ip ++ [44] ++
    decInt s.fport ++ [44] ++ decInt s.lport ++ [10]

def Subnet.Ascii (s : Subnet) : Prop := s.ip.all (· < 128) = true

theorem subnetLine_ascii (excl : Nat) (s : Subnet) (h : s.Ascii) : subnetLine excl s = .ok (subnetText excl s) := by
  unfold Subnet.Ascii at h
  simp [subnetLine, encodeAscii, h, bind, Except.bind, pure, Except.pure, subnetText]

theorem mapExc_ok {α β : Type} (f : α → Except Exc β) (g : α → β) :
    ∀ l : List α, (∀ a ∈ l, f a = .ok (g a)) → mapExc f l = .ok (l.map g) := by
  intro l
  induction l with
  | nil => intro _; rfl
  | cons a as ih =>
    intro h
    simp only [mapExc, h a (by simp), bind, Except.bind, ih (fun x hx => h x (by simp [hx])), pure, Except.pure,
      List.map_cons]

theorem fwStart_ascii (incl nets excl : List Subnet) (tail : List Bytes)
    (h : ∀ s ∈ incl ++ nets ++ excl, s.Ascii) :
    fwStart incl nets excl tail =
      .ok ([Gen.C17.START_HEADER] ++ (incl ++ nets).map (subnetText 0) ++ excl.map (subnetText 1) ++ tail) := by
  unfold fwStart
  rw [mapExc_ok (subnetLine 0) (subnetText 0) _ (fun a ha => subnetLine_ascii 0 a (h a (by simp only [List.mem_append] at ha ⊢; exact Or.inl ha))),
      mapExc_ok (subnetLine 1) (subnetText 1) _ (fun a ha => subnetLine_ascii 1 a (h a (by simp only [List.mem_append]; exact Or.inr ha)))]
  rfl

theorem toSubnet_ascii {r : Route} (h : r.Wf) : (toSubnet r).Ascii := by
  obtain ⟨_, _, _, _, hc, _⟩ := body_shape h
  unfold Subnet.Ascii toSubnet
  simp only
  rw [List.all_eq_true] at hc ⊢
  intro x hx
  have := (clean_props (hc x hx)).2.2
  simpa using this

/-! ### every line that parses is added -/

theorem onroutesLoop_mem (L : Listeners) : ∀ (ls : List Bytes) (acc nets : List Subnet),
    onroutesLoop L ls acc = .ok nets →
      (∀ s ∈ acc, s ∈ nets) ∧
      (∀ l ∈ ls, l.isEmpty = false → ∀ s, onroutesLine L l = .ok (some s) → s ∈ nets) := by
  intro ls
  induction ls with
  | nil =>
    intro acc nets h
    simp only [onroutesLoop, Except.ok.injEq] at h
    subst h
    exact ⟨fun s hs => hs, fun l hl => by simp at hl⟩
  | cons l ls ih =>
    intro acc nets h
    simp only [onroutesLoop] at h
    split at h
    next he =>
      obtain ⟨h1, h2⟩ := ih _ _ h
      refine ⟨h1, ?_⟩
      intro l' hl' hne s hs
      simp only [List.mem_cons] at hl'
      rcases hl' with rfl | hl'
      · rw [he] at hne; cases hne
      · exact h2 l' hl' hne s hs
    · split at h
      · cases h
      next hn =>
        obtain ⟨h1, h2⟩ := ih _ _ h
        refine ⟨h1, ?_⟩
        intro l' hl' hne s hs
        simp only [List.mem_cons] at hl'
        rcases hl' with rfl | hl'
        · rw [hn] at hs; cases hs
        · exact h2 l' hl' hne s hs
      next s0 hs0 =>
        obtain ⟨h1, h2⟩ := ih _ _ h
        refine ⟨fun s hs => h1 s (by simp [hs]), ?_⟩
        intro l' hl' hne s hs
        simp only [List.mem_cons] at hl'
        rcases hl' with rfl | hl'
        · rw [hs0] at hs
          simp only [Except.ok.injEq, Option.some.injEq] at hs
          subst hs
          exact h1 s0 (by simp)
        · exact h2 l' hl' hne s hs

/-! ### what `_list_routes` produces is well formed, for every input -/

theorem lineStep_wf (tool : Tool) (line : Bytes) (r : Route) (h : lineStep tool line = .ok (some r)) : r.Wf := by
  unfold lineStep at h
  split at h
  · cases h
  · have hf := extract_facts tool line
    split at h
    next e he =>
      split at h <;> cases h
    next ipw mask he =>
      rw [he] at hf
      split at h
      next p m =>
        split at h
        · cases h
        next hm =>
          obtain ⟨a, w⟩ := p
          simp only [ExtractOk] at hf
          obtain ⟨h1, h2, h3⟩ := hf
          obtain ⟨x, hx, hr⟩ := mkRoute_shape a w m h1 h2 (by omega) h3
          rw [hr] at h
          simp only [Except.map, Except.ok.injEq, Option.some.injEq] at h
          subst h
          have hfam : Generated.AF_INET = 2 := by decide
          refine ⟨hfam, ⟨x, hx, rfl⟩, ?_, ?_⟩ <;> simp only <;> omega
      · cases h

theorem listRoutesRaw_total (tool : Tool) : ∀ lines : List Bytes, ∃ rs, listRoutesRaw tool lines = .ok rs ∧ ∀ r ∈ rs, r.Wf := by
  intro lines
  induction lines with
  | nil => exact ⟨[], rfl, by simp⟩
  | cons l ls ih =>
    obtain ⟨rs, hrs, hwf⟩ := ih
    obtain ⟨r, hr⟩ := lineStep_ok tool l
    simp only [listRoutesRaw, hr, hrs, bind, Except.bind, pure, Except.pure]
    cases r with
    | none => exact ⟨rs, rfl, hwf⟩
    | some x =>
      refine ⟨x :: rs, rfl, ?_⟩
      intro y hy
      simp only [List.mem_cons] at hy
      rcases hy with rfl | hy
      · exact lineStep_wf tool l _ hr
      · exact hwf y hy

theorem listRoutes_total (tool : Tool) (lines : List Bytes) :
    ∃ rs, listRoutes tool lines = .ok rs ∧ ∀ r ∈ rs, r.Wf := by
  obtain ⟨rs, hrs, hwf⟩ := listRoutesRaw_total tool lines
  refine ⟨rs.filter keepRoute, by simp [listRoutes, hrs, Except.map], ?_⟩
  intro r hr
  exact hwf r (List.mem_filter.mp hr).1

/-! ### helpers for the delivery theorems -/

theorem routePkt_replicate (n : Nat) (r : Route) :
    (routePkt (List.replicate n r)).length = n * (fmtRoute r).length := by
  induction n with
  | zero => simp [routePkt]
  | succ n ih =>
    simp only [routePkt, List.replicate_succ, List.map_cons, List.flatten_cons, List.length_append] at ih ⊢
    rw [ih, Nat.succ_mul]; omega

theorem mapExc_mem {α β : Type} (f : α → Except Exc β) : ∀ (l : List α) (bs : List β),
    mapExc f l = .ok bs → ∀ a ∈ l, ∃ b ∈ bs, f a = .ok b := by
  intro l
  induction l with
  | nil => intro bs _ a ha; simp at ha
  | cons x xs ih =>
    intro bs h a ha
    simp only [mapExc, bind, Except.bind] at h
    cases hx : f x with
    | error e => rw [hx] at h; cases h
    | ok b =>
      rw [hx] at h
      simp only at h
      cases hxs : mapExc f xs with
      | error e => rw [hxs] at h; cases h
      | ok bs' =>
        rw [hxs] at h
        simp only [pure, Except.pure, Except.ok.injEq] at h
        subst h
        simp only [List.mem_cons] at ha
        rcases ha with rfl | ha
        · exact ⟨b, by simp, hx⟩
        · obtain ⟨b', hb', hf⟩ := ih bs' hxs a ha
          exact ⟨b', by simp [hb'], hf⟩

/-- What a successful `got_packet(ROUTES)` did, step by step. -/
theorem gotRoutesPacket_ok {c c' : Client} {data : Bytes} {tail : List Bytes}
    (h : c.gotRoutesPacket data tail = .ok c') :
    ∃ nets d, c.gotRoutes = true ∧
      (if c.autoNetsOpt = true then onroutesLoop c.listeners (splitOn 10 (stripWith isBSpace data)) c.fwAutoNets
       else .ok c.fwAutoNets) = .ok nets ∧
      fwStart c.incl nets c.excl tail = .ok d ∧
      c' = { c with gotRoutes := false, fwAutoNets := nets, dialogues := c.dialogues ++ [d] } := by
  unfold Client.gotRoutesPacket at h
  by_cases hg : c.gotRoutes = true
  · by_cases ho : c.autoNetsOpt = true
    · simp only [hg, ho, Bool.not_true, Bool.false_eq_true, ↓reduceIte, bind, Except.bind] at h
      cases hn : onroutesLoop c.listeners (splitOn 10 (stripWith isBSpace data)) c.fwAutoNets with
      | error e => rw [hn] at h; cases h
      | ok nets =>
        rw [hn] at h
        simp only at h
        cases hd : fwStart c.incl nets c.excl tail with
        | error e => rw [hd] at h; cases h
        | ok d =>
          rw [hd] at h
          simp only [pure, Except.pure, Except.ok.injEq] at h
          exact ⟨nets, d, hg, by simp [ho], hd, by rw [← h]; simp [ho]⟩
    · simp only [hg, ho, Bool.not_true, Bool.false_eq_true, ↓reduceIte, bind, Except.bind, pure, Except.pure] at h
      cases hd : fwStart c.incl c.fwAutoNets c.excl tail with
      | error e => rw [hd] at h; cases h
      | ok d =>
        rw [hd] at h
        simp only [Except.ok.injEq] at h
        exact ⟨c.fwAutoNets, d, hg, by simp [ho], hd, by rw [← h]; simp [ho]⟩
  · simp [hg] at h

/-- The plan `FirewallClient.start` writes when the client received the routes `rs`. -/
def planWith (c : Client) (rs : List Route) (tail : List Bytes) : List Bytes :=
  [Gen.C17.START_HEADER] ++ (c.incl ++ (c.fwAutoNets ++ rs.map toSubnet)).map (subnetText 0) ++
    c.excl.map (subnetText 1) ++ tail

end Sshuttle.Routes
