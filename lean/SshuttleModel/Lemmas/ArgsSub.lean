/-
`parse_subnetport` on documented IPv4 spellings: the regular expression, the colon count,
`getaddrinfo`, and the result loop.
-/
import SshuttleModel.Lemmas.ArgsRx

namespace Sshuttle.ArgsSpec
open Sshuttle.Inet Sshuttle.Args

/-! ### small facts -/

theorem spellV4_head (a : Nat) (sh : Shape4) : ∃ c t, spellV4 a sh = c :: t ∧ isDigit c = true := by
  cases sh with
  | p1 r0 => exact spellPart_head r0 a
  | p2 r0 r1 =>
    obtain ⟨c, t, h, hd⟩ := spellPart_head r0 (a / 2 ^ 24)
    exact ⟨c, _, by simp only [spellV4, h, List.cons_append]; rfl, hd⟩
  | p3 r0 r1 r2 =>
    obtain ⟨c, t, h, hd⟩ := spellPart_head r0 (a / 2 ^ 24)
    exact ⟨c, _, by simp only [spellV4, h, List.cons_append]; rfl, hd⟩
  | p4 r0 r1 r2 r3 =>
    obtain ⟨c, t, h, hd⟩ := spellPart_head r0 (a / 2 ^ 24)
    exact ⟨c, _, by simp only [spellV4, h, List.cons_append]; rfl, hd⟩

theorem isDigit_ne (c : Char) (h : isDigit c = true) (x : Char) (hx : x.toNat < 48 ∨ 57 < x.toNat) : c ≠ x := by
  intro e; subst e
  simp only [isDigit, Bool.and_eq_true, decide_eq_true_eq] at h
  omega

theorem optStar_of_ne (c : Char) (s : Str) (h : c ≠ '*') : optStar (c :: s) = ([], c :: s) := by
  unfold optStar
  split
  · next t heq => injection heq with h1 _; exact absurd h1 h
  · rfl

theorem colon_not_in_render10 (n : Nat) : ':' ∉ render 10 n := by
  intro h
  have := render10_isD n ':' h
  revert this; decide

theorem count_colon_render10 (n : Nat) : (render 10 n).count ':' = 0 :=
  List.count_eq_zero.mpr (colon_not_in_render10 n)

theorem count_colon_spellV4 (a : Nat) (sh : Shape4) : (spellV4 a sh).count ':' = 0 := by
  apply List.count_eq_zero.mpr
  intro h
  exact v4c_ne ':' (spellV4_chars a sh ':' h) ':' (by decide) rfl

theorem countColons_spell (a : Nat) (sh : Shape4) (w : Option Nat) (ps : PortSpec) :
    countColons (spellSubnet4 a sh w ps) ≤ 1 := by
  unfold countColons spellSubnet4
  rw [List.count_append, List.count_append, count_colon_spellV4]
  have hw : (spellWidth w).count ':' = 0 := by
    cases w with
    | none => rfl
    | some w => simp [spellWidth, count_colon_render10]
  have hp : (spellPorts ps).count ':' ≤ 1 := by
    cases ps with
    | none => simp [spellPorts]
    | one p => simp [spellPorts, count_colon_render10]
    | range p q => simp [spellPorts, List.count_append, count_colon_render10]
  omega

/-! ### the regular expression -/

def portTexts : PortSpec → Option Str × Option Str
  | .none => (none, none)
  | .one p => (some (render 10 p), none)
  | .range p q => (some (render 10 p), some (render 10 q))

theorem stops_isD_nil : Stops isD [] := Or.inl rfl

theorem takeD (n : Nat) (rest : Str) (h : Stops isD rest) :
    (render 10 n ++ rest).takeWhile isD = render 10 n ∧ (render 10 n ++ rest).dropWhile isD = rest :=
  span_app isD _ rest (render10_isD n) h

theorem render10_isEmpty (n : Nat) : (render 10 n).isEmpty = false := by
  cases h : render 10 n with
  | nil => exact absurd h (render10_ne_nil n)
  | cons _ _ => rfl

theorem matchPortTail_spell (ps : PortSpec) :
    matchPortTail (spellPorts ps) = some (portTexts ps) := by
  cases ps with
  | none => rfl
  | one p =>
    simp only [spellPorts, matchPortTail, portTexts]
    have h := takeD p [] stops_isD_nil
    rw [List.append_nil] at h
    rw [h.1, h.2, render10_isEmpty]
    simp [atEnd]
  | range p q =>
    simp only [spellPorts, matchPortTail, portTexts]
    have h := takeD p ('-' :: render 10 q) (Or.inr ⟨'-', _, rfl, by decide⟩)
    have h2 := takeD q [] stops_isD_nil
    rw [List.append_nil] at h2
    rw [h.1, h.2, render10_isEmpty]
    simp only [Bool.false_eq_true, ↓reduceIte]
    rw [h2.1, h2.2, render10_isEmpty]
    simp [atEnd]

theorem stops_isD_ports (ps : PortSpec) : Stops isD (spellPorts ps) := by
  cases ps with
  | none => exact Or.inl rfl
  | one p => exact Or.inr ⟨':', _, rfl, by decide⟩
  | range p q => exact Or.inr ⟨':', _, rfl, by decide⟩

theorem matchCidr_spell (w : Option Nat) (ps : PortSpec) :
    matchCidr (spellWidth w ++ spellPorts ps) = (w.map (render 10), spellPorts ps) := by
  cases w with
  | none =>
    simp only [spellWidth, List.nil_append, Option.map_none]
    cases ps with
    | none => rfl
    | one p => rfl
    | range p q => rfl
  | some w =>
    simp only [spellWidth, List.cons_append, matchCidr, Option.map_some]
    have h := takeD w (spellPorts ps) (stops_isD_ports ps)
    rw [h.1, h.2, render10_isEmpty]
    simp

theorem stops_host4_tail (w : Option Nat) (ps : PortSpec) : Stops isHost4 (spellWidth w ++ spellPorts ps) := by
  cases w with
  | none =>
    cases ps with
    | none => exact Or.inl rfl
    | one p => exact Or.inr ⟨':', _, rfl, by decide⟩
    | range p q => exact Or.inr ⟨':', _, rfl, by decide⟩
  | some w => exact Or.inr ⟨'/', _, rfl, by decide⟩

theorem spellV4_isEmpty (a : Nat) (sh : Shape4) : (spellV4 a sh).isEmpty = false := by
  obtain ⟨c, t, h, _⟩ := spellV4_head a sh
  rw [h]; rfl

/-- the IPv4 expression on a documented spelling: host, width text, port texts -/
theorem matchRx4_spell (a : Nat) (sh : Shape4) (w : Option Nat) (ps : PortSpec) :
    matchRx4 (spellSubnet4 a sh w ps) =
      some ⟨spellV4 a sh, w.map (render 10), (portTexts ps).1, (portTexts ps).2⟩ := by
  unfold matchRx4 spellSubnet4
  obtain ⟨c, t, hct, hdig⟩ := spellV4_head a sh
  have hstar : optStar (spellV4 a sh ++ (spellWidth w ++ spellPorts ps)) =
      ([], spellV4 a sh ++ (spellWidth w ++ spellPorts ps)) := by
    rw [hct, List.cons_append]
    exact optStar_of_ne c _ (isDigit_ne c hdig '*' (by decide))
  rw [hstar]
  simp only
  have hspan := span_app isHost4 (spellV4 a sh) (spellWidth w ++ spellPorts ps)
    (fun x hx => v4c_isHost4 x (spellV4_chars a sh x hx)) (stops_host4_tail w ps)
  rw [hspan.1, hspan.2, spellV4_isEmpty, matchCidr_spell]
  simp only [Bool.false_eq_true, ↓reduceIte, matchPortTail_spell, List.nil_append]

end Sshuttle.ArgsSpec
