/-
IPv6 spellings through `getaddrinfo` and the IPv6 regular expression of `parse_subnetport`:
`inet_aton` never accepts a text with a colon, character and length facts of the spellings,
the idna fast path, the expression on documented forms, and the assembled results for
`parse_subnetport` and `parse_ipport`.
-/
import SshuttleModel.Lemmas.ArgsV6Pton
import SshuttleModel.Lemmas.ArgsIpport

namespace Sshuttle.ArgsSpec
open Sshuttle.Inet Sshuttle.Args

/-! ### `inet_aton` consumes no colon -/

theorem numRun_consumed (b : Nat) (val? : Char → Option Nat) (s : Str) :
    ∀ acc, ∃ pre, s = pre ++ (numRun b val? acc s).2 ∧ ∀ c ∈ pre, (val? c).isSome = true := by
  induction s with
  | nil => intro acc; exact ⟨[], rfl, by simp⟩
  | cons c t ih =>
    intro acc
    rw [numRun]
    cases hv : val? c with
    | none => exact ⟨[], rfl, by simp⟩
    | some d =>
      obtain ⟨pre, h1, h2⟩ := ih (acc * b + d)
      refine ⟨c :: pre, by simp only [List.cons_append]; rw [← h1], ?_⟩
      intro x hx
      simp only [List.mem_cons] at hx
      rcases hx with rfl | hx
      · simp [hv]
      · exact h2 x hx

theorem no_colon_of_val (val? : Char → Option Nat) (hc : val? ':' = none) (pre : Str)
    (h : ∀ c ∈ pre, (val? c).isSome = true) : ':' ∉ pre := by
  intro hm
  have := h ':' hm
  rw [hc] at this
  cases this

theorem strtoul0_consumed (s : Str) : ∃ pre, s = pre ++ (strtoul0 s).2 ∧ ':' ∉ pre := by
  unfold strtoul0
  split
  · next t =>
    split
    · next x h u =>
      split
      · next hx =>
        obtain ⟨pre, h1, h2⟩ := numRun_consumed 16 hexVal? (h :: u) 0
        refine ⟨'0' :: x :: pre, by simp only [List.cons_append]; rw [← h1], ?_⟩
        intro hm
        simp only [List.mem_cons] at hm
        rcases hm with hm | hm | hm
        · revert hm; decide
        · rcases hx.1 with rfl | rfl <;> (revert hm; decide)
        · exact no_colon_of_val hexVal? (by decide) pre h2 hm
      · obtain ⟨pre, h1, h2⟩ := numRun_consumed 8 octVal? (x :: h :: u) 0
        refine ⟨'0' :: pre, by simp only [List.cons_append]; rw [← h1], ?_⟩
        intro hm
        simp only [List.mem_cons] at hm
        rcases hm with hm | hm
        · revert hm; decide
        · exact no_colon_of_val octVal? (by decide) pre h2 hm
    · obtain ⟨pre, h1, h2⟩ := numRun_consumed 8 octVal? t 0
      refine ⟨'0' :: pre, by simp only [List.cons_append]; rw [← h1], ?_⟩
      intro hm
      simp only [List.mem_cons] at hm
      rcases hm with hm | hm
      · revert hm; decide
      · exact no_colon_of_val octVal? (by decide) pre h2 hm
  · obtain ⟨pre, h1, h2⟩ := numRun_consumed 10 decVal? s 0
    exact ⟨pre, h1, no_colon_of_val decVal? (by decide) pre h2⟩

theorem atonLoop_consumed : ∀ (fuel : Nat) (s : Str) (stored : List Nat) (a : Nat) (rest : Str),
    atonLoop fuel s stored = some (a, rest) → ∃ pre, s = pre ++ rest ∧ ':' ∉ pre := by
  intro fuel
  induction fuel with
  | zero => intro s stored a rest h; simp [atonLoop] at h
  | succ f ih =>
    intro s stored a rest h
    unfold atonLoop at h
    split at h
    · cases h
    · next c t =>
      split at h
      · cases h
      · obtain ⟨pre, h1, h2⟩ := strtoul0_consumed (c :: t)
        generalize hst : strtoul0 (c :: t) = r at h h1
        obtain ⟨val, r2⟩ := r
        simp only at h h1
        split at h
        · cases h
        · split at h
          · next rest' =>
            split at h
            · cases h
            · obtain ⟨pre2, h3, h4⟩ := ih rest' _ a rest h
              refine ⟨pre ++ '.' :: pre2, ?_, ?_⟩
              · rw [h1, h3]; simp
              · intro hm
                simp only [List.mem_append, List.mem_cons] at hm
                rcases hm with hm | hm | hm
                · exact h2 hm
                · revert hm; decide
                · exact h4 hm
          · split at h
            · cases h
            · injection h with h
              injection h with _ hr
              subst hr
              exact ⟨pre, h1, h2⟩

/-- a text that contains a colon is never an `inet_aton` address -/
theorem atonExact_none_of_colon (s : Str) (h : ':' ∈ s) : atonExact s = none := by
  unfold atonExact atonEnd
  cases hl : atonLoop 4 s [] with
  | none => rfl
  | some r =>
    obtain ⟨a, rest⟩ := r
    obtain ⟨pre, h1, h2⟩ := atonLoop_consumed 4 s [] a rest hl
    cases rest with
    | nil =>
      rw [List.append_nil] at h1
      rw [h1] at h
      exact absurd h h2
    | cons c t =>
      simp only
      split
      · next a' heq => split at heq <;> simp at heq
      · rfl


/-! ### characters of an IPv6 spelling -/

/-- hex digits, `:` and `.` -/
def v6c (c : Char) : Bool := (hexVal? c).isSome || c = ':' || c = '.'

theorem hexVal_bounds (c : Char) (h : (hexVal? c).isSome = true) :
    (48 ≤ c.toNat ∧ c.toNat ≤ 57) ∨ (65 ≤ c.toNat ∧ c.toNat ≤ 70) ∨ (97 ≤ c.toNat ∧ c.toNat ≤ 102) := by
  unfold hexVal? at h
  split at h
  · next h1 => exact Or.inl h1
  · split at h
    · next h1 => exact Or.inr (Or.inr h1)
    · split at h
      · next h1 => exact Or.inr (Or.inl h1)
      · cases h

theorem v6c_cases (c : Char) (h : v6c c = true) :
    ((48 ≤ c.toNat ∧ c.toNat ≤ 57) ∨ (65 ≤ c.toNat ∧ c.toNat ≤ 70) ∨ (97 ≤ c.toNat ∧ c.toNat ≤ 102)) ∨
      c = ':' ∨ c = '.' := by
  simp only [v6c, Bool.or_eq_true, decide_eq_true_eq] at h
  rcases h with (h | h) | h
  · exact Or.inl (hexVal_bounds c h)
  · exact Or.inr (Or.inl h)
  · exact Or.inr (Or.inr h)

theorem v6c_isHost6 (c : Char) (h : v6c c = true) : isHost6 c = true := by
  rcases v6c_cases c h with hb | rfl | rfl
  · have h128 : c.toNat < 128 := by omega
    have : isAsciiAlnum c = true := by
      simp only [isAsciiAlnum, Bool.or_eq_true, Bool.and_eq_true, decide_eq_true_eq]; omega
    simp [isHost6, isW, h128, this]
  · decide
  · decide

theorem v6c_ascii (c : Char) (h : v6c c = true) : c.toNat < 128 := by
  rcases v6c_cases c h with hb | rfl | rfl
  · omega
  · decide
  · decide

theorem v6c_ne (c : Char) (h : v6c c = true) (x : Char)
    (hx : x.toNat < 46 ∨ x.toNat = 47 ∨ (59 ≤ x.toNat ∧ x.toNat ≤ 64) ∨ (71 ≤ x.toNat ∧ x.toNat ≤ 96) ∨
      103 ≤ x.toNat) : c ≠ x := by
  intro e; subst e
  rcases v6c_cases c h with hb | rfl | rfl
  · omega
  · revert hx; decide
  · revert hx; decide

theorem hextetText_chars (g : Hextet) (hg : g.Valid) : ∀ c ∈ hextetText g, (hexVal? c).isSome = true := by
  intro c hc
  simp only [hextetText, List.mem_map] at hc
  obtain ⟨h, hm, rfl⟩ := hc
  rw [hexVal_char h (hg.2.2 h hm)]; rfl

theorem sepG_chars (gs : List Hextet) (hgs : ∀ g ∈ gs, g.Valid) : ∀ c ∈ sepG gs, v6c c = true := by
  induction gs with
  | nil => intro c hc; cases hc
  | cons g r ih =>
    intro c hc
    simp only [sepG, List.mem_append, List.mem_cons] at hc
    rcases hc with hc | rfl | hc
    · simp [v6c, hextetText_chars g (hgs g (by simp)) c hc]
    · decide
    · exact ih (fun x hx => hgs x (by simp [hx])) c hc

theorem sepG_no_dot (gs : List Hextet) (hgs : ∀ g ∈ gs, g.Valid) : '.' ∉ sepG gs := by
  induction gs with
  | nil => simp [sepG]
  | cons g r ih =>
    intro hc
    simp only [sepG, List.mem_append, List.mem_cons] at hc
    rcases hc with hc | hc | hc
    · have := hextetText_chars g (hgs g (by simp)) '.' hc
      rw [hexVal_dot] at this; cases this
    · revert hc; decide
    · exact ih (fun x hx => hgs x (by simp [hx])) hc

theorem render10_v6c (n : Nat) : ∀ c ∈ render 10 n, v6c c = true := by
  intro c hc
  obtain ⟨d, hd, rfl⟩ := renderWith_mem digitChar 10 (by omega) n c hc
  simp [v6c, hexVal_digitChar d (by omega)]

theorem dotted_chars (v : Nat) : ∀ c ∈ dotted v, v6c c = true := by
  intro c hc
  rw [dotted_shape] at hc
  simp only [List.mem_append, List.mem_cons] at hc
  rcases hc with hc | rfl | hc | rfl | hc | rfl | hc
  · exact render10_v6c _ c hc
  · decide
  · exact render10_v6c _ c hc
  · decide
  · exact render10_v6c _ c hc
  · decide
  · exact render10_v6c _ c hc

theorem end_chars (e : End6) (he : e.Valid) : ∀ c ∈ e.text, v6c c = true := by
  cases e with
  | nothing => intro c hc; cases hc
  | group g => intro c hc; simp [v6c, hextetText_chars g he c hc]
  | quad v => exact dotted_chars v

/-- the part of the text before what follows the last colon -/
def Spell6.pre : Spell6 → Str
  | .full gs _ => sepG gs
  | .compressed l r _ => (if l.isEmpty then [':'] else []) ++ (sepG l ++ ':' :: sepG r)

def Spell6.end6 : Spell6 → End6
  | .full _ e => e
  | .compressed _ _ e => e

theorem text_eq_pre (sp : Spell6) : sp.text = sp.pre ++ sp.end6.text := by
  cases sp with
  | full gs e => rfl
  | compressed l r e => simp [Spell6.text, Spell6.pre, Spell6.end6, List.append_assoc]

theorem end6_valid (sp : Spell6) (h : sp.Valid) : sp.end6.Valid := by
  cases sp with
  | full gs e => exact h.2.1
  | compressed l r e => exact h.2.2.1

theorem pre_chars (sp : Spell6) (h : sp.Valid) : ∀ c ∈ sp.pre, v6c c = true := by
  cases sp with
  | full gs e => exact sepG_chars gs h.1
  | compressed l r e =>
    intro c hc
    simp only [Spell6.pre, List.mem_append, List.mem_cons] at hc
    rcases hc with hc | hc | rfl | hc
    · split at hc
      · simp only [List.mem_singleton] at hc; subst hc; decide
      · cases hc
    · exact sepG_chars l h.1 c hc
    · decide
    · exact sepG_chars r h.2.1 c hc

theorem pre_no_dot (sp : Spell6) (h : sp.Valid) : '.' ∉ sp.pre := by
  cases sp with
  | full gs e => exact sepG_no_dot gs h.1
  | compressed l r e =>
    intro hc
    simp only [Spell6.pre, List.mem_append, List.mem_cons] at hc
    rcases hc with hc | hc | hc | hc
    · split at hc
      · simp only [List.mem_singleton] at hc; revert hc; decide
      · cases hc
    · exact sepG_no_dot l h.1 hc
    · revert hc; decide
    · exact sepG_no_dot r h.2.1 hc

theorem text_chars (sp : Spell6) (h : sp.Valid) : ∀ c ∈ sp.text, v6c c = true := by
  intro c hc
  rw [text_eq_pre, List.mem_append] at hc
  rcases hc with hc | hc
  · exact pre_chars sp h c hc
  · exact end_chars _ (end6_valid sp h) c hc

/-! ### colons and length -/

theorem count_colon_sepG_ge (gs : List Hextet) : gs.length ≤ (sepG gs).count ':' := by
  induction gs with
  | nil => simp [sepG]
  | cons g r ih =>
    simp only [sepG, List.count_append, List.count_cons_self, List.length_cons]
    omega

theorem count_colon_text (sp : Spell6) (h : sp.Valid) : 2 ≤ sp.text.count ':' := by
  cases sp with
  | full gs e =>
    obtain ⟨_, _, _, hlen⟩ := h
    have hwl : e.words.length ≤ 2 := by cases e <;> simp [End6.words]
    have := count_colon_sepG_ge gs
    simp only [Spell6.text, List.count_append]
    omega
  | compressed l r e =>
    simp only [Spell6.text, List.count_append, List.count_cons_self]
    have := count_colon_sepG_ge l
    cases l with
    | nil => simp; omega
    | cons g l' => simp only [List.length_cons] at this; omega

theorem colon_mem_text (sp : Spell6) (h : sp.Valid) : ':' ∈ sp.text := by
  have := count_colon_text sp h
  exact List.count_pos_iff.mp (by omega)

theorem hextetText_len (g : Hextet) (hg : g.Valid) : (hextetText g).length ≤ 4 := by
  simp [hextetText]; exact hg.2.1

theorem sepG_len (gs : List Hextet) (hgs : ∀ g ∈ gs, g.Valid) : (sepG gs).length ≤ 5 * gs.length := by
  induction gs with
  | nil => simp [sepG]
  | cons g r ih =>
    have h1 := hextetText_len g (hgs g (by simp))
    have h2 := ih (fun x hx => hgs x (by simp [hx]))
    simp only [sepG, List.length_append, List.length_cons]
    omega

theorem render10_octet_len (o : Nat) (ho : o ≤ 255) : (render 10 o).length ≤ 3 :=
  renderWith_length_le digitChar 10 (by omega) 2 o (by omega)

theorem dotted_len (v : Nat) : (dotted v).length ≤ 15 := by
  rw [dotted_shape]
  have h1 := render10_octet_len (v / 2 ^ 24 % 256) (by omega)
  have h2 := render10_octet_len (v / 2 ^ 16 % 256) (by omega)
  have h3 := render10_octet_len (v / 2 ^ 8 % 256) (by omega)
  have h4 := render10_octet_len (v % 256) (by omega)
  simp only [List.length_append, List.length_cons]
  omega

theorem end_len (e : End6) (he : e.Valid) : e.text.length ≤ 15 := by
  cases e with
  | nothing => simp [End6.text]
  | group g => have := hextetText_len g he; simp only [End6.text]; omega
  | quad v => exact dotted_len v

theorem text_len (sp : Spell6) (h : sp.Valid) : sp.text.length < 64 := by
  cases sp with
  | full gs e =>
    obtain ⟨hgs, he, _, hlen⟩ := h
    have h1 := sepG_len gs hgs
    have h2 := end_len e he
    simp only [Spell6.text, List.length_append]
    omega
  | compressed l r e =>
    obtain ⟨hl, hr, he, hlen, _⟩ := h
    have h1 := sepG_len l hl
    have h2 := sepG_len r hr
    have h3 := end_len e he
    have h4 : (if l.isEmpty then [':'] else ([] : Str)).length ≤ 1 := by split <;> simp
    simp only [Spell6.text, List.length_append, List.length_cons]
    omega

theorem text_ne_nil (sp : Spell6) (h : sp.Valid) : sp.text ≠ [] := by
  intro e
  have := colon_mem_text sp h
  rw [e] at this; cases this


/-! ### idna fast path and `getaddrinfo` -/

theorem splitOn_len_le (sep : Char) (s : Str) : ∀ l ∈ splitOn sep s, l.length ≤ s.length := by
  induction s with
  | nil => intro l hl; simp [splitOn] at hl; subst hl; simp
  | cons c t ih =>
    intro l hl
    rw [splitOn] at hl
    cases hs : splitOn sep t with
    | nil => exact absurd hs (splitOn_ne_nil sep t)
    | cons x xs =>
      rw [hs] at hl ih
      simp only at hl
      split at hl
      · simp only [List.mem_cons] at hl
        rcases hl with rfl | hl
        · simp
        · have := ih l (by simp only [List.mem_cons]; exact hl)
          simp only [List.length_cons]; omega
      · simp only [List.mem_cons] at hl
        rcases hl with rfl | hl
        · have := ih x (by simp)
          simp only [List.length_cons]; omega
        · have := ih l (by simp [hl])
          simp only [List.length_cons]; omega

theorem dot_not_in_render10 (n : Nat) : '.' ∉ render 10 n := by
  intro h
  have := render10_isD n '.' h
  revert this; decide

theorem labels_text (sp : Spell6) (h : sp.Valid) : ∀ l ∈ splitOn '.' sp.text, LabelOk l := by
  intro l hl
  refine ⟨?_, by have := splitOn_len_le '.' sp.text l hl; have := text_len sp h; omega⟩
  -- no label is empty
  rw [text_eq_pre] at hl
  have hpre := pre_no_dot sp h
  have hev := end6_valid sp h
  cases he : sp.end6 with
  | nothing =>
    rw [he] at hl
    simp only [End6.text, List.append_nil] at hl
    rw [splitOn_no_sep _ _ hpre] at hl
    simp only [List.mem_singleton] at hl
    subst hl
    have hne := text_ne_nil sp h
    rw [text_eq_pre, he] at hne
    simp only [End6.text, List.append_nil] at hne
    cases hp : sp.pre with
    | nil => exact absurd hp hne
    | cons _ _ => simp
  | group g =>
    rw [he] at hl hev
    have hnd : '.' ∉ sp.pre ++ hextetText g := by
      intro hm
      rw [List.mem_append] at hm
      rcases hm with hm | hm
      · exact hpre hm
      · have := hextetText_chars g hev '.' hm
        rw [hexVal_dot] at this; cases this
    simp only [End6.text] at hl
    rw [splitOn_no_sep _ _ hnd] at hl
    simp only [List.mem_singleton] at hl
    subst hl
    obtain ⟨c, t, hct, _⟩ := hextetText_head g hev
    simp [hct]; omega
  | quad v =>
    rw [he] at hl
    simp only [End6.text] at hl
    rw [dotted_shape, ← List.append_assoc] at hl
    have hnd : '.' ∉ sp.pre ++ render 10 (v / 2 ^ 24 % 256) := by
      intro hm
      rw [List.mem_append] at hm
      rcases hm with hm | hm
      · exact hpre hm
      · exact dot_not_in_render10 _ hm
    rw [splitOn_app _ _ _ hnd, splitOn_app _ _ _ (dot_not_in_render10 _),
      splitOn_app _ _ _ (dot_not_in_render10 _), splitOn_no_sep _ _ (dot_not_in_render10 _)] at hl
    simp only [List.mem_cons, List.not_mem_nil, or_false] at hl
    have hr : ∀ n, 0 < (render 10 n).length := by
      intro n
      cases hn : render 10 n with
      | nil => exact absurd hn (render10_ne_nil n)
      | cons _ _ => simp
    rcases hl with rfl | rfl | rfl | rfl
    · have := hr (v / 2 ^ 24 % 256); simp only [List.length_append]; omega
    · exact hr _
    · exact hr _
    · exact hr _

theorem text_isEmpty (sp : Spell6) (h : sp.Valid) : sp.text.isEmpty = false := by
  cases ht : sp.text with
  | nil => exact absurd ht (text_ne_nil sp h)
  | cons _ _ => rfl

theorem gaiNumeric_spell6 (sp : Spell6) (h : sp.Valid) : gaiNumeric sp.text = .v6 sp.denotes := by
  unfold gaiNumeric
  have hnul : sp.text.takeWhile (fun c => decide (c ≠ Char.ofNat 0)) = sp.text := by
    have := span_app (fun c => decide (c ≠ Char.ofNat 0)) sp.text []
      (fun x hx => by
        have := v6c_ne x (text_chars sp h x hx) (Char.ofNat 0) (by decide)
        simp [this]) (Or.inl rfl)
    rw [List.append_nil] at this
    exact this.1
  simp only [hnul]
  have hstar : sp.text ≠ ['*'] := by
    intro e
    have := colon_mem_text sp h
    rw [e] at this
    revert this; decide
  have hpc : '%' ∉ sp.text := by
    intro hm
    exact v6c_ne '%' (text_chars sp h '%' hm) '%' (by decide) rfl
  simp [hstar, atonExact_none_of_colon sp.text (colon_mem_text sp h), hpc, pton6_spell sp h]

theorem getaddrinfo_spell6 (env : Env) (sp : Spell6) (h : sp.Valid) (p : Nat) (hp : p < 65536) :
    getaddrinfo env sp.text p = .ok [(.inet6, ntop6 sp.denotes, p)] := by
  unfold getaddrinfo
  rw [idnaEncode_ascii env _ (text_isEmpty sp h)
    (fun c hc => v6c_ascii c (text_chars sp h c hc)) (labels_text sp h)]
  simp only [gaiPort_small p hp, gaiNumeric_spell6 sp h]


/-! ### the IPv6 regular expression on documented forms -/

theorem matchCidr_gen (w : Option Nat) (rest : Str) (hd : Stops isD rest)
    (hs : rest = [] ∨ ∃ c t, rest = c :: t ∧ c ≠ '/') :
    matchCidr (spellWidth w ++ rest) = (w.map (render 10), rest) := by
  cases w with
  | none =>
    simp only [spellWidth, List.nil_append, Option.map_none]
    rcases hs with rfl | ⟨c, t, rfl, hc⟩
    · rfl
    · unfold matchCidr
      split
      · next t' heq => injection heq with h1 _; exact absurd h1 hc
      · rfl
  | some x =>
    simp only [spellWidth, List.cons_append, matchCidr, Option.map_some]
    have h := takeD x rest hd
    rw [h.1, h.2, render10_isEmpty]
    simp

theorem skipBracket_of_ne (c : Char) (t : Str) (h : c ≠ '[') : skipBracket (c :: t) = c :: t := by
  unfold skipBracket
  split
  · next t' heq => injection heq with h1 _; exact absurd h1 h
  · rfl

theorem text_head (sp : Spell6) (h : sp.Valid) : ∃ c t, sp.text = c :: t ∧ v6c c = true := by
  cases ht : sp.text with
  | nil => exact absurd ht (text_ne_nil sp h)
  | cons c t => exact ⟨c, t, rfl, text_chars sp h c (by rw [ht]; simp)⟩

/-- the body of the IPv6 expression (after an optional `[`) on `address[/width][]][:ports]` -/
theorem matchRx6Body_spell (sp : Spell6) (h : sp.Valid) (w : Option Nat) (tail : Str) (f l : Option Str)
    (htail : (tail = [] ∧ f = none ∧ l = none) ∨
      ∃ ps, tail = ']' :: spellPorts ps ∧ f = (portTexts ps).1 ∧ l = (portTexts ps).2) :
    matchRx6Body isHost6 (sp.text ++ (spellWidth w ++ tail)) = some ⟨sp.text, w.map (render 10), f, l⟩ := by
  unfold matchRx6Body
  obtain ⟨c, t, hct, hc⟩ := text_head sp h
  have hstar : optStar (sp.text ++ (spellWidth w ++ tail)) = ([], sp.text ++ (spellWidth w ++ tail)) := by
    rw [hct, List.cons_append]
    exact optStar_of_ne c _ (v6c_ne c hc '*' (by decide))
  have hstop : Stops isHost6 (spellWidth w ++ tail) := by
    cases w with
    | some x => exact Or.inr ⟨'/', _, rfl, by decide⟩
    | none =>
      simp only [spellWidth, List.nil_append]
      rcases htail with ⟨rfl, _⟩ | ⟨ps, rfl, _⟩
      · exact Or.inl rfl
      · exact Or.inr ⟨']', _, rfl, by decide⟩
  have hspan := span_app isHost6 sp.text (spellWidth w ++ tail)
    (fun x hx => v6c_isHost6 x (text_chars sp h x hx)) hstop
  have hd : Stops isD tail := by
    rcases htail with ⟨rfl, _⟩ | ⟨ps, rfl, _⟩
    · exact Or.inl rfl
    · exact Or.inr ⟨']', _, rfl, by decide⟩
  have hs : tail = [] ∨ ∃ c t, tail = c :: t ∧ c ≠ '/' := by
    rcases htail with ⟨rfl, _⟩ | ⟨ps, rfl, _⟩
    · exact Or.inl rfl
    · exact Or.inr ⟨']', _, rfl, by decide⟩
  rw [hstar]
  simp only [hspan.1, hspan.2, text_isEmpty sp h, Bool.false_eq_true, ↓reduceIte, matchCidr_gen w tail hd hs]
  rcases htail with ⟨rfl, rfl, rfl⟩ | ⟨ps, rfl, rfl, rfl⟩
  · rfl
  · simp only [matchPortTail_spell]

theorem matchRx6_spell (sp : Spell6) (h : sp.Valid) (w : Option Nat) (f : Form6) :
    matchRx6 (spellSubnet6 sp w f) =
      some ⟨sp.text, w.map (render 10), (portTexts f.ports).1, (portTexts f.ports).2⟩ := by
  unfold matchRx6 matchRx6With
  cases f with
  | bare =>
    obtain ⟨c, t, hct, hc⟩ := text_head sp h
    have : skipBracket (spellSubnet6 sp w .bare) = sp.text ++ (spellWidth w ++ []) := by
      simp only [spellSubnet6, List.append_nil]
      rw [hct, List.cons_append]
      exact skipBracket_of_ne c _ (v6c_ne c hc '[' (by decide))
    rw [this]
    exact matchRx6Body_spell sp h w [] none none (Or.inl ⟨rfl, rfl, rfl⟩)
  | bracketed ps =>
    have : skipBracket (spellSubnet6 sp w (.bracketed ps)) = sp.text ++ (spellWidth w ++ ']' :: spellPorts ps) := rfl
    rw [this]
    exact matchRx6Body_spell sp h w _ _ _ (Or.inr ⟨ps, rfl, rfl, rfl⟩)

theorem countColons_spell6 (sp : Spell6) (h : sp.Valid) (w : Option Nat) (f : Form6) :
    countColons (spellSubnet6 sp w f) > Gen.C16.SUBNET_COLON_THRESHOLD := by
  have ht : Gen.C16.SUBNET_COLON_THRESHOLD = 1 := by decide
  have := count_colon_text sp h
  unfold countColons
  cases f with
  | bare => simp only [spellSubnet6, List.count_append]; omega
  | bracketed ps =>
    simp only [spellSubnet6, List.count_cons, List.count_append]
    omega

/-! ### the result loop for one address of either family -/

theorem subnetLoop_single_fam (fam : Family) (w : Option Nat) (hw : ∀ x, w = some x → x < 10 ^ 10)
    (ps : PortSpec) (hps : ps.Valid) (addr : Str) (port : Nat) :
    subnetLoop (w.map (render 10)) (portTexts ps).1 (portTexts ps).2 [(fam, addr, port)] =
      match w with
      | none => .ok [⟨fam, addr, maxCidr fam, ps.first, ps.last⟩]
      | some x =>
        if x ≤ maxCidr fam then .ok [⟨fam, addr, x, ps.first, ps.last⟩] else .error (.fatal .cidrRange) := by
  cases w with
  | none =>
    cases ps with
    | none => simp [subnetLoop, portTexts, PortSpec.first, PortSpec.last]
    | one p =>
      have hp : p < 10 ^ 10 := by simp only [PortSpec.Valid] at hps; omega
      simp [subnetLoop, portTexts, PortSpec.first, PortSpec.last, pyInt_render p hp]
    | range p q =>
      have hp : p < 10 ^ 10 := by simp only [PortSpec.Valid] at hps; omega
      have hq : q < 10 ^ 10 := by simp only [PortSpec.Valid] at hps; omega
      simp [subnetLoop, portTexts, PortSpec.first, PortSpec.last, pyInt_render p hp, pyInt_render q hq]
  | some x =>
    have hx := hw x rfl
    by_cases hle : x ≤ maxCidr fam
    · cases ps with
      | none => simp [subnetLoop, portTexts, PortSpec.first, PortSpec.last, pyInt_render x hx, hle]
      | one p =>
        have hp : p < 10 ^ 10 := by simp only [PortSpec.Valid] at hps; omega
        simp [subnetLoop, portTexts, PortSpec.first, PortSpec.last, pyInt_render x hx, hle, pyInt_render p hp]
      | range p q =>
        have hp : p < 10 ^ 10 := by simp only [PortSpec.Valid] at hps; omega
        have hq : q < 10 ^ 10 := by simp only [PortSpec.Valid] at hps; omega
        simp [subnetLoop, portTexts, PortSpec.first, PortSpec.last, pyInt_render x hx, hle,
          pyInt_render p hp, pyInt_render q hq]
    · simp [subnetLoop, pyInt_render x hx, hle]

def Form6.Valid : Form6 → Prop
  | .bare => True
  | .bracketed ps => ps.Valid

theorem form6_ports_valid (f : Form6) (hf : f.Valid) : f.ports.Valid := by
  cases f with
  | bare => trivial
  | bracketed ps => exact hf

/-- `parse_subnetport` on a documented IPv6 form reduces to the result loop on the one address -/
theorem parse_spell6_aux (env : Env) (sp : Spell6) (h : sp.Valid) (w : Option Nat) (f : Form6) :
    parseSubnetport env (spellSubnet6 sp w f) =
      subnetLoop (w.map (render 10)) (portTexts f.ports).1 (portTexts f.ports).2
        [(.inet6, ntop6 sp.denotes, 0)] := by
  unfold parseSubnetport parseSubnetportWith
  simp only [countColons_spell6 sp h w f, ↓reduceIte, matchRx6_spell sp h w f,
    getaddrinfo_spell6 env sp h 0 (by decide)]
  simp

/-! ### `parse_ipport` on `[v6]` and `[v6]:port` -/

theorem matchIpport_v6 (sp : Spell6) (h : sp.Valid) (tail : Str) (po : Option Str)
    (htail : (tail = [] ∧ po = none) ∨ ∃ p, tail = ':' :: render 10 p ∧ po = some (render 10 p)) :
    matchIpport ('[' :: (sp.text ++ ']' :: tail)) = some (sp.text, po) := by
  unfold matchIpport
  have hnotdig : ('[' :: (sp.text ++ ']' :: tail)).all isPyDigit = false := by
    have : isPyDigit '[' = false := by decide
    simp [this]
  have hbr : ('[' :: (sp.text ++ ']' :: tail)).contains ']' = true :=
    contains_true_of_mem _ _ (by simp)
  have hnb : ']' ∉ sp.text := fun hm => v6c_ne ']' (text_chars sp h ']' hm) ']' (by decide) rfl
  have hspan := span_app (fun c => decide (c ≠ ']')) sp.text (']' :: tail)
    (all_ne_of_not_mem ']' sp.text hnb) (stops_ne ']' tail)
  simp only [hnotdig, Bool.and_false, Bool.false_eq_true, ↓reduceIte, hbr, hspan.1, hspan.2, text_isEmpty sp h]
  rcases htail with ⟨rfl, rfl⟩ | ⟨p, rfl, rfl⟩
  · simp [matchOptPort_nil]
  · simp [matchOptPort_port]

end Sshuttle.ArgsSpec
