/-
Invariants of the client tunnel end (`CSys`) under arbitrary events, arbitrary incoming
frames and arbitrary clock readings: the bookkeeping behind C10_at_most_once / C10_right_asker.
-/
import SshuttleModel.Lemmas.Dgram

namespace Sshuttle.Dgram

/-- Any sequence of client events, each with the clock reading it sees. -/
def CSys.run (cfg : Cfg) (s : CSys) (ops : List (Nat × COp)) : CSys :=
  ops.foldl (fun s p => s.step cfg p.1 p.2) s

/-- Query serial numbers that still have a callback registered. -/
def liveQids (chans : List (Nat × Cb)) : List Nat := chans.filterMap fun p => cbQid (some p.2)

/-- Query serial numbers for which a datagram has been sent to the asker. -/
def emQids (s : CSys) : List Nat := s.emitted.filterMap (·.1)

theorem liveQids_sublist {a b : List (Nat × Cb)} (h : a.Sublist b) : (liveQids a).Sublist (liveQids b) :=
  h.filterMap _

theorem liveQids_append (a b : List (Nat × Cb)) : liveQids (a ++ b) = liveQids a ++ liveQids b := by
  simp [liveQids, List.filterMap_append]

theorem mem_liveQids {q : Nat} {chans : List (Nat × Cb)} :
    q ∈ liveQids chans ↔ ∃ k l a o, (k, Cb.dns q l a o) ∈ chans := by
  simp only [liveQids, List.mem_filterMap]
  constructor
  · rintro ⟨⟨k, cb⟩, hm, hq⟩
    cases cb with
    | dns q' l a o => simp [cbQid] at hq; subst hq; exact ⟨k, l, a, o, hm⟩
    | udp _ _ => simp [cbQid] at hq
    | other => simp [cbQid] at hq
  · rintro ⟨k, l, a, o, hm⟩
    exact ⟨_, hm, rfl⟩

/-- In a list whose live serial numbers are pairwise distinct, a serial number determines its entry. -/
theorem live_entry_unique {chans : List (Nat × Cb)} (hn : (liveQids chans).Nodup)
    {p1 p2 : Nat × Cb} {q : Nat} (h1 : p1 ∈ chans) (h2 : p2 ∈ chans)
    (e1 : cbQid (some p1.2) = some q) (e2 : cbQid (some p2.2) = some q) : p1 = p2 := by
  induction chans with
  | nil => cases h1
  | cons p rest ih =>
    simp only [liveQids, List.filterMap_cons] at hn
    rcases List.mem_cons.1 h1 with rfl | h1' <;> rcases List.mem_cons.1 h2 with rfl | h2'
    · rfl
    · rw [e1] at hn
      have : q ∈ liveQids rest := List.mem_filterMap.2 ⟨p2, h2', e2⟩
      exact absurd this (List.nodup_cons.1 hn).1
    · rw [e2] at hn
      have : q ∈ liveQids rest := List.mem_filterMap.2 ⟨p1, h1', e1⟩
      exact absurd this (List.nodup_cons.1 hn).1
    · have hn' : (liveQids rest).Nodup := by
        cases hq : cbQid (some p.2) with
        | none => rw [hq] at hn; exact hn
        | some x => rw [hq] at hn; exact (List.nodup_cons.1 hn).2
      exact ih hn' h1' h2'

structure CInv (s : CSys) : Prop where
  live_nodup : (liveQids s.c.chans).Nodup
  live_lt : ∀ q ∈ liveQids s.c.chans, q < s.c.nq
  em_nodup : (emQids s).Nodup
  em_lt : ∀ q ∈ emQids s, q < s.c.nq
  disj : ∀ q ∈ emQids s, q ∉ liveQids s.c.chans
  qids : s.queries.map (·.qid) = List.range s.c.nq
  live_rec : ∀ k q l a o, (k, Cb.dns q l a o) ∈ s.c.chans →
    ∃ qu ∈ s.queries, qu.qid = q ∧ qu.chan = k ∧ qu.lsn = l ∧ qu.asker = a ∧ qu.orig = o
  em_rec : ∀ q e, (some q, e) ∈ s.emitted →
    ∃ qu ∈ s.queries, qu.qid = q ∧ e.to = qu.asker ∧ e.lsn = qu.lsn ∧ e.bound = qu.orig

theorem CInv.init : CInv {} := by
  refine ⟨by simp [liveQids], by simp [liveQids], by simp [emQids], by simp [emQids],
    by simp [emQids], by simp, ?_, ?_⟩
  · intro k q l a o h; simp at h
  · intro q e h; simp at h

/-- A step that only shrinks `chans` (or adds entries that are not DNS callbacks) and leaves the
logs alone preserves the invariant. -/
theorem CInv.of_sublist {s : CSys} (h : CInv s) {c' : Client} {sent' : List Frame} (extra : List (Nat × Cb))
    (hs : c'.chans.Sublist (s.c.chans ++ extra)) (hx : liveQids extra = []) (hnq : c'.nq = s.c.nq) :
    CInv { s with c := c', sent := sent' } := by
  have hl : (liveQids c'.chans).Sublist (liveQids s.c.chans) := by
    have := liveQids_sublist hs
    rwa [liveQids_append, hx, List.append_nil] at this
  refine ⟨hl.nodup h.live_nodup, ?_, h.em_nodup, ?_, ?_, ?_, ?_, h.em_rec⟩
  · intro q hq; simp only [hnq]; exact h.live_lt q (hl.subset hq)
  · intro q hq; simp only [hnq]; exact h.em_lt q hq
  · intro q hq hq'; exact h.disj q hq (hl.subset hq')
  · simp only [hnq]; exact h.qids
  · intro k q l a o hm
    have hm' := hs.subset hm
    rcases List.mem_append.1 hm' with hm' | hm'
    · exact h.live_rec k q l a o hm'
    · have : q ∈ liveQids extra := mem_liveQids.2 ⟨k, l, a, o, hm'⟩
      rw [hx] at this; cases this

/-! ### what the client functions do to the state -/

theorem ondns_ok {cfg : Cfg} {now : Nat} {cap : Capture} {c c' : Client} {fr : List Frame}
    (h : ondns cfg now cap c = .ok (c', fr)) :
    (c'.chans = c.chans ∧ c'.nq = c.nq ∧ c'.dnsreqs = c.dnsreqs ∧ c'.udpBySrc = c.udpBySrc ∧ fr = []) ∨
    (∃ chan dst data closes c1,
      recvUdp cfg.method cfg.recvMax cap = some (cap.src, dst, data) ∧
      data = cap.data.take cfg.recvMax ∧
      hasKey chan c.chans = false ∧
      c1.chans = c.chans ++ [(chan, Cb.dns c.nq cap.lsn cap.src dst)] ∧
      c1.nq = c.nq + 1 ∧
      c1.dnsreqs = set chan (now + cfg.dnsHorizonS * cfg.ticksPerS) c.dnsreqs ∧
      c1.udpBySrc = c.udpBySrc ∧
      expire now c1 = .ok (c', closes) ∧
      fr = ⟨chan, CMD_DNS_REQ, data⟩ :: closes) := by
  unfold ondns at h
  split at h
  · simp only [Except.ok.injEq, Prod.mk.injEq] at h
    obtain ⟨rfl, rfl⟩ := h
    exact Or.inl ⟨rfl, rfl, rfl, rfl, rfl⟩
  · next srcip dstip data hr =>
    have hsrc : srcip = cap.src ∧ data = cap.data.take cfg.recvMax := by
      unfold recvUdp at hr
      split at hr
      · simp at hr; exact ⟨hr.1.symm, hr.2.2.symm⟩
      · split at hr
        · cases hr
        · simp at hr; exact ⟨hr.1.symm, hr.2.2.symm⟩
    obtain ⟨rfl, hdata⟩ := hsrc
    split at h
    · simp only [Except.ok.injEq, Prod.mk.injEq] at h
      obtain ⟨rfl, rfl⟩ := h
      exact Or.inl ⟨rfl, rfl, rfl, rfl, rfl⟩
    · next chani' chan hn =>
      obtain ⟨hfree, _⟩ := nextChannel_free _ _ _ _ hn
      simp only at h
      split at h
      · cases h
      · next c2 closes he =>
        simp only [Except.ok.injEq, Prod.mk.injEq] at h
        obtain ⟨rfl, rfl⟩ := h
        exact Or.inr ⟨chan, dstip, data, closes,
          { chani := chani', chans := set chan (Cb.dns c.nq cap.lsn cap.src dstip) c.chans,
            dnsreqs := set chan (now + cfg.dnsHorizonS * cfg.ticksPerS) c.dnsreqs,
            udpBySrc := c.udpBySrc, nq := c.nq + 1 },
          hr, hdata, hfree, set_of_not_hasKey _ _ _ hfree, rfl, rfl, rfl, he, rfl⟩

theorem udpAlloc_ok {cfg : Cfg} {lsn : Nat} {src : Addr} {c c1 : Client} {r : Option (Nat × List Frame)}
    (h : udpAlloc cfg lsn src c = (c1, r)) :
    c1.nq = c.nq ∧ c1.dnsreqs = c.dnsreqs ∧ c1.udpBySrc = c.udpBySrc ∧
    ((c1.chans = c.chans ∧ (r = none ∨ ∃ chan t, lookup src c.udpBySrc = some (chan, t) ∧ r = some (chan, []))) ∨
     (∃ chan, lookup src c.udpBySrc = none ∧ hasKey chan c.chans = false ∧
        c1.chans = c.chans ++ [(chan, Cb.udp lsn src)] ∧ r = some (chan, [⟨chan, CMD_UDP_OPEN, dec lsn⟩]))) := by
  unfold udpAlloc at h
  split at h
  · next chan t hl =>
    simp only [Prod.mk.injEq] at h
    obtain ⟨rfl, rfl⟩ := h
    exact ⟨rfl, rfl, rfl, Or.inl ⟨rfl, Or.inr ⟨chan, t, hl, rfl⟩⟩⟩
  · next hl =>
    split at h
    · simp only [Prod.mk.injEq] at h
      obtain ⟨rfl, rfl⟩ := h
      exact ⟨rfl, rfl, rfl, Or.inl ⟨rfl, Or.inl rfl⟩⟩
    · next chani' chan hn =>
      obtain ⟨hfree, _⟩ := nextChannel_free _ _ _ _ hn
      simp only [Prod.mk.injEq] at h
      obtain ⟨rfl, rfl⟩ := h
      exact ⟨rfl, rfl, rfl, Or.inr ⟨chan, hl, hfree, set_of_not_hasKey _ _ _ hfree, rfl⟩⟩

theorem onacceptUdp_ok {cfg : Cfg} {now : Nat} {cap : Capture} {c c' : Client} {fr : List Frame}
    (h : onacceptUdp cfg now cap c = .ok (c', fr)) :
    c'.nq = c.nq ∧ ∃ extra, liveQids extra = [] ∧ c'.chans.Sublist (c.chans ++ extra) := by
  unfold onacceptUdp at h
  split at h
  · simp only [Except.ok.injEq, Prod.mk.injEq] at h
    obtain ⟨rfl, rfl⟩ := h
    exact ⟨rfl, [], rfl, by simp⟩
  · next srcip dstip data hr =>
    split at h
    · next c1 hal =>
      simp only [Except.ok.injEq, Prod.mk.injEq] at h
      obtain ⟨rfl, rfl⟩ := h
      obtain ⟨e1, _, _, e4⟩ := udpAlloc_ok hal
      rcases e4 with ⟨e4, _⟩ | ⟨chan, _, _, _, e5⟩
      · exact ⟨e1, [], rfl, by simp [e4]⟩
      · cases e5
    · next c1 chan opens hal =>
      obtain ⟨e1, _, _, e4⟩ := udpAlloc_ok hal
      have hc1 : ∃ extra, liveQids extra = [] ∧ c1.chans.Sublist (c.chans ++ extra) := by
        rcases e4 with ⟨e4, _⟩ | ⟨ch, _, _, e5, _⟩
        · exact ⟨[], rfl, by simp [e4]⟩
        · exact ⟨[(ch, Cb.udp cap.lsn srcip)], by simp [liveQids, cbQid], by simp [e5]⟩
      simp only at h
      split at h
      · cases h
      · split at h
        · cases h
        · next c3 closes he =>
          simp only [Except.ok.injEq, Prod.mk.injEq] at h
          obtain ⟨rfl, _⟩ := h
          obtain ⟨s1, s2, _⟩ := expire_ok he
          obtain ⟨extra, hx, hs⟩ := hc1
          exact ⟨by simp [s2, e1], extra, hx, s1.trans (by simpa using hs)⟩

theorem sendUdp_ok {m : Method} {l : Nat} {o : Option Addr} {a : Addr} {d : Bytes} {es : List Emit}
    (h : sendUdp m l o a d = .ok es) : es = [] ∨ es = [⟨l, o, a, d⟩] := by
  unfold sendUdp at h
  split at h
  · cases h
  · simp at h; exact Or.inr h.symm
  · simp at h; exact Or.inl (by simpa using h.symm)
  · simp at h; exact Or.inr h.symm

theorem clientGot_ok {cfg : Cfg} {f : Frame} {c c' : Client} {es : List Emit}
    (h : clientGot cfg f c = .ok (c', es)) :
    (c' = c ∧ (isChannelCmd f.cmd = false ∨ cbQid (lookup f.chan c.chans) = none)) ∨
    (isChannelCmd f.cmd = true ∧ ∃ q l a o, lookup f.chan c.chans = some (.dns q l a o) ∧
      hasKey f.chan c.dnsreqs = true ∧
      c'.chans = erase f.chan c.chans ∧ c'.dnsreqs = erase f.chan c.dnsreqs ∧ c'.nq = c.nq ∧
      c'.udpBySrc = c.udpBySrc ∧ c'.chani = c.chani ∧ sendUdp cfg.method l o a f.data = .ok es) := by
  unfold clientGot at h
  split at h
  · next hc =>
    simp only [Except.ok.injEq, Prod.mk.injEq] at h
    exact Or.inl ⟨h.1.symm, Or.inl (by simpa using hc)⟩
  · next hc =>
    have hc' : isChannelCmd f.cmd = true := by simpa using hc
    split at h
    · next hl =>
      simp only [Except.ok.injEq, Prod.mk.injEq] at h
      exact Or.inl ⟨h.1.symm, Or.inr (by simp [hl, cbQid])⟩
    · next hl =>
      simp only [Except.ok.injEq, Prod.mk.injEq] at h
      exact Or.inl ⟨h.1.symm, Or.inr (by simp [hl, cbQid])⟩
    · next q l a o hl =>
      unfold dnsDone at h
      split at h
      · cases h
      · split at h
        · cases h
        · next h1 h2 =>
          simp only at h
          split at h
          · cases h
          · next es' hs =>
            simp only [Except.ok.injEq, Prod.mk.injEq] at h
            obtain ⟨rfl, rfl⟩ := h
            exact Or.inr ⟨hc', q, l, a, o, hl, by simpa using h2, rfl, rfl, rfl, rfl, rfl, hs⟩
    · next l src hl =>
      split at h
      · cases h
      · simp only [Except.ok.injEq, Prod.mk.injEq] at h
        exact Or.inl ⟨h.1.symm, Or.inr (by simp [hl, cbQid])⟩

theorem CInv.dead {s : CSys} (h : CInv s) (d : Option Err) : CInv { s with dead := d } :=
  ⟨h.live_nodup, h.live_lt, h.em_nodup, h.em_lt, h.disj, h.qids, h.live_rec, h.em_rec⟩

theorem emQids_append_none (s : CSys) (es : List Emit) :
    (s.emitted ++ es.map fun e => ((none : Option Nat), e)).filterMap (·.1) = emQids s := by
  simp [emQids, List.filterMap_append]

theorem CInv.step {cfg : Cfg} {s : CSys} (h : CInv s) (now : Nat) (op : COp) :
    CInv (s.step cfg now op) := by
  unfold CSys.step
  split
  · exact h
  · cases op with
    | dns cap =>
      simp only
      split
      · exact h.dead _
      · next c' frames ho =>
        rcases ondns_ok ho with ⟨e1, e2, _, _, rfl⟩ | ⟨chan, dst, data, closes, c1, hr, _, hfree, hc1, hnq1, _, _, he, rfl⟩
        · exact h.of_sublist [] (by simp [e1]) rfl e2
        · obtain ⟨hs, hnq, _⟩ := expire_ok he
          have hne : ¬ c'.nq = s.c.nq := by rw [hnq, hnq1]; omega
          simp only [hne, if_false]
          have hl : (liveQids c'.chans).Sublist (liveQids s.c.chans ++ [s.c.nq]) := by
            have := liveQids_sublist hs
            rw [hc1, liveQids_append] at this
            simpa [liveQids, cbQid] using this
          have hnew : s.c.nq ∉ liveQids s.c.chans := fun hm => Nat.lt_irrefl _ (h.live_lt _ hm)
          refine ⟨hl.nodup ?_, ?_, h.em_nodup, ?_, ?_, ?_, ?_, ?_⟩
          · rw [List.nodup_append]
            refine ⟨h.live_nodup, by simp, ?_⟩
            intro a ha b hb
            simp only [List.mem_singleton] at hb
            subst hb
            intro e; subst e; exact hnew ha
          · intro q hq
            rw [hnq, hnq1]
            rcases List.mem_append.1 (hl.subset hq) with hq | hq
            · exact Nat.lt_succ_of_lt (h.live_lt q hq)
            · simp at hq; omega
          · intro q hq; rw [hnq, hnq1]; exact Nat.lt_succ_of_lt (h.em_lt q hq)
          · intro q hq hq'
            rcases List.mem_append.1 (hl.subset hq') with hq' | hq'
            · exact h.disj q hq hq'
            · simp at hq'; have := h.em_lt q hq; omega
          · simp only [List.map_append, List.map_cons, List.map_nil, h.qids, hnq, hnq1, List.range_succ]
          · intro k q l a o hm
            have hm' := hs.subset hm
            rw [hc1] at hm'
            rcases List.mem_append.1 hm' with hm' | hm'
            · obtain ⟨qu, hq, hh⟩ := h.live_rec k q l a o hm'
              exact ⟨qu, List.mem_append_left _ hq, hh⟩
            · simp only [List.mem_singleton, Prod.mk.injEq, Cb.dns.injEq] at hm'
              obtain ⟨rfl, rfl, rfl, rfl, rfl⟩ := hm'
              exact ⟨_, List.mem_append_right _ (List.mem_singleton.2 rfl), rfl, rfl, rfl, rfl, by simp [hr]⟩
          · intro q e hm
            obtain ⟨qu, hq, hh⟩ := h.em_rec q e hm
            exact ⟨qu, List.mem_append_left _ hq, hh⟩
    | udp cap =>
      simp only
      split
      · exact h.dead _
      · next c' frames ho =>
        obtain ⟨e1, extra, hx, hs⟩ := onacceptUdp_ok ho
        exact h.of_sublist extra hs hx e1
    | accept =>
      simp only
      split
      · exact h.dead _
      · next c' frames ho =>
        obtain ⟨hs, hnq, _⟩ := expire_ok ho
        exact h.of_sublist [] (by simpa using hs) rfl hnq
    | occupy id =>
      simp only
      split
      · exact h
      · next hk =>
        have hk' : hasKey id s.c.chans = false := by simpa using hk
        exact h.of_sublist [(id, Cb.other)] (by simp [set_of_not_hasKey _ _ _ hk']) (by simp [liveQids, cbQid]) rfl
    | release id =>
      simp only
      split
      · exact h.of_sublist [] (by simpa using erase_sublist id s.c.chans) rfl rfl
      · exact h
    | frame f =>
      simp only
      split
      · exact h.dead _
      · next c' es ho =>
        rcases clientGot_ok ho with ⟨rfl, hq⟩ | ⟨hc, q, l, a, o, hl, _, e1, _, e3, _, _, hsend⟩
        · have hqn : (if isChannelCmd f.cmd = true then cbQid (lookup f.chan s.c.chans) else none) = none := by
            rcases hq with hq | hq
            · simp [hq]
            · simp [hq]
          rw [hqn]
          have he := emQids_append_none s es
          refine ⟨h.live_nodup, h.live_lt, ?_, ?_, ?_, h.qids, h.live_rec, ?_⟩
          · show (List.filterMap _ _).Nodup
            rw [he]; exact h.em_nodup
          · intro q' hq'
            have : q' ∈ emQids s := by rw [← he]; exact hq'
            exact h.em_lt q' this
          · intro q' hq'
            have : q' ∈ emQids s := by rw [← he]; exact hq'
            exact h.disj q' this
          · intro q' e hm
            simp only [List.mem_append, List.mem_map] at hm
            rcases hm with hm | ⟨_, _, hm⟩
            · exact h.em_rec q' e hm
            · cases hm
        · have hmem : (f.chan, Cb.dns q l a o) ∈ s.c.chans := lookup_mem hl
          have hqlive : q ∈ liveQids s.c.chans := mem_liveQids.2 ⟨_, _, _, _, hmem⟩
          have hsub : (liveQids c'.chans).Sublist (liveQids s.c.chans) := by
            rw [e1]; exact liveQids_sublist (erase_sublist _ _)
          have hgone : q ∉ liveQids c'.chans := by
            intro hm
            obtain ⟨k', l', a', o', hm'⟩ := mem_liveQids.1 hm
            rw [e1] at hm'
            obtain ⟨hm1, hm2⟩ := mem_erase.1 hm'
            have := live_entry_unique h.live_nodup hmem hm1 rfl rfl
            simp only [Prod.mk.injEq] at this
            exact hm2 this.1.symm
          simp only [hc, if_true, hl, cbQid]
          rcases sendUdp_ok hsend with rfl | rfl
          · simp only [List.map_nil, List.append_nil]
            refine ⟨hsub.nodup h.live_nodup, ?_, h.em_nodup, ?_, ?_, by rw [e3]; exact h.qids, ?_, h.em_rec⟩
            · intro q' hq'; rw [e3]; exact h.live_lt q' (hsub.subset hq')
            · intro q' hq'; rw [e3]; exact h.em_lt q' hq'
            · intro q' hq' hq''; exact h.disj q' hq' (hsub.subset hq'')
            · intro k q' l' a' o' hm
              rw [e1] at hm
              exact h.live_rec k q' l' a' o' (mem_erase.1 hm).1
          · have hem : emQids { s with c := c', emitted := s.emitted ++ [(some q, (⟨l, o, a, f.data⟩ : Emit))] }
                = emQids s ++ [q] := by simp [emQids, List.filterMap_append]
            refine ⟨hsub.nodup h.live_nodup, ?_, ?_, ?_, ?_, by rw [e3]; exact h.qids, ?_, ?_⟩
            · intro q' hq'; rw [e3]; exact h.live_lt q' (hsub.subset hq')
            · show (emQids _).Nodup
              simp only [List.map_cons, List.map_nil]
              rw [hem, List.nodup_append]
              refine ⟨h.em_nodup, by simp, ?_⟩
              intro x hx y hy
              simp only [List.mem_singleton] at hy
              subst hy
              intro e; subst e; exact h.disj _ hx hqlive
            · intro q' hq'
              have hq'' : q' ∈ emQids s ++ [q] := by
                rw [← hem]; simpa using hq'
              rw [e3]
              rcases List.mem_append.1 hq'' with hq'' | hq''
              · exact h.em_lt q' hq''
              · simp at hq''; subst hq''; exact h.live_lt _ hqlive
            · intro q' hq' hlive
              have hq'' : q' ∈ emQids s ++ [q] := by
                rw [← hem]; simpa using hq'
              rcases List.mem_append.1 hq'' with hq'' | hq''
              · exact h.disj q' hq'' (hsub.subset hlive)
              · simp at hq''; subst hq''; exact hgone hlive
            · intro k q' l' a' o' hm
              rw [e1] at hm
              exact h.live_rec k q' l' a' o' (mem_erase.1 hm).1
            · intro q' e hm
              simp only [List.map_cons, List.map_nil, List.mem_append, List.mem_singleton, Prod.mk.injEq,
                Option.some.injEq] at hm
              rcases hm with hm | ⟨rfl, rfl⟩
              · exact h.em_rec q' e hm
              · obtain ⟨qu, hqu, h1, _, h3, h4, h5⟩ := h.live_rec _ _ _ _ _ hmem
                exact ⟨qu, hqu, h1, h4.symm, h3.symm, h5.symm⟩

theorem CInv.run {cfg : Cfg} {s : CSys} (h : CInv s) (ops : List (Nat × COp)) : CInv (s.run cfg ops) := by
  induction ops generalizing s with
  | nil => exact h
  | cons p ops ih => exact ih (h.step p.1 p.2)

end Sshuttle.Dgram
