/-
C12 helper lemmas, part 6: the init string the start-up checks compare is literally the last
bytes read from the server (ghost field `hsBytes` = every byte handed out by the start-up reads).
-/
import SshuttleModel.Lemmas.ClientMainDeath

namespace Sshuttle.ClientMain

def T (_ : World) : Prop := True

theorem hsRead_bytes (sc : Script) (n : Nat) (h : Bytes) :
    Triple (fun w => w.hsBytes = h) (hsRead sc n) (fun v w => w.hsBytes = h ++ v) T := by
  unfold hsRead
  refine Triple.bind (R := fun _ w => w.hsBytes = h) (Triple.act fun w hw => ⟨hw, trivial⟩) fun _ => ?_
  refine Triple.bind (R := fun w0 w => w.hsBytes = h ∧ w = w0) (Triple.getW fun w hw => ⟨hw, rfl⟩) fun w0 => ?_
  refine Triple.bind (R := fun _ w => w.hsBytes = h ++ (Handshake.read w0.reader n).1) ?_ fun _ => ?_
  · refine Triple.modifyW fun w hw => ?_
    obtain ⟨h1, rfl⟩ := hw
    simp only [h1]
  · exact Triple.pure _ fun w hw => hw

theorem skipToNul_bytes (sc : Script) (fuel : Nat) (h : Bytes) :
    Triple (fun w => w.hsBytes = h) (skipToNul sc fuel) (fun _ w => ∃ pre, w.hsBytes = h ++ pre) T := by
  induction fuel generalizing h with
  | zero => exact Triple.pure _ fun w hw => ⟨[], by simp [hw]⟩
  | succ k ih =>
    unfold skipToNul
    refine Triple.bind (hsRead_bytes sc 1 h) fun v => ?_
    split
    · exact Triple.pure _ fun w hw => ⟨[], by simp [hw]⟩
    · rename_i b rest
      refine Triple.ite (Triple.pure _ fun w hw => ⟨_, hw⟩) ?_
      exact (ih (h ++ b :: rest)).conseq (fun _ hw => hw)
        (fun _ w ⟨pre, hp⟩ => ⟨(b :: rest) ++ pre, by simp [hp]⟩) (fun _ hw => hw)

theorem readExactly_bytes (sc : Script) (fuel n : Nat) (h0 pre acc : Bytes) :
    Triple (fun w => w.hsBytes = h0 ++ pre ++ acc) (readExactly sc fuel n acc)
      (fun v w => ∃ pre', w.hsBytes = h0 ++ pre' ++ v) T := by
  induction fuel generalizing acc with
  | zero => exact Triple.pure _ fun w hw => ⟨pre, hw⟩
  | succ k ih =>
    unfold readExactly
    refine Triple.ite (Triple.pure _ fun w hw => ⟨pre, hw⟩) ?_
    refine Triple.bind (hsRead_bytes sc _ (h0 ++ pre ++ acc)) fun v => ?_
    by_cases hv : v.isEmpty = true
    · simp only [hv, ↓reduceIte]
      have : v = [] := List.isEmpty_iff.1 hv
      subst this
      exact Triple.pure _ fun w hw => ⟨pre, by simpa using hw⟩
    · simp only [hv]
      exact (ih (acc ++ v)).conseq (fun w hw => by simp [hw]) (fun _ _ hq => hq) (fun _ hw => hw)

/-- The value `readInit` returns is a suffix of the bytes read so far. -/
theorem readInit_bytes (sc : Script) (fuel : Nat) (h0 : Bytes) :
    Triple (fun w => w.hsBytes = h0) (readInit sc fuel)
      (fun v w => ∃ pre, w.hsBytes = h0 ++ pre ++ v) T := by
  unfold readInit
  refine Triple.bind (skipToNul_bytes sc fuel h0) fun _ => ?_
  intro w ⟨p1, hp1⟩
  refine (Triple.bind (skipToNul_bytes sc fuel (h0 ++ p1)) fun _ => ?_) w hp1
  intro w' ⟨p2, hp2⟩
  exact (readExactly_bytes sc _ _ h0 (p1 ++ p2) []) w' (by simp [hp2])

/-- If the start-up checks succeed, the init string is the genuine one, ssh was alive at the first
`poll()`, and the init string is the tail of what was read from the server. -/
theorem startupChecks_accept (sc : Script) (h0 : Bytes) :
    Triple (fun w => w.hsBytes = h0) (startupChecks sc)
      (fun init w => (∃ pre, w.hsBytes = h0 ++ pre ++ init) ∧ init = Handshake.expected ∧
        sc.cfg.poll0 = none) T := by
  unfold startupChecks
  refine Triple.bind (R := fun _ w => w.hsBytes = h0) (Triple.mapExc (Triple.act fun w hw => ⟨hw, trivial⟩)) fun _ => ?_
  refine Triple.bind (R := fun _ w => w.hsBytes = h0) (Triple.modifyW fun w hw => hw) fun _ => ?_
  refine Triple.bind (R := fun _ w => w.hsBytes = h0) (Triple.getW fun w hw => hw) fun w0 => ?_
  refine Triple.bind (Triple.mapExc (readInit_bytes sc _ h0)) fun init => ?_
  refine Triple.bind (R := fun _ w => ∃ pre, w.hsBytes = h0 ++ pre ++ init)
    (Triple.act fun w hw => ⟨hw, trivial⟩) fun _ => ?_
  refine Triple.bind (R := fun _ w => (∃ pre, w.hsBytes = h0 ++ pre ++ init) ∧ sc.cfg.poll0 = none) ?_ fun _ => ?_
  · cases hp : sc.cfg.poll0 with
    | none => simp only [Option.isSome_none, Bool.false_eq_true, ↓reduceIte]; exact Triple.pure _ fun w hw => ⟨hw, trivial⟩
    | some v => simp only [Option.isSome_some, ↓reduceIte]; exact Triple.raise _ fun _ _ => trivial
  refine Triple.bind (R := fun _ w => ((∃ pre, w.hsBytes = h0 ++ pre ++ init) ∧ sc.cfg.poll0 = none) ∧
      init = Handshake.expected) ?_ fun _ => ?_
  · by_cases hi : init = Handshake.expected
    · simp only [hi, ne_eq, not_true_eq_false, ↓reduceIte]
      exact Triple.pure _ fun w hw => ⟨by simpa [hi] using hw, trivial⟩
    · simp only [ne_eq, hi, not_false_eq_true, ↓reduceIte]
      exact Triple.raise _ fun _ _ => trivial
  · exact Triple.pure _ fun w hw => ⟨hw.1.1, hw.2, hw.1.2⟩

end Sshuttle.ClientMain
