/-
`parse_hostport` on `[user[:password]@]host` for a host without a colon, and `parse_ipport`
on the documented `[ip:]port` forms.
-/
import SshuttleModel.Lemmas.ArgsEnv
import SshuttleModel.Lemmas.ArgsMain

namespace Sshuttle.ArgsSpec
open Sshuttle.Inet Sshuttle.Args

theorem contains_false_of_not_mem (c : Char) (xs : Str) (h : c ∉ xs) : xs.contains c = false := by
  simp [List.contains_eq_mem, h]

theorem contains_true_of_mem (c : Char) (xs : Str) (h : c ∈ xs) : xs.contains c = true := by
  simp [List.contains_eq_mem, h]

/-- password as `parse_hostport` reports it: an empty one is `None` -/
def pwResult (pw : Option Str) : Option Str :=
  match pw with
  | some p => if p.isEmpty then none else some p
  | none => none

theorem parseHostport_remote (user pw : Option Str) (host : Str)
    (hhost : host ≠ []) (hat : '@' ∉ host) (hcolon : ':' ∉ host)
    (hu : ∀ u, user = some u → ':' ∉ u)
    (hnone : user = none → pw = none) :
    parseHostport (some (spellRemote user pw host)) = .ok ⟨user, pwResult pw, none, some host⟩ := by
  cases user with
  | none =>
    have := hnone rfl; subst this
    have hne : host.isEmpty = false := by cases host with
      | nil => exact absurd rfl hhost
      | cons _ _ => rfl
    simp [parseHostport, spellRemote, hne, hat, hcolon, pwResult]
  | some u =>
    have huc : ':' ∉ u := hu u rfl
    cases pw with
    | none =>
      have hs : (u ++ '@' :: host).isEmpty = false := by cases u <;> rfl
      simp [parseHostport, spellRemote, hs, rsplit1_app '@' u host hat, huc, hcolon, pwResult]
    | some p =>
      have hs : (u ++ ':' :: (p ++ '@' :: host)).isEmpty = false := by cases u <;> rfl
      have hr : rsplit1 '@' (u ++ ':' :: (p ++ '@' :: host)) = (u ++ ':' :: p, host) := by
        have := rsplit1_app '@' (u ++ ':' :: p) host hat
        simpa [List.append_assoc] using this
      have hsp := split1_app ':' u p huc
      cases hp : p.isEmpty <;>
        simp [parseHostport, spellRemote, hs, hr, hsp, hcolon, pwResult, hp]

end Sshuttle.ArgsSpec
