/-
`parse_hostport` on `[user[:password]@]host` for a host without a colon, and `parse_ipport`
on the documented `[ip:]port` forms.
-/
import SshuttleModel.Lemmas.ArgsEnv
import SshuttleModel.Lemmas.ArgsMain

namespace Sshuttle.ArgsSpec
open Sshuttle.Inet Sshuttle.Args

theorem contains_false_of_not_mem (c : Char) (xs : Str) (h : c ∉ xs) : xs.contains c = false := by
  simp [List.contains_eq_mem, h]

theorem contains_true_of_mem (c : Char) (xs : Str) (h : c ∈ xs) : xs.contains c = true := by
  simp [List.contains_eq_mem, h]

/-- password as `parse_hostport` reports it: an empty one is `None` -/
def pwResult (pw : Option Str) : Option Str := normPassword pw

/-- the user-info split gives back the parts a specification was built from: the last `@`
ends the user info (the host has none), the first `:` ends the user name (it has none) -/
theorem splitUserinfo_spell (user pw : Option Str) (host : Str) (hat : '@' ∉ host)
    (hu : ∀ u, user = some u → ':' ∉ u) (hnone : user = none → pw = none) :
    splitUserinfo (spellRemote user pw host) = (user, pw, host) := by
  cases user with
  | none =>
    have := hnone rfl; subst this
    simp [splitUserinfo, spellRemote, hat]
  | some u =>
    have huc : ':' ∉ u := hu u rfl
    cases pw with
    | none => simp [splitUserinfo, spellRemote, rsplit1_app '@' u host hat, huc]
    | some p =>
      have hr : rsplit1 '@' (u ++ ':' :: (p ++ '@' :: host)) = (u ++ ':' :: p, host) := by
        have := rsplit1_app '@' (u ++ ':' :: p) host hat
        simpa [List.append_assoc] using this
      have hsp := split1_app ':' u p huc
      simp [splitUserinfo, spellRemote, hr, hsp]

theorem spellRemote_isEmpty (user pw : Option Str) (host : Str) (hhost : host ≠ []) :
    (spellRemote user pw host).isEmpty = false := by
  cases user with
  | none => cases host with
    | nil => exact absurd rfl hhost
    | cons _ _ => rfl
  | some u => cases pw <;> cases u <;> rfl

/-- for *any* host part without `@` (name, address, `host:port`, `[v6]:port`, garbage): user
and password come back as built, port / host / failure are those of the host part alone -/
theorem parseHostport_userinfo (user pw : Option Str) (host : Str)
    (hhost : host ≠ []) (hat : '@' ∉ host)
    (hu : ∀ u, user = some u → ':' ∉ u) (hnone : user = none → pw = none) :
    parseHostport (some (spellRemote user pw host)) =
      (match hostPart host with
       | .error e => .error e
       | .ok (port, h) => .ok ⟨user, pwResult pw, port, h⟩) := by
  simp only [parseHostport, spellRemote_isEmpty user pw host hhost, Bool.false_eq_true, ↓reduceIte,
    splitUserinfo_spell user pw host hat hu hnone, pwResult]
  cases hostPart host with
  | error e => rfl
  | ok v => cases v; rfl

theorem parseHostport_remote (user pw : Option Str) (host : Str)
    (hhost : host ≠ []) (hat : '@' ∉ host) (hcolon : ':' ∉ host)
    (hu : ∀ u, user = some u → ':' ∉ u)
    (hnone : user = none → pw = none) :
    parseHostport (some (spellRemote user pw host)) = .ok ⟨user, pwResult pw, none, some host⟩ := by
  rw [parseHostport_userinfo user pw host hhost hat hu hnone]
  simp [hostPart, hcolon]

end Sshuttle.ArgsSpec
