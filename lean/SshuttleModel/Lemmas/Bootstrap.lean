/-
Helper lemmas for C18, part 1: the buffered reader only ever exposes the flattened
stream; decimal rendering and `int()` are inverse; `strip` on clean lines.
-/
import SshuttleModel.Code.Bootstrap

namespace Sshuttle.Bootstrap

/-! ### buffered reader -/

theorem fillTo_flat (n : Nat) (buf : Bytes) (raw : List Bytes) :
    (fillTo n buf raw).1 ++ (fillTo n buf raw).2.flatten = buf ++ raw.flatten := by
  induction raw generalizing buf with
  | nil => simp [fillTo]
  | cons c cs ih =>
    unfold fillTo
    split
    · rfl
    · rw [ih]; simp

theorem fillTo_enough (n : Nat) (buf : Bytes) (raw : List Bytes) :
    n ≤ (fillTo n buf raw).1.length ∨ (fillTo n buf raw).2 = [] := by
  induction raw generalizing buf with
  | nil => right; simp [fillTo]
  | cons c cs ih =>
    unfold fillTo
    split
    next h => left; exact h
    · exact ih _

/-- `read(n)` returns the first `n` bytes of what is left of the stream (all of it if
shorter) and leaves the rest, however the stream is cut into raw reads. -/
theorem read_spec (r : BufReader) (n : Nat) :
    (read r n).1 = r.flat.take n ∧ (read r n).2.flat = r.flat.drop n := by
  have hf := fillTo_flat n r.buf r.raw
  have he := fillTo_enough n r.buf r.raw
  simp only [read, BufReader.flat]
  rw [← hf]
  rcases he with h | h
  · constructor
    · rw [List.take_append_of_le_length h]
    · rw [List.drop_append_of_le_length h]
  · rw [h]; simp

theorem fillLine_flat (buf : Bytes) (raw : List Bytes) :
    (fillLine buf raw).1 ++ (fillLine buf raw).2.flatten = buf ++ raw.flatten := by
  induction raw generalizing buf with
  | nil => simp [fillLine]
  | cons c cs ih =>
    unfold fillLine
    split
    · rfl
    · rw [ih]; simp

theorem fillLine_enough (buf : Bytes) (raw : List Bytes) :
    10 ∈ (fillLine buf raw).1 ∨ (fillLine buf raw).2 = [] := by
  induction raw generalizing buf with
  | nil => right; simp [fillLine]
  | cons c cs ih =>
    unfold fillLine
    split
    next h => left; simpa using h
    · exact ih _

theorem splitLine_spec (l t : Bytes) (h : 10 ∉ l) :
    splitLine (l ++ 10 :: t) = some (l ++ [10], t) := by
  induction l with
  | nil => simp [splitLine]
  | cons b r ih =>
    have hb : b ≠ 10 := by intro e; apply h; simp [e]
    have hr : 10 ∉ r := by intro e; apply h; simp [e]
    simp only [List.cons_append, splitLine, hb, ↓reduceIte, ih hr]

/-- First-occurrence uniqueness: a prefix that already holds a newline holds the whole line. -/
theorem prefix_has_line (a x l t : Bytes) (h : a ++ x = l ++ 10 :: t) (hl : 10 ∉ l) (ha : 10 ∈ a) :
    ∃ t', a = l ++ 10 :: t' ∧ t = t' ++ x := by
  rcases List.append_eq_append_iff.mp h with ⟨a', h1, _⟩ | ⟨c', h1, h2⟩
  · exfalso; apply hl; rw [h1]; exact List.mem_append_left _ ha
  · cases c' with
    | nil =>
      exfalso; apply hl
      simp only [List.append_nil] at h1
      rw [← h1]; exact ha
    | cons d t' =>
      simp only [List.cons_append, List.cons.injEq] at h2
      obtain ⟨hd, ht⟩ := h2
      exact ⟨t', by rw [h1, hd], ht⟩

/-- `readline()` returns the first line of what is left of the stream, newline included,
and leaves what follows it, however the stream is cut into raw reads. -/
theorem readline_spec (r : BufReader) (l t : Bytes) (h : r.flat = l ++ 10 :: t) (hl : 10 ∉ l) :
    (readline r).1 = l ++ [10] ∧ (readline r).2.flat = t := by
  have hf := fillLine_flat r.buf r.raw
  have he := fillLine_enough r.buf r.raw
  simp only [BufReader.flat] at h
  rw [h] at hf
  have key : ∃ t', (fillLine r.buf r.raw).1 = l ++ 10 :: t' ∧ t = t' ++ (fillLine r.buf r.raw).2.flatten := by
    rcases he with he | he
    · exact prefix_has_line _ _ _ _ hf hl he
    · rw [he] at hf ⊢
      simp only [List.flatten_nil, List.append_nil] at hf ⊢
      exact ⟨t, hf, rfl⟩
  obtain ⟨t', h1, h2⟩ := key
  simp only [readline, h1, splitLine_spec l t' hl, BufReader.flat]
  exact ⟨trivial, h2.symm⟩

/-! ### `strip`, `decimal`, `int()` -/

theorem dropWhile_ws_head (b : Nat) (r : Bytes) (h : isWs b = false) :
    (b :: r).dropWhile isWs = b :: r := by
  simp [List.dropWhile, h]

/-- a line made of a non-empty run of non-blank bytes and its newline strips to the run -/
theorem strip_clean (d : Bytes) (hne : d ≠ []) (h : ∀ b ∈ d, isWs b = false) :
    strip (d ++ [10]) = d := by
  have hhead : stripL (d ++ [10]) = d ++ [10] := by
    cases d with
    | nil => exact absurd rfl hne
    | cons b r =>
      simp only [stripL, List.cons_append]
      exact dropWhile_ws_head b _ (h b (by simp))
  have hlast : ∃ b r, d.reverse = b :: r ∧ isWs b = false := by
    cases hr : d.reverse with
    | nil => simp at hr; exact absurd hr hne
    | cons b r =>
      refine ⟨b, r, rfl, h b ?_⟩
      have : b ∈ d.reverse := by rw [hr]; simp
      simpa using this
  obtain ⟨b, r, hr, hb⟩ := hlast
  simp only [strip, hhead, stripR, List.reverse_append, List.reverse_cons, List.reverse_nil,
    List.nil_append, List.cons_append]
  have : isWs 10 = true := by decide
  simp only [List.dropWhile, this, hr, hb]
  rw [← hr, List.reverse_reverse]

theorem strip_newline : strip [10] = [] := by decide

theorem decimalAux_fuel (n : Nat) : ∀ f1 f2 : Nat, n ≤ f1 → n ≤ f2 → decimalAux f1 n = decimalAux f2 n := by
  induction n using Nat.strongRecOn with
  | ind n ih =>
    intro f1 f2 h1 h2
    cases f1 with
    | zero =>
      have hn : n = 0 := by omega
      subst hn
      cases f2 with
      | zero => rfl
      | succ g => simp [decimalAux]
    | succ g1 =>
      cases f2 with
      | zero =>
        have hn : n = 0 := by omega
        subst hn; simp [decimalAux]
      | succ g2 =>
        simp only [decimalAux]
        split
        · rfl
        · rw [ih (n / 10) (by omega) g1 g2 (by omega) (by omega)]

/-- the defining equation of `decimal` -/
theorem decimal_unfold (n : Nat) :
    decimal n = if n < 10 then [48 + n] else decimal (n / 10) ++ [48 + n % 10] := by
  unfold decimal
  cases n with
  | zero => rfl
  | succ m =>
    simp only [decimalAux]
    split
    · rfl
    · rw [decimalAux_fuel ((m + 1) / 10) m ((m + 1) / 10) (by omega) (by omega)]

/-- what `acc` becomes after reading the digits of `n` -/
def appendDec (acc n : Nat) : Nat :=
  if n < 10 then acc * 10 + n else appendDec acc (n / 10) * 10 + n % 10
termination_by n
decreasing_by omega

theorem appendDec_zero (n : Nat) : appendDec 0 n = n := by
  induction n using Nat.strongRecOn with
  | ind n ih =>
    unfold appendDec
    split
    · omega
    · rw [ih (n / 10) (by omega)]; omega

theorem isDigit_small (d : Nat) (h : d < 10) : isDigit (48 + d) = true := by
  simp [isDigit]; omega

theorem digitsVal_decimal_aux (n : Nat) : ∀ (acc : Nat) (prev : Bool) (rest : Bytes),
    digitsVal (decimal n ++ rest) acc prev = digitsVal rest (appendDec acc n) true := by
  induction n using Nat.strongRecOn with
  | ind n ih =>
    intro acc prev rest
    rw [decimal_unfold]
    unfold appendDec
    split
    next h =>
      simp only [List.cons_append, List.nil_append, digitsVal, isDigit_small n h, ↓reduceIte]
      congr 1; omega
    next h =>
      rw [List.append_assoc, ih (n / 10) (by omega)]
      have : n % 10 < 10 := Nat.mod_lt _ (by omega)
      simp only [List.cons_append, List.nil_append, digitsVal, isDigit_small _ this, ↓reduceIte]
      congr 1; omega

theorem digitsVal_decimal (n : Nat) : digitsVal (decimal n) 0 false = some n := by
  have := digitsVal_decimal_aux n 0 false []
  simp only [List.append_nil] at this
  rw [this, appendDec_zero]; rfl

theorem decimal_digits (n : Nat) : ∀ b ∈ decimal n, isDigit b = true := by
  induction n using Nat.strongRecOn with
  | ind n ih =>
    intro b hb
    rw [decimal_unfold] at hb
    split at hb
    next h => simp only [List.mem_singleton] at hb; subst hb; exact isDigit_small n h
    next h =>
      rcases List.mem_append.mp hb with hb | hb
      · exact ih (n / 10) (by omega) b hb
      · simp only [List.mem_singleton] at hb; subst hb
        exact isDigit_small _ (Nat.mod_lt _ (by omega))

theorem decimal_ne_nil (n : Nat) : decimal n ≠ [] := by
  rw [decimal_unfold]; split <;> simp

theorem digit_not_ws (b : Nat) (h : isDigit b = true) : isWs b = false := by
  simp only [isDigit, Bool.and_eq_true, decide_eq_true_eq] at h
  simp only [isWs, Bool.or_eq_false_iff, beq_eq_false_iff_ne, Bool.and_eq_false_iff, decide_eq_false_iff_not]
  omega

/-- `int(b'%d\n' % n) == n` for every `n ≥ 0`. -/
theorem parseInt_decimal_line (n : Nat) : parseInt (decimal n ++ [10]) = some (Int.ofNat n) := by
  unfold parseInt
  rw [strip_clean (decimal n) (decimal_ne_nil n) (fun b hb => digit_not_ws b (decimal_digits n b hb))]
  cases hd : decimal n with
  | nil => exact absurd hd (decimal_ne_nil n)
  | cons b r =>
    have hb : isDigit b = true := decimal_digits n b (by rw [hd]; simp)
    have h43 : b ≠ 43 := by intro e; subst e; simp [isDigit] at hb
    have h45 : b ≠ 45 := by intro e; subst e; simp [isDigit] at hb
    have hv := digitsVal_decimal n
    rw [hd] at hv
    split
    next r' heq => injection heq with h1 _; exact absurd h1 h43
    next r' heq => injection heq with h1 _; exact absurd h1 h45
    next => rw [hv]; rfl

end Sshuttle.Bootstrap
