/-
Number printing / parsing round trips used by C16: `render` followed by the digit loops of
`strtoul` (`numRun`) and of `int()` (`pyIntAux`) gives the number back.
-/
import SshuttleModel.Spec.Args

namespace Sshuttle.Inet

theorem renderFuel_lt (dc : Nat → Char) (b n : Nat) (h : n < b ∨ b < 2) :
    ∀ fuel, renderFuel dc b fuel n = [dc n] := by
  intro fuel
  cases fuel with
  | zero => rfl
  | succ f => simp [renderFuel, h]

/-- any fuel `≥ n` gives the same text -/
theorem renderFuel_indep (dc : Nat → Char) (b : Nat) (n : Nat) :
    ∀ f1 f2, n ≤ f1 → n ≤ f2 → renderFuel dc b f1 n = renderFuel dc b f2 n := by
  induction n using Nat.strongRecOn with
  | _ n ih =>
    intro f1 f2 h1 h2
    by_cases h : n < b ∨ b < 2
    · rw [renderFuel_lt dc b n h, renderFuel_lt dc b n h]
    · have hn : 0 < n := by omega
      cases f1 with
      | zero => omega
      | succ g1 =>
        cases f2 with
        | zero => omega
        | succ g2 =>
          simp only [renderFuel, h, ↓reduceIte]
          have hlt : n / b < n := Nat.div_lt_self (by omega) (by omega)
          rw [ih (n / b) hlt g1 g2 (by omega) (by omega)]

theorem renderWith_lt (dc : Nat → Char) (b n : Nat) (h : n < b ∨ b < 2) :
    renderWith dc b n = [dc n] := renderFuel_lt dc b n h n

theorem renderWith_ge (dc : Nat → Char) (b n : Nat) (h : ¬ (n < b ∨ b < 2)) :
    renderWith dc b n = renderWith dc b (n / b) ++ [dc (n % b)] := by
  unfold renderWith
  have hn : 0 < n := by omega
  cases n with
  | zero => omega
  | succ m =>
    simp only [renderFuel, h, ↓reduceIte]
    have hlt : (m + 1) / b < m + 1 := Nat.div_lt_self (by omega) (by omega)
    rw [renderFuel_indep dc b ((m + 1) / b) m ((m + 1) / b) (by omega) (by omega)]

theorem renderWith_ne_nil (dc : Nat → Char) (b n : Nat) : renderWith dc b n ≠ [] := by
  by_cases h : n < b ∨ b < 2
  · rw [renderWith_lt dc b n h]; simp
  · rw [renderWith_ge dc b n h]; simp

/-- every character printed is a digit character of a digit below the base -/
theorem renderWith_mem (dc : Nat → Char) (b : Nat) (hb : 2 ≤ b) (n : Nat) :
    ∀ c ∈ renderWith dc b n, ∃ d, d < b ∧ c = dc d := by
  induction n using Nat.strongRecOn with
  | _ n ih =>
    by_cases h : n < b ∨ b < 2
    · rw [renderWith_lt dc b n h]
      intro c hc
      simp only [List.mem_singleton] at hc
      exact ⟨n, by omega, hc⟩
    · rw [renderWith_ge dc b n h]
      intro c hc
      simp only [List.mem_append, List.mem_singleton] at hc
      rcases hc with hc | hc
      · exact ih (n / b) (Nat.div_lt_self (by omega) (by omega)) c hc
      · exact ⟨n % b, Nat.mod_lt _ (by omega), hc⟩

/-- the first character printed for a positive number is the character of a non-zero digit -/
theorem renderWith_head (dc : Nat → Char) (b : Nat) (hb : 2 ≤ b) (n : Nat) (hn : 0 < n) :
    ∃ d t, 0 < d ∧ d < b ∧ renderWith dc b n = dc d :: t := by
  induction n using Nat.strongRecOn with
  | _ n ih =>
    by_cases h : n < b ∨ b < 2
    · rw [renderWith_lt dc b n h]
      exact ⟨n, [], hn, by omega, rfl⟩
    · rw [renderWith_ge dc b n h]
      have hdiv : 0 < n / b := Nat.div_pos (by omega) (by omega)
      obtain ⟨d, t, hd0, hdb, he⟩ := ih (n / b) (Nat.div_lt_self (by omega) (by omega)) hdiv
      exact ⟨d, t ++ [dc (n % b)], hd0, hdb, by rw [he]; rfl⟩

theorem renderWith_length_le (dc : Nat → Char) (b : Nat) (hb : 2 ≤ b) (k : Nat) :
    ∀ n, n < b ^ (k + 1) → (renderWith dc b n).length ≤ k + 1 := by
  induction k with
  | zero =>
    intro n hn
    rw [renderWith_lt dc b n (by left; simpa using hn)]; simp
  | succ k ih =>
    intro n hn
    by_cases h : n < b ∨ b < 2
    · rw [renderWith_lt dc b n h]; simp
    · rw [renderWith_ge dc b n h]
      have : n / b < b ^ (k + 1) := by
        apply Nat.div_lt_of_lt_mul
        rw [Nat.pow_succ] at hn
        rw [Nat.mul_comm]; exact hn
      have := ih (n / b) this
      simp only [List.length_append, List.length_singleton]; omega

/-- `numRun` over a rendered number continues with the number appended to the accumulator. -/
theorem numRun_renderWith (dc : Nat → Char) (val? : Char → Option Nat) (b : Nat) (hb : 2 ≤ b)
    (hv : ∀ d, d < b → val? (dc d) = some d) (n : Nat) :
    ∀ acc rest, numRun b val? acc (renderWith dc b n ++ rest) =
      numRun b val? (acc * b ^ (renderWith dc b n).length + n) rest := by
  induction n using Nat.strongRecOn with
  | _ n ih =>
    intro acc rest
    by_cases h : n < b ∨ b < 2
    · rw [renderWith_lt dc b n h]
      have hn : n < b := by omega
      simp only [List.singleton_append, List.length_singleton, Nat.pow_one]
      rw [numRun, hv n hn]
    · rw [renderWith_ge dc b n h]
      have hlt : n / b < n := Nat.div_lt_self (by omega) (by omega)
      rw [List.append_assoc, ih (n / b) hlt]
      simp only [List.singleton_append, List.length_append, List.length_singleton]
      rw [numRun, hv (n % b) (Nat.mod_lt _ (by omega))]
      simp only
      have e : n / b * b + n % b = n := by rw [Nat.mul_comm]; exact Nat.div_add_mod n b
      congr 1
      rw [Nat.pow_succ, Nat.add_mul, Nat.mul_assoc]
      omega

theorem numRun_stop (b : Nat) (val? : Char → Option Nat) (acc : Nat) (rest : Str)
    (h : rest = [] ∨ ∃ c t, rest = c :: t ∧ val? c = none) : numRun b val? acc rest = (acc, rest) := by
  rcases h with rfl | ⟨c, t, rfl, hc⟩
  · rfl
  · rw [numRun, hc]

/-- parsing a rendered number that is followed by a non-digit gives the number and the rest -/
theorem numRun_render_stop (dc : Nat → Char) (val? : Char → Option Nat) (b : Nat) (hb : 2 ≤ b)
    (hv : ∀ d, d < b → val? (dc d) = some d) (n : Nat) (rest : Str)
    (h : rest = [] ∨ ∃ c t, rest = c :: t ∧ val? c = none) :
    numRun b val? 0 (renderWith dc b n ++ rest) = (n, rest) := by
  rw [numRun_renderWith dc val? b hb hv n 0 rest, numRun_stop b val? _ rest h]
  simp

/-! facts about the digit characters -/

theorem decVal_digitChar (d : Nat) (h : d < 10) : decVal? (digitChar d) = some d := by
  have : d = 0 ∨ d = 1 ∨ d = 2 ∨ d = 3 ∨ d = 4 ∨ d = 5 ∨ d = 6 ∨ d = 7 ∨ d = 8 ∨ d = 9 := by omega
  rcases this with rfl | rfl | rfl | rfl | rfl | rfl | rfl | rfl | rfl | rfl <;> decide

theorem octVal_digitChar (d : Nat) (h : d < 8) : octVal? (digitChar d) = some d := by
  have : d = 0 ∨ d = 1 ∨ d = 2 ∨ d = 3 ∨ d = 4 ∨ d = 5 ∨ d = 6 ∨ d = 7 := by omega
  rcases this with rfl | rfl | rfl | rfl | rfl | rfl | rfl | rfl <;> decide

theorem hexVal_digitChar (d : Nat) (h : d < 16) : hexVal? (digitChar d) = some d := by
  have : d = 0 ∨ d = 1 ∨ d = 2 ∨ d = 3 ∨ d = 4 ∨ d = 5 ∨ d = 6 ∨ d = 7 ∨ d = 8 ∨ d = 9 ∨
      d = 10 ∨ d = 11 ∨ d = 12 ∨ d = 13 ∨ d = 14 ∨ d = 15 := by omega
  rcases this with rfl | rfl | rfl | rfl | rfl | rfl | rfl | rfl | rfl | rfl | rfl | rfl | rfl | rfl | rfl | rfl <;> decide

theorem hexVal_digitCharU (d : Nat) (h : d < 16) : hexVal? (digitCharU d) = some d := by
  have : d = 0 ∨ d = 1 ∨ d = 2 ∨ d = 3 ∨ d = 4 ∨ d = 5 ∨ d = 6 ∨ d = 7 ∨ d = 8 ∨ d = 9 ∨
      d = 10 ∨ d = 11 ∨ d = 12 ∨ d = 13 ∨ d = 14 ∨ d = 15 := by omega
  rcases this with rfl | rfl | rfl | rfl | rfl | rfl | rfl | rfl | rfl | rfl | rfl | rfl | rfl | rfl | rfl | rfl <;> decide

end Sshuttle.Inet
