/-
The `if ":" in host:` block of `parse_hostport` (`Args.hostPart`: `ipaddress` first, then
`urlparse`) on every kind of host of `Spec/Args.lean`, with and without a port.
-/
import SshuttleModel.Lemmas.ArgsLower
import SshuttleModel.Lemmas.ArgsHostport

namespace Sshuttle.ArgsSpec
open Sshuttle.Inet Sshuttle.Args

/-- a character `urlsplit` leaves alone: ASCII, not TAB/CR/LF (removed), not `/ ? #` (end the authority) -/
def okc (c : Char) : Bool :=
  decide (c.toNat < 128) && (c != '\t') && (c != '\r') && (c != '\n') && (c != '/') && (c != '?') && (c != '#')

def Clean (t : Str) : Prop := ∀ c ∈ t, okc c = true

theorem clean_append (a b : Str) (ha : Clean a) (hb : Clean b) : Clean (a ++ b) := by
  intro c hc
  rw [List.mem_append] at hc
  rcases hc with hc | hc
  · exact ha c hc
  · exact hb c hc

theorem clean_cons (c : Char) (a : Str) (hc : okc c = true) (ha : Clean a) : Clean (c :: a) := by
  intro x hx
  simp only [List.mem_cons] at hx
  rcases hx with rfl | hx
  · exact hc
  · exact ha x hx

theorem clean_nil : Clean [] := by intro c hc; cases hc

theorem okc_of_bounds (c : Char) (h : 45 ≤ c.toNat ∧ c.toNat ≤ 122 ∧ c.toNat ≠ 47 ∧ c.toNat ≠ 63) : okc c = true := by
  have h1 : c ≠ '\t' := by intro e; subst e; revert h; decide
  have h2 : c ≠ '\r' := by intro e; subst e; revert h; decide
  have h3 : c ≠ '\n' := by intro e; subst e; revert h; decide
  have h4 : c ≠ '/' := by intro e; subst e; revert h; decide
  have h5 : c ≠ '?' := by intro e; subst e; revert h; decide
  have h6 : c ≠ '#' := by intro e; subst e; revert h; decide
  have h7 : c.toNat < 128 := by omega
  simp [okc, h1, h2, h3, h4, h5, h6, h7]

theorem clean_render10 (n : Nat) : Clean (render 10 n) := by
  intro c hc
  obtain ⟨d, hd, rfl⟩ := renderWith_mem digitChar 10 (by omega) n c hc
  apply okc_of_bounds
  rw [digitChar_toNat d hd]; omega

theorem nameChar_bounds (c : Char) (h : nameChar c = true) :
    45 ≤ c.toNat ∧ c.toNat ≤ 122 ∧ c.toNat ≠ 47 ∧ c.toNat ≠ 63 ∧ c.toNat ≠ 58 ∧ c.toNat ≠ 64 ∧ c.toNat ≠ 91 ∧
      c.toNat ≠ 93 := by
  simp only [nameChar, Bool.or_eq_true, decide_eq_true_eq] at h
  rcases h with ((h | h) | h) | h
  · have := alnum_bounds c h; omega
  · subst h; decide
  · subst h; decide
  · subst h; decide

theorem clean_name (s : Str) (h : ∀ c ∈ s, nameChar c = true) : Clean s := by
  intro c hc
  have := nameChar_bounds c (h c hc)
  exact okc_of_bounds c ⟨this.1, this.2.1, this.2.2.1, this.2.2.2.1⟩

theorem name_not_mem (s : Str) (h : ∀ c ∈ s, nameChar c = true) (x : Char)
    (hx : x.toNat < 45 ∨ x.toNat = 47 ∨ x.toNat = 58 ∨ x.toNat = 63 ∨ x.toNat = 64 ∨ x.toNat = 91 ∨ x.toNat = 93 ∨
      122 < x.toNat) : x ∉ s := by
  intro hm
  have := nameChar_bounds x (h x hm)
  omega

theorem clean_v6 (sp : Spell6) (h : sp.Valid) : Clean sp.text := by
  intro c hc
  rcases v6c_cases c (text_chars sp h c hc) with hb | rfl | rfl
  · apply okc_of_bounds; omega
  · decide
  · decide

theorem clean_dotted (v : Nat) : Clean (dotted v) := by
  intro c hc
  rcases v6c_cases c (dotted_chars v c hc) with hb | rfl | rfl
  · apply okc_of_bounds; omega
  · decide
  · decide

theorem okc_facts (c : Char) (h : okc c = true) :
    c.toNat < 128 ∧ c ≠ '\t' ∧ c ≠ '\r' ∧ c ≠ '\n' ∧ c ≠ '/' ∧ c ≠ '?' ∧ c ≠ '#' := by
  simp only [okc, Bool.and_eq_true, decide_eq_true_eq, bne_iff_ne, ne_eq] at h
  obtain ⟨⟨⟨⟨⟨⟨h1, h2⟩, h3⟩, h4⟩, h5⟩, h6⟩, h7⟩ := h
  exact ⟨h1, h2, h3, h4, h5, h6, h7⟩

theorem clean_filter (t : Str) (h : Clean t) :
    t.filter (fun c => decide (c ≠ '\t') && decide (c ≠ '\r') && decide (c ≠ '\n')) = t := by
  apply List.filter_eq_self.mpr
  intro c hc
  have := okc_facts c (h c hc)
  simp [this.2.1, this.2.2.1, this.2.2.2.1]

theorem clean_netloc (t : Str) (h : Clean t) :
    t.takeWhile (fun c => decide (c ≠ '/') && decide (c ≠ '?') && decide (c ≠ '#')) = t := by
  apply takeWhile_id
  intro c hc
  have := okc_facts c (h c hc)
  simp [this.2.2.2.2.1, this.2.2.2.2.2.1, this.2.2.2.2.2.2]

theorem clean_ascii (t : Str) (h : Clean t) : t.all (fun c => decide (c.toNat < 128)) = true := by
  rw [List.all_eq_true]
  intro c hc
  simp [(okc_facts c (h c hc)).1]

/-- `urlparse('//' + host)` for a host text without brackets -/
theorem urlparse_nobracket (x p : Str) (hx : Clean x) (hp : Clean p) (hxne : x ≠ [])
    (hc : ':' ∉ x) (hb1 : '[' ∉ x) (hb2 : ']' ∉ x) (hpc : '%' ∉ x) (hp1 : '[' ∉ p) (hp2 : ']' ∉ p) :
    urlparseHost (x ++ ':' :: p) = .ok ⟨some (x.map asciiLower), if p.isEmpty then none else some p⟩ := by
  have hcl : Clean (x ++ ':' :: p) := clean_append _ _ hx (clean_cons _ _ (by decide) hp)
  have hn1 : (x ++ ':' :: p).contains '[' = false := by
    apply contains_false_of_not_mem
    intro h; simp only [List.mem_append, List.mem_cons] at h
    rcases h with h | h | h
    · exact hb1 h
    · revert h; decide
    · exact hp1 h
  have hn2 : (x ++ ':' :: p).contains ']' = false := by
    apply contains_false_of_not_mem
    intro h; simp only [List.mem_append, List.mem_cons] at h
    rcases h with h | h | h
    · exact hb2 h
    · revert h; decide
    · exact hp2 h
  have hxe : x.isEmpty = false := isEmpty_false_of_ne x hxne
  have hall : ∀ c ∈ x, (fun c => decide (c ≠ '%')) c = true := all_ne_of_not_mem '%' x hpc
  have hs1 : (split1 '%' x).1 = x := by unfold split1; exact takeWhile_id _ x hall
  have hz : x.dropWhile (fun c => decide (c ≠ '%')) = [] := dropWhile_nil_of_all _ x hall
  unfold urlparseHost
  simp only [clean_filter _ hcl, clean_netloc _ hcl, hn1, hn2, Bool.false_and, Bool.and_false, Bool.or_self,
    Bool.false_eq_true, ↓reduceIte, clean_ascii _ hcl, Bool.not_true, split1_app ':' x p hc, hxe, hs1, hz,
    List.append_nil]

/-- `urlparse('//' + host)` for `[h]` / `[h]:port` -/
theorem urlparse_bracket (h tail : Str) (hh : Clean h) (ht : Clean tail) (hne : h ≠ [])
    (hb1 : '[' ∉ h) (hb2 : ']' ∉ h) (hpc : '%' ∉ h) (hchk : checkBracketedHost h = true)
    (htail : tail = [] ∨ ∃ p, tail = ':' :: p) :
    urlparseHost ('[' :: (h ++ ']' :: tail)) =
      .ok ⟨some (h.map asciiLower),
        if (split1 ':' tail).2.isEmpty then none else some (split1 ':' tail).2⟩ := by
  have hcl : Clean ('[' :: (h ++ ']' :: tail)) :=
    clean_cons _ _ (by decide) (clean_append _ _ hh (clean_cons _ _ (by decide) ht))
  have hn1 : ('[' :: (h ++ ']' :: tail)).contains '[' = true := contains_true_of_mem _ _ (by simp)
  have hn2 : ('[' :: (h ++ ']' :: tail)).contains ']' = true := contains_true_of_mem _ _ (by simp)
  have hs1 : split1 '[' ('[' :: (h ++ ']' :: tail)) = ([], h ++ ']' :: tail) := by
    have := split1_app '[' [] (h ++ ']' :: tail) (by simp)
    simpa using this
  have hs2 : split1 ']' (h ++ ']' :: tail) = (h, tail) := split1_app ']' h tail hb2
  have hhe : h.isEmpty = false := isEmpty_false_of_ne h hne
  have hall : ∀ c ∈ h, (fun c => decide (c ≠ '%')) c = true := all_ne_of_not_mem '%' h hpc
  have hs3 : (split1 '%' h).1 = h := by unfold split1; exact takeWhile_id _ h hall
  have hz : h.dropWhile (fun c => decide (c ≠ '%')) = [] := dropWhile_nil_of_all _ h hall
  unfold urlparseHost
  simp only [clean_filter _ hcl, clean_netloc _ hcl, hn1, hn2, Bool.not_true, Bool.and_false, Bool.or_self,
    Bool.false_eq_true, ↓reduceIte, hs1, hs2, hchk, clean_ascii _ hcl, Bool.true_and, hhe, hs3, hz,
    List.append_nil]

theorem urlPort_render (p : Nat) (hp : p < 65536) : urlPort (some (render 10 p)) = .ok (some p) := by
  unfold urlPort
  have hall : (render 10 p).all (fun c => decide (c.toNat < 128) && isDigit c) = true := by
    rw [List.all_eq_true]
    intro c hc
    obtain ⟨d, hd, rfl⟩ := renderWith_mem digitChar 10 (by omega) p c hc
    simp [isDigit_digitChar d hd, digitChar_toNat d hd]; omega
  have hle : p ≤ 65535 := by omega
  simp [hall, pyInt_render p (by omega), hle]


/-! ### `ip_address` rejects `host:port` and `[v6]…` -/

theorem ipAddress_two_parts (x p : Str) (hx : ':' ∉ x) (hp : ':' ∉ p) (hs : '/' ∉ x ++ ':' :: p)
    (hpc : '%' ∉ x ++ ':' :: p) : ipAddress (x ++ ':' :: p) = none := by
  unfold ipAddress
  rw [ipv4Address_none_of_colon _ (by simp), ipv6Address_plain _ hs hpc, ipv6FromString_two_parts x p hx hp]
  rfl

theorem asciiLower_upper (c : Char) (h : 65 ≤ c.toNat ∧ c.toNat ≤ 90) :
    97 ≤ (asciiLower c).toNat ∧ (asciiLower c).toNat ≤ 122 := by
  rw [← Char.ofNat_toNat c]
  generalize c.toNat = n at h ⊢
  have : n = 65 ∨ n = 66 ∨ n = 67 ∨ n = 68 ∨ n = 69 ∨ n = 70 ∨ n = 71 ∨ n = 72 ∨ n = 73 ∨ n = 74 ∨ n = 75 ∨ n = 76 ∨ n = 77 ∨ n = 78 ∨ n = 79 ∨ n = 80 ∨ n = 81 ∨ n = 82 ∨ n = 83 ∨ n = 84 ∨ n = 85 ∨ n = 86 ∨ n = 87 ∨ n = 88 ∨ n = 89 ∨ n = 90 := by omega
  rcases this with rfl | rfl | rfl | rfl | rfl | rfl | rfl | rfl | rfl | rfl | rfl | rfl | rfl | rfl | rfl | rfl | rfl | rfl | rfl | rfl | rfl | rfl | rfl | rfl | rfl | rfl <;> decide

theorem lower_mem (s : Str) (x : Char) (hx : x.toNat < 97 ∨ 122 < x.toNat) (h : x ∈ s.map asciiLower) : x ∈ s := by
  rw [List.mem_map] at h
  obtain ⟨c, hc, he⟩ := h
  by_cases hr : 65 ≤ c.toNat ∧ c.toNat ≤ 90
  · have := asciiLower_upper c hr
    rw [he] at this
    omega
  · have : asciiLower c = c := by
      unfold asciiLower
      split
      · next h' => exact absurd h' hr
      · rfl
    rw [this] at he
    rw [← he]; exact hc

theorem checkBracketed_v6 (sp : Spell6) (h : sp.Valid) : checkBracketedHost sp.text = true := by
  obtain ⟨c, t, hct, hc⟩ := text_head sp h
  have hv : c ≠ 'v' := v6c_ne c hc 'v' (by decide)
  unfold checkBracketedHost
  rw [hct]
  split
  · next t' heq => injection heq with h1 _; exact absurd h1 hv
  · rw [← hct, ipAddress_spell6 sp h]

theorem split1_nil (sep : Char) : split1 sep [] = ([], []) := rfl

theorem split1_colon_cons (p : Str) : split1 ':' (':' :: p) = ([], p) := by
  have := split1_app ':' [] p (by simp)
  simpa using this

/-- **The host part, for every kind of host, with and without a port.** -/
theorem hostPart_spec (h : HostSpec) (port : Option Nat) (hv : h.Valid port)
    (hp : ∀ p, port = some p → p < 65536) :
    hostPart (h.text ++ portSuffix port) = .ok (port, some (h.canon port)) := by
  cases h with
  | name s =>
    obtain ⟨hne, hch, hnum⟩ := hv
    have hcolon : ':' ∉ s := name_not_mem s hch ':' (by decide)
    cases port with
    | none =>
      simp only [HostSpec.text, portSuffix, List.append_nil, HostSpec.canon, Option.isSome_none,
        Bool.false_eq_true, ↓reduceIte]
      unfold hostPart
      simp [hcolon]
    | some p =>
      have hp' := hp p rfl
      have hnum' := hnum rfl
      simp only [HostSpec.text, portSuffix, HostSpec.canon, Option.isSome_some, ↓reduceIte]
      have hcr : ':' ∉ render 10 p := colon_not_in_render10 p
      have hnot : ∀ x : Char, (x.toNat < 45 ∨ x.toNat = 47 ∨ x.toNat = 58 ∨ x.toNat = 63 ∨ x.toNat = 64 ∨
          x.toNat = 91 ∨ x.toNat = 93 ∨ 122 < x.toNat) → isD x = false → x ≠ ':' → x ∉ s ++ ':' :: render 10 p := by
        intro x hx hd hxc hm
        simp only [List.mem_append, List.mem_cons] at hm
        rcases hm with hm | hm | hm
        · exact name_not_mem s hch x hx hm
        · exact hxc hm
        · have := render10_isD p x hm
          rw [hd] at this; cases this
      have hip : ipAddress (s ++ ':' :: render 10 p) = none :=
        ipAddress_two_parts s (render 10 p) hcolon hcr (hnot '/' (by decide) (by decide) (by decide))
          (hnot '%' (by decide) (by decide) (by decide))
      have hurl := urlparse_nobracket s (render 10 p) (clean_name s hch) (clean_render10 p) hne hcolon
        (name_not_mem s hch '[' (by decide)) (name_not_mem s hch ']' (by decide))
        (name_not_mem s hch '%' (by decide))
        (by intro hm; have := render10_isD p '[' hm; revert this; decide)
        (by intro hm; have := render10_isD p ']' hm; revert this; decide)
      have hlow : ipAddress (s.map asciiLower) = none := by
        unfold ipAddress
        have h1 : '/' ∉ s.map asciiLower := fun hm =>
          name_not_mem s hch '/' (by decide) (lower_mem s '/' (by decide) hm)
        have h2 : '%' ∉ s.map asciiLower := fun hm =>
          name_not_mem s hch '%' (by decide) (lower_mem s '%' (by decide) hm)
        have h3 : ':' ∉ s.map asciiLower := fun hm =>
          hcolon (lower_mem s ':' (by decide) hm)
        rw [hnum', ipv6Address_plain _ h1 h2, ipv6FromString_one_part _ h3]
        rfl
      unfold hostPart
      simp only [contains_true_of_mem ':' (s ++ ':' :: render 10 p) (by simp), ↓reduceIte, hip, hurl,
        render10_isEmpty, Bool.false_eq_true, hlow, urlPort_render p hp']
  | v4 a =>
    have ha : a < 2 ^ 32 := hv
    have hchars := dotted_chars a
    have hcolon : ':' ∉ dotted a := by
      intro hm
      rw [dotted_shape] at hm
      simp only [List.mem_append, List.mem_cons] at hm
      rcases hm with hm | hm | hm | hm | hm | hm | hm
      · exact colon_not_in_render10 _ hm
      · revert hm; decide
      · exact colon_not_in_render10 _ hm
      · revert hm; decide
      · exact colon_not_in_render10 _ hm
      · revert hm; decide
      · exact colon_not_in_render10 _ hm
    cases port with
    | none =>
      simp only [HostSpec.text, portSuffix, List.append_nil, HostSpec.canon]
      unfold hostPart
      simp [hcolon]
    | some p =>
      have hp' := hp p rfl
      simp only [HostSpec.text, portSuffix, HostSpec.canon]
      have hcr : ':' ∉ render 10 p := colon_not_in_render10 p
      have hnotd : ∀ x : Char, (x.toNat < 46 ∨ x.toNat = 47 ∨ (59 ≤ x.toNat ∧ x.toNat ≤ 64) ∨
          (71 ≤ x.toNat ∧ x.toNat ≤ 96) ∨ 103 ≤ x.toNat) → x ∉ dotted a :=
        fun x hx hm => v6c_ne x (hchars x hm) x hx rfl
      have hnot : ∀ x : Char, (x.toNat < 46 ∨ x.toNat = 47 ∨ (59 ≤ x.toNat ∧ x.toNat ≤ 64) ∨
          (71 ≤ x.toNat ∧ x.toNat ≤ 96) ∨ 103 ≤ x.toNat) → isD x = false → x ∉ dotted a ++ ':' :: render 10 p := by
        intro x hx hd hm
        simp only [List.mem_append, List.mem_cons] at hm
        rcases hm with hm | hm | hm
        · exact hnotd x hx hm
        · subst hm; revert hx; decide
        · have := render10_isD p x hm
          rw [hd] at this; cases this
      have hdne : dotted a ≠ [] := by
        intro e
        have := dot_mem_dotted a
        rw [e] at this; cases this
      have hip : ipAddress (dotted a ++ ':' :: render 10 p) = none :=
        ipAddress_two_parts _ _ hcolon hcr (hnot '/' (by decide) (by decide)) (hnot '%' (by decide) (by decide))
      have hurl := urlparse_nobracket (dotted a) (render 10 p) (clean_dotted a) (clean_render10 p) hdne hcolon
        (hnotd '[' (by decide)) (hnotd ']' (by decide)) (hnotd '%' (by decide))
        (by intro hm; have := render10_isD p '[' hm; revert this; decide)
        (by intro hm; have := render10_isD p ']' hm; revert this; decide)
      unfold hostPart
      simp only [contains_true_of_mem ':' (dotted a ++ ':' :: render 10 p) (by simp), ↓reduceIte, hip, hurl,
        render10_isEmpty, Bool.false_eq_true, dotted_lower, ipAddress_dotted a ha, urlPort_render p hp']
      rfl
  | v6 sp b =>
    obtain ⟨hsp, hb⟩ := hv
    have hcm := colon_mem_text sp hsp
    have hnot : ∀ x : Char, (x.toNat < 46 ∨ x.toNat = 47 ∨ (59 ≤ x.toNat ∧ x.toNat ≤ 64) ∨
        (71 ≤ x.toNat ∧ x.toNat ≤ 96) ∨ 103 ≤ x.toNat) → x ∉ sp.text :=
      fun x hx hm => v6c_ne x (text_chars sp hsp x hm) x hx rfl
    cases b with
    | false =>
      cases port with
      | some p => exact absurd (hb rfl) (by decide)
      | none =>
        simp only [HostSpec.text, Bool.false_eq_true, ↓reduceIte, portSuffix, List.append_nil, HostSpec.canon]
        unfold hostPart
        simp only [contains_true_of_mem ':' sp.text hcm, ↓reduceIte, ipAddress_spell6 sp hsp]
        rfl
    | true =>
      have hchk := checkBracketed_v6 sp hsp
      have hne := text_ne_nil sp hsp
      cases port with
      | none =>
        simp only [HostSpec.text, ↓reduceIte, portSuffix, List.append_nil, HostSpec.canon]
        have hip : ipAddress ('[' :: (sp.text ++ [']'])) = none := by
          apply ipAddress_bracket
          · simp [hcm]
          · intro hm
            simp only [List.mem_append, List.mem_singleton] at hm
            rcases hm with hm | hm
            · exact hnot '/' (by decide) hm
            · revert hm; decide
          · intro hm
            simp only [List.mem_append, List.mem_singleton] at hm
            rcases hm with hm | hm
            · exact hnot '%' (by decide) hm
            · revert hm; decide
        have hurl := urlparse_bracket sp.text [] (clean_v6 sp hsp) clean_nil hne (hnot '[' (by decide))
          (hnot ']' (by decide)) (hnot '%' (by decide)) hchk (Or.inl rfl)
        unfold hostPart
        simp only [contains_true_of_mem ':' ('[' :: (sp.text ++ [']'])) (by simp [hcm]), ↓reduceIte, hip, hurl,
          split1_nil, List.isEmpty_nil, ipAddress_lower sp hsp, urlPort]
        rfl
      | some p =>
        have hp' := hp p rfl
        simp only [HostSpec.text, ↓reduceIte, portSuffix, HostSpec.canon, List.cons_append, List.append_assoc,
          List.nil_append]
        have hip : ipAddress ('[' :: (sp.text ++ ']' :: ':' :: render 10 p)) = none := by
          apply ipAddress_bracket
          · simp [hcm]
          · intro hm
            simp only [List.mem_append, List.mem_cons] at hm
            rcases hm with hm | hm | hm | hm
            · exact hnot '/' (by decide) hm
            · revert hm; decide
            · revert hm; decide
            · have := render10_isD p '/' hm; revert this; decide
          · intro hm
            simp only [List.mem_append, List.mem_cons] at hm
            rcases hm with hm | hm | hm | hm
            · exact hnot '%' (by decide) hm
            · revert hm; decide
            · revert hm; decide
            · have := render10_isD p '%' hm; revert this; decide
        have hurl := urlparse_bracket sp.text (':' :: render 10 p) (clean_v6 sp hsp)
          (clean_cons _ _ (by decide) (clean_render10 p)) hne (hnot '[' (by decide))
          (hnot ']' (by decide)) (hnot '%' (by decide)) hchk (Or.inr ⟨_, rfl⟩)
        unfold hostPart
        simp only [contains_true_of_mem ':' ('[' :: (sp.text ++ ']' :: ':' :: render 10 p)) (by simp [hcm]),
          ↓reduceIte, hip, hurl, split1_colon_cons, render10_isEmpty, Bool.false_eq_true,
          ipAddress_lower sp hsp, urlPort_render p hp']
        rfl


/-! ### the whole remote specification -/

theorem at_not_in_host (h : HostSpec) (port : Option Nat) (hv : h.Valid port) :
    '@' ∉ h.text ++ portSuffix port := by
  intro hm
  rw [List.mem_append] at hm
  rcases hm with hm | hm
  · cases h with
    | name s => exact name_not_mem s hv.2.1 '@' (by decide) hm
    | v4 a => exact v6c_ne '@' (dotted_chars a '@' hm) '@' (by decide) rfl
    | v6 sp b =>
      have hn : '@' ∉ sp.text := fun hx => v6c_ne '@' (text_chars sp hv.1 '@' hx) '@' (by decide) rfl
      cases b with
      | false => exact hn hm
      | true =>
        simp only [HostSpec.text, ↓reduceIte, List.mem_cons, List.mem_append, List.mem_singleton] at hm
        rcases hm with hm | hm | hm
        · revert hm; decide
        · exact hn hm
        · revert hm; decide
  · cases port with
    | none => cases hm
    | some p =>
      simp only [portSuffix, List.mem_cons] at hm
      rcases hm with hm | hm
      · revert hm; decide
      · have := render10_isD p '@' hm; revert this; decide

theorem host_text_ne (h : HostSpec) (port : Option Nat) (hv : h.Valid port) : h.text ++ portSuffix port ≠ [] := by
  intro e
  have := (List.append_eq_nil_iff.mp e).1
  cases h with
  | name s => exact hv.1 this
  | v4 a =>
    have hd := dot_mem_dotted a
    simp only [HostSpec.text] at this
    rw [this] at hd; cases hd
  | v6 sp b =>
    cases b with
    | false => exact text_ne_nil sp hv.1 this
    | true => simp [HostSpec.text] at this

theorem parseHostport_roundtrip (user pw : Option Str) (h : HostSpec) (port : Option Nat)
    (hu : ∀ u, user = some u → ':' ∉ u) (hnone : user = none → pw = none)
    (hv : h.Valid port) (hp : ∀ p, port = some p → p < 65536) :
    parseHostport (some (renderRemote user pw h port)) = .ok ⟨user, pwResult pw, port, some (h.canon port)⟩ := by
  unfold renderRemote
  rw [parseHostport_userinfo user pw _ (host_text_ne h port hv) (at_not_in_host h port hv) hu hnone,
    hostPart_spec h port hv hp]

/-! ### the denoted address is a 128-bit number -/

theorem wordsVal_lt (ws : List Nat) (h : ∀ w ∈ ws, w < 65536) : wordsVal ws < 2 ^ (16 * ws.length) := by
  induction ws with
  | nil => simp [wordsVal]
  | cons w r ih =>
    have hw := h w (by simp)
    have hr := ih (fun x hx => h x (by simp [hx]))
    simp only [wordsVal, List.length_cons]
    have h2 : w * 2 ^ (16 * r.length) + 2 ^ (16 * r.length) = (w + 1) * 2 ^ (16 * r.length) := by
      rw [Nat.add_mul, Nat.one_mul]
    have h3 : (w + 1) * 2 ^ (16 * r.length) ≤ 65536 * 2 ^ (16 * r.length) := Nat.mul_le_mul_right _ (by omega)
    have h4 : 2 ^ (16 * (r.length + 1)) = 65536 * 2 ^ (16 * r.length) := by
      rw [Nat.mul_add, Nat.pow_add, Nat.mul_comm]
    omega

theorem hextetVal_lt (g : Hextet) (hg : g.Valid) : hextetVal g < 65536 := by
  have := (pton6_hextet g hg [] [] none []).2.1
  omega

theorem end_words_lt (e : End6) (he : e.Valid) : ∀ w ∈ e.words, w < 65536 := by
  cases e with
  | nothing => intro w hw; cases hw
  | group g =>
    intro w hw
    simp only [End6.words, List.mem_singleton] at hw
    subst hw; exact hextetVal_lt g he
  | quad v =>
    intro w hw
    simp only [End6.Valid] at he
    simp only [End6.words, List.mem_cons, List.not_mem_nil, or_false] at hw
    rcases hw with rfl | rfl <;> omega

theorem denotes_lt (sp : Spell6) (h : sp.Valid) : sp.denotes < 2 ^ 128 := by
  have hg : ∀ (gs : List Hextet), (∀ g ∈ gs, g.Valid) → ∀ w ∈ gs.map hextetVal, w < 65536 := by
    intro gs hgs w hw
    rw [List.mem_map] at hw
    obtain ⟨g, hgm, rfl⟩ := hw
    exact hextetVal_lt g (hgs g hgm)
  cases sp with
  | full gs e =>
    obtain ⟨hgs, he, _, hlen⟩ := h
    have := wordsVal_lt (gs.map hextetVal ++ e.words) (by
      intro w hw
      rw [List.mem_append] at hw
      rcases hw with hw | hw
      · exact hg gs hgs w hw
      · exact end_words_lt e he w hw)
    have hl : (gs.map hextetVal ++ e.words).length = 8 := by simp; exact hlen
    rw [hl] at this
    exact this
  | compressed l r e =>
    obtain ⟨hl, hr, he, hlen, _⟩ := h
    have := wordsVal_lt (l.map hextetVal ++
        (List.replicate (8 - (l.length + r.length + e.words.length)) 0 ++ (r.map hextetVal ++ e.words))) (by
      intro w hw
      simp only [List.mem_append, List.mem_replicate] at hw
      rcases hw with hw | hw | hw | hw
      · exact hg l hl w hw
      · omega
      · exact hg r hr w hw
      · exact end_words_lt e he w hw)
    have hl8 : (l.map hextetVal ++ (List.replicate (8 - (l.length + r.length + e.words.length)) 0 ++
        (r.map hextetVal ++ e.words))).length = 8 := by simp; omega
    rw [hl8] at this
    exact this

/-! ### `parse_ipport` on `[v6]` / `[v6]:port` -/

theorem parseIpport_v6 (env : Env) (sp : Spell6) (h : sp.Valid) (port : Option Nat)
    (hp : ∀ p, port = some p → p < 65536) :
    parseIpport env ('[' :: (sp.text ++ ']' :: portSuffix port)) =
      .ok (.inet6, ntop6 sp.denotes, port.getD 0) := by
  cases port with
  | none =>
    have hm := matchIpport_v6 sp h [] none (Or.inl ⟨rfl, rfl⟩)
    simp only [portSuffix, parseIpport, hm, text_isEmpty sp h, Bool.false_eq_true, ↓reduceIte,
      getaddrinfo_spell6 env sp h 0 (by decide), minAddr_single, Option.getD_none]
  | some p =>
    have hp' := hp p rfl
    have hm := matchIpport_v6 sp h (':' :: render 10 p) (some (render 10 p)) (Or.inr ⟨p, rfl, rfl⟩)
    simp only [portSuffix, parseIpport, hm, text_isEmpty sp h, Bool.false_eq_true, ↓reduceIte,
      pyInt_render p (by omega), getaddrinfo_spell6 env sp h p hp', minAddr_single, Option.getD_some]

end Sshuttle.ArgsSpec
