/-
Fault handling in one `Proxy.callback`: which results can end the process, and what an error
leaves behind.  Used by Props/C08.
-/
import SshuttleModel.Lemmas.WrapGrows

namespace Sshuttle.Tunnel
open Sshuttle.Mux (Frame)
open Sshuttle.Wrap

/-- `shut_write`, the socket's shutdown and `shut_read` on the mux side never go back along sink
transitions. -/
theorem sinkStar_mono {b b' : SinkV} (h : Star SinkStep b b') :
    (b.swShutW = true → b'.swShutW = true) ∧ (b.sawShut = true → b'.sawShut = true) ∧
    (b.mwShutR = true → b'.mwShutR = true) := by
  induction h with
  | refl => exact ⟨id, id, id⟩
  | tail _ st ih =>
    obtain ⟨i1, i2, i3⟩ := ih
    cases st with
    | deliver moved rest hb hs => exact ⟨i1, i2, i3⟩
    | discard hw => exact ⟨i1, i2, i3⟩
    | flags r w saw ok h1 h2 h3 h4 h5 h6 => exact ⟨fun h => h1 (i1 h), fun h => h2 (i2 h), fun h => h3 (i3 h)⟩
    | remove hok hp => exact ⟨i1, i2, i3⟩

/-- `shut_read` on the socket side and `shut_write` on the mux side never go back along source
transitions of a handler that exists. -/
theorem srcStar_mono {c : Nat} {k : Bool} {a a' : SrcV} (h : Star (SrcStep c k) a a') (hev : a.ever = true) :
    a'.ever = true ∧ (a.shutR = true → a'.shutR = true) ∧ (a.mwShutW = true → a'.mwShutW = true) := by
  induction h with
  | refl => exact ⟨hev, id, id⟩
  | tail _ st ih =>
    obtain ⟨i0, i1, i2⟩ := ih
    cases st with
    | consume x hp hr => exact ⟨i0, i1, i2⟩
    | send moved rest hb hne hp => exact ⟨i0, i1, i2⟩
    | eof hp hb hr hw => exact ⟨i0, i1, fun _ => rfl⟩
    | stopFrame hp hs => exact ⟨i0, i1, i2⟩
    | foreign fr hf => exact ⟨i0, i1, i2⟩
    | discard hp hw' => exact ⟨i0, fun _ => rfl, i2⟩
    | flags r w os hr hw hos hk => exact ⟨i0, fun h => hr (i1 h), fun h => hw (i2 h)⟩
    | remove hp hb => exact ⟨i0, i1, i2⟩
    | create he r os hos => rw [i0] at he; cases he

/-- What one whole callback never undoes. -/
theorem callback_mono (p : ProxyS) (m : MuxL) (e : ESock) (io : CbIo) (p' : ProxyS) (m' : MuxL) (e' : ESock)
    (h : p.callback m e io = .ok p' m' e') :
    (p.sw.shutW = true → p'.sw.shutW = true) ∧ (e.sawShut = true → e'.sawShut = true) ∧
    (p.sw.shutR = true → p'.sw.shutR = true) ∧ (p.mw.shutR = true → p'.mw.shutR = true) ∧
    (p.mw.shutW = true → p'.mw.shutW = true) := by
  have hk := callback_ok p m e io p' m' e' h
  obtain ⟨k1, k2, k3⟩ := sinkStar_mono hk.1.sink
  obtain ⟨_, s1, s2⟩ := srcStar_mono hk.1.src rfl
  exact ⟨k1, k2, s1, k3, s2⟩

/-- `try_connect` on a wrapper that is not connecting does nothing. -/
theorem tryConnect_idle (s : SockW) (e : ESock) (c : ConnRes) (se : Bool) (h : s.connecting = false) :
    s.tryConnect e c se = .ok s e := by
  unfold SockW.tryConnect
  simp [h]

/-- Once the connect stage has settled, the rest of the callback is the callback of the settled
wrapper. -/
theorem callback_after_connect (p : ProxyS) (m : MuxL) (e : ESock) (io : CbIo) (s0 : SockW) (e0 : ESock)
    (h : p.sw.tryConnect e io.conn io.shutErr = .ok s0 e0) (hc : s0.connecting = false) :
    p.callback m e io = ({ p with sw := s0 } : ProxyS).callback m e0 io := by
  unfold ProxyS.callback
  rw [h]
  simp only
  rw [tryConnect_idle s0 e0 io.conn io.shutErr hc]

/-- `seterr` leaves the wrapper shut both ways with the error recorded, and the socket shut down. -/
theorem seterr_shut (s : SockW) (e : ESock) (se : Bool) :
    (s.seterr e se).1.shutR = true ∧ (s.seterr e se).1.shutW = true ∧ (s.seterr e se).1.exc = true ∧
    ((s.seterr e se).2.sawShut = true ∨ s.shutW = true) ∧
    (s.seterr e se).1.connecting = s.connecting := by
  unfold SockW.seterr SockW.nowrite SockW.noread
  by_cases hw : s.shutW = true
  · simp [hw]
  · have hw' : s.shutW = false := by simpa using hw
    cases se <;> simp [hw']

end Sshuttle.Tunnel
