/-
C03 lemmas about the packet walk: a chain of terminal rules is `find?`; loading a command
list; the most specific entry among sorted subnets.
-/
import SshuttleModel.Lemmas.FwRules

namespace Sshuttle.Fw

/-! ## chains of terminal rules -/

def Target.simple : Target → Bool
  | .ret | .accept | .redirect _ | .tproxy _ _ => true
  | _ => false

def termRes (t : Target) (mark : Option String) : Res :=
  match t with
  | .ret => .fall mark
  | .accept => .accept mark
  | .redirect p => .redirect p
  | .tproxy m p => .tproxy m p
  | _ => .fall mark

theorem walkList_simple (call : ChainName → Option String → Res) (p : Pkt) (rs : List Rule)
    (mark : Option String) (h : ∀ r ∈ rs, r.t.simple = true) :
    walkList call p rs mark =
      match rs.find? (fun r => matchRule r.m p mark) with
      | none => .fall mark
      | some r => termRes r.t mark := by
  induction rs with
  | nil => simp [walkList]
  | cons r t ih =>
    have hr := h r (List.mem_cons_self)
    have ht := ih (fun x hx => h x (List.mem_cons_of_mem _ hx))
    unfold walkList
    by_cases hm : matchRule r.m p mark = true
    · rw [if_pos hm, List.find?_cons_of_pos (by simpa using hm)]
      cases hrt : r.t <;> simp_all [Target.simple, termRes]
    · rw [if_neg hm, List.find?_cons_of_neg (by simpa using hm)]
      exact ht

/-! ## loading commands -/

theorem get_set (rs : Ruleset) (k k' : ChainKey) (v : List Rule) :
    (rs.set k v).get k' = if k = k' then v else rs.get k' := by
  simp [Ruleset.set, Ruleset.get]

theorem foldl_iptAppend_get (v6 : Bool) (t : Table) (c : ChainName) (rules : List Rule)
    (rs : Ruleset) (k : ChainKey) :
    (List.foldl applyCmd rs (rules.map (Cmd.iptAppend v6 t c))).get k =
      if (⟨.ipt v6 t, c⟩ : ChainKey) = k then rs.get k ++ rules else rs.get k := by
  induction rules generalizing rs with
  | nil => simp
  | cons r rest ih =>
    simp only [List.map_cons, List.foldl_cons]
    rw [ih]
    simp only [applyCmd, get_set]
    by_cases hk : (⟨.ipt v6 t, c⟩ : ChainKey) = k
    · subst hk; simp
    · simp [hk]

theorem foldl_nftRule_get (v6 : Bool) (port : Nat) (c : ChainName) (rules : List Rule)
    (rs : Ruleset) (k : ChainKey) :
    (List.foldl applyCmd rs (rules.map (Cmd.nftRule v6 port c))).get k =
      if (⟨.nft v6 port, c⟩ : ChainKey) = k then rs.get k ++ rules else rs.get k := by
  induction rules generalizing rs with
  | nil => simp
  | cons r rest ih =>
    simp only [List.map_cons, List.foldl_cons]
    rw [ih]
    simp only [applyCmd, get_set]
    by_cases hk : (⟨.nft v6 port, c⟩ : ChainKey) = k
    · subst hk; simp
    · simp [hk]

/-! ## the most specific entry in a sorted list -/

theorem weight_eq_excl {a b : Subnet} (h : weight a = weight b) : a.excl = b.excl := by
  unfold weight at h
  exact (Prod.mk.inj (Prod.mk.inj h).2).2

/-- First match over `sortDesc subs` decides `mostSpecificIsInclude` (`firstMatch_sortedDesc`
+ `key_order_iff_spec_order` + `equalKey_sameVerdict` of the design). -/
theorem find?_sortDesc_spec (subs : List Subnet) (q : Subnet → Bool) (p : Pkt)
    (hq : ∀ s ∈ subs, q s = Spec.entryMatches s p) (hwf : ∀ s ∈ subs, Spec.WfEntry s) :
    match (sortDesc subs).find? q with
    | none => Spec.mostSpecificIsInclude subs p = false
    | some s0 => s0 ∈ subs ∧ Spec.entryMatches s0 p = true ∧
        Spec.mostSpecificIsInclude subs p = !s0.excl := by
  cases hf : (sortDesc subs).find? q with
  | none =>
    simp only
    rw [List.find?_eq_none] at hf
    unfold Spec.mostSpecificIsInclude
    rw [List.any_eq_false]
    intro e he
    have := hf e (mem_sortDesc.mpr he)
    rw [hq e he] at this
    simp [this]
  | some s0 =>
    simp only
    have hmem : s0 ∈ subs := mem_sortDesc.mp (List.mem_of_find?_eq_some hf)
    have hm0 : Spec.entryMatches s0 p = true := by
      have := List.find?_some hf
      rwa [hq s0 hmem] at this
    have hmax : ∀ y ∈ subs, Spec.entryMatches y p = true → keyLe (weight y) (weight s0) = true := by
      intro y hy hmy
      exact find?_pairwise_max (le := fun a b => keyLe (weight b) (weight a) = true)
        (fun a => keyLe_refl _) (sortDesc_pairwise subs) hf y (mem_sortDesc.mpr hy)
        (by rw [hq y hy]; exact hmy)
    refine ⟨hmem, hm0, ?_⟩
    unfold Spec.mostSpecificIsInclude
    cases hx : s0.excl with
    | false =>
      simp only [Bool.not_false]
      rw [List.any_eq_true]
      refine ⟨s0, hmem, ?_⟩
      simp only [hm0, hx, Bool.not_false, Bool.and_self, Bool.true_and]
      rw [List.all_eq_true]
      intro e' he'
      by_cases hme : Spec.entryMatches e' p = true
      · rw [beats_iff_not_keyLe e' s0 (hwf e' he') (hwf s0 hmem), hmax e' he' hme]
        simp
      · simp [hme]
    | true =>
      simp only [Bool.not_true]
      rw [List.any_eq_false]
      intro e he
      by_cases hme : Spec.entryMatches e p = true
      · cases hex : e.excl with
        | true => simp
        | false =>
          have hle := hmax e he hme
          have hb : Spec.beats s0 e = true := by
            rw [beats_iff_not_keyLe s0 e (hwf s0 hmem) (hwf e he)]
            cases hk : keyLe (weight s0) (weight e) with
            | false => rfl
            | true =>
              have := weight_eq_excl (keyLe_antisymm _ _ hk hle)
              rw [hx, hex] at this
              cases this
          simp only [hme, Bool.not_false, Bool.and_self, Bool.true_and, Bool.not_eq_true']
          rw [Bool.not_eq_true, List.all_eq_false]
          exact ⟨s0, hmem, by simp [hm0, hb]⟩
      · simp [hme]

/-- Last match over `sortAsc subs` decides `mostSpecificIsInclude` (`lastMatch_sortedAsc`). -/
theorem getLast?_sortAsc_spec (subs : List Subnet) (q : Subnet → Bool) (p : Pkt)
    (hq : ∀ s ∈ subs, q s = Spec.entryMatches s p) (hwf : ∀ s ∈ subs, Spec.WfEntry s) :
    match ((sortAsc subs).filter q).getLast? with
    | none => Spec.mostSpecificIsInclude subs p = false
    | some s0 => s0 ∈ subs ∧ Spec.entryMatches s0 p = true ∧
        Spec.mostSpecificIsInclude subs p = !s0.excl := by
  cases hf : ((sortAsc subs).filter q).getLast? with
  | none =>
    simp only
    rw [List.getLast?_eq_none_iff, List.filter_eq_nil_iff] at hf
    unfold Spec.mostSpecificIsInclude
    rw [List.any_eq_false]
    intro e he
    have := hf e (mem_sortAsc.mpr he)
    rw [hq e he] at this
    simp [this]
  | some s0 =>
    simp only
    have hmemf : s0 ∈ (sortAsc subs).filter q := List.mem_of_getLast? hf
    have hmem : s0 ∈ subs := mem_sortAsc.mp (List.mem_filter.mp hmemf).1
    have hm0 : Spec.entryMatches s0 p = true := by
      have := (List.mem_filter.mp hmemf).2
      rwa [hq s0 hmem] at this
    have hmax : ∀ y ∈ subs, Spec.entryMatches y p = true → keyLe (weight y) (weight s0) = true := by
      intro y hy hmy
      exact getLast?_filter_pairwise_max (le := fun a b => keyLe (weight a) (weight b) = true)
        (fun a => keyLe_refl _) (sortAsc_pairwise subs) hf y (mem_sortAsc.mpr hy)
        (by rw [hq y hy]; exact hmy)
    refine ⟨hmem, hm0, ?_⟩
    unfold Spec.mostSpecificIsInclude
    cases hx : s0.excl with
    | false =>
      simp only [Bool.not_false]
      rw [List.any_eq_true]
      refine ⟨s0, hmem, ?_⟩
      simp only [hm0, hx, Bool.not_false, Bool.and_self, Bool.true_and]
      rw [List.all_eq_true]
      intro e' he'
      by_cases hme : Spec.entryMatches e' p = true
      · rw [beats_iff_not_keyLe e' s0 (hwf e' he') (hwf s0 hmem), hmax e' he' hme]
        simp
      · simp [hme]
    | true =>
      simp only [Bool.not_true]
      rw [List.any_eq_false]
      intro e he
      by_cases hme : Spec.entryMatches e p = true
      · cases hex : e.excl with
        | true => simp
        | false =>
          have hle := hmax e he hme
          have hb : Spec.beats s0 e = true := by
            rw [beats_iff_not_keyLe s0 e (hwf s0 hmem) (hwf e he)]
            cases hk : keyLe (weight s0) (weight e) with
            | false => rfl
            | true =>
              have := weight_eq_excl (keyLe_antisymm _ _ hk hle)
              rw [hx, hex] at this
              cases this
          simp only [hme, Bool.not_false, Bool.and_self, Bool.true_and, Bool.not_eq_true']
          rw [Bool.not_eq_true, List.all_eq_false]
          exact ⟨s0, hmem, by simp [hm0, hb]⟩
      · simp [hme]

end Sshuttle.Fw
