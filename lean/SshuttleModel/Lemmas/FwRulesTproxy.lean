/-
C03, tproxy method: the DNS rules and the subnet rules match what the property says.
-/
import SshuttleModel.Lemmas.FwRulesNat

namespace Sshuttle.Fw

/-- A tproxy DNS rule (`--dest ip/32`) matches exactly UDP port 53 to that name server —
for IPv4, where 32 is the address width. -/
theorem tproxyDns_match_v4 (ns : Ns) (p : Pkt) (mark : Option String)
    (hp : p.fam6 = false) :
    matchRule (tproxyDnsMatch false ns) p mark =
      (p.proto == .udp && p.dport == 53 && ns.addr == p.dst) := by
  obtain ⟨fam6, dst, dport, proto, loc, dl, uid, gid, mk, sock, srcLo⟩ := p
  simp only at hp
  subst hp
  have h53 : Gen.C03.TPROXY_DNS_PORT = 53 := rfl
  cases proto <;>
  simp [matchRule, tproxyDnsMatch, tproxyDnsWidth, destMatch, portsMatch, inPrefix, bits, h53,
    Bool.and_comm]

/-- A tproxy subnet rule for protocol `pr` matches exactly the packets of that protocol its
entry matches. -/
theorem tproxySubnet_match (v6 : Bool) (pr : Proto) (s : Subnet) (p : Pkt) (mark : Option String)
    (hfam : s.fam = (if v6 then AF_INET6 else AF_INET)) (hp : p.fam6 = v6) :
    matchRule (tproxySubnetMatch v6 pr s) p mark = (pr == p.proto && Spec.entryMatches s p) := by
  subst hp
  obtain ⟨fam6, dst, dport, proto, loc, dl, uid, gid, mk, sock, srcLo⟩ := p
  unfold tproxySubnetMatch
  have hb : (s.fport == 0) = decide (s.fport = 0) := by rw [Bool.eq_iff_iff]; simp
  cases fam6 <;> simp only [af_inet, af_inet6, if_true] at hfam <;>
  by_cases hf : s.fport = 0 <;> cases pr <;> cases proto <;>
  simp [matchRule, destMatch, subnetDest, portsMatch, Spec.entryMatches, Spec.contains, inPrefix,
    Spec.famBits, Spec.pktFam, bits, Spec.anyPort, hfam, hb, hf, af_inet, af_inet6]

/-- A chain in which every rule is terminal **or does not match this packet** is `find?`. -/
theorem walkList_simple' (call : ChainName → Option String → Res) (p : Pkt) (rs : List Rule)
    (mark : Option String)
    (h : ∀ r ∈ rs, r.t.simple = true ∨ matchRule r.m p mark = false) :
    walkList call p rs mark =
      match rs.find? (fun r => matchRule r.m p mark) with
      | none => .fall mark
      | some r => termRes r.t mark := by
  induction rs with
  | nil => simp [walkList]
  | cons r t ih =>
    have hr := h r (List.mem_cons_self)
    have ht := ih (fun x hx => h x (List.mem_cons_of_mem _ hx))
    unfold walkList
    by_cases hm : matchRule r.m p mark = true
    · rw [if_pos hm, List.find?_cons_of_pos (by simpa using hm)]
      rcases hr with hr | hr
      · cases hrt : r.t <;> simp_all [Target.simple, termRes]
      · rw [hm] at hr; cases hr
    · rw [if_neg hm, List.find?_cons_of_neg (by simpa using hm)]
      exact ht

/-- A chain whose rules only `RETURN` or set the mark `x` (MARK is non-terminating): once marked,
the packet leaves the chain marked. -/
theorem walkList_markOnly_marked (call : ChainName → Option String → Res) (p : Pkt) (x : String)
    (rs : List Rule) (h : ∀ r ∈ rs, r.t = .ret ∨ r.t = .setMark x) :
    walkList call p rs (some x) = .fall (some x) := by
  induction rs with
  | nil => rfl
  | cons r t ih =>
    have ht := ih (fun y hy => h y (List.mem_cons_of_mem _ hy))
    unfold walkList
    by_cases hm : matchRule r.m p (some x) = true
    · rw [if_pos hm]
      rcases h r List.mem_cons_self with hr | hr <;> rw [hr]
      exact ht
    · rw [if_neg hm]; exact ht

/-- … and the packet leaves marked iff the FIRST matching rule is a MARK rule. -/
theorem walkList_markOnly (call : ChainName → Option String → Res) (p : Pkt) (x : String)
    (rs : List Rule) (m0 : Option String) (h : ∀ r ∈ rs, r.t = .ret ∨ r.t = .setMark x) :
    walkList call p rs m0 =
      match rs.find? (fun r => matchRule r.m p m0) with
      | none => .fall m0
      | some r => if r.t = .ret then .fall m0 else .fall (some x) := by
  induction rs with
  | nil => simp [walkList]
  | cons r t ih =>
    have hall := fun y hy => h y (List.mem_cons_of_mem r hy)
    have ht := ih hall
    unfold walkList
    by_cases hm : matchRule r.m p m0 = true
    · rw [if_pos hm, List.find?_cons_of_pos (by simpa using hm)]
      rcases h r List.mem_cons_self with hr | hr
      · simp [hr]
      · simp only [hr]
        rw [walkList_markOnly_marked call p x t hall]
        simp
    · rw [if_neg hm, List.find?_cons_of_neg (by simpa using hm)]
      exact ht

theorem findSome?_ite_of_forall {α β : Type} (l : List α) (g : α → Option β) (q : α → Bool)
    (r : α → β) (h : ∀ a ∈ l, g a = if q a = true then some (r a) else none) :
    l.findSome? g = (l.find? q).map r := by
  induction l with
  | nil => rfl
  | cons a t ih =>
    have ha := h a List.mem_cons_self
    have ht := ih (fun b hb => h b (List.mem_cons_of_mem _ hb))
    by_cases hq : q a = true
    · simp [List.findSome?_cons, ha, hq]
    · simp [List.findSome?_cons, ha, hq, ht]

/-- Rules a list of pure `-A` commands appends to chain `k`. -/
def appendsFor (k : ChainKey) : Cmd → Option Rule
  | .iptAppend v6 t c r => if (⟨.ipt v6 t, c⟩ : ChainKey) = k then some r else none
  | _ => none

def isAppend : Cmd → Bool
  | .iptAppend _ _ _ _ => true
  | _ => false

theorem foldl_appends_get (cmds : List Cmd) (rs : Ruleset) (k : ChainKey)
    (h : ∀ cmd ∈ cmds, isAppend cmd = true) :
    (cmds.foldl applyCmd rs).get k = rs.get k ++ cmds.filterMap (appendsFor k) := by
  induction cmds generalizing rs with
  | nil => simp
  | cons cmd rest ih =>
    have hc := h cmd List.mem_cons_self
    rw [List.foldl_cons, ih _ (fun x hx => h x (List.mem_cons_of_mem _ hx))]
    cases cmd with
    | iptAppend v6 t c r =>
      simp only [applyCmd, get_set, List.filterMap_cons, appendsFor]
      by_cases hk : (⟨.ipt v6 t, c⟩ : ChainKey) = k
      · simp [hk]
      · simp [hk]
    | _ => simp [isAppend] at hc

theorem tproxyAppends_isAppend (c : Call) : ∀ cmd ∈ tproxyAppends c, isAppend cmd = true := by
  intro cmd h
  unfold tproxyAppends at h
  simp only [List.mem_append, List.mem_flatMap, List.mem_cons, List.not_mem_nil, or_false] at h
  rcases h with (((⟨ns, _, h⟩ | h) | h) | ⟨s, _, h⟩)
  · rcases h with rfl | rfl <;> rfl
  · rcases h with rfl | rfl | rfl | rfl | rfl <;> rfl
  · split at h
    · simp only [List.mem_cons, List.not_mem_nil, or_false] at h; subst h; rfl
    · cases h
  · rcases h with (rfl | rfl) | h
    · rfl
    · rfl
    · split at h
      · simp only [List.mem_cons, List.not_mem_nil, or_false] at h
        rcases h with rfl | rfl <;> rfl
      · cases h

theorem flatMap_singleton_map {α β : Type} (l : List α) (f : α → β) :
    (l.flatMap fun a => [f a]) = l.map f := by
  induction l <;> simp [*]

theorem tproxyAppends_mark (c : Call) :
    (tproxyAppends c).filterMap (appendsFor ⟨.ipt (isV6 c.family) .mangle, .tMark c.port⟩) =
      tproxyMarkChain c := by
  unfold tproxyAppends tproxyMarkChain tproxyMarkRules
  simp only [List.filterMap_append, List.filterMap_flatMap]
  cases c.udp <;>
  simp [appendsFor, socketRule, flatMap_singleton_map]

theorem tproxyAppends_tproxy (c : Call) :
    (tproxyAppends c).filterMap (appendsFor ⟨.ipt (isV6 c.family) .mangle, .tTproxy c.port⟩) =
      tproxyTproxyChain c := by
  unfold tproxyAppends tproxyTproxyChain tproxyTproxyRules
  simp only [List.filterMap_append, List.filterMap_flatMap]
  cases c.udp <;>
  simp [appendsFor, socketRule, flatMap_singleton_map]

theorem tproxyAppends_builtin (c : Call) (b : ChainName) (hb : b = .output ∨ b = .prerouting) :
    (tproxyAppends c).filterMap (appendsFor ⟨.ipt (isV6 c.family) .mangle, b⟩) = [] := by
  rw [List.filterMap_eq_nil_iff]
  intro cmd h
  unfold tproxyAppends at h
  simp only [List.mem_append, List.mem_flatMap, List.mem_cons, List.not_mem_nil, or_false] at h
  rcases h with (((⟨ns, _, h⟩ | h) | h) | ⟨s, _, h⟩)
  · rcases h with rfl | rfl <;> rcases hb with rfl | rfl <;> simp [appendsFor]
  · rcases h with rfl | rfl | rfl | rfl | rfl <;> rcases hb with rfl | rfl <;> simp [appendsFor]
  · split at h
    · simp only [List.mem_cons, List.not_mem_nil, or_false] at h; subst h
      rcases hb with rfl | rfl <;> simp [appendsFor]
    · cases h
  · rcases h with (rfl | rfl) | h
    · rcases hb with rfl | rfl <;> simp [appendsFor]
    · rcases hb with rfl | rfl <;> simp [appendsFor]
    · split at h
      · simp only [List.mem_cons, List.not_mem_nil, or_false] at h
        rcases h with rfl | rfl <;> rcases hb with rfl | rfl <;> simp [appendsFor]
      · cases h

theorem tproxy_load (c : Call) :
    (load (tproxyCmds c)).get ⟨.ipt (isV6 c.family) .mangle, .tMark c.port⟩ = tproxyMarkChain c ∧
    (load (tproxyCmds c)).get ⟨.ipt (isV6 c.family) .mangle, .tTproxy c.port⟩ = tproxyTproxyChain c ∧
    (load (tproxyCmds c)).get ⟨.ipt (isV6 c.family) .mangle, .output⟩ = [⟨{}, .jump (.tMark c.port)⟩] ∧
    (load (tproxyCmds c)).get ⟨.ipt (isV6 c.family) .mangle, .prerouting⟩ =
      [⟨{}, .jump (.tTproxy c.port)⟩] := by
  unfold load tproxyCmds
  simp only [List.foldl_append, foldl_appends_get _ _ _ (tproxyAppends_isAppend c),
    tproxyAppends_mark, tproxyAppends_tproxy, tproxyAppends_builtin c _ (Or.inl rfl),
    tproxyAppends_builtin c _ (Or.inr rfl)]
  simp [tproxyPre, applyCmd, Ruleset.set, Ruleset.get, Ruleset.empty]
/-- The packet is not in the class of the known finding: for an IPv6 call, a UDP port-53
packet whose destination lies in the /32 of a listed name server IS that name server. -/
def Mask32Safe (c : Call) (p : Pkt) : Prop :=
  isV6 c.family = true → p.proto = .udp → p.dport = 53 →
    ∀ ns ∈ c.nslist, inPrefix 128 ns.addr 32 p.dst = true → ns.addr = p.dst

theorem tproxyDns_match (c : Call) (p : Pkt) (mark : Option String)
    (hp : p.fam6 = isV6 c.family) (hs : Mask32Safe c p) :
    ∀ ns ∈ c.nslist, matchRule (tproxyDnsMatch (isV6 c.family) ns) p mark =
      (p.proto == .udp && p.dport == 53 && ns.addr == p.dst) := by
  intro ns hns
  cases hv : isV6 c.family with
  | false => exact tproxyDns_match_v4 ns p mark (by rw [hp, hv])
  | true =>
    have hs' := hs hv
    rw [hv] at hp
    obtain ⟨fam6, dst, dport, proto, loc, dl, uid, gid, mk, sock, srcLo⟩ := p
    simp only at hp hs'
    subst hp
    have h53 : Gen.C03.TPROXY_DNS_PORT = 53 := rfl
    cases proto with
    | tcp => simp [matchRule, tproxyDnsMatch]
    | udp =>
      by_cases hd : dport = 53
      · have := hs' rfl hd ns hns
        subst hd
        simp only [matchRule, tproxyDnsMatch, tproxyDnsWidth, destMatch, portsMatch, bits, h53]
        by_cases hin : inPrefix 128 ns.addr 32 dst = true
        · have e : (ns.addr == dst) = true := by simpa using this hin
          simp [hin, e]
        · have hne : ¬ ns.addr = dst := by
            intro h; apply hin; rw [h]; simp [inPrefix]
          simp [hin, hne]
      · have hb : (dport == 53) = false := by simpa using hd
        simp [matchRule, tproxyDnsMatch, portsMatch, h53, hb]

theorem dns_find' (c : Call) (mk : Ns → Rule) (p : Pkt) (mark : Option String)
    (hfam : c.family = AF_INET ∨ c.family = AF_INET6) (hp : p.fam6 = isV6 c.family)
    (hm : ∀ ns ∈ c.nslist, matchRule (mk ns).m p mark =
      (p.proto == .udp && p.dport == 53 && ns.addr == p.dst)) :
    (((c.nslist.filter (·.fam == c.family)).map mk).find? (fun r => matchRule r.m p mark)).isSome
      = Spec.isDnsToNs c.nslist p := by
  rw [Bool.eq_iff_iff, List.find?_isSome]
  unfold Spec.isDnsToNs
  rw [pktFam_eq hfam hp]
  simp only [List.mem_map, List.mem_filter, Bool.and_eq_true, List.any_eq_true, beq_iff_eq]
  constructor
  · rintro ⟨r, ⟨ns, ⟨hns, hf⟩, rfl⟩, hr⟩
    rw [hm ns hns] at hr
    simp only [Bool.and_eq_true, beq_iff_eq] at hr
    exact ⟨⟨hr.1.1, hr.1.2⟩, ns, hns, hf, hr.2⟩
  · rintro ⟨⟨h1, h2⟩, ns, hns, hf, ha⟩
    refine ⟨mk ns, ⟨ns, ⟨hns, hf⟩, rfl⟩, ?_⟩
    rw [hm ns hns]
    simp [h1, h2, ha]

/-- The subnet part of either tproxy chain (`tgt` = what an entry's rules do): the first
matching rule, if any, belongs to an entry `s0` with `tgt s0`, and the protocol-gated
"most specific entry is an include" equals `!s0.excl`; no rule matches iff it is false. -/
theorem tproxy_subnets_find (c : Call) (p : Pkt) (mark : Option String) (tgt : Subnet → Target)
    (hfam : c.family = AF_INET ∨ c.family = AF_INET6) (hp : p.fam6 = isV6 c.family)
    (hwf : ∀ s ∈ c.subnets, Spec.WfEntry s ∧ s.fam = c.family) :
    ∃ o : Option Subnet,
      (((tproxySorted c).flatMap fun s =>
          [(⟨tproxySubnetMatch (isV6 c.family) .tcp s, tgt s⟩ : Rule)] ++
          (if c.udp then [⟨tproxySubnetMatch (isV6 c.family) .udp s, tgt s⟩] else [])).find?
        (fun r => matchRule r.m p mark)).map (·.t) = o.map tgt ∧
      (match o with
       | none => ((p.proto == .tcp || c.udp) && Spec.mostSpecificIsInclude c.subnets p) = false
       | some s0 => ((p.proto == .tcp || c.udp) && Spec.mostSpecificIsInclude c.subnets p) = !s0.excl) := by
  have hrev : Gen.C03.TPROXY_SORT_REVERSE = true := rfl
  simp only [tproxySorted, hrev, sortBy, if_true]
  rw [List.find?_flatMap]
  have hg : ∀ s ∈ sortDesc c.subnets,
      List.find? (fun r : Rule => matchRule r.m p mark)
        ([(⟨tproxySubnetMatch (isV6 c.family) .tcp s, tgt s⟩ : Rule)] ++
          (if c.udp then [(⟨tproxySubnetMatch (isV6 c.family) .udp s, tgt s⟩ : Rule)] else [])) =
      if ((p.proto == .tcp || c.udp) && Spec.entryMatches s p) = true
      then some ⟨tproxySubnetMatch (isV6 c.family) p.proto s, tgt s⟩ else none := by
    intro s hs
    have hsf : s.fam = (if isV6 c.family then AF_INET6 else AF_INET) := by
      rw [(hwf s (mem_sortDesc.mp hs)).2]; exact famOf_isV6 hfam
    have h1 := tproxySubnet_match (isV6 c.family) .tcp s p mark hsf hp
    have h2 := tproxySubnet_match (isV6 c.family) .udp s p mark hsf hp
    cases hpr : p.proto <;> cases hu : c.udp <;> cases he : Spec.entryMatches s p <;>
      simp [List.find?_cons, h1, h2, hpr, hu, he]
  rw [findSome?_ite_of_forall _ _ _ _ hg]
  cases hok : (p.proto == .tcp || c.udp) with
  | false =>
    refine ⟨none, ?_, by simp⟩
    have : (sortDesc c.subnets).find? (fun s => false && Spec.entryMatches s p) = none := by
      rw [List.find?_eq_none]; intro s _; simp
    simp [this]
  | true =>
    simp only [Bool.true_and]
    have hspec := find?_sortDesc_spec c.subnets (fun s => Spec.entryMatches s p) p (fun _ _ => rfl)
      (fun s hs => (hwf s hs).1)
    cases hf : (sortDesc c.subnets).find? (fun s => Spec.entryMatches s p) with
    | none => rw [hf] at hspec; exact ⟨none, by simp, by simpa using hspec⟩
    | some s0 =>
      rw [hf] at hspec
      exact ⟨some s0, by simp, by simpa using hspec.2.2⟩
/-- What the property says tproxy must divert at all (to either listener). -/
def tproxyDiverts (c : Call) (p : Pkt) : Bool :=
  Spec.isDnsToNs c.nslist p ||
  ((p.proto == .tcp || c.udp) && Spec.mostSpecificIsInclude c.subnets p)

theorem tproxyChain_verdict (c : Call) (call : ChainName → Option String → Res) (p : Pkt)
    (mark : Option String)
    (hfam : c.family = AF_INET ∨ c.family = AF_INET6) (hp : p.fam6 = isV6 c.family)
    (hwf : ∀ s ∈ c.subnets, Spec.WfEntry s ∧ s.fam = c.family)
    (hnl : p.dstLocal = false) (hsock : p.hasSocket = false) (hs : Mask32Safe c p) :
    (walkList call p (tproxyTproxyChain c) mark).verdict = Spec.expectedCall c false c.udp p := by
  have hLm : matchRule localReturn.m p mark = false := by simp [localReturn, matchRule, hnl]
  have hSm : ∀ pr, matchRule (socketRule pr c.port).m p mark = false := by
    intro pr; simp [socketRule, matchRule, hsock]
  have hall : ∀ r ∈ tproxyTproxyChain c, r.t.simple = true ∨ matchRule r.m p mark = false := by
    intro r hr
    simp only [tproxyTproxyChain, tproxyTproxyRules, List.mem_append, List.mem_map, List.mem_singleton,
      List.mem_flatMap] at hr
    rcases hr with (((⟨ns, _, rfl⟩ | rfl) | rfl) | hr) | ⟨s, _, hr⟩
    · left; rfl
    · left; rfl
    · right; exact hSm _
    · split at hr
      · simp only [List.mem_singleton] at hr; subst hr; right; exact hSm _
      · cases hr
    · left
      rcases hr with hr | hr
      · subst hr; cases s.excl <;> rfl
      · split at hr
        · simp only [List.mem_singleton] at hr; subst hr; cases s.excl <;> rfl
        · cases hr
  rw [walkList_simple' _ _ _ _ hall]
  unfold tproxyTproxyChain
  simp only [List.find?_append]
  have hL : [localReturn].find? (fun r => matchRule r.m p mark) = none := by
    simp [hLm]
  have hS1 : [socketRule .tcp c.port].find? (fun r => matchRule r.m p mark) = none := by
    simp [hSm]
  have hS2 : (if c.udp then [socketRule .udp c.port] else []).find? (fun r => matchRule r.m p mark) = none := by
    split <;> simp [hSm]
  rw [hL, hS1, hS2]
  simp only [Option.or_none]
  have hD := dns_find' c (fun ns => ⟨tproxyDnsMatch (isV6 c.family) ns, .tproxy c.tmark c.dnsport⟩) p mark
    hfam hp (tproxyDns_match c p mark hp hs)
  obtain ⟨o, ho, hspec⟩ := tproxy_subnets_find c p mark
    (fun s => if s.excl then .ret else .tproxy c.tmark c.port) hfam hp hwf
  unfold Spec.expectedCall
  simp only [Bool.false_and, Bool.false_eq_true, if_false]
  cases hfd : ((c.nslist.filter (·.fam == c.family)).map
      (fun ns => (⟨tproxyDnsMatch (isV6 c.family) ns, .tproxy c.tmark c.dnsport⟩ : Rule))).find?
      (fun r => matchRule r.m p mark) with
  | some r =>
    rw [hfd] at hD
    simp only [Option.isSome_some] at hD
    rw [← hD]
    have hr := List.mem_of_find?_eq_some hfd
    simp only [List.mem_map] at hr
    obtain ⟨ns, _, rfl⟩ := hr
    simp [termRes, Res.verdict]
  | none =>
    rw [hfd] at hD
    simp only [Option.isSome_none] at hD
    rw [← hD]
    simp only [Option.none_or, Bool.false_eq_true, if_false]
    unfold tproxyTproxyRules
    cases hff : ((tproxySorted c).flatMap fun s =>
          [(⟨tproxySubnetMatch (isV6 c.family) .tcp s, if s.excl then .ret else .tproxy c.tmark c.port⟩ : Rule)] ++
          (if c.udp then [⟨tproxySubnetMatch (isV6 c.family) .udp s,
            if s.excl then .ret else .tproxy c.tmark c.port⟩] else [])).find?
        (fun r => matchRule r.m p mark) with
    | none =>
      rw [hff] at ho
      cases o with
      | none => simp only at hspec; simp [hspec, Res.verdict]
      | some s0 => simp at ho
    | some r =>
      rw [hff] at ho
      cases o with
      | none => simp at ho
      | some s0 =>
        simp only [Option.map_some, Option.some.injEq] at ho
        simp only at hspec
        simp only [hspec, ho]
        cases s0.excl <;> simp [termRes, Res.verdict]
theorem tproxyMark_walk (c : Call) (call : ChainName → Option String → Res) (p : Pkt)
    (m0 : Option String)
    (hfam : c.family = AF_INET ∨ c.family = AF_INET6) (hp : p.fam6 = isV6 c.family)
    (hwf : ∀ s ∈ c.subnets, Spec.WfEntry s ∧ s.fam = c.family)
    (hnl : p.dstLocal = false) (hs : Mask32Safe c p) :
    walkList call p (tproxyMarkChain c) m0 =
      .fall (if tproxyDiverts c p then some c.tmark else m0) := by
  have hLm : matchRule localReturn.m p m0 = false := by simp [localReturn, matchRule, hnl]
  have hall : ∀ r ∈ tproxyMarkChain c, r.t = .ret ∨ r.t = .setMark c.tmark := by
    intro r hr
    simp only [tproxyMarkChain, tproxyMarkRules, List.mem_append, List.mem_map, List.mem_singleton,
      List.mem_flatMap] at hr
    rcases hr with ((⟨ns, _, rfl⟩ | rfl) | ⟨s, _, hr⟩)
    · right; rfl
    · left; rfl
    · rcases hr with hr | hr
      · subst hr; cases s.excl <;> simp
      · split at hr
        · simp only [List.mem_singleton] at hr; subst hr; cases s.excl <;> simp
        · cases hr
  rw [walkList_markOnly _ _ _ _ _ hall]
  unfold tproxyMarkChain tproxyDiverts
  simp only [List.find?_append]
  have hL : [localReturn].find? (fun r => matchRule r.m p m0) = none := by simp [hLm]
  rw [hL]
  simp only [Option.or_none]
  have hD := dns_find' c (fun ns => ⟨tproxyDnsMatch (isV6 c.family) ns, .setMark c.tmark⟩) p m0
    hfam hp (tproxyDns_match c p m0 hp hs)
  obtain ⟨o, ho, hspec⟩ := tproxy_subnets_find c p m0
    (fun s => if s.excl then .ret else .setMark c.tmark) hfam hp hwf
  cases hfd : ((c.nslist.filter (·.fam == c.family)).map
      (fun ns => (⟨tproxyDnsMatch (isV6 c.family) ns, .setMark c.tmark⟩ : Rule))).find?
      (fun r => matchRule r.m p m0) with
  | some r =>
    rw [hfd] at hD
    simp only [Option.isSome_some] at hD
    rw [← hD]
    have hr := List.mem_of_find?_eq_some hfd
    simp only [List.mem_map] at hr
    obtain ⟨ns, _, rfl⟩ := hr
    simp
  | none =>
    rw [hfd] at hD
    simp only [Option.isSome_none] at hD
    rw [← hD]
    simp only [Option.none_or, Bool.false_or]
    unfold tproxyMarkRules
    cases hff : ((tproxySorted c).flatMap fun s =>
          [(⟨tproxySubnetMatch (isV6 c.family) .tcp s, if s.excl then .ret else .setMark c.tmark⟩ : Rule)] ++
          (if c.udp then [⟨tproxySubnetMatch (isV6 c.family) .udp s,
            if s.excl then .ret else .setMark c.tmark⟩] else [])).find?
        (fun r => matchRule r.m p m0) with
    | none =>
      rw [hff] at ho
      cases o with
      | none => simp only at hspec; simp [hspec]
      | some s0 => simp at ho
    | some r =>
      rw [hff] at ho
      cases o with
      | none => simp at ho
      | some s0 =>
        simp only [Option.map_some, Option.some.injEq] at ho
        simp only at hspec
        simp only [hspec, ho]
        cases s0.excl <;> simp

theorem expectedCall_untouched_of_not_diverts (c : Call) (p : Pkt) (h : tproxyDiverts c p = false) :
    Spec.expectedCall c false c.udp p = .untouched := by
  unfold tproxyDiverts at h
  simp only [Bool.or_eq_false_iff] at h
  simp [Spec.expectedCall, h.1, h.2]

/-- tproxy, whole pipeline. -/
theorem tproxy_verdict (c : Call) (p : Pkt)
    (hfam : c.family = AF_INET ∨ c.family = AF_INET6) (hp : p.fam6 = isV6 c.family)
    (hwf : ∀ s ∈ c.subnets, Spec.WfEntry s ∧ s.fam = c.family)
    (hnl : p.dstLocal = false) (hsock : p.hasSocket = false)
    (hmark : p.mark ≠ some c.tmark) (hs : Mask32Safe c p) :
    verdictTproxy (load (tproxyCmds c)) p = Spec.expectedCall c false c.udp p := by
  obtain ⟨hM, hT, hO, hP⟩ := tproxy_load c
  have hpre : ∀ mark, (walkChain (load (tproxyCmds c)) (.ipt (isV6 c.family) .mangle) p walkFuel
      .prerouting mark).verdict = Spec.expectedCall c false c.udp p := by
    intro mark
    show (walkChain _ _ _ (3 + 1) _ _).verdict = _
    rw [walkChain_succ, hP, walkList_jump_single]
    rw [walkChain_succ, hT, tproxyChain_verdict c _ p mark hfam hp hwf hnl hsock hs]
    simp [matchRule]
  have hout : walkChain (load (tproxyCmds c)) (.ipt (isV6 c.family) .mangle) p walkFuel .output p.mark
      = .fall (if tproxyDiverts c p then some c.tmark else p.mark) := by
    show walkChain _ _ _ (3 + 1) _ _ = _
    rw [walkChain_succ, hO]
    unfold walkList
    simp only [matchRule, Bool.not_false, Bool.true_or, Bool.and_self, if_true]
    rw [walkChain_succ, hM, tproxyMark_walk c _ p p.mark hfam hp hwf hnl hs]
    simp [walkList]
  unfold verdictTproxy
  rw [hp, hout]
  simp only [hpre, Res.markOr]
  cases hd : tproxyDiverts c p with
  | false => simp [expectedCall_untouched_of_not_diverts c p hd]
  | true =>
    have : ¬ (some c.tmark = p.mark) := fun h => hmark h.symm
    simp [this]

theorem expectedCall_diverts (c : Call) (p : Pkt) :
    (Spec.expectedCall c false c.udp p ≠ .untouched) ↔ tproxyDiverts c p = true := by
  unfold tproxyDiverts Spec.expectedCall
  cases Spec.isDnsToNs c.nslist p <;>
  cases ((p.proto == .tcp || c.udp) && Spec.mostSpecificIsInclude c.subnets p) <;> simp

theorem mask32Safe_v4 (c : Call) (p : Pkt) (h : isV6 c.family = false) : Mask32Safe c p := by
  intro hv; rw [h] at hv; cases hv

theorem tproxyChain_local (c : Call) (call : ChainName → Option String → Res) (p : Pkt)
    (mark : Option String)
    (hfam : c.family = AF_INET ∨ c.family = AF_INET6) (hp : p.fam6 = isV6 c.family)
    (hl : p.dstLocal = true) (hs : Mask32Safe c p) :
    (walkList call p (tproxyTproxyChain c) mark).verdict =
      if Spec.isDnsToNs c.nslist p then .divert c.dnsport else .untouched := by
  have hLm : matchRule localReturn.m p mark = true := by simp [localReturn, matchRule, hl]
  have hD := dns_find' c (fun ns => ⟨tproxyDnsMatch (isV6 c.family) ns, .tproxy c.tmark c.dnsport⟩) p mark
    hfam hp (tproxyDns_match c p mark hp hs)
  unfold tproxyTproxyChain
  simp only [List.append_assoc, List.singleton_append, List.cons_append]
  -- the walk never gets past the LOCAL rule
  have key : ∀ (D rest : List Rule), (∀ r ∈ D, r.t = .tproxy c.tmark c.dnsport) →
      (walkList call p (D ++ localReturn :: rest) mark).verdict =
        if (D.find? (fun r => matchRule r.m p mark)).isSome then .divert c.dnsport else .untouched := by
    intro D rest hDt
    induction D with
    | nil => simp [walkList, localReturn, matchRule, hl, Res.verdict]
    | cons r t ih =>
      have hr := hDt r List.mem_cons_self
      have iht := ih (fun x hx => hDt x (List.mem_cons_of_mem _ hx))
      rw [List.cons_append]
      unfold walkList
      by_cases hm : matchRule r.m p mark = true
      · rw [if_pos hm, hr, List.find?_cons_of_pos (by simpa using hm)]
        simp [Res.verdict]
      · rw [if_neg hm, List.find?_cons_of_neg (by simpa using hm)]
        exact iht
  rw [key _ _ (by intro r hr; simp only [List.mem_map] at hr; obtain ⟨ns, _, rfl⟩ := hr; rfl), hD]

theorem tproxyMark_local (c : Call) (call : ChainName → Option String → Res) (p : Pkt)
    (m0 : Option String)
    (hfam : c.family = AF_INET ∨ c.family = AF_INET6) (hp : p.fam6 = isV6 c.family)
    (hl : p.dstLocal = true) (hs : Mask32Safe c p) :
    walkList call p (tproxyMarkChain c) m0 =
      .fall (if Spec.isDnsToNs c.nslist p then some c.tmark else m0) := by
  have hD := dns_find' c (fun ns => ⟨tproxyDnsMatch (isV6 c.family) ns, .setMark c.tmark⟩) p m0
    hfam hp (tproxyDns_match c p m0 hp hs)
  unfold tproxyMarkChain
  simp only [List.append_assoc, List.singleton_append]
  have key : ∀ (D rest : List Rule) (m : Option String), (∀ r ∈ D, r.t = .setMark c.tmark) →
      (∀ r ∈ D, ∀ m1 m2, matchRule r.m p m1 = matchRule r.m p m2) →
      walkList call p (D ++ localReturn :: rest) m =
        .fall (if (D.find? (fun r => matchRule r.m p m0)).isSome then some c.tmark else m) := by
    intro D rest m hDt hind
    induction D generalizing m with
    | nil => simp [walkList, localReturn, matchRule, hl]
    | cons r t ih =>
      have hr := hDt r List.mem_cons_self
      have iht := fun m' => ih m' (fun x hx => hDt x (List.mem_cons_of_mem _ hx))
        (fun x hx => hind x (List.mem_cons_of_mem _ hx))
      rw [List.cons_append]
      unfold walkList
      by_cases hm : matchRule r.m p m0 = true
      · rw [hind r List.mem_cons_self m m0, if_pos hm, hr, List.find?_cons_of_pos (by simpa using hm)]
        simp only [iht (some c.tmark)]
        split <;> simp
      · rw [hind r List.mem_cons_self m m0, if_neg hm, List.find?_cons_of_neg (by simpa using hm)]
        exact iht m
  rw [key _ _ m0 (by intro r hr; simp only [List.mem_map] at hr; obtain ⟨ns, _, rfl⟩ := hr; rfl)
    (by intro r hr m1 m2; simp only [List.mem_map] at hr; obtain ⟨ns, _, rfl⟩ := hr
        simp [matchRule, tproxyDnsMatch]), hD]

/-- tproxy, packet to one of the host's own addresses: only DNS to a listed name server is taken. -/
theorem tproxy_verdict_local (c : Call) (p : Pkt)
    (hfam : c.family = AF_INET ∨ c.family = AF_INET6) (hp : p.fam6 = isV6 c.family)
    (hl : p.dstLocal = true) (hmark : p.mark ≠ some c.tmark) (hs : Mask32Safe c p) :
    verdictTproxy (load (tproxyCmds c)) p =
      if Spec.isDnsToNs c.nslist p then .divert c.dnsport else .untouched := by
  obtain ⟨hM, hT, hO, hP⟩ := tproxy_load c
  have hpre : ∀ mark, (walkChain (load (tproxyCmds c)) (.ipt (isV6 c.family) .mangle) p walkFuel
      .prerouting mark).verdict = if Spec.isDnsToNs c.nslist p then .divert c.dnsport else .untouched := by
    intro mark
    show (walkChain _ _ _ (3 + 1) _ _).verdict = _
    rw [walkChain_succ, hP, walkList_jump_single]
    rw [walkChain_succ, hT, tproxyChain_local c _ p mark hfam hp hl hs]
    simp [matchRule]
  have hout : walkChain (load (tproxyCmds c)) (.ipt (isV6 c.family) .mangle) p walkFuel .output p.mark
      = .fall (if Spec.isDnsToNs c.nslist p then some c.tmark else p.mark) := by
    show walkChain _ _ _ (3 + 1) _ _ = _
    rw [walkChain_succ, hO]
    unfold walkList
    simp only [matchRule, Bool.not_false, Bool.true_or, Bool.and_self, if_true]
    rw [walkChain_succ, hM, tproxyMark_local c _ p p.mark hfam hp hl hs]
    simp [walkList]
  unfold verdictTproxy
  rw [hp, hout]
  simp only [hpre, Res.markOr]
  cases hd : Spec.isDnsToNs c.nslist p with
  | false => simp
  | true =>
    have : ¬ (some c.tmark = p.mark) := fun h => hmark h.symm
    simp [this]
end Sshuttle.Fw
