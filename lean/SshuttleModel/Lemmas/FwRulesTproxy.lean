/-
C03, tproxy method: the DNS rules and the subnet rules match what the property says.
-/
import SshuttleModel.Lemmas.FwRulesNat

namespace Sshuttle.Fw

/-- A tproxy DNS rule (`--dest ip/32`) matches exactly UDP port 53 to that name server —
for IPv4, where 32 is the address width. -/
theorem tproxyDns_match_v4 (ns : Ns) (p : Pkt) (mark : Option String)
    (hp : p.fam6 = false) :
    matchRule (tproxyDnsMatch false ns) p mark =
      (p.proto == .udp && p.dport == 53 && ns.addr == p.dst) := by
  obtain ⟨fam6, dst, dport, proto, loc, dl, uid, gid, mk, sock, srcLo⟩ := p
  simp only at hp
  subst hp
  have h53 : Gen.C03.TPROXY_DNS_PORT = 53 := rfl
  cases proto <;>
  simp [matchRule, tproxyDnsMatch, tproxyDnsWidth, destMatch, portsMatch, inPrefix, bits, h53,
    Bool.and_comm]

/-- A tproxy subnet rule for protocol `pr` matches exactly the packets of that protocol its
entry matches. -/
theorem tproxySubnet_match (v6 : Bool) (pr : Proto) (s : Subnet) (p : Pkt) (mark : Option String)
    (hfam : s.fam = (if v6 then AF_INET6 else AF_INET)) (hp : p.fam6 = v6) :
    matchRule (tproxySubnetMatch v6 pr s) p mark = (pr == p.proto && Spec.entryMatches s p) := by
  subst hp
  obtain ⟨fam6, dst, dport, proto, loc, dl, uid, gid, mk, sock, srcLo⟩ := p
  unfold tproxySubnetMatch
  have hb : (s.fport == 0) = decide (s.fport = 0) := by rw [Bool.eq_iff_iff]; simp
  cases fam6 <;> simp only [af_inet, af_inet6, if_true] at hfam <;>
  by_cases hf : s.fport = 0 <;> cases pr <;> cases proto <;>
  simp [matchRule, destMatch, subnetDest, portsMatch, Spec.entryMatches, Spec.contains, inPrefix,
    Spec.famBits, Spec.pktFam, bits, Spec.anyPort, hfam, hb, hf, af_inet, af_inet6]

end Sshuttle.Fw
