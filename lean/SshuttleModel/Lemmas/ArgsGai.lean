/-
`getaddrinfo` (idna fast path + glibc numeric host) on documented IPv4 spellings.
-/
import SshuttleModel.Lemmas.ArgsSub

namespace Sshuttle.ArgsSpec
open Sshuttle.Inet Sshuttle.Args

theorem splitOn_no_sep (sep : Char) (xs : Str) (h : sep ∉ xs) : splitOn sep xs = [xs] := by
  induction xs with
  | nil => rfl
  | cons x xs ih =>
    have hx : x ≠ sep := by intro e; exact h (by simp [e])
    have := ih (fun hm => h (by simp [hm]))
    simp [splitOn, this, hx]

theorem splitOn_app (sep : Char) (xs rest : Str) (h : sep ∉ xs) :
    splitOn sep (xs ++ sep :: rest) = xs :: splitOn sep rest := by
  induction xs with
  | nil =>
    simp only [List.nil_append, splitOn]
    cases hs : splitOn sep rest with
    | nil => simp
    | cons y ys => simp
  | cons x xs ih =>
    have hx : x ≠ sep := by intro e; exact h (by simp [e])
    have := ih (fun hm => h (by simp [hm]))
    simp [splitOn, this, hx]

theorem splitOn_ne_nil (sep : Char) (xs : Str) : splitOn sep xs ≠ [] := by
  cases xs with
  | nil => simp [splitOn]
  | cons x xs =>
    simp only [splitOn]
    cases splitOn sep xs with
    | nil => simp
    | cons y ys => by_cases h : x = sep <;> simp [h]

theorem dot_not_in_spellPart (r : Radix) (v : Nat) : '.' ∉ spellPart r v := by
  intro h
  have := spellPart_alnum r v '.' h
  revert this; decide

/-- a label the idna fast path accepts -/
def LabelOk (l : Str) : Prop := 0 < l.length ∧ l.length < 64

theorem spellPart_labelOk (r : Radix) (v : Nat) (hv : v < 2 ^ 32) : LabelOk (spellPart r v) := by
  constructor
  · obtain ⟨c, t, h, _⟩ := spellPart_head r v
    rw [h]; simp
  · cases r with
    | dec =>
      have := renderWith_length_le digitChar 10 (by omega) 9 v (by omega)
      simp only [spellPart, render]; omega
    | oct =>
      have := renderWith_length_le digitChar 8 (by omega) 10 v (by omega)
      simp only [spellPart, render, List.length_cons]; omega
    | hex =>
      have := renderWith_length_le digitChar 16 (by omega) 7 v (by omega)
      simp only [spellPart, render, List.length_cons]; omega
    | hexU =>
      have := renderWith_length_le digitCharU 16 (by omega) 7 v (by omega)
      simp only [spellPart, renderU, List.length_cons]; omega

theorem labels_spellV4 (a : Nat) (ha : a < 2 ^ 32) (sh : Shape4) :
    ∀ l ∈ splitOn '.' (spellV4 a sh), LabelOk l := by
  have hlt : ∀ x, x < 2 ^ 32 → x < 2 ^ 32 := fun _ h => h
  cases sh with
  | p1 r0 =>
    simp only [spellV4]
    rw [splitOn_no_sep _ _ (dot_not_in_spellPart r0 a)]
    intro l hl; simp only [List.mem_singleton] at hl; subst hl
    exact spellPart_labelOk r0 a ha
  | p2 r0 r1 =>
    simp only [spellV4]
    rw [splitOn_app _ _ _ (dot_not_in_spellPart r0 _), splitOn_no_sep _ _ (dot_not_in_spellPart r1 _)]
    intro l hl; simp only [List.mem_cons, List.not_mem_nil, or_false] at hl
    rcases hl with rfl | rfl
    · exact spellPart_labelOk _ _ (by omega)
    · exact spellPart_labelOk _ _ (by omega)
  | p3 r0 r1 r2 =>
    simp only [spellV4]
    rw [splitOn_app _ _ _ (dot_not_in_spellPart r0 _), splitOn_app _ _ _ (dot_not_in_spellPart r1 _),
      splitOn_no_sep _ _ (dot_not_in_spellPart r2 _)]
    intro l hl; simp only [List.mem_cons, List.not_mem_nil, or_false] at hl
    rcases hl with rfl | rfl | rfl
    · exact spellPart_labelOk _ _ (by omega)
    · exact spellPart_labelOk _ _ (by omega)
    · exact spellPart_labelOk _ _ (by omega)
  | p4 r0 r1 r2 r3 =>
    simp only [spellV4]
    rw [splitOn_app _ _ _ (dot_not_in_spellPart r0 _), splitOn_app _ _ _ (dot_not_in_spellPart r1 _),
      splitOn_app _ _ _ (dot_not_in_spellPart r2 _), splitOn_no_sep _ _ (dot_not_in_spellPart r3 _)]
    intro l hl; simp only [List.mem_cons, List.not_mem_nil, or_false] at hl
    rcases hl with rfl | rfl | rfl | rfl
    · exact spellPart_labelOk _ _ (by omega)
    · exact spellPart_labelOk _ _ (by omega)
    · exact spellPart_labelOk _ _ (by omega)
    · exact spellPart_labelOk _ _ (by omega)

/-- the idna fast path lets an ASCII host through when every label is 1..63 characters long -/
theorem idnaEncode_ascii (env : Env) (host : Str) (hne : host.isEmpty = false)
    (hascii : ∀ c ∈ host, c.toNat < 128) (hl : ∀ l ∈ splitOn '.' host, LabelOk l) :
    idnaEncode env host = .ok host := by
  unfold idnaEncode
  have hall : host.all (fun c => decide (c.toNat < 128)) = true := by
    rw [List.all_eq_true]; intro c hc; simp [hascii c hc]
  have h1 : (splitOn '.' host).dropLast.any (fun l => decide (l.length = 0) || decide (l.length ≥ 64)) = false := by
    rw [List.any_eq_false]
    intro l hlm
    have := hl l (List.dropLast_subset _ hlm)
    unfold LabelOk at this
    simp only [Bool.or_eq_true, decide_eq_true_eq]; omega
  have h2 : ¬ ((splitOn '.' host).getLast?.getD []).length ≥ 64 := by
    cases hg : (splitOn '.' host).getLast? with
    | none => simp
    | some l =>
      have := hl l (List.mem_of_getLast? hg)
      unfold LabelOk at this
      simp; omega
  simp only [hne, Bool.false_eq_true, ↓reduceIte, hall, h1, h2]

theorem gaiNumeric_spellV4 (a : Nat) (ha : a < 2 ^ 32) (sh : Shape4) :
    gaiNumeric (spellV4 a sh) = .v4 a := by
  unfold gaiNumeric
  have hnul : (spellV4 a sh).takeWhile (fun c => decide (c ≠ Char.ofNat 0)) = spellV4 a sh := by
    have := span_app (fun c => decide (c ≠ Char.ofNat 0)) (spellV4 a sh) []
      (fun x hx => by
        have := v4c_ne x (spellV4_chars a sh x hx) (Char.ofNat 0) (by decide)
        simp [this]) (Or.inl rfl)
    rw [List.append_nil] at this
    exact this.1
  simp only [hnul]
  obtain ⟨c, t, hct, hdig⟩ := spellV4_head a sh
  have hstar : spellV4 a sh ≠ ['*'] := by
    rw [hct]; intro e; injection e with e1 _
    exact isDigit_ne c hdig '*' (by decide) e1
  simp [hstar, atonExact_spellV4 a ha sh]

theorem getaddrinfo_spellV4 (env : Env) (a : Nat) (ha : a < 2 ^ 32) (sh : Shape4) :
    getaddrinfo env (spellV4 a sh) 0 = .ok [(.inet, ntoa a, 0)] := by
  unfold getaddrinfo
  rw [idnaEncode_ascii env _ (spellV4_isEmpty a sh)
    (fun c hc => v4c_ascii c (spellV4_chars a sh c hc)) (labels_spellV4 a ha sh)]
  have hp : gaiPort 0 = some 0 := by decide
  simp only [hp, gaiNumeric_spellV4 a ha sh]

end Sshuttle.ArgsSpec
