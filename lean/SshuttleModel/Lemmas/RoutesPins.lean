/-
Pins for C17: the parts of the source that `Code/Routes.lean` was written for and does not take as a
value from `Gen/C17.lean`.  Each is re-read from the working tree on every run
(`harness/params/c17.py`); if the source changes, the `example` stops checking and the property's
build fails (a broken proof obligation), instead of the model silently describing old code.
-/
import SshuttleModel.Code.Routes

namespace Sshuttle.Routes.Pins
open Sshuttle.Gen.C17

/-- `^(\d+(\.\d+(\.\d+(\.\d+)?)?)?)(?:/(\d+))?$` — the expression `reIp`/`reTail` implement. -/
example : IPMATCH_RE = [94, 40, 92, 100, 43, 40, 92, 46, 92, 100, 43, 40, 92, 46, 92, 100, 43, 40, 92, 46, 92,
    100, 43, 41, 63, 41, 63, 41, 63, 41, 40, 63, 58, 47, 40, 92, 100, 43, 41, 41, 63, 36] := by decide
example : IPMATCH_RE_CALL = ["re.match", "ipstr"] := by decide
example : PAD_TESTS = ["g[1] is None", "g[2] is None", "g[3] is None"] := by decide
example : PAD1 = [46, 48, 46, 48, 46, 48] ∧ PAD2 = [46, 48, 46, 48] ∧ PAD3 = [46, 48] := by decide
example : IPMATCH_RETURN = "(struct.unpack('!I', socket.inet_aton(ips))[0], width)" := by decide
example : MASKBITS_SRC = ["if not netmask:\n    return 32",
    "for i in range(32):\n    if netmask[0] & _shl(1, i):\n        return 32 - i", "return 0"] := by decide
example : SHL_SRC = ["return n * int(2 ** bits)"] := by decide
example : NETSTAT_SRC = ["cols = line.split(None)", "if len(cols) < 3:\n    return (None, None)",
    "ipw = _ipmatch(cols[0])", "maskw = _ipmatch(cols[2])", "mask = _maskbits(maskw)", "return (ipw, mask)"] := by decide
example : IPROUTE_SRC = ["ipm = line.split(None, 1)[0]", "if '/' not in ipm:\n    return (None, None)",
    "ip, mask = ipm.split('/')", "ipw = _ipmatch(ip)", "return (ipw, int(mask))"] := by decide
/-- the repaired loop: the extractor call is guarded, negative prefix lengths are skipped -/
example : LIST_ROUTES_CATCHES = ["IndexError", "OSError", "ValueError"] := by decide
example : LIST_ROUTES_TRY_BODY = ["ipw, mask = extract_route(line.decode('ASCII'))"] := by decide
example : LIST_ROUTES_SKIP_TESTS = ["not line.strip()", "not ipw or mask < 0"] := by decide
example : LIST_ROUTES_ARITH = ["width = min(ipw[1], mask)",
    "ip = ipw[0] & _shl(_shl(1, width) - 1, 32 - width)"] := by decide
example : LIST_ROUTES_APPEND = "(socket.AF_INET, socket.inet_ntoa(struct.pack('!I', ip)), width)" := by decide
example : FILTER_TEST = "not ip.startswith('0.') and (not ip.startswith('127.'))" := by decide
example : WHICH_ORDER = ["ip", "netstat"] := by decide
example : LIST_ROUTES_CALLS = ["_list_routes(['route', 'PRINT', '-4'], _route_windows)",
    "_list_routes(['ip', 'route'], _route_iproute)", "_list_routes(['netstat', '-rn'], _route_netstat)"] := by decide
/-- `'%d,%s,%d\n'` -/
example : ROUTE_FMT = [37, 100, 44, 37, 115, 44, 37, 100, 10] := by decide
example : ROUTES_SEND = ["0", "ssnet.CMD_ROUTES", "b(routepkt)"] := by decide
example : ONROUTES_SPLITS = ["routestr.strip().split(b'\\n')", "line.split(b',', 2)"] := by decide
example : ONROUTES_TESTS = ["auto_nets", "not line", "family == socket.AF_INET6 and tcp_listener.v6 is None",
    "family == socket.AF_INET and tcp_listener.v4 is None"] := by decide
example : ONROUTES_TAIL = ["mux.got_routes = None", "serverready()"] := by decide
example : START_SUBNET_WRITES = ["b'%d,%d,0,%s,%d,%d\\n' % (family, width, ip.encode('ASCII'), fport, lport)",
    "b'%d,%d,1,%s,%d,%d\\n' % (family, width, ip.encode('ASCII'), fport, lport)"] := by decide
example : START_SUBNET_LOOPS = ["self.subnets_include + self.auto_nets", "self.subnets_exclude"] := by decide
example : SERVERREADY_FIRST = "fw.start()" := by decide

/-- values the theorems were proved for -/
theorem consts : DEFAULT_WIDTH = 32 ∧ CAP1 = 8 ∧ CAP2 = 16 ∧ CAP3 = 24 ∧ MASKBITS_NONE = 32 ∧
    MASKBITS_RANGE = 32 ∧ NETSTAT_MIN_COLS = 3 ∧ NETSTAT_IP_COL = 0 ∧ NETSTAT_MASK_COL = 2 ∧ TOTAL_BITS = 32 ∧
    AUTO_FPORT = 0 ∧ AUTO_LPORT = 0 ∧ INT_MAX_STR_DIGITS = 4300 := by decide

end Sshuttle.Routes.Pins
