/-
Lemmas for the scanner → server → client → helper chain of C19: line lengths of valid records,
newline-free stretches of a stream of lines, the client's white-space tokens across payloads.
-/
import SshuttleModel.Lemmas.HostPipeline

namespace Sshuttle.HostPipeline
open Sshuttle.FwDialogue

/-! ### white-space tokens (`bytes.split()`) -/

theorem tokAux_nows : ∀ (a cur r : Bytes), (∀ c ∈ a, isWsB c = false) →
    tokAux cur (a ++ r) = tokAux (cur ++ a) r
  | [], cur, r, _ => by simp
  | c :: a, cur, r, h => by
    have hc : isWsB c = false := h c (by simp)
    simp only [List.cons_append, tokAux, hc, Bool.false_eq_true, if_false]
    rw [tokAux_nows a (cur ++ [c]) r (fun x hx => h x (by simp [hx]))]
    simp

theorem tokAux_ws_nil : ∀ (w : Bytes), (∀ c ∈ w, isWsB c = true) → tokAux [] w = []
  | [], _ => rfl
  | c :: w, h => by
    simp only [tokAux, h c (by simp), if_true]
    exact tokAux_ws_nil w (fun x hx => h x (by simp [hx]))

theorem tokAux_ws (cur : Bytes) : ∀ (w : Bytes), (∀ c ∈ w, isWsB c = true) → tokAux cur w = tokAux cur []
  | [], _ => rfl
  | c :: w, h => by
    have hw := tokAux_ws_nil w (fun x hx => h x (by simp [hx]))
    by_cases hc : cur = []
    · simp [tokAux, h c (by simp), hc, hw]
    · simp [tokAux, h c (by simp), hc, hw]

theorem tokAux_append_ws : ∀ (a cur w : Bytes), (∀ c ∈ w, isWsB c = true) →
    tokAux cur (a ++ w) = tokAux cur a
  | [], cur, w, h => by simpa using tokAux_ws cur w h
  | c :: a, cur, w, h => by
    simp only [List.cons_append, tokAux]
    by_cases hc : isWsB c = true
    · by_cases hcur : cur = []
      · simp only [hc, hcur, if_true]; exact tokAux_append_ws a [] w h
      · simp only [hc, hcur, if_true, if_false]; rw [tokAux_append_ws a [] w h]
    · simp only [hc, if_false]; exact tokAux_append_ws a (cur ++ [c]) w h

theorem mem_takeWhile_p (p : Nat → Bool) : ∀ (l : Bytes) (c : Nat), c ∈ l.takeWhile p → p c = true
  | [], _, h => by simp at h
  | x :: l, c, h => by
    by_cases hx : p x = true
    · rw [List.takeWhile_cons_of_pos hx] at h
      rcases List.mem_cons.mp h with rfl | h
      · exact hx
      · exact mem_takeWhile_p p l c h
    · rw [List.takeWhile_cons_of_neg hx] at h
      simp at h

theorem tokens_dropWhile : ∀ s : Bytes, tokens (s.dropWhile isWsB) = tokens s
  | [] => rfl
  | c :: s => by
    by_cases hc : isWsB c = true
    · rw [List.dropWhile_cons_of_pos hc]
      simp only [tokens, tokAux, hc, if_true]
      exact tokens_dropWhile s
    · rw [List.dropWhile_cons_of_neg hc]

/-- `hostlist.strip().split()` is `hostlist.split()`. -/
theorem tokens_stripB (s : Bytes) : tokens (stripB s) = tokens s := by
  unfold stripB
  have hsplit := List.takeWhile_append_dropWhile (p := isWsB) (l := (s.dropWhile isWsB).reverse)
  have hrev : s.dropWhile isWsB =
      ((s.dropWhile isWsB).reverse.dropWhile isWsB).reverse ++ ((s.dropWhile isWsB).reverse.takeWhile isWsB).reverse := by
    rw [← List.reverse_append, hsplit, List.reverse_reverse]
  have hws : ∀ c ∈ ((s.dropWhile isWsB).reverse.takeWhile isWsB).reverse, isWsB c = true := by
    intro c hc
    rw [List.mem_reverse] at hc
    exact mem_takeWhile_p _ _ c hc
  rw [← tokens_dropWhile s]
  conv => rhs; rw [hrev]
  exact (tokAux_append_ws _ [] _ hws).symm

/-- A payload boundary after a newline does not merge or split entries. -/
theorem tokAux_split_nl : ∀ (a : Bytes) (cur b : Bytes),
    tokAux cur (a ++ 10 :: b) = tokAux cur (a ++ [10]) ++ tokAux [] b
  | [], cur, b => by
    by_cases hc : cur = [] <;> simp [tokAux, isWsB, hc]
  | c :: a, cur, b => by
    simp only [List.cons_append, tokAux]
    by_cases hw : isWsB c = true
    · by_cases hc : cur = []
      · simp only [hw, hc, if_true]; exact tokAux_split_nl a [] b
      · simp only [hw, hc, if_true, if_false, List.cons_append]
        rw [tokAux_split_nl a [] b]
    · simp only [hw, if_false]; exact tokAux_split_nl a (cur ++ [c]) b

theorem tokens_append (p q : Bytes) (hp : p = [] ∨ p.getLast? = some 10) :
    tokens (p ++ q) = tokens p ++ tokens q := by
  rcases hp with rfl | hp
  · simp [tokens, tokAux]
  · rcases List.eq_nil_or_concat p with rfl | ⟨a, x, rfl⟩
    · cases hp
    · rw [List.concat_eq_append] at hp ⊢
      rw [List.getLast?_concat] at hp
      injection hp with hp; subst hp
      unfold tokens
      rw [List.append_assoc]
      exact tokAux_split_nl a [] q

theorem tokens_payloads : ∀ (ps : List Bytes), (∀ p ∈ ps, p = [] ∨ p.getLast? = some 10) →
    ps.flatMap tokens = tokens ps.flatten
  | [], _ => by simp [tokens, tokAux]
  | p :: ps, h => by
    simp only [List.flatMap_cons, List.flatten_cons]
    rw [tokens_append p _ (h p (by simp)), tokens_payloads ps (fun x hx => h x (by simp [hx]))]

/-! ### valid records -/

def recBody (r : Str × Str) : Str := r.1 ++ 44 :: r.2

theorem recLine_eq (r : Str × Str) : recLine r = recBody r ++ [10] := by
  simp [recLine, recBody, List.append_assoc]

theorem validIp_length (ip : Str) (h : validIp ip = true) : ip.length ≤ 15 := by
  obtain ⟨a, b, c, d, rfl, ha, hb, hc, hd⟩ := validIp_quad ip h
  simp only [isQuadGroup, Bool.and_eq_true, decide_eq_true_eq] at ha hb hc hd
  simp only [List.length_append, List.length_cons]
  omega

theorem recBody_props (r : Str × Str) (hn : validName r.1 = true) (hi : validIp r.2 = true) :
    recBody r ≠ [] ∧ (∀ c ∈ recBody r, isWsB c = false) ∧ 10 ∉ recBody r ∧
    (recBody r).length ≤ Gen.C19.NAME_MAX + 16 := by
  have hnb := (validName_plain _ hn)
  have hib := List.all_eq_true.mp (validIp_ipBytes _ hi)
  have hws : ∀ c ∈ recBody r, isWsB c = false := by
    intro c hc
    simp only [recBody, List.mem_append, List.mem_cons] at hc
    rcases hc with hc | rfl | hc
    · have := nameByte_props (hnb.1.2 c hc)
      simp [isWsB]; have := this.2.2.2; simp [isSpace] at this; omega
    · rfl
    · have := ipByte_props (hib c hc)
      simp [isWsB]; have := this.2.2; simp [isSpace] at this; omega
  refine ⟨by simp [recBody], hws, ?_, ?_⟩
  · intro h10
    have := hws 10 h10
    simp [isWsB] at this
  · have := validIp_length _ hi
    simp only [recBody, List.length_append, List.length_cons]
    have := hnb.2.1
    omega

theorem tokens_recs : ∀ (recs : List (Str × Str)), (∀ r ∈ recs, validName r.1 = true ∧ validIp r.2 = true) →
    tokens (recs.map recLine).flatten = recs.map recBody
  | [], _ => rfl
  | r :: recs, h => by
    obtain ⟨hne, hws, _, _⟩ := recBody_props r (h r (by simp)).1 (h r (by simp)).2
    simp only [List.map_cons, List.flatten_cons, recLine_eq]
    unfold tokens
    rw [List.append_assoc, tokAux_nows _ [] _ hws]
    simp only [List.nil_append, List.cons_append, tokAux]
    have : isWsB 10 = true := rfl
    simp only [this, if_true, hne, if_false]
    have ih := tokens_recs recs (fun x hx => h x (by simp [hx]))
    unfold tokens at ih
    rw [ih]

theorem entry_rec (r : Str × Str) (hn : validName r.1 = true) (hi : validIp r.2 = true) :
    entry (recBody r) = some r := by
  have h44 : 44 ∉ r.1 := fun hc =>
    (nameByte_props ((validName_plain _ hn).1.2 44 hc)).2.1 rfl
  simp [entry, recBody, splitOnce_append 44 r.1 r.2 h44, hn, hi]

theorem filterMap_entry_recs : ∀ (recs : List (Str × Str)), (∀ r ∈ recs, validName r.1 = true ∧ validIp r.2 = true) →
    (recs.map recBody).filterMap entry = recs
  | [], _ => rfl
  | r :: recs, h => by
    simp only [List.map_cons, List.filterMap_cons, entry_rec r (h r (by simp)).1 (h r (by simp)).2]
    rw [filterMap_entry_recs recs (fun x hx => h x (by simp [hx]))]

/-- The entries the client forwards out of a sequence of payloads that together are the
scanner's records, each payload empty or ending with a newline: exactly the records. -/
theorem client_pairs (ps : List Bytes) (recs : List (Str × Str))
    (hv : ∀ r ∈ recs, validName r.1 = true ∧ validIp r.2 = true)
    (hp : ∀ p ∈ ps, p = [] ∨ p.getLast? = some 10) (hflat : ps.flatten = (recs.map recLine).flatten) :
    ps.flatMap (fun p => (tokens (stripB p)).filterMap entry) = recs := by
  have h1 : ps.flatMap (fun p => (tokens (stripB p)).filterMap entry) = (ps.flatMap tokens).filterMap entry := by
    clear hp hflat
    simp only [tokens_stripB]
    induction ps with
    | nil => rfl
    | cons p ps ih => simp only [List.flatMap_cons, List.filterMap_append, ih]
  rw [h1, tokens_payloads ps hp, hflat, tokens_recs recs hv, filterMap_entry_recs recs hv]

/-! ### newline-free stretches of a stream of lines -/

theorem seg_bound (B : Nat) : ∀ (bodies : List Bytes), (∀ b ∈ bodies, b.length ≤ B) →
    ∀ (a seg c : Bytes), (bodies.map (· ++ [10])).flatten = a ++ seg ++ c → 10 ∉ seg → seg.length ≤ B
  | [], _, a, seg, c, h, _ => by
    have hl := congrArg List.length h
    simp at hl
    omega
  | body :: rest, hb, a, seg, c, h, hs => by
    simp only [List.map_cons, List.flatten_cons, List.append_assoc] at h
    rcases List.append_eq_append_iff.mp h with ⟨a', ha, hr⟩ | ⟨c', hbody, hr⟩
    · -- a = body ++ a'
      cases a' with
      | nil =>
        -- 10 :: R = seg ++ c
        cases seg with
        | nil => simp
        | cons x seg' =>
          simp at hr
          exact absurd (by simp [hr.1]) hs
      | cons x a'' =>
        simp only [List.cons_append, List.singleton_append, List.cons.injEq] at hr
        exact seg_bound B rest (fun b hb' => hb b (by simp [hb'])) a'' seg c (by simpa [List.append_assoc] using hr.2) hs
    · -- body = a ++ c'
      have hlen : c'.length ≤ B := by
        have := hb body (by simp)
        rw [hbody] at this
        simp only [List.length_append] at this
        omega
      rcases List.append_eq_append_iff.mp hr with ⟨s', hs1, hs2⟩ | ⟨s'', hs1, hs2⟩
      · -- c' = seg ++ s'  (hr : seg ++ c = c' ++ ...)  or the other orientation; both give the bound
        first
          | (rw [hs1] at hlen; simp only [List.length_append] at hlen; omega)
          | (cases s' with
             | nil => simp at hs1; rw [hs1]; omega
             | cons x t => simp at hs2; exact absurd (by rw [hs1]; simp [hs2.1]) hs)
      · first
          | (rw [hs1] at hlen; simp only [List.length_append] at hlen; omega)
          | (cases s'' with
             | nil => simp at hs1; rw [hs1]; omega
             | cons x t => simp at hs2; exact absurd (by rw [hs1]; simp [hs2.1]) hs)

theorem hostLines_flatMap : ∀ (ps : List Bytes) (f : Bytes → List (Bytes × Bytes)),
    (ps.map (fun p => (hostLines (f p)).flatten)).flatten = (hostLines (ps.flatMap f)).flatten
  | [], _ => rfl
  | p :: ps, f => by
    simp only [List.map_cons, List.flatten_cons, List.flatMap_cons, hostLines, List.map_append,
      List.flatten_append]
    have := hostLines_flatMap ps f
    simp only [hostLines] at this
    rw [this]

end Sshuttle.HostPipeline
