/-
The measure of `Lemmas/Measure.lean` lifted to a whole tunnel world: every move of the select
loop (a callback, a frame delivery, `pre_select`, dropping finished handlers) either changes
nothing or strictly decreases it.
-/
import SshuttleModel.Lemmas.Measure
import SshuttleModel.Lemmas.TunnelInv

namespace Sshuttle.Tunnel
open Sshuttle.Mux (Frame)
open Sshuttle.Wrap

/-- The moves of the select loop itself (no new connection, no endpoint activity, no
`check_fullness`, no traffic of other flow kinds). -/
def LoopMove : Step → Prop
  | .cb _ _ _ => True
  | .pre _ _ => True
  | .deliver _ _ => True
  | .removeDead _ => True
  | _ => False

theorem sumMu_modifyAt (l : List Flow) (i : Nat) (g : Flow → Flow) (f : Flow) (h : l[i]? = some f) :
    sumMu (modifyAt l i g) + fMu f = sumMu l + fMu (g f) := by
  induction l generalizing i with
  | nil => simp at h
  | cons a rest ih =>
    cases i with
    | zero =>
      simp only [List.getElem?_cons_zero, Option.some.injEq] at h
      subst h
      simp only [modifyAt, sumMu, List.map_cons, List.sum_cons]; omega
    | succ j =>
      simp only [List.getElem?_cons_succ] at h
      have := ih j h
      simp only [modifyAt, sumMu, List.map_cons, List.sum_cons] at this ⊢
      omega

theorem modifyAt_same (l : List Flow) (i : Nat) (g : Flow → Flow) (f : Flow) (h : l[i]? = some f) (hg : g f = f) :
    modifyAt l i g = l := by
  induction l generalizing i with
  | nil => rfl
  | cons a rest ih =>
    cases i with
    | zero =>
      simp only [List.getElem?_cons_zero, Option.some.injEq] at h
      subst h
      simp only [modifyAt, hg]
    | succ j =>
      simp only [List.getElem?_cons_succ] at h
      simp only [modifyAt, ih j h]


/-! ### callbacks and `pre_select` -/

theorem cbC_dec (w : World) (i : Nat) (io : CbIo) (hd : w.died = none) (hd' : (w.cbC i io).died = none) :
    Dec (worldMu w) (worldMu (w.cbC i io)) (w.cbC i io = w) := by
  unfold World.cbC at hd' ⊢
  cases hi : w.flows[i]? with
  | none => right; exact ⟨rfl, rfl⟩
  | some f =>
    simp only at hd' ⊢
    cases hc : f.c with
    | none => right; exact ⟨rfl, rfl⟩
    | some p =>
      simp only [hi, hc] at hd' ⊢
      cases hcb : p.callback w.cm f.app io with
      | died => rw [hcb] at hd'; simp at hd'
      | ok p' m' e' =>
        simp only
        have hdec := callback_dec p w.cm f.app io p' m' e' hcb
        have hsum := sumMu_modifyAt w.flows i (fun f => { f with c := some p', app := e' }) f hi
        have hf : fMu f = eMu f.app + eMu f.dst + (1 + hMu p) + hOpt f.s + (if f.sEver then 0 else newH) := by
          simp only [fMu, hc, hOpt]
        have hf' : fMu { f with c := some p', app := e' } =
            eMu e' + eMu f.dst + (1 + hMu p') + hOpt f.s + (if f.sEver then 0 else newH) := by
          simp only [fMu, hOpt]
        rcases hdec with hlt | ⟨heq, e1, e2, e3⟩
        · left
          simp only [worldMu, hd, Option.isSome_none, Bool.false_eq_true, ↓reduceIte]
          omega
        · right
          subst e1; subst e2; subst e3
          refine ⟨?_, ?_⟩
          · simp only [worldMu, hd, Option.isSome_none, Bool.false_eq_true, ↓reduceIte]; omega
          · have hm : modifyAt w.flows i (fun g : Flow => { g with c := some p', app := f.app }) = w.flows := by
              apply modifyAt_same w.flows i _ f hi
              rw [← hc]
            rw [hm]

theorem cbS_dec (w : World) (i : Nat) (io : CbIo) (hd : w.died = none) (hd' : (w.cbS i io).died = none) :
    Dec (worldMu w) (worldMu (w.cbS i io)) (w.cbS i io = w) := by
  unfold World.cbS at hd' ⊢
  cases hi : w.flows[i]? with
  | none => right; exact ⟨rfl, rfl⟩
  | some f =>
    simp only at hd' ⊢
    cases hc : f.s with
    | none => right; exact ⟨rfl, rfl⟩
    | some p =>
      simp only [hi, hc] at hd' ⊢
      cases hcb : p.callback w.sm f.dst io with
      | died => rw [hcb] at hd'; simp at hd'
      | ok p' m' e' =>
        simp only
        have hdec := callback_dec p w.sm f.dst io p' m' e' hcb
        have hsum := sumMu_modifyAt w.flows i (fun f => { f with s := some p', dst := e' }) f hi
        have hf : fMu f = eMu f.app + eMu f.dst + hOpt f.c + (1 + hMu p) + (if f.sEver then 0 else newH) := by
          simp only [fMu, hc, hOpt]
        have hf' : fMu { f with s := some p', dst := e' } =
            eMu f.app + eMu e' + hOpt f.c + (1 + hMu p') + (if f.sEver then 0 else newH) := by
          simp only [fMu, hOpt]
        rcases hdec with hlt | ⟨heq, e1, e2, e3⟩
        · left
          simp only [worldMu, hd, Option.isSome_none, Bool.false_eq_true, ↓reduceIte]
          omega
        · right
          subst e1; subst e2; subst e3
          refine ⟨?_, ?_⟩
          · simp only [worldMu, hd, Option.isSome_none, Bool.false_eq_true, ↓reduceIte]; omega
          · have hm : modifyAt w.flows i (fun g : Flow => { g with s := some p', dst := f.dst }) = w.flows := by
              apply modifyAt_same w.flows i _ f hi
              rw [← hc]
            rw [hm]


theorem preC_dec (w : World) (i : Nat) (hd : w.died = none) :
    Dec (worldMu w) (worldMu (w.preC i)) (w.preC i = w) := by
  unfold World.preC
  cases hi : w.flows[i]? with
  | none => right; exact ⟨rfl, rfl⟩
  | some f =>
    simp only
    cases hc : f.c with
    | none => right; exact ⟨rfl, rfl⟩
    | some p =>
      simp only
      have hdec := preSelect_dec p w.cm
      have hsum := sumMu_modifyAt w.flows i (fun f => { f with c := some (p.preSelectFlags w.cm).1 }) f hi
      have hf : fMu f = eMu f.app + eMu f.dst + (1 + hMu p) + hOpt f.s + (if f.sEver then 0 else newH) := by
        simp only [fMu, hc, hOpt]
      have hf' : fMu { f with c := some (p.preSelectFlags w.cm).1 } =
          eMu f.app + eMu f.dst + (1 + hMu (p.preSelectFlags w.cm).1) + hOpt f.s + (if f.sEver then 0 else newH) := by
        simp only [fMu, hOpt]
      rcases hdec with hlt | ⟨heq, e1⟩
      · left
        simp only [worldMu, hd, Option.isSome_none, Bool.false_eq_true, ↓reduceIte]
        omega
      · right
        rw [Prod.ext_iff] at e1
        simp only at e1
        refine ⟨?_, ?_⟩
        · simp only [worldMu, hd, Option.isSome_none, Bool.false_eq_true, ↓reduceIte]; omega
        · rw [e1.1, e1.2]
          have hm : modifyAt w.flows i (fun g : Flow => { g with c := some p }) = w.flows := by
            apply modifyAt_same w.flows i _ f hi
            rw [← hc]
          rw [hm]

theorem preS_dec (w : World) (i : Nat) (hd : w.died = none) :
    Dec (worldMu w) (worldMu (w.preS i)) (w.preS i = w) := by
  unfold World.preS
  cases hi : w.flows[i]? with
  | none => right; exact ⟨rfl, rfl⟩
  | some f =>
    simp only
    cases hc : f.s with
    | none => right; exact ⟨rfl, rfl⟩
    | some p =>
      simp only
      have hdec := preSelect_dec p w.sm
      have hsum := sumMu_modifyAt w.flows i (fun f => { f with s := some (p.preSelectFlags w.sm).1 }) f hi
      have hf : fMu f = eMu f.app + eMu f.dst + hOpt f.c + (1 + hMu p) + (if f.sEver then 0 else newH) := by
        simp only [fMu, hc, hOpt]
      have hf' : fMu { f with s := some (p.preSelectFlags w.sm).1 } =
          eMu f.app + eMu f.dst + hOpt f.c + (1 + hMu (p.preSelectFlags w.sm).1) + (if f.sEver then 0 else newH) := by
        simp only [fMu, hOpt]
      rcases hdec with hlt | ⟨heq, e1⟩
      · left
        simp only [worldMu, hd, Option.isSome_none, Bool.false_eq_true, ↓reduceIte]
        omega
      · right
        rw [Prod.ext_iff] at e1
        simp only at e1
        refine ⟨?_, ?_⟩
        · simp only [worldMu, hd, Option.isSome_none, Bool.false_eq_true, ↓reduceIte]; omega
        · rw [e1.1, e1.2]
          have hm : modifyAt w.flows i (fun g : Flow => { g with s := some p }) = w.flows := by
            apply modifyAt_same w.flows i _ f hi
            rw [← hc]
          rw [hm]

/-! ### dropping finished handlers -/

theorem sumMu_map_dec (g : Flow → Flow) (hg : ∀ f, Dec (fMu f) (fMu (g f)) (g f = f)) (l : List Flow) :
    Dec (sumMu l) (sumMu (l.map g)) (l.map g = l) := by
  induction l with
  | nil => right; exact ⟨rfl, rfl⟩
  | cons a rest ih =>
    have := (hg a).both ih
    simp only [sumMu, List.map_cons, List.sum_cons] at this ⊢
    refine this.imp ?_
    rintro ⟨e1, e2⟩
    rw [e1, e2]

theorem rm_generic (w : World) (g : Flow → Flow) (hg : ∀ f, Dec (fMu f) (fMu (g f)) (g f = f)) :
    Dec (worldMu w) (worldMu { w with flows := w.flows.map g }) (({ w with flows := w.flows.map g } : World) = w) := by
  rcases sumMu_map_dec g hg w.flows with h | ⟨h, e⟩
  · left; simp only [worldMu]; omega
  · right
    refine ⟨by simp only [worldMu]; omega, ?_⟩
    rw [e]

theorem rmC_dec (w : World) : Dec (worldMu w) (worldMu w.rmC) (w.rmC = w) := by
  unfold World.rmC
  apply rm_generic
  intro f
  cases hc : f.c with
  | none => right; exact ⟨rfl, rfl⟩
  | some p =>
    simp only
    split
    · right; exact ⟨rfl, rfl⟩
    · left; simp only [fMu, hc, hOpt]; omega

theorem rmS_dec (w : World) : Dec (worldMu w) (worldMu w.rmS) (w.rmS = w) := by
  unfold World.rmS
  apply rm_generic
  intro f
  cases hc : f.s with
  | none => right; exact ⟨rfl, rfl⟩
  | some p =>
    simp only
    split
    · right; exact ⟨rfl, rfl⟩
    · left; simp only [fMu, hc, hOpt]; omega


/-! ### frame delivery -/

theorem gotPacket_mu (w : MuxW) (cmd : Nat) (data : Bytes) (w' : MuxW) (h : w.gotPacket cmd data = .ok w') :
    wMu w' ≤ wMu w + 1 + 2 * data.length := by
  unfold MuxW.gotPacket at h
  split at h
  · injection h with h; subst h
    obtain ⟨c, b, r, ww⟩ := w
    cases r <;> cases ww <;> simp [wMu, b2n] <;> omega
  · split at h
    · injection h with h; subst h
      obtain ⟨c, b, r, ww⟩ := w
      cases r <;> cases ww <;> simp [wMu, b2n] <;> omega
    · split at h
      · injection h with h; subst h
        simp only [wMu, bufMu_append_one]; omega
      · cases h

theorem dispatch_mu (e : End) (flows : List Flow) (fr : Frame) :
    sumMu (dispatch e flows fr).1 ≤ sumMu flows + 1 + 2 * fr.data.length := by
  induction flows with
  | nil => simp [dispatch, sumMu]
  | cons f rest ih =>
    unfold dispatch
    cases hh : handlerAt e f with
    | none =>
      simp only
      simp only [sumMu, List.map_cons, List.sum_cons] at ih ⊢
      omega
    | some p =>
      simp only
      split
      · cases hg : p.mw.gotPacket fr.cmd fr.data with
        | died => simp only [sumMu, List.map_cons, List.sum_cons]; omega
        | ok w' =>
          simp only
          have hm := gotPacket_mu p.mw fr.cmd fr.data w' hg
          have hf : fMu (setHandler e f { p with mw := w' }) + wMu p.mw = fMu f + wMu w' := by
            cases e
            · simp only [handlerAt] at hh
              cases hs : f.sEver <;> simp only [setHandler, fMu, hh, hOpt, hMu, hs] <;> omega
            · simp only [handlerAt] at hh
              cases hs : f.sEver <;> simp only [setHandler, fMu, hh, hOpt, hMu, hs] <;> omega
          simp only [sumMu, List.map_cons, List.sum_cons]
          omega
      · simp only [sumMu, List.map_cons, List.sum_cons] at ih ⊢
        omega

theorem frMu_ge (fr : Frame) : frMu fr ≥ 2 + 3 * fr.data.length := by
  unfold frMu; split <;> omega

theorem connectS_mu (w : World) (fr : Frame) (conn : ConnRes) (hd' : (w.connectS fr conn).died = none) :
    worldMu (w.connectS fr conn) ≤ worldMu w := by
  unfold World.connectS at hd' ⊢
  split
  next h => rw [if_pos h] at hd'; cases hd'
  next h =>
    rw [if_neg h] at hd'
    cases hfi : w.flows.findIdx? (fun f => f.chan == fr.chan && !f.sEver) with
    | none => exact Nat.le_refl _
    | some i =>
      simp only [hfi] at hd' ⊢
      cases hi : w.flows[i]? with
      | none => exact Nat.le_refl _
      | some f =>
        simp only [hi] at hd' ⊢
        have hpred := List.of_findIdx?_eq_some hfi
        rw [hi] at hpred
        simp only [Bool.and_eq_true, Bool.not_eq_eq_eq_not, Bool.not_true] at hpred
        have hse : f.sEver = false := hpred.2
        cases htc : SockW.tryConnect { connecting := true } f.dst conn false with
        | died => rw [htc] at hd'; simp at hd'
        | ok s e =>
          simp only
          have hdec := (tryConnect_dec { connecting := true } f.dst conn false s e htc).le
          have h0 : sMu ({ connecting := true } : SockW) = 4 := by simp [sMu, bufMu, b2n]
          have hw : wMu ({ chan := fr.chan } : MuxW) = 6 := by simp [wMu, bufMu, b2n]
          have hsum := sumMu_modifyAt w.flows i
            (fun f => { f with s := some { sw := s, mw := { chan := fr.chan }, sockFirst := false }, sEver := true, dst := e }) f hi
          have hf : fMu f = eMu f.app + eMu f.dst + hOpt f.c + hOpt f.s + newH := by
            simp only [fMu, hse, Bool.false_eq_true, ↓reduceIte]
          have hf' : fMu { f with s := some { sw := s, mw := { chan := fr.chan }, sockFirst := false }, sEver := true, dst := e } =
              eMu f.app + eMu e + hOpt f.c + (1 + (sMu s + 6 + 1)) + 0 := by
            simp only [fMu, hOpt, hMu, hw, ↓reduceIte]
          simp only [newH] at hf
          simp only [worldMu]
          omega

theorem connectS_pop (w w1 : World) (fr : Frame) (rest : List Frame) (conn : ConnRes)
    (ho : w.cm.out = fr :: rest) (h1 : w1.died = w.died) (h2 : w1.flows = w.flows) (h3 : w1.sm = w.sm)
    (h4 : w1.cm.out = rest) (hd' : (w1.connectS fr conn).died = none) :
    worldMu (w1.connectS fr conn) < worldMu w := by
  have := connectS_mu w1 fr conn hd'
  have hfr := frMu_ge fr
  have hw1 : worldMu w1 + frMu fr = worldMu w := by
    simp only [worldMu, h1, h2, h3, h4, ho, qMu]; omega
  omega

theorem deliverS_dec (w : World) (conn : ConnRes) (hd : w.died = none) (hd' : (w.deliverS conn).died = none) :
    Dec (worldMu w) (worldMu (w.deliverS conn)) (w.deliverS conn = w) := by
  unfold World.deliverS at hd' ⊢
  cases ho : w.cm.out with
  | nil => right; exact ⟨rfl, rfl⟩
  | cons fr rest =>
    simp only [ho] at hd' ⊢
    left
    have hfr := frMu_ge fr
    have hq : qMu w.cm.out = frMu fr + qMu rest := by rw [ho]; rfl
    split at hd' <;> rename_i h1
    · -- PING: answered
      rw [if_pos h1]
      have hping : fr.cmd = Generated.CMD_PING := by simpa using h1
      have hfm : frMu fr = 2 + 3 * fr.data.length + (3 + 3 * fr.data.length) := by simp [frMu, hping]
      simp only [worldMu, hd, Option.isSome_none, Bool.false_eq_true, ↓reduceIte, qMu_send _ _ _ _ pong_ne_ping]
      omega
    · rw [if_neg h1]
      split at hd' <;> rename_i h2
      · rw [if_pos h2]
        simp only [worldMu, hd, Option.isSome_none, Bool.false_eq_true, ↓reduceIte]
        omega
      · rw [if_neg h2]
        split at hd' <;> rename_i h3
        · rw [if_pos h3]
          exact connectS_pop w _ fr rest conn ho rfl rfl rfl rfl hd'
        · rw [if_neg h3]
          split at hd' <;> rename_i h4
          · rw [if_pos h4]
            simp only [worldMu, hd, Option.isSome_none, Bool.false_eq_true, ↓reduceIte]
            omega
          · rw [if_neg h4]
            unfold World.dispatchAt at hd' ⊢
            split at hd' <;> rename_i h5
            · simp at hd'
            · rw [if_neg h5]
              have := dispatch_mu .server w.flows fr
              simp only [worldMu, hd, Option.isSome_none, Bool.false_eq_true, ↓reduceIte]
              omega

theorem deliverC_dec (w : World) (hd : w.died = none) (hd' : w.deliverC.died = none) :
    Dec (worldMu w) (worldMu w.deliverC) (w.deliverC = w) := by
  unfold World.deliverC at hd' ⊢
  cases ho : w.sm.out with
  | nil => right; exact ⟨rfl, rfl⟩
  | cons fr rest =>
    simp only [ho] at hd' ⊢
    left
    have hfr := frMu_ge fr
    have hq : qMu w.sm.out = frMu fr + qMu rest := by rw [ho]; rfl
    split at hd' <;> rename_i h1
    · rw [if_pos h1]
      have hping : fr.cmd = Generated.CMD_PING := by simpa using h1
      have hfm : frMu fr = 2 + 3 * fr.data.length + (3 + 3 * fr.data.length) := by simp [frMu, hping]
      simp only [worldMu, hd, Option.isSome_none, Bool.false_eq_true, ↓reduceIte, qMu_send _ _ _ _ pong_ne_ping]
      omega
    · rw [if_neg h1]
      split at hd' <;> rename_i h2
      · rw [if_pos h2]
        simp only [worldMu, hd, Option.isSome_none, Bool.false_eq_true, ↓reduceIte]
        omega
      · rw [if_neg h2]
        split at hd' <;> rename_i h3
        · rw [if_pos h3]
          split at hd' <;> rename_i h3b
          · simp at hd'
          · rw [if_neg h3b]
            simp only [worldMu, hd, Option.isSome_none, Bool.false_eq_true, ↓reduceIte]
            omega
        · rw [if_neg h3]
          split at hd' <;> rename_i h4
          · rw [if_pos h4]
            simp only [worldMu, hd, Option.isSome_none, Bool.false_eq_true, ↓reduceIte]
            omega
          · rw [if_neg h4]
            unfold World.dispatchAt at hd' ⊢
            split at hd' <;> rename_i h5
            · simp at hd'
            · rw [if_neg h5]
              have := dispatch_mu .client w.flows fr
              simp only [worldMu, hd, Option.isSome_none, Bool.false_eq_true, ↓reduceIte]
              omega

end Sshuttle.Tunnel
