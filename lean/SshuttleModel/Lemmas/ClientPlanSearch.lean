/-
Helper lemmas for C15, part 2: `MultiListener.bind`, the redirector port search (`tcpLoop`,
`tcpStage`) and the DNS port search (`dnsLoop`, `dnsStage`), by induction over the candidate
ports.  Core Lean only.
-/
import SshuttleModel.Lemmas.ClientPlan

namespace Sshuttle.ClientPlan
open Sshuttle.Gen.C15

theorem mem_descRange {s t p : Nat} : p ∈ descRange s t ↔ ∃ i, i < s - t ∧ p = s - i := by
  unfold descRange
  simp only [List.mem_map, List.mem_range]
  constructor
  · rintro ⟨i, hi, rfl⟩; exact ⟨i, hi, rfl⟩
  · rintro ⟨i, hi, rfl⟩; exact ⟨i, hi, rfl⟩

theorem descRange_pos {s t p : Nat} (h : p ∈ descRange s t) : p ≠ 0 := by
  obtain ⟨i, hi, rfl⟩ := mem_descRange.mp h
  omega


theorem lvOf_none (p : Nat) : lvOf none p = (none, 0) := rfl

theorem lvOf_some (a : Addr) (p : Nat) :
    ∃ q, lvOf (some a) p = (some ⟨a.ip, q⟩, q) ∧ ((q = a.port ∧ a.port ≠ 0) ∨ (q = p ∧ a.port = 0)) := by
  unfold lvOf
  by_cases h : a.port ≠ 0
  · exact ⟨a.port, by simp [h], Or.inl ⟨rfl, h⟩⟩
  · refine ⟨p, by simp [h], Or.inr ⟨rfl, by omega⟩⟩
theorem mlBind_ok {env held proto a6 a4 l} (h : mlBind env held proto a6 a4 = .ok l) : l = ⟨a6, a4⟩ := by
  unfold mlBind at h
  cases a6 <;> cases a4 <;> simp only at h <;> grind

/-- What a successful redirector search returns. -/
theorem tcpLoop_bound {env : Env} {l6 l4 : Option Addr} {udp : Bool} {ps : List Nat}
    {used : Option (List Nat)} {lastE : Bool} {r : TcpOk}
    (h : tcpLoop env l6 l4 udp ps used lastE = .bound r) :
    ∃ p ∈ ps, r.tcp = ⟨(lvOf l6 p).1, (lvOf l4 p).1⟩ ∧ r.rp6 = (lvOf l6 p).2 ∧ r.rp4 = (lvOf l4 p).2 ∧
      r.udpL = (if udp then some r.tcp else none) ∧
      (r.lastE = false → lastE = false ∧ ∃ u, used = some u ∧ r.used = u ++ [p]) := by
  induction ps generalizing used lastE with
  | nil => simp [tcpLoop] at h
  | cons p ps ih =>
    unfold tcpLoop at h
    simp only at h
    split at h
    next t hres =>
      split at h
      · cases h
      next u =>
        injection h with h
        subst h
        refine ⟨p, by simp, ?_⟩
        simp only
        -- the pair `res`
        split at hres
        next t' ht =>
          have := mlBind_ok ht
          split at hres
          · split at hres
            next u' hu =>
              have hu' := mlBind_ok hu
              simp only at hres
              injection hres with h1
              subst h1; subst this; subst hu'
              simp_all
            · cases hres
            · cases hres
          · simp only at hres
            injection hres with h1
            subst h1; subst this
            simp_all
        · cases hres
        · cases hres
    · cases h
    · split at h
      · cases h
      next u =>
        obtain ⟨q, hq, h1, h2, h3, h4, h5⟩ := ih h
        refine ⟨q, by simp [hq], h1, h2, h3, h4, ?_⟩
        intro hf
        have := h5 hf
        simp at this
    · cases h

theorem tcpLoop_stop {env : Env} {l6 l4 : Option Addr} {udp : Bool} {ps : List Nat}
    {u : List Nat} {lastE : Bool} {o : Stop}
    (h : tcpLoop env l6 l4 udp ps (some u) lastE = .stop o) : o.isInternal = false := by
  induction ps generalizing u lastE with
  | nil => simp [tcpLoop] at h
  | cons p ps ih =>
    unfold tcpLoop at h
    simp only at h
    split at h
    · cases h
    · injection h with h; subst h; rfl
    · exact ih h
    · injection h with h; subst h; rfl

theorem tcpLoop_exhausted {env : Env} {l6 l4 : Option Addr} {udp : Bool} {ps : List Nat}
    {used : Option (List Nat)} {lastE le' : Bool}
    (h : tcpLoop env l6 l4 udp ps used lastE = .exhausted le') : le' = true ∨ (ps = [] ∧ le' = lastE) := by
  induction ps generalizing used lastE with
  | nil => simp [tcpLoop] at h; right; exact ⟨rfl, h.symm⟩
  | cons p ps ih =>
    unfold tcpLoop at h
    simp only at h
    split at h
    · split at h <;> cases h
    · cases h
    · split at h
      · cases h
      · rcases ih h with h | ⟨_, h⟩
        · left; exact h
        · left; exact h
    · cases h

/-- `lv`/`redirectport` of one family for a candidate port that is non-zero (or irrelevant). -/
def FamBound (l : Option Addr) (sock : Option Addr) (port : Nat) : Prop :=
  match l with
  | none => sock = none ∧ port = 0
  | some a => sock = some ⟨a.ip, port⟩ ∧ port ≠ 0

theorem lvOf_famBound (l : Option Addr) (p : Nat) (hp : p ≠ 0 ∨ ∀ a, l = some a → a.port ≠ 0) :
    FamBound l (lvOf l p).1 (lvOf l p).2 := by
  cases l with
  | none => exact ⟨rfl, rfl⟩
  | some a =>
    obtain ⟨q, hq, hc⟩ := lvOf_some a p
    rw [hq]
    refine ⟨rfl, ?_⟩
    rcases hc with ⟨h1, h2⟩ | ⟨h1, h2⟩
    · omega
    · rcases hp with hp | hp
      · omega
      · exact absurd h2 (hp a rfl)

theorem bothExplicit_ports {l6 l4 : Option Addr} (h : bothExplicit l6 l4 = true) :
    (∀ a, l6 = some a → a.port ≠ 0) ∧ (∀ a, l4 = some a → a.port ≠ 0) := by
  unfold bothExplicit at h
  cases l6 <;> cases l4 <;> simp_all

theorem tcpStage_ok (hU : USED_PORTS_ALWAYS_BOUND = true) {env : Env} {P : Prep} {T : TcpOk}
    (h : tcpStage env P = .ok T) :
    FamBound P.l6 T.tcp.v6 T.rp6 ∧ FamBound P.l4 T.tcp.v4 T.rp4 ∧
    T.udpL = (if P.udp then some T.tcp else none) ∧ (T.lastE = false → ∃ p, T.used = [p]) := by
  unfold tcpStage at h
  simp only [hU, Bool.true_or, ↓reduceIte] at h
  split at h
  next r hr =>
    injection h with h; subst h
    obtain ⟨p, hp, h1, h2, h3, h4, h5⟩ := tcpLoop_bound hr
    have hport : (p ≠ 0 ∨ ∀ a, P.l6 = some a → a.port ≠ 0) ∧ (p ≠ 0 ∨ ∀ a, P.l4 = some a → a.port ≠ 0) := by
      by_cases hb : bothExplicit P.l6 P.l4 = true
      · exact ⟨Or.inr (bothExplicit_ports hb).1, Or.inr (bothExplicit_ports hb).2⟩
      · simp only [hb, Bool.false_eq_true, ↓reduceIte] at hp
        exact ⟨Or.inl (descRange_pos hp), Or.inl (descRange_pos hp)⟩
    refine ⟨?_, ?_, h4, ?_⟩
    · rw [h1, h2]; exact lvOf_famBound _ _ hport.1
    · rw [h1, h3]; exact lvOf_famBound _ _ hport.2
    · intro hf
      obtain ⟨_, u, hu, hused⟩ := h5 hf
      injection hu with hu
      subst hu
      exact ⟨p, by simpa using hused⟩
  · split at h <;> cases h
  · cases h

theorem tcpStage_not_internal (hU : USED_PORTS_ALWAYS_BOUND = true)
    (hne : TCP_PORT_STOP < TCP_PORT_START) (hb : BOTH_EXPLICIT_PORTS ≠ [])
    {env : Env} {P : Prep} {o : Stop} (h : tcpStage env P = .error o) : o.isInternal = false := by
  unfold tcpStage at h
  simp only [hU, Bool.true_or, ↓reduceIte] at h
  split at h
  · cases h
  next le hr =>
    rcases tcpLoop_exhausted hr with hl | ⟨hnil, _⟩
    · subst hl; simp only [↓reduceIte] at h; injection h with h; subst h; rfl
    · exfalso
      split at hnil
      · exact hb hnil
      · have : TCP_PORT_START ∈ descRange TCP_PORT_START TCP_PORT_STOP :=
          mem_descRange.mpr ⟨0, by omega, rfl⟩
        rw [hnil] at this; cases this
  next o' hr =>
    injection h with h; subst h
    exact tcpLoop_stop hr

/-! ### DNS search -/

theorem dnsLoop_bound {env : Env} {held : List (Fam × Addr)} {l6 l4 : Option Addr} {rp6 rp4 : Nat}
    {ps used : List Nat} {asg le : Bool} {l : Listener} {p : Nat}
    (h : dnsLoop env held l6 l4 rp6 rp4 ps used asg le = .bound l p) :
    p ∈ ps ∧ l = ⟨l6.map fun a => ⟨a.ip, p⟩, l4.map fun a => ⟨a.ip, p⟩⟩ ∧
    (DNS_SEARCH_SKIPS_REDIRECT_PORTS = true → p ≠ rp4 ∧ p ≠ rp6) := by
  induction ps generalizing used asg le with
  | nil => simp [dnsLoop] at h
  | cons q ps ih =>
    unfold dnsLoop at h
    split at h
    · obtain ⟨h1, h2⟩ := ih h
      exact ⟨by simp [h1], h2⟩
    next hskip =>
      split at h
      next l' hb =>
        injection h with h1 h2
        subst h1; subst h2
        refine ⟨by simp, mlBind_ok hb, ?_⟩
        intro hflag
        unfold dnsSkip at hskip
        simp only [hflag, Bool.true_and, Bool.or_eq_true, beq_iff_eq, not_or] at hskip
        exact ⟨hskip.2.1, hskip.2.2⟩
      · cases h
      · obtain ⟨h1, h2⟩ := ih h
        exact ⟨by simp [h1], h2⟩
      · cases h

theorem dnsLoop_stop {env : Env} {held : List (Fam × Addr)} {l6 l4 : Option Addr} {rp6 rp4 : Nat}
    {ps used : List Nat} {asg le : Bool} {o : Stop}
    (h : dnsLoop env held l6 l4 rp6 rp4 ps used asg le = .stop o) : o.isInternal = false := by
  induction ps generalizing used asg le with
  | nil => simp [dnsLoop] at h
  | cons q ps ih =>
    unfold dnsLoop at h
    split at h
    · exact ih h
    · split at h
      · cases h
      · injection h with h; subst h; rfl
      · exact ih h
      · injection h with h; subst h; rfl

/-- If the DNS search runs out of candidates without ever having seen EADDRINUSE (neither here
nor in the redirector search), every candidate was skipped by the guard. -/
theorem dnsLoop_exhausted {env : Env} {held : List (Fam × Addr)} {l6 l4 : Option Addr} {rp6 rp4 : Nat}
    {ps used : List Nat} {asg le asg' le' : Bool}
    (h : dnsLoop env held l6 l4 rp6 rp4 ps used asg le = .exhausted asg' le') :
    (le = true → le' = true) ∧ (le' = false → ∀ p ∈ ps, dnsSkip used rp6 rp4 p = true) := by
  induction ps generalizing used asg le with
  | nil =>
    simp only [dnsLoop] at h
    injection h with h1 h2
    subst h2
    exact ⟨id, by simp⟩
  | cons q ps ih =>
    unfold dnsLoop at h
    split at h
    next hskip =>
      obtain ⟨h1, h2⟩ := ih h
      refine ⟨h1, fun hf p hp => ?_⟩
      rcases List.mem_cons.mp hp with rfl | hp
      · exact hskip
      · exact h2 hf p hp
    · split at h
      · cases h
      · cases h
      · obtain ⟨h1, _⟩ := ih h
        refine ⟨fun _ => h1 rfl, fun hf => ?_⟩
        rw [h1 rfl] at hf; cases hf
      · cases h

theorem dnsSkip_single {u rp6 rp4 p : Nat} (h : dnsSkip [u] rp6 rp4 p = true) :
    p = u ∨ p = rp4 ∨ p = rp6 := by
  unfold dnsSkip at h
  simp only [List.contains_cons, List.contains_nil, Bool.or_false, Bool.or_eq_true, Bool.and_eq_true,
    beq_iff_eq] at h
  rcases h with ⟨_, h⟩ | ⟨_, h | h⟩
  · exact Or.inl h
  · exact Or.inr (Or.inl h)
  · exact Or.inr (Or.inr h)

/-- What a successful DNS stage returns. -/
def DnsFact (P : Prep) (T : TcpOk) (D : DnsOk) : Prop :=
  (P.reqDns = false ∧ D.dnsL = none ∧ D.dp6 = 0 ∧ D.dp4 = 0) ∨
  (P.reqDns = true ∧ ∃ p, p ≠ 0 ∧
    D.dnsL = some ⟨P.l6.map fun a => ⟨a.ip, p⟩, P.l4.map fun a => ⟨a.ip, p⟩⟩ ∧
    D.dp6 = (if P.l6.isSome then p else 0) ∧ D.dp4 = (if P.l4.isSome then p else 0) ∧
    (DNS_SEARCH_SKIPS_REDIRECT_PORTS = true → p ≠ T.rp4 ∧ p ≠ T.rp6))

theorem dnsStage_ok {env : Env} {P : Prep} {T : TcpOk} {D : DnsOk}
    (h : dnsStage env P T = .ok D) : DnsFact P T D := by
  unfold dnsStage at h
  split at h
  next hd =>
    injection h with h; subst h
    left
    exact ⟨by simpa using hd, rfl, rfl, rfl⟩
  next hd =>
    right
    refine ⟨by simpa using hd, ?_⟩
    split at h
    next l p hb =>
      injection h with h; subst h
      obtain ⟨h1, h2, h3⟩ := dnsLoop_bound hb
      exact ⟨p, descRange_pos h1, by rw [h2], rfl, rfl, h3⟩
    · cases h
    · split at h
      · split at h <;> cases h
      · split at h
        · cases h
        · split at h <;> cases h

theorem dnsStage_not_internal (hB : DNS_BOUND_CHECK_BEFORE_PRINT = true)
    (hrange : DNS_PORT_STOP + 4 ≤ DNS_PORT_START)
    {env : Env} {P : Prep} {T : TcpOk} {o : Stop}
    (hused : T.lastE = false → ∃ p, T.used = [p])
    (h : dnsStage env P T = .error o) : o.isInternal = false := by
  have hm : ∀ i, i < 4 → DNS_PORT_START - i ∈ descRange DNS_PORT_START DNS_PORT_STOP :=
    fun i hi => mem_descRange.mpr ⟨i, by omega, rfl⟩
  unfold dnsStage at h
  generalize descRange DNS_PORT_START DNS_PORT_STOP = ps at h hm
  split at h
  · cases h
  · split at h
    · cases h
    next o' hs =>
      injection h with h; subst h
      exact dnsLoop_stop hs
    next asg le' he =>
      first | rw [if_pos hB] at h | skip
      split at h
      · injection h with h; subst h; rfl
      next hle =>
        exfalso
        have hle' : le' = false := by simpa using hle
        obtain ⟨h1, h2⟩ := dnsLoop_exhausted he
        have hT : T.lastE = false := by
          cases hT : T.lastE with
          | false => rfl
          | true => rw [h1 hT] at hle'; cases hle'
        obtain ⟨u, hu⟩ := hused hT
        rw [hu] at h2
        have a0 := dnsSkip_single (h2 hle' _ (hm 0 (by omega)))
        have a1 := dnsSkip_single (h2 hle' _ (hm 1 (by omega)))
        have a2 := dnsSkip_single (h2 hle' _ (hm 2 (by omega)))
        have a3 := dnsSkip_single (h2 hle' _ (hm 3 (by omega)))
        omega

end Sshuttle.ClientPlan
