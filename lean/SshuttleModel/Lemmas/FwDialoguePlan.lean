/-
The whole rendered dialogue: what `render` writes for a plan in the writer's domain, and what
`parse` makes of those lines.
-/
import SshuttleModel.Lemmas.FwDialogueRoundtrip

namespace Sshuttle.FwDialogue

theorem mapOpt_ok {α β : Type} (f : α → Option β) (g : α → β) : ∀ (l : List α),
    (∀ a ∈ l, f a = some (g a)) → mapOpt f l = some (l.map g)
  | [], _ => rfl
  | a :: r, h => by
    simp [mapOpt, h a (by simp), mapOpt_ok f g r (fun x hx => h x (by simp [hx]))]

/-- The lines `FirewallClient.start` writes for a plan in the writer's domain. -/
def planLines (p : Plan) : List Bytes :=
  (ROUTES ++ [10]) :: (p.includes.map (fun s => routeBody 0 s ++ [10]) ++
    (p.excludes.map (fun s => routeBody 1 s ++ [10]) ++
      ((NSLIST ++ [10]) :: (p.nslist.map (fun e => nsBody e ++ [10]) ++
        [portsBody p ++ [10], goBody p ++ [10]]))))

theorem render_ok (p : Plan) (hw : PlanWf p) : render p = some (planLines p) := by
  unfold render
  rw [mapOpt_ok (renderRoute 0) (fun s => routeBody 0 s ++ [10]) p.includes
        (fun s hs => renderRoute_ok 0 s (hw.inc s hs)),
      mapOpt_ok (renderRoute 1) (fun s => routeBody 1 s ++ [10]) p.excludes
        (fun s hs => renderRoute_ok 1 s (hw.exc s hs)),
      mapOpt_ok renderNs (fun e => nsBody e ++ [10]) p.nslist (fun e he => renderNs_ok e (hw.ns e he)),
      renderGo_ok p hw.user hw.group hw.tmark, renderPorts_eq]
  simp [planLines]

theorem portOk_ofNat (n : Nat) (h : n ≤ 65535) : portOk (Int.ofNat n) = true := by
  simp [portOk]; omega

/-- The lines before `GO`, parsed: routes, name servers and ports are the plan's. -/
theorem parse_planLines (p : Plan) (hw : PlanWf p) (after : List Bytes) :
    parse (planLines p ++ after) = .ran (planSetup p) (hostLoop after).1 (hostLoop after).2 := by
  unfold planLines
  simp only [List.cons_append]
  rw [parse]
  have h0 : decodeLine (ROUTES ++ [10]) = some ROUTES := by decide
  have h0' : ROUTES ≠ [] := by decide
  simp only [h0, h0', if_false, ne_eq, not_true_eq_false]
  -- routes
  have hr : parseRoutes (p.includes.map (fun s => routeBody 0 s ++ [10]) ++
      (p.excludes.map (fun s => routeBody 1 s ++ [10]) ++
        ((NSLIST ++ [10]) :: (p.nslist.map (fun e => nsBody e ++ [10]) ++
          [portsBody p ++ [10], goBody p ++ [10]]))) ++ after) =
      .ok (p.includes.map (subnetSpec false) ++ (p.excludes.map (subnetSpec true) ++ []), NSLIST,
        p.nslist.map (fun e => nsBody e ++ [10]) ++ [portsBody p ++ [10], goBody p ++ [10]] ++ after) := by
    have e1 := parseRoutes_end (p.nslist.map (fun e => nsBody e ++ [10]) ++
      [portsBody p ++ [10], goBody p ++ [10]] ++ after)
    have e2 := parseRoutes_list 1 (by omega) p.excludes hw.exc _ _ _ _ e1
    have e3 := parseRoutes_list 0 (by omega) p.includes hw.inc _ _ _ _ e2
    simpa [List.append_assoc] using e3
  rw [hr]
  simp only [ne_eq, not_true_eq_false, if_false]
  -- name servers
  have hn : parseNs (p.nslist.map (fun e => nsBody e ++ [10]) ++ [portsBody p ++ [10], goBody p ++ [10]] ++ after) =
      .ok (p.nslist.map (fun e => (Int.ofNat e.1, e.2)) ++ [], portsBody p, (goBody p ++ [10]) :: after) := by
    have e1 := parseNs_end p ((goBody p ++ [10]) :: after)
    have e2 := parseNs_list p.nslist hw.ns _ _ _ _ e1
    simpa [List.append_assoc] using e2
  rw [hn]
  have hs : startsWith (portsBody p) PORTS_ = true := startsWith_append _ _
  simp only [hs, Bool.not_true, Bool.false_eq_true, if_false, ports_split p, pyInt_dec,
    portOk_ofNat _ hw.p6, portOk_ofNat _ hw.p4, portOk_ofNat _ hw.d6, portOk_ofNat _ hw.d4, Bool.and_self]
  simp only [decodeLine_line _ (goBody_ascii p hw.user hw.group hw.tmark) (goBody_trimmed p)]
  have hgne : goBody p ≠ [] := by simp [goBody, GO_]
  have hgs : startsWith (goBody p) GO_ = true := startsWith_append _ _
  simp only [hgne, hgs, decide_false, Bool.not_true, Bool.or_self, Bool.false_eq_true, if_false,
    go_split p hw.user hw.group hw.tmark, pyInt_udp, pyInt_dec, identOf_ident _ hw.user,
    identOf_ident _ hw.group]
  congr 1
  simp only [planSetup, List.append_nil]
  congr 1
  cases p.udp <;> rfl

theorem planLines_isLine (p : Plan) (hw : PlanWf p) : ∀ l ∈ planLines p, IsLine l := by
  intro l hl
  simp only [planLines, List.mem_cons, List.mem_append, List.mem_map, List.mem_nil_iff, or_false] at hl
  rcases hl with rfl | ⟨s, hs, rfl⟩ | ⟨s, hs, rfl⟩ | rfl | ⟨e, he, rfl⟩ | rfl | rfl
  · exact ⟨ROUTES, rfl, by decide⟩
  · exact ⟨_, rfl, routeBody_nl 0 (by omega) s (hw.inc s hs)⟩
  · exact ⟨_, rfl, routeBody_nl 1 (by omega) s (hw.exc s hs)⟩
  · exact ⟨NSLIST, rfl, by decide⟩
  · exact ⟨_, rfl, nsBody_nl e (hw.ns e he)⟩
  · exact ⟨_, rfl, portsBody_nl p⟩
  · exact ⟨_, rfl, goBody_nl p hw.user hw.group hw.tmark⟩

def hostLines (hs : List (Bytes × Bytes)) : List Bytes := hs.map (fun h => hostBody h ++ [10])

theorem hostLines_isLine (hs : List (Bytes × Bytes)) (hok : ∀ h ∈ hs, HostOk h) :
    ∀ l ∈ hostLines hs, IsLine l := by
  intro l hl
  simp only [hostLines, List.mem_map] at hl
  obtain ⟨h, hh, rfl⟩ := hl
  exact ⟨_, rfl, hostBody_nl h (hok h hh)⟩

end Sshuttle.FwDialogue
