/-
Helper lemmas for C15, part 4: the Boolean evaluators of `Spec/PlanConsistent.lean` (what the
driver prints and the harness compares with its own oracle) decide exactly the predicates (a)–(e).
-/
import SshuttleModel.Spec.PlanConsistent
namespace Sshuttle.PlanSpec
open Sshuttle.ClientPlan

theorem allFam_iff (q : Fam → Bool) : allFam q = true ↔ ∀ f, q f = true := by
  unfold allFam
  constructor
  · intro h f; cases f <;> simp_all
  · intro h; simp [h]

theorem chkE_iff (p : Plan) : chkE p = true ↔ DnsPortDistinct p := by
  unfold chkE DnsPortDistinct
  simp only [allFam_iff, Bool.or_eq_true, beq_iff_eq, bne_iff_ne, ne_eq]
  constructor
  · intro h f g hne; rcases h f g with h | h
    · exact absurd h hne
    · exact h
  · intro h f g
    by_cases hz : dp p f = 0
    · exact Or.inl hz
    · exact Or.inr (h f g hz)

theorem chkB_iff (inc : List Subnet) (p : Plan) : chkB inc p = true ↔ ListenExcluded inc p := by
  unfold chkB ListenExcluded
  simp only [allFam_iff]
  constructor
  · intro h f a ha
    have := h f
    rw [ha] at this
    simp only [Bool.or_eq_true, List.contains_eq_mem, decide_eq_true_eq, List.any_eq_true, Bool.and_eq_true, beq_iff_eq] at this
    exact this
  · intro h f
    cases ha : Listener.at p.tcp f with
    | none => rfl
    | some a =>
      simp only [Bool.or_eq_true, List.contains_eq_mem, decide_eq_true_eq, List.any_eq_true, Bool.and_eq_true, beq_iff_eq]
      exact h f a ha

theorem chkA_iff (g : Bool) (p : Plan) : chkA g p = true ↔ DefaultLoopback g p := by
  unfold chkA DefaultLoopback
  simp only [Bool.or_eq_true, List.all_eq_true, allFam_iff]
  constructor
  · intro h hg l hl f a ha
    rcases h with h | h
    · rw [hg] at h; cases h
    · have := h l hl f
      rw [ha] at this
      simpa using this
  · intro h
    cases g with
    | true => exact Or.inl rfl
    | false =>
      right
      intro l hl f
      cases ha : Listener.at l f with
      | none => rfl
      | some a => simpa using h rfl l hl f a ha

theorem chkC_iff (p : Plan) : chkC p = true ↔ Ipv6Exactly p := by
  unfold chkC Ipv6Exactly
  cases h : ipv6Active p
  · simp [List.all_eq_true, and_assoc]
  · simp only [↓reduceIte, Bool.and_eq_true, bne_iff_ne, ne_eq, List.any_eq_true, List.mem_append,
      beq_iff_eq, forall_const, Bool.true_eq_false, false_implies, and_true]


theorem chkD_iff (p : Plan) : chkD p = true ↔ ListenersMatch p := by
  unfold chkD ListenersMatch
  simp only [allFam_iff]
  constructor
  · intro h f
    have := h f
    simp only [Bool.and_eq_true, Bool.or_eq_true, Bool.not_eq_eq_eq_not, Bool.not_true, List.any_eq_false,
      beq_iff_eq, Option.isSome_iff_exists] at this
    obtain ⟨⟨⟨⟨⟨⟨h1, h2⟩, h3⟩, h4⟩, h5⟩, h6⟩, h7⟩ := this
    refine ⟨?_, ?_, h3, h4, ?_, ?_, ?_, ?_⟩
    · rintro ⟨s, hs, hf⟩
      rcases h1 with h1 | h1
      · exact absurd hf (by simpa using h1 s hs)
      · exact Option.isSome_iff_exists.mpr h1
    · rintro ⟨n, hn, hf⟩
      rcases h2 with h2 | h2
      · exact absurd hf (by simpa using h2 n hn)
      · cases hd : p.dnsL with
        | none => rw [hd] at h2; simp at h2
        | some d => rw [hd] at h2; exact ⟨d, rfl, by simpa [Option.isSome_iff_exists] using h2⟩
    · intro hu; rw [hu] at h5; simpa using h5
    · intro hu; rw [hu] at h5; simpa using h5
    · intro a ha; rw [ha] at h6; simpa using h6
    · intro d a hd ha
      rw [hd] at h7
      simp only [Option.bind_some] at h7
      rw [ha] at h7; simpa using h7
  · intro h f
    obtain ⟨h1, h2, h3, h4, h5, h6, h7, h8⟩ := h f
    simp only [Bool.and_eq_true, Bool.or_eq_true, Bool.not_eq_eq_eq_not, Bool.not_true, List.any_eq_false,
      beq_iff_eq]
    refine ⟨⟨⟨⟨⟨⟨?_, ?_⟩, h3⟩, h4⟩, ?_⟩, ?_⟩, ?_⟩
    · by_cases he : ∃ s ∈ p.includes, s.fam = f
      · exact Or.inr (h1 he)
      · left; intro s hs; simpa using fun hf => he ⟨s, hs, hf⟩
    · by_cases he : ∃ n ∈ p.nslist, n.fam = f
      · obtain ⟨d, hd, hs⟩ := h2 he
        right; rw [hd]; exact hs
      · left; intro n hn; simpa using fun hf => he ⟨n, hn, hf⟩
    · cases hu : p.udp with
      | true => simp [h5 hu]
      | false => simp [h6 hu]
    · cases ha : Listener.at p.tcp f with
      | none => rfl
      | some a => simpa using h7 a ha
    · cases hd : p.dnsL with
      | none => rfl
      | some d =>
        simp only [Option.bind_some]
        cases ha : Listener.at d f with
        | none => rfl
        | some a => simpa using h8 d a hd ha

end Sshuttle.PlanSpec
