/-
Environment model for C04: the kernel packet-filter configuration as seen through
`iptables`/`ip6tables`, `nft` and `pfctl`, each command's effect **and** its natural
success/failure on the current state, and a fault schedule that makes chosen external
commands fail with no effect.

Modelled, not verified (DESIGN §1.4).  The iptables/nft part is validated against the real
binaries inside `unshare -n` by the thorough tier of `harness/props/c04.py`; the pf part is
written from the manual pages only and is unvalidated.

Core Lean only.
-/
namespace Sshuttle.Fw

inductive Fam | v4 | v6
  deriving DecidableEq, Repr

inductive Tbl | nat | mangle | filter | raw | security
  deriving DecidableEq, Repr

/-- Which of sshuttle's per-port chains: `sshuttle-<p>`, `sshuttle-m-<p>`, `sshuttle-t-<p>`,
`sshuttle-d-<p>`. -/
inductive Kind | main | mark | tproxy | divert
  deriving DecidableEq, Repr

/-- A chain name.  The names sshuttle derives from a port are kept structured (kind, port), so
that "the same name" is "the same kind and port"; the textual rendering (`'sshuttle-%s' % port`)
is injective and is done by the driver only. -/
inductive CName
  | builtin (s : String)
  | own (k : Kind) (port : Nat)
  | user (s : String)
  deriving DecidableEq, Repr

/-- Target of a rule (`-j X`): none, a standard target/extension, or a chain. -/
inductive Tgt
  | none
  | std (s : String)
  | chain (c : CName)
  deriving DecidableEq, Repr

/-- A rule: its target and the remaining argv tokens in the order given (the payload is opaque;
`-D` deletes the first rule that is equal token by token, as sshuttle always repeats the tokens
of the `-I` it wants to undo). -/
structure Rule where
  tgt : Tgt
  args : List String
  deriving DecidableEq, Repr

structure Chain where
  name : CName
  rules : List Rule
  deriving DecidableEq, Repr

abbrev Table := List Chain

namespace Table

def has (t : Table) (c : CName) : Bool := t.any fun ch => ch.name = c

/-- Some rule somewhere in the table jumps to `c`. -/
def referenced (t : Table) (c : CName) : Bool :=
  t.any fun ch => ch.rules.any fun r => r.tgt = .chain c

def modify (t : Table) (c : CName) (f : List Rule → List Rule) : Table :=
  t.map fun ch => if ch.name = c then { ch with rules := f ch.rules } else ch

/-- A rule can be loaded only if its target exists. -/
def tgtOk (t : Table) (r : Rule) : Bool :=
  match r.tgt with
  | .chain c => t.has c
  | _ => true

def isBuiltin : CName → Bool
  | .builtin _ => true
  | _ => false

end Table

inductive IptOp
  | newChain (c : CName)               -- -N
  | flush (c : CName)                  -- -F
  | delChain (c : CName)               -- -X
  | insert (c : CName) (r : Rule)      -- -I c 1 r
  | append (c : CName) (r : Rule)      -- -A c r
  | delete (c : CName) (r : Rule)      -- -D c r
  deriving DecidableEq, Repr

/-- Effect and natural success (`some`) / failure (`none`, no effect) of one command on a table:
`-N` fails if the chain exists; `-X` fails if it is missing, built-in, non-empty or referenced;
`-D` fails if no equal rule exists; `-F`/`-A`/`-I` fail on a missing chain; a rule whose
target chain does not exist cannot be loaded. -/
def Table.apply (t : Table) : IptOp → Option Table
  | .newChain c => if t.has c then none else some (t ++ [⟨c, []⟩])
  | .flush c => if t.has c then some (t.modify c fun _ => []) else none
  | .delChain c =>
    if t.has c && !Table.isBuiltin c && !(t.any fun ch => ch.name = c && !ch.rules.isEmpty)
        && !t.referenced c
    then some (t.filter fun ch => ch.name ≠ c) else none
  | .insert c r => if t.has c && t.tgtOk r then some (t.modify c fun rs => r :: rs) else none
  | .append c r => if t.has c && t.tgtOk r then some (t.modify c fun rs => rs ++ [r]) else none
  | .delete c r =>
    if t.any fun ch => ch.name = c && ch.rules.contains r
    then some (t.modify c fun rs => rs.erase r) else none

/-! ### nft (family `inet`) -/

/-- Table name: sshuttle's `sshuttle-ipv4-<p>` / `sshuttle-ipv6-<p>` or anything else. -/
inductive NName
  | own (f : Fam) (port : Nat)
  | user (s : String)
  deriving DecidableEq, Repr

structure NftChain where
  name : String
  spec : String
  rules : List (List String)
  deriving DecidableEq, Repr

structure NftTable where
  name : NName
  chains : List NftChain
  deriving DecidableEq, Repr

inductive NftOp
  | addTable (n : NName)
  | deleteTable (n : NName)
  | addChain (n : NName) (c : String) (spec : String)
  | flushChain (n : NName) (c : String)
  | addRule (n : NName) (c : String) (r : List String)
  deriving DecidableEq, Repr

def nftHas (ts : List NftTable) (n : NName) : Bool := ts.any fun t => t.name = n

def nftHasChain (ts : List NftTable) (n : NName) (c : String) : Bool :=
  ts.any fun t => t.name = n && t.chains.any fun ch => ch.name = c

def nftModify (ts : List NftTable) (n : NName) (f : List NftChain → List NftChain) : List NftTable :=
  ts.map fun t => if t.name = n then { t with chains := f t.chains } else t

/-- `jump X` / `goto X` at the start of a rule needs chain `X` in the same table. -/
def nftJumpOk (ts : List NftTable) (n : NName) (r : List String) : Bool :=
  match r with
  | "jump" :: x :: _ => nftHasChain ts n x
  | "goto" :: x :: _ => nftHasChain ts n x
  | _ => true

/-- `add table` / `add chain` are idempotent; `delete table` fails on a missing table and removes
the table with all its chains and rules; `flush chain` / `add rule` need the table and chain. -/
def nftApply (ts : List NftTable) : NftOp → Option (List NftTable)
  | .addTable n => if nftHas ts n then some ts else some (ts ++ [⟨n, []⟩])
  | .deleteTable n => if nftHas ts n then some (ts.filter fun t => t.name ≠ n) else none
  | .addChain n c spec =>
    if nftHas ts n then
      if nftHasChain ts n c then some ts
      else some (nftModify ts n fun cs => cs ++ [⟨c, spec, []⟩])
    else none
  | .flushChain n c =>
    if nftHasChain ts n c then
      some (nftModify ts n fun cs => cs.map fun ch => if ch.name = c then { ch with rules := [] } else ch)
    else none
  | .addRule n c r =>
    if nftHasChain ts n c && nftJumpOk ts n r then
      some (nftModify ts n fun cs => cs.map fun ch =>
        if ch.name = c then { ch with rules := ch.rules ++ [r] } else ch)
    else none

/-! ### pf (from the manual pages only; unvalidated) -/

/-- Anchor name: sshuttle's `sshuttle-<p>` (IPv4) / `sshuttle6-<p>` (IPv6) or anything else. -/
inductive AName
  | own (f : Fam) (port : Nat)
  | user (s : String)
  deriving DecidableEq, Repr

structure PfState where
  enabled : Bool := false
  /-- Darwin reference tokens handed out by `pfctl -E`, newest last. -/
  tokens : List Nat := []
  nextToken : Nat := 1
  /-- FreeBSD: the `pf` kernel module is loaded. -/
  loaded : Bool := true
  /-- `set skip on lo` is in force. -/
  skipLo : Bool := false
  /-- main ruleset, one text line per rule (anchor references are `anchor "x"` / `rdr-anchor "x"`). -/
  main : List String := []
  /-- content of each anchor that has any. -/
  anchors : List (AName × List String) := []
  deriving DecidableEq, Repr

inductive PfOp
  | showAll                                  -- pfctl -s all            (query)
  | showLo                                   -- pfctl -s Interfaces -i lo -v   (query)
  | loadMain (rules : List String)           -- pfctl -f /dev/stdin     (replaces the main ruleset)
  | loadAnchor (a : AName) (rules : List String)   -- pfctl -a A -f /dev/stdin
  | flushAnchor (a : AName)                  -- pfctl -a A -F all
  | enable                                   -- pfctl -e
  | disable                                  -- pfctl -d
  | enableRef                                -- pfctl -E  (Darwin)
  | releaseRef (tok : Nat)                   -- pfctl -X tok (Darwin)
  | addAnchorRef (rdr : Bool) (a : AName)    -- DIOCCHANGERULE ioctl appending `anchor`/`rdr-anchor`
  | kldload
  | kldunload
  deriving DecidableEq, Repr

def anchorText : AName → String
  | .own .v4 p => s!"sshuttle-{p}"
  | .own .v6 p => s!"sshuttle6-{p}"
  | .user s => s

def anchorRefLine (rdr : Bool) (a : AName) : String :=
  (if rdr then "rdr-anchor \"" else "anchor \"") ++ anchorText a ++ "\" all"

/-- `-e` fails when already enabled and `-d` when already disabled (pfctl reports an error and
exits non-zero); loading replaces; flushing an anchor always succeeds; `-X` needs a live token;
a main-ruleset load drops `set skip` (the new ruleset has none). -/
def pfApply (p : PfState) : PfOp → Option PfState
  | .showAll => some p
  | .showLo => some p
  | .loadMain rules => some { p with main := rules, skipLo := false }
  | .loadAnchor a rules =>
    some { p with anchors := (p.anchors.filter fun x => x.1 ≠ a) ++ [(a, rules)] }
  | .flushAnchor a => some { p with anchors := p.anchors.filter fun x => x.1 ≠ a }
  | .enable => if p.enabled then none else some { p with enabled := true }
  | .disable => if p.enabled then some { p with enabled := false } else none
  | .enableRef =>
    some { p with enabled := true, tokens := p.tokens ++ [p.nextToken], nextToken := p.nextToken + 1 }
  | .releaseRef tok =>
    if p.tokens.contains tok then
      let ts := p.tokens.erase tok
      some { p with tokens := ts, enabled := !ts.isEmpty }
    else none
  | .addAnchorRef rdr a => some { p with main := p.main ++ [anchorRefLine rdr a] }
  | .kldload => if p.loaded then none else some { p with loaded := true }
  | .kldunload => if p.loaded then some { p with loaded := false, enabled := false } else none

/-! ### whole configuration, commands, fault schedule -/

structure FwState where
  ipt : Fam → Tbl → Table
  nft : List NftTable
  pf : PfState

def FwState.setTable (s : FwState) (f : Fam) (t : Tbl) (x : Table) : FwState :=
  { s with ipt := fun f' t' => if f' = f ∧ t' = t then x else s.ipt f' t' }

inductive Cmd
  | ipt (f : Fam) (t : Tbl) (op : IptOp)
  | iptList (f : Fam) (t : Tbl)            -- `-nL` existence query
  | nft (op : NftOp)
  | pf (op : PfOp)
  | resolvectl                             -- `resolvectl flush-caches`: no packet-filter effect
  deriving DecidableEq, Repr

/-- Natural behaviour of a command: the new configuration, or `none` for failure (no effect). -/
def FwState.apply (s : FwState) : Cmd → Option FwState
  | .ipt f t op => (Table.apply (s.ipt f t) op).map fun x => s.setTable f t x
  | .iptList _ _ => some s
  | .nft op => (nftApply s.nft op).map fun x => { s with nft := x }
  | .pf op => (pfApply s.pf op).map fun x => { s with pf := x }
  | .resolvectl => some s

/-- The world the helper runs in: configuration, hosts-file lines carrying this port's marker,
number of external commands issued so far, the fault schedule (`fail i` = the command with index
`i`, counted from 0 over the whole run, fails with no effect), and the log of commands with
their outcome. -/
structure Env where
  st : FwState
  hosts : List (String × String) := []
  count : Nat := 0
  fail : Nat → Bool := fun _ => false
  log : List (Cmd × Bool) := []

/-- Run one external command: injected failure, else natural behaviour. -/
def exec (c : Cmd) (e : Env) : Bool × Env :=
  if e.fail e.count then
    (false, { e with count := e.count + 1, log := e.log ++ [(c, false)] })
  else
    match e.st.apply c with
    | some st' => (true, { e with st := st', count := e.count + 1, log := e.log ++ [(c, true)] })
    | none => (false, { e with count := e.count + 1, log := e.log ++ [(c, false)] })

/-- What `iptables -t T -nL` shows, as far as `ipt_chain_exists` looks: the chain names. -/
def FwState.chainNames (s : FwState) (f : Fam) (t : Tbl) : List CName := (s.ipt f t).map (·.name)

end Sshuttle.Fw
