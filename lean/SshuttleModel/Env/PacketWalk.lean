/-
Environment model for C03: what the kernel does with a packet given the structured
rules (modelled, not verified — DESIGN §1.4).

* netfilter (iptables / ip6tables / nft `inet` tables): chains of ordered rules, first match
  decides; `RETURN` (or the end of a user chain) resumes the calling chain, `MARK` is
  non-terminating, `REDIRECT` / `TPROXY` / `ACCEPT` end the traversal.
* pf: filter rules last-match (`pass out [route-to lo0]`), translation rules (`rdr`) first
  match on `lo0`; OpenBSD `pass in on lo0 … divert-to/rdr-to` are filter rules (last match).
  Modelled from the manual pages only; nothing in the sandbox can run pf.
Core Lean only.
-/
import SshuttleModel.Code.FwRules

namespace Sshuttle.Fw

structure Pkt where
  fam6      : Bool                 -- IPv6 packet
  dst       : Nat                  -- destination address as a number
  dport     : Nat
  proto     : Proto
  loc       : Bool                 -- locally generated (OUTPUT) vs forwarded (PREROUTING)
  dstLocal  : Bool                 -- destination is one of this host's addresses
  uid       : String := ""         -- owner of the sending socket (locally generated only)
  gid       : String := ""
  mark      : Option String := none   -- firewall mark the packet arrives with
  hasSocket : Bool := false        -- `-m socket`: an established/listening local socket exists
  srcLo     : Bool := false        -- source address is the loopback address (pf `from ! lo`)
deriving Repr, DecidableEq

def bits (v6 : Bool) : Nat := if v6 then 128 else 32

/-- `dst` lies in the network `addr/width` of a `n`-bit family (host bits of `addr` are
masked off, as `iptables`, `nft` and `pf` do). -/
def inPrefix (n addr width dst : Nat) : Bool :=
  addr / 2 ^ (n - width) == dst / 2 ^ (n - width)

def portsMatch : Ports → Nat → Bool
  | .single p, d => d == p
  | .range f l, d => decide (f ≤ d) && decide (d ≤ l)

def destMatch (d : Dest) (p : Pkt) : Bool :=
  (p.fam6 == d.v6) && inPrefix (bits d.v6) d.addr (d.width.getD (bits d.v6)) p.dst

/-- Does the packet, carrying firewall mark `mark`, match? -/
def matchRule (m : Match) (p : Pkt) (mark : Option String) : Bool :=
  (!m.socket || p.hasSocket) &&
  (match m.dst with | none => true | some d => destMatch d p) &&
  (match m.proto with | none => true | some pr => pr == p.proto) &&
  (match m.dports with | none => true | some ps => portsMatch ps p.dport) &&
  (!m.dstLocal || p.dstLocal) &&
  (match m.mark with | none => true | some x => mark == some x) &&
  (!m.owner || p.loc) &&
  (match m.uid with | none => true | some u => p.loc && p.uid == u) &&
  (match m.gid with | none => true | some g => p.loc && p.gid == g) &&
  (match m.nfproto with | none => true | some v6 => p.fam6 == v6) &&
  (match m.nfprotoNe with | none => true | some v6 => p.fam6 != v6)

/-- Result of traversing a chain. -/
inductive Res
  | fall (mark : Option String)          -- fell off the end / RETURN: the caller continues
  | accept (mark : Option String)
  | redirect (port : Nat)
  | tproxy (mark : String) (port : Nat)
  | depth                                -- jump nesting exceeded (never for sshuttle's chains)
deriving Repr, DecidableEq

structure ChainKey where
  sp : Space
  c  : ChainName
deriving Repr, DecidableEq

/-- Rule tables: association list, newest binding first; a chain without binding has no rules. -/
abbrev Ruleset := List (ChainKey × List Rule)

def Ruleset.empty : Ruleset := []

def Ruleset.get : Ruleset → ChainKey → List Rule
  | [], _ => []
  | (k', v) :: rest, k => if k' = k then v else Ruleset.get rest k

def Ruleset.set (rs : Ruleset) (k : ChainKey) (v : List Rule) : Ruleset := (k, v) :: rs

/-- Effect of one (successful) command on the tables. -/
def applyCmd (rs : Ruleset) : Cmd → Ruleset
  | .iptNew v6 t c => rs.set ⟨.ipt v6 t, c⟩ (rs.get ⟨.ipt v6 t, c⟩)
  | .iptFlush v6 t c => rs.set ⟨.ipt v6 t, c⟩ []
  | .iptInsert v6 t c r => rs.set ⟨.ipt v6 t, c⟩ (r :: rs.get ⟨.ipt v6 t, c⟩)
  | .iptAppend v6 t c r => rs.set ⟨.ipt v6 t, c⟩ (rs.get ⟨.ipt v6 t, c⟩ ++ [r])
  | .nftSetup v6 port .flushChain _ => rs.set ⟨.nft v6 port, .nft v6 port⟩ []
  | .nftSetup _ _ _ _ => rs
  | .nftRule v6 port c r => rs.set ⟨.nft v6 port, c⟩ (rs.get ⟨.nft v6 port, c⟩ ++ [r])
  | .pfLoad _ _ _ => rs

def load (cmds : List Cmd) : Ruleset := cmds.foldl applyCmd Ruleset.empty

/-- Traverse a rule list; `call c mark` traverses the user chain `c`. -/
def walkList (call : ChainName → Option String → Res) (p : Pkt) :
    List Rule → Option String → Res
  | [], mark => .fall mark
  | r :: rs, mark =>
    if matchRule r.m p mark then
      match r.t with
      | .ret => .fall mark
      | .accept => .accept mark
      | .redirect port => .redirect port
      | .tproxy m port => .tproxy m port
      | .setMark m => walkList call p rs (some m)
      | .jump c =>
        match call c mark with
        | .fall mark' => walkList call p rs mark'
        | res => res
    else walkList call p rs mark

/-- Traverse chain `c` of `sp` with jump nesting at most `fuel`. -/
def walkChain (rs : Ruleset) (sp : Space) (p : Pkt) : Nat → ChainName → Option String → Res
  | 0, _, _ => .depth
  | fuel + 1, c, mark => walkList (fun c' m => walkChain rs sp p fuel c' m) p (rs.get ⟨sp, c⟩) mark

def walkFuel : Nat := 4

inductive Verdict
  | untouched
  | divert (port : Nat)     -- handed to the local listener on `port`
deriving Repr, DecidableEq

def Res.verdict : Res → Verdict
  | .redirect port => .divert port
  | .tproxy _ port => .divert port
  | _ => .untouched

def Res.markOr (r : Res) (dflt : Option String) : Option String :=
  match r with
  | .fall m => m
  | .accept m => m
  | .tproxy m _ => some m
  | _ => dflt

/-- nat method: a locally generated packet passes mangle OUTPUT (which may set the mark)
and then nat OUTPUT; a forwarded one passes nat PREROUTING. -/
def verdictNat (rs : Ruleset) (p : Pkt) : Verdict :=
  if p.loc then
    let mark := (walkChain rs (.ipt p.fam6 .mangle) p walkFuel .output p.mark).markOr p.mark
    (walkChain rs (.ipt p.fam6 .nat) p walkFuel .output mark).verdict
  else (walkChain rs (.ipt p.fam6 .nat) p walkFuel .prerouting p.mark).verdict

/-- nft method: the `inet` tables of both families see every packet; the base chains of the
IPv6 call's table and of the IPv4 call's table are traversed; the first nat verdict stands. -/
def verdictNft (rs : Ruleset) (port6 port4 : Nat) (p : Pkt) : Verdict :=
  let base : ChainName := if p.loc then .nftOutput else .nftPrerouting
  match (walkChain rs (.nft true port6) p walkFuel base p.mark).verdict with
  | .divert port => .divert port
  | .untouched => (walkChain rs (.nft false port4) p walkFuel base p.mark).verdict

/-- tproxy method: a forwarded packet passes mangle PREROUTING.  A locally generated one
passes mangle OUTPUT; if that changed its mark, the documented policy routing
(`ip rule add fwmark … lookup …; ip route add local default dev lo table …`) delivers it to
`lo`, where it passes mangle PREROUTING carrying the mark. -/
def verdictTproxy (rs : Ruleset) (p : Pkt) : Verdict :=
  if p.loc then
    let mark := (walkChain rs (.ipt p.fam6 .mangle) p walkFuel .output p.mark).markOr p.mark
    if mark = p.mark then .untouched
    else (walkChain rs (.ipt p.fam6 .mangle) p walkFuel .prerouting mark).verdict
  else (walkChain rs (.ipt p.fam6 .mangle) p walkFuel .prerouting p.mark).verdict

/-! ## pf -/

def pfNetMatch (v6 : Bool) (n : PfNet) (p : Pkt) : Bool :=
  inPrefix (bits v6) n.addr n.width p.dst &&
  (match n.ports with | none => true | some (f, l) => decide (f ≤ p.dport) && decide (p.dport ≤ l))

def pfToMatch (v6 : Bool) (tbl : List Ns) (to : PfTo) (p : Pkt) : Bool :=
  match to with
  | .net n => pfNetMatch v6 n p
  | .dnsTable => tbl.any (fun ns => ns.addr == p.dst) && p.dport == 53

/-- The `<dns_servers>` table of the rule text. -/
def pfTable : List PfRule → List Ns
  | [] => []
  | .table ns :: _ => ns
  | _ :: rest => pfTable rest

/-- A `pass out …` rule that matches the outbound packet yields its `routeTo` flag. -/
def pfOutMatch (tbl : List Ns) (p : Pkt) : PfRule → Option Bool
  | .passOut _ v6 proto to routeTo =>
    if p.fam6 == v6 && proto == p.proto && pfToMatch v6 tbl to p then some routeTo else none
  | _ => none

/-- `pass out …` rules that match the outbound packet, in order; the value is `routeTo`. -/
def pfOutMatches (tbl : List Ns) (p : Pkt) (rules : List PfRule) : List Bool :=
  rules.filterMap (pfOutMatch tbl p)

/-- A translation rule that matches the packet once it is on `lo0` yields its port. -/
def pfTransMatch (tbl : List Ns) (p : Pkt) : PfRule → Option Nat
  | .translate os v6 proto to port =>
    let fromOk := match os, to with
      | .freebsd, .net _ => !p.srcLo      -- `from ! 127.0.0.1`
      | _, _ => true
    if p.fam6 == v6 && proto == p.proto && fromOk && pfToMatch v6 tbl to p then some port else none
  | _ => none

/-- Translation rules that match the packet once it is on `lo0`, in order; value = port. -/
def pfTransMatches (tbl : List Ns) (p : Pkt) (rules : List PfRule) : List Nat :=
  rules.filterMap (pfTransMatch tbl p)

/-- Anchor evaluation: the last matching `pass out` decides whether the packet is routed to
`lo0`; there, FreeBSD/Darwin take the first matching `rdr`, OpenBSD the last matching
`pass in … divert-to/rdr-to`. -/
def verdictPfAnchor (os : PfOs) (rules : List PfRule) (p : Pkt) : Verdict :=
  let tbl := pfTable rules
  match (pfOutMatches tbl p rules).getLast? with
  | some true =>
    let ts := pfTransMatches tbl p rules
    (match os with
     | .freebsd => match ts.head? with | some port => .divert port | none => .untouched
     | .openbsd => match ts.getLast? with | some port => .divert port | none => .untouched)
  | _ => .untouched

/-- All anchors loaded by the commands (one per family call). -/
def pfAnchors : List Cmd → List (List PfRule)
  | [] => []
  | .pfLoad _ _ rules :: rest => rules :: pfAnchors rest
  | _ :: rest => pfAnchors rest

/-- The main ruleset evaluates `anchor "sshuttle…"` for every packet; an anchor of the other
family matches nothing (`inet` / `inet6`). -/
def verdictPf (os : PfOs) (cmds : List Cmd) (p : Pkt) : Verdict :=
  (pfAnchors cmds).foldl (fun v rules =>
    match v with
    | .divert port => .divert port
    | .untouched => verdictPfAnchor os rules p) .untouched

end Sshuttle.Fw
